package gobinlog

import (
	"context"
	"testing"

	"github.com/Breeze0806/gobinlog/replication"
)

type f13Mapper struct {
	tables map[MysqlTableName]*mysqlTableInfo
	calls  []MysqlTableName
}

func (m *f13Mapper) MysqlTable(name MysqlTableName) (MysqlTable, error) {
	m.calls = append(m.calls, name)
	return m.tables[name], nil
}

func f13Table(db, table string, fields ...string) *mysqlTableInfo {
	info := &mysqlTableInfo{name: NewMysqlTableName(db, table)}
	for _, f := range fields {
		info.columns = append(info.columns, &mysqlColumnAttribute{field: f, typ: "int(11)"})
	}
	return info
}

// One dump attempt that reads through a master restart: binlog file 1 was written before the restart (table id 108 =
// shop.orders), file 2 after it (the table-id counter started over: 108 = shop.users).
func TestF13_TableIDReusedForAnotherTableInOneAttempt(t *testing.T) {
	orders := f13Table("shop", "orders", "order_id", "amount")
	users := f13Table("shop", "users", "uid", "age")
	m := &f13Mapper{tables: map[MysqlTableName]*mysqlTableInfo{orders.name: orders, users.name: users}}
	s, _ := NewStreamer(testDSN, testServerID, m)
	s.SetBinlogPosition(Position{Filename: "mysql-bin.000001", Offset: 4})
	f := replication.NewMySQL56BinlogFormat()
	fs := replication.NewFakeBinlogStream()
	mk := func(db, table string) (*replication.TableMap, replication.Rows) {
		tm := &replication.TableMap{Database: db, Name: table, CanBeNull: replication.NewServerBitmap(2)}
		rows := replication.Rows{DataColumns: replication.NewServerBitmap(2), Rows: []replication.Row{{NullColumns: replication.NewServerBitmap(2)}}}
		for c := 0; c < 2; c++ {
			tm.Types = append(tm.Types, replication.TypeLong)
			tm.Metadata = append(tm.Metadata, 0)
			rows.DataColumns.Set(c, true)
			rows.Rows[0].Data = append(rows.Rows[0].Data, byte(c+1), 0, 0, 0)
		}
		return tm, rows
	}
	tm1, r1 := mk("shop", "orders")
	tm2, r2 := mk("shop", "users")
	input := []replication.BinlogEvent{
		replication.NewRotateEvent(f, fs, 4, "mysql-bin.000001"),
		replication.NewFormatDescriptionEvent(f, fs),
		replication.NewQueryEvent(f, fs, replication.Query{Database: "shop", SQL: "BEGIN"}),
		replication.NewTableMapEvent(f, fs, 108, tm1),
		replication.NewWriteRowsEvent(f, fs, 108, r1),
		replication.NewXIDEvent(f, fs),
		replication.NewRotateEvent(f, fs, 4, "mysql-bin.000002"),
		replication.NewFormatDescriptionEvent(f, fs),
		replication.NewQueryEvent(f, fs, replication.Query{Database: "shop", SQL: "BEGIN"}),
		replication.NewTableMapEvent(f, fs, 108, tm2),
		replication.NewWriteRowsEvent(f, fs, 108, r2),
		replication.NewXIDEvent(f, fs),
	}
	events := make(chan replication.BinlogEvent, len(input))
	for _, ev := range input {
		events <- ev
	}
	close(events)
	var out []*Transaction
	s.sendTransaction = func(tran *Transaction) error { out = append(out, tran); return nil }
	if _, err := s.parseEvents(context.Background(), events); err != nil {
		t.Fatal(err)
	}
	if len(out) != 2 {
		t.Fatalf("%d transactions", len(out))
	}
	ev := out[1].Events[0]
	if ev.Table != users.name {
		t.Errorf("rows of the second transaction attributed to %v, the table map announced %v", ev.Table, users.name)
	}
	for i, c := range ev.RowValues[0].Columns {
		if c.Filed != users.columns[i].Field() {
			t.Errorf("column %d named %q, want %q", i, c.Filed, users.columns[i].Field())
		}
	}
	t.Logf("mapper calls: %v", m.calls)
}
