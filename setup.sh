#!/bin/sh
# Builds the whole framework from files on disk (offline). Safe to re-run.
set -e
cd "$(dirname "$0")"
export GOFLAGS=-mod=mod GOPROXY=off GOSUMDB=off GOTOOLCHAIN=local VERIF_ROOT="$(pwd)"
mkdir -p .state evidence replays lean/GV/Generated
(cd harness && go build -o bin/extract ./cmd/extract)
./harness/bin/extract "${VERIF_REPO:-/repo}" lean/GV/Generated/Facts.lean .state/facts_sources.txt
# the driver, and every property module (theorems + the pins they import), so that a check only has to re-verify what
# the regenerated facts invalidate
(cd lean && lake build GV driver $(ls GV/Props/*.lean | sed 's|/|.|g; s|\.lean$||'))
(cd harness && go build -tags verif -o bin/vh ./cmd/vh)
echo "setup ok"
