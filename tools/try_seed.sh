#!/bin/sh
# usage: tools/try_seed.sh <patch.diff> <property> [tier]  — applies a seeded change to /repo, runs the check, undoes it.
set -u
patch="$1"; prop="$2"; tier="${3:-quick}"
cd /verif
git -C /repo apply "$patch" || { echo "patch does not apply"; exit 2; }
./check "$prop" "$tier" 2>&1 | grep -E "^(VIOLATION|OK|KNOWN|check:)" | cut -c1-400
rc=$?
git -C /repo checkout -- .
git -C /repo status --short | head -3
