#!/bin/bash
# usage: tools/regress_seeds.sh [parallel]  — runs every seeded change in /verif/seeded against its property's quick
# check (isolated: scratch worktree of /repo + scratch copy of /verif) and prints one line per seed:
#   <id> input | pins-only | MISSED
par="${1:-5}"
out=/tmp/scratch/regress; rm -rf $out; mkdir -p $out
ls /verif/seeded | xargs -P "$par" -I{} bash -c '
  id={}; prop=${id:0:3}; out=/tmp/scratch/regress
  /verif/tools/try_seed_iso.sh /verif/seeded/$id/patch.diff $prop > $out/$id.out 2>&1
  if grep -q "no-failing-input-found" $out/$id.out; then echo "$id pins-only"
  elif grep -q "^VIOLATION" $out/$id.out; then echo "$id input"
  else echo "$id MISSED"; fi' | sort | tee $out/summary
echo "input: $(grep -c " input" $out/summary)  pins-only: $(grep -c pins-only $out/summary)  missed: $(grep -c MISSED $out/summary)"
