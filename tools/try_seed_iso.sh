#!/bin/sh
# usage: tools/try_seed_iso.sh <patch.diff (absolute)> <property> [tier]
# Runs one property check against a scratch worktree of /repo with the seeded change applied, from a scratch copy of
# /verif — neither /repo nor /verif is touched, so it can run next to proof builds, `vp run` jobs and other seeds.
set -u
patch="$1"; prop="$2"; tier="${3:-quick}"
id=$(basename "$(dirname "$patch")")-$prop-$$
d=/tmp/scratch/iso-$id
mkdir -p "$d"
git -C /repo worktree add -q "$d/repo" HEAD || exit 2
git -C "$d/repo" apply "$patch" || { echo "patch does not apply"; git -C /repo worktree remove --force "$d/repo"; rm -rf "$d"; exit 2; }
rsync -a --exclude .git --exclude replays --exclude 'seeded' --exclude-from=/verif/.git/info/exclude /verif/ "$d/verif/"
sed -i "s|=> /repo|=> $d/repo|" "$d/verif/harness/go.mod"
(cd "$d/verif" && VERIF_REPO="$d/repo" timeout 2400 ./check "$prop" "$tier" 2>&1 | grep -E "^(VIOLATION|OK|KNOWN|check:)" | cut -c1-600)
for f in "$d"/verif/replays/*; do [ -f "$f" ] && { echo "--- $(basename $f)"; head -c 700 "$f"; echo; }; done 2>/dev/null
git -C /repo worktree remove --force "$d/repo"; rm -rf "$d"
