#!/bin/bash
# usage: tools/regress_harmless.sh — every patch under /verif/harmless must leave the named checks OK
rc=0
for d in /verif/harmless/h*/; do
  id=$(basename $d)
  for p in C01 C02 C03 C04 C06 C13 C15 C17; do
    out=$(/verif/tools/try_seed_iso.sh $d/patch.diff $p 2>&1 | grep -E "^(VIOLATION|OK)" | head -1)
    case "$out" in OK*) echo "$id $p ok";; *) echo "$id $p ALARM: $out" | cut -c1-200; rc=1;; esac
  done
done
exit $rc
