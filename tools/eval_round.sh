#!/bin/bash
# usage: tools/eval_round.sh <suffix> [parallel] — for every /tmp/scratch/seeds/Cxx<suffix>: fix demo placement,
# verify the seed (demo passes without / fails with, suite passes), remove its worktree, run the property's quick
# check against it in isolation; prints "<id> verify=<a>/<b> result=input|pins-only|MISSED".
suf="$1"; par="${2:-6}"
S=/tmp/scratch/seeds; out=/tmp/scratch/round-$suf; rm -rf $out; mkdir -p $out
for d in $S/C??$suf; do
  id=$(basename $d)
  if [ -f $d/seed_demo_test.go ] && grep -q "^package replication" $d/seed_demo_test.go; then mkdir -p $d/replication; mv $d/seed_demo_test.go $d/replication/; fi
  v=$(SEED_DIR=$S /verif/tools/verify_seed.sh $id 2>&1 | grep "exit=" | tr '\n' ' ')
  echo "$id $v" >> $out/verify
  git -C /repo worktree remove --force /tmp/scratch/wt-$id 2>/dev/null
done
ls -d $S/C??$suf | xargs -n1 basename | xargs -P "$par" -I{} bash -c '
  id={}; prop=${id:0:3}; out=/tmp/scratch/round-'$suf'
  /verif/tools/try_seed_iso.sh /tmp/scratch/seeds/$id/patch.diff $prop > $out/$id.out 2>&1
  if grep -q "no-failing-input-found" $out/$id.out; then r=pins-only
  elif grep -q "^VIOLATION" $out/$id.out; then r=input
  else r=MISSED; fi
  echo "$id $(grep "^$id " $out/verify | cut -d" " -f2-) result=$r"' | sort | tee $out/summary
