#!/bin/sh
# unchanged-tree sweep: every property's quick check under several seeds; prints only non-OK lines and a summary.
# usage: tools/sweep.sh "2 3 4 5" [tier]
cd "$(dirname "$0")/.."
seeds="${1:-2 3 4 5 6}"; tier="${2:-quick}"
fail=0; n=0
for s in $seeds; do
  for p in C01 C02 C03 C04 C05 C06 C07 C08 C09 C10 C11 C12 C13 C14 C15 C16 C17 C18 C19 C20; do
    out=$(VERIF_SEED=$s ./check $p $tier 2>&1 | grep -E "^(OK|VIOLATION|check:)")
    n=$((n+1))
    case "$out" in OK*) ;; *) fail=$((fail+1)); echo "seed=$s $p: $out" | cut -c1-300;; esac
  done
done
echo "sweep: $n runs, $fail not OK"
