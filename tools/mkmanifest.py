#!/usr/bin/env python3
"""Writes /verif/MANIFEST.json from the table below (kept next to the code so it stays current)."""
import json, os, subprocess
root = os.path.dirname(os.path.dirname(os.path.abspath(__file__)))
BASE = ("Trusted: Lean 4.33.0 kernel and the standard axioms each theorem's audit lists (subset of propext, Classical.choice, "
        "Quot.sound; no sorry / native_decide / bv_decide / user axioms). The theorems are about a hand-written Lean model; "
        "the model is tied to /repo on every run by facts regenerated from the source (pins in lean/GV/Expect) and by a "
        "differential run of model, Spec oracle and the real code on generated cases (sampled, not proved). Spec writers render "
        "MySQL's formats from documentation. Not verified: Go runtime and libraries, the driver Breeze0806/mysql beyond its contract.")
P = {
 'C01': ('refinement theorem (Lean) + differential correspondence', 'Refinement of the parser state machine to the abstract binlog grammar, proved in Lean for all decoded histories and, at the byte level, for every well-formed history of the Spec master from every boundary of the log (C01_fidelity_bytes, C01_fidelity_bytes_resume: parseEvents fed exactly the served bytes delivers exactly the expected transactions); real parseEvents and real Stream() compared with model and Spec on generated histories.', 'partial facet: TCP path and pacing are sampled (stream level), not modelled'),
 'C02': ('invariant/refinement proofs over the decoded-event state machine (Lean)', 'Delivery only at commit points, atomic grouping, rollback-empty, ignorable-event invariance and case-insensitive boundary recognition proved for every event sequence / every casing at the decoded level and, as corollaries of the byte-level refinement, on the served bytes for every handler, cut and ending (C02_bytes_*); correspondence exhaustive over unit sequences up to the bound.', ''),
 'C03': ('label-chain and resume theorems (Lean) + differential correspondence', 'Labels chain and every end label is a resume point: proved over the decoded machine for every history and on the served bytes (C03_bytes_labels, C03_bytes_resume_at_label); every delivered label actually used as a restart point against the real code.', ''),
 'C04': ('induction over attempt sequences (Lean) + fault enumeration against the real code', 'Kept position is the boundary after the last accepted transaction for every handler, every cut of the served byte stream and every ending (C04_bytes_outcome / _resume_pos); exactly-once over any sequence of failed attempts at the decoded and at the byte level (C04_bytes_exactly_once); real parser/Stream driven through every fault kind.', 'partial facet: pacing is runtime; the driver contract is assumed'),
 'C05': ('reachability invariants of a finite-control protocol model (Lean, decide +kernel per step) + scheduled runs of the real Stream()', 'Termination, no leftover goroutine, Error() never blocks: invariants over all interleavings of the abstract reader/parser/caller protocol; the real code is driven through scripted schedules.', 'partial facets: Go scheduler, wall-clock time, data races (race detector run in the thorough tier; driver Close()/readPacket race is a known finding)'),
 'C06': ('protocol invariants (Lean) + fault enumeration against the real Stream()', 'Stop reason published before channels close; Error() class determined by the cause for every stop point and interleaving of the model; value-level decode failures stop the byte-level run with an error in every image / event kind / configuration (C06_bytes_value_decode_failure).', 'partial facet: timing is sampled'),
 'C07': ('call-trace theorem + dump packet round trip (Lean) + wire observation', 'Exactly one checksum announcement followed by exactly one dump request carrying id, offset, file name, flags 0; decode∘encode of the request for all ids/offsets/names.', 'the driver writes the packet: contract validated on the wire'),
 'C08': ('buffer-provenance model (Lean) + aliasing probes against the real code', 'No library write reaches a delivered byte; delivered values are pairwise disjoint or in different buffers.', 'partial facet: driver buffer management and pacing are runtime'),
 'C09': ('case analysis + induction over rows (Lean) + differential correspondence', 'cellLength and CellBytes agree on every (type, metadata); rows events split into exactly the encoded images; padding bits of bitmaps are never read (C09_padding_*).', ''),
 'C10': ('round-trip theorems (Lean) + exhaustive/differential correspondence', 'Every integer of every width/signedness decodes to its canonical decimal text; YEAR, BIT, ENUM, SET forms; float bytes reach the formatter unchanged.', 'partial facet: strconv.AppendFloat is a parameter; its round-trip/exponent-free behaviour is checked per generated value'),
 'C11': ('round-trip theorem over all (p,s) and digit strings (Lean) + differential correspondence', 'DECIMAL text is canonical for every precision, scale and value.', ''),
 'C12': ('round-trip theorems per temporal encoding (Lean) + differential correspondence', 'Every representable DATE/TIME/DATETIME value in both encodings decodes to canonical text; civil-date arithmetic of TIMESTAMP proved.', 'partial facet: which UTC offset applies (tzdata) is a parameter supplied by the time package at run time'),
 'C13': ('round-trip theorems (Lean) + differential correspondence', 'String/blob payloads verbatim for every declared and actual length; NULL / empty / absent distinguishable.', ''),
 'C14': ('structural induction over documents (Lean) + differential correspondence', 'Binary JSON decodes to text denoting the stored document; JSON columns inside the byte-level end-to-end theorems (C14_bytes_end_to_end_partial: documents without DOUBLE scalars).', 'float E-format text is a parameter'),
 'C15': ('round-trip theorem for table maps + cache invariants (Lean) + differential correspondence', 'Table maps decode exactly; rows attributed via the latest map for their id, also at the byte level under re-definition of an id (C15_bytes_redefinition); mapper / column-count mismatch rejected (C15_bytes_mapper_mismatch); an id announced for another table is looked up again (C15c, finding F13 fixed).', ''),
 'C16': ('round-trip and checksum-invariance theorems (Lean) + differential correspondence', 'Header fields and control event bodies decode exactly, with and without trailing checksum; the algorithm is re-read per file: fidelity against a master whose files alternate their checksum setting (C16_bytes_fidelity_mixed_checksums).', ''),
 'C17': ('iff-characterisation of the gate (Lean) + differential correspondence and injection', 'IsValid accepts exactly the self-consistent buffers; accessors total on them; invalid packets injected at any index of the served byte stream stop it with an error, no crash, no partial transaction, position at the last accepted boundary, and a clean attempt from there delivers the rest (C17_bytes_injected_invalid).', ''),
 'C18': ('set-semantics refinement (Lean) + exhaustive small-window correspondence', 'Contains/ContainsGTID/Equal/AddGTID agree with sets of (uuid, gno) pairs; AddGTID preserves canonical form.', ''),
 'C19': ('round-trip theorems for every GTID encoding (Lean) + differential correspondence', 'Text, tagged, SID-block and event encodings round-trip; MariaDB set invariants.', ''),
 'C20': ('escaper well-formedness and structure theorems (Lean) + differential correspondence with encoding/json', 'Marshalled transactions are well-formed JSON preserving structure.', 'partial facet: encoding/json framing and time formatting are Go runtime, compared byte for byte'),
}
claimed = [l.strip() for l in open(os.path.join(root, 'tools/claimed.txt')) if l.strip() and not l.startswith('#')]
na = {}
nafile = os.path.join(root, 'tools/not_applicable.json')
if os.path.exists(nafile):
    na = json.load(open(nafile))
hooks = subprocess.run(['git', '-C', '/repo', 'log', '--format=%H', '--grep=^verif:'], stdout=subprocess.PIPE, text=True).stdout.split()
baseline = json.load(open('/root/.vp/BASELINE.json'))['cmd']
m = {
 'version': 1,
 'setup_cmd': './setup.sh',
 'hooks': {'guard': 'verif', 'enable': 'go build -tags verif (the harness module replaces github.com/Breeze0806/gobinlog by /repo)',
           'baseline_off_cmd': baseline, 'source_commits': hooks, 'add_only': True},
 'engines': [
  {'name': 'lean-props', 'path': 'lean/GV/Props', 'serves_properties': claimed, 'kind_free_text': 'Lean 4 property theorems over the model (lake build + #print axioms audit)'},
  {'name': 'facts-extract', 'path': 'harness/cmd/extract', 'serves_properties': claimed, 'kind_free_text': 'go/ast fact extractor regenerating lean/GV/Generated/Facts.lean (Tie A)'},
  {'name': 'corr-harness', 'path': 'harness/cmd/vh', 'serves_properties': claimed, 'kind_free_text': 'differential correspondence model vs Spec vs real code, simulated master for Stream-level runs (Tie B)'},
 ],
 'checks': [],
 'not_applicable': [{'property_id': k, 'reason': v} for k, v in sorted(na.items())],
 'notes': 'See DESIGN.md. Every check: ./check <id> <tier>. A VIOLATION line ending in no-failing-input-found means a proof, pin or the correspondence no longer checks and no concrete failing input was found.',
}
for pid in claimed:
    tech, text, partial = P[pid]
    m['checks'].append({
        'property_id': pid,
        'quick_cmd': './check %s quick' % pid,
        'thorough_cmd': './check %s thorough' % pid,
        'evidence_file': 'evidence/%s.json' % pid,
        'replay_cmd_template': './check %s --replay {path}' % pid,
        'engine': 'lean-props',
        'technique': tech,
        'level_claimed': {'category': 'proof', 'text': text, 'design_ref': 'DESIGN.md §7 ' + pid},
        'level_note': BASE + (' ' + partial[0].upper() + partial[1:] + '.' if partial else ''),
    })
json.dump(m, open(os.path.join(root, 'MANIFEST.json'), 'w'), indent=1)
print('MANIFEST.json:', len(claimed), 'checks,', len(na), 'not_applicable')
