#!/usr/bin/env python3
"""Writes lean/GV/Expect/Cxx.lean from the *current* lean/GV/Generated/Facts.lean.

Run by hand when the current tree has been reviewed and accepted as the one the
hand-written model mirrors (never by ./check).  Each generated theorem pins one
extracted fact to the value it had then; the property theorems import their
Expect module, so `lake build GV.Props.Cxx` re-checks the pins against the facts
regenerated from /repo on every run (Tie A, DESIGN §4.1).
"""
import re, sys, os, subprocess
root = os.path.dirname(os.path.dirname(os.path.abspath(__file__)))
# always pin what the CURRENT extractor says about the CURRENT tree (a stale Facts.lean once produced pins that
# the next run could not meet)
_env = dict(os.environ, GOFLAGS='-mod=mod', GOPROXY='off', GOSUMDB='off', GOTOOLCHAIN='local')
subprocess.run(['go', 'build', '-o', 'bin/extract', './cmd/extract'], cwd=os.path.join(root, 'harness'), env=_env, check=True)
os.makedirs(os.path.join(root, '.state'), exist_ok=True)
subprocess.run([os.path.join(root, 'harness/bin/extract'), os.environ.get('VERIF_REPO', '/repo'),
                os.path.join(root, 'lean/GV/Generated/Facts.lean'), os.path.join(root, '.state/facts_sources.txt')], check=True)
facts = open(os.path.join(root, 'lean/GV/Generated/Facts.lean')).read()
defs = {}
for m in re.finditer(r'^def (\S+) : ([^\n]*?) := (.*)$', facts, re.M):
    defs[m.group(1)] = (m.group(2), m.group(3))

# cellBytes case bodies by MySQL type code
cases = re.findall(r'"([^"]*)"', defs['cellBytesCases'][1])
def bodies(*types):
    out = []
    for i, c in enumerate(cases):
        nums = [int(x) for x in re.findall(r'\d+', c)]
        if any(t in nums for t in types) or (c == 'default' and 'default' in types):
            out.append('cellBytesBody%d' % i)
    return out

STREAM = ['parseEventsSrc', 'dispatchOrder', 'loopSkeleton', 'closure_begin', 'closure_commit', 'stmtSwitch',
          'parseEventsReturns']
ROWCONV = ['getValuesFromRowSrc', 'getIdentifiesFromRowSrc', 'appendInsertEventFromRowsSrc',
           'appendUpdateEventFromRowsSrc', 'appendDeleteEventFromRowsSrc']
HDR = ['commonIsValidSrc', 'commonTypeSrc', 'commonFlagsSrc', 'commonTimestampSrc', 'commonServerIDSrc',
       'commonLengthSrc', 'commonNextPositionSrc']
ISX = [k for k in defs if re.match(r'commonIs[A-Z].*Src$', k) and k != 'commonIsValidSrc'] + ['mysql56IsGTIDSrc']
ECONST = [k for k in defs if re.match(r'e[A-Z].*Event', k)]
TYPES = [k for k in defs if re.match(r'Type[A-Z]', k)]
STMT = [k for k in defs if re.match(r'Statement[A-Z]', k)]
JSONC = [k for k in defs if k.startswith('jsonType') or k.startswith('json') and k.endswith('Literal')]
JSONS = [k for k in defs if k.startswith('json_')]
groups = {
 'C01': STREAM + ROWCONV + HDR + ISX + ECONST + ['conn_readBinlogEventSrc', 'streamBody', 'fnRowsSrc', 'fnTableMapSrc',
         'commonFormatSrc', 'commonQuerySrc', 'commonRotateSrc', 'commonTableIDSrc', 'mysql56StripChecksumSrc',
         'newTransactionSrc', 'newStreamEventSrc', 'newRowDataSrc', 'newColumnDataSrc', 'cellBytesCases', 'formatIsZeroSrc'],
 'C02': STREAM + STMT + ISX + ECONST + ['statementPrefixes', 'getStatementCategorySrc'],
 'C03': STREAM + ['commonNextPositionSrc', 'commonRotateSrc', 'positionStructTags', 'streamBody', 'noticeDumpCalls'],
 'C04': STREAM + ['streamBody', 'SetBinlogPositionSrc', 'binlogPositionSrc'],
 'C05': STREAM + ['streamBody', 'errorSrc', 'readerBody', 'startDumpSrc', 'conn_closeSrc', 'errChanCap', 'eventChanCap',
         'newSlaveConnectionSrc', 'loopSkeleton'],
 'C06': STREAM + ROWCONV + ['streamBody', 'errorSrc', 'readerBody', 'conn_readBinlogEventSrc', 'errChanCap', 'parseEventsReturns', 'loopSkeleton',
         'error_newErrorSrc', 'error_msgfSrc', 'error_OriginalSrc', 'error_ErrorSrc', 'error_ErrorFormats'],
 'C07': STREAM + ['execLiterals', 'noticeDumpCalls', 'prepareForReplicationSrc', 'startDumpSrc', 'newSlaveConnectionSrc', 'streamBody',
         'SetBinlogPositionSrc', 'binlogPositionSrc'],
 'C08': ['conn_readBinlogEventSrc', 'printTimestampSrc', 'zeroTimestampInit', 'closure_begin', 'closure_commit', 'cellBytesCases']
        + [k for k in defs if k.startswith('cellBytesBody')] + ROWCONV + STREAM
        + ['marshalTransactionSrc', 'marshalStreamEventSrc', 'marshalColumnDataSrc', 'newTransactionSrc', 'newStreamEventSrc', 'newRowDataSrc', 'newColumnDataSrc'],   # Mem model: which bodies hand out sub-slices / constants; every reader / writer of a delivered transaction
 'C09': ['fnRowsSrc', 'cellLengthFixed', 'cellLengthOther', 'cellBytesCases', 'newBitmapSrc', 'bitmapBitSrc', 'bitmapBitCountSrc',
         'bitmapCountSrc', 'readLenEncIntSrc', 'dig2bytes', 'formatHeaderSizeSrc'] + [k for k in defs if k.startswith('cellBytesBody')]
        + ['getValuesFromRowSrc', 'getIdentifiesFromRowSrc'] + TYPES,
 'C10': ['cellLengthFixed', 'cellBytesCases'] + bodies(1, 13, 2, 9, 3, 4, 5, 8, 16, 247, 248, 254) + TYPES + ROWCONV + ['fnRowsSrc', 'newBitmapSrc', 'bitmapBitSrc', 'bitmapBitCountSrc', 'bitmapCountSrc'],
 'C11': ['dig2bytes', 'cellBytesCases', 'cellLengthOther'] + bodies(246),
 'C12': ['printTimestampSrc', 'zeroTimestampInit', 'cellBytesCases', 'cellLengthFixed', 'cellLengthOther'] + bodies(7, 10, 11, 12, 17, 18, 19),
 'C13': ['cellBytesCases', 'cellLengthOther'] + bodies(15, 254, 252, 255) + ['getValuesFromRowSrc', 'getIdentifiesFromRowSrc', 'newColumnDataSrc', 'fnRowsSrc', 'newBitmapSrc', 'bitmapBitSrc', 'bitmapBitCountSrc', 'bitmapCountSrc'] + STREAM,
 'C14': JSONC + JSONS + ['dig2bytes', 'cellBytesCases'] + bodies(245, 246),
 'C15': ['fnTableMapSrc', 'metadataClass', 'readLenEncIntSrc', 'commonTableIDSrc', 'newBitmapSrc', 'formatHeaderSizeSrc',
         'eTableMapEvent', 'bitmapCountSrc'] + STREAM + ROWCONV,
 'C16': STREAM + HDR + ISX + ECONST + ['commonFormatSrc', 'commonRotateSrc', 'commonQuerySrc', 'commonIntVarSrc', 'commonRandSrc',
         'commonTableIDSrc', 'mysql56StripChecksumSrc', 'mariadbStripChecksumSrc', 'formatIsZeroSrc', 'formatHeaderSizeSrc']
        + [k for k in defs if k.startswith('BinlogChecksumAlg') or re.match(r'Q[A-Z]', k) or k.startswith('IntVar')],
 'C17': HDR + ['loopSkeleton', 'parseEventsReturns', 'parseEventsSrc', 'streamBody'],
 'C18': [k for k in defs if k.startswith('set56_')],
 'C19': [k for k in defs if k.startswith(('gtid56_', 'set56_', 'maria', 'gtid_'))] + ['mysql56GTIDSrc', 'mysql56PreviousGTIDsSrc',
         'mysql56IsGTIDSrc', 'eGTIDEvent', 'ePreviousGTIDsEvent', 'eMariaGTIDEvent'],
 'C20': ['marshalTransactionSrc', 'marshalStreamEventSrc', 'marshalColumnDataSrc', 'txStructTags', 'positionStructTags',
         'tableStructTags', 'statementStrings', 'columnTypeStrings', 'statementTypeStringSrc', 'columnTypeStringSrc'] + STMT,
}
# file-level pins: the list of source files, and for every file a property is anchored in (properties.jsonl) its
# declaration inventory and whole-file digest — so that no edit of such a file goes unnoticed by that property's check
import json as _json
def _fid(f): return f.replace('/', '_').replace('.go', '').replace('.', '_')
for _l in open(os.path.join(root, 'properties.jsonl')):
    _d = _json.loads(_l)
    _files = list(_d['anchors'].get('files', []))
    if 'parseEventsSrc' in groups[_d['id']] and 'streamer.go' not in _files:
        _files.append('streamer.go')
    if _d['id'] == 'C08' and 'transaction.go' not in _files:
        _files.append('transaction.go')   # the delivered objects and their exported readers (seeded changes C08h, C08j)
    groups[_d['id']] = groups[_d['id']] + ['goFiles'] + sum((['inv_' + _fid(f), 'fileDigest_' + _fid(f)] for f in _files), [])
outdir = os.path.join(root, 'lean/GV/Expect')
os.makedirs(outdir, exist_ok=True)
for prop, names in groups.items():
    seen = []
    for n in names:
        if n not in seen:
            seen.append(n)
    missing = [n for n in seen if n not in defs]
    if missing:
        sys.exit('mkexpect: %s: facts not found: %s' % (prop, missing))
    with open(os.path.join(outdir, prop + '.lean'), 'w') as f:
        f.write('import GV.Generated.Facts\n/- Pins for %s: the extracted facts the hand-written model of this property was written against\n   (generated by tools/mkexpect.py from the reviewed tree; see DESIGN §4.1). %d pins. -/\nnamespace GV.Expect.%s\nopen GV.Facts\n\n' % (prop, len(seen), prop))
        for n in seen:
            ty, val = defs[n]
            f.write('theorem pin_%s : %s = (%s : %s) := rfl\n' % (n, n, val, ty))
        f.write('\n/-- number of pins (reported in the evidence) -/\ndef pinCount : Nat := %d\n\nend GV.Expect.%s\n' % (len(seen), prop))
print('wrote', len(groups), 'expect modules')
