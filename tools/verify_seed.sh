#!/bin/sh
# usage: tools/verify_seed.sh <Cxx>  — confirms a seeded change in a fresh scratch worktree:
# patch applies, library builds, existing suite passes with it, demo fails with it and passes without it.
set -u
p="$1"; d=${SEED_DIR:-/verif/seeded}/$p; w=/tmp/scratch/verify-$p
export GOFLAGS=-mod=mod GOPROXY=off GOSUMDB=off GOTOOLCHAIN=local
git -C /repo worktree add -q "$w" HEAD || exit 2
cd "$w"
cmd=$(cat $d/demo_cmd.txt | grep -v '^#' | grep -v '^$' | tail -1)
# place demo files (keeping relative paths if the agent used subdirectories)
(cd $d && find . -name '*_test.go' -o -name '*.go' | grep -v patch) | while read f; do mkdir -p "$w/$(dirname $f)"; cp "$d/$f" "$w/$f"; done
echo "--- demo WITHOUT the change (must pass):"; sh -c "$cmd" > /tmp/scratch/out.$p.a 2>&1; echo "exit=$?"
git apply $d/patch.diff || { echo PATCH-FAILS; }
echo "--- build + demo WITH the change (must fail):"; go build ./... && go build -tags verif ./... ; sh -c "$cmd" > /tmp/scratch/out.$p.b 2>&1; echo "exit=$?"
(cd $d && find . -name '*_test.go' | grep -v patch) | while read f; do rm -f "$w/$f"; done
echo "--- existing suite WITH the change (must pass):"; go test -vet=off -count=1 ./... 2>&1 | tail -3
cd /; git -C /repo worktree remove --force "$w"
