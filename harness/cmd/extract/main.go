// extract: Tie A of /verif/DESIGN.md. Reads the anchored Go sources of the
// working tree with go/parser (no type checker) and writes Lean definitions of
// every constant, table and structural fact the Lean model and its
// expectations depend on. A source shape that is not recognised is fatal
// (exit 2): a tie that cannot be established is reported, never skipped.
package main

import (
	"bytes"
	"crypto/sha256"
	"encoding/hex"
	"fmt"
	"go/ast"
	"go/parser"
	"go/printer"
	"go/token"
	"os"
	"path/filepath"
	"sort"
	"strconv"
	"strings"
)

var fset = token.NewFileSet()
var out bytes.Buffer
var problems []string

func fail(format string, a ...interface{}) {
	problems = append(problems, fmt.Sprintf(format, a...))
}

// pkgObjs: the package-level objects of every parsed file (everything else an identifier resolves to is local to a
// function: parameters, results, := and var declarations, range variables)
var pkgObjs = map[*ast.Object]bool{}

func notePkgObjs(f *ast.File) {
	if f.Scope != nil {
		for _, o := range f.Scope.Objects {
			pkgObjs[o] = true
		}
	}
}

func parse(path string) *ast.File {
	f, err := parser.ParseFile(fset, path, nil, parser.ParseComments)
	if err != nil {
		fmt.Fprintf(os.Stderr, "extract: cannot parse %s: %v\n", path, err)
		os.Exit(2)
	}
	notePkgObjs(f)
	return f
}

// alphaSrc prints statements with every LOCAL variable renamed to v0, v1, … in order of first appearance, so that a
// fingerprint does not change when a local variable or a parameter is merely renamed. The AST is restored afterwards
// (the structural extractions look identifiers up by name).
func alphaSrc(print func() string, roots ...ast.Node) string {
	names := map[*ast.Object]string{}
	var touched []*ast.Ident
	var old []string
	for _, r := range roots {
		if r == nil {
			continue
		}
		ast.Inspect(r, func(n ast.Node) bool {
			id, ok := n.(*ast.Ident)
			if !ok || id.Obj == nil || id.Obj.Kind != ast.Var || pkgObjs[id.Obj] {
				return true
			}
			nm, ok := names[id.Obj]
			if !ok {
				nm = fmt.Sprintf("v%d", len(names))
				names[id.Obj] = nm
			}
			touched = append(touched, id)
			old = append(old, id.Name)
			id.Name = nm
			return true
		})
	}
	out := print()
	for i, id := range touched {
		id.Name = old[i]
	}
	return out
}

func alphaBody(l []ast.Stmt) string {
	roots := make([]ast.Node, len(l))
	for i, st := range l {
		roots[i] = st
	}
	return alphaSrc(func() string { return bodySrc(l) }, roots...)
}

func src(n ast.Node) string {
	var b bytes.Buffer
	printer.Fprint(&b, fset, n)
	s := b.String()
	// normalise whitespace
	return strings.Join(strings.Fields(s), " ")
}

func leanStr(s string) string {
	var b strings.Builder
	b.WriteByte('"')
	for _, r := range []byte(s) {
		switch {
		case r == '"':
			b.WriteString("\\\"")
		case r == '\\':
			b.WriteString("\\\\")
		case r == '\n':
			b.WriteString("\\n")
		case r < 32 || r > 126:
			fmt.Fprintf(&b, "\\x%02x", r)
		default:
			b.WriteByte(r)
		}
	}
	b.WriteByte('"')
	return b.String()
}

// ---- constants -------------------------------------------------------------

type constEnv map[string]int64

func evalConst(e ast.Expr, env constEnv, iota int64) (int64, bool) {
	switch v := e.(type) {
	case *ast.BasicLit:
		switch v.Kind {
		case token.INT:
			n, err := strconv.ParseInt(v.Value, 0, 64)
			return n, err == nil
		case token.CHAR:
			r, _, _, err := strconv.UnquoteChar(v.Value[1:len(v.Value)-1], '\'')
			return int64(r), err == nil
		}
	case *ast.Ident:
		if v.Name == "iota" {
			return iota, true
		}
		n, ok := env[v.Name]
		return n, ok
	case *ast.SelectorExpr:
		// replication.TypeX
		n, ok := env[v.Sel.Name]
		return n, ok
	case *ast.ParenExpr:
		return evalConst(v.X, env, iota)
	case *ast.CallExpr:
		// conversions like StatementType(iota), byte(1)
		if len(v.Args) == 1 {
			return evalConst(v.Args[0], env, iota)
		}
	case *ast.BinaryExpr:
		a, ok1 := evalConst(v.X, env, iota)
		b, ok2 := evalConst(v.Y, env, iota)
		if !ok1 || !ok2 {
			return 0, false
		}
		switch v.Op {
		case token.ADD:
			return a + b, true
		case token.SUB:
			return a - b, true
		case token.MUL:
			return a * b, true
		case token.SHL:
			return a << uint(b), true
		case token.OR:
			return a | b, true
		}
	}
	return 0, false
}

// collectConsts evaluates all integer constants of a file into env.
func collectConsts(f *ast.File, env constEnv, order *[]string) {
	for _, d := range f.Decls {
		gd, ok := d.(*ast.GenDecl)
		if !ok || gd.Tok != token.CONST {
			continue
		}
		var last []ast.Expr
		for i, s := range gd.Specs {
			vs := s.(*ast.ValueSpec)
			vals := vs.Values
			if len(vals) == 0 {
				vals = last
			} else {
				last = vals
			}
			for j, name := range vs.Names {
				if j >= len(vals) {
					continue
				}
				if n, ok := evalConst(vals[j], env, int64(i)); ok {
					env[name.Name] = n
					*order = append(*order, name.Name)
				}
			}
		}
	}
}

func emitConsts(ns string, env constEnv, names []string) {
	fmt.Fprintf(&out, "namespace %s\n", ns)
	for _, n := range names {
		fmt.Fprintf(&out, "def %s : Nat := %d\n", n, env[n])
	}
	fmt.Fprintf(&out, "end %s\n\n", ns)
}

// ---- helpers over function bodies ------------------------------------------

func findFunc(f *ast.File, name string, recv string) *ast.FuncDecl {
	for _, d := range f.Decls {
		fd, ok := d.(*ast.FuncDecl)
		if !ok || fd.Name.Name != name {
			continue
		}
		if recv == "" && fd.Recv == nil {
			return fd
		}
		if recv != "" && fd.Recv != nil && strings.Contains(src(fd.Recv.List[0].Type), recv) {
			return fd
		}
	}
	fail("function %s (recv %q) not found", name, recv)
	return nil
}

func findVar(f *ast.File, name string) ast.Expr {
	for _, d := range f.Decls {
		gd, ok := d.(*ast.GenDecl)
		if !ok || gd.Tok != token.VAR {
			continue
		}
		for _, s := range gd.Specs {
			vs := s.(*ast.ValueSpec)
			for i, n := range vs.Names {
				if n.Name == name && i < len(vs.Values) {
					return vs.Values[i]
				}
			}
		}
	}
	fail("variable %s not found", name)
	return nil
}

// topSwitch returns the first switch statement at the top level of a body.
func topSwitch(b *ast.BlockStmt) *ast.SwitchStmt {
	for _, s := range b.List {
		if sw, ok := s.(*ast.SwitchStmt); ok {
			return sw
		}
	}
	return nil
}

func caseValues(cc *ast.CaseClause, env constEnv) []int64 {
	var r []int64
	for _, e := range cc.List {
		n, ok := evalConst(e, env, 0)
		if !ok {
			fail("case label %s is not a known constant", src(e))
			continue
		}
		r = append(r, n)
	}
	return r
}

func natList(l []int64) string {
	s := make([]string, len(l))
	for i, n := range l {
		s[i] = strconv.FormatInt(n, 10)
	}
	return "[" + strings.Join(s, ", ") + "]"
}

func pairList(l [][2]int64) string {
	s := make([]string, len(l))
	for i, p := range l {
		s[i] = fmt.Sprintf("(%d, %d)", p[0], p[1])
	}
	return "[" + strings.Join(s, ", ") + "]"
}

func strList(l []string) string {
	s := make([]string, len(l))
	for i, p := range l {
		s[i] = leanStr(p)
	}
	return "[" + strings.Join(s, ", ") + "]"
}

// all string literals that are the format argument of fmt.Sprintf/Fprintf/Errorf in a node, in source order
func formatLits(n ast.Node, fn ...string) []string {
	var r []string
	ast.Inspect(n, func(x ast.Node) bool {
		ce, ok := x.(*ast.CallExpr)
		if !ok {
			return true
		}
		name := src(ce.Fun)
		want := false
		for _, f := range fn {
			if name == f {
				want = true
			}
		}
		if !want {
			return true
		}
		for _, a := range ce.Args {
			if bl, ok := a.(*ast.BasicLit); ok && bl.Kind == token.STRING {
				s, _ := strconv.Unquote(bl.Value)
				r = append(r, s)
				break
			}
		}
		return true
	})
	return r
}

// ---- main ------------------------------------------------------------------

func main() {
	if len(os.Args) < 2 {
		fmt.Fprintln(os.Stderr, "usage: extract <repo> [out.lean]")
		os.Exit(2)
	}
	repo := os.Args[1]
	rp := func(p string) string { return filepath.Join(repo, p) }

	out.WriteString("/- GENERATED by /verif/harness/cmd/extract from /repo's working tree. Do not edit. -/\n\n")

	// 1. replication constants
	env := constEnv{}
	var order []string
	constF := parse(rp("replication/const.go"))
	collectConsts(constF, env, &order)
	jsonF := parse(rp("replication/binlog_event_json.go"))
	collectConsts(jsonF, env, &order)
	emitConsts("GV.Facts", env, order)

	rbr := parse(rp("replication/binlog_event_rbr.go"))
	out.WriteString("namespace GV.Facts\n")

	// 0. file level: the list of non-test Go files, and per file the inventory of top-level declarations and a digest
	// of the whole normalised file (comments, log calls and error texts removed). Catches what no function-level
	// fingerprint looks at: new package-level state, init functions, new files, edits of unlisted helpers.
	fileFacts(repo)


	// 2. dig2bytes
	if v := findVar(rbr, "dig2bytes"); v != nil {
		cl, ok := v.(*ast.CompositeLit)
		if !ok {
			fail("dig2bytes is not a composite literal")
		} else {
			var l []int64
			for _, e := range cl.Elts {
				n, ok := evalConst(e, env, 0)
				if !ok {
					fail("dig2bytes element %s", src(e))
				}
				l = append(l, n)
			}
			fmt.Fprintf(&out, "def dig2bytes : List Nat := %s\n", natList(l))
		}
	}
	if v := findVar(rbr, "ZeroTimestamp"); v != nil {
		fmt.Fprintf(&out, "def zeroTimestampInit : String := %s\n", leanStr(src(v)))
	}

	// 3. metadataRead: type -> class (0 none, 1 one byte, 2 two bytes big-endian, 3 two bytes little-endian)
	if fd := findFunc(rbr, "metadataRead", ""); fd != nil {
		sw := topSwitch(fd.Body)
		var tbl [][2]int64
		if sw == nil {
			fail("metadataRead: no switch")
		} else {
			for _, st := range sw.Body.List {
				cc := st.(*ast.CaseClause)
				if cc.List == nil {
					continue
				}
				var ret *ast.ReturnStmt
				for _, s := range cc.Body {
					if r, ok := s.(*ast.ReturnStmt); ok {
						ret = r
					}
				}
				if ret == nil || len(ret.Results) != 3 {
					fail("metadataRead: case without 3-result return")
					continue
				}
				shape := src(ret.Results[0]) + " | " + src(ret.Results[1])
				cls := int64(-1)
				switch shape {
				case "0 | pos":
					cls = 0
				case "uint16(data[pos]) | pos + 1":
					cls = 1
				case "uint16(data[pos])<<8 + uint16(data[pos+1]) | pos + 2":
					cls = 2
				case "uint16(data[pos]) + uint16(data[pos+1])<<8 | pos + 2":
					cls = 3
				default:
					fail("metadataRead: unrecognised return shape %q", shape)
				}
				for _, t := range caseValues(cc, env) {
					tbl = append(tbl, [2]int64{t, cls})
				}
			}
		}
		sort.Slice(tbl, func(i, j int) bool { return tbl[i][0] < tbl[j][0] })
		fmt.Fprintf(&out, "def metadataClass : List (Nat × Nat) := %s\n", pairList(tbl))
	}

	// 4. cellLength: the constant cases (type -> n) and the source of the others
	if fd := findFunc(rbr, "cellLength", ""); fd != nil {
		sw := topSwitch(fd.Body)
		var tbl [][2]int64
		var others []string
		if sw == nil {
			fail("cellLength: no switch")
		} else {
			for _, st := range sw.Body.List {
				cc := st.(*ast.CaseClause)
				if cc.List == nil {
					others = append(others, "default: "+bodySrc(cc.Body))
					continue
				}
				if len(cc.Body) == 1 {
					if r, ok := cc.Body[0].(*ast.ReturnStmt); ok && len(r.Results) == 2 {
						if n, ok := evalConst(r.Results[0], constEnv{}, 0); ok && src(r.Results[1]) == "nil" {
							for _, t := range caseValues(cc, env) {
								tbl = append(tbl, [2]int64{t, n})
							}
							continue
						}
					}
				}
				others = append(others, natList(caseValues(cc, env))+": "+bodySrc(cc.Body))
			}
		}
		sort.Slice(tbl, func(i, j int) bool { return tbl[i][0] < tbl[j][0] })
		fmt.Fprintf(&out, "def cellLengthFixed : List (Nat × Nat) := %s\n", pairList(tbl))
		fmt.Fprintf(&out, "def cellLengthOther : List String := %s\n", strList(others))
	}

	// 5. CellBytes: per case the list of types and the normalised source (a fingerprint the
	//    expectations pin: any edit of a decoder case breaks the tie of the properties that use it)
	if fd := findFunc(rbr, "CellBytes", ""); fd != nil {
		sw := topSwitch(fd.Body)
		if sw == nil {
			fail("CellBytes: no switch")
		} else {
			var keys, bodies []string
			for _, st := range sw.Body.List {
				cc := st.(*ast.CaseClause)
				k := "default"
				if cc.List != nil {
					k = natList(caseValues(cc, env))
				}
				keys = append(keys, k)
				bodies = append(bodies, alphaBody(cc.Body))
			}
			fmt.Fprintf(&out, "def cellBytesCases : List String := %s\n", strList(keys))
			for i, b := range bodies {
				fmt.Fprintf(&out, "def cellBytesBody%d : String := %s\n", i, fp(b))
			}
			fmt.Fprintf(&out, "def cellBytesFormats : List String := %s\n", strList(formatLits(fd, "fmt.Sprintf", "fmt.Fprintf")))
		}
	}
	if fd := findFunc(rbr, "printTimestamp", ""); fd != nil {
		fmt.Fprintf(&out, "def printTimestampSrc : String := %s\n", fp(alphaBody(fd.Body.List)))
	}
	for _, name := range []string{"readLenEncInt"} {
		if fd := findFunc(rbr, name, ""); fd != nil {
			fmt.Fprintf(&out, "def %sSrc : String := %s\n", name, fp(alphaBody(fd.Body.List)))
		}
	}
	for _, name := range []string{"TableMap", "Rows"} {
		if fd := findFunc(rbr, name, "binlogEvent"); fd != nil {
			fmt.Fprintf(&out, "def %sSrc : String := %s\n", "fn"+name, fp(alphaBody(fd.Body.List)))
		}
	}

	// 6. common header / control events: normalised source of each method
	common := parse(rp("replication/binlog_event_common.go"))
	for _, name := range []string{"IsValid", "Type", "Flags", "Timestamp", "ServerID", "Length", "NextPosition",
		"IsFormatDescription", "IsQuery", "IsRotate", "IsXID", "IsIntVar", "IsRand", "IsPreviousGTIDs", "IsRowsQuery",
		"IsTableMap", "IsWriteRows", "IsUpdateRows", "IsDeleteRows", "Format", "Rotate", "Query", "IntVar", "Rand", "TableID"} {
		if fd := findFunc(common, name, "binlogEvent"); fd != nil {
			fmt.Fprintf(&out, "def common%sSrc : String := %s\n", name, fp(alphaBody(fd.Body.List)))
		}
	}
	ev := parse(rp("replication/binlog_event.go"))
	for _, name := range []string{"newBitmap"} {
		if fd := findFunc(ev, name, ""); fd != nil {
			fmt.Fprintf(&out, "def %sSrc : String := %s\n", name, fp(alphaBody(fd.Body.List)))
		}
	}
	for _, name := range []string{"Bit", "BitCount", "Count"} {
		if fd := findFunc(ev, name, "Bitmap"); fd != nil {
			fmt.Fprintf(&out, "def bitmap%sSrc : String := %s\n", name, fp(alphaBody(fd.Body.List)))
		}
	}
	for _, name := range []string{"IsZero", "HeaderSize"} {
		if fd := findFunc(ev, name, "BinlogFormat"); fd != nil {
			fmt.Fprintf(&out, "def format%sSrc : String := %s\n", name, fp(alphaBody(fd.Body.List)))
		}
	}
	m56 := parse(rp("replication/binlog_event_mysql56.go"))
	for _, name := range []string{"IsGTID", "GTID", "PreviousGTIDs", "StripChecksum"} {
		if fd := findFunc(m56, name, "mysql56BinlogEvent"); fd != nil {
			fmt.Fprintf(&out, "def mysql56%sSrc : String := %s\n", name, fp(alphaBody(fd.Body.List)))
		}
	}
	mar := parse(rp("replication/binlog_event_mariadb.go"))
	for _, name := range []string{"IsGTID", "GTID", "StripChecksum"} {
		if fd := findFunc(mar, name, "mariadbBinlogEvent"); fd != nil {
			fmt.Fprintf(&out, "def mariadb%sSrc : String := %s\n", name, fp(alphaBody(fd.Body.List)))
		}
	}

	// 7. JSON decoder: per function normalised source
	for _, name := range []string{"printJSONData", "printJSONValue", "printJSONObject", "printJSONArray", "printJSONValueEntry",
		"printJSONLiteral", "printJSONInt16", "printJSONUint16", "printJSONInt32", "printJSONUint32", "printJSONInt64",
		"printJSONUint64", "printJSONDouble", "printJSONString", "printJSONOpaque", "printJSONDate", "printJSONTime",
		"printJSONDateTime", "printJSONDecimal", "readOffsetOrSize", "readVariableLength"} {
		if fd := findFunc(jsonF, name, ""); fd != nil {
			fmt.Fprintf(&out, "def json_%sSrc : String := %s\n", name, fp(alphaBody(fd.Body.List)))
		}
	}

	// 8. GTID code
	g56 := parse(rp("replication/mysql56_gtid.go"))
	for _, name := range []string{"parseMysql56GTID", "ParseSID"} {
		if fd := findFunc(g56, name, ""); fd != nil {
			fmt.Fprintf(&out, "def gtid56_%sSrc : String := %s\n", name, fp(alphaBody(fd.Body.List)))
		}
	}
	if fd := findFunc(g56, "String", "SID"); fd != nil {
		fmt.Fprintf(&out, "def gtid56_SIDStringSrc : String := %s\n", fp(alphaBody(fd.Body.List)))
	}
	if fd := findFunc(g56, "String", "Mysql56GTID"); fd != nil {
		fmt.Fprintf(&out, "def gtid56_GTIDStringSrc : String := %s\n", fp(alphaBody(fd.Body.List)))
	}
	s56 := parse(rp("replication/mysql56_gtid_set.go"))
	for _, name := range []string{"parseInterval", "parseMysql56GTIDSet", "NewMysql56GTIDSetFromSIDBlock"} {
		if fd := findFunc(s56, name, ""); fd != nil {
			fmt.Fprintf(&out, "def set56_%sSrc : String := %s\n", name, fp(alphaBody(fd.Body.List)))
		}
	}
	for _, name := range []string{"SIDs", "String", "ContainsGTID", "Contains", "Equal", "AddGTID", "SIDBlock"} {
		if fd := findFunc(s56, name, "Mysql56GTIDSet"); fd != nil {
			fmt.Fprintf(&out, "def set56_%sSrc : String := %s\n", name, fp(alphaBody(fd.Body.List)))
		}
	}
	if fd := findFunc(s56, "contains", "interval"); fd != nil {
		fmt.Fprintf(&out, "def set56_ivContainsSrc : String := %s\n", fp(alphaBody(fd.Body.List)))
	}
	if fd := findFunc(s56, "Less", "sidList"); fd != nil {
		fmt.Fprintf(&out, "def set56_sidLessSrc : String := %s\n", fp(alphaBody(fd.Body.List)))
	}
	if fd := findFunc(s56, "Less", "intervalList"); fd != nil {
		fmt.Fprintf(&out, "def set56_ivLessSrc : String := %s\n", fp(alphaBody(fd.Body.List)))
	}
	mg := parse(rp("replication/mariadb_gtid.go"))
	for _, name := range []string{"parseMariadbGTID", "parseMariadbGTIDSet"} {
		if fd := findFunc(mg, name, ""); fd != nil {
			fmt.Fprintf(&out, "def maria_%sSrc : String := %s\n", name, fp(alphaBody(fd.Body.List)))
		}
	}
	if fd := findFunc(mg, "String", "MariadbGTID"); fd != nil {
		fmt.Fprintf(&out, "def maria_GTIDStringSrc : String := %s\n", fp(alphaBody(fd.Body.List)))
	}
	for _, name := range []string{"String", "ContainsGTID", "Contains", "Equal", "AddGTID"} {
		if fd := findFunc(mg, name, "MariadbGTIDSet"); fd != nil {
			fmt.Fprintf(&out, "def mariaSet_%sSrc : String := %s\n", name, fp(alphaBody(fd.Body.List)))
		}
	}
	gt := parse(rp("replication/gtid.go"))
	for _, name := range []string{"ParseGTID", "EncodeGTID", "DecodeGTID"} {
		if fd := findFunc(gt, name, ""); fd != nil {
			fmt.Fprintf(&out, "def gtid_%sSrc : String := %s\n", name, fp(alphaBody(fd.Body.List)))
		}
	}
	out.WriteString("end GV.Facts\n\n")

	// 9. root package: statement types and name tables
	types := parse(rp("mysql_types.go"))
	tenv := constEnv{}
	for k, v := range env {
		tenv[k] = v
	}
	var torder []string
	collectConsts(types, tenv, &torder)
	out.WriteString("namespace GV.Facts\n")
	for _, n := range torder {
		if strings.HasPrefix(n, "Statement") {
			fmt.Fprintf(&out, "def %s : Nat := %d\n", n, tenv[n])
		}
	}
	emitMap := func(name string, keyIsString bool) {
		v := findVar(types, name)
		if v == nil {
			return
		}
		cl, ok := v.(*ast.CompositeLit)
		if !ok {
			fail("%s is not a composite literal", name)
			return
		}
		var items []string
		for _, e := range cl.Elts {
			kv := e.(*ast.KeyValueExpr)
			if keyIsString {
				k, _ := strconv.Unquote(kv.Key.(*ast.BasicLit).Value)
				n, ok := evalConst(kv.Value, tenv, 0)
				if !ok {
					fail("%s: value %s", name, src(kv.Value))
				}
				items = append(items, fmt.Sprintf("(%s, %d)", leanStr(k), n))
			} else {
				n, ok := evalConst(kv.Key, tenv, 0)
				if !ok {
					fail("%s: key %s", name, src(kv.Key))
				}
				s, _ := strconv.Unquote(kv.Value.(*ast.BasicLit).Value)
				items = append(items, fmt.Sprintf("(%d, %s)", n, leanStr(s)))
			}
		}
		if keyIsString {
			fmt.Fprintf(&out, "def %s : List (String × Nat) := [%s]\n", name, strings.Join(items, ", "))
		} else {
			fmt.Fprintf(&out, "def %s : List (Nat × String) := [%s]\n", name, strings.Join(items, ", "))
		}
	}
	emitMap("statementPrefixes", true)
	emitMap("statementStrings", false)
	emitMap("columnTypeStrings", false)
	if fd := findFunc(types, "GetStatementCategory", ""); fd != nil {
		fmt.Fprintf(&out, "def getStatementCategorySrc : String := %s\n", fp(alphaBody(fd.Body.List)))
	}
	if fd := findFunc(types, "String", "StatementType"); fd != nil {
		fmt.Fprintf(&out, "def statementTypeStringSrc : String := %s\n", fp(alphaBody(fd.Body.List)))
	}
	if fd := findFunc(types, "String", "ColumnType"); fd != nil {
		fmt.Fprintf(&out, "def columnTypeStringSrc : String := %s\n", fp(alphaBody(fd.Body.List)))
	}

	// 9b. error.go: the error wrapper
	errF := parse(rp("error.go"))
	if fd := findFunc(errF, "newError", ""); fd != nil {
		fmt.Fprintf(&out, "def error_newErrorSrc : String := %s\n", fp(alphaBody(fd.Body.List)))
	}
	for _, name := range []string{"msgf", "Original", "Error"} {
		if fd := findFunc(errF, name, "Error"); fd != nil {
			fmt.Fprintf(&out, "def error_%sSrc : String := %s\n", name, fp(alphaBody(fd.Body.List)))
			if name == "Error" {
				fmt.Fprintf(&out, "def error_ErrorFormats : List String := %s\n", strList(formatLits(fd, "fmt.Sprintf")))
			}
		}
	}

	// 10. streamer.go, slave_connection.go, transaction.go: structural facts
	streamerFacts(parse(rp("streamer.go")))
	connFacts(parse(rp("slave_connection.go")))
	txFacts(parse(rp("transaction.go")), parse(rp("position.go")), parse(rp("mysql_table.go")))
	out.WriteString("end GV.Facts\n")

	if len(problems) > 0 {
		for _, p := range problems {
			fmt.Fprintln(os.Stderr, "extract: TIE-A BROKEN: "+p)
		}
		os.Exit(2)
	}
	if len(os.Args) >= 4 {
		os.WriteFile(os.Args[3], sidecar.Bytes(), 0o644)
	}
	if len(os.Args) >= 3 {
		old, err := os.ReadFile(os.Args[2])
		if err == nil && bytes.Equal(old, out.Bytes()) {
			return
		}
		if err := os.WriteFile(os.Args[2], out.Bytes(), 0o644); err != nil {
			fmt.Fprintln(os.Stderr, err)
			os.Exit(2)
		}
		return
	}
	os.Stdout.Write(out.Bytes())
}

func bodySrc(l []ast.Stmt) string {
	var parts []string
	for _, s := range l {
		parts = append(parts, src(s))
	}
	return strings.Join(parts, " ; ")
}

// ---- normalisation ------------------------------------------------------------

func isLogCall(s ast.Stmt) bool {
	es, ok := s.(*ast.ExprStmt)
	if !ok {
		return false
	}
	ce, ok := es.X.(*ast.CallExpr)
	if !ok {
		return false
	}
	return strings.HasPrefix(src(ce.Fun), "_log.")
}

func dropLogs(l []ast.Stmt) []ast.Stmt {
	var r []ast.Stmt
	for _, s := range l {
		if !isLogCall(s) {
			r = append(r, s)
		}
	}
	return r
}

// normalise removes logging statements and blanks the text of error messages, so
// that edits which cannot change behaviour relevant to any property do not
// break the tie.
func normalise(n ast.Node) {
	ast.Inspect(n, func(x ast.Node) bool {
		switch v := x.(type) {
		case *ast.BlockStmt:
			v.List = dropLogs(v.List)
		case *ast.CaseClause:
			v.Body = dropLogs(v.Body)
		case *ast.CommClause:
			v.Body = dropLogs(v.Body)
		case *ast.CallExpr:
			f := src(v.Fun)
			if f == "fmt.Errorf" || f == "errors.New" || strings.HasSuffix(f, ".msgf") {
				for _, a := range v.Args {
					ast.Inspect(a, func(y ast.Node) bool {
						if bl, ok := y.(*ast.BasicLit); ok && bl.Kind == token.STRING {
							bl.Value = `""`
						}
						return true
					})
				}
			}
		}
		return true
	})
}

func funcLits(n ast.Node) []*ast.FuncLit {
	var r []*ast.FuncLit
	ast.Inspect(n, func(x ast.Node) bool {
		if fl, ok := x.(*ast.FuncLit); ok {
			r = append(r, fl)
		}
		return true
	})
	return r
}

func streamerFacts(f *ast.File) {
	normalise(f)
	pe := findFunc(f, "parseEvents", "Streamer")
	if pe != nil {
		fmt.Fprintf(&out, "def parseEventsSrc : String := %s\n", fp(alphaBody(pe.Body.List)))
		// closures begin / commit
		for _, s := range pe.Body.List {
			as, ok := s.(*ast.AssignStmt)
			if !ok || len(as.Lhs) != 1 || len(as.Rhs) != 1 {
				continue
			}
			fl, ok := as.Rhs[0].(*ast.FuncLit)
			if !ok {
				continue
			}
			name := src(as.Lhs[0])
			var st []string
			for _, b := range fl.Body.List {
				st = append(st, src(b))
			}
			fmt.Fprintf(&out, "def closure_%s : List String := %s\n", name, strList(st))
		}
		// the main loop
		var loop *ast.ForStmt
		for _, s := range pe.Body.List {
			if fs, ok := s.(*ast.ForStmt); ok {
				loop = fs
			}
		}
		if loop == nil {
			fail("parseEvents: main loop not found")
		} else {
			var gate []string // statements of the loop before the dispatch switch, as a skeleton
			var dispatch []string
			for _, s := range loop.Body.List {
				switch v := s.(type) {
				case *ast.SwitchStmt:
					if v.Tag == nil {
						for _, c := range v.Body.List {
							cc := c.(*ast.CaseClause)
							var l []string
							for _, e := range cc.List {
								l = append(l, src(e))
							}
							dispatch = append(dispatch, strings.Join(l, ","))
						}
						continue
					}
				case *ast.IfStmt:
					gate = append(gate, "if "+src(v.Cond))
					continue
				case *ast.SelectStmt:
					var cs []string
					for _, c := range v.Body.List {
						cc := c.(*ast.CommClause)
						if cc.Comm == nil {
							cs = append(cs, "default")
						} else {
							cs = append(cs, src(cc.Comm))
						}
					}
					gate = append(gate, "select{"+strings.Join(cs, "|")+"}")
					continue
				}
				gate = append(gate, src(s))
			}
			fmt.Fprintf(&out, "def loopSkeleton : List String := %s\n", strList(gate))
			fmt.Fprintf(&out, "def dispatchOrder : List String := %s\n", strList(dispatch))
		}
		// first result of every 2-result return (closures return one value and are skipped)
		var rets []string
		ast.Inspect(pe.Body, func(x ast.Node) bool {
			if r, ok := x.(*ast.ReturnStmt); ok && len(r.Results) == 2 {
				rets = append(rets, src(r.Results[0]))
			}
			return true
		})
		fmt.Fprintf(&out, "def parseEventsReturns : List String := %s\n", strList(rets))
		// statement kinds per case of the inner switch on typ
		ast.Inspect(pe.Body, func(x ast.Node) bool {
			sw, ok := x.(*ast.SwitchStmt)
			if !ok || sw.Tag == nil || src(sw.Tag) != "typ" {
				return true
			}
			var l []string
			for _, c := range sw.Body.List {
				cc := c.(*ast.CaseClause)
				var k []string
				for _, e := range cc.List {
					k = append(k, src(e))
				}
				key := strings.Join(k, ",")
				if cc.List == nil {
					key = "default"
				}
				l = append(l, key+" => "+bodySrc(cc.Body))
			}
			fmt.Fprintf(&out, "def stmtSwitch : List String := %s\n", strList(l))
			return false
		})
	}
	if fd := findFunc(f, "Stream", "Streamer"); fd != nil {
		var st []string
		for _, b := range fd.Body.List {
			st = append(st, src(b))
		}
		fmt.Fprintf(&out, "def streamBody : List String := %s\n", strList(st))
	}
	if fd := findFunc(f, "Error", "Streamer"); fd != nil {
		fmt.Fprintf(&out, "def errorSrc : String := %s\n", fp(alphaBody(fd.Body.List)))
	}
	for _, name := range []string{"SetBinlogPosition", "binlogPosition"} {
		if fd := findFunc(f, name, "Streamer"); fd != nil {
			fmt.Fprintf(&out, "def %sSrc : String := %s\n", name, fp(alphaBody(fd.Body.List)))
		}
	}
	for _, name := range []string{"getValuesFromRow", "getIdentifiesFromRow", "appendInsertEventFromRows",
		"appendUpdateEventFromRows", "appendDeleteEventFromRows"} {
		if fd := findFunc(f, name, ""); fd != nil {
			fmt.Fprintf(&out, "def %sSrc : String := %s\n", name, fp(alphaBody(fd.Body.List)))
		}
	}
}

func connFacts(f *ast.File) {
	normalise(f)
	// errChan capacity
	capFound := false
	ast.Inspect(f, func(x ast.Node) bool {
		ce, ok := x.(*ast.CallExpr)
		if !ok || src(ce.Fun) != "make" || len(ce.Args) == 0 {
			return true
		}
		if src(ce.Args[0]) == "chan *Error" {
			n := int64(0)
			if len(ce.Args) > 1 {
				v, ok := evalConst(ce.Args[1], constEnv{}, 0)
				if !ok {
					fail("errChan capacity %s is not a literal", src(ce.Args[1]))
				}
				n = v
			}
			fmt.Fprintf(&out, "def errChanCap : Nat := %d\n", n)
			capFound = true
		}
		if src(ce.Args[0]) == "chan replication.BinlogEvent" {
			n := int64(0)
			if len(ce.Args) > 1 {
				v, _ := evalConst(ce.Args[1], constEnv{}, 0)
				n = v
			}
			fmt.Fprintf(&out, "def eventChanCap : Nat := %d\n", n)
		}
		return true
	})
	if !capFound {
		fail("make(chan *Error, N) not found in slave_connection.go")
	}
	if fd := findFunc(f, "prepareForReplication", "slaveConnection"); fd != nil {
		var lits []string
		ast.Inspect(fd.Body, func(x ast.Node) bool {
			ce, ok := x.(*ast.CallExpr)
			if ok && src(ce.Fun) == "s.dc.Exec" && len(ce.Args) == 1 {
				if bl, ok := ce.Args[0].(*ast.BasicLit); ok {
					s, _ := strconv.Unquote(bl.Value)
					lits = append(lits, s)
				} else {
					fail("Exec argument is not a literal: %s", src(ce.Args[0]))
				}
			}
			return true
		})
		fmt.Fprintf(&out, "def execLiterals : List String := %s\n", strList(lits))
		fmt.Fprintf(&out, "def prepareForReplicationSrc : String := %s\n", fp(alphaBody(fd.Body.List)))
	}
	if fd := findFunc(f, "startDumpFromBinlogPosition", "slaveConnection"); fd != nil {
		var calls []string
		ast.Inspect(fd.Body, func(x ast.Node) bool {
			ce, ok := x.(*ast.CallExpr)
			if ok && src(ce.Fun) == "s.dc.NoticeDump" {
				var a []string
				for _, e := range ce.Args {
					a = append(a, src(e))
				}
				calls = append(calls, strList(a))
			}
			return true
		})
		fmt.Fprintf(&out, "def noticeDumpCalls : List (List String) := [%s]\n", strings.Join(calls, ", "))
		fls := funcLits(fd.Body)
		if len(fls) < 1 {
			fail("startDumpFromBinlogPosition: reader goroutine not found")
		} else {
			// the go func literal is the outermost one
			var st []string
			for _, b := range fls[0].Body.List {
				st = append(st, src(b))
			}
			fmt.Fprintf(&out, "def readerBody : List String := %s\n", strList(st))
		}
		fmt.Fprintf(&out, "def startDumpSrc : String := %s\n", fp(alphaBody(fd.Body.List)))
	}
	for _, name := range []string{"readBinlogEvent", "close"} {
		if fd := findFunc(f, name, "slaveConnection"); fd != nil {
			fmt.Fprintf(&out, "def conn_%sSrc : String := %s\n", name, fp(alphaBody(fd.Body.List)))
		}
	}
	if fd := findFunc(f, "newSlaveConnection", ""); fd != nil {
		fmt.Fprintf(&out, "def newSlaveConnectionSrc : String := %s\n", fp(alphaBody(fd.Body.List)))
	}
}

func structTags(f *ast.File) []string {
	var r []string
	ast.Inspect(f, func(x ast.Node) bool {
		st, ok := x.(*ast.StructType)
		if !ok {
			return true
		}
		for _, fl := range st.Fields.List {
			if fl.Tag != nil {
				names := []string{}
				for _, n := range fl.Names {
					names = append(names, n.Name)
				}
				t, _ := strconv.Unquote(fl.Tag.Value)
				r = append(r, strings.Join(names, ",")+" "+src(fl.Type)+" "+t)
			}
		}
		return true
	})
	return r
}

func txFacts(tx, pos, tbl *ast.File) {
	normalise(tx)
	for _, rc := range []string{"Transaction", "StreamEvent", "ColumnData"} {
		if fd := findFunc(tx, "MarshalJSON", rc); fd != nil {
			fmt.Fprintf(&out, "def marshal%sSrc : String := %s\n", rc, fp(alphaBody(fd.Body.List)))
		}
	}
	for _, name := range []string{"newTransaction", "newStreamEvent", "newRowData", "newColumnData"} {
		if fd := findFunc(tx, name, ""); fd != nil {
			fmt.Fprintf(&out, "def %sSrc : String := %s\n", name, fp(alphaBody(fd.Body.List)))
		}
	}
	fmt.Fprintf(&out, "def txStructTags : List String := %s\n", strList(structTags(tx)))
	fmt.Fprintf(&out, "def positionStructTags : List String := %s\n", strList(structTags(pos)))
	fmt.Fprintf(&out, "def tableStructTags : List String := %s\n", strList(structTags(tbl)))
}

// fp is the fingerprint of a normalised source text: the first 16 hex digits of
// its SHA-256. The full text goes to the sidecar so a broken pin can be read.
var sidecar bytes.Buffer

func fp(s string) string {
	h := sha256.Sum256([]byte(s))
	x := hex.EncodeToString(h[:8])
	fmt.Fprintf(&sidecar, "%s\t%s\n", x, s)
	return leanStr(x)
}

func fileFacts(repo string) {
	var files []string
	for _, dir := range []string{"", "replication"} {
		ents, err := os.ReadDir(filepath.Join(repo, dir))
		if err != nil {
			continue
		}
		for _, e := range ents {
			n := e.Name()
			if e.IsDir() || !strings.HasSuffix(n, ".go") || strings.HasSuffix(n, "_test.go") || n == "verif_export.go" {
				continue
			}
			files = append(files, filepath.Join(dir, n))
		}
	}
	sort.Strings(files)
	var q []string
	for _, f := range files {
		q = append(q, leanStr(f))
	}
	fmt.Fprintf(&out, "def goFiles : List String := [%s]\n", strings.Join(q, ", "))
	for _, f := range files {
		af, err := parser.ParseFile(fset, filepath.Join(repo, f), nil, 0)
		if err != nil {
			fail("cannot parse %s", f)
			continue
		}
		notePkgObjs(af)
		var inv []string
		var decls []string // normalised declarations; hashed in sorted order (moving a declaration is not a change)
		for _, d := range af.Decls {
			switch v := d.(type) {
			case *ast.FuncDecl:
				name := v.Name.Name
				if v.Recv != nil && len(v.Recv.List) > 0 {
					name = "(" + src(v.Recv.List[0].Type) + ")." + name
				}
				inv = append(inv, "func "+name)
				v.Doc = nil
			case *ast.GenDecl:
				v.Doc = nil
				for _, sp := range v.Specs {
					switch x := sp.(type) {
					case *ast.ValueSpec:
						for _, n := range x.Names {
							inv = append(inv, strings.ToLower(v.Tok.String())+" "+n.Name)
						}
					case *ast.TypeSpec:
						inv = append(inv, "type "+x.Name.Name)
					case *ast.ImportSpec:
						inv = append(inv, "import "+x.Path.Value)
					}
				}
			}
			normalise(d)
			dd := d
			decls = append(decls, alphaSrc(func() string { return src(dd) }, dd))
		}
		sort.Strings(inv)
		var qi []string
		for _, x := range inv {
			qi = append(qi, leanStr(x))
		}
		id := strings.NewReplacer("/", "_", ".go", "", ".", "_").Replace(f)
		fmt.Fprintf(&out, "def inv_%s : List String := [%s]\n", id, strings.Join(qi, ", "))
		sort.Strings(decls)
		h := sha256.Sum256([]byte(strings.Join(decls, "\n")))
		fmt.Fprintf(&out, "def fileDigest_%s : String := %s\n", id, leanStr(hex.EncodeToString(h[:8])))
	}
}
