package main

// SplitMix64: the single PRNG every random choice derives from (VERIF_SEED).
type RNG struct{ s uint64 }

func NewRNG(seed uint64) *RNG { return &RNG{s: seed*0x9E3779B97F4A7C15 + 0x1234567} }

func (r *RNG) U64() uint64 {
	r.s += 0x9E3779B97F4A7C15
	z := r.s
	z = (z ^ (z >> 30)) * 0xBF58476D1CE4E5B9
	z = (z ^ (z >> 27)) * 0x94D049BB133111EB
	return z ^ (z >> 31)
}

// Intn returns a value in [0,n).
func (r *RNG) Intn(n int) int {
	if n <= 0 {
		return 0
	}
	return int(r.U64() % uint64(n))
}

func (r *RNG) Range(lo, hi int) int { return lo + r.Intn(hi-lo+1) }
func (r *RNG) Bool() bool           { return r.U64()&1 == 1 }
func (r *RNG) Chance(num, den int) bool {
	return r.Intn(den) < num
}

func (r *RNG) Bytes(n int) []byte {
	b := make([]byte, n)
	for i := range b {
		b[i] = byte(r.U64())
	}
	return b
}

// Pick returns one of the given ints.
func (r *RNG) Pick(xs ...int) int { return xs[r.Intn(len(xs))] }

// Fork derives an independent stream (for workers) deterministically.
func (r *RNG) Fork() *RNG { return NewRNG(r.U64()) }

// Perm returns a random permutation of 0..n-1.
func (r *RNG) Perm(n int) []int {
	p := make([]int, n)
	for i := range p {
		p[i] = i
	}
	for i := n - 1; i > 0; i-- {
		j := r.Intn(i + 1)
		p[i], p[j] = p[j], p[i]
	}
	return p
}
