package main

import (
	"context"
	"fmt"
	"runtime"
	"unsafe"

	gobinlog "github.com/Breeze0806/gobinlog"
	"github.com/Breeze0806/gobinlog/replication"
)

// the CellBytes cases that the model (GV/Props/C08.lean: subSliceTypes, plus real CHAR) says return a sub-slice of
// the event buffer; every other value must live in a buffer of its own
func modelSaysSubSlice(typ int, md int) bool {
	switch typ {
	case 15, 253, 16, 248, 249, 250, 251, 252, 255:
		return true
	case 254:
		t := md >> 8
		return t != 247 && t != 248
	}
	return false
}

func within(p uintptr, n int, base []byte) bool {
	if len(base) == 0 {
		return false
	}
	b := uintptr(unsafe.Pointer(unsafe.SliceData(base)))
	return p >= b && p+uintptr(n) <= b+uintptr(cap(base))
}

// provenanceCheck runs the real parser over a history and classifies the backing store of every delivered value.
func provenanceCheck(col *Collector, h *hist) {
	ans, err := theDriver.Ask(h.line(posStr(firstFile, 4)))
	if err != nil {
		return
	}
	packets := splitPackets(fields(ans)["packets"])
	var bufs [][]byte
	m := &tblMapper{tables: h.tables}
	s, _ := gobinlog.NewStreamer("unused", 7, m)
	s.SetBinlogPosition(gobinlog.Position{Filename: firstFile, Offset: 4})
	ch := make(chan replication.BinlogEvent, len(packets))
	for _, p := range packets {
		b := exact(p)
		bufs = append(bufs, b)
		ch <- replication.NewMysql56BinlogEvent(b)
	}
	close(ch)
	colTypes := map[string]map[string][2]int{}
	for _, t := range h.tables {
		mm := map[string][2]int{}
		for _, c := range t.cols {
			mm[c.name] = [2]int{c.typ, c.md}
		}
		colTypes[t.db+"\x00"+t.name] = mm
	}
	type seen struct {
		p uintptr
		n int
	}
	var all []seen
	var keep []*gobinlog.Transaction // the delivered transactions stay referenced: a collected value's memory would be
	// handed out again and look like an overlap (false alarm in the thorough sweep at seed 4)
	ok, note, key := true, "", ""
	nvals := 0
	func() {
		defer func() { recover() }()
		s.VerifParseEvents(context.Background(), ch, func(t *gobinlog.Transaction) error {
			keep = append(keep, t)
			for _, e := range t.Events {
				for _, rs := range [][]*gobinlog.RowData{e.RowValues, e.RowIdentifies} {
					for _, r := range rs {
						for _, c := range r.Columns {
							if c.Data == nil || len(c.Data) == 0 {
								continue
							}
							nvals++
							p := uintptr(unsafe.Pointer(unsafe.SliceData(c.Data)))
							inEvent := false
							for _, b := range bufs {
								if within(p, len(c.Data), b) {
									inEvent = true
								}
							}
							inZero := within(p, len(c.Data), replication.ZeroTimestamp)
							tm := colTypes[e.Table.DbName+"\x00"+e.Table.TableName][c.Filed]
							want := modelSaysSubSlice(tm[0], tm[1])
							if inZero {
								ok, key = false, "value-is-shared-constant"
								note = fmt.Sprintf("a delivered value of column type %d is the package-level ZeroTimestamp slice itself", tm[0])
							} else if inEvent != want {
								ok, key = false, "provenance-differs-from-model"
								note = fmt.Sprintf("column type %d md %d: value inside an event buffer = %v, the model says %v", tm[0], tm[1], inEvent, want)
							}
							// no two delivered values may overlap
							for _, o := range all {
								if p < o.p+uintptr(o.n) && o.p < p+uintptr(len(c.Data)) {
									ok, key = false, "delivered-values-overlap"
									note = fmt.Sprintf("two delivered values share bytes (column type %d)", tm[0])
								}
							}
							all = append(all, seen{p, len(c.Data)})
						}
					}
				}
			}
			return nil
		})
	}()
	runtime.KeepAlive(keep)
	col.AddScenario("provenance", h.line(posStr(firstFile, 4)), nvals > 0, ok, key != "provenance-differs-from-model", note, key, fmt.Sprintf("%d values classified", nvals), "")
}

// reusedBufferConn is a dumpConn whose ReadPacket returns the same backing array every time, overwritten with the
// next packet (the worst case the driver contract allows).
type reusedBufferConn struct {
	packets [][]byte
	i       int
	buf     []byte
}

func (c *reusedBufferConn) Close() error                                    { return nil }
func (c *reusedBufferConn) Exec(string) error                               { return nil }
func (c *reusedBufferConn) NoticeDump(uint32, uint32, string, uint16) error { return nil }
func (c *reusedBufferConn) HandleErrorPacket([]byte) error                  { return fmt.Errorf("err packet") }
func (c *reusedBufferConn) ReadPacket() ([]byte, error) {
	if c.i >= len(c.packets) {
		return nil, fmt.Errorf("closed")
	}
	p := c.packets[c.i]
	c.i++
	for i := range c.buf {
		c.buf[i] = 0xAA
	}
	n := copy(c.buf, append([]byte{0}, p...))
	return c.buf[:n], nil
}

func reusedBufferCheck(col *Collector, h *hist) {
	ans, err := theDriver.Ask(h.line(posStr(firstFile, 4)))
	if err != nil {
		return
	}
	packets := splitPackets(fields(ans)["packets"])
	max := 0
	for _, p := range packets {
		if len(p)+1 > max {
			max = len(p) + 1
		}
	}
	conn := &reusedBufferConn{packets: packets, buf: make([]byte, max)}
	sc, err := gobinlog.VerifNewSlaveConnection(func() (gobinlog.VerifDumpConn, error) { return conn, nil })
	if err != nil {
		return
	}
	var evs []replication.BinlogEvent
	for range packets {
		ev, err := sc.ReadEvent()
		if err != nil {
			break
		}
		evs = append(evs, ev)
	}
	ok, note := len(evs) == len(packets), ""
	if !ok {
		note = "could not read every packet through readBinlogEvent"
	}
	for i, ev := range evs {
		if hx(ev.Bytes()) != hx(packets[i]) {
			ok = false
			note = fmt.Sprintf("event %d changed after later packets were read into the same transport buffer", i)
			break
		}
	}
	col.AddScenario("reused-transport-buffer", h.line(posStr(firstFile, 4)), len(packets) > 3, ok, true, note, "event-aliases-transport-buffer", fmt.Sprintf("%d events re-read", len(evs)), "")
}
