package main

import (
	"context"
	"fmt"
	"strings"

	gobinlog "github.com/Breeze0806/gobinlog"
	"github.com/Breeze0806/gobinlog/replication"
)

// editingHandler: the transaction a handler is given is the handler's to do with as it likes - rewrite NextPosition into
// its own checkpoint format, zero the object to recycle it. The parser's own cursor must not be read back from it: the
// labels of the following transactions and the position the attempt returns are as for a read-only handler.
func editingHandler(col *Collector, r *RNG, tier string) {
	n := 25
	if tier == "thorough" {
		n = 400
	}
	o := histOpts{maxUnits: 7, maxStmts: 2, maxRows: 2, maxCols: 5, maxTables: 2, files: true, ignorable: true}
	for i := 0; i < n; i++ {
		h := genHistory(r, o, allCfgs[i%len(allCfgs)])
		if i == 0 {
			h = bulkHistory(r, allCfgs[r.Intn(len(allCfgs))], 17000) // a bulk-load transaction of 17000 rows events
		}
		line := h.line(posStr(h.startFile(), 4))
		ans, err := theDriver.Ask(line)
		if err != nil || strings.HasPrefix(ans, "bad-") {
			continue
		}
		f := fields(ans)
		packets := withQueryErrors(h, splitPackets(f["packets"]))
		m := &tblMapper{tables: h.tables}
		s, _ := gobinlog.NewStreamer("unused", 7, m)
		s.SetBinlogPosition(gobinlog.Position{Filename: h.startFile(), Offset: 4})
		ch := make(chan replication.BinlogEvent, len(packets))
		for _, p := range packets {
			ch <- replication.NewMysql56BinlogEvent(exact(p))
		}
		close(ch)
		var calls []string
		mode := i % 3
		if i == 0 {
			mode = 3 // (the bulk load with a read-only handler)
		}
		res := catch(func() string {
			pos, err := s.VerifParseEvents(context.Background(), ch, func(t *gobinlog.Transaction) error {
				calls = append(calls, showTx(t))
				switch mode {
				case 0:
					t.NextPosition = gobinlog.Position{Filename: "checkpoint-format", Offset: 1}
				case 1:
					*t = gobinlog.Transaction{}
				case 2:
					t.NowPosition, t.NextPosition = t.NextPosition, t.NowPosition
					t.Events = nil
				}
				return nil
			})
			c := "nil"
			if err != nil {
				c = "err"
			}
			return c + "@" + posStr(pos.Filename, pos.Offset)
		})
		got := res + "#" + strings.Join(calls, "&")
		want := "nil@" + f["endpos"] + "#" + f["spec"]
		ok, note := got == want, ""
		if !ok {
			note = fmt.Sprintf("with a handler that edits the transaction it was given (mode %d): %s", mode, firstDiff(calls, strings.Split(f["spec"], "&"), got, want))
		}
		col.AddScenario("editing-handler", line, len(calls) > 1, ok, true, note, "cursor-read-back-from-delivered-object", clip(got, 200), clip(want, 200))
	}
}
