package main

import (
	"io"
	"math/rand"
	"sync/atomic"
	"time"

	"github.com/Breeze0806/go/log"
	gobinlog "github.com/Breeze0806/gobinlog"
)

func init() {
	// the library logs every event at debug level to stderr by default
	quietLog()
}

func quietLog() {
	gobinlog.SetLogger(log.NewDefaultLogger(io.Discard, log.ErrorLevel, ""))
}

// slowSink is a log destination that stalls its caller for a random time up to slowLogMax: a slow or contended log
// sink widens every window between two statements that have a log call in between (used by the stream-level
// scenarios of C05 / C06; the library's goroutines log from inside their exit paths).
type slowSink struct{}

var slowLogMax int64 // nanoseconds

func (slowSink) Write(p []byte) (int, error) {
	if m := atomic.LoadInt64(&slowLogMax); m > 0 {
		time.Sleep(time.Duration(rand.Int63n(m)))
	}
	return len(p), nil
}

// slowLog switches the library to a debug-level logger writing to the slow sink; the returned function restores the
// quiet logger. Call only while no library goroutine is running.
func slowLog(max time.Duration) func() {
	atomic.StoreInt64(&slowLogMax, int64(max))
	gobinlog.SetLogger(log.NewDefaultLogger(slowSink{}, log.DebugLevel, ""))
	return func() {
		atomic.StoreInt64(&slowLogMax, 0)
		quietLog()
	}
}
