package main

import (
	"io"

	"github.com/Breeze0806/go/log"
	gobinlog "github.com/Breeze0806/gobinlog"
)

func init() {
	// the library logs every event at debug level to stderr by default
	gobinlog.SetLogger(log.NewDefaultLogger(io.Discard, log.ErrorLevel, ""))
}
