package main

import (
	"context"
	"fmt"
	"strings"
	"sync"
	"sync/atomic"
	"time"

	gobinlog "github.com/Breeze0806/gobinlog"
)

// invalidThenSilence (C17): the master sends a packet the validity gate refuses and then nothing more, with the
// connection left open (a healthy, idle master). The stream must still end with an error in bounded time, deliver
// only what was committed before, and keep the position of the last accepted commit.
func invalidThenSilence(col *Collector, r *RNG, tier string) {
	n := 6
	if tier == "thorough" {
		n = 80
	}
	m := sharedMaster()
	for i := 0; i < n; i++ {
		h := smallHistory(r, allCfgs[i%len(allCfgs)])
		ans, err := theDriver.Ask(h.line(posStr(firstFile, 4)))
		if err != nil {
			continue
		}
		packets := splitPackets(fields(ans)["packets"])
		at := 2 + r.Intn(len(packets)-1)
		src := packets[r.Intn(len(packets))]
		var bad []byte
		switch r.Intn(3) {
		case 0:
			bad = append([]byte(nil), src[:r.Intn(len(src))]...)
		case 1:
			bad = append(append([]byte(nil), src...), r.Bytes(r.Range(1, 5))...)
		default:
			bad = r.Bytes(r.Range(0, 40))
		}
		s, mp := newStreamer(m, h, 9, firstFile, 4)
		opts := defaultOpts()
		opts.script = func(p [][]byte) []action {
			var sc []action
			for k, pk := range p {
				if k == at {
					return append(sc, action{kind: "send", data: bad}) // ... and silence, connection open
				}
				sc = append(sc, action{kind: "send", data: pk})
			}
			return append(sc, action{kind: "send", data: bad})
		}
		res := runAttempt(s, m, h, mp, opts)
		ok, note, key := true, "", ""
		switch {
		case res.streamRet == "hang":
			ok, key, note = false, "invalid-packet-stream-hangs", "after a packet the gate refuses, with the master silent and the connection open, Stream did not return"
		case !strings.HasPrefix(res.streamRet, "err:"):
			ok, key, note = false, "invalid-packet-no-error", "a packet the gate refuses did not end the stream with an error: "+clip(res.streamRet, 80)
		}
		col.AddScenario("invalid-packet-then-silence", fmt.Sprintf("bad packet %s in the place of packet %d, then silence # %s", hx(bad), at, clip(h.line(posStr(firstFile, 4)), 300)), true, ok, true, note, key, clip(res.streamRet, 80), "")
	}
}

// panickingConsumer (C06): the handler panics (send on a closed channel, nil map write) or the table mapper answers
// (nil, nil). Whatever the library makes of that - let the panic reach Stream's caller, or turn it into an error -
// it must not come back as Stream() == nil together with Error() == nil.
func panickingConsumer(col *Collector, r *RNG, tier string) {
	n := 6
	if tier == "thorough" {
		n = 60
	}
	m := sharedMaster()
	for i := 0; i < n; i++ {
		h := smallHistory(r, allCfgs[i%len(allCfgs)])
		s, mp := newStreamer(m, h, 10, firstFile, 4)
		opts := defaultOpts()
		opts.failAt = r.Intn(2)
		opts.panicOnFail = true
		res := runAttempt(s, m, h, mp, opts)
		ok, note := true, ""
		if res.streamRet == "nil" && res.errorRet == "nil" && len(res.calls) > opts.failAt {
			ok = false
			note = fmt.Sprintf("the handler panicked in call %d; Stream returned nil and Error() returned nil", opts.failAt)
		}
		col.AddScenario("panicking-handler", "handler panics in call "+fmt.Sprint(opts.failAt)+" # "+clip(h.line(posStr(firstFile, 4)), 300), true, ok, true, note, "panic-swallowed", clip(res.streamRet, 80)+" / "+clip(res.errorRet, 80), "")
	}
}

// concurrentReposition (C07): a second goroutine keeps switching the Streamer's start position between two configured
// values while attempts run (a supervisor that seeks / fails over). Every dump request must carry one of the two
// positions as a whole - never the file of one with the offset of the other.
func concurrentReposition(col *Collector, r *RNG, tier string) {
	n := 250
	if tier == "thorough" {
		n = 2500
	}
	m := sharedMaster()
	h := &hist{cfg: "000", ext: map[string][]string{}, tables: []*hTable{{id: 1, db: "d", name: "t", cols: []hCol{{typ: 3, name: "a"}}}}}
	mp := &tblMapper{tables: h.tables}
	s, _ := gobinlog.NewStreamer(m.dsn(), 77, mp)
	pa := gobinlog.Position{Filename: "mysql-bin.000042", Offset: 4}
	pb := gobinlog.Position{Filename: "mysql-bin.000777777", Offset: 734003200}
	s.SetBinlogPosition(pa)
	var stop int32
	var wg sync.WaitGroup
	wg.Add(1)
	go func() {
		defer wg.Done()
		for k := 0; atomic.LoadInt32(&stop) == 0; k++ {
			if k%2 == 0 {
				s.SetBinlogPosition(pb)
			} else {
				s.SetBinlogPosition(pa)
			}
		}
	}()
	customDump = func(sc *simConn, req dumpReq) []action { return []action{{kind: "eof"}} }
	bad := ""
	streamMu.Lock()
	for i := 0; i < n && bad == ""; i++ {
		m.resetProgress()
		before := m.connCount()
		ctx, cancel := context.WithTimeout(context.Background(), 2*time.Second)
		s.Stream(ctx, func(*gobinlog.Transaction) error { return nil })
		cancel()
		s.Error()
		if m.connCount() > before {
			c := m.lastConn()
			select {
			case <-c.done:
			case <-time.After(time.Second):
			}
			c.mu.Lock()
			for _, d := range c.dumps {
				okA := d.file == pa.Filename && int64(d.pos) == pa.Offset
				okB := d.file == pb.Filename && int64(d.pos) == pb.Offset
				if !okA && !okB {
					bad = fmt.Sprintf("dump request for %q:%d; the Streamer was only ever configured with %q:%d and %q:%d", d.file, d.pos, pa.Filename, pa.Offset, pb.Filename, pb.Offset)
				}
			}
			c.mu.Unlock()
		}
	}
	streamMu.Unlock()
	customDump = nil
	atomic.StoreInt32(&stop, 1)
	wg.Wait()
	col.AddScenario("concurrent-reposition", fmt.Sprintf("%d attempts while another goroutine alternates SetBinlogPosition between two positions", n), true, bad == "", true, bad, "torn-position", "", "")
}
