package main

import (
	"fmt"
	gobinlog "github.com/Breeze0806/gobinlog"
	"strings"
)

// ---- C15 at the parser level: attribution of rows to columns, mapper use, re-announcements -------------------

// intHeavyTables: schemas dominated by integer columns of mixed signedness, so that a wrong ordinal (names or
// signedness taken from the wrong mapper column) changes the delivered text.
func intHeavyTables(r *RNG, n int) []*hTable {
	var ts []*hTable
	for i := 0; i < n; i++ {
		nc := r.Range(2, 9)
		if r.Chance(1, 6) {
			nc = r.Range(66, 130) // signedness of columns at ordinal 64 and beyond (nothing about a column depends on its ordinal)
		}
		t := &hTable{id: uint64(200 + i*3), db: "d" + randName(r, 2), name: fmt.Sprintf("t%d", i)}
		if r.Chance(1, 6) {
			// ids at the ends of the 3- and 4-byte ranges (no id value is special to the replica)
			t.id = []uint64{0 + uint64(3*i), 0xfffffd - uint64(3*i), 0xffffff + uint64(3*i), 0x1000000 + uint64(3*i), 0xfffffffc - uint64(3*i), 0xfffffffd - uint64(3*i)}[r.Intn(6)]
		}
		for c := 0; c < nc; c++ {
			typ := []int{1, 2, 9, 3, 8}[r.Intn(5)]
			col := hCol{typ: typ, nullable: true, name: fmt.Sprintf("c%d_%s", c, randName(r, 3)), unsigned: c%2 == i%2}
			if r.Chance(1, 5) {
				col = hCol{typ: 15, md: 40, nullable: true, name: fmt.Sprintf("s%d", c)}
			}
			t.cols = append(t.cols, col)
		}
		ts = append(ts, t)
		// "decoded with the column types of the most recent table map for that id": a second definition of the same
		// id — same table, same column names and signedness (the mapper is asked once per id), same column count,
		// but other integer widths / string metadata, as after an in-place ALTER that kept the id
		if r.Chance(1, 3) {
			v := &hTable{id: t.id, db: t.db, name: t.name}
			if r.Bool() {
				// … or under a NEW id, as after an ALTER that re-opened the table: both ids stay valid for the rest of the
				// attempt and each must keep its own table map
				v.id = t.id + 1
			}
			for _, c := range t.cols {
				if c.typ == 15 {
					c.md = r.Pick(20, 300)
				} else {
					c.typ = []int{1, 2, 9, 3, 8}[r.Intn(5)]
				}
				v.cols = append(v.cols, c)
			}
			ts = append(ts, v)
		}
		// ANOTHER table under the same id (table ids start over when the master restarts; a replica reading through
		// binlog files written before and after the restart sees the id again): its own name, columns, signedness and
		// possibly another column count. Every change of the table an id stands for is announced.
		if r.Chance(1, 3) {
			v := &hTable{id: t.id, db: t.db, name: t.name + "r"}
			switch r.Intn(4) {
			case 0:
				v.db, v.name = t.db+"r", t.name // the same table name in another schema, under the same id
			case 1:
				v.name = strings.ToUpper(t.name) // names differing in letter case only are different tables
			}
			nv := len(t.cols)
			if r.Bool() {
				nv = r.Range(1, 9)
			}
			for c := 0; c < nv; c++ {
				v.cols = append(v.cols, hCol{typ: []int{1, 2, 9, 3, 8}[r.Intn(5)], nullable: true, name: fmt.Sprintf("r%d_%s", c, randName(r, 2)), unsigned: r.Bool()})
			}
			ts = append(ts, v)
		}
		// the same table NAME in another schema (sharded / per-tenant schemas): its own id, the same column count,
		// other column names and the opposite signedness - only the (database, table) pair identifies a table
		if r.Chance(1, 3) {
			v := &hTable{id: t.id + 2, db: t.db + "x", name: t.name}
			for k, c := range t.cols {
				c.name = fmt.Sprintf("o%d_%s", k, randName(r, 2))
				c.unsigned = !c.unsigned && c.typ != 15
				v.cols = append(v.cols, c)
			}
			ts = append(ts, v)
		}
	}
	return ts
}

// expectedMapperCalls: the lookups one attempt over the whole history must make (independent re-statement of "names
// and signedness come from the table mapper": asked when a table map announces a table its id does not stand for).
func expectedMapperCalls(h *hist) []string {
	var calls []string
	cur := map[uint64]string{}
	for _, u := range h.units {
		var rows []*hRows
		for _, ch := range u.changes {
			if ch.rows != nil {
				rows = append(rows, ch.rows)
			}
		}
		if u.rows != nil {
			rows = append(rows, u.rows)
		}
		for _, c := range rows {
			if !c.announce {
				continue
			}
			t := h.tables[c.table]
			k := t.db + "\x00" + t.name
			if cur[t.id] != k {
				calls = append(calls, k)
				cur[t.id] = k
			}
		}
	}
	return calls
}

func genAttributionHistory(r *RNG, cfg string) *hist {
	return genAttributionHistoryOver(r, cfg, intHeavyTables(r, r.Range(1, 3)))
}

func genAttributionHistoryOver(r *RNG, cfg string, tables []*hTable) *hist {
	h := &hist{cfg: cfg, ext: map[string][]string{}, pad: r.Bool()}
	h.tables = tables
	o := histOpts{maxRows: 3}
	ts := uint32(1600000000)
	nu := r.Range(2, 6)
	for u := 0; u < nu; u++ {
		ts++
		unit := hUnit{kind: "tx", ts: ts, begin: "BEGIN", closer: fmt.Sprintf("x%d", u)}
		last := map[uint64]int{} // table id -> index of the definition announced last in this transaction
		for k := r.Range(1, 4); k > 0; k-- {
			ti := r.Intn(len(h.tables))
			prev, was := last[h.tables[ti].id]
			c := genRows(r, h, o, ti, ts, !was || prev != ti || r.Bool()) // re-announcements inside a transaction
			last[h.tables[ti].id] = ti
			// high-bit values so that signedness is visible; partial images so that ordinals matter
			for i := range c.rows {
				for side := 0; side < 2; side++ {
					img := c.rows[i][side]
					for j := range img {
						if strings.HasPrefix(img[j], "i:") || strings.HasPrefix(img[j], "u:") {
							// regenerate with the top bit set half of the time
							continue
						}
					}
				}
			}
			unit.changes = append(unit.changes, hChange{rows: c})
		}
		h.units = append(h.units, unit)
	}
	return h
}

// countRedefCases: a table id announced again FOR THE SAME TABLE with fewer / more columns, then a rows event of it: the
// held table description (the mapper's answer at the first announcement) no longer fits - a decode / lookup failure
// that must end the attempt with an error after the transactions delivered so far (C15: rejected instead of
// mis-attributed; C06: reported, not swallowed).
func countRedefCases(r *RNG, n int, key string) []Case {
	var cs []Case
	for i := 0; i < n; i++ {
		h := &hist{cfg: allCfgs[i%len(allCfgs)], ext: map[string][]string{}}
		base := intHeavyTables(r, 1)[0]
		h.tables = []*hTable{base}
		v := &hTable{id: base.id, db: base.db, name: base.name}
		if r.Bool() && len(base.cols) > 1 {
			v.cols = append(v.cols, base.cols[:len(base.cols)-r.Range(1, len(base.cols)-1)]...)
		} else {
			v.cols = append(append(v.cols, base.cols...), hCol{typ: 3, nullable: true, name: "extra"})
		}
		h.tables = append(h.tables, v)
		o := histOpts{maxRows: 2}
		ts := uint32(1600000000)
		good := r.Range(1, 3)
		for u := 0; u < good; u++ {
			ts++
			h.units = append(h.units, hUnit{kind: "tx", ts: ts, begin: "BEGIN", closer: fmt.Sprintf("x%d", u),
				changes: []hChange{{rows: genRows(r, h, o, 0, ts, true)}}})
		}
		ts++
		bad := hUnit{kind: "tx", ts: ts, begin: "BEGIN", closer: "x99"}
		if r.Bool() {
			bad.changes = append(bad.changes, hChange{rows: genRows(r, h, o, 0, ts, true)})
		}
		bad.changes = append(bad.changes, hChange{rows: genRows(r, h, o, 1, ts, true)})
		h.units = append(h.units, bad)
		c := histCase(h, firstFile, 4, "redefinition-changes-column-count", true, "")
		hh, want := h, good
		c.Run = func(resp map[string]string) Outcome {
			impl, calls, _ := runParse(hh, splitPackets(resp["packets"]), firstFile, 4, -1, "", false)
			out := Outcome{Impl: normCrash(impl), Model: normCrash(resp["model"]), OracleOK: true}
			out.CorrOK = out.Impl == out.Model
			if !strings.HasPrefix(impl, "err@") || len(calls) != want {
				out.OracleOK = false
				out.FindingKey = key
				out.Note = fmt.Sprintf("a table id re-announced with another column count was not rejected with an error after the %d earlier transactions: %s", want, clip(impl, 200))
			}
			return out
		}
		cs = append(cs, c)
	}
	return cs
}

func init() {
	extraC15 = func(col *Collector, r *RNG, tier string) {
		n := 150
		if tier == "thorough" {
			n = 3000
		}
		var cs []Case
		for i := 0; i < n; i++ {
			h := genAttributionHistory(r, allCfgs[i%len(allCfgs)])
			c := histCase(h, firstFile, 4, "attribution-history", true, "")
			inner := c.Run
			hh := h
			c.Run = func(resp map[string]string) Outcome {
				o := inner(resp)
				if !o.OracleOK {
					o.FindingKey = "attribution"
					return o
				}
				// the mapper is asked exactly when an announced table map names a table the id does not stand for yet
				// (a new id, or an id now announced under another database / table name), in that order
				_, _, mcalls := runParse(hh, splitPackets(resp["packets"]), firstFile, 4, -1, "", false)
				if want := expectedMapperCalls(hh); strings.Join(mcalls, "|") != strings.Join(want, "|") {
					o.OracleOK = false
					o.Note = fmt.Sprintf("table mapper calls %q, want %q (one per announcement of a table its id does not stand for yet)", clip(strings.Join(mcalls, "|"), 300), clip(strings.Join(want, "|"), 300))
					o.FindingKey = "mapper-calls"
				}
				return o
			}
			cs = append(cs, c)
		}
		// a server with MANY tables: more than a thousand distinct table ids announced in one attempt (each written
		// once), then statements over two tables at a time - the second one new - so that every cached id is still
		// needed right after another table was looked up
		{
			cfg := allCfgs[r.Intn(len(allCfgs))]
			h := &hist{cfg: cfg, ext: map[string][]string{}}
			nt := r.Range(1030, 1100)
			if tier == "thorough" {
				nt = r.Range(2050, 2300)
			}
			for i := 0; i < nt+40; i++ {
				h.tables = append(h.tables, &hTable{id: uint64(1000 + i), db: "big", name: fmt.Sprintf("t%04d", i),
					cols: []hCol{{typ: 3, nullable: true, name: fmt.Sprintf("k%d", i), unsigned: i%2 == 0}}})
			}
			o := histOpts{maxRows: 1}
			ts := uint32(1600000000)
			// every new table arrives in a two-table statement next to a table seen earlier: maps of A (seen) and B (new),
			// rows of A, rows of B, rows of A again under the map already sent - whatever the size of the cache, the
			// entry of A is needed right after B was looked up
			for i := 1; i < nt; i++ {
				ts++
				a := i - 1
				if i > 4 && r.Bool() {
					a = r.Intn(i)
				}
				u := hUnit{kind: "tx", ts: ts, begin: "BEGIN", closer: fmt.Sprintf("x%d", i)}
				u.changes = append(u.changes, hChange{rows: genRows(r, h, o, a, ts, true)}, hChange{rows: genRows(r, h, o, i, ts, true)},
					hChange{rows: genRows(r, h, o, a, ts, false)})
				h.units = append(h.units, u)
			}
			for i := 0; i < 20; i++ { // multi-table statements: maps of A (seen long ago) and B (new), rows of A, rows of B
				ts++
				a, b := r.Intn(nt), nt+2*i
				u := hUnit{kind: "tx", ts: ts, begin: "BEGIN", closer: fmt.Sprintf("x9%d", i)}
				ra, rb := genRows(r, h, o, a, ts, true), genRows(r, h, o, b, ts, true)
				ra2 := genRows(r, h, o, a, ts, false)
				u.changes = append(u.changes, hChange{rows: ra}, hChange{rows: rb}, hChange{rows: ra2})
				h.units = append(h.units, u)
			}
			c := histCase(h, firstFile, 4, "many-tables", true, "")
			inner := c.Run
			c.Run = func(resp map[string]string) Outcome {
				o := inner(resp)
				if !o.OracleOK {
					o.FindingKey = "attribution-many-tables"
				}
				return o
			}
			cs = append(cs, c)
		}
		// several attempts on ONE Streamer (what a caller does after a disconnect). Between the attempts the tables
		// were altered and the master restarted: the same ids and names now stand for other definitions (another
		// column count, or other column names and signedness), and the mapper answers with the current ones. Each
		// attempt must attribute and name by its own announcements and its own lookups.
		for i := 0; i < n/3; i++ {
			cfg := allCfgs[i%len(allCfgs)]
			h1 := genAttributionHistory(r, cfg)
			var t2 []*hTable
			for _, t := range h1.tables {
				v := &hTable{id: t.id, db: t.db, name: t.name}
				cols := append([]hCol(nil), t.cols...)
				switch r.Intn(3) {
				case 0:
					cols = append(cols, hCol{typ: 3, nullable: true, name: "added"})
				case 1:
					if len(cols) > 1 {
						cols = cols[:len(cols)-1]
					}
				}
				for k := range cols {
					if r.Bool() {
						cols[k].name += "_v2"
						cols[k].unsigned = !cols[k].unsigned && cols[k].typ != 15
					}
				}
				v.cols = cols
				t2 = append(t2, v)
			}
			// (definitions sharing db and name inside one attempt must agree on names and count: keep the first of each)
			seenName := map[string]bool{}
			var t2u []*hTable
			for _, t := range t2 {
				if !seenName[t.db+"\x00"+t.name] {
					seenName[t.db+"\x00"+t.name] = true
					t2u = append(t2u, t)
				}
			}
			h2 := genAttributionHistoryOver(r, cfg, t2u)
			hs := []*hist{h1, h2}
			var lines []string
			var resps []map[string]string
			bad := false
			for _, h := range hs {
				line := h.line(posStr(firstFile, 4))
				ans, err := theDriver.Ask(line)
				if err != nil || strings.HasPrefix(ans, "bad-") {
					bad = true
					break
				}
				lines, resps = append(lines, line), append(resps, fields(ans))
			}
			if bad {
				continue
			}
			m := &tblMapper{}
			s, _ := gobinlog.NewStreamer("unused", 7, m)
			ok, note := true, ""
			for k, h := range hs {
				m.tables = h.tables
				impl, calls, _ := runParseOn(s, m, splitPackets(resps[k]["packets"]), firstFile, 4, -1, false)
				want := "nil@" + resps[k]["endpos"] + "#" + resps[k]["spec"]
				if impl != want && ok {
					ok = false
					note = fmt.Sprintf("attempt %d on the same Streamer: %s", k+1, firstDiff(calls, strings.Split(resps[k]["spec"], "&"), impl, want))
				}
			}
			col.AddScenario("attempts-on-one-streamer", strings.Join(lines, " ;; then, same Streamer, tables altered: "), true, ok, true, note, "attribution-across-attempts", "", "")
		}
		// "a mapper table whose column count disagrees with the table map is rejected with an error instead of being
		// mis-attributed" — also when the disagreement appears later: the id is announced again with fewer / more
		// columns and a rows event of any kind follows. The attempt must end with an error after the transactions
		// delivered so far, and nothing of the re-defined table may be delivered.
		cs = append(cs, countRedefCases(r, n/3, "count-mismatch-not-rejected")...)
		runCases(col, theDriver, cs)
	}

	// ---- C17 at the parser level: malformed packets injected at every index of a history ----------------------
	extraC17 = func(col *Collector, r *RNG, tier string) {
		n := 25
		if tier == "thorough" {
			n = 500
		}
		o := histOpts{maxUnits: 4, maxStmts: 2, maxRows: 2, maxCols: 5, maxTables: 2, files: true, ignorable: true}
		var cs []Case
		for i := 0; i < n; i++ {
			h := genHistory(r, o, allCfgs[i%len(allCfgs)])
			ans, err := theDriver.Ask(h.line(posStr(firstFile, 4)))
			if err != nil {
				continue
			}
			f0 := fields(ans)
			packets := splitPackets(f0["packets"])
			full := strings.Split(f0["spec"], "&")
			if f0["spec"] == "" {
				full = nil
			}
			bset := map[string]bool{}
			for _, b := range strings.Split(f0["boundaries"], ",") {
				bset[b] = true
			}
			for idx := 0; idx <= len(packets); idx++ {
				// a malformed packet: a real event truncated / extended, or garbage — never self-consistent
				var bad []byte
				src := packets[r.Intn(len(packets))]
				switch r.Intn(5) {
				case 0:
					bad = append([]byte(nil), src[:r.Intn(len(src))]...) // truncated at any length (incl. < 5 and < 19 bytes)
				case 1:
					bad = append(append([]byte(nil), src...), r.Bytes(r.Range(1, 9))...) // over-long
				case 2:
					bad = r.Bytes(r.Intn(30))
				case 3:
					bad = append([]byte(nil), src[:r.Intn(min(len(src), 19)+1)]...) // a prefix of the header
				case 4:
					bad = append([]byte(nil), src...)
					bad[9]++ // length field off by one
				}
				if len(bad) >= 19 && int(uint32(bad[9])|uint32(bad[10])<<8|uint32(bad[11])<<16|uint32(bad[12])<<24) == len(bad) {
					continue // accidentally valid
				}
				idx := idx
				line := h.line(posStr(firstFile, 4), fmt.Sprintf("inject=%d:%s", idx, hx(bad)))
				cs = append(cs, Case{Line: line, Class: fmt.Sprintf("inject-at-%s", map[bool]string{true: "before-format-description", false: "later"}[idx < 2]),
					Nontrivial: true, Run: func(resp map[string]string) Outcome {
						impl, _, _ := runParse(h, splitPackets(resp["packets"]), firstFile, 4, -1, "", false)
						out := Outcome{Impl: normCrash(impl), Model: normCrash(resp["model"]), OracleOK: true}
						out.CorrOK = out.Impl == out.Model
						cls, pos, calls := splitOutcome(impl)
						switch {
						case cls == "crash":
							out.OracleOK, out.Note, out.FindingKey = false, "a malformed packet made parseEvents panic", "panic-on-malformed"
						case cls != "err":
							out.OracleOK, out.Note, out.FindingKey = false, "a malformed packet did not end the stream with an error (class "+cls+")", "malformed-accepted"
						case len(calls) > len(full) || strings.Join(calls, "&") != strings.Join(full[:len(calls)], "&"):
							out.OracleOK, out.Note, out.FindingKey = false, "deliveries before the malformed packet are not a prefix of the committed transactions (partial transaction?)", "partial-delivery"
						default:
							ans2, _ := theDriver.Ask(h.line(pos))
							rest := strings.Join(full[len(calls):], "&")
							if !bset[pos] || stripFirstNow(fields(ans2)["spec"]) != stripFirstNow(rest) {
								out.OracleOK, out.Note, out.FindingKey = false, "after the malformed packet the resume position "+pos+" is not the last accepted commit boundary", "resume-pos-after-malformed"
							}
						}
						return out
					}})
			}
		}
		runCases(col, theDriver, cs)
		// the same through the real Stream(): the malformed packet arrives over TCP, Stream must return an error
		// without delivering a partial transaction, and the next attempt must ask for the last accepted boundary
		m := sharedMaster()
		nl2 := 24
		if tier == "thorough" {
			nl2 = 200
		}
		for i := 0; i < nl2; i++ {
			h := genHistory(r, o, allCfgs[i%len(allCfgs)])
			ans, err := theDriver.Ask(h.line(posStr(h.startFile(), 4)))
			if err != nil {
				continue
			}
			f0 := fields(ans)
			packets := splitPackets(f0["packets"])
			full := strings.Split(f0["spec"], "&")
			if f0["spec"] == "" {
				full = nil
			}
			bset := map[string]bool{}
			for _, b := range strings.Split(f0["boundaries"], ",") {
				bset[b] = true
			}
			idx := r.Intn(len(packets) + 1)
			var bad []byte
			if r.Bool() && len(packets) > 0 {
				src := packets[r.Intn(len(packets))]
				bad = append([]byte(nil), src[:r.Intn(len(src))]...)
			} else {
				bad = r.Bytes(r.Intn(30))
			}
			if len(bad) >= 19 && int(uint32(bad[9])|uint32(bad[10])<<8|uint32(bad[11])<<16|uint32(bad[12])<<24) == len(bad) {
				continue
			}
			s, mp := newStreamer(m, h, 17, h.startFile(), 4)
			opts := defaultOpts()
			opts.script = func(pk [][]byte) []action {
				var sc []action
				for j, p := range pk {
					if j == idx {
						sc = append(sc, action{kind: "send", data: bad})
					}
					sc = append(sc, action{kind: "send", data: p})
				}
				if idx >= len(pk) {
					sc = append(sc, action{kind: "send", data: bad})
				}
				return append(sc, action{kind: "eof"})
			}
			res := runAttempt(s, m, h, mp, opts)
			ok, note, key := true, "", ""
			switch {
			case strings.HasPrefix(res.streamRet, "panic"):
				ok, note, key = false, "a malformed packet made Stream panic: "+clip(res.streamRet, 120), "panic-on-malformed"
			case !strings.HasPrefix(res.streamRet, "err:"):
				ok, note, key = false, "a malformed packet did not end Stream with an error ("+clip(res.streamRet, 60)+")", "malformed-accepted"
			case len(res.calls) > len(full) || strings.Join(res.calls, "&") != strings.Join(full[:len(res.calls)], "&"):
				ok, note, key = false, "deliveries before the malformed packet are not a prefix of the committed transactions", "partial-delivery"
			default:
				res2 := runAttempt(s, m, h, mp, defaultOpts())
				if len(res2.dumps) != 1 {
					ok, note, key = false, "the next attempt sent no dump request", "no-dump"
				} else {
					req := posStr(res2.dumps[0].file, int64(res2.dumps[0].pos))
					ans2, _ := theDriver.Ask(h.line(req))
					rest := strings.Join(full[len(res.calls):], "&")
					if !bset[req] || stripFirstNow(fields(ans2)["spec"]) != stripFirstNow(rest) {
						ok, note, key = false, "after a malformed packet the next dump request ("+req+") is not the last accepted commit boundary", "resume-pos-after-malformed"
					}
				}
			}
			col.AddScenario("stream-inject-malformed", fmt.Sprintf("inject=%d:%s # %s", idx, hx(bad), clip(h.line(posStr(h.startFile(), 4)), 300)), true, ok, true, note, key, clip(res.streamRet, 80), "")
		}
	}
}
