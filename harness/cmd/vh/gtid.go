package main

import (
	"encoding/binary"
	"fmt"
	"sort"
	"strconv"
	"strings"

	"github.com/Breeze0806/gobinlog/replication"
)

// ---- abstract 5.6 sets ---------------------------------------------------------------------------

type iv struct{ s, e int64 }
type set56 map[string][]iv // key: 16 raw bytes

func (s set56) abs() string {
	var keys []string
	for k := range s {
		keys = append(keys, k)
	}
	sort.Strings(keys)
	var parts []string
	for _, k := range keys {
		p := []string{hx([]byte(k))}
		for _, v := range s[k] {
			p = append(p, fmt.Sprintf("%d~%d", v.s, v.e))
		}
		parts = append(parts, strings.Join(p, ":"))
	}
	return strings.Join(parts, ";")
}

func (s set56) impl() replication.Mysql56GTIDSet {
	in := map[replication.SID][][2]int64{}
	for k, l := range s {
		var sid replication.SID
		copy(sid[:], k)
		var x [][2]int64
		for _, v := range l {
			x = append(x, [2]int64{v.s, v.e})
		}
		in[sid] = x
	}
	return replication.VerifSetFromIntervals(in)
}

func showImplSet(s replication.Mysql56GTIDSet) string {
	m := replication.VerifIntervals(s)
	out := set56{}
	for sid, l := range m {
		var x []iv
		for _, p := range l {
			x = append(x, iv{p[0], p[1]})
		}
		out[string(sid[:])] = x
	}
	return out.abs()
}

// independent semantics: a set is a set of (sid, n) pairs. normal form = sorted, merged intervals per sid.
func (s set56) norm() map[string][]iv {
	out := map[string][]iv{}
	for k, l := range s {
		c := append([]iv(nil), l...)
		sort.Slice(c, func(i, j int) bool { return c[i].s < c[j].s })
		var m []iv
		for _, v := range c {
			if v.e < v.s {
				continue
			}
			if len(m) > 0 && v.s-1 <= m[len(m)-1].e { // (not e+1: e may be the largest int64)
				if v.e > m[len(m)-1].e {
					m[len(m)-1].e = v.e
				}
			} else {
				m = append(m, v)
			}
		}
		if len(m) > 0 {
			out[k] = m
		}
	}
	return out
}

func semMember(n map[string][]iv, sid string, x int64) bool {
	for _, v := range n[sid] {
		if v.s <= x && x <= v.e {
			return true
		}
	}
	return false
}

func semSubset(a, b map[string][]iv) bool { // a ⊆ b
	for sid, l := range a {
		for _, v := range l {
			ok := false
			for _, w := range b[sid] {
				if w.s <= v.s && v.e <= w.e {
					ok = true
				}
			}
			if !ok {
				return false
			}
		}
	}
	return true
}

func normStr(n map[string][]iv) string { return set56(n).abs() }

func isCanonical(s set56) bool {
	for _, l := range s {
		if len(l) == 0 {
			return false
		}
		for i, v := range l {
			if v.s < 1 || v.e < v.s {
				return false
			}
			if i > 0 && v.s < l[i-1].e+2 {
				return false
			}
		}
	}
	return true
}

var sidPool = func() []string {
	var p []string
	for i := 0; i < 4; i++ {
		b := make([]byte, 16)
		for j := range b {
			b[j] = byte(i*37 + j*11 + 1)
		}
		if i == 1 {
			b[0] = 0xff
		}
		if i == 2 {
			b[0] = 0
		}
		p = append(p, string(b))
	}
	// servers that share the first half of their UUID and differ in several of the last bytes (hand-assigned /
	// numbered server_uuid values): the canonical order is bytewise over all 16 bytes
	base := []byte(p[0])
	for _, tail := range [][2]byte{{0x00, 0x01}, {0x01, 0x00}, {0x01, 0x01}} {
		b := append([]byte(nil), base...)
		b[14], b[15] = tail[0], tail[1]
		p = append(p, string(b))
	}
	return p
}()

// canonSetFromMask: window of w sequence numbers 1..w, membership by bitmask -> canonical intervals
func ivsFromMask(mask uint, w int, base int64) []iv {
	var l []iv
	for i := 0; i < w; i++ {
		if mask>>uint(i)&1 == 1 {
			n := base + int64(i)
			if len(l) > 0 && l[len(l)-1].e+1 == n {
				l[len(l)-1].e = n
			} else {
				l = append(l, iv{n, n})
			}
		}
	}
	return l
}

func randCanonSet(r *RNG, wide bool) set56 {
	s := set56{}
	n := r.Intn(5)
	for i := 0; i < n; i++ {
		sid := sidPool[r.Intn(len(sidPool))]
		if wide {
			var l []iv
			cur := int64(1 + r.Intn(5))
			k := r.Range(1, 5)
			if r.Chance(1, 5) {
				k = r.Range(6, 40) // a heavily fragmented server (gaps left by skipped / filtered transactions)
			}
			for j := 0; j < k; j++ {
				if r.Chance(1, 6) {
					cur += int64(r.U64() >> uint(r.Range(2, 40)))
				}
				e := cur + int64(r.Intn(6))
				if r.Chance(1, 5) {
					e = cur + int64(r.U64()>>uint(r.Range(20, 50)))
				}
				if e < cur || e > 1<<62 {
					break
				}
				l = append(l, iv{cur, e})
				cur = e + 2 + int64(r.Intn(4))
			}
			// the top of the domain (quantifier: sequence numbers 1..2^63-1): a last interval that ends at, or just
			// below, the largest int64 — its exclusive end does not fit a signed 64-bit field
			if r.Chance(1, 5) {
				top := int64(1<<63 - 1 - uint64(r.Intn(3)))
				lo := top - int64(r.Pick(0, 0, 1, 5, 1<<20))
				if len(l) == 0 || l[len(l)-1].e+1 < lo {
					l = append(l, iv{lo, top})
				}
			}
			if len(l) > 0 {
				s[sid] = l
			}
		} else {
			l := ivsFromMask(uint(r.Intn(256)), 8, 1)
			if len(l) > 0 {
				s[sid] = l
			}
		}
	}
	return s
}

func gtidCase(line, class string, nontrivial bool, run func(resp map[string]string) Outcome) Case {
	return Case{Line: line, Class: class, Nontrivial: nontrivial, Run: run}
}

func b01(b bool) string {
	if b {
		return "1"
	}
	return "0"
}

func mkGtid56(sid string, seq int64) replication.Mysql56GTID {
	var s replication.SID
	copy(s[:], sid)
	return replication.Mysql56GTID{Server: s, Sequence: seq}
}

func genC18(r *RNG, tier string) []Case {
	var cs []Case
	addContainsGtid := func(s set56, sid string, seq int64, class string) {
		line := fmt.Sprintf("g56 op=contains_gtid set=%s sid=%s seq=%d", s.abs(), hx([]byte(sid)), seq)
		cs = append(cs, gtidCase(line, class, len(s) > 0, func(resp map[string]string) Outcome {
			impl := catch(func() string { return b01(s.impl().ContainsGTID(mkGtid56(sid, seq))) })
			want := b01(semMember(s.norm(), sid, seq))
			o := Outcome{Impl: impl, Model: resp["model"], Spec: want, CorrOK: impl == resp["model"], OracleOK: impl == want}
			if !o.OracleOK {
				o.Note = "ContainsGTID disagrees with set membership"
				o.FindingKey = "contains-gtid"
			}
			return o
		}))
	}
	addPair := func(a, b set56, class string) {
		for _, op := range []string{"contains", "equal"} {
			op := op
			line := fmt.Sprintf("g56 op=%s a=%s b=%s", op, a.abs(), b.abs())
			cs = append(cs, gtidCase(line, class+"-"+op, len(a) > 0 && len(b) > 0, func(resp map[string]string) Outcome {
				impl := catch(func() string {
					if op == "contains" {
						return b01(a.impl().Contains(b.impl()))
					}
					return b01(a.impl().Equal(b.impl()))
				})
				var want string
				if op == "contains" {
					want = b01(semSubset(b.norm(), a.norm()))
				} else {
					want = b01(normStr(a.norm()) == normStr(b.norm()))
				}
				o := Outcome{Impl: impl, Model: resp["model"], Spec: want, CorrOK: impl == resp["model"], OracleOK: impl == want}
				if !o.OracleOK {
					o.Note = op + " disagrees with the set-of-pairs semantics"
					o.FindingKey = op
				}
				return o
			}))
		}
	}
	addAdd := func(s set56, sid string, seq int64, class string) {
		line := fmt.Sprintf("g56 op=add set=%s sid=%s seq=%d", s.abs(), hx([]byte(sid)), seq)
		cs = append(cs, gtidCase(line, class, len(s) > 0, func(resp map[string]string) Outcome {
			recv := s.impl()
			before := showImplSet(recv)
			beforeStr := recv.String()
			var res replication.GTIDSet
			impl := catch(func() string {
				res = recv.AddGTID(mkGtid56(sid, seq))
				return showImplSet(res.(replication.Mysql56GTIDSet))
			})
			o := Outcome{Impl: impl, Model: resp["model"], CorrOK: impl == resp["model"], OracleOK: true}
			// union semantics + canonical form + receiver unchanged
			want := set56{}
			for k, l := range s {
				want[k] = append([]iv(nil), l...)
			}
			want[sid] = append(want[sid], iv{seq, seq})
			wn := normStr(want.norm())
			o.Spec = wn
			if impl != wn {
				o.OracleOK = false
				o.Note = "AddGTID result is not the canonical form of the union"
				o.FindingKey = "add-union"
			}
			if showImplSet(recv) != before || recv.String() != beforeStr {
				o.OracleOK = false
				o.Note = "AddGTID altered the set it was called on"
				o.FindingKey = "add-mutates-receiver"
			}
			return o
		}))
	}
	// exhaustive: one SID, window 8: all masks x all sequence numbers 0..10 for membership and add
	for mask := 0; mask < 256; mask++ {
		s := set56{}
		if l := ivsFromMask(uint(mask), 8, 1); len(l) > 0 {
			s[sidPool[0]] = l
		}
		for seq := int64(0); seq <= 10; seq++ {
			addContainsGtid(s, sidPool[0], seq, "exhaustive-window8-contains-gtid")
			if seq >= 1 {
				addAdd(s, sidPool[0], seq, "exhaustive-window8-add")
			}
		}
		addAdd(s, sidPool[1], 3, "add-new-sid")
	}
	// all pairs for Contains / Equal: window 6 exhaustive in quick (64x64), window 8 in thorough
	w := 6
	if tier == "thorough" {
		w = 8
	}
	for ma := 0; ma < 1<<uint(w); ma++ {
		for mb := 0; mb < 1<<uint(w); mb++ {
			a, b := set56{}, set56{}
			if l := ivsFromMask(uint(ma), w, 1); len(l) > 0 {
				a[sidPool[0]] = l
			}
			if l := ivsFromMask(uint(mb), w, 1); len(l) > 0 {
				b[sidPool[0]] = l
			}
			addPair(a, b, fmt.Sprintf("exhaustive-window%d", w))
		}
	}
	// the EMPTY set in every representation a caller can hold (the zero value - a nil map -, a literal, the parser's,
	// the SID-block decoder's, what is left when nothing was ever added): all denote the same set
	{
		type rep struct {
			name string
			mk   func() replication.Mysql56GTIDSet
		}
		reps := []rep{
			{"zero-value", func() replication.Mysql56GTIDSet { var z replication.Mysql56GTIDSet; return z }},
			{"literal", func() replication.Mysql56GTIDSet { return replication.Mysql56GTIDSet{} }},
			{"parsed", func() replication.Mysql56GTIDSet {
				x, _, _ := replication.VerifParseGTIDSet("MySQL56", "")
				y, _ := x.(replication.Mysql56GTIDSet)
				return y
			}},
			{"from-sid-block", func() replication.Mysql56GTIDSet {
				x, _ := replication.NewMysql56GTIDSetFromSIDBlock(make([]byte, 8))
				return x
			}},
			{"built", func() replication.Mysql56GTIDSet { return set56{}.impl() }},
		}
		for _, a := range reps {
			for _, b := range reps {
				a, b := a, b
				for _, op := range []string{"contains", "equal"} {
					op := op
					cs = append(cs, gtidCase(fmt.Sprintf("g56 op=%s a= b=", op), "empty-"+a.name+"-vs-"+b.name+"-"+op, true, func(resp map[string]string) Outcome {
						impl := catch(func() string {
							if op == "contains" {
								return b01(a.mk().Contains(b.mk()))
							}
							return b01(a.mk().Equal(b.mk()))
						})
						o := Outcome{Impl: impl, Model: resp["model"], Spec: "1", CorrOK: impl == resp["model"], OracleOK: impl == "1"}
						if !o.OracleOK {
							o.Note = fmt.Sprintf("two empty sets (%s, %s) must be equal and contain each other: %s gave %s", a.name, b.name, op, impl)
							o.FindingKey = "empty-set-" + op
						}
						return o
					}))
				}
			}
		}
	}
	// a VERY large executed set, saved as text on one line and restored (a server that skipped every other transaction for
	// years): thousands of intervals for one server, the text far beyond 64 KiB
	{
		big := set56{}
		var l []iv
		for k := int64(0); k < 9000; k++ {
			l = append(l, iv{1000000 + 10*k + 1, 1000000 + 10*k + 1 + k%7})
		}
		big[sidPool[0]] = l
		big[sidPool[1]] = []iv{{1, 5}}
		txt := canonSetText(big)
		cs = append(cs, gtidCase("g56 op=parse_set s="+hx([]byte(txt)), "huge-set-text", true, func(resp map[string]string) Outcome {
			impl := catch(func() string {
				x, _, err := replication.VerifParseGTIDSet("MySQL56", txt)
				if err != nil {
					return "err"
				}
				p := x.(replication.Mysql56GTIDSet)
				if p.String() != txt || !p.Equal(big.impl()) || !p.ContainsGTID(mkGtid56(sidPool[0], 1089991)) {
					return fmt.Sprintf("ok-but-differs: %d bytes printed back, want %d", len(p.String()), len(txt))
				}
				return "ok"
			})
			o := Outcome{Impl: impl, Model: "ok", CorrOK: true, OracleOK: impl == "ok"}
			if !o.OracleOK {
				o.Note, o.FindingKey = "a set text of "+strconv.Itoa(len(txt))+" bytes on one line does not parse back to the set it denotes: "+impl, "huge-set-text"
			}
			return o
		}))
	}
	// multi-SID and wide random ones
	n := 4000
	if tier == "thorough" {
		n = 60000
	}
	for i := 0; i < n; i++ {
		a, b := randCanonSet(r, i%2 == 0), randCanonSet(r, i%2 == 0)
		if r.Chance(1, 3) { // related sets: b derived from a
			b = set56{}
			for k, l := range a {
				if r.Chance(3, 4) {
					b[k] = append([]iv(nil), l...)
				}
			}
		}
		addPair(a, b, "random")
		if len(a) > 0 {
			// "sets obtained from canonical text": the text of a is parsed by the real parser; the result must be the
			// set the text denotes, print back to the same text, and answer membership like the directly built set
			as, txt := a, canonSetText(a)
			serverText := txt
			if i%3 == 0 {
				// exactly as the server prints it (SELECT @@gtid_executed, SHOW MASTER STATUS): a newline after each comma
				serverText = strings.ReplaceAll(txt, ",", ",\n")
			}
			cs = append(cs, gtidCase("g56 op=parse_set s="+hx([]byte(serverText)), "from-canonical-text", true, func(resp map[string]string) Outcome {
				impl := catch(func() string {
					x, _, err := replication.VerifParseGTIDSet("MySQL56", serverText)
					if err != nil {
						return "err"
					}
					p := x.(replication.Mysql56GTIDSet)
					if p.String() != txt || !p.Equal(as.impl()) || !as.impl().Equal(p) {
						return "ok-but-differs:" + showImplSet(p)
					}
					return "ok:" + showImplSet(p)
				})
				o := Outcome{Impl: impl, Model: resp["model"], CorrOK: impl == resp["model"], OracleOK: impl == "ok:"+as.abs()}
				if !o.OracleOK {
					o.Note, o.FindingKey = "parsing MySQL's canonical text does not give the set it denotes", "from-canonical-text"
				}
				return o
			}))
		}
		if len(a) > 0 && i%2 == 1 {
			// ... and sets obtained from the binary form the server sends (PREVIOUS_GTIDS / the SID block): decoding the
			// block of a must give a set equal to a, with the same members (single-number intervals included)
			as := a
			blk := as.impl().SIDBlock()
			cs = append(cs, gtidCase("g56 op=fromblock b="+hx(blk), "from-sid-block", true, func(resp map[string]string) Outcome {
				impl := catch(func() string {
					x, err := replication.NewMysql56GTIDSetFromSIDBlock(blk)
					if err != nil {
						return "err"
					}
					if !x.Equal(as.impl()) || !as.impl().Equal(x) || !x.Contains(as.impl()) || x.String() != as.impl().String() {
						return "ok-but-differs:" + showImplSet(x)
					}
					return "ok:" + showImplSet(x)
				})
				o := Outcome{Impl: impl, Model: resp["model"], CorrOK: impl == resp["model"], OracleOK: impl == "ok:"+as.abs()}
				if !o.OracleOK {
					o.Note, o.FindingKey = "decoding the SID block of a set does not give that set", "from-sid-block"
				}
				return o
			}))
		}
		sid := sidPool[r.Intn(len(sidPool))]
		seq := int64(r.Range(1, 12))
		if i%2 == 0 && len(a[sid]) > 0 {
			v := a[sid][r.Intn(len(a[sid]))]
			seq = []int64{v.s - 1, v.s, v.e, v.e + 1, v.e + 2}[r.Intn(5)]
			if seq < 1 {
				seq = 1
			}
		}
		addContainsGtid(a, sid, seq, "random-contains-gtid")
		addAdd(a, sid, seq, "random-add")
	}
	// sequences of up to 12 AddGTID operations from a small alphabet, starting from a canonical parse
	nseq := 400
	if tier == "thorough" {
		nseq = 20000
	}
	for i := 0; i < nseq; i++ {
		start := randCanonSet(r, false)
		ops := r.Range(1, 12)
		type op struct {
			sid string
			seq int64
		}
		var seqOps []op
		for j := 0; j < ops; j++ {
			seqOps = append(seqOps, op{sidPool[r.Intn(2)], int64(r.Range(1, 10))})
		}
		// one driver line per step: the harness folds; the model is asked step by step inside Run
		cs = append(cs, Case{Line: "g56 op=string set=" + start.abs(), Class: "add-sequences", Nontrivial: true, Run: func(resp map[string]string) Outcome {
			cur := start.impl()
			var curG replication.GTIDSet = cur
			// every set produced along the way, with the text it had when it was produced: none may change later
			type made struct {
				s   replication.GTIDSet
				txt string
			}
			var history []made
			sem := set56{}
			for k, l := range start {
				sem[k] = append([]iv(nil), l...)
			}
			out := Outcome{OracleOK: true, CorrOK: true}
			for _, o := range seqOps {
				prev := showImplSet(curG.(replication.Mysql56GTIDSet))
				next := curG.AddGTID(mkGtid56(o.sid, o.seq))
				if showImplSet(curG.(replication.Mysql56GTIDSet)) != prev {
					out.OracleOK = false
					out.Note = "AddGTID altered its receiver in a sequence"
					out.FindingKey = "add-mutates-receiver"
				}
				ans, _ := theDriver.Ask(fmt.Sprintf("g56 op=add set=%s sid=%s seq=%d", prev, hx([]byte(o.sid)), o.seq))
				got := showImplSet(next.(replication.Mysql56GTIDSet))
				if fields(ans)["model"] != got {
					out.CorrOK = false
					out.Impl, out.Model = got, fields(ans)["model"]
				}
				sem[o.sid] = append(sem[o.sid], iv{o.seq, o.seq})
				if got != normStr(sem.norm()) {
					out.OracleOK = false
					out.Note = "after a sequence of AddGTID the set is not the canonical union"
					out.FindingKey = "add-sequence"
					out.Impl, out.Spec = got, normStr(sem.norm())
				}
				history = append(history, made{next, next.String()})
				// branch: add two different GTIDs beyond the end to the same parent; siblings must not disturb
				// each other nor any set made earlier (an append into a parent's spare capacity would)
				b1 := next.AddGTID(mkGtid56(o.sid, 1000+int64(len(history))*10))
				t1 := b1.String()
				b2 := next.AddGTID(mkGtid56(o.sid, 5000+int64(len(history))*10))
				_ = b2
				if b1.String() != t1 {
					out.OracleOK = false
					out.Note = "a set returned by AddGTID changed when another GTID was added to the same parent"
					out.FindingKey = "add-sibling-aliasing"
				}
				for _, h := range history {
					if h.s.String() != h.txt {
						out.OracleOK = false
						out.Note = "a set derived earlier changed after later AddGTID calls"
						out.FindingKey = "add-alters-earlier-set"
					}
				}
				curG = next
			}
			return out
		}})
	}
	return cs
}

// ---- C19 ---------------------------------------------------------------------------------------------

func canonSetText(s set56) string { // MySQL's canonical text, written independently
	var keys []string
	for k := range s {
		keys = append(keys, k)
	}
	sort.Strings(keys)
	var parts []string
	for _, k := range keys {
		b := []byte(k)
		t := fmt.Sprintf("%x-%x-%x-%x-%x", b[0:4], b[4:6], b[6:8], b[8:10], b[10:16])
		for _, v := range s[k] {
			if v.s == v.e {
				t += fmt.Sprintf(":%d", v.s)
			} else {
				t += fmt.Sprintf(":%d-%d", v.s, v.e)
			}
		}
		parts = append(parts, t)
	}
	return strings.Join(parts, ",")
}

type mg struct {
	d, sv uint32
	q     uint64
}

func mariaAbs(l []mg) string {
	var p []string
	for _, g := range l {
		p = append(p, fmt.Sprintf("%d-%d-%d", g.d, g.sv, g.q))
	}
	return strings.Join(p, ",")
}

func mariaImpl(l []mg) replication.MariadbGTIDSet {
	s := make(replication.MariadbGTIDSet, 0, len(l)+r3(len(l)))
	for _, g := range l {
		s = append(s, replication.MariadbGTID{Domain: g.d, Server: g.sv, Sequence: g.q})
	}
	return s
}

// r3 gives some sets spare capacity (an append into shared spare capacity is how a receiver gets altered)
func r3(n int) int { return n % 3 }

func showMariaImpl(s replication.MariadbGTIDSet) string {
	var p []string
	for _, g := range s {
		p = append(p, fmt.Sprintf("%d-%d-%d", g.Domain, g.Server, g.Sequence))
	}
	return strings.Join(p, ",")
}

func boundaryU32(r *RNG) uint32 {
	return []uint32{0, 1, 0xffffffff, 0x7fffffff, 0x80000000, uint32(r.U64()), uint32(r.Intn(20))}[r.Intn(7)]
}
func boundaryU64(r *RNG) uint64 {
	return []uint64{1, 2, 1<<63 - 1, 1 << 62, r.U64() >> 1, uint64(r.Intn(50)) + 1, 1<<32 - 1, 1 << 32}[r.Intn(8)]
}

func genC19(r *RNG, tier string) []Case {
	var cs []Case
	n := 1500
	if tier == "thorough" {
		n = 40000
	}
	simple := func(line, class string, impl func() string, oracle func(impl string) (bool, string)) {
		cs = append(cs, gtidCase(line, class, true, func(resp map[string]string) Outcome {
			im := catch(impl)
			o := Outcome{Impl: im, Model: resp["model"], CorrOK: im == resp["model"], OracleOK: true}
			if oracle != nil {
				ok, note := oracle(im)
				if !ok {
					o.OracleOK = false
					o.Note = note
					o.FindingKey = class
				}
			}
			return o
		}))
	}
	for i := 0; i < n; i++ {
		// SID text round trip
		sidb := r.Bytes(16)
		if i < 3 {
			sidb = [][]byte{make([]byte, 16), []byte("\xff\xff\xff\xff\xff\xff\xff\xff\xff\xff\xff\xff\xff\xff\xff\xff"), []byte("\x00\x01\x02\x03\x04\x05\x06\x07\x08\x09\x0a\x0b\x0c\x0d\x0e\x0f")}[i]
		}
		var sid replication.SID
		copy(sid[:], sidb)
		simple("g56 op=sid_string sid="+hx(sidb), "sid-string", func() string { return hx([]byte(sid.String())) }, func(im string) (bool, string) {
			back, err := replication.ParseSID(string(unhx(im)))
			return err == nil && back == sid, "ParseSID(SID.String()) is not the identity"
		})
		simple("g56 op=parse_sid s="+hx([]byte(sid.String())), "parse-sid", func() string {
			s, err := replication.ParseSID(sid.String())
			if err != nil {
				return "err"
			}
			return "ok:" + hx(s[:])
		}, nil)
		// 5.6 GTID text + tagged
		seq := int64(boundaryU64(r))
		g := replication.Mysql56GTID{Server: sid, Sequence: seq}
		simple(fmt.Sprintf("g56 op=gtid_string sid=%s seq=%d", hx(sidb), seq), "gtid56-string", func() string { return hx([]byte(g.String())) }, func(im string) (bool, string) {
			back, err := replication.ParseGTID("MySQL56", string(unhx(im)))
			if err != nil || back != replication.GTID(g) {
				return false, "parsing a printed 5.6 GTID does not return an equal value"
			}
			// the accessors and the singleton set of a GTID
			if g.Flavor() != "MySQL56" || g.SourceServer() != interface{}(sid) || g.SequenceNumber() != interface{}(seq) || g.SequenceDomain() != nil {
				return false, "an accessor of the 5.6 GTID does not return the field it names"
			}
			if seq >= 1 && seq < 1<<63-1 {
				one := g.GTIDSet()
				if !one.ContainsGTID(g) || one.ContainsGTID(replication.Mysql56GTID{Server: sid, Sequence: seq + 1}) ||
					(seq > 1 && one.ContainsGTID(replication.Mysql56GTID{Server: sid, Sequence: seq - 1})) ||
					one.String() != fmt.Sprintf("%s:%d", sid.String(), seq) {
					return false, "GTIDSet() of a 5.6 GTID is not the singleton set of that GTID"
				}
			}
			return true, ""
		})
		simple("g56 op=parse_gtid s="+hx([]byte(g.String())), "gtid56-parse", func() string {
			x, err := replication.ParseGTID("MySQL56", g.String())
			if err != nil {
				return "err"
			}
			y := x.(replication.Mysql56GTID)
			return fmt.Sprintf("ok:%s,%d", hx(y.Server[:]), y.Sequence)
		}, nil)
		simple(fmt.Sprintf("tag op=encode56 sid=%s seq=%d", hx(sidb), seq), "tagged-56", func() string { return hx([]byte(replication.EncodeGTID(g))) }, func(im string) (bool, string) {
			back, err := replication.DecodeGTID(string(unhx(im)))
			return err == nil && back == replication.GTID(g), "DecodeGTID(EncodeGTID(g)) is not g (MySQL 5.6)"
		})
		simple("tag op=decode s="+hx([]byte(replication.EncodeGTID(g))), "tagged-decode", func() string {
			x, err := replication.DecodeGTID(replication.EncodeGTID(g))
			if err != nil {
				return "err"
			}
			y := x.(replication.Mysql56GTID)
			return fmt.Sprintf("ok:MySQL56,%s,%d", hx(y.Server[:]), y.Sequence)
		}, nil)
		// MariaDB GTID
		m := mg{boundaryU32(r), boundaryU32(r), boundaryU64(r)}
		if r.Chance(1, 6) {
			m.q = r.U64()
		}
		gm := replication.MariadbGTID{Domain: m.d, Server: m.sv, Sequence: m.q}
		simple(fmt.Sprintf("mar op=gtid_string d=%d sv=%d q=%d", m.d, m.sv, m.q), "maria-string", func() string { return hx([]byte(gm.String())) }, func(im string) (bool, string) {
			back, err := replication.ParseGTID("MariaDB", string(unhx(im)))
			if err != nil || back != replication.GTID(gm) {
				return false, "parsing a printed MariaDB GTID does not return an equal value"
			}
			if gm.Flavor() != "MariaDB" || gm.SequenceDomain() != interface{}(m.d) || gm.SourceServer() != interface{}(m.sv) || gm.SequenceNumber() != interface{}(m.q) {
				return false, "an accessor of the MariaDB GTID does not return the field it names"
			}
			one := gm.GTIDSet()
			if one.String() != gm.String() || !one.ContainsGTID(gm) || one.ContainsGTID(replication.MariadbGTID{Domain: m.d, Server: m.sv, Sequence: m.q + 1}) && m.q+1 > m.q {
				return false, "GTIDSet() of a MariaDB GTID is not the one-member set of that GTID"
			}
			return true, ""
		})
		simple("mar op=parse_gtid s="+hx([]byte(gm.String())), "maria-parse", func() string {
			x, err := replication.ParseGTID("MariaDB", gm.String())
			if err != nil {
				return "err"
			}
			return "ok:" + x.String()
		}, nil)
		simple(fmt.Sprintf("tag op=encodemaria d=%d sv=%d q=%d", m.d, m.sv, m.q), "tagged-maria", func() string { return hx([]byte(replication.EncodeGTID(gm))) }, func(im string) (bool, string) {
			back, err := replication.DecodeGTID(string(unhx(im)))
			return err == nil && back == replication.GTID(gm), "DecodeGTID(EncodeGTID(g)) is not g (MariaDB)"
		})
		// 5.6 sets: text and SID block round trips (0..8 members)
		s := randCanonSet(r, i%3 != 0)
		txt := canonSetText(s)
		simple("g56 op=parse_set s="+hx([]byte(txt)), "set56-parse", func() string {
			x, _, err := replication.VerifParseGTIDSet("MySQL56", txt)
			if err != nil {
				return "err"
			}
			return "ok:" + showImplSet(x.(replication.Mysql56GTIDSet))
		}, func(im string) (bool, string) {
			return im == "ok:"+s.abs(), "parsing MySQL's canonical text does not give the set it denotes"
		})
		simple("g56 op=string set="+s.abs(), "set56-string", func() string { return hx([]byte(s.impl().String())) }, func(im string) (bool, string) {
			if string(unhx(im)) != txt {
				return false, "String() is not MySQL's canonical text"
			}
			x, _, err := replication.VerifParseGTIDSet("MySQL56", string(unhx(im)))
			return err == nil && x.Equal(s.impl()) && s.impl().Equal(x), "parse(String(s)) is not equal to s"
		})
		other56 := randCanonSet(r, true)
		simple("g56 op=sidblock set="+s.abs(), "sidblock", func() string {
			b := s.impl().SIDBlock()
			first := hx(b)
			// the caller keeps the block while other sets are printed / encoded
			_ = other56.impl().SIDBlock()
			_ = other56.impl().String()
			_ = s.impl().String()
			if hx(b) != first {
				return "block-overwritten-by-a-later-call:" + first + "->" + hx(b)
			}
			return first
		}, func(im string) (bool, string) {
			if strings.HasPrefix(im, "block-overwritten") {
				return false, "the SID block returned earlier changed when another set was encoded / printed"
			}
			back, err := replication.NewMysql56GTIDSetFromSIDBlock(unhx(im))
			if err != nil || !back.Equal(s.impl()) {
				return false, "the SID-block form does not decode back to an equal set"
			}
			// independent check of the layout
			b := unhx(im)
			if binary.LittleEndian.Uint64(b) != uint64(len(s)) {
				return false, "SID block count"
			}
			return true, ""
		})
		blk := s.impl().SIDBlock()
		if r.Chance(1, 4) && len(blk) > 0 { // malformed stream: truncated blocks
			blk = blk[:r.Intn(len(blk))]
		}
		simple("g56 op=fromblock b="+hx(blk), "fromblock", func() string {
			x, err := replication.NewMysql56GTIDSetFromSIDBlock(blk)
			if err != nil {
				return "err"
			}
			return "ok:" + showImplSet(x)
		}, nil)
		// MariaDB sets 1..8 members: one per domain
		var ml []mg
		k := r.Range(1, 8)
		used := map[uint32]bool{}
		for j := 0; j < k; j++ {
			d := boundaryU32(r)
			for used[d] {
				d = uint32(r.U64())
			}
			used[d] = true
			ml = append(ml, mg{d, boundaryU32(r), boundaryU64(r)})
		}
		simple("mar op=string set="+mariaAbs(ml), "maria-set-string", func() string { return hx([]byte(mariaImpl(ml).String())) }, func(im string) (bool, string) {
			x, _, err := replication.VerifParseGTIDSet("MariaDB", string(unhx(im)))
			return err == nil && x.Equal(mariaImpl(ml)), "parse(String(s)) is not equal to s (MariaDB)"
		})
		simple("mar op=parse_set s="+hx([]byte(mariaImpl(ml).String())), "maria-set-parse", func() string {
			x, _, err := replication.VerifParseGTIDSet("MariaDB", mariaImpl(ml).String())
			if err != nil {
				return "err"
			}
			return "ok:" + showMariaImpl(x.(replication.MariadbGTIDSet))
		}, nil)
		// containment and AddGTID
		probe := ml[r.Intn(len(ml))]
		probe.q = []uint64{probe.q, probe.q - 1, probe.q + 1, 1}[r.Intn(4)]
		if r.Chance(1, 4) {
			probe.d = uint32(r.U64())
		}
		if r.Chance(1, 3) { // another server of the same domain: containment looks at sequence numbers only
			probe.sv = []uint32{probe.sv + 1, 0, 1<<32 - 1, uint32(r.U64())}[r.Intn(4)]
		}
		simple(fmt.Sprintf("mar op=contains_gtid set=%s d=%d sv=%d q=%d", mariaAbs(ml), probe.d, probe.sv, probe.q), "maria-contains-gtid", func() string {
			return b01(mariaImpl(ml).ContainsGTID(replication.MariadbGTID{Domain: probe.d, Server: probe.sv, Sequence: probe.q}))
		}, func(im string) (bool, string) {
			want := false
			for _, g := range ml {
				if g.d == probe.d {
					want = g.q >= probe.q
				}
			}
			return im == b01(want), "containment must compare sequence numbers within the domain"
		})
		// set-against-set containment: the other set lists (some of) the same domains in ANOTHER order, with sequence
		// numbers at / below / above the receiver's, possibly with a domain the receiver lacks
		{
			var other []mg
			for _, j := range r.Perm(len(ml)) {
				if r.Chance(1, 4) {
					continue
				}
				g := ml[j]
				switch r.Intn(6) {
				case 0:
					g.q++
				case 1, 2:
					if g.q > 0 {
						g.q -= uint64(r.Range(1, 3))
						if g.q > ml[j].q { // wrapped
							g.q = 0
						}
					}
				}
				if r.Chance(1, 3) {
					g.sv = uint32(r.U64())
				}
				other = append(other, g)
			}
			if r.Chance(1, 6) {
				other = append(other, mg{uint32(r.U64()) | 1<<31, 1, 1})
			}
			if len(other) > 0 {
				a, b := append([]mg(nil), ml...), append([]mg(nil), other...)
				simple("mar op=contains a="+mariaAbs(a)+" b="+mariaAbs(b), "maria-contains-set", func() string {
					return b01(mariaImpl(a).Contains(mariaImpl(b)))
				}, func(im string) (bool, string) {
					want := true
					for _, g := range b {
						found := false
						for _, h := range a {
							if h.d == g.d && h.q >= g.q {
								found = true
							}
						}
						want = want && found
					}
					return im == b01(want), "a set contains another iff, domain by domain, its sequence number is at least the other's - whatever the order the domains are listed in"
				})
				eq := append([]mg(nil), ml...)
				if r.Bool() {
					k := r.Intn(len(eq))
					eq[k].q ^= 1
				}
				simple("mar op=equal a="+mariaAbs(a)+" b="+mariaAbs(eq), "maria-equal-set", func() string {
					return b01(mariaImpl(a).Equal(mariaImpl(eq)))
				}, func(im string) (bool, string) {
					return im == b01(mariaAbs(a) == mariaAbs(eq)), "sets listing the same members in the same order are equal, sets differing in a sequence number are not"
				})
			}
		}
		recvL := append([]mg(nil), ml...)
		simple(fmt.Sprintf("mar op=add set=%s d=%d sv=%d q=%d", mariaAbs(ml), probe.d, probe.sv, probe.q), "maria-add", func() string {
			recv := mariaImpl(recvL)
			res := recv.AddGTID(replication.MariadbGTID{Domain: probe.d, Server: probe.sv, Sequence: probe.q})
			out := showMariaImpl(res.(replication.MariadbGTIDSet))
			// a second add on the same receiver must not disturb the first result (shared spare capacity)
			res2 := recv.AddGTID(replication.MariadbGTID{Domain: probe.d ^ 0x5a5a5a5a, Server: 9, Sequence: 9})
			_ = res2
			if showMariaImpl(recv) != mariaAbs(recvL) {
				return "receiver-altered:" + showMariaImpl(recv)
			}
			if showMariaImpl(res.(replication.MariadbGTIDSet)) != out {
				return "earlier-result-altered:" + out + "->" + showMariaImpl(res.(replication.MariadbGTIDSet))
			}
			return out
		}, func(im string) (bool, string) {
			if strings.HasPrefix(im, "receiver-altered") || strings.HasPrefix(im, "earlier-result-altered") {
				return false, "adding to a MariaDB set altered the original: " + im
			}
			// at most one position per domain
			seen := map[string]bool{}
			for _, t := range strings.Split(im, ",") {
				d := strings.Split(t, "-")[0]
				if seen[d] {
					return false, "two positions for one domain after AddGTID"
				}
				seen[d] = true
			}
			return true, ""
		})
	}
	// GTID / previous-GTIDs event bodies built by the Spec writer
	for i := 0; i < n/3; i++ {
		sidb := r.Bytes(16)
		gno := boundaryU64(r)
		hl := 19
		body := append([]byte{byte(r.Intn(2))}, sidb...)
		body = append(body, leBytes(gno, 8)...)
		body = append(body, r.Bytes(r.Pick(0, 0, 16))...)
		// the format description of the master: 5.6 announces a 25-byte GTID post-header, 5.7 / 8.0 one of 42 bytes
		// (logical timestamps after the GNO) - the identifier sits in the same place
		var hsTab []byte
		switch i % 3 {
		case 1:
			hsTab = make([]byte, 40)
			hsTab[32] = 42
			body = append(append([]byte{byte(r.Intn(2))}, sidb...), leBytes(gno, 8)...)
			body = append(body, 2)
			body = append(body, r.Bytes(16)...)
		case 2:
			hsTab = make([]byte, 35)
			hsTab[32] = 25
		}
		ev := append(make([]byte, hl), body...)
		ev[4] = 33
		line := fmt.Sprintf("gtid56ev f=%d:0:%s b=%s", hl, hx(hsTab), hx(ev))
		simple(line, "gtid-event", func() string {
			e := replication.NewMysql56BinlogEvent(exact(ev))
			g, _, err := e.GTID(replication.BinlogFormat{HeaderLength: byte(hl), HeaderSizes: hsTab})
			if err != nil {
				return "err"
			}
			y := g.(replication.Mysql56GTID)
			return fmt.Sprintf("ok:%s,%d", hx(y.Server[:]), y.Sequence)
		}, func(im string) (bool, string) {
			return im == fmt.Sprintf("ok:%s,%d", hx(sidb), int64(gno)), "GTID event does not decode to the identifier the master wrote"
		})
		// MariaDB GTID event
		seq, dom, fl := r.U64(), uint32(r.U64()), byte(r.Pick(0, 1, 2, 3, 0x08, 0x0c, 0x20, 0x40, 0x4c, 0x80, 0x81, 0x89, 0xff)) // flags2 incl. the XA bits of 10.5+ and bits no server defines
		mb := append(leBytes(seq, 8), leBytes(uint64(dom), 4)...)
		mb = append(mb, fl)
		mb = append(mb, r.Bytes(r.Pick(0, 6))...)
		mev := append(make([]byte, hl), mb...)
		mev[4] = 162
		srv := uint32(r.U64())
		binary.LittleEndian.PutUint32(mev[5:], srv)
		simple(fmt.Sprintf("gtidmariaev f=%d:0: b=%s", hl, hx(mev)), "maria-gtid-event", func() string {
			e := replication.NewMariadbBinlogEvent(exact(mev))
			g, begin, err := e.GTID(replication.BinlogFormat{HeaderLength: byte(hl)})
			if err != nil {
				return "err"
			}
			y := g.(replication.MariadbGTID)
			return fmt.Sprintf("ok:%d,%d,%d,%s", y.Domain, y.Server, y.Sequence, b01(begin))
		}, func(im string) (bool, string) {
			return im == fmt.Sprintf("ok:%d,%d,%d,%s", dom, srv, seq, b01(fl&1 == 0)), "MariaDB GTID event does not decode to what the master wrote"
		})
	}
	// previous-GTIDs events (and GTID events) as they travel: with the checksum a CRC32 master appends, removed by
	// the library's own StripChecksum before the body decoder runs
	for i := 0; i < n/3; i++ {
		s := randCanonSet(r, i%2 == 0)
		body := s.impl().SIDBlock()
		crcOn := i%2 == 1
		mk := func(typ byte, b []byte) []byte {
			ev := append(make([]byte, 19), b...)
			if crcOn {
				ev = append(ev, r.Bytes(4)...)
			}
			ev[4] = typ
			l := len(ev)
			ev[9], ev[10], ev[11], ev[12] = byte(l), byte(l>>8), byte(l>>16), byte(l>>24)
			return ev
		}
		alg := byte(0)
		if crcOn {
			alg = 1
		}
		f := replication.BinlogFormat{FormatVersion: 4, HeaderLength: 19, ChecksumAlgorithm: alg}
		pev := mk(35, body)
		simple("g56 op=fromblock b="+hx(body), fmt.Sprintf("previous-gtids-event-crc%d", b2i(crcOn)), func() string {
			var e replication.BinlogEvent = replication.NewMysql56BinlogEvent(exact(pev))
			if !e.IsValid() || !e.IsPreviousGTIDs() {
				return "not-recognised"
			}
			e, _, err := e.StripChecksum(f)
			if err != nil {
				return "err"
			}
			pos, err := e.PreviousGTIDs(f)
			if err != nil {
				return "err"
			}
			return "ok:" + showImplSet(pos.(replication.Mysql56GTIDSet))
		}, func(im string) (bool, string) {
			return im == "ok:"+s.abs(), "previous-GTIDs event does not decode to the set the master wrote"
		})
		sidb, gno := r.Bytes(16), boundaryU64(r)
		gb := append(append([]byte{byte(r.Intn(2))}, sidb...), leBytes(gno, 8)...)
		gev := mk(33, gb)
		simple(fmt.Sprintf("gtid56ev f=19:0: b=%s", hx(append(make([]byte, 19), gb...))), fmt.Sprintf("gtid-event-stripped-crc%d", b2i(crcOn)), func() string {
			var e replication.BinlogEvent = replication.NewMysql56BinlogEvent(exact(gev))
			e, _, err := e.StripChecksum(f)
			if err != nil {
				return "err"
			}
			g, _, err := e.GTID(f)
			if err != nil {
				return "err"
			}
			y := g.(replication.Mysql56GTID)
			return fmt.Sprintf("ok:%s,%d", hx(y.Server[:]), y.Sequence)
		}, func(im string) (bool, string) {
			return im == fmt.Sprintf("ok:%s,%d", hx(sidb), int64(gno)), "GTID event (checksum stripped) does not decode to the identifier the master wrote"
		})
	}
	// malformed text stream (correspondence only)
	bad := []string{"", ":", "x:1", "00000000-0000-0000-0000-000000000000", "00000000-0000-0000-0000-000000000000:", "00000000-0000-0000-0000-000000000000:0",
		"00000000-0000-0000-0000-000000000000:1-", "00000000-0000-0000-0000-000000000000:5-2", "00000000-0000-0000-0000-000000000000:1-2-3", "00000000-0000-0000-0000-00000000000g:1",
		"00000000+0000-0000-0000-000000000000:1", " 00000000-0000-0000-0000-000000000000:1 , ", "00000000-0000-0000-0000-000000000000:9223372036854775808",
		"00000000-0000-0000-0000-000000000000:+7", "00000000-0000-0000-0000-000000000000:3:1", "ABCDEFAB-0000-0000-0000-000000000000:1-3:7-9,00000000-0000-0000-0000-000000000001:5"}
	for _, t := range bad {
		t := t
		simple("g56 op=parse_set s="+hx([]byte(t)), "set56-parse-malformed", func() string {
			x, _, err := replication.VerifParseGTIDSet("MySQL56", t)
			if err != nil {
				return "err"
			}
			return "ok:" + showImplSet(x.(replication.Mysql56GTIDSet))
		}, nil)
		simple("g56 op=parse_gtid s="+hx([]byte(t)), "gtid56-parse-malformed", func() string {
			x, err := replication.ParseGTID("MySQL56", t)
			if err != nil {
				return "err"
			}
			y := x.(replication.Mysql56GTID)
			return fmt.Sprintf("ok:%s,%d", hx(y.Server[:]), y.Sequence)
		}, nil)
	}
	for _, t := range []string{"", "1-2", "1-2-3-4", "a-1-1", "1-1-", "4294967296-1-1", "1-4294967296-1", "1-1-18446744073709551616", "+1-1-1", "1-1-1,", "1-1-1,2-2-2", "01-002-0003"} {
		t := t
		simple("mar op=parse_set s="+hx([]byte(t)), "maria-parse-malformed", func() string {
			x, _, err := replication.VerifParseGTIDSet("MariaDB", t)
			if err != nil {
				return "err"
			}
			return "ok:" + showMariaImpl(x.(replication.MariadbGTIDSet))
		}, nil)
	}
	for _, t := range []string{"x", "MySQL56", "MySQL56/", "Nope/1-1-1", "MariaDB/1-1-1/2", "/1-1-1"} {
		t := t
		simple("tag op=decode s="+hx([]byte(t)), "tagged-malformed", func() string {
			x, err := replication.DecodeGTID(t)
			if err != nil || x == nil {
				return "err"
			}
			return "ok:" + x.Flavor() + "," + x.String()
		}, nil)
	}
	return cs
}

func init() {
	replayG := func(line string) []Case {
		return []Case{{Line: line, Class: "replay", Nontrivial: true, Run: func(resp map[string]string) Outcome {
			return Outcome{Impl: "(replay of GTID cases prints the model's answer only)", Model: resp["model"], CorrOK: true, OracleOK: true}
		}}}
	}
	_ = strconv.Itoa
	register(&Property{ID: "C18", Gen: genC18, Replay: replayG,
		Rule: "5.6 GTID sets: one UUID x all 256 interval sets in a window of 8 x sequence numbers 0..10 for ContainsGTID / AddGTID (exhaustive); all pairs of window-6 (quick) / window-8 (thorough) sets for Contains / Equal; random sets over up to 4 UUIDs, narrow and wide; sequences of up to 12 AddGTID from a canonical start; oracle = independent set-of-pairs semantics (sort+merge normal form) computed by the harness, receiver checked before/after. Non-trivial: non-empty sets"})
	register(&Property{ID: "C19", Gen: genC19, Replay: replayG,
		Rule: "random and boundary SIDs, sequence numbers {1,2,2^63-1,…}, domain/server ids {0,1,2^31-1,2^31,2^32-1,…}; text, flavour-tagged, SID-block and event encodings round-tripped through the real parsers; MariaDB sets of 1..8 members (one per domain), containment and AddGTID with receiver and earlier results checked afterwards; malformed texts for correspondence. Non-trivial: every case"})
}
