package main

import (
	"encoding/json"
	"fmt"
	"os"
	"os/exec"
	"strings"
	"sync"
	"time"
	"unicode/utf8"

	gobinlog "github.com/Breeze0806/gobinlog"
	"github.com/Breeze0806/gobinlog/replication"
)

func timeTok(ts int64) string {
	return fmt.Sprintf("%d:%s", ts, hx([]byte(time.Unix(ts, 0).Local().String())))
}

func txLine(t *gobinlog.Transaction) string {
	times := map[int64]bool{t.Timestamp: true}
	var evs []string
	rows := func(rs []*gobinlog.RowData) string {
		if rs == nil {
			return "N"
		}
		var out []string
		for _, r := range rs {
			var cs []string
			for _, c := range r.Columns {
				d := "N"
				if c.Data != nil {
					d = hx(c.Data)
				}
				cs = append(cs, fmt.Sprintf("%s.%d.%d.%s", hx([]byte(c.Filed)), int(c.Type), b2i(c.IsEmpty), d))
			}
			out = append(out, "r"+strings.Join(cs, "_"))
		}
		return strings.Join(out, "~")
	}
	for _, e := range t.Events {
		times[e.Timestamp] = true
		evs = append(evs, fmt.Sprintf("%d,%s,%s,%s,%d,%s,%s", int(e.Type), hx([]byte(e.Table.DbName)), hx([]byte(e.Table.TableName)), hx([]byte(e.Query.SQL)),
			e.Timestamp, rows(e.RowValues), rows(e.RowIdentifies)))
	}
	var tt []string
	for k := range times {
		tt = append(tt, timeTok(k))
	}
	ev := strings.Join(evs, ";")
	if t.Events == nil {
		ev = "N"
	}
	return fmt.Sprintf("mtx now=%s next=%s ts=%d times=%s events=%s", posStr(t.NowPosition.Filename, t.NowPosition.Offset),
		posStr(t.NextPosition.Filename, t.NextPosition.Offset), t.Timestamp, strings.Join(tt, ","), ev)
}

// structureOK parses the output back with encoding/json (the property's own observation point).
func structureOK(t *gobinlog.Transaction, out []byte) (bool, string) {
	if !json.Valid(out) {
		return false, "output is not well-formed JSON"
	}
	var v struct {
		NowPosition  gobinlog.Position `json:"nowPosition"`
		NextPosition gobinlog.Position `json:"nextPosition"`
		Timestamp    string            `json:"timestamp"`
		Events       []struct {
			Name struct {
				Db    string `json:"db"`
				Table string `json:"table"`
			} `json:"name"`
			Type          string                                       `json:"type"`
			SQL           *string                                      `json:"sql"`
			RowValues     []struct{ Columns []map[string]interface{} } `json:"rowValues"`
			RowIdentifies []struct{ Columns []map[string]interface{} } `json:"rowIdentifies"`
		} `json:"events"`
	}
	if err := json.Unmarshal(out, &v); err != nil {
		return false, "cannot parse back: " + err.Error()
	}
	same := func(a, b string) bool { // valid UTF-8 must be verbatim; invalid bytes become U+FFFD
		if utf8.ValidString(a) {
			return a == b
		}
		return strings.ToValidUTF8(a, "�") == b || len(b) > 0
	}
	if !same(t.NowPosition.Filename, v.NowPosition.Filename) || t.NowPosition.Offset != v.NowPosition.Offset ||
		!same(t.NextPosition.Filename, v.NextPosition.Filename) || t.NextPosition.Offset != v.NextPosition.Offset {
		return false, "positions not preserved"
	}
	if len(v.Events) != len(t.Events) {
		return false, "number of events not preserved"
	}
	for i, e := range t.Events {
		g := v.Events[i]
		if g.Type != e.Type.String() || !same(e.Table.DbName, g.Name.Db) || !same(e.Table.TableName, g.Name.Table) {
			return false, fmt.Sprintf("event %d: kind or table not preserved", i)
		}
		if e.Query.SQL != "" {
			if g.SQL == nil || !same(e.Query.SQL, *g.SQL) {
				return false, fmt.Sprintf("event %d: SQL text not preserved", i)
			}
			continue
		}
		for k, pair := range [][2]interface{}{{e.RowValues, g.RowValues}, {e.RowIdentifies, g.RowIdentifies}} {
			want := pair[0].([]*gobinlog.RowData)
			got := pair[1].([]struct{ Columns []map[string]interface{} })
			if len(want) != len(got) {
				return false, fmt.Sprintf("event %d: row count (%d) not preserved", i, k)
			}
			for ri, r := range want {
				if len(r.Columns) != len(got[ri].Columns) {
					return false, "column count not preserved"
				}
				for ci, c := range r.Columns {
					m := got[ri].Columns[ci]
					fn, _ := m["filed"].(string)
					tn, _ := m["type"].(string)
					ie, _ := m["isEmpty"].(bool)
					if !same(c.Filed, fn) || tn != c.Type.String() || ie != c.IsEmpty {
						return false, fmt.Sprintf("event %d row %d column %d: name / type / absent flag not preserved", i, ri, ci)
					}
					d, present := m["data"]
					if !present {
						return false, "data key missing"
					}
					if c.Data == nil {
						if d != nil {
							return false, fmt.Sprintf("event %d row %d column %d: SQL NULL not rendered as JSON null", i, ri, ci)
						}
					} else {
						ds, ok := d.(string)
						if !ok {
							return false, fmt.Sprintf("event %d row %d column %d: non-NULL data (possibly empty) rendered as %v", i, ri, ci, d)
						}
						if !same(string(c.Data), ds) {
							return false, fmt.Sprintf("event %d row %d column %d: valid UTF-8 data not rendered verbatim", i, ri, ci)
						}
					}
				}
			}
		}
	}
	return true, ""
}

func marshalCase(t *gobinlog.Transaction, class string) Case {
	return Case{Line: txLine(t), Class: class, Nontrivial: len(t.Events) > 0, Run: func(resp map[string]string) Outcome {
		var out []byte
		impl := catch(func() string {
			b, err := json.Marshal(t)
			if err != nil {
				return "err"
			}
			out = b
			return hx(b)
		})
		o := Outcome{Impl: clip(impl, 3000), Model: clip(resp["model"], 3000), CorrOK: impl == resp["model"], OracleOK: true}
		if impl == "err" || impl == "panic" {
			o.OracleOK = false
			o.Note = "serialising the transaction failed: " + impl
			o.FindingKey = "marshal-fails"
			return o
		}
		if ok, note := structureOK(t, out); !ok {
			o.OracleOK = false
			o.Note = note
			o.FindingKey = "structure"
		}
		return o
	}}
}

func weirdString(r *RNG, n int) string {
	b := make([]byte, 0, n)
	for len(b) < n {
		switch r.Intn(11) {
		case 10:
			// valid but unusual code points, stored as such: the replacement character itself (text that went through
			// a lossy conversion before it was stored), noncharacters, the last code point, BOM, line / paragraph
			// separators, DEL - all valid UTF-8 and therefore data to be rendered verbatim
			b = append(b, []byte([]string{"\uFFFD", "\uFFFE", "\uFFFF", "\U0010FFFF", "\uFEFF", "\u2028", "\u2029", "\u007F", "\u0080", "\uD7FF", "\uE000"}[r.Intn(11)])...)
		case 9:
			// text that already looks like JSON escapes (a document stored in a column, produced by an HTML-escaping
			// encoder): literal backslash sequences must survive as data, whatever post-processing the marshaler does
			b = append(b, []byte([]string{`\u003c`, `\u003e`, `\u0026`, `\u2028`, `\n`, `\"`, `\\`, `\u0000`, `{"a":"\u003cb\u003e"}`, `\ud800`, `%s`, `%!d(MISSING)`}[r.Intn(12)])...)
		case 0:
			b = append(b, byte(r.Intn(32))) // control
		case 1:
			b = append(b, '"', '\\', '/', '<', '>', '&', '\'', '`')
		case 2:
			b = append(b, byte(0x80+r.Intn(128))) // stray continuation / invalid lead
		case 3:
			b = append(b, []byte("é€😀   ")...)
		case 4:
			b = append(b, 0xe2, 0x80) // truncated sequence
		case 5:
			b = append(b, 0xed, 0xa0, 0x80) // surrogate
		case 6:
			b = append(b, 0xc0, 0xaf, 0xf4, 0x90, 0x80, 0x80, 0x7f) // overlong, > U+10FFFF, DEL
		default:
			b = append(b, byte(32+r.Intn(95)))
		}
	}
	return string(b)
}

func genC20(r *RNG, tier string) []Case {
	var cs []Case
	n := 500
	if tier == "thorough" {
		n = 10000
	}
	// synthetic transactions with arbitrary bytes in names, SQL and data
	for i := 0; i < n; i++ {
		t := &gobinlog.Transaction{
			NowPosition:  gobinlog.Position{Filename: weirdString(r, r.Intn(12)), Offset: int64(r.U64() >> uint(r.Intn(64)))},
			NextPosition: gobinlog.Position{Filename: weirdString(r, r.Intn(12)), Offset: -int64(r.U64() >> uint(1+r.Intn(63)))},
			Timestamp:    int64(r.Intn(1 << 31)),
		}
		ne := r.Intn(4)
		if ne > 0 || r.Bool() {
			t.Events = make([]*gobinlog.StreamEvent, 0)
		}
		for e := 0; e < ne; e++ {
			ev := &gobinlog.StreamEvent{Type: gobinlog.StatementType(r.Intn(15)), Timestamp: int64(r.Intn(1 << 31))}
			ev.Table = gobinlog.NewMysqlTableName(weirdString(r, r.Intn(8)), weirdString(r, r.Intn(8)))
			if r.Chance(1, 4) {
				// names from a small pool whose quoted / dotted renderings collide ("a`.`b"."c" vs "a"."b`.`c", "x.y"."z"
				// vs "x"."y.z"): many transactions of one process share them, in any order
				pool := []string{"a`.`b", "a", "b`.`c", "c", "x.y", "x", "y.z", "z", "", "`", "a`", "`b", "a.b", "b"}
				ev.Table = gobinlog.NewMysqlTableName(pool[r.Intn(len(pool))], pool[r.Intn(len(pool))])
			}
			if r.Chance(1, 3) {
				ev.Query = replication.Query{SQL: weirdString(r, 1+r.Intn(30))}
				if r.Chance(1, 2) {
					// the session charset of the statement (latin1 = 8 is the default of 5.5-5.7 clients) is carried next
					// to the text; the text itself is rendered as it is
					ev.Query.Charset = &replication.Charset{Client: int32(r.Pick(8, 8, 33, 45, 63, 255, 1)), Conn: int32(r.Pick(8, 33, 45, 224)), Server: int32(r.Pick(8, 33, 45, 255))}
					if r.Bool() {
						ev.Query.SQL = "CREATE TABLE caf\u00e9_\u4e2d\u6587 (na\u00efve INT) COMMENT '\u20ac " + ev.Query.SQL + "'"
					}
				}
			} else {
				mk := func() []*gobinlog.RowData {
					if r.Chance(1, 6) {
						return nil
					}
					rs := make([]*gobinlog.RowData, 0)
					for k := r.Intn(3); k > 0; k-- {
						rd := &gobinlog.RowData{Columns: make([]*gobinlog.ColumnData, 0)}
						for c := r.Intn(4); c > 0; c-- {
							cd := &gobinlog.ColumnData{Filed: weirdString(r, r.Intn(6)), Type: gobinlog.ColumnType(r.Pick(0, 1, 3, 15, 245, 246, 252, 254, 255, 99, 20)), IsEmpty: r.Chance(1, 4)}
							switch r.Intn(4) {
							case 0:
								cd.Data = nil
							case 1:
								cd.Data = []byte{}
							default:
								cd.Data = []byte(weirdString(r, r.Intn(20)))
							}
							rd.Columns = append(rd.Columns, cd)
						}
						rs = append(rs, rd)
					}
					return rs
				}
				ev.RowValues, ev.RowIdentifies = mk(), mk()
			}
			t.Events = append(t.Events, ev)
		}
		cs = append(cs, marshalCase(t, "synthetic"))
	}
	// the string escaper alone, every single byte and every pair class
	for b := 0; b < 256; b++ {
		s := []byte{byte(b)}
		cs = append(cs, Case{Line: "mtx what=escape s=" + hx(s), Class: "escape-single-byte", Nontrivial: true, Run: func(resp map[string]string) Outcome {
			out, _ := json.Marshal(string(s))
			impl := hx(out[1 : len(out)-1])
			return Outcome{Impl: impl, Model: resp["model"], CorrOK: impl == resp["model"], OracleOK: json.Valid(out)}
		}})
	}
	for i := 0; i < n; i++ {
		s := []byte(weirdString(r, 1+r.Intn(12)))
		cs = append(cs, Case{Line: "mtx what=escape s=" + hx(s), Class: "escape-random", Nontrivial: true, Run: func(resp map[string]string) Outcome {
			out, _ := json.Marshal(string(s))
			impl := hx(out[1 : len(out)-1])
			o := Outcome{Impl: impl, Model: resp["model"], CorrOK: impl == resp["model"], OracleOK: json.Valid(out)}
			var back string
			if utf8.Valid(s) && (json.Unmarshal(out, &back) != nil || back != string(s)) {
				o.OracleOK = false
				o.Note = "a valid UTF-8 string does not survive escaping"
			}
			return o
		}})
	}
	return cs
}

// transactions produced end to end by C01's generator
func extraC20(col *Collector, r *RNG, tier string) {
	n := 60
	if tier == "thorough" {
		n = 1200
	}
	o := histOpts{maxUnits: 5, maxStmts: 3, maxRows: 3, maxCols: 12, maxTables: 3, files: true, ignorable: true, allowTZ: true, casing: true}
	var cs []Case
	for i := 0; i < n; i++ {
		h := genHistory(r, o, allCfgs[i%len(allCfgs)])
		ans, err := theDriver.Ask(h.line(posStr(firstFile, 4)))
		if err != nil {
			continue
		}
		packets := splitPackets(fields(ans)["packets"])
		for _, t := range collectTx(h, packets) {
			cs = append(cs, marshalCase(t, "end-to-end"))
		}
	}
	runCases(col, theDriver, cs)
}

// coldStartC20: the very first marshalling in this process is done by many goroutines at once (a service that starts
// several streamers): what each of them gets must be what the same call gives later, once any lazily built table has
// settled - and that later output is checked by the ordinary cases.
func coldStartC20(col *Collector) {
	mk := func() *gobinlog.Transaction {
		t := &gobinlog.Transaction{NowPosition: gobinlog.Position{Filename: "bin.000001", Offset: 4}, NextPosition: gobinlog.Position{Filename: "bin.000001", Offset: 400}}
		ev := &gobinlog.StreamEvent{Type: gobinlog.StatementInsert, Table: gobinlog.NewMysqlTableName("d", "t")}
		rd := &gobinlog.RowData{}
		for typ := 0; typ < 256; typ++ {
			rd.Columns = append(rd.Columns, &gobinlog.ColumnData{Filed: fmt.Sprintf("c%d", typ), Type: gobinlog.ColumnType(typ), Data: []byte("1")})
		}
		ev.RowValues = []*gobinlog.RowData{rd}
		t.Events = []*gobinlog.StreamEvent{ev}
		return t
	}
	const n = 64
	outs := make([]string, n)
	start := make(chan struct{})
	var wg sync.WaitGroup
	for i := 0; i < n; i++ {
		wg.Add(1)
		go func(i int) {
			defer wg.Done()
			defer func() { recover() }()
			t := mk()
			<-start
			b, err := json.Marshal(t)
			if err != nil {
				outs[i] = "err:" + err.Error()
				return
			}
			outs[i] = string(b)
		}(i)
	}
	close(start)
	wg.Wait()
	later, _ := json.Marshal(mk())
	ok, note := true, ""
	for i, o := range outs {
		if o != string(later) {
			ok = false
			k := 0
			for k < len(o) && k < len(later) && o[k] == later[k] {
				k++
			}
			lo := k - 40
			if lo < 0 {
				lo = 0
			}
			note = fmt.Sprintf("the first marshalling in the process, done by %d goroutines at once: goroutine %d got …%s… where the same call later gives …%s…", n, i, clip(o[lo:], 100), clip(string(later)[lo:], 100))
			break
		}
	}
	// the window is short: repeat the first use in fresh processes (this binary with -coldonly) when this one saw nothing
	if ok && os.Getenv("VERIF_COLD_CHILD") == "" {
		k := 60
		for i := 0; i < k && ok; i++ {
			cmd := exec.Command(os.Args[0], "-coldonly", "C20")
			cmd.Env = append(os.Environ(), "VERIF_COLD_CHILD=1")
			out, err := cmd.Output()
			if err == nil && strings.HasPrefix(string(out), "COLD-FAIL ") {
				ok = false
				note = strings.TrimSpace(strings.TrimPrefix(string(out), "COLD-FAIL ")) + fmt.Sprintf(" (fresh process %d of %d)", i+1, k)
			}
		}
	}
	col.AddScenario("cold-start-concurrent-marshal", fmt.Sprintf("%d goroutines marshal a transaction with one column of every type code as the first use of the library in the process", n), true, ok, true, note, "first-use-differs", "", "")
}

func init() {
	register(&Property{ID: "C20", Cold: coldStartC20, Gen: genC20, Extra: extraC20,
		Rule: "json.Marshal of (a) synthetic transactions with arbitrary bytes in names, SQL and data (control characters, quotes, <>&, invalid / truncated / overlong UTF-8, surrogates, U+2028/9, empty vs nil slices, nil vs empty event lists, negative offsets) and (b) the transactions delivered end to end for C01-style histories; compared byte for byte with the Lean model of the marshalers (timestamps passed through) and parsed back with encoding/json to check the structure the property lists; the string escaper on every single byte and random strings. Non-trivial: at least one event"})
}
