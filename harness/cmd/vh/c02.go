package main

import (
	"fmt"
	"regexp"
	"strings"
)

var evPart = regexp.MustCompile(`ev=<[^>]*>`)

// contentOnly keeps the delivered changes and drops the position labels.
func contentOnly(calls string) []string {
	return evPart.FindAllString(calls, -1)
}

func smallOpts() histOpts {
	return histOpts{maxUnits: 1, maxStmts: 2, maxRows: 2, maxCols: 3, maxTables: 2, files: true, ignorable: true, allowTZ: false, casing: true}
}

// unitOfKind builds one unit of the C02 alphabet.
func unitOfKind(r *RNG, h *hist, o histOpts, k int, fileNo *int, ts uint32) hUnit {
	switch k {
	case 0, 1, 2: // tx closed by XID / COMMIT / ROLLBACK
		u := hUnit{kind: "tx", ts: ts, begin: genStmt(r, "begin", o, ts).sql}
		switch k {
		case 0:
			u.closer = fmt.Sprintf("x%d", r.Intn(1000))
		case 1:
			u.closer = "c" + hx([]byte(genStmt(r, "commit", o, ts).sql))
		case 2:
			u.closer = "r" + hx([]byte(genStmt(r, "rollback", o, ts).sql))
		}
		ns := r.Range(1, 2)
		seen := map[int]bool{}
		for j := 0; j < ns; j++ {
			if r.Chance(1, 3) {
				// statements logged inside the transaction: statement-format DML, SET, and DDL-class statements
				// (CREATE/DROP TEMPORARY TABLE …) — all of them belong to the open transaction
				kw := r.Pickstr("insert", "update", "delete", "set", "create", "alter", "drop", "truncate", "rename")
				u.changes = append(u.changes, hChange{stmt: genStmt(r, kw, o, ts)})
				continue
			}
			ti := r.Intn(len(h.tables))
			u.changes = append(u.changes, hChange{rows: genRows(r, h, o, ti, ts, !seen[ti])})
			seen[ti] = true
		}
		return u
	case 3:
		return hUnit{kind: "ddl", stmt: genStmt(r, r.Pickstr("create", "alter", "drop", "truncate", "rename", "set"), o, ts)}
	case 4:
		return hUnit{kind: "ar", rows: genRows(r, h, o, r.Intn(len(h.tables)), ts, true)}
	case 5:
		return hUnit{kind: "dml", stmt: genStmt(r, r.Pickstr("insert", "update", "delete"), o, ts)}
	case 6:
		*fileNo++
		return hUnit{kind: r.Pickstr("rot", "rot", "rst"), file: fmt.Sprintf("bin.%06d", *fileNo*r.Pick(1, 1, 10, 100))}
	case 7:
		return hUnit{kind: "gt", sid: r.Bytes(16), gno: r.U64() >> 1}
	case 8:
		return hUnit{kind: "ag"}
	case 9:
		return hUnit{kind: "pg", block: leBytes(0, 8)}
	case 10:
		return hUnit{kind: "hb"}
	case 11:
		return hUnit{kind: "ue", typ: r.Pick(3, 14, 26, 28, 36, 37, 38, 160), body: r.Bytes(r.Intn(12))}
	default:
		st := genStmt(r, "begin", o, ts)
		st.sql = r.Pickstr("SAVEPOINT a", "flush tables", "GRANT x", "analyze t", "xa start 'a'", "/* begin of nightly purge */ flush tables", "/* commit plan */ analyze t", "/* rollback plan: keep */ GRANT x", "/*!40000 ALTER TABLE t DISABLE KEYS */", "-- begin", "# commit", "(begin)", "beginx", "commits", "rollbacks now")
		st.cat = 0
		return hUnit{kind: "ust", stmt: st}
	}
}

func isIgnorable(u hUnit) bool {
	switch u.kind {
	case "gt", "ag", "pg", "hb", "ue", "ust":
		return true
	}
	return false
}

const nKinds = 13

func genC02(r *RNG, tier string) []Case {
	maxLen := 3
	nrand := 300
	if tier == "thorough" {
		maxLen = 4
		nrand = 6000
	}
	var cs []Case
	o := smallOpts()
	mk := func(kinds []int, class string) {
		h := &hist{cfg: allCfgs[r.Intn(len(allCfgs))], ext: map[string][]string{}, qerr: r.Chance(1, 3)}
		h.tables = genTables(r, o)
		fileNo := 1
		ts := uint32(1600000000)
		boundary := 0
		for _, k := range kinds {
			ts += uint32(r.Intn(3))
			h.units = append(h.units, unitOfKind(r, h, o, k, &fileNo, ts))
			if k <= 5 {
				boundary++
			}
		}
		base := histCase(h, firstFile, 4, class, len(kinds) >= 2 && boundary >= 1, "")
		// the ignorable-insertion oracle: the same history without its ignorable units delivers the same changes
		h2 := &hist{cfg: h.cfg, tables: h.tables, ext: h.ext, qerr: h.qerr}
		for _, u := range h.units {
			if !isIgnorable(u) {
				h2.units = append(h2.units, u)
			}
		}
		inner := base.Run
		base.Run = func(resp map[string]string) Outcome {
			out := inner(resp)
			if len(h2.units) != len(h.units) && out.OracleOK {
				ans, err := theDriver.Ask(h2.line(posStr(firstFile, 4)))
				if err == nil {
					f := fields(ans)
					impl2, _, _ := runParse(h2, splitPackets(f["packets"]), firstFile, 4, -1, "", false)
					a, b := contentOnly(out.Impl), contentOnly(impl2)
					if strings.Join(a, "&") != strings.Join(b, "&") {
						out.OracleOK = false
						out.Note = "ignorable events changed the grouping: with them " + clip(strings.Join(a, "&"), 200) + " without " + clip(strings.Join(b, "&"), 200)
						out.FindingKey = "ignorable-alters-grouping"
					}
				}
			}
			return out
		}
		cs = append(cs, base)
	}
	// exhaustive over all unit sequences up to the bound
	var rec func(prefix []int, l int)
	rec = func(prefix []int, l int) {
		if len(prefix) == l {
			mk(append([]int(nil), prefix...), fmt.Sprintf("exhaustive-len%d", l))
			return
		}
		for k := 0; k < nKinds; k++ {
			rec(append(prefix, k), l)
		}
	}
	for l := 1; l <= maxLen; l++ {
		rec(nil, l)
	}
	// random beyond it
	for i := 0; i < nrand; i++ {
		l := r.Range(maxLen+1, 40)
		kinds := make([]int, l)
		for j := range kinds {
			kinds[j] = r.Intn(nKinds)
		}
		mk(kinds, "random-long")
	}
	// all casings of begin / commit / rollback (2^5 + 2^6 + 2^8), inside a transaction that must deliver / drop its change
	for _, kw := range []string{"begin", "commit", "rollback"} {
		for m := 0; m < 1<<uint(len(kw)); m++ {
			b := []byte(kw)
			for i := range b {
				if m>>uint(i)&1 == 1 {
					b[i] -= 32
				}
			}
			h := &hist{cfg: allCfgs[m%len(allCfgs)], ext: map[string][]string{}, qerr: m%3 == 1}
			oo := o
			oo.casing = false
			h.tables = genTables(r, oo)
			u := hUnit{kind: "tx", ts: 1600000000, begin: "BEGIN"}
			switch kw {
			case "begin":
				u.begin = string(b)
				u.closer = "x7"
			case "commit":
				u.closer = "c" + hx(b)
			case "rollback":
				u.closer = "r" + hx(b)
			}
			u.changes = append(u.changes, hChange{rows: genRows(r, h, oo, 0, 1600000000, true)})
			h.units = append(h.units, u, hUnit{kind: "ddl", stmt: genStmt(r, "create", oo, 1600000001)})
			cs = append(cs, histCase(h, firstFile, 4, "casing-"+kw, true, ""))
		}
	}
	return cs
}

// ---- C03: labels chain and are resume points ------------------------------------------------------

func parseLabels(calls []string) (now, next []string) {
	for _, c := range calls {
		f := strings.SplitN(c, ",", 3)
		now = append(now, strings.TrimPrefix(f[0], "now="))
		next = append(next, strings.TrimPrefix(f[1], "next="))
	}
	return
}

func decodePos(s string) (string, int64) {
	p := strings.Split(s, ":")
	var off int64
	fmt.Sscan(p[1], &off)
	return string(unhx(p[0])), off
}

func genC03(r *RNG, tier string) []Case {
	n := 120
	if tier == "thorough" {
		n = 2500
	}
	o := histOpts{maxUnits: 8, maxStmts: 3, maxRows: 3, maxCols: 8, maxTables: 3, files: true, ignorable: true, allowTZ: false, casing: false}
	var cs []Case
	for i := 0; i < n; i++ {
		h := genHistory(r, o, allCfgs[i%len(allCfgs)])
		nfiles := 1
		for _, u := range h.units {
			if u.kind == "rot" {
				nfiles++
			}
		}
		base := histCase(h, h.startFile(), 4, fmt.Sprintf("files%d", min(nfiles, 4)), len(h.units) >= 3, "")
		inner := base.Run
		base.Run = func(resp map[string]string) Outcome {
			out := inner(resp)
			if !out.OracleOK {
				return out
			}
			full := strings.Split(resp["spec"], "&")
			if resp["spec"] == "" {
				full = nil
			}
			now, next := parseLabels(full)
			// chain
			rot := map[string]bool{}
			for _, b := range strings.Split(resp["boundaries"], ",") {
				if strings.HasSuffix(b, ":4") {
					rot[b] = true
				}
			}
			for k := range full {
				prev := posStr(h.startFile(), 4)
				if k > 0 {
					prev = next[k-1]
				}
				if now[k] != prev && !rot[now[k]] {
					out.OracleOK = false
					out.Note = fmt.Sprintf("label chain broken at transaction %d: now=%s, previous end=%s", k, now[k], prev)
					out.FindingKey = "label-chain"
					return out
				}
			}
			// every delivered end label is a resume point
			for k := range full {
				file, off := decodePos(next[k])
				ans, err := theDriver.Ask(h.line(next[k]))
				if err != nil {
					continue
				}
				f := fields(ans)
				impl, _, _ := runParse(h, splitPackets(f["packets"]), file, off, -1, "", false)
				want := "nil@" + resp["endpos"] + "#" + strings.Join(full[k+1:], "&")
				if impl != want || f["spec"] != strings.Join(full[k+1:], "&") {
					out.OracleOK = false
					out.Note = fmt.Sprintf("resuming at the end label of transaction %d (%s) does not yield exactly the remaining transactions: got %s want %s", k, next[k], clip(impl, 300), clip(want, 300))
					out.FindingKey = "resume-point"
					return out
				}
				if normCrash(impl) != normCrash(f["model"]) {
					out.CorrOK = false
				}
			}
			return out
		}
		cs = append(cs, base)
	}
	return cs
}

// ---- C04 (L1): faults at the parser level ---------------------------------------------------------

// attempt runs one attempt from a position with a fault and returns (accepted calls, returned pos, class).
func splitOutcome(s string) (cls, pos string, calls []string) {
	i := strings.IndexByte(s, '#')
	head, rest := s[:i], s[i+1:]
	j := strings.IndexByte(head, '@')
	cls, pos = head[:j], head[j+1:]
	if rest != "" {
		calls = strings.Split(rest, "&")
	}
	return
}

func genC04(r *RNG, tier string) []Case {
	n := 150
	if tier == "thorough" {
		n = 3000
	}
	o := histOpts{maxUnits: 7, maxStmts: 3, maxRows: 2, maxCols: 6, maxTables: 3, files: true, ignorable: true, allowTZ: false, casing: false}
	var cs []Case
	for i := 0; i < n; i++ {
		h := genHistory(r, o, allCfgs[i%len(allCfgs)])
		seed := r.U64()
		line := h.line(posStr(h.startFile(), 4))
		cs = append(cs, Case{Line: line, Class: "fault-sequences", Nontrivial: true, Run: func(resp map[string]string) Outcome {
			rr := NewRNG(seed)
			full := strings.Split(resp["spec"], "&")
			if resp["spec"] == "" {
				full = nil
			}
			bset := map[string]bool{}
			for _, b := range strings.Split(resp["boundaries"], ",") {
				bset[b] = true
			}
			out := Outcome{OracleOK: true, CorrOK: true, Spec: resp["spec"]}
			var accepted []string
			pos := posStr(h.startFile(), 4)
			npk := len(splitPackets(resp["packets"]))
			attempts := rr.Range(1, 3)
			var trace []string
			for a := 0; a <= attempts; a++ {
				file, off := decodePos(pos)
				// choose the fault of this attempt (the last attempt has none)
				extra, failAt, mapperMode, cancelEnd, kind := "", -1, "", false, "none"
				cancelOnFail := false
				if a < attempts {
					switch rr.Intn(8) {
					case 7:
						kind = "handler-error-while-cancelling"
						failAt = rr.Intn(len(full) + 1)
						cancelOnFail = true
					case 0:
						kind = "handler-error"
						failAt = rr.Intn(len(full) + 1)
					case 1:
						kind = "mapper-error"
						mapperMode = fmt.Sprintf("err@%d", rr.Intn(len(h.tables)))
					case 2:
						kind = "mapper-more-columns"
						mapperMode = fmt.Sprintf("more@%d", rr.Intn(len(h.tables)))
					case 3:
						kind = "mapper-fewer-columns"
						mapperMode = fmt.Sprintf("less@%d", rr.Intn(len(h.tables)))
					case 4:
						kind = "stream-closed"
						extra = fmt.Sprintf("cut=%d", rr.Intn(npk+1))
					case 5:
						kind = "cancel"
						extra = fmt.Sprintf("cut=%d end=cancel", rr.Intn(npk+1))
						cancelEnd = true
					case 6:
						kind = r.Pickstr("invalid-event", "rand-event", "intvar-event", "rowsquery-event", "short-body-event")
						var pk []byte
						switch kind {
						case "invalid-event":
							pk = rr.Bytes(rr.Intn(40))
						case "short-body-event":
							// passes the gate, handled type, body too short to decode; kept only when the model predicts a
							// clean error (a panic of the unchanged body parsers is outside the statement)
							pk = mkEvent(byte(rr.Pick(4, 4, 4, 2, 15, 19, 30, 31, 32, 23, 16)), rr.Bytes(rr.Intn(12)), h.cfg[0] == '1')
							at := 2 + rr.Intn(npk)
							ok := false
							if ans, err := theDriver.Ask(h.line(pos, fmt.Sprintf("inject=%d:%s", at, hx(pk)))); err == nil {
								ok = strings.HasPrefix(fields(ans)["model"], "err@")
							}
							if !ok {
								pk = mkEvent(13, rr.Bytes(17), h.cfg[0] == '1')
							}
							extra = fmt.Sprintf("inject=%d:%s", at, hx(pk))
						default:
							typ := map[string]byte{"rand-event": 13, "intvar-event": 5, "rowsquery-event": 29}[kind]
							body := rr.Bytes(17)
							if h.cfg[0] == '1' {
								body = append(body, 1, 2, 3, 4)
							}
							pk = make([]byte, 19)
							pk[4] = typ
							l := 19 + len(body)
							pk[9], pk[10] = byte(l), byte(l>>8)
							pk = append(pk, body...)
						}
						if extra == "" {
							extra = fmt.Sprintf("inject=%d:%s", 2+rr.Intn(npk), hx(pk))
						}
					}
				}
				args := []string{extra}
				if failAt >= 0 {
					args = append(args, fmt.Sprintf("failat=%d", failAt))
				}
				if mapperMode != "" {
					args = append(args, "mapper="+mapperMode)
				}
				ans, err := theDriver.Ask(h.line(pos, args...))
				if err != nil {
					return Outcome{OracleOK: false, Note: "driver: " + err.Error()}
				}
				f := fields(ans)
				impl, _, _ := runParse(h, splitPackets(f["packets"]), file, off, failAt, mapperMode, cancelEnd, cancelOnFail)
				if normCrash(impl) != normCrash(f["model"]) {
					out.CorrOK = false
					out.Impl, out.Model = impl, f["model"]
					out.Note = "attempt " + fmt.Sprint(a) + " (" + kind + "): implementation and model differ"
				}
				cls, newPos, calls := splitOutcome(impl)
				if cls == "crash" {
					out.OracleOK = false
					out.Note = "panic in parseEvents during attempt " + fmt.Sprint(a) + " (" + kind + ")"
					out.FindingKey = "panic:" + kind
					return out
				}
				acc := calls
				if cls == "err" && failAt >= 0 && len(calls) > 0 && len(calls)-1 == failAt {
					acc = calls[:len(calls)-1] // the last call was rejected
				}
				accepted = append(accepted, acc...)
				trace = append(trace, fmt.Sprintf("%s@%s->%s:%s(+%d)", kind, pos, cls, newPos, len(acc)))
				// the kept position must be the commit boundary that follows the last accepted transaction:
				// a boundary of the log from which the master serves exactly the not-yet-accepted transactions
				if len(accepted) > len(full) || strings.Join(accepted, "&") != strings.Join(full[:len(accepted)], "&") {
					out.OracleOK = false
					out.Note = "accepted transactions are not a prefix of the committed ones after " + strings.Join(trace, " ; ")
					out.FindingKey = "not-prefix:" + kind
					out.Impl = strings.Join(accepted, "&")
					return out
				}
				ans2, _ := theDriver.Ask(h.line(newPos))
				f2 := fields(ans2)
				rest := strings.Join(full[len(accepted):], "&")
				if !bset[newPos] || stripFirstNow(f2["spec"]) != stripFirstNow(rest) {
					out.OracleOK = false
					out.Note = "resume position " + newPos + " is not the boundary after the last accepted transaction: " + strings.Join(trace, " ; ")
					out.FindingKey = "resume-pos:" + kind
					out.Impl = impl
					return out
				}
				pos = newPos
			}
			if strings.Join(accepted, "&") != resp["spec"] {
				out.OracleOK = false
				out.Note = "over the attempt sequence the handler did not accept every committed transaction exactly once: " + strings.Join(trace, " ; ")
				out.FindingKey = "exactly-once"
			}
			out.Impl = strings.Join(trace, " ; ")
			return out
		}})
	}
	return cs
}

// stripFirstNow ignores the start label of the first transaction (it is the resume position itself, which may
// legitimately be written as the end label before a rotation or as the rotation target).
func stripFirstNow(s string) string {
	if !strings.HasPrefix(s, "now=") {
		return s
	}
	i := strings.Index(s, ",next=")
	return s[i:]
}

func init() {
	register(&Property{ID: "C02", Gen: genC02, Replay: replayHist,
		Rule:  "all sequences of units over the 13-letter alphabet {tx/XID, tx/COMMIT, tx/ROLLBACK, DDL, autocommitted rows, statement DML, rotation, GTID, anonymous GTID, previous-GTIDs, heartbeat, unknown event, unknown statement} up to length 3 (quick) / 4 (thorough), random sequences up to 40, all 2^5+2^6+2^8 casings of begin/commit/rollback; oracle = Spec `expected` plus invariance under deletion of ignorable units; ignorable events (heartbeat, GTID, anonymous GTID, previous-GTIDs, STOP, USER_VAR, XA_PREPARE and unknown type codes) injected at every position of a history, also inside transactions: the deliveries must not change. Non-trivial: >= 2 units and >= 1 commit point",
		Extra: extraC02})
	register(&Property{ID: "C03", Gen: genC03, Replay: replayHist,
		Rule:  "histories with 1..4 binlog files, one in five relocated to offsets beyond 2^31 / close to 2^32 (bias), one in six started at the empty file name (oldest binlog); label chain checked; every delivered end label used as the start of a fresh parse (and, stream level, a fresh Stream) whose deliveries must equal the remaining expected transactions with identical labels. Non-trivial: >= 3 units",
		Extra: func(c *Collector, r *RNG, tier string) { extraStreamC03(c, r, tier); editingHandler(c, r, tier) }})
	register(&Property{ID: "C04", Gen: genC04, Replay: replayHist,
		Rule:  "histories x 1..3 failed attempts (handler error at call j, mapper error, mapper with more/fewer columns, stream closed at packet i, cancel at packet i, invalid / RAND / INTVAR / ROWS_QUERY event or a gate-passing event of a handled type with a truncated body (ROTATE, QUERY, FDE, TABLE_MAP, rows, XID; kept when the model predicts a clean error) injected at packet i; stream level also: attempts refused / failing in the handshake / in the checksum query / reset after it) then a clean attempt; large offsets and the empty start file name as in C03; after every attempt: accepted list is a prefix of the committed list, kept position is a log boundary from which exactly the rest is served; finally accepted == committed. Non-trivial: every case",
		Extra: func(c *Collector, r *RNG, tier string) { extraStreamC04(c, r, tier) }})
}

var extraStreamC03 = func(c *Collector, r *RNG, tier string) {}
var extraStreamC04 = func(c *Collector, r *RNG, tier string) {}

// extraC02: "ignorable events never alter the grouping" also INSIDE a transaction (the Spec grammar has units only
// between transactions): one ignorable packet is injected at a random index of the served stream — between BEGIN and
// its rows, between a TABLE_MAP and its rows event, before the commit event, … The handler must see exactly what it
// sees without the packet, with the same labels (an ignorable event does not move the position).
func extraC02(col *Collector, r *RNG, tier string) {
	n := 200
	if tier == "thorough" {
		n = 4000
	}
	o := histOpts{maxUnits: 5, maxStmts: 3, maxRows: 2, maxCols: 5, maxTables: 2, files: true, ignorable: true}
	var cs []Case
	for i := 0; i < n; i++ {
		h := genHistory(r, o, allCfgs[i%len(allCfgs)])
		start := h.startFile()
		base, err := theDriver.Ask(h.line(posStr(start, 4)))
		if err != nil {
			continue
		}
		bf := fields(base)
		npk := len(splitPackets(bf["packets"]))
		if npk < 3 {
			continue
		}
		typ := r.Pick(27, 33, 34, 35, 3, 14, 38, 36, 37, 39, 40, 160, 255, 0, 1, 6, 7, 8, 9, 10, 11, 12, 17, 18, 20, 21, 22)
		body := r.Bytes(r.Intn(44))
		pk := mkEvent(byte(typ), body, h.cfg[0] == '1')
		// an arbitrary next_position: ignorable events must not move the position
		np := uint32(r.U64())
		pk[13], pk[14], pk[15], pk[16] = byte(np), byte(np>>8), byte(np>>16), byte(np>>24)
		at := 2 + r.Intn(npk-1)
		want := "nil@" + bf["endpos"] + "#" + bf["spec"]
		line := h.line(posStr(start, 4), fmt.Sprintf("inject=%d:%s", at, hx(pk)))
		hh := h
		cs = append(cs, Case{Line: line, Class: fmt.Sprintf("ignorable-type-%d-injected", typ), Nontrivial: true, Run: func(resp map[string]string) Outcome {
			impl, calls, _ := runParse(hh, splitPackets(resp["packets"]), start, 4, -1, "", false)
			out := Outcome{Impl: normCrash(impl), Model: normCrash(resp["model"]), Spec: want, OracleOK: true}
			out.CorrOK = out.Impl == out.Model
			if impl != want {
				out.OracleOK = false
				out.FindingKey = "ignorable-inside"
				out.Note = "an ignorable event injected into the stream changed what was delivered: " + firstDiff(calls, strings.Split(bf["spec"], "&"), impl, want)
			}
			return out
		}})
	}
	runCases(col, theDriver, cs)
}
