package main

import (
	"bytes"
	"encoding/binary"
	"fmt"

	"github.com/Breeze0806/gobinlog/replication"
)

// hugeCases: values and events of 16 MiB and more (a LONGBLOB / LONGTEXT / JSON cell with a non-zero top length byte;
// an event the master had to split over several protocol packets, which the driver joins before the library sees
// it). The Lean side works on byte lists and cannot take part at this size, so these are checked against what was
// written only (oracle, no correspondence): the length rule, the value decoder, the validity gate and the header
// accessors must not know any limit below the 4-byte fields of the format.
func hugeCases(col *Collector, what string) {
	sizes := []int{1<<24 - 1, 1 << 24, 1<<24 + 5, 20 << 20}
	for _, n := range sizes {
		payload := bytes.Repeat([]byte{0xab, 0x00, 0x7f, 'x'}, n/4+1)[:n]
		switch what {
		case "cell":
			for _, typ := range []byte{252, 255} { // LONGBLOB / LONGTEXT, GEOMETRY: 4 length bytes
				cell := make([]byte, 4+n+3)
				binary.LittleEndian.PutUint32(cell, uint32(n))
				copy(cell[4:], payload)
				cell = cell[: 4+n+3 : 4+n+3]
				ok, note := true, ""
				func() {
					defer func() {
						if r := recover(); r != nil {
							ok, note = false, fmt.Sprintf("panic: %v", r)
						}
					}()
					l, err := replication.VerifCellLength(cell, 0, typ, 4)
					v, l2, err2 := replication.CellBytes(cell, 0, typ, 4, false)
					switch {
					case err != nil || l != 4+n:
						ok, note = false, fmt.Sprintf("length rule: %d, %v (want %d)", l, err, 4+n)
					case err2 != nil || l2 != 4+n:
						ok, note = false, fmt.Sprintf("value decoder: consumed %d, %v (want %d): the length rule and the decoder disagree on the size of the cell", l2, err2, 4+n)
					case !bytes.Equal(v, payload):
						ok, note = false, "value decoder: the delivered bytes differ from the stored ones"
					}
				}()
				col.AddScenario("huge-cell", fmt.Sprintf("a type-%d cell (4 length bytes) holding %d bytes, followed by 3 more bytes", typ, n), true, ok, true, note, "huge-cell", "", "")
			}
		case "event":
			ev := make([]byte, 19+n)
			binary.LittleEndian.PutUint32(ev[0:], 1600000000)
			ev[4] = 30 // WRITE_ROWS v2
			binary.LittleEndian.PutUint32(ev[5:], 7)
			binary.LittleEndian.PutUint32(ev[9:], uint32(len(ev)))
			binary.LittleEndian.PutUint32(ev[13:], uint32(4+len(ev)))
			copy(ev[19:], payload)
			ev = ev[:len(ev):len(ev)]
			ok, note := true, ""
			func() {
				defer func() {
					if r := recover(); r != nil {
						ok, note = false, fmt.Sprintf("panic: %v", r)
					}
				}()
				e := replication.NewMysql56BinlogEvent(ev)
				switch {
				case !e.IsValid():
					ok, note = false, fmt.Sprintf("a full-header buffer of %d bytes whose length field says %d is refused by the validity gate", len(ev), len(ev))
				case !e.IsWriteRows() || e.Timestamp() != 1600000000 || e.NextPosition() != int64(4+len(ev)):
					ok, note = false, "a header accessor misreads an accepted buffer of this size"
				}
				longer := append(append([]byte(nil), ev...), 0)
				if replication.NewMysql56BinlogEvent(longer[:len(longer):len(longer)]).IsValid() {
					ok, note = false, "an over-long buffer of this size is accepted"
				}
			}()
			col.AddScenario("huge-event", fmt.Sprintf("an event of %d bytes (joined from several protocol packets)", len(ev)), true, ok, true, note, "huge-event", "", "")
		}
	}
}
