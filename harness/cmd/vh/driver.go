package main

import (
	"bufio"
	"fmt"
	"io"
	"os"
	"os/exec"
	"strings"
	"sync"
)

// Driver is the compiled Lean model/spec (lean/.lake/build/bin/driver) behind a
// one-line-in, one-line-out protocol.
type Driver struct {
	cmd *exec.Cmd
	in  io.WriteCloser
	out *bufio.Reader
	mu  sync.Mutex
}

func driverPath() string {
	if p := os.Getenv("VERIF_DRIVER"); p != "" {
		return p
	}
	return verifRoot() + "/lean/.lake/build/bin/driver"
}

func StartDriver() (*Driver, error) {
	cmd := exec.Command(driverPath())
	in, err := cmd.StdinPipe()
	if err != nil {
		return nil, err
	}
	out, err := cmd.StdoutPipe()
	if err != nil {
		return nil, err
	}
	cmd.Stderr = os.Stderr
	if err := cmd.Start(); err != nil {
		return nil, err
	}
	return &Driver{cmd: cmd, in: in, out: bufio.NewReaderSize(out, 1<<20)}, nil
}

// Ask sends one line and waits for its answer.
func (d *Driver) Ask(line string) (string, error) {
	d.mu.Lock()
	defer d.mu.Unlock()
	if _, err := io.WriteString(d.in, line+"\n"); err != nil {
		return "", err
	}
	s, err := d.out.ReadString('\n')
	if err != nil {
		return "", fmt.Errorf("driver: %v", err)
	}
	return strings.TrimRight(s, "\n"), nil
}

// Batch pipelines many lines.
func (d *Driver) Batch(lines []string) ([]string, error) {
	d.mu.Lock()
	defer d.mu.Unlock()
	errc := make(chan error, 1)
	go func() {
		w := bufio.NewWriterSize(d.in, 1<<20)
		for _, l := range lines {
			if _, err := w.WriteString(l + "\n"); err != nil {
				errc <- err
				return
			}
		}
		errc <- w.Flush()
	}()
	res := make([]string, 0, len(lines))
	for range lines {
		s, err := d.out.ReadString('\n')
		if err != nil {
			return res, fmt.Errorf("driver: %v", err)
		}
		res = append(res, strings.TrimRight(s, "\n"))
	}
	if err := <-errc; err != nil {
		return res, err
	}
	return res, nil
}

func (d *Driver) Close() {
	d.in.Close()
	d.cmd.Wait()
}

// fields splits "k=v k=v" answers.
func fields(s string) map[string]string {
	m := map[string]string{}
	for _, t := range strings.Split(s, " ") {
		if i := strings.IndexByte(t, '='); i > 0 {
			m[t[:i]] = t[i+1:]
		}
	}
	return m
}
