package main

import (
	"bufio"
	"fmt"
	"io"
	"os"
	"os/exec"
	"runtime"
	"strings"
	"sync"
)

// Driver is the compiled Lean model/spec (lean/.lake/build/bin/driver) behind a
// one-line-in, one-line-out protocol.
type Driver struct {
	cmd *exec.Cmd
	in  io.WriteCloser
	out *bufio.Reader
	mu  sync.Mutex
}

func driverPath() string {
	if p := os.Getenv("VERIF_DRIVER"); p != "" {
		return p
	}
	return verifRoot() + "/lean/.lake/build/bin/driver"
}

func StartDriver() (*Driver, error) {
	cmd := exec.Command(driverPath())
	in, err := cmd.StdinPipe()
	if err != nil {
		return nil, err
	}
	out, err := cmd.StdoutPipe()
	if err != nil {
		return nil, err
	}
	cmd.Stderr = os.Stderr
	if err := cmd.Start(); err != nil {
		return nil, err
	}
	return &Driver{cmd: cmd, in: in, out: bufio.NewReaderSize(out, 1<<20)}, nil
}

// Ask sends one line and waits for its answer.
func (d *Driver) Ask(line string) (string, error) {
	d.mu.Lock()
	defer d.mu.Unlock()
	if _, err := io.WriteString(d.in, line+"\n"); err != nil {
		return "", err
	}
	s, err := d.out.ReadString('\n')
	if err != nil {
		return "", fmt.Errorf("driver: %v", err)
	}
	return strings.TrimRight(s, "\n"), nil
}

// pool: extra driver processes for large batches (the driver is a pure function of each line, so a batch can be
// cut into contiguous shards answered by independent processes)
var (
	poolMu sync.Mutex
	pool   []*Driver
)

func poolDrivers(n int) []*Driver {
	poolMu.Lock()
	defer poolMu.Unlock()
	for len(pool) < n {
		d, err := StartDriver()
		if err != nil {
			break
		}
		pool = append(pool, d)
	}
	return pool
}

// Batch answers many lines, in order; large batches are sharded over a pool of driver processes.
func (d *Driver) Batch(lines []string) ([]string, error) {
	n := runtime.NumCPU() * 3 / 4
	if n > 12 {
		n = 12
	}
	if len(lines) < 2000 || n < 2 || os.Getenv("VERIF_DRIVER_POOL") == "0" {
		return d.batch1(lines)
	}
	if k := len(lines) / 256; k < n {
		n = k
	}
	ds := append([]*Driver{d}, poolDrivers(n-1)...)
	n = len(ds)
	res := make([]string, len(lines))
	errs := make([]error, n)
	// chunks of 256 lines handed out on demand: cases differ in cost by orders of magnitude
	const chunk = 256
	next := make(chan int, (len(lines)+chunk-1)/chunk)
	for lo := 0; lo < len(lines); lo += chunk {
		next <- lo
	}
	close(next)
	var wg sync.WaitGroup
	for i := 0; i < n; i++ {
		wg.Add(1)
		go func(i int) {
			defer wg.Done()
			for lo := range next {
				hi := lo + chunk
				if hi > len(lines) {
					hi = len(lines)
				}
				out, err := ds[i].batch1(lines[lo:hi])
				copy(res[lo:hi], out)
				if err != nil {
					errs[i] = err
					return
				}
			}
		}(i)
	}
	wg.Wait()
	for _, e := range errs {
		if e != nil {
			return res, e
		}
	}
	return res, nil
}

func (d *Driver) batch1(lines []string) ([]string, error) {
	d.mu.Lock()
	defer d.mu.Unlock()
	errc := make(chan error, 1)
	go func() {
		w := bufio.NewWriterSize(d.in, 1<<20)
		for _, l := range lines {
			if _, err := w.WriteString(l + "\n"); err != nil {
				errc <- err
				return
			}
		}
		errc <- w.Flush()
	}()
	res := make([]string, 0, len(lines))
	for range lines {
		s, err := d.out.ReadString('\n')
		if err != nil {
			return res, fmt.Errorf("driver: %v", err)
		}
		res = append(res, strings.TrimRight(s, "\n"))
	}
	if err := <-errc; err != nil {
		return res, err
	}
	return res, nil
}

func (d *Driver) Close() {
	d.in.Close()
	d.cmd.Wait()
	poolMu.Lock()
	defer poolMu.Unlock()
	for _, p := range pool {
		p.in.Close()
		p.cmd.Wait()
	}
	pool = nil
}

// fields splits "k=v k=v" answers.
func fields(s string) map[string]string {
	m := map[string]string{}
	for _, t := range strings.Split(s, " ") {
		if i := strings.IndexByte(t, '='); i > 0 {
			m[t[:i]] = t[i+1:]
		}
	}
	return m
}
