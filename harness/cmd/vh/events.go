package main

import (
	"fmt"
	"strings"

	"github.com/Breeze0806/gobinlog/replication"
)

type tidAccess interface {
	TableID(replication.BinlogFormat) uint64
}

func defaultHeaderSizes(idw4 bool) []byte {
	tm, r1, r2 := byte(8), byte(8), byte(10)
	if idw4 {
		tm, r1, r2 = 6, 6, 6
	}
	return []byte{56, 13, 0, 8, 0, 18, 0, 4, 4, 4, 4, 18, 0, 0, 95, 0, 4, 26, tm, 0, 0, 0, r1, r1, r1, 2, 0, 0, 0, r2, r2, r2, 25, 25, 0, 18, 52, 0, 0, 0}
}

func implFormat(alg byte, hs []byte) replication.BinlogFormat {
	return replication.BinlogFormat{FormatVersion: 4, HeaderLength: 19, ChecksumAlgorithm: alg, HeaderSizes: hs}
}

func showBitmap(b replication.Bitmap) string {
	d, c := replication.VerifBitmapData(b)
	return hx(d) + "/" + fmt.Sprint(c)
}

func showImplTM(tm *replication.TableMap) string {
	md := make([]string, len(tm.Metadata))
	for i, m := range tm.Metadata {
		md[i] = fmt.Sprint(m)
	}
	return fmt.Sprintf("%d,%s,%s,%s,%s,%s", tm.Flags, hx([]byte(tm.Database)), hx([]byte(tm.Name)), hx(tm.Types), showBitmap(tm.CanBeNull), strings.Join(md, ","))
}

func showImplRows(r replication.Rows) string {
	var rs []string
	for _, row := range r.Rows {
		rs = append(rs, fmt.Sprintf("%s;%s;%s;%s", showBitmap(row.NullIdentifyColumns), hx(row.Identify), showBitmap(row.NullColumns), hx(row.Data)))
	}
	return fmt.Sprintf("%d,%s,%s,[%s]", r.Flags, showBitmap(r.IdentifyColumns), showBitmap(r.DataColumns), strings.Join(rs, "|"))
}

// evCase builds a case around the `wev` driver command. dec runs the real decoder on the (stripped) event.
func evCase(args string, class string, nontrivial bool, alg byte, hs []byte, dec func(ev replication.BinlogEvent, f replication.BinlogFormat) string, extraKeys ...string) Case {
	return Case{Line: "wev " + args, Class: class, Nontrivial: nontrivial, Run: func(resp map[string]string) Outcome {
		b := exact(unhx(resp["bytes"]))
		f := implFormat(alg, hs)
		impl := catch(func() string {
			ev := replication.NewMysql56BinlogEvent(b)
			if !ev.IsValid() {
				return "gate-rejected"
			}
			s, _, err := ev.StripChecksum(f)
			if err != nil {
				return "err"
			}
			return dec(s, f)
		})
		o := Outcome{Impl: impl, Model: resp["model"], Spec: resp["spec"], OracleOK: true}
		for _, k := range extraKeys {
			o.Model += " " + k + "=" + resp[k]
		}
		o.CorrOK = o.Impl == o.Model
		want := "ok:" + resp["spec"]
		for _, k := range extraKeys {
			want += " " + k + "=ok:" + resp["spec"+k]
		}
		if impl != want {
			o.OracleOK = false
			o.Note = "decoded event differs from what the master wrote"
			o.FindingKey = class
		}
		return o
	}}
}

func crcTok(r *RNG, on bool) (string, byte) {
	if on {
		return " crc=" + hx(r.Bytes(4)), 1
	}
	return "", 0
}

func metaTok(r *RNG) string {
	return fmt.Sprintf(" ts=%d sid=%d flags=%d start=%d", uint32(r.U64()), uint32(r.U64()), r.Intn(65536), r.Intn(1<<30))
}

func genC16(r *RNG, tier string) []Case {
	var cs []Case
	n := 400
	if tier == "thorough" {
		n = 12000
	}
	hs := defaultHeaderSizes(false)
	for i := 0; i < n; i++ {
		crcOn := i%2 == 1
		ct, alg := crcTok(r, crcOn)
		if i%6 == 4 {
			// the third announced algorithm: "undefined" (255, a master that knows nothing about checksums) — no
			// checksum bytes, decoding must be what it is with checksums off
			ct, alg = " alg=255", 255
		}
		// 1. common header: all five fields + flags, any type, any body
		ts, typ, sid, flags, start := uint32(r.U64()), r.Intn(256), uint32(r.U64()), r.Intn(65536), uint32(r.U64()>>uint(r.Range(1, 24)))
		if i%7 == 0 {
			ts, sid, flags, start = 0xffffffff, 0xffffffff, 0xffff, 0xfffff000
		}
		body := r.Bytes(r.Intn(40))
		cs = append(cs, Case{Line: fmt.Sprintf("wev kind=hdr ts=%d typ=%d sid=%d flags=%d start=%d body=%s%s", ts, typ, sid, flags, start, hx(body), ct),
			Class: "header", Nontrivial: true, Run: func(resp map[string]string) Outcome {
				b := exact(unhx(resp["bytes"]))
				impl := implHeader(b)
				o := Outcome{Impl: impl, Model: resp["model"], Spec: resp["spec"], CorrOK: impl == resp["model"], OracleOK: true}
				// next_position wraps at 2^32 on the master side as well (4-byte field)
				sp := strings.Split(resp["spec"], ",")
				var np uint64
				fmt.Sscan(sp[4], &np)
				sp[4] = fmt.Sprint(np % (1 << 32))
				if impl != "ok:"+strings.Join(sp, ",") || resp["valid"] != "1" {
					o.OracleOK = false
					o.Note = "header fields do not decode to what the master wrote"
					o.FindingKey = "header"
				}
				return o
			}})
		// 2. format description: server version 0..50 bytes, header-size tables of 27..255 entries, three algorithms
		sv := []byte(randName(r, r.Intn(51)))
		if len(sv) > 0 && r.Chance(1, 5) {
			sv[len(sv)-1] = '5' // never a trailing NUL (the field is NUL padded)
		}
		tbl := r.Bytes(r.Range(27, 255))
		fa := []int{0, 1, 255}[i%3]
		cs = append(cs, Case{Line: fmt.Sprintf("wev kind=fde sv=%s hs=%s alg=%d fcrc=%s created=%d%s", hx(sv), hx(tbl), fa, hx(r.Bytes(4)), uint32(r.U64()), metaTok(r)),
			Class: fmt.Sprintf("format-description-alg%d", fa), Nontrivial: true, Run: func(resp map[string]string) Outcome {
				b := exact(unhx(resp["bytes"]))
				impl := catch(func() string {
					f, err := replication.NewMysql56BinlogEvent(b).Format()
					if err != nil {
						return "err"
					}
					// "per-event header sizes": the accessor must give, for EVERY announced type code (the last one included),
					// the byte the master wrote for it
					for typ := 1; typ <= len(f.HeaderSizes) && typ <= 255; typ++ {
						if got := f.HeaderSize(byte(typ)); got != tbl[typ-1] {
							return fmt.Sprintf("ok-but-HeaderSize(%d)=%d-master-wrote-%d", typ, got, tbl[typ-1])
						}
					}
					return fmt.Sprintf("ok:%d,%s,%d,%d,%s", f.FormatVersion, hx([]byte(f.ServerVersion)), f.HeaderLength, f.ChecksumAlgorithm, hx(f.HeaderSizes))
				})
				o := Outcome{Impl: impl, Model: resp["model"], Spec: resp["spec"], CorrOK: impl == resp["model"], OracleOK: impl == "ok:"+resp["spec"]}
				if !o.OracleOK {
					o.Note = "format description does not decode to what the master wrote"
					if strings.HasPrefix(impl, "ok-but-") {
						o.Note = "header size accessor disagrees with the announced table: " + impl
					}
					o.FindingKey = "format"
				}
				return o
			}})
		// 3. rotate
		name := []byte(randName(r, r.Range(1, 60)))
		pos := r.U64() >> uint(r.Range(1, 60))
		cs = append(cs, evCase(fmt.Sprintf("kind=rotate pos=%d name=%s%s%s", pos, hx(name), metaTok(r), ct), "rotate-crc"+b01(crcOn), true, alg, hs,
			func(ev replication.BinlogEvent, f replication.BinlogFormat) string {
				n, p, err := ev.Rotate(f)
				if err != nil {
					return "err"
				}
				return fmt.Sprintf("ok:%s,%d", hx([]byte(n)), p)
			}))
		// 4. query with status variables
		st := genStmt(r, r.Pickstr("insert", "create", "set", "begin", "update"), histOpts{}, 0)
		st.db = randName(r, r.Pick(0, 1, 5, 64, 255))
		sql := []byte(st.sql)
		if i%11 == 0 {
			sql = r.Bytes(r.Pick(0, 1, 1000, 65536))
		}
		cs = append(cs, evCase(fmt.Sprintf("kind=query thread=%d exec=%d err=%d vars=%s db=%s sql=%s cs=%s%s%s", uint32(r.U64()), uint32(r.U64()), r.Intn(65536),
			strings.Join(st.vars, "/"), hx([]byte(st.db)), hx(sql), st.charset, metaTok(r), ct), "query-crc"+b01(crcOn), len(st.vars) > 0, alg, hs,
			func(ev replication.BinlogEvent, f replication.BinlogFormat) string {
				q, err := ev.Query(f)
				if err != nil {
					return "err"
				}
				c := "N"
				if q.Charset != nil {
					c = fmt.Sprintf("%d.%d.%d", q.Charset.Client, q.Charset.Conn, q.Charset.Server)
				}
				return fmt.Sprintf("ok:%s,%s,%s", hx([]byte(q.Database)), c, hx([]byte(q.SQL)))
			}))
		// 5. intvar / rand
		iv, ivv := r.Range(1, 2), r.U64()
		cs = append(cs, evCase(fmt.Sprintf("kind=intvar t=%d v=%d%s%s", iv, ivv, metaTok(r), ct), "intvar-crc"+b01(crcOn), true, alg, hs,
			func(ev replication.BinlogEvent, f replication.BinlogFormat) string {
				t, v, err := ev.IntVar(f)
				if err != nil {
					return "err"
				}
				return fmt.Sprintf("ok:%d,%d", t, v)
			}))
		s1, s2 := r.U64(), r.U64()
		cs = append(cs, evCase(fmt.Sprintf("kind=rand s1=%d s2=%d%s%s", s1, s2, metaTok(r), ct), "rand-crc"+b01(crcOn), true, alg, hs,
			func(ev replication.BinlogEvent, f replication.BinlogFormat) string {
				a, b, err := ev.Rand(f)
				if err != nil {
					return "err"
				}
				return fmt.Sprintf("ok:%d,%d", a, b)
			}))
	}
	// checksum stripping itself, all three announced algorithms + unknown ones, both flavours (raw, correspondence)
	for i := 0; i < n; i++ {
		b := r.Bytes(r.Range(0, 60))
		alg := r.Pick(0, 1, 255, 2, 7, 254)
		for _, fl := range []string{"strip56", "stripmaria"} {
			fl := fl
			cs = append(cs, Case{Line: fmt.Sprintf("%s f=19:%d: b=%s", fl, alg, hx(b)), Class: fl + "-raw", Nontrivial: len(b) > 4, Run: func(resp map[string]string) Outcome {
				d := exact(b)
				impl := catch(func() string {
					var ev replication.BinlogEvent
					if fl == "strip56" {
						ev = replication.NewMysql56BinlogEvent(d)
					} else {
						ev = replication.NewMariadbBinlogEvent(d)
					}
					s, _, err := ev.StripChecksum(replication.BinlogFormat{ChecksumAlgorithm: byte(alg), HeaderLength: 19})
					if err != nil {
						return "err"
					}
					return "ok:" + hx(s.Bytes())
				})
				o := Outcome{Impl: impl, Model: resp["model"], CorrOK: impl == resp["model"], OracleOK: true}
				// oracle for the three algorithms a format description can announce: off and undefined leave the
				// event as it is, CRC32 removes exactly the last four bytes
				switch {
				case (alg == 0 || alg == 255) && impl != "ok:"+hx(b):
					o.OracleOK, o.Note, o.FindingKey = false, fmt.Sprintf("checksum algorithm %d (no checksum) must leave the event unchanged", alg), "strip"
				case alg == 1 && len(b) >= 4 && impl != "ok:"+hx(b[:len(b)-4]):
					o.OracleOK, o.Note, o.FindingKey = false, "CRC32 must remove exactly the four trailing bytes", "strip"
				}
				return o
			}})
		}
	}
	return cs
}

// ---- C15: table maps ------------------------------------------------------------------------------------

func colsTok(cols []hCol) string {
	var p []string
	for _, c := range cols {
		p = append(p, fmt.Sprintf("%d.%d.%d", c.typ, c.md, b2i(c.nullable)))
	}
	return strings.Join(p, "/")
}

func decTM(ev replication.BinlogEvent, f replication.BinlogFormat) string {
	tm, err := ev.TableMap(f)
	if err != nil {
		return "err"
	}
	return "ok:" + showImplTM(tm) + " id=ok:" + fmt.Sprint(ev.TableID(f))
}

func genC15(r *RNG, tier string) []Case {
	var cs []Case
	n := 300
	if tier == "thorough" {
		n = 6000
	}
	for i := 0; i < n; i++ {
		idw4 := i%2 == 0
		crcOn := i%4 >= 2
		ct, alg := crcTok(r, crcOn)
		nc := r.Range(1, 40)
		switch i % 10 {
		case 0:
			nc = r.Pick(250, 251, 252, 255, 256, 300, 600)
		case 1:
			nc = r.Pick(7, 8, 9, 16, 17)
		}
		var cols []hCol
		for c := 0; c < nc; c++ {
			k := randColumn(r, true)
			md := k.md
			if k.typ == 245 || r.Chance(1, 30) {
				md = k.md
			}
			cols = append(cols, hCol{typ: k.typ, md: md, nullable: r.Bool()})
		}
		if i%13 == 0 { // JSON / other blob sizes too
			cols[0] = hCol{typ: 245, md: 4, nullable: true}
		}
		id := r.U64() & 0xffffffffffff
		if idw4 {
			id &= 0xffffffff
		}
		db, tbl := randName(r, r.Pick(1, 3, 64, 255)), randName(r, r.Pick(1, 5, 64, 255))
		var opt []byte
		if r.Chance(1, 2) {
			opt = r.Bytes(r.Range(1, 40))
		}
		args := fmt.Sprintf("kind=tmap idw4=%d id=%d tflags=%d db=%s tbl=%s cols=%s opt=%s%s%s", b2i(idw4), id, r.Intn(65536), hx([]byte(db)), hx([]byte(tbl)), colsTok(cols), hx(opt), metaTok(r), ct)
		class := fmt.Sprintf("tablemap-idw%d-crc%s", map[bool]int{true: 4, false: 6}[idw4], b01(crcOn))
		if nc >= 251 {
			class += "-multibyte-count"
		}
		cs = append(cs, evCase(args, class, nc > 1, alg, defaultHeaderSizes(idw4), decTM, "id"))
	}
	// low-level readers (raw, correspondence): length-encoded integers and metadata
	for i := 0; i < n*3; i++ {
		b := r.Bytes(r.Intn(12))
		if len(b) > 0 && r.Chance(1, 2) {
			b[0] = byte(r.Pick(0xfa, 0xfb, 0xfc, 0xfd, 0xfe, 0xff))
		}
		pos := r.Intn(len(b) + 2)
		cs = append(cs, Case{Line: fmt.Sprintf("lenenc b=%s pos=%d", hx(b), pos), Class: "lenenc-raw", Nontrivial: len(b) > 0, Run: func(resp map[string]string) Outcome {
			impl := catch(func() string {
				v, p, ok := replication.VerifReadLenEncInt(exact(b), pos)
				if !ok {
					return "ok:F"
				}
				return fmt.Sprintf("ok:%d,%d", v, p)
			})
			return Outcome{Impl: impl, Model: resp["model"], CorrOK: impl == resp["model"], OracleOK: true}
		}})
		t := r.Intn(256)
		if r.Chance(3, 4) {
			t = randColumn(r, true).typ
		}
		b2 := r.Bytes(r.Intn(5))
		p2 := r.Intn(len(b2) + 1)
		cs = append(cs, Case{Line: fmt.Sprintf("mdread b=%s pos=%d t=%d", hx(b2), p2, t), Class: "metadata-raw", Nontrivial: len(b2) > 0, Run: func(resp map[string]string) Outcome {
			impl := catch(func() string {
				v, p, err := replication.VerifMetadataRead(exact(b2), p2, byte(t))
				if err != nil {
					return "err"
				}
				return fmt.Sprintf("ok:%d,%d", v, p)
			})
			return Outcome{Impl: impl, Model: resp["model"], CorrOK: impl == resp["model"], OracleOK: true}
		}})
	}
	return cs
}

// ---- C09: rows events ----------------------------------------------------------------------------------------

func genC09(r *RNG, tier string) []Case {
	var cs []Case
	n := 300
	maxCols := 60
	if tier == "thorough" {
		n = 5000
		maxCols = 300
	}
	o := histOpts{maxRows: 5, maxCols: maxCols, maxTables: 1, allowTZ: true}
	for i := 0; i < n; i++ {
		idw4 := i%2 == 0
		crcOn := i%4 >= 2
		ct, alg := crcTok(r, crcOn)
		h := &hist{ext: map[string][]string{}}
		oo := o
		if i%5 != 0 {
			oo.maxCols = 12
		}
		h.tables = genTables(r, oo)
		if i%40 == 3 {
			// wide tables around the switch of the length-encoded column count to its multi-byte forms (251) and past
			// one byte of count (256 and more)
			t := h.tables[0]
			target := r.Pick(250, 251, 252, 255, 256, 257, 264, 300)
			if i == 3 {
				target = 1100 // beyond InnoDB's 1017-column limit (MyISAM / MEMORY tables go up to 4096)
			} else if i == 43 {
				target = 4096
			}
			for len(t.cols) < target {
				c := t.cols[r.Intn(len(t.cols))]
				c.name = fmt.Sprintf("w%d", len(t.cols))
				t.cols = append(t.cols, c)
			}
			t.cols = t.cols[:target]
			oo.maxRows = 2
		}
		c := genRows(r, h, oo, 0, 0, true)
		if i%9 == 0 { // zero rows
			c.rows = nil
		}
		t := h.tables[0]
		var rs []string
		for _, row := range c.rows {
			rs = append(rs, strings.Join(row[0], "_")+"^"+strings.Join(row[1], "_"))
		}
		id := r.U64() & 0xffffffff
		v2 := i%3 != 0
		args := fmt.Sprintf("kind=rowsev k=%s v2=%d idw4=%d id=%d rflags=%d extra=%s cols=%s pb=%s pa=%s rows=%s%s%s", c.kind, b2i(v2), b2i(idw4), id, c.flags,
			hx(c.extra), colsTok(t.cols), bitsStr(c.pb), bitsStr(c.pa), strings.Join(rs, "~"), metaTok(r), ct)
		if i%2 == 1 {
			// the unused bits of every bitmap's last byte set, as real masters leave them
			args += " pad=1"
		}
		types := make([]byte, len(t.cols))
		md := make([]uint16, len(t.cols))
		for k, col := range t.cols {
			types[k], md[k] = byte(col.typ), uint16(col.md)
		}
		tm := &replication.TableMap{Types: types, Metadata: md}
		class := fmt.Sprintf("rows-%s-v%d-idw%d", c.kind, map[bool]int{true: 2, false: 1}[v2], map[bool]int{true: 4, false: 6}[idw4])
		nontrivial := len(t.cols) > 8 && len(c.rows) > 0
		cs = append(cs, evCase(args, class, nontrivial, alg, defaultHeaderSizes(idw4), func(ev replication.BinlogEvent, f replication.BinlogFormat) string {
			rows, err := ev.Rows(f, tm)
			if err != nil {
				return "err"
			}
			return "ok:" + showImplRows(rows) + " id=ok:" + fmt.Sprint(ev.TableID(f))
		}, "id"))
	}
	// large values: the places where a length prefix crosses a byte boundary (the length rule and the decoder must
	// still agree, and a rows event holding such a value must still split exactly)
	for _, w := range []int{2, 3, 4} {
		for _, l := range []int{255, 256, 65535, 65536, 70000} {
			if w == 2 && l > 65535 {
				continue
			}
			for _, t := range []int{252, 250, 255} {
				cs = append(cs, cellCase(cellSpec{t: t, md: w, v: "s:" + hx(r.Bytes(l)), rest: r.Bytes(2)}, fmt.Sprintf("cell-large-lenbytes%d", w), true))
			}
		}
	}
	for _, l := range []int{255, 256, 65535} {
		cs = append(cs, cellCase(cellSpec{t: 15, md: 65535, v: "s:" + hx(r.Bytes(l)), rest: r.Bytes(2)}, "cell-large-varchar", true))
	}
	for i, l := range []int{65536, 70000, 65535} {
		// a write event whose second column is a MEDIUMBLOB / LONGBLOB value around 64 KiB, two rows
		w := 3 + i%2
		cols := []hCol{{typ: 3, md: 0}, {typ: 252, md: w}, {typ: 1, md: 0}}
		row := func(n int) string { return "i:4:7_s:" + hx(r.Bytes(n)) + "_i:1:-3" }
		args := fmt.Sprintf("kind=rowsev k=w v2=1 idw4=0 id=9 rflags=0 extra= cols=%s pb=111 pa=111 rows=^%s~^%s%s", colsTok(cols), row(l), row(300), metaTok(r))
		tm := &replication.TableMap{Types: []byte{3, 252, 1}, Metadata: []uint16{0, uint16(w), 0}}
		cs = append(cs, evCase(args, "rows-large-blob", true, 0, defaultHeaderSizes(false), func(ev replication.BinlogEvent, f replication.BinlogFormat) string {
			rows, err := ev.Rows(f, tm)
			if err != nil {
				return "err"
			}
			return "ok:" + showImplRows(rows) + " id=ok:" + fmt.Sprint(ev.TableID(f))
		}, "id"))
	}
	// per-cell: the length rule vs the decoder on arbitrary bytes, metadata domains swept (valid and invalid)
	type tm struct{ t, md int }
	var domain []tm
	for fsp := 0; fsp <= 8; fsp++ {
		domain = append(domain, tm{17, fsp}, tm{18, fsp}, tm{19, fsp})
	}
	for nb := 0; nb <= 64; nb++ {
		domain = append(domain, tm{16, (nb/8)<<8 | nb%8})
	}
	for w := 0; w <= 5; w++ {
		for _, t := range []int{245, 249, 250, 251, 252, 255} {
			domain = append(domain, tm{t, w})
		}
	}
	for w := 0; w <= 9; w++ {
		domain = append(domain, tm{247, w}, tm{248, w}, tm{254, 247<<8 | w}, tm{254, 248<<8 | w})
	}
	for p := 1; p <= 65; p++ {
		for s := 0; s <= 30 && s <= p; s++ {
			domain = append(domain, tm{246, p<<8 | s})
		}
	}
	for l := 0; l <= 1023; l += 1 {
		if tier == "thorough" || l%9 == 0 || l == 255 || l == 256 || l == 1023 {
			domain = append(domain, tm{254, stringMd(254, l)})
		}
	}
	for _, l := range []int{0, 1, 255, 256, 65535} {
		domain = append(domain, tm{15, l}, tm{253, l})
	}
	for _, t := range []int{0, 1, 2, 3, 4, 5, 6, 7, 8, 9, 10, 11, 12, 13, 14, 20, 100, 244} {
		domain = append(domain, tm{t, 0})
	}
	reps := 3
	if tier == "thorough" {
		reps = 40
	}
	for _, d := range domain {
		for k := 0; k < reps; k++ {
			data := r.Bytes(r.Pick(0, 1, 2, 3, 5, 9, 12, 40, 300))
			if len(data) > 0 && r.Chance(1, 2) {
				data[0] = byte(r.Pick(0, 1, 3, 12, 255)) // plausible length prefixes
			}
			if d.t == 245 && len(data) > d.md && d.md >= 1 && d.md <= 4 {
				// keep the JSON payload empty or a scalar so that no malformed document reaches the recursive printer
				for j := 0; j < d.md; j++ {
					data[j] = 0
				}
			}
			pos := r.Pick(0, 0, 1, 2)
			ext := ""
			if d.t == 4 && len(data) >= pos+4 {
				ext = f32ext(uint32(data[pos]) | uint32(data[pos+1])<<8 | uint32(data[pos+2])<<16 | uint32(data[pos+3])<<24)
			}
			if d.t == 5 && len(data) >= pos+8 {
				var v uint64
				for j := 7; j >= 0; j-- {
					v = v<<8 | uint64(data[pos+j])
				}
				ext = f64ext(v)
			}
			if d.t == 7 && len(data) >= pos+4 {
				ext = tzext(uint32(data[pos]) | uint32(data[pos+1])<<8 | uint32(data[pos+2])<<16 | uint32(data[pos+3])<<24)
			}
			if d.t == 17 && len(data) >= pos+4 {
				ext = tzext(uint32(data[pos])<<24 | uint32(data[pos+1])<<16 | uint32(data[pos+2])<<8 | uint32(data[pos+3]))
			}
			valid := !((d.t == 17 || d.t == 18) && d.md > 6)
			cs = append(cs, rawCellCase(d.t, d.md, r.Bool(), data, pos, ext, fmt.Sprintf("cell-raw-type%d", d.t), valid))
		}
	}
	return cs
}

func init() {
	replayEv := func(line string) []Case {
		return []Case{{Line: line, Class: "replay", Nontrivial: true, Run: func(resp map[string]string) Outcome {
			return Outcome{Impl: "(replay prints the model and spec columns; re-run the check for the implementation column)", Model: resp["model"], Spec: resp["spec"], CorrOK: true, OracleOK: true}
		}}}
	}
	register(&Property{ID: "C16", Gen: genC16, Extra: func(c *Collector, r *RNG, tier string) { extraC16(c, r, tier); reusedStreamer(c, r, tier, "C16") },
		Replay: func(line string) []Case {
			if strings.HasPrefix(line, "hist ") {
				return replayHist(line)
			}
			return replayEv(line)
		},
		Rule: "abstract events -> Spec writer bytes -> real decoders vs model vs what was written: all header fields (incl. 2^32-1 values), format descriptions (server version 0..50 bytes, header-size tables 27..255, algorithms 0/1/255), rotate, query (db 0..255 bytes, SQL to 64KB, status-variable subsets in MySQL's order with arbitrary payloads after the known codes), intvar, rand; every body decoder with and without a trailing checksum; raw checksum stripping for both flavours and unknown algorithms; multi-file histories (a format description per file) with and without CRC32 through the real parseEvents. Non-trivial: event with content"})
	register(&Property{ID: "C15", Gen: genC15, Replay: func(line string) []Case {
		if strings.HasPrefix(line, "hist ") {
			return replayHist(line)
		}
		return replayEv(line)
	},
		Rule:  "table maps of 1..600 columns (incl. counts >= 251) over all supported types/metadata, names up to 255 bytes, every nullability bitmap, 4/6-byte ids, random optional metadata, with/without checksum; raw length-encoded integers and metadata reads; (parser level) attribution histories over integer-heavy tables of mixed signedness with partial images, re-announcements inside and across transactions, re-definitions of an id (same names, other types), ids used again for ANOTHER table (other name or schema, other columns: ids start over when the master restarts) and same-named tables in other schemas, re-definitions that change the column count (must be rejected); several attempts on one Streamer with the tables altered in between; the mapper's calls compared with the exact expected sequence (one per announcement of a table its id does not stand for yet). Non-trivial: more than one column",
		Extra: func(c *Collector, r *RNG, tier string) { extraC15(c, r, tier) }})
	register(&Property{ID: "C09", Gen: genC09, Extra: func(c *Collector, r *RNG, tier string) { extraC09(c, r, tier); hugeCases(c, "cell") }, Replay: func(line string) []Case {
		if strings.HasPrefix(line, "hist ") {
			return replayHist(line)
		}
		if strings.HasPrefix(line, "clenbytes ") {
			f := fields(line)
			var t, md, pos int
			fmt.Sscan(f["t"], &t)
			fmt.Sscan(f["md"], &md)
			fmt.Sscan(f["pos"], &pos)
			return []Case{rawCellCase(t, md, f["u"] == "1", unhx(f["b"]), pos, "", "replay", true)}
		}
		return replayEv(line)
	},
		Rule: "rows events {write,update,delete} x {v1,v2} x {id 4,6} x extra-data lengths x <=60 (quick) / <=300 (thorough) columns x presence and NULL bitmaps x 0..5 rows, bytes by the Spec writer, compared as (flags, bitmaps, per-row NULL bitmaps and image bytes); per-cell: cellLength vs CellBytes on arbitrary bytes over the swept metadata domains (fsp 0..8, BIT 0..64, blob 0..5, enum/set 0..9, all DECIMAL (p,s), CHAR 0..1023, VARCHAR boundaries, unsupported types). Non-trivial: > 8 columns and >= 1 row (events) / non-empty data (cells)"})
}

var extraC15 = func(c *Collector, r *RNG, tier string) {}
