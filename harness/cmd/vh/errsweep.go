package main

import (
	"context"
	"encoding/binary"
	"fmt"
	"strings"
	"time"

	"github.com/Breeze0806/mysql"

	gobinlog "github.com/Breeze0806/gobinlog"
)

// errSweep: "master error codes and messages arbitrary" taken literally for the code: the reader goroutine is run over
// a scripted dump connection that answers the dump with a few event packets and then ONE ERR packet, for every error
// number of the sweep; HandleErrorPacket answers as the real driver does (*mysql.MySQLError{Number, Message}). The
// reason the reader publishes must carry the master's message and must not be one of the two reasons Error() filters
// out (the internal EOF marker, context.Canceled) - whatever the number.
type errSweepConn struct {
	packets [][]byte
	i       int
}

func (c *errSweepConn) Close() error                                    { return nil }
func (c *errSweepConn) Exec(string) error                               { return nil }
func (c *errSweepConn) NoticeDump(uint32, uint32, string, uint16) error { return nil }
func (c *errSweepConn) HandleErrorPacket(data []byte) error {
	// the driver's handleErrorPacket: 0xff, 2-byte number, optional '#' + 5-byte SQL state, message
	if len(data) < 3 || data[0] != 0xff {
		return fmt.Errorf("malformed packet")
	}
	pos := 3
	if len(data) > 3 && data[3] == '#' {
		pos = 9
	}
	if pos > len(data) {
		pos = len(data)
	}
	return &mysql.MySQLError{Number: binary.LittleEndian.Uint16(data[1:3]), Message: string(data[pos:])}
}
func (c *errSweepConn) ReadPacket() ([]byte, error) {
	if c.i >= len(c.packets) {
		return nil, fmt.Errorf("closed")
	}
	p := c.packets[c.i]
	c.i++
	return p, nil
}

func errSweep(col *Collector, r *RNG, tier string) {
	var codes []int
	for c := 1000; c <= 2100; c++ { // the server's and the client library's ranges in use
		codes = append(codes, c)
	}
	codes = append(codes, 0, 1, 255, 256, 999, 3000, 3024, 3100, 4000, 32767, 32768, 65534, 65535)
	if tier == "thorough" {
		codes = codes[:0]
		for c := 0; c < 65536; c++ {
			codes = append(codes, c)
		}
	}
	bad, first := 0, ""
	for _, code := range codes {
		msg := fmt.Sprintf("master says %d", code)
		if code%7 == 3 {
			msg += " (100% of quota; file bin%log.000007, %d%s)" // a message is data, not a format
		}
		pkt := []byte{0xff, byte(code), byte(code >> 8)}
		if code%2 == 0 {
			pkt = append(pkt, []byte("#HY000")...)
		}
		pkt = append(pkt, msg...)
		ev := append([]byte{0}, r.Bytes(19)...)
		conn := &errSweepConn{packets: [][]byte{ev, pkt}}
		sc, err := gobinlog.VerifNewSlaveConnection(func() (gobinlog.VerifDumpConn, error) { return conn, nil })
		if err != nil {
			continue
		}
		ctx, cancel := context.WithCancel(context.Background())
		ch, e2 := sc.StartDump(ctx, 7, gobinlog.Position{Filename: firstFile, Offset: 4})
		if e2 != nil {
			cancel()
			continue
		}
		for range ch {
		}
		var reason *gobinlog.Error
		select {
		case reason = <-sc.ErrChan():
		case <-time.After(2 * time.Second):
		}
		cancel()
		why := ""
		switch {
		case reason == nil:
			why = "no reason was published"
		case gobinlog.VerifIsStreamEOF(reason.Original()):
			why = "the ERR packet was classified as the master's EOF (Error() reports a clean end)"
		case reason.Original() == context.Canceled:
			why = "the ERR packet was classified as a cancellation"
		case !strings.Contains(reason.Error(), msg):
			why = "the published reason does not carry the master's message: " + clip(reason.Error(), 120)
		}
		if why != "" {
			bad++
			if first == "" {
				first = fmt.Sprintf("ERR packet with error number %d (%q): %s", code, msg, why)
			}
		}
	}
	col.AddScenario("err-number-sweep", fmt.Sprintf("reader goroutine over a scripted connection: one event packet, then an ERR packet, for %d error numbers", len(codes)),
		true, bad == 0, true, first, "err-packet-misclassified", fmt.Sprintf("%d numbers, %d misreported", len(codes), bad), "")
}
