package main

import (
	"bufio"
	"fmt"
	"math"
	"os"
	"path/filepath"
	"strconv"
	"strings"

	"github.com/Breeze0806/gobinlog/replication"
)

// jgen builds a random document in the driver's prefix syntax and collects the 'E'-format float texts.
type jgen struct {
	r        *RNG
	f64e     []string
	maxFan   int
	size     int  // rough byte size, to decide when a container must use the large format
	budget   int  // stop growing beyond this many bytes
	noDouble bool // no DOUBLE scalars (their text needs the f64e side table)
}

func (g *jgen) str(n int) string {
	// keys / strings without quote characters (the decoder does not escape, see DESIGN §7 C14)
	b := g.r.Bytes(n)
	for i := range b {
		if b[i] == '\'' || b[i] == '"' || b[i] == '\\' {
			b[i] = 'x'
		}
	}
	return hx(b)
}

func (g *jgen) scalar() string {
	r := g.r
	g.size += 12
	switch r.Intn(16) {
	case 0:
		return fmt.Sprintf("l:%d", r.Intn(3))
	case 1:
		return fmt.Sprintf("i16:%d", int16(r.Pick(0, 1, -1, 32767, -32768, r.Intn(65536))))
	case 2:
		return fmt.Sprintf("u16:%d", r.Pick(0, 1, 32768, 65535, r.Intn(65536)))
	case 3:
		return fmt.Sprintf("i32:%d", int32(r.Pick(32768, -32769, 2147483647, -2147483648, int(int32(r.U64())))))
	case 4:
		return fmt.Sprintf("u32:%d", uint32(r.Pick(65536, 4294967295, 2147483648, int(uint32(r.U64())))))
	case 5:
		v := int64(r.U64())
		if r.Bool() {
			v = []int64{2147483648, -2147483649, math.MaxInt64, math.MinInt64}[r.Intn(4)]
		}
		return fmt.Sprintf("i64:%d", v)
	case 6:
		v := r.U64()
		if r.Bool() {
			v = []uint64{1 << 63, math.MaxUint64, 4294967296}[r.Intn(3)]
		}
		return fmt.Sprintf("u64:%d", v)
	case 7:
		if g.noDouble {
			return fmt.Sprintf("i32:%d", int32(r.U64()))
		}
		bits := r.U64()
		for math.IsNaN(math.Float64frombits(bits)) || math.IsInf(math.Float64frombits(bits), 0) {
			bits = r.U64()
		}
		if r.Chance(1, 3) {
			bits = math.Float64bits([]float64{0, 1, -1, 3.14159, 1e300, 5e-324, 0.1}[r.Intn(7)])
		}
		if r.Chance(1, 4) {
			// a double that came from a FLOAT column / float expression (JSON_OBJECT('x', float_col)): exactly
			// representable in 32 bits, but its text must still denote THIS double (0.10000000149011612, not 0.1)
			f := math.Float32frombits(uint32(r.U64()))
			for math.IsNaN(float64(f)) || math.IsInf(float64(f), 0) {
				f = math.Float32frombits(uint32(r.U64()))
			}
			if r.Bool() {
				f = []float32{0.1, 0.2, 3.3, 1e-3, 16777217, 1.1e10, -0.7}[r.Intn(7)]
			}
			bits = math.Float64bits(float64(f))
		}
		txt := strconv.AppendFloat(nil, math.Float64frombits(bits), 'E', -1, 64)
		g.f64e = append(g.f64e, fmt.Sprintf("%d:%s", bits, hx(txt)))
		return fmt.Sprintf("d:%d", bits)
	case 8, 9, 10:
		n := r.Pick(0, 1, 5, 20, 127, 128, 300)
		if r.Chance(1, 40) && g.size < g.budget {
			n = r.Pick(16383, 16384, 70000)
		}
		g.size += n
		return "s:" + g.str(n)
	case 11:
		return fmt.Sprintf("od:%d:%d:%d", r.Intn(10000), r.Intn(13), r.Intn(32))
	case 12, 13:
		h, mi, s, mc := r.Intn(839), r.Intn(60), r.Intn(60), r.Pick(0, 0, 1, 120000, 999999, r.Intn(1000000))
		neg := r.Intn(2)
		if h+mi+s+mc == 0 {
			neg = 0
		}
		return fmt.Sprintf("ot:%d:%d:%d:%d:%d", neg, h, mi, s, mc)
	case 14:
		return fmt.Sprintf("odt:%d:%d:%d:%d:%d:%d:%d", r.Intn(10000), r.Intn(13), r.Intn(32), r.Intn(24), r.Intn(60), r.Intn(60), r.Pick(0, 1, 999999, r.Intn(1000000)))
	default:
		p := r.Range(1, 65)
		s := r.Intn(min(30, p) + 1)
		i, f := digitString(r, p-s, r.Pick(0, 2, 2)), digitString(r, s, 2)
		neg := r.Intn(2)
		if strings.Trim(i+f, "0") == "" {
			neg = 0
		}
		return fmt.Sprintf("odec:%d:%d:%d:%s:%s", p, s, neg, i, f)
	}
}

func (g *jgen) doc(depth int) string {
	r := g.r
	// size budget: the Lean model works on byte lists, documents far beyond the 64 KiB format switch cost minutes
	if depth == 0 || g.size > g.budget || r.Chance(2, 5) {
		return g.scalar()
	}
	n := r.Intn(6)
	if r.Chance(1, 8) {
		n = r.Intn(g.maxFan + 1)
	}
	before := g.size
	isObj := r.Bool()
	var parts []string
	seen := map[string]bool{}
	for i := 0; i < n; i++ {
		c := g.doc(depth - 1)
		if isObj {
			k := g.str(r.Pick(0, 1, 2, 5, 40))
			for seen[k] {
				k = g.str(r.Range(1, 8))
			}
			seen[k] = true
			g.size += len(k)/2 + 8
			parts = append(parts, k+"="+c)
		} else {
			g.size += 5
			parts = append(parts, c)
		}
	}
	g.size += 8
	large := 0
	if g.size-before > 60000 || r.Chance(1, 5) {
		large = 1
	}
	if isObj {
		return fmt.Sprintf("o%d(%s)", large, strings.Join(parts, ","))
	}
	return fmt.Sprintf("a%d(%s)", large, strings.Join(parts, ","))
}

func jsonCase(doc string, f64e []string, class string, nontrivial bool) Case {
	line := "jdoc doc=" + doc
	if len(f64e) > 0 {
		line += " f64e=" + strings.Join(f64e, ",")
	}
	return Case{Line: line, Class: class, Nontrivial: nontrivial, Run: func(resp map[string]string) Outcome {
		b := exact(unhx(resp["bytes"]))
		impl := catch(func() string {
			t, err := replication.VerifPrintJSONData(b)
			if err != nil {
				return "err"
			}
			return "ok:" + hx(t)
		})
		o := Outcome{Impl: clip(impl, 2000), Model: clip(resp["model"], 2000), Spec: clip(resp["spec"], 2000), CorrOK: impl == resp["model"], OracleOK: impl == "ok:"+resp["spec"]}
		if !o.OracleOK {
			o.Note = "the decoded text does not denote the stored document: got " + clip(string(unhx(strings.TrimPrefix(impl, "ok:"))), 200) + " want " + clip(string(unhx(resp["spec"])), 200)
			o.FindingKey = "json-doc"
		}
		// the same document as a JSON column cell (4 length bytes) through CellBytes
		cell := append(leBytes(uint64(len(b)), 4), b...)
		ic := implCellBytes(exact(cell), 0, 245, 4, false)
		if want := "ok:" + resp["spec"] + ":" + strconv.Itoa(len(cell)); ic != want && o.OracleOK {
			o.OracleOK = false
			o.Note = "CellBytes for TypeJSON differs from the document text"
			o.FindingKey = "json-cell"
		}
		return o
	}}
}

func genC14(r *RNG, tier string) []Case {
	var cs []Case
	n, depth, fan := 600, 4, 12
	if tier == "thorough" {
		n, depth, fan = 12000, 6, 40
	}
	for i := 0; i < n; i++ {
		// most documents stay small; one in sixteen may grow past the 64 KiB switch to the large format by itself
		g := &jgen{r: r, maxFan: fan, budget: 20000}
		if i%16 == 0 {
			g.budget = 140000
		}
		d := g.doc(depth)
		class := "scalar"
		if strings.HasPrefix(d, "o") || strings.HasPrefix(d, "a") {
			class = "container-depth" + strconv.Itoa(strings.Count(d, "(")-strings.Count(strings.ReplaceAll(d, "((", "("), "(")+1)
			class = "container"
			if strings.Contains(d, "o1(") || strings.Contains(d, "a1(") {
				class = "container-large"
			}
		}
		cs = append(cs, jsonCase(d, g.f64e, class, strings.Contains(d, "(")))
	}
	// both signs of the opaque TIME at every field boundary
	for _, neg := range []int{0, 1} {
		for _, h := range []int{0, 1, 23, 24, 838} {
			for _, mc := range []int{0, 1, 999999} {
				if neg == 1 && h+mc == 0 {
					continue
				}
				d := fmt.Sprintf("ot:%d:%d:0:1:%d", neg, h, mc)
				cs = append(cs, jsonCase(d, nil, "opaque-time", true))
				cs = append(cs, jsonCase("a0("+d+")", nil, "opaque-time-nested", true))
			}
		}
	}
	// natural large format: a string of >= 64KB inside a container
	for _, l := range []int{65535, 65536, 70000} {
		g := &jgen{r: r}
		cs = append(cs, jsonCase(fmt.Sprintf("o1(6b=s:%s,6c=i16:7)", g.str(l)), nil, "natural-large", true))
	}
	// WIDE large-format containers: thousands of members, so that key entries, key texts and out-of-line values sit
	// at offsets of 64 KiB and more (every 4-byte offset / size field of the large format is needed in full), and a
	// few hundred members with long keys (key text beyond 64 KiB while each key stays below the 2-byte key length)
	wides := []int{r.Range(6000, 6600)}
	if tier == "thorough" {
		wides = append(wides, r.Range(6000, 9000), 12000)
	}
	for k, nm := range wides {
		var parts []string
		for i := 0; i < nm; i++ {
			key := hx([]byte(fmt.Sprintf("k%05d", i)))
			switch {
			case i%97 == 0:
				parts = append(parts, fmt.Sprintf("%s=s:%s", key, hx([]byte(fmt.Sprintf("v%d", i))))) // out of line, far into the document
			case i%2 == 0:
				parts = append(parts, fmt.Sprintf("%s=i16:%d", key, i%30000))
			default:
				parts = append(parts, fmt.Sprintf("%s=u32:%d", key, i*70001))
			}
		}
		cs = append(cs, jsonCase("o1("+strings.Join(parts, ",")+")", nil, "wide-large-object", true))
		if k == 0 || tier == "thorough" {
			var vs []string
			for i := 0; i < nm*2; i++ {
				if i%53 == 0 {
					vs = append(vs, "s:"+hx([]byte(fmt.Sprintf("e%d", i))))
				} else {
					vs = append(vs, fmt.Sprintf("i32:%d", i*65537-1<<20))
				}
			}
			cs = append(cs, jsonCase("a1("+strings.Join(vs, ",")+")", nil, "wide-large-array", true))
		}
	}
	{
		g := &jgen{r: r}
		var parts []string
		seen := map[string]bool{}
		for i := 0; i < 300; i++ {
			key := g.str(r.Range(200, 400))
			if seen[key] {
				continue
			}
			seen[key] = true
			parts = append(parts, fmt.Sprintf("%s=u16:%d", key, i))
		}
		cs = append(cs, jsonCase("o1("+strings.Join(parts, ",")+")", nil, "long-keys-large-object", true))
	}
	// variable-length size prefix on its own (raw, correspondence + independent oracle)
	for i := 0; i < 400; i++ {
		v := uint64(r.Pick(0, 1, 127, 128, 16383, 16384, 2097151, 2097152, 268435455, 268435456, 4294967295, int(uint32(r.U64()))))
		var enc []byte
		x := v
		for {
			if x < 128 {
				enc = append(enc, byte(x))
				break
			}
			enc = append(enc, byte(x%128+128))
			x /= 128
		}
		data := append(append(r.Bytes(r.Intn(3)), enc...), r.Bytes(r.Intn(3))...)
		pos := len(data) - len(enc) - 0
		// recompute: prefix length is what we prepended
		pre := 0
		for pre = 0; pre <= 2; pre++ {
			if pre+len(enc) <= len(data) && string(data[pre:pre+len(enc)]) == string(enc) {
				break
			}
		}
		pos = pre
		cs = append(cs, Case{Line: fmt.Sprintf("varlen b=%s pos=%d", hx(data), pos), Class: "varlen", Nontrivial: v > 127, Run: func(resp map[string]string) Outcome {
			impl := catch(func() string {
				n, p := replication.VerifReadVariableLength(exact(data), pos)
				return fmt.Sprintf("ok:%d,%d", uint64(n), p)
			})
			o := Outcome{Impl: impl, Model: resp["model"], CorrOK: impl == resp["model"], OracleOK: true}
			if want := fmt.Sprintf("ok:%d,%d", v, pos+len(enc)); impl != want {
				o.OracleOK = false
				o.Spec = want
				o.Note = "variable-length size prefix decodes to a different number"
				o.FindingKey = "varlen"
			}
			return o
		}})
	}
	// malformed stream (correspondence only): truncations of well-formed scalars and flat containers
	for i := 0; i < 300; i++ {
		g := &jgen{r: r, maxFan: 4, budget: 20000}
		d := g.doc(1)
		ans, err := theDriver.Ask("jdoc doc=" + d + func() string {
			if len(g.f64e) > 0 {
				return " f64e=" + strings.Join(g.f64e, ",")
			}
			return ""
		}())
		if err != nil {
			continue
		}
		b := unhx(fields(ans)["bytes"])
		if len(b) < 2 {
			continue
		}
		cut := b[:1+r.Intn(len(b)-1)]
		ext := ""
		if len(g.f64e) > 0 {
			ext = " f64e=" + strings.Join(g.f64e, ",")
		}
		cs = append(cs, Case{Line: "json b=" + hx(cut) + ext, Class: "truncated", Nontrivial: true, Run: func(resp map[string]string) Outcome {
			impl := catch(func() string {
				t, err := replication.VerifPrintJSONData(exact(cut))
				if err != nil {
					return "err"
				}
				return "ok:" + hx(t)
			})
			return Outcome{Impl: impl, Model: resp["model"], CorrOK: impl == resp["model"], OracleOK: true}
		}})
	}
	return cs
}

// specVectors: the Spec writers must reproduce the byte vectors captured from real servers.
func specVectors(col *Collector, prefix string) {
	f, err := os.Open(filepath.Join(verifRoot(), "corpus", "spec_vectors.txt"))
	if err != nil {
		return
	}
	defer f.Close()
	sc := bufio.NewScanner(f)
	sc.Buffer(make([]byte, 1<<20), 1<<20)
	for sc.Scan() {
		l := strings.TrimSpace(sc.Text())
		if l == "" || strings.HasPrefix(l, "#") || !strings.HasPrefix(l, prefix) {
			continue
		}
		i := strings.Index(l, " expect=")
		cmd, want := l[:i], l[i+8:]
		ans, err := theDriver.Ask(cmd)
		if err != nil {
			continue
		}
		got := fields(ans)["bytes"]
		ok := got == want
		note := ""
		if !ok {
			note = "the Spec writer does not reproduce a byte vector captured from a real MySQL server (the Spec is wrong, not the code)"
		}
		// a wrong Spec is a broken tie, not a property violation: report it as a correspondence failure
		col.AddScenario("spec-vectors", cmd, true, true, ok, note, "spec-vector", got, want)
	}
}

// retainedJSON: a caller keeps every decoded text (streamer.go stores the returned slice in ColumnData.Data without
// copying). Decode a run of documents back to back, keep the returned slices, and only then compare each of them with
// the Spec's text: a decoder that recycles its output buffer passes every decode-then-compare case.
func retainedJSON(col *Collector, r *RNG, tier string) {
	rounds := 6
	if tier == "thorough" {
		rounds = 40
	}
	for k := 0; k < rounds; k++ {
		n := r.Range(2, 24)
		var lines, specs []string
		var docs [][]byte
		for i := 0; i < n; i++ {
			g := &jgen{r: r, maxFan: 6, budget: 600, noDouble: true}
			line := "jdoc doc=" + g.doc(r.Range(0, 3))
			ans, err := theDriver.Ask(line)
			if err != nil {
				continue
			}
			f := fields(ans)
			lines, specs, docs = append(lines, line), append(specs, f["spec"]), append(docs, exact(unhx(f["bytes"])))
		}
		for _, viaCell := range []bool{false, true} {
			kept := make([][]byte, len(docs))
			good := true
			for i, b := range docs {
				func() {
					defer func() {
						if recover() != nil {
							good = false
						}
					}()
					if viaCell {
						cell := exact(append(leBytes(uint64(len(b)), 4), b...))
						v, _, err := replication.CellBytes(cell, 0, 245, 4, false)
						if err != nil {
							good = false
						}
						kept[i] = v
					} else {
						t, err := replication.VerifPrintJSONData(b)
						if err != nil {
							good = false
						}
						kept[i] = t
					}
				}()
			}
			if !good {
				continue // decode failures are the business of the per-document cases
			}
			ok, note, first := true, "", ""
			for i := range kept {
				if hx(kept[i]) != specs[i] {
					ok = false
					first = lines[i]
					note = fmt.Sprintf("document %d of %d decoded back to back: its text, kept by the caller, reads %q after the later decodes, want %q", i, len(kept), clip(string(kept[i]), 120), clip(string(unhx(specs[i])), 120))
					break
				}
			}
			desc := strings.Join(lines, " ;; ")
			if first != "" {
				desc = first + " ;; then " + strings.Join(lines, " ;; ")
			}
			col.AddScenario("json-retained", desc, len(docs) > 1, ok, true, note, "json-result-overwritten", fmt.Sprintf("%d texts kept, viaCell=%v", len(kept), viaCell), "")
		}
	}
}

// emptyJSONValue: a JSON column whose stored value has length 0 (rows that existed before ALTER TABLE ... ADD COLUMN j
// JSON NOT NULL; INSERT IGNORE of NULL into a NOT NULL JSON column): the master reads it as the JSON document null.
func emptyJSONValue(col *Collector) {
	for md := 1; md <= 4; md++ {
		for _, rest := range [][]byte{nil, {0x01, 0x02, 0x03}} {
			cell := exact(append(make([]byte, md), rest...))
			got := implCellBytes(cell, 0, 245, uint16(md), false)
			want := "ok:" + hx([]byte("'null'")) + ":" + strconv.Itoa(md)
			ln := implCellLength(cell, 0, 245, uint16(md))
			ok := got == want && ln == "ok:"+strconv.Itoa(md)
			note := ""
			if !ok {
				note = fmt.Sprintf("a zero-length JSON value (%d length bytes) decodes to %s / length %s, want the document null ('null') and length %d", md, clip(got, 60), ln, md)
			}
			col.AddScenario("json-empty-value", fmt.Sprintf("clenbytes t=245 md=%d u=0 pos=0 b=%s", md, hx(cell)), true, ok, true, note, "json-empty-value", got, want)
		}
	}
}

// gappedKeys: after an in-place partial update (MySQL 8.0 JSON_REMOVE / JSON_SET with binlog_row_value_options or a
// document edited in place on the master) the keys of an object are where their key entries say, not necessarily back
// to back behind the entry tables. No serialiser writes this layout, so the document is written out by hand here.
func gappedKeys(col *Collector) {
	// small object {"a":1,"c":3}: count 2, size 25; key entries (21,1) (24,1); values inlined INT16 1 and 3; three
	// stale bytes before "a" and two between "a" and "c"
	doc := []byte{0x00, 2, 0, 25, 0, 21, 0, 1, 0, 24, 0, 1, 0, 0x05, 1, 0, 0x05, 3, 0, 'x', 'y', 'z', 'a', 'b', 'b', 'c'}
	want := "JSON_OBJECT('a',1,'c',3)"
	got := catch(func() string {
		t, err := replication.VerifPrintJSONData(exact(doc))
		if err != nil {
			return "err"
		}
		return string(t)
	})
	ok := got == want
	note := ""
	if !ok {
		note = fmt.Sprintf("an object whose keys are not stored back to back (in-place partial update) decodes to %q, want %q", clip(got, 80), want)
	}
	col.AddScenario("json-gapped-keys", "json b="+hx(doc), true, ok, true, note, "json-gapped-keys", got, want)
}

func init() {
	register(&Property{ID: "C14", Gen: genC14,
		Extra: func(c *Collector, r *RNG, tier string) {
			specVectors(c, "jdoc ")
			retainedJSON(c, r, tier)
			emptyJSONValue(c)
			gappedKeys(c)
		},
		Replay: func(line string) []Case {
			f := fields(line)
			var e []string
			if f["f64e"] != "" {
				e = strings.Split(f["f64e"], ",")
			}
			if strings.HasPrefix(line, "jdoc ") {
				return []Case{jsonCase(f["doc"], e, "replay", true)}
			}
			return nil
		},
		Rule: "documents from a recursive generator (depth <= 4 quick / 6 thorough, fan-out <= 12 / 40, keys and strings without quote characters, integers at every width boundary, doubles incl. extremes, opaque date / time (both signs) / datetime / decimal), each container in small or (forced / natural >= 64KB) large format, wide large-format containers (6000+ members, keys / values at offsets beyond 64 KiB; long keys), serialised by the independent Lean writer; decoded by printJSONData and through CellBytes(TypeJSON); variable-length prefixes 0..2^32-1; truncated documents for correspondence; the Spec writer itself is checked against 31 byte vectors captured from real servers; runs of 2..24 documents decoded back to back with every returned text kept and compared only afterwards (a recycled output buffer). Non-trivial: containers"})
}
