package main

import (
	"fmt"
	"strings"

	gobinlog "github.com/Breeze0806/gobinlog"
)

// reusedStreamer: ONE Streamer used for two dumps (pause / resume, failover behind one DSN). The first dump is ended
// by the caller's cancel; before the second, the master's checksum setting was changed (SET GLOBAL binlog_checksum: the
// same units now come with / without CRC32) and the caller restored its start position. The second dump serves the
// whole history and ends with an ERR packet. Nothing of the first dump - its context, its format description, its
// table cache, its reason - may leak into the second: the second delivers exactly the history with exact labels
// (C16 / C01), its single dump request asks for the restored position after exactly one checksum announcement (C07),
// Stream returns nil and Error() carries the master's message (C06).
func reusedStreamer(col *Collector, r *RNG, tier string, prop string) {
	n := 10
	if tier == "thorough" {
		n = 150
	}
	m := sharedMaster()
	const announce = "SET @master_binlog_checksum=@@global.binlog_checksum"
	for i := 0; i < n; i++ {
		o := histOpts{maxUnits: 6, maxStmts: 2, maxRows: 2, maxCols: 5, maxTables: 2, files: true, ignorable: true}
		var h1 *hist
		for {
			h1 = genHistory(r, o, allCfgs[i%len(allCfgs)])
			if !h1.empty && h1.bias == 0 && !h1.crcmix && len(h1.noise) == 0 { // (noise packets are pre-built for one checksum setting)
				break
			}
		}
		// the same log under the other checksum setting
		h2 := *h1
		flip := []byte(h1.cfg)
		if flip[0] == '1' {
			flip[0] = '0'
		} else {
			flip[0] = '1'
		}
		h2.cfg = string(flip)
		ans2, err := theDriver.Ask(h2.line(posStr(firstFile, 4)))
		if err != nil || strings.HasPrefix(ans2, "bad-") {
			continue
		}
		f2 := fields(ans2)
		s, mp := newStreamer(m, h1, 4000+uint32(i), firstFile, 4)
		// dump 1: cancelled by the caller somewhere in the stream
		o1 := defaultOpts()
		o1.cancelAtSent = r.Intn(4)
		runAttempt(s, m, h1, mp, o1)
		// dump 2 on the same Streamer
		s.SetBinlogPosition(gobinlog.Position{Filename: firstFile, Offset: 4})
		msg := fmt.Sprintf("master stopped after serving the log (%d)", i)
		o2 := defaultOpts()
		o2.script = func(p [][]byte) []action {
			var sc []action
			for _, pk := range p {
				sc = append(sc, action{kind: "send", data: pk})
			}
			return append(sc, action{kind: "err", code: 1236, msg: msg})
		}
		res := runAttempt(s, m, &h2, mp, o2)
		ok, note, key := true, "", ""
		got := strings.Join(res.calls, "&")
		switch {
		case got != f2["spec"] && (prop == "C16" || prop == "C01"):
			ok, key = false, "second-dump-fidelity"
			note = "second dump on one Streamer, checksum setting changed in between: " + firstDiff(res.calls, strings.Split(f2["spec"], "&"), "x#", "y#") + " (Stream: " + clip(res.streamRet, 100) + ")"
		case prop == "C07" && (len(res.dumps) != 1 || res.dumps[0].file != firstFile || res.dumps[0].pos != 4 || len(res.queries) != 1 || res.queries[0] != announce):
			ok, key = false, "second-dump-request"
			note = fmt.Sprintf("second dump on one Streamer: %d dump requests %v, queries %q; want one request for %s:4 after exactly one checksum announcement", len(res.dumps), res.dumps, res.queries, firstFile)
		case prop == "C06" && (res.streamRet != "nil" || !strings.Contains(res.errorRet, msg)):
			if got == f2["spec"] { // (a second dump that went wrong earlier is the business of the fidelity check)
				ok, key = false, "second-dump-reason"
				note = fmt.Sprintf("second dump on one Streamer (the first was cancelled by the caller) ended by ERR 1236 %q: Stream returned %s, Error() returned %s", msg, clip(res.streamRet, 80), clip(res.errorRet, 120))
			}
		}
		col.AddScenario("reused-streamer", "dump 1 cancelled: "+clip(h1.line(posStr(firstFile, 4)), 200)+" ;; dump 2, checksum setting flipped, ends with ERR: "+h2.line(posStr(firstFile, 4)), true, ok, true, note, key, clip(res.streamRet+" / "+res.errorRet, 160), "")
	}
}
