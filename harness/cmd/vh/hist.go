package main

import (
	"context"
	"encoding/json"
	"fmt"
	"io"
	"math"
	"strconv"
	"strings"

	gobinlog "github.com/Breeze0806/gobinlog"
	"github.com/Breeze0806/gobinlog/replication"
)

// ---- abstract histories (the syntax parsed by lean/GV/Driver/Hist.lean) ---------------------

type hCol struct {
	typ, md  int
	nullable bool
	name     string
	unsigned bool
}

type hTable struct {
	id   uint64
	db   string
	name string
	cols []hCol
}

func (t *hTable) str() string {
	var cs []string
	for _, c := range t.cols {
		cs = append(cs, fmt.Sprintf("%d.%d.%d.%s.%d", c.typ, c.md, b2i(c.nullable), hx([]byte(c.name)), b2i(c.unsigned)))
	}
	return fmt.Sprintf("%d,%s,%s,%s", t.id, hx([]byte(t.db)), hx([]byte(t.name)), strings.Join(cs, "/"))
}

func b2i(b bool) int {
	if b {
		return 1
	}
	return 0
}

type hStmt struct {
	sql, db string
	ts      uint32
	cat     int
	vars    []string // code.payloadhex
	charset string   // a.b.c or N
}

func (s hStmt) str() string {
	return fmt.Sprintf("%s,%s,%d,%d,%s,%s", hx([]byte(s.sql)), hx([]byte(s.db)), s.ts, s.cat, strings.Join(s.vars, "/"), s.charset)
}

type hRows struct {
	kind     string // w u d
	table    int
	ts       uint32
	flags    int
	extra    []byte
	pb, pa   []bool
	announce bool
	opt      []byte
	rows     [][2][]string // images: values of the present columns ("N" = NULL)
}

func bitsStr(b []bool) string {
	var s strings.Builder
	for _, x := range b {
		if x {
			s.WriteByte('1')
		} else {
			s.WriteByte('0')
		}
	}
	return s.String()
}

func (c hRows) str() string {
	var rs []string
	for _, r := range c.rows {
		rs = append(rs, strings.Join(r[0], "_")+"^"+strings.Join(r[1], "_"))
	}
	return fmt.Sprintf("%s,%d,%d,%d,%s,%s,%s,%d,%s,%s", c.kind, c.table, c.ts, c.flags, hx(c.extra), bitsStr(c.pb), bitsStr(c.pa),
		b2i(c.announce), hx(c.opt), strings.Join(rs, "~"))
}

type hChange struct {
	rows *hRows
	stmt *hStmt
}

func (c hChange) str() string {
	if c.rows != nil {
		return "R" + c.rows.str()
	}
	return "S" + c.stmt.str()
}

type hUnit struct {
	kind    string // tx ddl dml ust ar rot gt ag pg hb ue
	begin   string
	closer  string // x<n> c<hex> r<hex>
	ts      uint32
	changes []hChange
	stmt    *hStmt
	rows    *hRows
	file    string
	sid     []byte
	gno     uint64
	block   []byte
	typ     int
	body    []byte
}

func (u hUnit) str() string {
	switch u.kind {
	case "tx":
		var cs []string
		for _, c := range u.changes {
			cs = append(cs, c.str())
		}
		return fmt.Sprintf("tx|%s|%s|%d|%s", hx([]byte(u.begin)), u.closer, u.ts, strings.Join(cs, "+"))
	case "ddl", "dml", "ust":
		return u.kind + "|" + u.stmt.str()
	case "ar":
		return "ar|" + u.rows.str()
	case "rot":
		return "rot|" + hx([]byte(u.file))
	case "rst":
		return "rst|" + hx([]byte(u.file))
	case "gt":
		return fmt.Sprintf("gt|%s|%d", hx(u.sid), u.gno)
	case "pg":
		return "pg|" + hx(u.block)
	case "ue":
		return fmt.Sprintf("ue|%d|%s", u.typ, hx(u.body))
	}
	return u.kind // ag hb
}

// commits tells whether the unit ends in a handler call.
func (u hUnit) commits() bool {
	switch u.kind {
	case "tx", "ddl", "dml", "ar":
		return true
	}
	return false
}

type hist struct {
	cfg    string // crc,v2,idw4 as "101"
	tables []*hTable
	units  []hUnit
	ext    map[string][]string // f32/f64/tz/civil assoc entries
	bias   int64               // large-offset histories: every offset past a file's head FDE is moved up by this much
	noise  []string            // "<i>:<hex>": packets sent right after laid-out event i (ignorable events, unknown statements)
	crcmix bool                // the checksum setting alternates from one binlog file to the next
	pad    bool                // ROWS events carry their bitmaps with the padding bits set, as real masters write them
	empty  bool                // the replica starts at ("", 4): "oldest binlog"; labels carry "" until the first ROTATE
	qerr   bool                // QUERY events carry a non-zero error_code in their post-header (a statement that failed part-way on the master and was logged with the error it hit: DROP TABLE t1,t2 with t2 missing, a killed statement on a non-transactional table). Applied by the harness to the packets the Spec master serves (same length; the field is not part of what the replica delivers), so the model's outcome for the unpatched packets is the expectation.
}

// startFile is the file name the replica is configured with for this history.
func (h *hist) startFile() string {
	if h.empty {
		return ""
	}
	return firstFile
}

func (h *hist) line(p string, extra ...string) string {
	var ts, us []string
	for _, t := range h.tables {
		ts = append(ts, t.str())
	}
	for _, u := range h.units {
		us = append(us, u.str())
	}
	s := fmt.Sprintf("hist cfg=%s p=%s tables=%s units=%s", h.cfg, p, strings.Join(ts, ";"), strings.Join(us, ";"))
	if h.bias != 0 {
		s += fmt.Sprintf(" bias=%d", h.bias)
	}
	if h.pad {
		s += " pad=1"
	}
	if h.crcmix {
		s += " crcmix=1"
	}
	if len(h.noise) > 0 {
		s += " noise=" + strings.Join(h.noise, ";")
	}
	for _, k := range []string{"f32", "f64", "tz", "civil", "jtext"} {
		if len(h.ext[k]) > 0 {
			s += " " + k + "=" + strings.Join(h.ext[k], ",")
		}
	}
	for _, e := range extra {
		if e != "" {
			s += " " + e
		}
	}
	return s
}

func posStr(file string, off int64) string {
	return hx([]byte(file)) + ":" + strconv.FormatInt(off, 10)
}

const firstFile = "bin.000001"

// ---- random schemas and values ------------------------------------------------------------------

type colKind struct{ typ, md int }

func randColumn(r *RNG, allowTZ bool) colKind {
	for {
		switch r.Intn(25) {
		case 24:
			return colKind{245, r.Pick(4, 4, 4, 2, 3)}
		case 0:
			return colKind{1, 0}
		case 1:
			return colKind{2, 0}
		case 2:
			return colKind{9, 0}
		case 3:
			return colKind{3, 0}
		case 4:
			return colKind{8, 0}
		case 5:
			return colKind{4, 4}
		case 6:
			return colKind{5, 8}
		case 7:
			return colKind{13, 0}
		case 8:
			nb := r.Range(1, 64)
			return colKind{16, (nb/8)<<8 | nb%8}
		case 9:
			w := r.Range(1, 2)
			return colKind{254, 247<<8 | w}
		case 10:
			w := r.Range(1, 8)
			return colKind{254, 248<<8 | w}
		case 11:
			p := r.Range(1, 65)
			s := r.Intn(min(30, p) + 1)
			return colKind{246, p<<8 | s}
		case 12:
			return colKind{r.Pick(10, 14), 0}
		case 13:
			return colKind{11, 0}
		case 14:
			return colKind{12, 0}
		case 15:
			if allowTZ {
				return colKind{7, 0}
			}
		case 16:
			return colKind{19, r.Intn(7)}
		case 17:
			return colKind{18, r.Intn(7)}
		case 18:
			if allowTZ {
				return colKind{17, r.Intn(7)}
			}
		case 19:
			return colKind{15, r.Pick(0, 1, 10, 255, 256, 300, 65535)}
		case 20:
			return colKind{254, stringMd(254, r.Pick(0, 1, 30, 255, 256, 1023))}
		case 21:
			return colKind{252, r.Range(1, 4)}
		case 22:
			return colKind{255, r.Range(1, 4)}
		case 23:
			return colKind{253, r.Pick(5, 255, 256)}
		}
	}
}

func min(a, b int) int {
	if a < b {
		return a
	}
	return b
}

// randValue returns the abstract value syntax for a column, registering external parameters in ext.
func randValue(r *RNG, c colKind, ext map[string][]string) string {
	pow10 := []int{1, 10, 100, 1000, 10000, 100000, 1000000}
	switch c.typ {
	case 1, 2, 9, 3, 8:
		w := map[int]int{1: 1, 2: 2, 9: 3, 3: 4, 8: 8}[c.typ]
		raw := r.U64()
		if r.Chance(1, 3) {
			raw = uint64(r.Pick(0, 1, 127, 128, 255, 256, 32767, 32768, 65535))
		}
		if w < 8 {
			raw &= 1<<(8*uint(w)) - 1
		}
		return fmt.Sprintf("raw:%s", hx(leBytes(raw, w)))
	case 4:
		bits := uint32(r.U64())
		for math.IsNaN(float64(math.Float32frombits(bits))) || math.IsInf(float64(math.Float32frombits(bits)), 0) {
			bits = uint32(r.U64())
		}
		ext["f32"] = append(ext["f32"], strings.TrimPrefix(f32ext(bits), "f32="))
		return fmt.Sprintf("f32:%d", bits)
	case 5:
		bits := r.U64()
		for math.IsNaN(math.Float64frombits(bits)) || math.IsInf(math.Float64frombits(bits), 0) {
			bits = r.U64()
		}
		ext["f64"] = append(ext["f64"], strings.TrimPrefix(f64ext(bits), "f64="))
		return fmt.Sprintf("f64:%d", bits)
	case 13:
		return fmt.Sprintf("y:%d", r.Intn(256))
	case 16:
		nb := (c.md>>8)*8 + c.md&0xff
		return "bit:" + hx(r.Bytes((nb+7)/8))
	case 245: // JSON: a small document serialised by the Spec's writer; the cell is length prefix (md bytes) + document
		if theDriver != nil {
			for try := 0; try < 4; try++ {
				g := &jgen{r: r, maxFan: 4, budget: 400, noDouble: true}
				ans, err := theDriver.Ask("jdoc doc=" + g.doc(2))
				if err != nil {
					continue
				}
				f := fields(ans)
				doc := unhx(f["bytes"])
				if len(doc) == 0 || f["spec"] == "" || len(doc) >= 1<<(8*uint(c.md)) && c.md < 4 {
					continue
				}
				cell := append(leBytes(uint64(len(doc)), c.md), doc...)
				ext["jtext"] = append(ext["jtext"], hx(cell)+":"+f["spec"])
				return "jraw:" + hx(cell)
			}
		}
		return "N"
	case 247: // ENUM announced under its own type code (md = pack size)
		return fmt.Sprintf("en:%d:%d", c.md, r.U64()&(1<<(8*uint(c.md))-1))
	case 248: // SET under its own type code (never sent by a master): the decoder hands out the md raw bytes
		return "s:" + hx(r.Bytes(c.md))
	case 254:
		t := c.md >> 8
		if t == 247 {
			w := c.md & 0xff
			return fmt.Sprintf("en:%d:%d", w, r.U64()&(1<<(8*uint(w))-1))
		}
		if t == 248 {
			w := c.md & 0xff
			v := r.U64()
			if w < 8 {
				v &= 1<<(8*uint(w)) - 1
			}
			return fmt.Sprintf("set:%d:%d", w, v)
		}
		max := (((c.md >> 4) & 0x300) ^ 0x300) + (c.md & 0xff)
		return "s:" + hx(r.Bytes(r.Intn(min(max, 40)+1)))
	case 246:
		p, s := c.md>>8, c.md&0xff
		i, f := digitString(r, p-s, r.Pick(0, 2, 2)), digitString(r, s, r.Pick(0, 2, 2))
		if r.Chance(1, 3) {
			// round values: whole 9-digit groups (counted from the decimal point, as they are stored) that are all
			// zeros or all nines next to groups that are not - 5000000000.25, 999999999000000000, 1000000000000000001
			grp := func(n int) string {
				switch r.Intn(4) {
				case 0:
					return strings.Repeat("0", n)
				case 1:
					return strings.Repeat("9", n)
				case 2:
					return strings.Repeat("0", n-1) + strconv.Itoa(r.Range(1, 9))
				}
				return digitString(r, n, 2)
			}
			build := func(n int, fromRight bool) string {
				out := ""
				for n > 0 {
					k := 9
					if n < 9 {
						k = n
					}
					if fromRight {
						out = grp(k) + out
					} else {
						out += grp(k)
					}
					n -= k
				}
				return out
			}
			i, f = build(p-s, true), build(s, false)
		}
		neg := r.Intn(2)
		if strings.Trim(i+f, "0") == "" {
			neg = 0
		}
		return fmt.Sprintf("dec:%d:%s:%s", neg, i, f)
	case 10, 14:
		return fmt.Sprintf("d:%d:%d:%d", r.Intn(10000), r.Intn(13), r.Intn(32))
	case 11:
		h, m, s := r.Intn(839), r.Intn(60), r.Intn(60)
		neg := r.Intn(2)
		if h+m+s == 0 {
			neg = 0
		}
		return fmt.Sprintf("t:%d:%d:%d:%d", neg, h, m, s)
	case 12:
		return fmt.Sprintf("dt:%d:%d:%d:%d:%d:%d", r.Intn(10000), r.Intn(13), r.Intn(32), r.Intn(24), r.Intn(60), r.Intn(60))
	case 7:
		sec := uint32(r.U64())
		if r.Chance(1, 8) {
			sec = 0
		}
		e := tzext(sec)
		parts := strings.Split(e, " ")
		ext["tz"] = append(ext["tz"], strings.TrimPrefix(parts[0], "tz="))
		ext["civil"] = append(ext["civil"], strings.TrimPrefix(parts[1], "civil="))
		return fmt.Sprintf("ts:%d", sec)
	case 17:
		sec := uint32(r.U64())
		if r.Chance(1, 8) {
			sec = 0
		}
		e := tzext(sec)
		parts := strings.Split(e, " ")
		ext["tz"] = append(ext["tz"], strings.TrimPrefix(parts[0], "tz="))
		ext["civil"] = append(ext["civil"], strings.TrimPrefix(parts[1], "civil="))
		return fmt.Sprintf("ts2:%d:%d", sec, r.Intn(pow10[c.md]))
	case 19:
		h, m, s, fr := r.Intn(839), r.Intn(60), r.Intn(60), r.Intn(pow10[c.md])
		neg := r.Intn(2)
		if h+m+s+fr == 0 {
			neg = 0
		}
		return fmt.Sprintf("t2:%d:%d:%d:%d:%d", neg, h, m, s, fr)
	case 18:
		return fmt.Sprintf("dt2:%d:%d:%d:%d:%d:%d:%d", r.Intn(10000), r.Intn(13), r.Intn(32), r.Intn(24), r.Intn(60), r.Intn(60), r.Intn(pow10[c.md]))
	case 15, 253:
		return "s:" + hx(r.Bytes(r.Intn(min(c.md, 40)+1)))
	case 252, 255, 249, 250, 251:
		max := []int{0, 255, 600, 600, 600}[c.md]
		return "s:" + hx(r.Bytes(r.Intn(max+1)))
	}
	return "s:"
}

func leBytes(v uint64, w int) []byte {
	b := make([]byte, w)
	for i := 0; i < w; i++ {
		b[i] = byte(v >> (8 * uint(i)))
	}
	return b
}

// integer columns use "raw" bytes + a text computed here? No: the Spec must state the text. We therefore
// emit i:/u: values; rawInt rewrites the placeholder once the column's signedness is known.
func fixInt(v string, c hCol) string {
	if strings.HasPrefix(v, "jraw:") { // a JSON cell: really raw bytes
		return v[1:]
	}
	if !strings.HasPrefix(v, "raw:") {
		return v
	}
	b := unhx(v[4:])
	w := len(b)
	var raw uint64
	for i := w - 1; i >= 0; i-- {
		raw = raw<<8 | uint64(b[i])
	}
	if c.unsigned {
		return fmt.Sprintf("u:%d:%d", w, raw)
	}
	sv := int64(raw)
	if w < 8 && raw >= 1<<(8*uint(w)-1) {
		sv = int64(raw) - int64(1)<<(8*uint(w))
	}
	return fmt.Sprintf("i:%d:%d", w, sv)
}

type histOpts struct {
	maxUnits, maxStmts, maxRows, maxCols, maxTables int
	files                                           bool
	ignorable                                       bool
	allowTZ                                         bool
	casing                                          bool
}

func randName(r *RNG, n int) string {
	const cs = "abcdefghijklmnopqrstuvwxyz_0123456789"
	b := make([]byte, n)
	for i := range b {
		b[i] = cs[r.Intn(len(cs))]
	}
	return string(b)
}

func randCase(r *RNG, s string) string {
	b := []byte(s)
	for i := range b {
		if r.Bool() && b[i] >= 'a' && b[i] <= 'z' {
			b[i] -= 32
		}
	}
	return string(b)
}

var stmtCat = map[string]int{"begin": 1, "commit": 2, "rollback": 3, "insert": 4, "update": 5, "delete": 6, "create": 7, "alter": 8, "drop": 9, "truncate": 10, "rename": 11, "set": 12}

func genTables(r *RNG, o histOpts) []*hTable {
	n := r.Range(1, o.maxTables)
	var ts []*hTable
	for i := 0; i < n; i++ {
		nc := r.Range(1, o.maxCols)
		if r.Chance(1, 4) {
			nc = r.Pick(7, 8, 9, 16, 17)
			if nc > o.maxCols {
				nc = o.maxCols
			}
		}
		if o.maxCols >= 4 && r.Chance(1, 10) {
			nc = r.Range(41, 75) // a wide table: its NULL / presence bitmaps take 6..10 bytes, more than a short row image
		}
		t := &hTable{id: uint64(100 + i*7), db: "db" + randName(r, r.Intn(5)), name: "t" + strconv.Itoa(i) + "-" + randName(r, r.Intn(6))}
		if r.Chance(1, 5) {
			t.id = uint64(r.U64() & 0xffffffff) // fits both id widths
			if r.Chance(1, 3) {
				t.id = []uint64{0, 0xffffff, 0x1000000, 0xffffffff, 0xfffffffe, 0x7fffffff, 0x80000000}[r.Intn(7)]
			}
			for _, o := range ts { // ids stay distinct inside one generated set
				if o.id == t.id {
					t.id = uint64(100 + i*7)
				}
			}
		}
		for c := 0; c < nc; c++ {
			k := randColumn(r, o.allowTZ)
			t.cols = append(t.cols, hCol{typ: k.typ, md: k.md, nullable: r.Bool(), name: "c" + strconv.Itoa(c) + "-" + randName(r, r.Intn(4)),
				unsigned: r.Chance(1, 3) && (k.typ == 1 || k.typ == 2 || k.typ == 9 || k.typ == 3 || k.typ == 8)})
		}
		ts = append(ts, t)
	}
	if len(ts) >= 2 && r.Chance(1, 8) {
		// two different tables whose dotted / quoted renderings coincide: only the (database, table) PAIR identifies one
		ts[0].db, ts[0].name = "a.b", "c"
		ts[1].db, ts[1].name = "a", "b.c"
		if r.Bool() {
			ts[0].db, ts[0].name = "a`.`b", "c"
			ts[1].db, ts[1].name = "a", "b`.`c"
		}
	}
	return ts
}

func genRows(r *RNG, h *hist, o histOpts, ti int, ts uint32, announce bool) *hRows {
	t := h.tables[ti]
	kind := []string{"w", "u", "d"}[r.Intn(3)]
	nc := len(t.cols)
	minimal := r.Chance(1, 5) // binlog_row_image=MINIMAL: the key alone (before), the one or two changed columns (after)
	mk := func() []bool {
		p := make([]bool, nc)
		full := r.Chance(1, 2)
		for i := range p {
			p[i] = full || r.Chance(2, 3)
		}
		if minimal {
			for i := range p {
				p[i] = false
			}
			for k := r.Range(1, 2); k > 0; k-- {
				p[r.Intn(nc)] = true
			}
		}
		return p
	}
	c := &hRows{kind: kind, table: ti, ts: ts, flags: r.Pick(0, 1, 1, 2, 3, 4, 6, 7, 0x10, 0x1235, 0xffff), announce: announce} // STMT_END_F, NO_FOREIGN_KEY_CHECKS_F, RELAXED_UNIQUE_CHECKS_F, COMPLETE_ROWS_F and bits no server defines
	c.pb, c.pa = mk(), mk()
	if r.Chance(1, 4) {
		c.extra = r.Bytes(r.Intn(6))
	}
	if announce && r.Chance(1, 4) {
		// MySQL 8.0 / MariaDB 10.5 optional metadata after the NULL bitmap: a SIGNEDNESS field (type 1, length, one bit
		// per numeric column) with arbitrary bits, sometimes followed by a DEFAULT_CHARSET field - the replica takes
		// signedness from its table mapper, whatever these say
		nb := (nc + 7) / 8
		c.opt = append([]byte{1, byte(nb)}, r.Bytes(nb)...)
		if r.Bool() {
			c.opt = append(c.opt, 2, 1, 45)
		}
	}
	if r.Chance(1, 5) {
		c.opt = r.Bytes(r.Range(1, 12))
	}
	image := func(p []bool) []string {
		var vs []string
		for i, col := range t.cols {
			if !p[i] {
				continue
			}
			if r.Chance(1, 5) {
				vs = append(vs, "N")
				continue
			}
			vs = append(vs, fixInt(randValue(r, colKind{col.typ, col.md}, h.ext), col))
		}
		return vs
	}
	nr := r.Range(1, o.maxRows)
	if o.maxRows >= 2 && r.Chance(1, 10) {
		nr = r.Range(11, 24) // many rows in one event (per-event containers sized for a handful)
	}
	zeroWidth := func(p []bool) bool {
		for _, x := range p {
			if x {
				return false
			}
		}
		return true
	}
	// an event whose every row is zero bytes wide cannot hold rows at all (see DESIGN §3: Rows would not advance)
	if (kind == "w" && zeroWidth(c.pa)) || (kind == "d" && zeroWidth(c.pb)) || (kind == "u" && zeroWidth(c.pa) && zeroWidth(c.pb)) {
		c.pa[0], c.pb[0] = true, true
	}
	for i := 0; i < nr; i++ {
		var row [2][]string
		if kind != "w" {
			row[0] = image(c.pb)
		}
		if kind != "d" {
			row[1] = image(c.pa)
		}
		c.rows = append(c.rows, row)
	}
	return c
}

func genStmt(r *RNG, kw string, o histOpts, ts uint32) *hStmt {
	word := kw
	if o.casing {
		word = randCase(r, kw)
	}
	sql := word
	switch kw {
	case "begin", "commit", "rollback":
		if r.Chance(1, 6) {
			sql += " "
		}
	default:
		sql += " " + randName(r, r.Range(1, 12)) + " x"
	}
	s := &hStmt{sql: sql, db: randName(r, r.Intn(6)), ts: ts, cat: stmtCat[kw], charset: "N"}
	if kw == "begin" || kw == "commit" || kw == "rollback" {
		s.db = ""
	}
	// status variables in an order MySQL can emit
	if r.Chance(1, 2) && kw != "begin" && kw != "commit" && kw != "rollback" {
		if r.Chance(1, 2) {
			s.vars = append(s.vars, "0."+hx(r.Bytes(4)))
		}
		if r.Chance(1, 2) {
			s.vars = append(s.vars, "1."+hx(r.Bytes(8)))
		}
		if r.Chance(1, 2) {
			cat := r.Bytes(r.Intn(5))
			if r.Chance(1, 3) {
				// the old NUL-terminated Q_CATALOG (code 2, MySQL 5.0.0-5.0.3) in the place of code 6
				s.vars = append(s.vars, "2."+hx(append(append([]byte{byte(len(cat))}, cat...), 0)))
			} else {
				s.vars = append(s.vars, "6."+hx(append([]byte{byte(len(cat))}, cat...)))
			}
		}
		if r.Chance(1, 2) {
			s.vars = append(s.vars, "3."+hx(r.Bytes(4)))
		}
		if r.Chance(2, 3) {
			a, b, c := r.Intn(65536), r.Intn(65536), r.Intn(65536)
			s.vars = append(s.vars, "4."+hx(append(append(leBytes(uint64(a), 2), leBytes(uint64(b), 2)...), leBytes(uint64(c), 2)...)))
			s.charset = fmt.Sprintf("%d.%d.%d", a, b, c)
		}
		if r.Chance(1, 3) {
			tz := r.Bytes(r.Intn(6))
			s.vars = append(s.vars, "5."+hx(append([]byte{byte(len(tz))}, tz...)))
			s.vars = append(s.vars, fmt.Sprintf("%d.%s", r.Pick(7, 8, 10, 11, 13, 20, 21, 128, 129, 130, 131, 200, 255), hx(r.Bytes(r.Intn(9)))))
		}
	}
	// a status-variable block of 256 bytes and more (Q_UPDATED_DB_NAMES with several long schema names, an invoker, …
	// - codes this parser does not look into): its 2-byte length is needed in full to find the statement text, also
	// for BEGIN / COMMIT / ROLLBACK, which every server version sends with status variables
	if r.Chance(1, 5) {
		if (kw == "begin" || kw == "commit" || kw == "rollback") && r.Bool() {
			s.vars = append(s.vars, "0."+hx(r.Bytes(4)), "1."+hx(r.Bytes(8)))
		}
		s.vars = append(s.vars, fmt.Sprintf("%d.%s", r.Pick(7, 9, 12, 16, 20, 21, 64, 128, 129, 130, 131, 255), hx(r.Bytes(r.Pick(243, 250, 255, 256, 300, 600, 5000))))) // MySQL's codes up to 20, MariaDB's own 128..131, codes no server defines
	}
	return s
}

func genHistory(r *RNG, o histOpts, cfg string) *hist {
	h := &hist{cfg: cfg, ext: map[string][]string{}}
	h.tables = genTables(r, o)
	// table ids start over when the master restarts: some tables get a SUCCESSOR - another table (other name, other
	// columns) that is assigned the same id after the first restart; the original is then not written any more
	nBase := len(h.tables)
	succ := map[int]int{}
	restarted := false
	if o.files && r.Chance(1, 3) {
		for i := 0; i < nBase; i++ {
			if r.Bool() {
				t := h.tables[i]
				v := &hTable{id: t.id, db: t.db, name: t.name + "-ar"}
				if r.Chance(1, 4) {
					v.db, v.name = t.db+"ar", t.name
				}
				for c, nc := 0, r.Range(1, o.maxCols); c < nc; c++ {
					k := randColumn(r, o.allowTZ)
					v.cols = append(v.cols, hCol{typ: k.typ, md: k.md, nullable: r.Bool(), name: "a" + strconv.Itoa(c) + "-" + randName(r, r.Intn(4)),
						unsigned: r.Chance(1, 3) && (k.typ == 1 || k.typ == 2 || k.typ == 9 || k.typ == 3 || k.typ == 8)})
				}
				succ[i] = len(h.tables)
				h.tables = append(h.tables, v)
			}
		}
	}
	pickTable := func() int {
		ti := r.Intn(nBase)
		if v, ok := succ[ti]; ok && restarted {
			return v
		}
		return ti
	}
	if r.Chance(1, 5) {
		// binlog files beyond 2 GiB / close to the 4 GiB limit of the 32-bit next_position field
		h.bias = []int64{1<<31 - 200, 1<<31 - 20, 1 << 31, 3 << 30, 1<<32 - 1<<21, int64(r.Intn(1 << 31))}[r.Intn(6)]
	}
	h.empty = r.Chance(1, 6)
	h.pad = r.Bool()
	h.qerr = r.Chance(1, 4)
	nu := r.Range(1, o.maxUnits)
	ts := uint32(1600000000 + r.Intn(1000))
	if r.Chance(1, 6) {
		// event timestamps at the ends of the 32-bit field (0 = "no timestamp", beyond 2038)
		ts = []uint32{0, 1, 1<<31 - 60, 1 << 31, 1<<32 - 4000}[r.Intn(5)]
	}
	fileNo := 1
	for i := 0; i < nu; i++ {
		ts += uint32(r.Intn(5))
		k := r.Intn(14)
		switch {
		case k < 5: // transaction
			u := hUnit{kind: "tx", ts: ts}
			u.begin = genStmt(r, "begin", o, ts).sql
			switch r.Intn(4) {
			case 0, 1:
				u.closer = fmt.Sprintf("x%d", r.Intn(1<<30))
			case 2:
				u.closer = "c" + hx([]byte(genStmt(r, "commit", o, ts).sql))
			case 3:
				u.closer = "r" + hx([]byte(genStmt(r, "rollback", o, ts).sql))
			}
			ns := r.Range(0, o.maxStmts)
			seen := map[int]bool{}
			for j := 0; j < ns; j++ {
				if r.Chance(1, 6) {
					kw := []string{"insert", "update", "delete", "set", "create", "alter"}[r.Intn(6)]
					u.changes = append(u.changes, hChange{stmt: genStmt(r, kw, o, ts)})
					continue
				}
				ti := pickTable()
				ann := !seen[ti] || r.Chance(1, 2)
				seen[ti] = true
				cts := ts
				if r.Chance(1, 4) {
					// SET TIMESTAMP inside the transaction / a clock that stepped: a change stamped later or earlier than the
					// commit event (the transaction's own timestamp is the commit event's)
					cts = ts + uint32(r.Pick(1, 3, 60, 100000)) - uint32(r.Pick(0, 0, 2, 50))
				}
				u.changes = append(u.changes, hChange{rows: genRows(r, h, o, ti, cts, ann)})
			}
			h.units = append(h.units, u)
		case k < 7:
			kw := []string{"create", "alter", "drop", "truncate", "rename", "set"}[r.Intn(6)]
			h.units = append(h.units, hUnit{kind: "ddl", stmt: genStmt(r, kw, o, ts)})
		case k < 8:
			h.units = append(h.units, hUnit{kind: "ar", rows: genRows(r, h, o, pickTable(), ts, true)})
		case k < 9:
			kw := []string{"insert", "update", "delete"}[r.Intn(3)]
			h.units = append(h.units, hUnit{kind: "dml", stmt: genStmt(r, kw, o, ts)})
		case k < 10 && o.files:
			fileNo++
			// a real ROTATE event, or a master restart (STOP event, next file announced by an artificial rotate only)
			// (every tenth real file name ends in 0: the name is opaque, trailing characters included)
			kind := r.Pickstr("rot", "rot", "rst")
			if len(succ) > 0 && !restarted {
				kind = "rst"
			}
			restarted = restarted || kind == "rst"
			fname := fmt.Sprintf("bin.%06d", fileNo*r.Pick(1, 1, 10, 100))
			if r.Chance(1, 5) {
				// a name that sorts BELOW its predecessor as a string (mysql-bin.999999 -> mysql-bin.1000000; a changed
				// log_bin basename): names are opaque, only ROTATE events order the files
				fname = fmt.Sprintf("bim.%d", 1000000-fileNo)
			}
			h.units = append(h.units, hUnit{kind: kind, file: fname})
		case o.ignorable:
			switch r.Intn(6) {
			case 0:
				h.units = append(h.units, hUnit{kind: "gt", sid: r.Bytes(16), gno: r.U64() >> 1})
			case 1:
				h.units = append(h.units, hUnit{kind: "ag"})
			case 2:
				h.units = append(h.units, hUnit{kind: "pg", block: leBytes(0, 8)})
			case 3:
				h.units = append(h.units, hUnit{kind: "hb"})
			case 4:
				h.units = append(h.units, hUnit{kind: "ue", typ: r.Pick(3, 14, 26, 28, 36, 37, 38, 39, 40, 160, 255), body: r.Bytes(r.Intn(20))})
			case 5:
				st := genStmt(r, "begin", o, ts)
				st.sql = r.Pickstr("SAVEPOINT a", "flush tables", "GRANT x", "analyze t", "xa start 'a'", "/* begin of nightly purge */ flush tables", "/* commit plan */ analyze t", "/* rollback plan: keep */ GRANT x", "/*!40000 ALTER TABLE t DISABLE KEYS */", "-- begin", "# commit", "(begin)", "beginx", "commits", "rollbacks now", "") // unknown statements
				st.cat = 0
				h.units = append(h.units, hUnit{kind: "ust", stmt: st})
			}
		default:
			h.units = append(h.units, hUnit{kind: "ddl", stmt: genStmt(r, "create", o, ts)})
		}
	}
	if fileNo > 1 && r.Chance(1, 3) {
		h.crcmix = true // binlog_checksum was changed between files
	}
	if o.ignorable && !h.crcmix && r.Chance(1, 3) {
		addNoise(r, h) // (noise packets are built for one checksum setting: not combined with crcmix)
	}
	return h
}

// addNoise sprinkles 1..3 packets a real master may send anywhere — also between BEGIN and the commit event — and that
// the replica must ignore: heartbeats, GTID-family events, STOP, USER_VAR, XA_PREPARE, unknown type codes, and QUERY
// events whose statement the parser does not know (SAVEPOINT, FLUSH, GRANT, XA …).
func addNoise(r *RNG, h *hist) {
	if theDriver == nil {
		return
	}
	ans, err := theDriver.Ask(h.line(posStr(firstFile, 4)))
	if err != nil {
		return
	}
	nlaid := len(splitPackets(fields(ans)["packets"])) - 1
	if nlaid < 2 {
		return
	}
	crc := h.cfg[0] == '1'
	for k, n := 0, r.Range(1, 3); k < n; k++ {
		var pk []byte
		if r.Bool() {
			pk = mkEvent(byte(r.Pick(27, 33, 34, 35, 3, 14, 38, 36, 37, 39, 40, 160, 255)), r.Bytes(r.Intn(40)), crc)
		} else {
			sql := r.Pickstr("SAVEPOINT sp1", "savepoint `a`", "flush tables", "GRANT x", "analyze table t", "xa start 'a'", "", "release savepoint sp1", "/* c */ x")
			line := fmt.Sprintf("wev kind=query thread=%d exec=0 err=0 vars= db=%s sql=%s cs=N ts=%d sid=1 flags=0 start=4", r.Intn(1000), hx([]byte(randName(r, r.Intn(4)))), hx([]byte(sql)), 1600000000+r.Intn(1000))
			if crc {
				line += " crc=" + hx(r.Bytes(4))
			}
			a2, err := theDriver.Ask(line)
			if err != nil {
				continue
			}
			pk = unhx(fields(a2)["bytes"])
		}
		if len(pk) >= 19 {
			h.noise = append(h.noise, fmt.Sprintf("%d:%s", r.Intn(nlaid), hx(pk)))
		}
	}
}

func (r *RNG) Pickstr(xs ...string) string { return xs[r.Intn(len(xs))] }

// ---- running the real parser (L1) -----------------------------------------------------------------

type tblMapper struct {
	tables []*hTable
	mode   string // "" | err@i | more@i | less@i
	calls  []string
}

type hColumn struct {
	name string
	u    bool
}

func (c hColumn) Field() string       { return c.name }
func (c hColumn) IsUnSignedInt() bool { return c.u }

type hInfo struct {
	name gobinlog.MysqlTableName
	cols []gobinlog.MysqlColumn
}

func (i *hInfo) Name() gobinlog.MysqlTableName   { return i.name }
func (i *hInfo) Columns() []gobinlog.MysqlColumn { return i.cols }

func (m *tblMapper) MysqlTable(name gobinlog.MysqlTableName) (gobinlog.MysqlTable, error) {
	m.calls = append(m.calls, name.DbName+"\x00"+name.TableName) // (a dot would make "a.b"."c" and "a"."b.c" the same key)
	for i, t := range m.tables {
		if t.db == name.DbName && t.name == name.TableName {
			if m.mode == fmt.Sprintf("err@%d", i) {
				// whatever error VALUE the mapper returns - also one that means "cancelled" or "end of stream" elsewhere
				// (the mapper's own query context, its own connection) - it is a table-lookup failure of this attempt
				return nil, mapperErrs[(i+len(m.calls)+len(name.TableName))%len(mapperErrs)]
			}
			info := &hInfo{name: name}
			for _, c := range t.cols {
				info.cols = append(info.cols, hColumn{c.name, c.unsigned})
			}
			if m.mode == fmt.Sprintf("more@%d", i) {
				info.cols = append(info.cols, hColumn{"x", false})
			}
			if m.mode == fmt.Sprintf("less@%d", i) {
				info.cols = info.cols[:len(info.cols)-1]
			}
			return info, nil
		}
	}
	return nil, fmt.Errorf("unknown table %v", name)
}

var mapperErrs = []error{fmt.Errorf("mapper failure (injected)"), context.Canceled, context.DeadlineExceeded, io.EOF, io.ErrUnexpectedEOF,
	fmt.Errorf("wrapped: %w", context.Canceled)}

func showCol(c *gobinlog.ColumnData) string {
	v := "V" + hx(c.Data)
	if c.IsEmpty {
		v = "A"
		if c.Data != nil {
			v = "A!data"
		}
	} else if c.Data == nil {
		v = "N"
	}
	return fmt.Sprintf("%s:%d:%s", hx([]byte(c.Filed)), int(c.Type), v)
}

func showRowData(rs []*gobinlog.RowData) string {
	var out []string
	for _, r := range rs {
		var cs []string
		for _, c := range r.Columns {
			cs = append(cs, showCol(c))
		}
		out = append(out, strings.Join(cs, ","))
	}
	return strings.Join(out, "|")
}

func showTx(t *gobinlog.Transaction) string {
	var evs []string
	for _, e := range t.Events {
		if e == nil {
			evs = append(evs, "NIL-EVENT")
			continue
		}
		if e.Query.SQL != "" || (len(e.RowValues) == 0 && len(e.RowIdentifies) == 0 && e.Table.TableName == "") {
			cs := "N"
			if e.Query.Charset != nil {
				cs = fmt.Sprintf("%d.%d.%d", e.Query.Charset.Client, e.Query.Charset.Conn, e.Query.Charset.Server)
			}
			evs = append(evs, fmt.Sprintf("S:%d:%s:%s:%s:%d", int(e.Type), hx([]byte(e.Query.Database)), cs, hx([]byte(e.Query.SQL)), e.Timestamp))
		} else {
			evs = append(evs, fmt.Sprintf("R:%d:%s.%s:%d:V[%s]:I[%s]", int(e.Type), hx([]byte(e.Table.DbName)), hx([]byte(e.Table.TableName)),
				e.Timestamp, showRowData(e.RowValues), showRowData(e.RowIdentifies)))
		}
	}
	return fmt.Sprintf("now=%s,next=%s,ts=%d,ev=<%s>", posStr(t.NowPosition.Filename, t.NowPosition.Offset),
		posStr(t.NextPosition.Filename, t.NextPosition.Offset), t.Timestamp, strings.Join(evs, ";"))
}

// runParse feeds packets to the real parseEvents. failAt < 0: the handler accepts everything.
func runParse(h *hist, packets [][]byte, file string, off int64, failAt int, mapperMode string, cancelEnd bool, cancelOnFail ...bool) (res string, calls []string, mcalls []string) {
	m := &tblMapper{tables: h.tables, mode: mapperMode}
	s, _ := gobinlog.NewStreamer("unused", 7, m)
	packets = withQueryErrors(h, packets)
	return runParseOn(s, m, packets, file, off, failAt, cancelEnd, cancelOnFail...)
}

// runParseOn: one more attempt on an existing Streamer (its mapper m may have been given other tables meanwhile).
func runParseOn(s *gobinlog.Streamer, m *tblMapper, packets [][]byte, file string, off int64, failAt int, cancelEnd bool, cancelOnFail ...bool) (res string, calls []string, mcalls []string) {
	m.calls = nil
	s.SetBinlogPosition(gobinlog.Position{Filename: file, Offset: off})
	ch := make(chan replication.BinlogEvent)
	ctx, cancel := context.WithCancel(context.Background())
	defer cancel()
	done := make(chan struct{})
	sent := make([][]byte, len(packets)) // the buffers the events are made of (kept to see whether the parser writes to them)
	for i, p := range packets {
		sent[i] = exact(p)
	}
	go func() {
		defer close(done)
		for i := range packets {
			select {
			case ch <- replication.NewMysql56BinlogEvent(sent[i]):
			case <-ctx.Done():
				return
			}
		}
		if cancelEnd {
			cancel()
			return
		}
		close(ch)
	}()
	n := 0
	var kept []*gobinlog.Transaction
	cls := catch(func() string {
		pos, err := s.VerifParseEvents(ctx, ch, func(t *gobinlog.Transaction) error {
			calls = append(calls, showTx(t))
			kept = append(kept, t) // the documented usage: hand the transaction on and read it later
			// ... and print it, as cmd/binlogDump does: the exported readers of a delivered transaction must not
			// change it (the re-read at the end compares with the rendering taken above)
			func() {
				defer func() { recover() }()
				out, err := json.Marshal(t)
				if err != nil {
					return
				}
				// "NULL, empty and absent differ" also in the library's own rendering of what it delivered: a present
				// value - the empty string included - is a JSON string, NULL and absent are null
				if bad := jsonNullness(t, out); bad != "" && len(calls) > 0 {
					calls[len(calls)-1] += "!json-rendering:" + bad
				}
			}()
			n++
			if failAt >= 0 && n-1 == failAt {
				if len(cancelOnFail) > 0 && cancelOnFail[0] {
					cancel() // the handler gives up because the caller is shutting down: still a failed call
				}
				return fmt.Errorf("handler failure (injected)")
			}
			return nil
		})
		c := "nil"
		if err != nil {
			c = "err"
		}
		return c + "@" + posStr(pos.Filename, pos.Offset)
	})
	cancel()
	<-done
	if cls == "panic" {
		cls = "crash@?"
	}
	// the events are the reader's buffers: the parser must leave them as received (a decoder that works in place on a
	// row image changes what a second decode of the same event gives)
	for i, p := range packets {
		if hx(sent[i]) != hx(p) && len(calls) > 0 {
			calls[len(calls)-1] += fmt.Sprintf("!event-%d-bytes-changed-by-the-parser", i)
			break
		}
	}
	// a transaction handed to the handler must read the same after the parse went on (no change moved into or out
	// of it afterwards)
	for i, t := range kept {
		if i < len(calls) && showTx(t) != calls[i] {
			calls[i] += "!changed-after-delivery:" + clip(showTx(t), 200)
		}
	}
	return cls + "#" + strings.Join(calls, "&"), calls, m.calls
}

// withQueryErrors sets the error_code field of every QUERY event (post-header bytes 9..10) to a server error number.
func withQueryErrors(h *hist, packets [][]byte) [][]byte {
	if h == nil || !h.qerr || len(h.tables) == 0 {
		return packets
	}
	// (the same histories also carry another server version string in their FORMAT_DESCRIPTION events - a MariaDB or an
	// old / new MySQL master: the 50-byte field is informational, nothing the replica decodes may depend on it)
	svs := []string{"5.5.68-MariaDB", "10.4.1-MariaDB-log", "8.0.36", "5.1.73-community", "5.6.0", "5.6.1", "4.1.1-alpha", "11.5.2-MariaDB", ""}
	sv := svs[len(h.tables[0].name)%len(svs)]
	for _, p := range packets {
		if len(p) >= 19+2+50 && p[4] == 15 {
			for k := 0; k < 50; k++ {
				p[19+2+k] = 0
			}
			copy(p[19+2:19+2+50], sv)
		}
	}
	codes := []uint16{1051, 1317, 1062, 1, 65535}
	for i, p := range packets {
		if len(p) >= 19+13 && p[4] == 2 {
			c := codes[i%len(codes)]
			p[19+9], p[19+10] = byte(c), byte(c>>8)
		}
	}
	return packets
}

// jsonNullness compares, column by column, whether the marshalled "data" is null with whether the delivered value is
// NULL / absent; "" when they agree.
func jsonNullness(t *gobinlog.Transaction, out []byte) string {
	var doc struct {
		Events []struct {
			RowValues, RowIdentifies []struct {
				Columns []struct {
					Data *string `json:"data"`
				} `json:"columns"`
			}
		} `json:"events"`
	}
	if json.Unmarshal(out, &doc) != nil || len(doc.Events) != len(t.Events) {
		return ""
	}
	for i, e := range t.Events {
		for side, rows := range [][]*gobinlog.RowData{e.RowValues, e.RowIdentifies} {
			jr := doc.Events[i].RowValues
			if side == 1 {
				jr = doc.Events[i].RowIdentifies
			}
			if len(jr) != len(rows) {
				continue
			}
			for r, row := range rows {
				if len(jr[r].Columns) != len(row.Columns) {
					continue
				}
				for c, cd := range row.Columns {
					isNull := jr[r].Columns[c].Data == nil
					if isNull != (cd.Data == nil) {
						return fmt.Sprintf("event %d row %d column %q: delivered value nil=%v, rendered as null=%v", i, r, cd.Filed, cd.Data == nil, isNull)
					}
				}
			}
		}
	}
	return ""
}

// bulkHistory: a bulk load - ONE transaction of n rows events behind a single TABLE_MAP (LOAD DATA, a dump restore, a
// large multi-row INSERT split by the master into 8 KiB events), between two small transactions. Nothing about a
// transaction may depend on how many events it holds.
func bulkHistory(r *RNG, cfg string, n int) *hist {
	h := &hist{cfg: cfg, ext: map[string][]string{}}
	h.tables = []*hTable{{id: 42, db: "d", name: "bulk", cols: []hCol{{typ: 3, nullable: true, name: "a"}, {typ: 15, md: 20, nullable: true, name: "s"}}}}
	one := func(ts uint32, k int, ann bool) *hRows {
		return &hRows{kind: "w", table: 0, ts: ts, flags: k % 2, announce: ann, pb: []bool{true, true}, pa: []bool{true, true},
			rows: [][2][]string{{nil, {fmt.Sprintf("i:4:%d", k), "s:" + hx([]byte(fmt.Sprintf("r%d", k)))}}}}
	}
	ts := uint32(1600000000)
	h.units = append(h.units, hUnit{kind: "tx", ts: ts, begin: "BEGIN", closer: "x1", changes: []hChange{{rows: one(ts, -1, true)}}})
	big := hUnit{kind: "tx", ts: ts + 1, begin: "BEGIN", closer: "x2"}
	for k := 0; k < n; k++ {
		big.changes = append(big.changes, hChange{rows: one(ts+1, k, k == 0)})
	}
	h.units = append(h.units, big)
	h.units = append(h.units, hUnit{kind: "tx", ts: ts + 2, begin: "BEGIN", closer: "x3", changes: []hChange{{rows: one(ts+2, -2, true)}}})
	return h
}

func splitPackets(s string) [][]byte {
	if s == "" {
		return nil
	}
	var out [][]byte
	for _, p := range strings.Split(s, ",") {
		out = append(out, unhx(p))
	}
	return out
}

// normCrash makes a crashing model outcome comparable: only the class is kept.
func normCrash(s string) string {
	if strings.HasPrefix(s, "crash@") {
		return "crash"
	}
	return s
}

// histCase: one history from one start position, handler accepting everything (C01 oracle).
func histCase(h *hist, file string, off int64, class string, nontrivial bool, extra string) Case {
	line := h.line(posStr(file, off), extra)
	return Case{Line: line, Class: class, Nontrivial: nontrivial, Run: func(resp map[string]string) Outcome {
		packets := splitPackets(resp["packets"])
		impl, calls, _ := runParse(h, packets, file, off, -1, "", false)
		model := resp["model"]
		o := Outcome{Impl: normCrash(impl), Model: normCrash(model), Spec: resp["spec"], OracleOK: true}
		o.CorrOK = o.Impl == o.Model
		want := "nil@" + resp["endpos"] + "#" + resp["spec"]
		if impl != want {
			o.OracleOK = false
			o.Note = firstDiff(calls, strings.Split(resp["spec"], "&"), impl, want)
			o.FindingKey = "fidelity"
		}
		return o
	}}
}

func firstDiff(got, want []string, impl, wantAll string) string {
	if len(want) == 1 && want[0] == "" {
		want = nil
	}
	for i := 0; i < len(got) && i < len(want); i++ {
		if got[i] != want[i] {
			return fmt.Sprintf("delivered transaction %d differs from the binlog: got %s want %s", i, clip(got[i], 300), clip(want[i], 300))
		}
	}
	if len(got) != len(want) {
		return fmt.Sprintf("handler received %d transactions, the binlog commits %d", len(got), len(want))
	}
	return "end state differs: got " + clip(impl[:strings.IndexByte(impl, '#')], 80) + " want " + clip(wantAll[:strings.IndexByte(wantAll, '#')], 80)
}

// collectTx runs the real parser and keeps the delivered transactions themselves.
func collectTx(h *hist, packets [][]byte) []*gobinlog.Transaction {
	m := &tblMapper{tables: h.tables}
	s, _ := gobinlog.NewStreamer("unused", 7, m)
	s.SetBinlogPosition(gobinlog.Position{Filename: firstFile, Offset: 4})
	ch := make(chan replication.BinlogEvent, len(packets))
	for _, p := range packets {
		ch <- replication.NewMysql56BinlogEvent(exact(p))
	}
	close(ch)
	var out []*gobinlog.Transaction
	func() {
		defer func() { recover() }()
		s.VerifParseEvents(context.Background(), ch, func(t *gobinlog.Transaction) error {
			out = append(out, t)
			return nil
		})
	}()
	return out
}
