// vh: Tie B of /verif/DESIGN.md — the correspondence harness. It generates cases
// from one SplitMix64 stream, asks the compiled Lean driver for the bytes (Spec
// writers), the model's answer and the Spec's expected value, runs the real
// gobinlog code in-process on the same bytes, and compares:
//
//	impl  vs model  -> correspondence (is the model the code?)
//	impl  vs spec   -> the property oracle (does the code satisfy the property?)
//
// Verdict protocol: DESIGN §5.
package main

import (
	"encoding/json"
	"flag"
	"fmt"
	"os"
	"path/filepath"
	"runtime"
	"sort"
	"strconv"
	"strings"
	"sync"
	"time"
)

func verifRoot() string {
	if p := os.Getenv("VERIF_ROOT"); p != "" {
		return p
	}
	return "/verif"
}

// Case is one generated case.
type Case struct {
	Line       string // sent to the Lean driver ("" = no driver involvement)
	Class      string // distribution bucket
	Nontrivial bool   // by the property's stated rule
	// Run executes the implementation given the driver's answer.
	Run func(resp map[string]string) Outcome
}

// Outcome of one case.
type Outcome struct {
	Impl       string // canonical implementation output
	Model      string // canonical model output ("" = no model column)
	Spec       string // expected by the Spec ("" = none)
	CorrOK     bool   // impl == model
	OracleOK   bool   // property holds on impl's output
	Note       string // what failed
	Skipped    bool   // not executed (e.g. model says the Go loop would not terminate)
	FindingKey string // canonical witness key, matched against known_findings.json
}

// Property is the per-property plug-in.
type Property struct {
	ID     string
	Rule   string // how cases are generated and what makes one non-trivial
	Gen    func(r *RNG, tier string) []Case
	Replay func(line string) []Case // rebuild a case from a replay line
	Cold   func(c *Collector)       // runs first, before anything else touched the library in this process (first-use behaviour)
	// Chunks, when set, replaces Gen for the thorough tier: generators run one after the other so that an
	// exhaustive domain never sits in memory at once.
	Chunks func(r *RNG, tier string) []func() []Case
	// Extra runs non-case-based checks (stream-level scenarios); it reports through the collector.
	Extra func(c *Collector, r *RNG, tier string)
}

var registry = map[string]*Property{}

func register(p *Property) { registry[p.ID] = p }

// Collector accumulates results.
type Collector struct {
	mu           sync.Mutex
	prop         string
	evaluations  int
	nontrivial   map[uint64]struct{}
	dist         map[string]int
	samples      []interface{}
	corrFail     []Failure
	oracleFail   []Failure
	skipped      int
	knownHits    map[string]int
	extraCounts  map[string]int
	implPanics   int
	traceChecked int
}

type Failure struct {
	Line  string `json:"case"`
	Impl  string `json:"impl"`
	Model string `json:"model,omitempty"`
	Spec  string `json:"spec,omitempty"`
	Note  string `json:"note"`
	Key   string `json:"key,omitempty"`
}

func NewCollector(prop string) *Collector {
	return &Collector{prop: prop, nontrivial: map[uint64]struct{}{}, dist: map[string]int{}, knownHits: map[string]int{}, extraCounts: map[string]int{}}
}

// hashLine: 64-bit FNV-1a with a final mix (distinct-input counting only; 35M entries must fit in memory)
func hashLine(s string) uint64 {
	h := uint64(14695981039346656037)
	for i := 0; i < len(s); i++ {
		h ^= uint64(s[i])
		h *= 1099511628211
	}
	h ^= h >> 32
	h *= 0x9e3779b97f4a7c15
	return h ^ h>>29
}

func (c *Collector) Add(cs *Case, o Outcome) {
	c.mu.Lock()
	defer c.mu.Unlock()
	c.evaluations++
	c.dist[cs.Class]++
	if o.Skipped {
		c.skipped++
		return
	}
	if cs.Nontrivial {
		c.nontrivial[hashLine(cs.Line)] = struct{}{}
	}
	if len(c.samples) < 6 && (c.evaluations%97 == 1 || len(c.samples) == 0) {
		c.samples = append(c.samples, map[string]string{"case": clip(cs.Line, 400), "impl": clip(o.Impl, 300), "model": clip(o.Model, 300), "spec": clip(o.Spec, 300)})
	}
	if !o.OracleOK {
		c.oracleFail = append(c.oracleFail, Failure{cs.Line, o.Impl, o.Model, o.Spec, o.Note, o.FindingKey})
	} else if !o.CorrOK {
		c.corrFail = append(c.corrFail, Failure{cs.Line, o.Impl, o.Model, o.Spec, o.Note, o.FindingKey})
	}
}

// AddScenario records a scenario-style evaluation (stream level).
func (c *Collector) AddScenario(class, desc string, nontrivial bool, ok bool, corrOK bool, note, key string, impl, model string) {
	cs := &Case{Line: desc, Class: class, Nontrivial: nontrivial}
	c.Add(cs, Outcome{Impl: impl, Model: model, CorrOK: corrOK, OracleOK: ok, Note: note, FindingKey: key})
}

func clip(s string, n int) string {
	if len(s) > n {
		return s[:n] + "…"
	}
	return s
}

// ---- known findings ----------------------------------------------------------

type Finding struct {
	ID       string `json:"id"`
	Property string `json:"property"`
	Status   string `json:"status"` // "known" | "fixed"
	What     string `json:"what"`
	Match    string `json:"match"` // substring of the failure's witness key
	Commit   string `json:"commit,omitempty"`
}

func loadFindings() []Finding {
	var fs []Finding
	b, err := os.ReadFile(filepath.Join(verifRoot(), "known_findings.json"))
	if err != nil {
		return nil
	}
	if err := json.Unmarshal(b, &fs); err != nil {
		fmt.Fprintf(os.Stderr, "vh: known_findings.json: %v\n", err)
	}
	return fs
}

// ---- running -----------------------------------------------------------------

func runCases(col *Collector, drv *Driver, cases []Case) {
	// 1. driver answers (batched, in order)
	var lines []string
	var idx []int
	for i := range cases {
		if cases[i].Line != "" && cases[i].Run != nil {
			lines = append(lines, cases[i].Line)
			idx = append(idx, i)
		}
	}
	resps := make([]map[string]string, len(cases))
	if d := os.Getenv("VERIF_DUMP_LINES"); d != "" {
		if f, err := os.OpenFile(d, os.O_APPEND|os.O_CREATE|os.O_WRONLY, 0o644); err == nil {
			for _, l := range lines {
				f.WriteString(l + "\n")
			}
			f.Close()
		}
		return
	}
	if len(lines) > 0 {
		out, err := drv.Batch(lines)
		if err != nil {
			fmt.Fprintf(os.Stderr, "vh: driver failed: %v\n", err)
			os.Exit(3)
		}
		for k, i := range idx {
			resps[i] = fields(out[k])
			if strings.HasPrefix(out[k], "bad-") {
				fmt.Fprintf(os.Stderr, "vh: driver rejected case %q: %s\n", cases[i].Line, out[k])
				os.Exit(3)
			}
		}
	}
	// 2. implementation, in parallel
	workers := runtime.NumCPU()
	if journalPath != "" {
		workers = 1
	}
	var wg sync.WaitGroup
	ch := make(chan int, 1024)
	for w := 0; w < workers; w++ {
		wg.Add(1)
		go func() {
			defer wg.Done()
			for i := range ch {
				cs := &cases[i]
				if cs.Run == nil {
					continue
				}
				o := safeRun(cs, resps[i])
				col.Add(cs, o)
			}
		}()
	}
	for i := range cases {
		ch <- i
	}
	close(ch)
	wg.Wait()
}

// ---- watchdog: an implementation call that does not return, or that allocates without bound, must end the run with
// a verdict (Go cannot interrupt a goroutine): the case is recorded as an oracle failure and the process exits.
var (
	wdMu      sync.Mutex
	wdRunning = map[*Case]time.Time{}
	wdFire    func(cs *Case, why string)
)

const (
	wdCaseLimit = 60 * time.Second
	wdHeapLimit = 14 << 30
)

func startWatchdog(fire func(cs *Case, why string)) {
	wdFire = fire
	go func() {
		var ms runtime.MemStats
		for tick := 0; ; tick++ {
			time.Sleep(250 * time.Millisecond)
			var oldest *Case
			var since time.Time
			wdMu.Lock()
			for c, t := range wdRunning {
				if oldest == nil || t.Before(since) {
					oldest, since = c, t
				}
			}
			wdMu.Unlock()
			if oldest == nil {
				continue
			}
			if time.Since(since) > wdCaseLimit {
				wdFire(oldest, fmt.Sprintf("the implementation did not return within %s on this input", wdCaseLimit))
			}
			if tick%4 == 0 {
				runtime.ReadMemStats(&ms)
				if ms.HeapAlloc > wdHeapLimit {
					wdFire(oldest, fmt.Sprintf("the process heap grew beyond %d GiB while the implementation was working on this input (longest-running case)", wdHeapLimit>>30))
				}
			}
		}
	}()
}

// journal mode (VERIF_JOURNAL=<file>, set by ./check after a run died of a fatal runtime error such as a stack
// overflow, which no recover can catch): one worker, and the input about to be handed to the implementation is
// written to the file first, so that the file names the input the process died on.
var journalPath = os.Getenv("VERIF_JOURNAL")

func journal(line string) {
	if journalPath != "" {
		os.WriteFile(journalPath, []byte(line), 0o644)
	}
}

func safeRun(cs *Case, resp map[string]string) (o Outcome) {
	journal(cs.Line)
	wdMu.Lock()
	wdRunning[cs] = time.Now()
	wdMu.Unlock()
	defer func() {
		wdMu.Lock()
		delete(wdRunning, cs)
		wdMu.Unlock()
	}()
	defer func() {
		if r := recover(); r != nil {
			o = Outcome{Impl: "harness-panic:" + fmt.Sprint(r), OracleOK: false, Note: "harness panic (a bug in the harness or an unrecovered panic in the implementation)"}
		}
	}()
	return cs.Run(resp)
}

// catch runs f and maps a Go panic to "panic".
func catch(f func() string) (s string) {
	defer func() {
		if r := recover(); r != nil {
			s = "panic"
		}
	}()
	return f()
}

// ---- evidence ------------------------------------------------------------------

type proofInfo struct {
	Obligations int      `json:"obligations"`
	Discharged  int      `json:"discharged"`
	Theorems    []string `json:"theorems"`
	Axioms      []string `json:"axioms"`
	CheckerCmd  string   `json:"checker_cmd"`
	Broken      string   `json:"broken"` // "" = proofs, audit and Tie A all fine
	BrokenWhat  string   `json:"broken_what"`
	Pins        int      `json:"pins"`
	LeanChecker string   `json:"leanchecker,omitempty"`
}

func loadProof(prop string) proofInfo {
	var p proofInfo
	b, err := os.ReadFile(filepath.Join(verifRoot(), ".state", prop+".proof.json"))
	if err != nil {
		p.Broken = "no proof state file (run through ./check)"
		return p
	}
	json.Unmarshal(b, &p)
	return p
}

func main() {
	tier := flag.String("tier", "quick", "quick|thorough")
	seedF := flag.Int64("seed", -1, "seed (default: VERIF_SEED or 1)")
	replay := flag.String("replay", "", "replay file")
	raceOnly := flag.Bool("raceonly", false, "run only the stream-level scenarios (used by the -race build); no verdict")
	coldOnly := flag.Bool("coldonly", false, "run only the property's first-use scenario in this fresh process and print its outcome (no driver, no verdict)")
	flag.Parse()
	if flag.NArg() < 1 {
		fmt.Fprintln(os.Stderr, "usage: vh [-tier quick|thorough] [-seed N] [-replay file] <property>")
		os.Exit(2)
	}
	prop := flag.Arg(0)
	p := registry[prop]
	if p == nil {
		fmt.Fprintf(os.Stderr, "vh: unknown property %s\n", prop)
		os.Exit(2)
	}
	seed := int64(1)
	if s := os.Getenv("VERIF_SEED"); s != "" {
		if v, err := strconv.ParseInt(s, 10, 64); err == nil {
			seed = v
		}
	}
	if *seedF >= 0 {
		seed = *seedF
	}
	if *coldOnly {
		col := NewCollector(prop)
		if p.Cold != nil {
			p.Cold(col)
		}
		if len(col.oracleFail) > 0 {
			fmt.Printf("COLD-FAIL %s\n", col.oracleFail[0].Note)
		} else {
			fmt.Println("COLD-OK")
		}
		return
	}
	// the process runs in a zone WITH daylight saving (TIMESTAMP texts are local civil time at the INSTANT of the value,
	// not at the moment of decoding); the zone-dependent expectations are computed from the time package for time.Local
	if prop != "C12" {
		if loc, err := time.LoadLocation("America/New_York"); err == nil {
			time.Local = loc
		}
	}
	start := time.Now()
	drv, err := StartDriver()
	if err != nil {
		fmt.Fprintf(os.Stderr, "vh: cannot start the Lean driver: %v\n", err)
		os.Exit(3)
	}
	defer drv.Close()
	theDriver = drv
	col := NewCollector(prop)
	rng := NewRNG(uint64(seed))
	proof := loadProof(prop)

	if *replay != "" {
		doReplay(p, col, drv, *replay)
		return
	}

	if *raceOnly {
		if p.Extra != nil {
			p.Extra(col, rng, "quick")
		}
		fmt.Printf("raceonly: %d scenarios executed under the race detector\n", col.evaluations)
		return
	}
	var fired sync.Once
	startWatchdog(func(cs *Case, why string) {
		fired.Do(func() {
			col.mu.Lock()
			col.oracleFail = append(col.oracleFail, Failure{Line: cs.Line, Impl: "runaway", Note: why, Key: "runaway"})
			col.mu.Unlock()
			os.Exit(verdict(p, col, proof, *tier, seed, time.Since(start).Seconds()))
		})
	})
	// race reports collected by ./check from the -race build (thorough tier)
	addRaceReports(p, col)
	// first use of the library in this process (lazily built tables, sync.Once-less initialisation), under concurrency
	if p.Cold != nil {
		p.Cold(col)
	}
	// corpus first (minimised past failures), then generated cases
	runCorpus(p, col, drv)
	effTier := *tier
	searchSeeds := 1
	if proof.Broken != "" {
		// DESIGN §5: a broken proof / tie triggers a search for a failing input: the quick generators are re-run
		// under several seeds (the thorough tier's exhaustive domains are too slow to be a per-change reaction)
		searchSeeds = 4
	}
	for k := 0; k < searchSeeds; k++ {
		r := rng
		if k > 0 {
			r = NewRNG(uint64(seed) + uint64(k)*7919)
		}
		if p.Chunks != nil && effTier == "thorough" {
			for _, ch := range p.Chunks(r, effTier) {
				runCases(col, drv, ch())
			}
		} else if p.Gen != nil {
			runCases(col, drv, p.Gen(r, effTier))
		}
		if p.Extra != nil {
			p.Extra(col, r, effTier)
		}
		if len(col.oracleFail) > 0 {
			break
		}
	}
	wall := time.Since(start).Seconds()
	os.Exit(verdict(p, col, proof, *tier, seed, wall))
}

var theDriver *Driver

func runCorpus(p *Property, col *Collector, drv *Driver) {
	if p.Replay == nil {
		return
	}
	files, _ := filepath.Glob(filepath.Join(verifRoot(), "corpus", p.ID, "*.case"))
	sort.Strings(files)
	for _, f := range files {
		b, err := os.ReadFile(f)
		if err != nil {
			continue
		}
		for _, l := range strings.Split(string(b), "\n") {
			l = strings.TrimSpace(l)
			if l == "" || strings.HasPrefix(l, "#") {
				continue
			}
			cs := p.Replay(l)
			for i := range cs {
				cs[i].Class = "corpus"
			}
			runCases(col, drv, cs)
		}
	}
}

func doReplay(p *Property, col *Collector, drv *Driver, path string) {
	b, err := os.ReadFile(path)
	if err != nil {
		fmt.Fprintln(os.Stderr, err)
		os.Exit(2)
	}
	var rf struct {
		Case string `json:"case"`
	}
	line := ""
	if json.Unmarshal(b, &rf) == nil && rf.Case != "" {
		line = rf.Case
	} else {
		line = strings.TrimSpace(string(b))
	}
	if p.Replay == nil {
		fmt.Println("replay: property has no case-level replay; the file describes the scenario:")
		fmt.Println(string(b))
		return
	}
	for _, cs := range p.Replay(line) {
		resp := map[string]string{}
		if cs.Line != "" {
			s, _ := drv.Ask(cs.Line)
			resp = fields(s)
		}
		o := safeRun(&cs, resp)
		fmt.Printf("case : %s\nimpl : %s\nmodel: %s\nspec : %s\ncorr=%v oracle=%v %s\n", cs.Line, o.Impl, o.Model, o.Spec, o.CorrOK, o.OracleOK, o.Note)
		if !o.OracleOK || !o.CorrOK {
			defer os.Exit(1)
		}
	}
}

func writeReplay(prop string, seed int64, tag string, f interface{}) string {
	dir := filepath.Join(verifRoot(), "replays")
	os.MkdirAll(dir, 0o755)
	path := filepath.Join(dir, fmt.Sprintf("%s-%d-%s.case", prop, seed, tag))
	b, _ := json.MarshalIndent(f, "", " ")
	os.WriteFile(path, b, 0o644)
	return path
}

func verdict(p *Property, col *Collector, proof proofInfo, tier string, seed int64, wall float64) int {
	findings := loadFindings()
	exit := 0
	violations := 0
	// 1. oracle failures: real violations unless they match a known finding
	var unlisted []Failure
	for _, f := range col.oracleFail {
		matched := false
		for _, kf := range findings {
			if kf.Property == p.ID && kf.Status == "known" && kf.Match != "" && strings.Contains(f.Key, kf.Match) {
				col.knownHits[kf.ID+": "+kf.What]++
				matched = true
				break
			}
		}
		if !matched {
			unlisted = append(unlisted, f)
		}
	}
	hits := make([]string, 0, len(col.knownHits))
	for k := range col.knownHits {
		hits = append(hits, k)
	}
	sort.Strings(hits)
	for _, k := range hits {
		fmt.Printf("KNOWN-FINDING: property=%s %s (%d occurrences this run)\n", p.ID, k, col.knownHits[k])
	}
	if len(unlisted) > 0 {
		f := shortest(unlisted)
		path := writeReplay(p.ID, seed, "oracle", map[string]interface{}{"property": p.ID, "kind": "property oracle failed on the implementation's output",
			"case": f.Line, "impl": f.Impl, "model": f.Model, "spec": f.Spec, "note": f.Note, "failures_this_run": len(unlisted)})
		fmt.Printf("VIOLATION property=%s replay=%s\n", p.ID, path)
		violations += len(unlisted)
		exit = 1
	}
	// 2. correspondence / proof / tie broken while the oracle held
	if exit == 0 && (len(col.corrFail) > 0 || proof.Broken != "") {
		what := proof.Broken
		detail := map[string]interface{}{"property": p.ID, "kind": "the property is no longer shown to hold", "searched": fmt.Sprintf("%d cases under the property oracle (thorough budget), none failed", col.evaluations)}
		if proof.Broken != "" {
			detail["broken"] = proof.Broken
			detail["broken_what"] = proof.BrokenWhat
		}
		if len(col.corrFail) > 0 {
			f := shortest(col.corrFail)
			detail["correspondence"] = fmt.Sprintf("implementation and Lean model differ on %d cases (stream %s)", len(col.corrFail), p.ID)
			detail["case"] = f.Line
			detail["impl"] = f.Impl
			detail["model"] = f.Model
			detail["note"] = f.Note
			if what == "" {
				what = "correspondence"
			}
		}
		path := writeReplay(p.ID, seed, "unshown", detail)
		fmt.Printf("VIOLATION property=%s replay=%s no-failing-input-found\n", p.ID, path)
		violations++
		exit = 1
	}
	writeEvidence(p, col, proof, tier, seed, wall, violations)
	if exit == 0 {
		fmt.Printf("OK property=%s tier=%s seed=%d evaluations=%d distinct_nontrivial=%d theorems=%d wall=%.1fs\n",
			p.ID, tier, seed, col.evaluations, len(col.nontrivial), proof.Discharged, wall)
	}
	return exit
}

func shortest(fs []Failure) Failure {
	best := fs[0]
	for _, f := range fs {
		if len(f.Line) < len(best.Line) {
			best = f
		}
	}
	return best
}

func writeEvidence(p *Property, col *Collector, proof proofInfo, tier string, seed int64, wall float64, violations int) {
	trusted := []string{
		"Lean 4.33.0 kernel; axioms per theorem as listed under 'axioms' (audited subset of propext, Classical.choice, Quot.sound)",
		"hand-written Lean model's faithfulness to /repo: sampled by this run's correspondence column, pinned by the extracted facts (Tie A)",
		"Spec writers as a rendering of MySQL's wire formats (checked against captured vectors)",
		"Go runtime, strconv, time/tzdata, encoding/json, fmt; driver Breeze0806/mysql beyond its contract",
	}
	cov := map[string]interface{}{
		"obligations":                   proof.Obligations,
		"discharged":                    proof.Discharged,
		"checker_cmd":                   proof.CheckerCmd,
		"trusted_base":                  trusted,
		"theorems":                      proof.Theorems,
		"axioms":                        proof.Axioms,
		"facts_pinned":                  proof.Pins,
		"evaluations":                   col.evaluations,
		"distinct_nontrivial":           len(col.nontrivial),
		"rule":                          p.Rule,
		"samples":                       col.samples,
		"distribution":                  col.dist,
		"skipped_model_diverges":        col.skipped,
		"correspondence_mismatch":       len(col.corrFail),
		"oracle_failures":               len(col.oracleFail),
		"known_finding_hits":            col.knownHits,
		"scenario_counts":               col.extraCounts,
		"traces_validated_against_impl": col.evaluations - col.skipped,
	}
	if proof.Discharged == 0 {
		// a run whose proofs did not check claims no discharged obligation
		delete(cov, "obligations")
		delete(cov, "discharged")
		cov["obligations_total"] = proof.Obligations
	}
	if proof.LeanChecker != "" {
		cov["leanchecker"] = proof.LeanChecker
	}
	if proof.Broken != "" {
		cov["proof_or_tie_broken"] = proof.Broken + ": " + proof.BrokenWhat
	}
	if len(col.samples) == 0 {
		cov["samples"] = []interface{}{"(no case-level samples: see theorems)"}
	}
	ev := map[string]interface{}{
		"property_id": p.ID,
		"tier":        tier,
		"seed":        seed,
		"level":       "proof",
		"coverage":    cov,
		"assumptions": []string{
			"theorems are about the Lean model; the model is tied to the code by regenerated facts and by the differential run described in coverage",
		},
		"wall_s":     wall,
		"violations": violations,
	}
	dir := filepath.Join(verifRoot(), "evidence")
	os.MkdirAll(dir, 0o755)
	b, _ := json.MarshalIndent(ev, "", " ")
	os.WriteFile(filepath.Join(dir, p.ID+".json"), b, 0o644)
}

// addRaceReports turns the data races the -race build reported (parsed by ./check into .state/<id>.race.json)
// into failures of the data-race clause; each is keyed by its pair of racing library frames.
func addRaceReports(p *Property, col *Collector) {
	b, err := os.ReadFile(filepath.Join(verifRoot(), ".state", p.ID+".race.json"))
	if err != nil {
		return
	}
	var rr struct {
		Scenarios int            `json:"scenarios"`
		Races     map[string]int `json:"races"`
	}
	if json.Unmarshal(b, &rr) != nil {
		return
	}
	col.mu.Lock()
	col.extraCounts["race-detector-scenarios"] = rr.Scenarios
	col.mu.Unlock()
	for k, n := range rr.Races {
		col.AddScenario("race-detector", fmt.Sprintf("data race reported %d times: %s", n, k), true, false, true,
			"the race detector reported a data race between "+k, "race:frames=["+k+"]", k, "")
	}
	os.Remove(filepath.Join(verifRoot(), ".state", p.ID+".race.json"))
}
