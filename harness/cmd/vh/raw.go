package main

import (
	"encoding/binary"
	"fmt"
	"strings"

	"github.com/Breeze0806/gobinlog/replication"
)

// hdrAccess is the part of the event the exported interface does not show.
type hdrAccess interface {
	Type() byte
	Flags() uint16
	ServerID() uint32
	Length() uint32
}

func implHeader(b []byte) string {
	return catch(func() string {
		ev := replication.NewMysql56BinlogEvent(b)
		h, ok := ev.(hdrAccess)
		if !ok {
			return "no-accessors"
		}
		return fmt.Sprintf("ok:%d,%d,%d,%d,%d,%d", ev.Timestamp(), h.Type(), h.ServerID(), h.Length(), ev.NextPosition(), h.Flags())
	})
}

func isValidCase(b []byte, class string) Case {
	return Case{Line: "isvalid b=" + hx(b), Class: class, Nontrivial: len(b) >= 13, Run: func(resp map[string]string) Outcome {
		d := exact(b)
		impl := catch(func() string {
			if replication.NewMysql56BinlogEvent(d).IsValid() {
				return "1"
			}
			return "0"
		})
		o := Outcome{Impl: impl, Model: resp["model"], CorrOK: impl == resp["model"], OracleOK: true}
		want := "0"
		if len(b) >= 19 && int(binary.LittleEndian.Uint32(b[9:13])) == len(b) {
			want = "1"
		}
		o.Spec = want
		if impl != want {
			o.OracleOK = false
			o.Note = "IsValid does not accept exactly the full-header, self-consistent buffers"
			o.FindingKey = "isvalid"
		}
		if impl == "1" {
			if h := implHeader(d); !strings.HasPrefix(h, "ok:") {
				o.OracleOK = false
				o.Note = "header accessor failed on an accepted buffer: " + h
				o.FindingKey = "accessor-on-valid"
			}
		}
		return o
	}}
}

func hdrCase(b []byte, class string) Case {
	return Case{Line: "hdr b=" + hx(b), Class: class, Nontrivial: len(b) >= 19, Run: func(resp map[string]string) Outcome {
		impl := implHeader(exact(b))
		return Outcome{Impl: impl, Model: resp["model"], CorrOK: impl == resp["model"], OracleOK: true}
	}}
}

func putLen(b []byte, n uint32) {
	if len(b) >= 13 {
		binary.LittleEndian.PutUint32(b[9:13], n)
	}
}

func genC17pure(r *RNG, tier string) []Case {
	var cs []Case
	n := 1
	if tier == "thorough" {
		n = 20
	}
	for rep := 0; rep < n; rep++ {
		for l := 0; l <= 64; l++ {
			base := r.Bytes(l)
			variants := map[string]uint32{"len=len": uint32(l), "len=len+1": uint32(l + 1), "len=len-1": uint32(l - 1), "len=0": 0,
				"len=huge": 0xffffffff, "len=18": 18, "len=19": 19, "len=len+2^16": uint32(l + 65536), "len=len+2^24": uint32(l + 1<<24)}
			for name, v := range variants {
				b := append([]byte(nil), base...)
				putLen(b, v)
				cs = append(cs, isValidCase(b, "structured-"+name))
				if l >= 19 {
					cs = append(cs, hdrCase(b, "accessors"))
				}
			}
			cs = append(cs, isValidCase(base, "random"))
		}
	}
	// the gate looks at the buffer length and the length field ONLY: well-formed buffers (length field = length) whose
	// OTHER header fields are at the ends of their domains - timestamp, type code, server id, next_position (0: an
	// artificial event; 1..3: a file grown past 4 GiB, the 32-bit field wrapped; 2^32-1), flags - must be accepted
	for _, l := range []int{19, 20, 23, 27, 64, 300} {
		for field := 0; field < 6; field++ {
			for _, v := range []uint32{0, 1, 2, 3, 4, 18, 19, 0x7f, 0x80, 0xff, 0x100, 0xffff, 0x10000, 0x7fffffff, 0x80000000, 0xfffffffe, 0xffffffff} {
				b := r.Bytes(l)
				putLen(b, uint32(l))
				switch field {
				case 0: // timestamp
					b[0], b[1], b[2], b[3] = byte(v), byte(v>>8), byte(v>>16), byte(v>>24)
				case 1: // type code
					b[4] = byte(v)
				case 2: // server id
					b[5], b[6], b[7], b[8] = byte(v), byte(v>>8), byte(v>>16), byte(v>>24)
				case 3: // next_position
					b[13], b[14], b[15], b[16] = byte(v), byte(v>>8), byte(v>>16), byte(v>>24)
				case 4: // flags
					b[17], b[18] = byte(v), byte(v>>8)
				case 5: // everything but the length zero
					for k := range b {
						if k < 9 || k > 12 {
							b[k] = 0
						}
					}
				}
				cs = append(cs, isValidCase(b, "well-formed-field-boundaries"))
				cs = append(cs, hdrCase(b, "accessors"))
			}
		}
	}
	// longer buffers
	for i := 0; i < 200*n; i++ {
		l := 19 + r.Intn(5000)
		b := r.Bytes(l)
		switch r.Intn(4) {
		case 0:
			putLen(b, uint32(l))
		case 1:
			putLen(b, uint32(l+1))
		case 2:
			putLen(b, uint32(l-1))
		}
		cs = append(cs, isValidCase(b, "long"))
		cs = append(cs, hdrCase(b, "accessors"))
	}
	return cs
}
