package main

import (
	"encoding/binary"
	"fmt"
	"strings"

	"github.com/Breeze0806/gobinlog/replication"
)

// hdrAccess is the part of the event the exported interface does not show.
type hdrAccess interface {
	Type() byte
	Flags() uint16
	ServerID() uint32
	Length() uint32
}

func implHeader(b []byte) string {
	return catch(func() string {
		ev := replication.NewMysql56BinlogEvent(b)
		h, ok := ev.(hdrAccess)
		if !ok {
			return "no-accessors"
		}
		return fmt.Sprintf("ok:%d,%d,%d,%d,%d,%d", ev.Timestamp(), h.Type(), h.ServerID(), h.Length(), ev.NextPosition(), h.Flags())
	})
}

func isValidCase(b []byte, class string) Case {
	return Case{Line: "isvalid b=" + hx(b), Class: class, Nontrivial: len(b) >= 13, Run: func(resp map[string]string) Outcome {
		d := exact(b)
		impl := catch(func() string {
			if replication.NewMysql56BinlogEvent(d).IsValid() {
				return "1"
			}
			return "0"
		})
		o := Outcome{Impl: impl, Model: resp["model"], CorrOK: impl == resp["model"], OracleOK: true}
		want := "0"
		if len(b) >= 19 && int(binary.LittleEndian.Uint32(b[9:13])) == len(b) {
			want = "1"
		}
		o.Spec = want
		if impl != want {
			o.OracleOK = false
			o.Note = "IsValid does not accept exactly the full-header, self-consistent buffers"
			o.FindingKey = "isvalid"
		}
		if impl == "1" {
			if h := implHeader(d); !strings.HasPrefix(h, "ok:") {
				o.OracleOK = false
				o.Note = "header accessor failed on an accepted buffer: " + h
				o.FindingKey = "accessor-on-valid"
			}
		}
		return o
	}}
}

func hdrCase(b []byte, class string) Case {
	return Case{Line: "hdr b=" + hx(b), Class: class, Nontrivial: len(b) >= 19, Run: func(resp map[string]string) Outcome {
		impl := implHeader(exact(b))
		return Outcome{Impl: impl, Model: resp["model"], CorrOK: impl == resp["model"], OracleOK: true}
	}}
}

func putLen(b []byte, n uint32) {
	if len(b) >= 13 {
		binary.LittleEndian.PutUint32(b[9:13], n)
	}
}

func genC17pure(r *RNG, tier string) []Case {
	var cs []Case
	n := 1
	if tier == "thorough" {
		n = 20
	}
	for rep := 0; rep < n; rep++ {
		for l := 0; l <= 64; l++ {
			base := r.Bytes(l)
			variants := map[string]uint32{"len=len": uint32(l), "len=len+1": uint32(l + 1), "len=len-1": uint32(l - 1), "len=0": 0,
				"len=huge": 0xffffffff, "len=18": 18, "len=19": 19, "len=len+2^16": uint32(l + 65536), "len=len+2^24": uint32(l + 1<<24)}
			for name, v := range variants {
				b := append([]byte(nil), base...)
				putLen(b, v)
				cs = append(cs, isValidCase(b, "structured-"+name))
				if l >= 19 {
					cs = append(cs, hdrCase(b, "accessors"))
				}
			}
			cs = append(cs, isValidCase(base, "random"))
		}
	}
	// longer buffers
	for i := 0; i < 200*n; i++ {
		l := 19 + r.Intn(5000)
		b := r.Bytes(l)
		switch r.Intn(4) {
		case 0:
			putLen(b, uint32(l))
		case 1:
			putLen(b, uint32(l+1))
		case 2:
			putLen(b, uint32(l-1))
		}
		cs = append(cs, isValidCase(b, "long"))
		cs = append(cs, hdrCase(b, "accessors"))
	}
	return cs
}
