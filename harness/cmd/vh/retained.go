package main

import (
	"fmt"
	"os"
	"strconv"
	"strings"

	"github.com/Breeze0806/gobinlog/replication"
)

// retainedCells: the cell-level cases compare each decoded value at once; a caller (streamer.go stores the returned
// slice in ColumnData.Data without copying) keeps it while later cells are decoded. Here runs of cells are decoded
// back to back - neighbours of the property's own generator, plus "siblings" of a cell whose last numeric component
// differs (the same whole second with another fraction, the same integer part with another scale digit, ...: the
// situation in which a memo keyed on part of the value hits) - every returned value is kept, and all of them are
// compared with the Spec's text only after the whole run.
func retainedCells(col *Collector, r *RNG, tier string, gen func(*RNG, string) []Case) {
	var pool []Case
	for _, c := range gen(NewRNG(r.U64()), "quick") {
		if strings.HasPrefix(c.Line, "cell ") {
			pool = append(pool, c)
		}
	}
	if len(pool) < 2 {
		return
	}
	// runs are drawn per column type (a generator's output is dominated by its exhaustive integer domains)
	byType := map[string][]Case{}
	var types []string
	for _, c := range pool {
		t := fields(c.Line)["t"] + "/" + fields(c.Line)["md"]
		if _, ok := byType[t]; !ok {
			types = append(types, t)
		}
		byType[t] = append(byType[t], c)
	}
	rounds := 120
	if tier == "thorough" {
		rounds = 1500
	}
	type item struct {
		line string
		t    byte
		md   uint16
		u    bool
		data []byte
		orig []byte // a private copy of data (string-like values are sub-slices of data: overwriting them changes it)
		want string // hex of the canonical text; "N" never occurs here
	}
	mk := func(line string) (item, bool) {
		ans, err := theDriver.Ask(line)
		if err != nil || strings.HasPrefix(ans, "bad-") {
			return item{}, false
		}
		f, lf := fields(ans), fields(line)
		sp := strings.Split(f["spec"], ":")
		if len(sp) != 2 || f["bytes"] == "" && sp[1] != "0" {
			return item{}, false
		}
		t, _ := strconv.Atoi(lf["t"])
		md, _ := strconv.Atoi(lf["md"])
		it := item{line: line, t: byte(t), md: uint16(md), u: lf["u"] == "1", data: exact(append(unhx(f["bytes"]), unhx(lf["rest"])...)), want: sp[0]}
		it.orig = exact(it.data)
		// only cells whose single decode is right take part (a wrong single decode is the business of the per-cell
		// cases; a sibling may also be out of the type's domain)
		okNow := false
		func() {
			defer func() { recover() }()
			v, _, err := replication.CellBytes(exact(it.data), 0, it.t, it.md, it.u)
			okNow = err == nil && hx(v) == it.want
		}()
		return it, okNow
	}
	sibling := func(line string) string {
		// change the last numeric component of v=… (keeping its digit count where possible)
		i := strings.Index(line, " v=")
		if i < 0 {
			return ""
		}
		j := strings.Index(line[i+3:], " ")
		if j < 0 {
			return ""
		}
		v := line[i+3 : i+3+j]
		parts := strings.Split(v, ":")
		last := parts[len(parts)-1]
		n, err := strconv.ParseUint(last, 10, 63)
		if err != nil || len(parts) < 2 {
			return ""
		}
		var m uint64
		switch r.Intn(3) {
		case 0:
			m = n + 1
		case 1:
			if n == 0 {
				m = 1
			} else {
				m = n - 1
			}
		default:
			m = n / 2
		}
		if m == n {
			return ""
		}
		parts[len(parts)-1] = strconv.FormatUint(m, 10)
		return line[:i+3] + strings.Join(parts, ":") + line[i+3+j:]
	}
	if rounds < 3*len(types) {
		rounds = 3 * len(types)
	}
	for k := 0; k < rounds; k++ {
		n := r.Range(2, 12)
		sub := byType[types[k%len(types)]]
		base := r.Intn(len(sub))
		var items []item
		for i := 0; i < n; i++ {
			c := sub[(base+i)%len(sub)]
			if r.Chance(1, 4) {
				c = pool[r.Intn(len(pool))]
			}
			it, ok := mk(c.Line)
			if !ok {
				continue
			}
			items = append(items, it)
			for s := 0; s < 3 && r.Chance(2, 3); s++ {
				if sl := sibling(c.Line); sl != "" {
					if it2, ok := mk(sl); ok {
						items = append(items, it2)
					}
				}
			}
		}
		if os.Getenv("VERIF_DEBUG") != "" {
			fmt.Fprintf(os.Stderr, "retained run class=%s items=%d first=%s\n", types[k%len(types)], len(items), func() string {
				if len(items) > 0 {
					return clip(items[0].line, 60)
				}
				return ""
			}())
		}
		kept := make([][]byte, len(items))
		good := true
		for i, it := range items {
			func() {
				defer func() {
					if recover() != nil {
						good = false
					}
				}()
				v, _, err := replication.CellBytes(it.data, 0, it.t, it.md, it.u)
				if err != nil || hx(v) != it.want {
					good = false // a wrong single decode is the business of the per-cell cases
				}
				kept[i] = v
			}()
		}
		if !good || len(items) < 2 {
			continue
		}
		ok, note, desc := true, "", ""
		for i, it := range items {
			if hx(kept[i]) != it.want {
				ok = false
				note = fmt.Sprintf("cell %d of %d decoded back to back (type %d md %d): its value, kept by the caller, reads %q after the later decodes, want %q", i, len(items), it.t, it.md, clip(string(kept[i]), 80), clip(string(unhx(it.want)), 80))
				desc = it.line + " ;; then"
				for _, l := range items[i+1:] {
					desc += " ;; " + l.line
				}
				break
			}
		}
		if desc == "" {
			for _, it := range items {
				desc += it.line + " ;; "
			}
		}
		col.AddScenario("cells-retained", desc, true, ok, true, note, "cell-result-overwritten", fmt.Sprintf("%d values kept", len(items)), "")
		if !ok {
			continue
		}
		// the returned values are the caller's: it may edit them in place (mask a value, reuse the buffer). Overwrite
		// every kept value, then decode the same cells once more: the fresh values must still be right - a decoder
		// that hands out a shared constant (a package-level "zero" value) now reads the caller's bytes
		for i := range kept {
			for k := range kept[i] {
				kept[i][k] = 'X'
			}
		}
		ok2, note2, desc2 := true, "", ""
		for _, it := range items {
			var v []byte
			var err error
			func() {
				defer func() { recover() }()
				v, _, err = replication.CellBytes(exact(it.orig), 0, it.t, it.md, it.u)
			}()
			if err != nil || hx(v) != it.want {
				ok2 = false
				note2 = fmt.Sprintf("after the caller overwrote the values it had been given, decoding a cell of type %d md %d again gives %q, want %q", it.t, it.md, clip(string(v), 60), clip(string(unhx(it.want)), 60))
				desc2 = it.line + " ;; decoded, the returned bytes overwritten with X, decoded again"
				break
			}
		}
		if desc2 == "" {
			desc2 = "overwrite-then-decode-again over " + clip(desc, 200)
		}
		col.AddScenario("cells-overwritten-then-decoded-again", desc2, true, ok2, true, note2, "cell-shared-constant", fmt.Sprintf("%d cells", len(items)), "")
	}
}
