package main

import (
	"encoding/hex"
	"fmt"
	"math"
	"strconv"
	"strings"
	"time"

	"github.com/Breeze0806/gobinlog/replication"
)

func hx(b []byte) string { return hex.EncodeToString(b) }
func unhx(s string) []byte {
	b, _ := hex.DecodeString(s)
	return b
}

// exact returns a copy whose capacity equals its length (the model has len = cap).
func exact(b []byte) []byte {
	c := make([]byte, len(b))
	copy(c, b)
	return c[:len(c):len(c)]
}

func implCellLength(data []byte, pos int, t byte, md uint16) string {
	return catch(func() string {
		l, err := replication.VerifCellLength(data, pos, t, md)
		if err != nil {
			return "err"
		}
		return "ok:" + strconv.Itoa(l)
	})
}

func implCellBytes(data []byte, pos int, t byte, md uint16, u bool) string {
	return catch(func() string {
		v, l, err := replication.CellBytes(data, pos, t, md, u)
		if err != nil {
			return "err"
		}
		if v == nil {
			return "ok:N:" + strconv.Itoa(l)
		}
		return "ok:" + hx(v) + ":" + strconv.Itoa(l)
	})
}

// cellSpec describes one abstract cell case.
type cellSpec struct {
	t    int
	md   int
	v    string // abstract value (Appendix B syntax)
	u    bool
	ext  string // extra k=v tokens (f32=…, f64=…, tz=…, civil=…)
	rest []byte // trailing bytes after the cell
}

func (c cellSpec) line() string {
	u := 0
	if c.u {
		u = 1
	}
	s := fmt.Sprintf("cell t=%d md=%d u=%d v=%s rest=%s", c.t, c.md, u, c.v, hx(c.rest))
	if c.ext != "" {
		s += " " + c.ext
	}
	return s
}

func cellCase(c cellSpec, class string, nontrivial bool) Case {
	return Case{Line: c.line(), Class: class, Nontrivial: nontrivial, Run: func(resp map[string]string) Outcome {
		data := exact(append(unhx(resp["bytes"]), c.rest...))
		il := implCellLength(data, 0, byte(c.t), uint16(c.md))
		ib := implCellBytes(data, 0, byte(c.t), uint16(c.md), c.u)
		impl := "clen=" + il + " val=" + ib
		model := "clen=" + resp["clen"] + " val=" + resp["model"]
		spec := resp["spec"] // texthex:len
		o := Outcome{Impl: impl, Model: model, Spec: spec, CorrOK: impl == model, OracleOK: true}
		sp := strings.Split(spec, ":")
		want := "clen=ok:" + sp[1] + " val=ok:" + sp[0] + ":" + sp[1]
		if impl != want {
			o.OracleOK = false
			o.Note = "decoded value / consumed length differs from the canonical text of the encoded value"
			o.FindingKey = fmt.Sprintf("cell t=%d md=%d v=%s", c.t, c.md, c.v)
			return o
		}
		// the row image is the caller's (it aliases the event): decoding must leave it as encoded, and decoding the
		// same cell again must give the same value
		if orig := append(unhx(resp["bytes"]), c.rest...); hx(data) != hx(orig) {
			o.OracleOK = false
			o.Note = "decoding the cell changed the row image it was read from: " + hx(orig) + " -> " + hx(data)
			o.FindingKey = "image-mutated"
		} else if again := implCellBytes(data, 0, byte(c.t), uint16(c.md), c.u); again != ib {
			o.OracleOK = false
			o.Note = "decoding the same cell a second time gives another value: " + clip(again, 80)
			o.FindingKey = "image-mutated"
		} else if c.t != 1 && c.t != 2 && c.t != 9 && c.t != 3 && c.t != 8 {
			// the mapper's signedness flag belongs to integer columns; it reaches the decoder for every column (the
			// mapper describes today's schema, the binlog may predate a column change): other types must ignore it
			if flipped := implCellBytes(exact(data), 0, byte(c.t), uint16(c.md), !c.u); flipped != ib {
				o.OracleOK = false
				o.Note = fmt.Sprintf("a non-integer column (type %d) decodes differently when the mapper's unsigned flag is %v: %s", c.t, !c.u, clip(flipped, 80))
				o.FindingKey = "unsigned-flag-on-non-integer"
			}
		}
		return o
	}}
}

// rawCellCase: arbitrary bytes; no spec, correspondence only (and "both agree on the length" for C09).
func rawCellCase(t, md int, u bool, data []byte, pos int, ext string, class string, lenAgree bool) Case {
	ui := 0
	if u {
		ui = 1
	}
	lines := fmt.Sprintf("b=%s pos=%d t=%d md=%d u=%d", hx(data), pos, t, md, ui)
	if ext != "" {
		lines += " " + ext
	}
	// two driver commands folded into one case: we ask clen and cbytes separately
	return Case{Line: "clenbytes " + lines, Class: class, Nontrivial: len(data) > 0, Run: func(resp map[string]string) Outcome {
		d := exact(data)
		il := implCellLength(d, pos, byte(t), uint16(md))
		ib := implCellBytes(d, pos, byte(t), uint16(md), u)
		impl := "clen=" + il + " val=" + ib
		model := "clen=" + resp["clen"] + " val=" + resp["model"]
		o := Outcome{Impl: impl, Model: model, CorrOK: impl == model, OracleOK: true}
		if lenAgree && strings.HasPrefix(il, "ok:") && strings.HasPrefix(ib, "ok:") {
			parts := strings.Split(ib, ":")
			if il[3:] != parts[len(parts)-1] {
				o.OracleOK = false
				o.Note = "cellLength and CellBytes disagree on the size of a cell"
				o.FindingKey = fmt.Sprintf("lenagree t=%d md=%d", t, md)
			}
		}
		return o
	}}
}

// ---- external-library parameters (obtained from the library itself, independently of gobinlog) ----

func f32ext(bits uint32) string {
	txt := strconv.AppendFloat(nil, float64(math.Float32frombits(bits)), 'f', -1, 32)
	return fmt.Sprintf("f32=%d:%s", bits, hx(txt))
}
func f64ext(bits uint64) string {
	txt := strconv.AppendFloat(nil, math.Float64frombits(bits), 'f', -1, 64)
	return fmt.Sprintf("f64=%d:%s", bits, hx(txt))
}
func tzext(sec uint32) string {
	t := time.Unix(int64(sec), 0).Local()
	_, off := t.Zone()
	return fmt.Sprintf("tz=%d:%d civil=%d:%s", sec, off, sec, hx([]byte(t.Format("2006-01-02 15:04:05"))))
}

// ---- value generators -------------------------------------------------------------

func intBoundaries(w int) []int64 {
	bits := uint(8 * w)
	var r []int64
	if w == 8 {
		return []int64{0, 1, -1, math.MaxInt64, math.MinInt64, math.MaxInt64 - 1, math.MinInt64 + 1, 1 << 62, -(1 << 62), 255, 256, -255, -256, 65535, 65536, 1 << 31, 1<<31 - 1, -(1 << 31), 1 << 32, 1<<32 - 1}
	}
	max := int64(1)<<(bits-1) - 1
	min := -(int64(1) << (bits - 1))
	r = append(r, 0, 1, -1, max, min, max-1, min+1, 127, 128, -128, -129, 255, 256)
	var out []int64
	for _, v := range r {
		if v >= min && v <= max {
			out = append(out, v)
		}
	}
	return out
}

var intTypes = map[int]int{1: 1, 2: 2, 3: 9, 4: 3, 8: 8} // width -> MySQL type code

func genC10(r *RNG, tier string) []Case {
	var cs []Case
	addInt := func(w int, raw uint64, class string) {
		t := intTypes[w]
		bits := uint(8 * w)
		// signed reading
		var sv int64
		if w == 8 {
			sv = int64(raw)
		} else {
			sv = int64(raw)
			if raw >= 1<<(bits-1) {
				sv = int64(raw) - int64(1)<<bits
			}
		}
		cs = append(cs, cellCase(cellSpec{t: t, v: fmt.Sprintf("i:%d:%d", w, sv), rest: r.Bytes(r.Intn(3))}, class+"-signed", raw != 0))
		cs = append(cs, cellCase(cellSpec{t: t, v: fmt.Sprintf("u:%d:%d", w, raw), u: true, rest: r.Bytes(r.Intn(3))}, class+"-unsigned", raw != 0))
	}
	// 8- and 16-bit domains exhaustively, both signedness modes
	for v := 0; v < 256; v++ {
		addInt(1, uint64(v), "int8-exhaustive")
	}
	for v := 0; v < 65536; v++ {
		addInt(2, uint64(v), "int16-exhaustive")
	}
	// 24-bit: exhaustive in thorough, boundaries + sample in quick
	if tier == "thorough" {
		// the exhaustive 24-bit domain is produced chunk by chunk (chunksC10)
		for _, b := range intBoundaries(3) {
			addInt(3, uint64(b)&0xffffff, "int24-boundary")
		}
	} else {
		for _, b := range intBoundaries(3) {
			addInt(3, uint64(b)&0xffffff, "int24-boundary")
		}
		for i := 0; i < 4000; i++ {
			addInt(3, r.U64()&0xffffff, "int24-random")
		}
	}
	n32, n64 := 4000, 4000
	if tier == "thorough" {
		n32, n64 = 400000, 200000
	}
	for _, b := range intBoundaries(4) {
		addInt(4, uint64(b)&0xffffffff, "int32-boundary")
	}
	for i := 0; i < n32; i++ {
		addInt(4, r.U64()&0xffffffff, "int32-random")
	}
	for _, b := range intBoundaries(8) {
		addInt(8, uint64(b), "int64-boundary")
	}
	for i := 0; i < n64; i++ {
		v := r.U64()
		if r.Chance(1, 3) {
			v >>= uint(r.Intn(64))
		}
		addInt(8, v, "int64-random")
	}
	// YEAR: all bytes
	for v := 0; v < 256; v++ {
		cs = append(cs, cellCase(cellSpec{t: 13, v: fmt.Sprintf("y:%d", v)}, "year-exhaustive", true))
	}
	// BIT(1..64): md = (bytes<<8)|bits with nbits = bytes*8+bits
	for nbits := 1; nbits <= 64; nbits++ {
		for k := 0; k < 4; k++ {
			l := (nbits + 7) / 8
			md := (nbits/8)<<8 | (nbits % 8)
			cs = append(cs, cellCase(cellSpec{t: 16, md: md, v: "bit:" + hx(r.Bytes(l)), rest: r.Bytes(r.Intn(2))}, "bit", true))
		}
	}
	// ENUM 1-2 bytes (as TypeEnum and as TypeString-packed), SET 1..8 bytes
	for w := 1; w <= 2; w++ {
		for k := 0; k < 300; k++ {
			v := r.U64() & (1<<(8*uint(w)) - 1)
			if k < 3 {
				v = []uint64{0, 1, 1<<(8*uint(w)) - 1}[k]
			}
			cs = append(cs, cellCase(cellSpec{t: 247, md: w, v: fmt.Sprintf("en:%d:%d", w, v)}, "enum", true))
			cs = append(cs, cellCase(cellSpec{t: 254, md: 247<<8 | w, v: fmt.Sprintf("en:%d:%d", w, v)}, "enum-in-string", true))
		}
	}
	for w := 1; w <= 8; w++ {
		for k := 0; k < 120; k++ {
			var v uint64
			if w == 8 {
				v = r.U64()
			} else {
				v = r.U64() & (1<<(8*uint(w)) - 1)
			}
			if k == 0 {
				v = 0
			}
			if k == 1 {
				if w == 8 {
					v = math.MaxUint64
				} else {
					v = 1<<(8*uint(w)) - 1
				}
			}
			cs = append(cs, cellCase(cellSpec{t: 254, md: 248<<8 | w, v: fmt.Sprintf("set:%d:%d", w, v)}, "set-in-string", true))
			// TypeSet proper delivers the raw little-endian bytes
			raw := make([]byte, w)
			for i := 0; i < w; i++ {
				raw[i] = byte(v >> (8 * uint(i)))
			}
			cs = append(cs, cellCase(cellSpec{t: 248, md: w, v: "bit:" + hx(raw)}, "set-raw", true))
		}
	}
	// floats
	addF32 := func(bits uint32, class string) {
		f := math.Float32frombits(bits)
		if math.IsNaN(float64(f)) || math.IsInf(float64(f), 0) {
			return
		}
		c := cellCase(cellSpec{t: 4, v: fmt.Sprintf("f32:%d", bits), ext: f32ext(bits)}, class, true)
		inner := c.Run
		c.Run = func(resp map[string]string) Outcome {
			o := inner(resp)
			txt := strconv.AppendFloat(nil, float64(f), 'f', -1, 32)
			if back, err := strconv.ParseFloat(string(txt), 32); err != nil || math.Float32bits(float32(back)) != bits || strings.ContainsAny(string(txt), "eE") {
				o.OracleOK = false
				o.Note = "float32 text does not parse back to the same bits or has an exponent"
			}
			return o
		}
		cs = append(cs, c)
	}
	addF64 := func(bits uint64, class string) {
		f := math.Float64frombits(bits)
		if math.IsNaN(f) || math.IsInf(f, 0) {
			return
		}
		c := cellCase(cellSpec{t: 5, v: fmt.Sprintf("f64:%d", bits), ext: f64ext(bits)}, class, true)
		inner := c.Run
		c.Run = func(resp map[string]string) Outcome {
			o := inner(resp)
			txt := strconv.AppendFloat(nil, f, 'f', -1, 64)
			if back, err := strconv.ParseFloat(string(txt), 64); err != nil || math.Float64bits(back) != bits || strings.ContainsAny(string(txt), "eE") {
				o.OracleOK = false
				o.Note = "float64 text does not parse back to the same bits or has an exponent"
			}
			return o
		}
		cs = append(cs, c)
	}
	for _, b := range []uint32{0, 0x80000000, 1, 0x80000001, 0x007fffff, 0x00800000, 0x7f7fffff, 0xff7fffff, 0x3f800000, 0x41200000, 0x3dcccccd, 0x4b800000} {
		addF32(b, "float32-class")
	}
	for _, b := range []uint64{0, 1 << 63, 1, 1<<63 | 1, 0x000fffffffffffff, 0x0010000000000000, 0x7fefffffffffffff, 0xffefffffffffffff, 0x3ff0000000000000, 0x4024000000000000, 0x3fb999999999999a, 0x4340000000000000} {
		addF64(b, "float64-class")
	}
	nf := 1500
	if tier == "thorough" {
		nf = 60000
	}
	for i := 0; i < nf; i++ {
		addF32(uint32(r.U64()), "float32-random")
		addF64(r.U64(), "float64-random")
	}
	return cs
}

// chunksC10: thorough tier = the ordinary generator plus the full 24-bit domain in 32 chunks.
func chunksC10(r *RNG, tier string) []func() []Case {
	out := []func() []Case{func() []Case { return genC10(r, tier) }}
	const step = 1 << 19
	for lo := 0; lo < 1<<24; lo += step {
		lo := lo
		out = append(out, func() []Case {
			var cs []Case
			for v := lo; v < lo+step; v++ {
				raw := uint64(v)
				sv := int64(raw)
				if raw >= 1<<23 {
					sv = int64(raw) - 1<<24
				}
				cs = append(cs, cellCase(cellSpec{t: 9, v: fmt.Sprintf("i:3:%d", sv)}, "int24-exhaustive-signed", raw != 0))
				cs = append(cs, cellCase(cellSpec{t: 9, v: fmt.Sprintf("u:3:%d", raw), u: true}, "int24-exhaustive-unsigned", raw != 0))
			}
			return cs
		})
	}
	return out
}

// ---- C11 DECIMAL ------------------------------------------------------------------

func digitString(r *RNG, n int, mode int) string {
	b := make([]byte, n)
	for i := range b {
		switch mode {
		case 0:
			b[i] = '0'
		case 1:
			b[i] = '9'
		default:
			b[i] = byte('0' + r.Intn(10))
		}
	}
	return string(b)
}

func genC11(r *RNG, tier string) []Case {
	var cs []Case
	reps := 1
	if tier == "thorough" {
		reps = 6
	}
	for p := 1; p <= 65; p++ {
		for s := 0; s <= 30 && s <= p; s++ {
			md := p<<8 | s
			ni := p - s
			var vals [][2]string
			vals = append(vals, [2]string{digitString(r, ni, 0), digitString(r, s, 0)}) // zero
			vals = append(vals, [2]string{digitString(r, ni, 1), digitString(r, s, 1)}) // all nines
			// single low digit (in the integer part if there is one, else in the fraction)
			if ni > 0 {
				iz := []byte(digitString(r, ni, 0))
				iz[ni-1] = byte('1' + r.Intn(9))
				vals = append(vals, [2]string{string(iz), digitString(r, s, 0)})
			}
			if s > 0 {
				fz := []byte(digitString(r, s, 0))
				fz[s-1] = byte('1' + r.Intn(9))
				vals = append(vals, [2]string{digitString(r, ni, 0), string(fz)})
			}
			// each 9-digit group zero / non-zero: leading groups zero, the k-th group first non-zero
			groups := (ni + 8) / 9
			for g := 0; g < groups; g++ {
				iz := []byte(digitString(r, ni, 0))
				// position of group g counted from the most significant side
				lead := ni % 9
				start := 0
				if lead == 0 {
					start = g * 9
				} else if g > 0 {
					start = lead + (g-1)*9
				}
				end := start + 9
				if lead != 0 && g == 0 {
					end = lead
				}
				if end > ni {
					end = ni
				}
				// a small value at the end of the group (needs zero padding when it is not the first non-zero group)
				iz[end-1] = byte('1' + r.Intn(9))
				vals = append(vals, [2]string{string(iz), digitString(r, s, 2)})
				if g+1 < groups {
					// and a later group with leading zeros inside
					jz := append([]byte(nil), iz...)
					jz[ni-1] = '7'
					vals = append(vals, [2]string{string(jz), digitString(r, s, 2)})
				}
			}
			for k := 0; k < 2*reps; k++ {
				vals = append(vals, [2]string{digitString(r, ni, 2), digitString(r, s, 2)})
			}
			// round values: a digit 1 somewhere, zeros elsewhere (a 9-digit group that is exactly a power of ten) - in the
			// integer part under a non-zero higher digit, and in the fraction
			if ni >= 2 {
				iz := []byte(digitString(r, ni, 0))
				iz[0] = byte('1' + r.Intn(9))
				iz[1+r.Intn(ni-1)] = '1'
				vals = append(vals, [2]string{string(iz), digitString(r, s, 0)})
			}
			if s >= 1 {
				fz := []byte(digitString(r, s, 0))
				fz[r.Intn(s)] = '1'
				vals = append(vals, [2]string{digitString(r, ni, 0), string(fz)})
				if s >= 10 {
					fz2 := []byte(digitString(r, s, 0))
					fz2[r.Intn(9)] = '1'
					fz2[s-1] = '5'
					vals = append(vals, [2]string{digitString(r, ni, 2), string(fz2)})
				}
			}
			for _, v := range vals {
				isZero := strings.Trim(v[0]+v[1], "0") == ""
				for _, neg := range []int{0, 1} {
					if neg == 1 && isZero {
						continue // MySQL has no negative zero
					}
					c := cellCase(cellSpec{t: 246, md: md, v: fmt.Sprintf("dec:%d:%s:%s", neg, v[0], v[1]), rest: r.Bytes(r.Intn(2))},
						fmt.Sprintf("decimal-intgroups%d-fracgroups%d", (ni+8)/9, (s+8)/9), !isZero)
					inner := c.Run
					c.Run = func(resp map[string]string) Outcome {
						o := inner(resp)
						if strings.Contains(o.Impl, "val=ok:N") || strings.Contains(o.Impl, "val=ok::") {
							o.OracleOK = false
							o.Note = "DECIMAL decoded to an empty or nil value"
						}
						return o
					}
					cs = append(cs, c)
				}
			}
		}
	}
	return cs
}

// ---- C12 temporal -----------------------------------------------------------------------

var zones = []string{"UTC", "Asia/Shanghai", "America/New_York", "Europe/London", "Australia/Lord_Howe"}

func genC12(r *RNG, tier string) []Case {
	var cs []Case
	// DATE / NEWDATE: the valid sub-lattice exhaustively in thorough, sampled in quick
	step := 37
	if tier == "thorough" {
		step = 3
	}
	k := 0
	for y := 0; y <= 9999; y++ {
		for m := 0; m <= 12; m++ {
			for d := 0; d <= 31; d++ {
				k++
				if k%step != 0 && !(y == 0 || y == 9999 || y == 1000 || y == 999) {
					continue
				}
				t := 10
				if k%2 == 0 {
					t = 14
				}
				cs = append(cs, cellCase(cellSpec{t: t, v: fmt.Sprintf("d:%d:%d:%d", y, m, d)}, "date", y+m+d > 0))
			}
		}
	}
	// old TIME: both signs, hours to 838
	for _, h := range []int{0, 1, 9, 10, 23, 24, 99, 100, 101, 837, 838} {
		for _, mi := range []int{0, 1, 59} {
			for _, s := range []int{0, 1, 59} {
				for _, neg := range []int{0, 1} {
					if neg == 1 && h+mi+s == 0 {
						continue
					}
					cs = append(cs, cellCase(cellSpec{t: 11, v: fmt.Sprintf("t:%d:%d:%d:%d", neg, h, mi, s)}, "time-old-boundary", true))
				}
			}
		}
	}
	nt := 3000
	if tier == "thorough" {
		nt = 200000
	}
	for i := 0; i < nt; i++ {
		h, mi, s := r.Intn(839), r.Intn(60), r.Intn(60)
		neg := r.Intn(2)
		if neg == 1 && h+mi+s == 0 {
			neg = 0
		}
		cs = append(cs, cellCase(cellSpec{t: 11, v: fmt.Sprintf("t:%d:%d:%d:%d", neg, h, mi, s)}, "time-old-random", true))
	}
	// old DATETIME
	for i := 0; i < nt; i++ {
		y, mo, d, h, mi, s := r.Intn(10000), r.Intn(13), r.Intn(32), r.Intn(24), r.Intn(60), r.Intn(60)
		if i == 0 {
			y, mo, d, h, mi, s = 0, 0, 0, 0, 0, 0
		}
		if i == 1 {
			y, mo, d, h, mi, s = 9999, 12, 31, 23, 59, 59
		}
		cs = append(cs, cellCase(cellSpec{t: 12, v: fmt.Sprintf("dt:%d:%d:%d:%d:%d:%d", y, mo, d, h, mi, s)}, "datetime-old", i > 0))
	}
	pow10 := []int{1, 10, 100, 1000, 10000, 100000, 1000000}
	fracOf := func(fsp int, mode int) int {
		switch mode {
		case 0:
			return 0
		case 1:
			return pow10[fsp] - 1
		case 2:
			return 1 % pow10[fsp]
		default:
			return r.Intn(pow10[fsp])
		}
	}
	// TIME2 / DATETIME2 / TIMESTAMP2: fsp 0..6 × boundary and random
	for fsp := 0; fsp <= 6; fsp++ {
		n := nt / 7
		for i := 0; i < n; i++ {
			h, mi, s := r.Intn(839), r.Intn(60), r.Intn(60)
			if i < 8 {
				h = []int{0, 838, 1, 99, 100, 0, 0, 23}[i]
				mi = []int{0, 59, 0, 0, 0, 0, 59, 59}[i]
				s = []int{0, 59, 0, 0, 0, 1, 59, 59}[i]
			}
			fr := fracOf(fsp, i%4)
			neg := r.Intn(2)
			if neg == 1 && h+mi+s+fr == 0 {
				neg = 0
			}
			cs = append(cs, cellCase(cellSpec{t: 19, md: fsp, v: fmt.Sprintf("t2:%d:%d:%d:%d:%d", neg, h, mi, s, fr), rest: r.Bytes(r.Intn(2))},
				fmt.Sprintf("time2-fsp%d-neg%d", fsp, neg), true))
			y, mo, d, hh := r.Intn(10000), r.Intn(13), r.Intn(32), r.Intn(24)
			if i == 0 {
				y, mo, d, hh, mi, s, fr = 0, 0, 0, 0, 0, 0, 0
			}
			if i == 1 {
				y, mo, d, hh, mi, s = 9999, 12, 31, 23, 59, 59
			}
			cs = append(cs, cellCase(cellSpec{t: 18, md: fsp, v: fmt.Sprintf("dt2:%d:%d:%d:%d:%d:%d:%d", y, mo, d, hh, mi, s, fr), rest: r.Bytes(r.Intn(2))},
				fmt.Sprintf("datetime2-fsp%d", fsp), i > 0))
		}
	}
	return cs
}

// chunksC12: thorough tier = the ordinary generator plus ALL 2^24 raw values of the two 3-byte encodings
// (DATE / NEWDATE and the old TIME), compared between implementation and model (most raw values denote no valid
// date, so there is no Spec column for them; the valid sub-lattice has one in genC12).
func chunksC12(r *RNG, tier string) []func() []Case {
	out := []func() []Case{func() []Case { return genC12(r, tier) }}
	const step = 1 << 19
	for _, typ := range []int{10, 11} {
		for lo := 0; lo < 1<<24; lo += step {
			lo, typ := lo, typ
			out = append(out, func() []Case {
				cs := make([]Case, 0, step)
				for v := lo; v < lo+step; v++ {
					cs = append(cs, rawCellCase(typ, 0, false, []byte{byte(v), byte(v >> 8), byte(v >> 16)}, 0, "", fmt.Sprintf("raw24-exhaustive-type%d", typ), true))
				}
				return cs
			})
		}
	}
	return out
}

// timestamps depend on the process time zone: generated and run per zone (time.Local is switched
// between batches, never concurrently with a batch)
func extraC12(col *Collector, r *RNG, tier string) {
	zs := zones[:2]
	n := 400
	if tier == "thorough" {
		zs = zones
		n = 20000
	}
	saved := time.Local
	defer func() { time.Local = saved }()
	for _, z := range zs {
		loc, err := time.LoadLocation(z)
		if err != nil {
			col.extraCounts["zone-unavailable-"+z]++
			continue
		}
		time.Local = loc
		var cs []Case
		secs := []uint32{0, 1, 59, 86399, 86400, 951782400, 1583020800, 1604206800, 1616893200, 1635728400, 2147483647, 2147483648, 4294967295, 1301587200, 354672000}
		for i := 0; i < n; i++ {
			secs = append(secs, uint32(r.U64()))
		}
		pow10 := []int{1, 10, 100, 1000, 10000, 100000, 1000000}
		for i, s := range secs {
			cs = append(cs, cellCase(cellSpec{t: 7, v: fmt.Sprintf("ts:%d", s), ext: tzext(s)}, "timestamp-"+z, s != 0))
			fsp := i % 7
			fr := r.Intn(pow10[fsp])
			if i%5 == 0 {
				fr = 0
			}
			cs = append(cs, cellCase(cellSpec{t: 17, md: fsp, v: fmt.Sprintf("ts2:%d:%d", s, fr), ext: tzext(s), rest: r.Bytes(r.Intn(2))},
				fmt.Sprintf("timestamp2-%s-fsp%d", z, fsp), s != 0))
		}
		// the zero instant (and its neighbour) under every fractional precision
		for fsp := 0; fsp <= 6; fsp++ {
			for _, s := range []uint32{0, 1} {
				for _, fr := range []int{0, pow10[fsp] - 1, r.Intn(pow10[fsp])} {
					cs = append(cs, cellCase(cellSpec{t: 17, md: fsp, v: fmt.Sprintf("ts2:%d:%d", s, fr), ext: tzext(s), rest: r.Bytes(r.Intn(2))},
						fmt.Sprintf("timestamp2-%s-fsp%d-zero", z, fsp), fr != 0 || s != 0))
				}
			}
		}
		runCases(col, theDriver, cs)
		col.extraCounts["zone-"+z] += len(cs)
		// the keep-then-compare runs for TIMESTAMP / TIMESTAMP2 (their cases need this zone's offsets, so they are not in
		// genC12's pool): cells of one fractional precision back to back, siblings sharing the second
		retainedCells(col, r, tier, func(rr *RNG, _ string) []Case {
			var out []Case
			for i := 0; i < 140; i++ {
				s := uint32(rr.U64())
				if i%10 == 0 {
					s = []uint32{1, 86399, 1583020800, 2147483647, 2147483648, 4294967295}[rr.Intn(6)]
				}
				fsp := i % 7
				out = append(out, cellCase(cellSpec{t: 17, md: fsp, v: fmt.Sprintf("ts2:%d:%d", s, rr.Intn(pow10[fsp])), ext: tzext(s), rest: rr.Bytes(rr.Intn(2))}, "retained-ts2", true))
				if i%7 == 0 {
					out = append(out, cellCase(cellSpec{t: 7, v: fmt.Sprintf("ts:%d", s), ext: tzext(s)}, "retained-ts", true))
				}
			}
			return out
		})
	}
}

// ---- C13 strings ----------------------------------------------------------------------------

func stringMd(real int, maxLen int) int {
	// MySQL packs CHAR/BINARY metadata as: byte0 = real_type ^ ((len & 0x300) >> 4), byte1 = len & 0xff
	return ((real ^ ((maxLen & 0x300) >> 4)) << 8) | (maxLen & 0xff)
}

func genC13(r *RNG, tier string) []Case {
	var cs []Case
	content := func(n int) []byte {
		b := r.Bytes(n)
		if n > 0 && r.Chance(1, 4) {
			b[0] = 0
		}
		if n > 1 && r.Chance(1, 4) {
			b[n-1] = 0xff
		}
		return b
	}
	lens := func(max int) []int {
		l := []int{0, 1, 255, 256, max}
		var out []int
		seen := map[int]bool{}
		for _, x := range l {
			if x <= max && !seen[x] {
				seen[x] = true
				out = append(out, x)
			}
		}
		out = append(out, r.Intn(max+1))
		return out
	}
	// VARCHAR / VAR_STRING: declared 0..65535
	decl := []int{0, 1, 2, 254, 255, 256, 257, 1000, 65535}
	nrand := 60
	if tier == "thorough" {
		nrand = 3000
	}
	for i := 0; i < nrand; i++ {
		decl = append(decl, r.Intn(65536))
	}
	for _, d := range decl {
		for _, l := range lens(d) {
			t := 15
			if r.Chance(1, 4) {
				t = 253
			}
			cs = append(cs, cellCase(cellSpec{t: t, md: d, v: "s:" + hx(content(l)), rest: r.Bytes(r.Intn(3))},
				fmt.Sprintf("varchar-prefix%d", map[bool]int{false: 1, true: 2}[d > 255]), l > 0))
		}
	}
	// CHAR / BINARY: all declared byte lengths 0..1023
	for d := 0; d <= 1023; d++ {
		for _, l := range lens(d) {
			if tier != "thorough" && d%7 != 0 && d != 255 && d != 256 && d != 1023 && l != 0 {
				continue
			}
			cs = append(cs, cellCase(cellSpec{t: 254, md: stringMd(254, d), v: "s:" + hx(content(l)), rest: r.Bytes(r.Intn(3))},
				fmt.Sprintf("char-prefix%d", map[bool]int{false: 1, true: 2}[d > 255]), l > 0))
		}
	}
	// BLOB family and GEOMETRY: 1..4 length bytes
	for _, t := range []int{249, 250, 251, 252, 255} {
		for w := 1; w <= 4; w++ {
			max := []int{0, 255, 65535, 70000, 70000}[w]
			ls := []int{0, 1, 255, 256}
			if w >= 2 {
				ls = append(ls, 65535)
			}
			if w >= 3 {
				ls = append(ls, 65536)
			}
			ls = append(ls, r.Intn(max+1))
			for _, l := range ls {
				if l > max {
					continue
				}
				cs = append(cs, cellCase(cellSpec{t: t, md: w, v: "s:" + hx(content(l)), rest: r.Bytes(r.Intn(3))},
					fmt.Sprintf("blob-type%d-lenbytes%d", t, w), l > 0))
			}
		}
	}
	return cs
}

func init() {
	replayCell := func(line string) []Case {
		// a replay line is the driver line of a cell case
		f := fields(line)
		t, _ := strconv.Atoi(f["t"])
		md, _ := strconv.Atoi(f["md"])
		var ext []string
		for _, k := range []string{"f32", "f64", "tz", "civil"} {
			if f[k] != "" {
				ext = append(ext, k+"="+f[k])
			}
		}
		if strings.HasPrefix(line, "clenbytes ") {
			pos, _ := strconv.Atoi(f["pos"])
			return []Case{rawCellCase(t, md, f["u"] == "1", unhx(f["b"]), pos, strings.Join(ext, " "), "replay", true)}
		}
		return []Case{cellCase(cellSpec{t: t, md: md, v: f["v"], u: f["u"] == "1", ext: strings.Join(ext, " "), rest: unhx(f["rest"])}, "replay", true)}
	}
	register(&Property{ID: "C10", Gen: genC10, Chunks: chunksC10, Extra: func(c *Collector, r *RNG, tier string) { extraC10(c, r, tier); retainedCells(c, r, tier, genC10) },
		Replay: func(line string) []Case {
			if strings.HasPrefix(line, "hist ") {
				return replayHist(line)
			}
			return replayCell(line)
		},
		Rule: "end to end (signedness reaches the decoder from the mapper's column): histories over integer-heavy tables of mixed signedness with partial before / after images through the real parseEvents, values with the top bit set, delivered text vs the Spec's; cell level: abstract values -> Spec writer bytes (Lean) -> real CellBytes/cellLength vs Lean model vs canonical text; 8/16-bit domains exhaustive x2 signedness, 24-bit exhaustive in thorough, 32/64-bit boundaries + random, all YEAR bytes, BIT 1..64, ENUM 1-2, SET 1..8, float classes + random bits (float texts checked to parse back to the same bits, exponent-free). Non-trivial: value != 0"})
	register(&Property{ID: "C11", Gen: genC11, Extra: func(c *Collector, r *RNG, tier string) { retainedCells(c, r, tier, genC11) }, Replay: replayCell,
		Rule: "every valid (p,s), p in 1..65, s in 0..min(30,p) x {zero, all nines, single low digit, each 9-digit group first non-zero, random} x sign; non-trivial: value != 0"})
	register(&Property{ID: "C12", Gen: genC12, Chunks: chunksC12, Extra: func(c *Collector, r *RNG, tier string) { extraC12(c, r, tier); retainedCells(c, r, tier, genC12) }, Replay: replayCell,
		Rule: "DATE lattice (every 37th point quick / every 3rd thorough, all points of the boundary years), old TIME both signs to 838h, old DATETIME, TIME2/DATETIME2/TIMESTAMP2 fsp 0..6 boundary+random, all 2^24 raw values of the 3-byte DATE and old TIME encodings impl-vs-model in thorough, TIMESTAMP under several process time zones (offset and civil text obtained from the time package directly); non-trivial: not the all-zero value"})
	register(&Property{ID: "C13", Gen: genC13, Extra: func(c *Collector, r *RNG, tier string) {
		extraC13(c, r, tier)
		retainedCells(c, r, tier, genC13)
		hugeCases(c, "cell")
	},
		Replay: func(line string) []Case {
			if strings.HasPrefix(line, "hist ") {
				return replayHist(line)
			}
			return replayCell(line)
		},
		Rule: "declared lengths VARCHAR {0,1,2,254..257,1000,65535,random}, CHAR 0..1023, blob length bytes 1..4 x actual lengths {0,1,255,256,max,random} x arbitrary bytes; NULL/empty/absent via the row-column cases; non-trivial: non-empty payload"})
}

// extraC10: "read as two's complement unless the table mapper marks the column unsigned" end to end — the flag travels
// mapper -> tableCache -> getValuesFromRow / getIdentifiesFromRow -> CellBytes, by table-column ordinal. Histories over
// integer-heavy tables of mixed signedness, partial images (so that the image ordinal and the table ordinal differ),
// values with the top bit set half of the time.
func extraC10(col *Collector, r *RNG, tier string) {
	n := 120
	if tier == "thorough" {
		n = 2500
	}
	var cs []Case
	for i := 0; i < n; i++ {
		h := genAttributionHistory(r, allCfgs[i%len(allCfgs)])
		c := histCase(h, firstFile, 4, "signedness-end-to-end", true, "")
		inner := c.Run
		c.Run = func(resp map[string]string) Outcome {
			o := inner(resp)
			if !o.OracleOK {
				o.FindingKey = "signedness-end-to-end"
			}
			return o
		}
		cs = append(cs, c)
	}
	runCases(col, theDriver, cs)
}

// rowsOnlyHistory: transactions made of rows changes only, over the given tables (used by the end-to-end extras of
// the cell-level properties: the value must survive Rows() -> getValuesFromRow / getIdentifiesFromRow -> ColumnData).
func rowsOnlyHistory(r *RNG, cfg string, tables []*hTable, maxRows int) *hist {
	h := &hist{cfg: cfg, ext: map[string][]string{}, tables: tables, pad: r.Bool()}
	o := histOpts{maxRows: maxRows}
	ts := uint32(1600000000)
	for u, nu := 0, r.Range(1, 4); u < nu; u++ {
		ts++
		unit := hUnit{kind: "tx", ts: ts, begin: "BEGIN", closer: fmt.Sprintf("x%d", u)}
		last := map[uint64]int{} // table id -> index of the definition announced last in this transaction
		for k := r.Range(1, 3); k > 0; k-- {
			ti := r.Intn(len(tables))
			prev, was := last[tables[ti].id]
			unit.changes = append(unit.changes, hChange{rows: genRows(r, h, o, ti, ts, !was || prev != ti || r.Bool())})
			last[tables[ti].id] = ti
		}
		h.units = append(h.units, unit)
	}
	return h
}

func histExtra(class, key string, quick, thorough int, mk func(r *RNG, cfg string) *hist) func(col *Collector, r *RNG, tier string) {
	return func(col *Collector, r *RNG, tier string) {
		n := quick
		if tier == "thorough" {
			n = thorough
		}
		var cs []Case
		for i := 0; i < n; i++ {
			h := mk(r, allCfgs[i%len(allCfgs)])
			c := histCase(h, firstFile, 4, class, true, "")
			inner := c.Run
			c.Run = func(resp map[string]string) Outcome {
				o := inner(resp)
				if !o.OracleOK {
					o.FindingKey = key
				}
				return o
			}
			cs = append(cs, c)
		}
		runCases(col, theDriver, cs)
	}
}

// extraC09: the offset bookkeeping over an image in getValuesFromRow / getIdentifiesFromRow: wide tables of mixed
// types (every cell length class next to every other), partial images, NULLs, several rows per event.
var extraC09 = histExtra("image-walk-end-to-end", "image-walk-end-to-end", 150, 3000, func(r *RNG, cfg string) *hist {
	o := histOpts{maxCols: 17, maxTables: 2, allowTZ: false}
	return rowsOnlyHistory(r, cfg, genTables(r, o), 4)
})

// extraC13: "NULL and absent marking" and the exact bytes of string / blob values end to end: string-heavy tables
// (VARCHAR 1- and 2-byte prefixes, CHAR incl. the 255/256 boundary, the four blob widths, BINARY), NULLs, partial images.
var extraC13 = histExtra("strings-end-to-end", "strings-end-to-end", 150, 3000, func(r *RNG, cfg string) *hist {
	var ts []*hTable
	for i, n := 0, r.Range(1, 2); i < n; i++ {
		t := &hTable{id: uint64(300 + i), db: "s" + randName(r, 2), name: fmt.Sprintf("t%d", i)}
		for c, nc := 0, r.Range(1, 9); c < nc; c++ {
			var k hCol
			switch r.Intn(7) {
			case 0:
				k = hCol{typ: 15, md: r.Pick(1, 20, 255, 256, 300, 65535)}
			case 1:
				k = hCol{typ: 253, md: r.Pick(1, 255, 256, 1000)}
			case 2: // CHAR(n): real type 254 in the high byte, length bits folded in as MySQL does
				l := r.Pick(1, 10, 255, 256, 300, 1020)
				k = hCol{typ: 254, md: ((254 ^ ((l & 0x300) >> 4)) << 8) | (l & 0xff)}
			case 3:
				k = hCol{typ: 252, md: r.Range(1, 4)}
			case 4:
				k = hCol{typ: 255, md: r.Range(1, 4)}
			case 5:
				k = hCol{typ: 3}
			default:
				k = hCol{typ: 252, md: 2}
			}
			k.nullable, k.name = true, fmt.Sprintf("c%d", c)
			t.cols = append(t.cols, k)
		}
		ts = append(ts, t)
		// the same table announced again with other declared lengths (an ALTER ... MODIFY that kept the id): the
		// prefix width of every string cell follows the most recent table map
		if r.Chance(1, 3) {
			v := &hTable{id: t.id, db: t.db, name: t.name}
			for _, c := range t.cols {
				switch c.typ {
				case 15:
					c.md = r.Pick(20, 255, 256, 300, 70)
				case 253:
					c.md = r.Pick(100, 255, 256, 1000)
				case 252, 255:
					c.md = r.Range(1, 4)
				case 254:
					l := r.Pick(10, 255, 256, 300)
					c.md = ((254 ^ ((l & 0x300) >> 4)) << 8) | (l & 0xff)
				}
				v.cols = append(v.cols, c)
			}
			ts = append(ts, v)
		}
	}
	return rowsOnlyHistory(r, cfg, ts, 3)
})

// extraC16: "once the announced algorithm is applied" — the algorithm is announced per binlog file (every file starts
// with its own FORMAT_DESCRIPTION event, itself checksummed): multi-file histories with and without CRC32 through the
// real parseEvents; every event after the second format description must still be stripped and decoded as written.
var extraC16 = histExtra("checksum-across-files", "checksum-across-files", 80, 1600, func(r *RNG, cfg string) *hist {
	o := histOpts{maxUnits: 8, maxStmts: 2, maxRows: 2, maxCols: 5, maxTables: 2, files: true, ignorable: true}
	for {
		h := genHistory(r, o, cfg)
		for _, u := range h.units {
			if u.kind == "rot" || u.kind == "rst" {
				return h
			}
		}
	}
})
