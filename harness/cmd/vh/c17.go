package main

import "strings"

func init() {
	register(&Property{ID: "C17",
		Rule: "byte strings of length 0..64 in structured classes (length field = len, len±1, 0, huge, 18, 19, len+2^16, len+2^24) plus random and longer buffers for the gate and the accessors; well-formed buffers with every other header field at the ends of its domain (next_position 0..4 and 2^32-1, type codes, flags); (stream level) every well-formed event truncated / extended, injected at every index of a generated history. Non-trivial: buffer reaches the length field (>= 13 bytes)",
		Gen:  genC17pure,
		Extra: func(c *Collector, r *RNG, tier string) {
			extraC17(c, r, tier)
			hugeCases(c, "event")
			invalidThenSilence(c, r, tier)
		},
		Replay: func(line string) []Case {
			f := fields(line)
			if strings.HasPrefix(line, "hdr ") {
				return []Case{hdrCase(unhx(f["b"]), "replay")}
			}
			return []Case{isValidCase(unhx(f["b"]), "replay")}
		}})
}

// extraC17 is filled in by the stream-level machinery (stream.go) once histories exist.
var extraC17 = func(c *Collector, r *RNG, tier string) {}
