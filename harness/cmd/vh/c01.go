package main

import (
	"fmt"
	"strings"
)

var allCfgs = []string{"000", "001", "010", "011", "100", "101", "110", "111"}

func genC01(r *RNG, tier string) []Case {
	n := 260
	o := histOpts{maxUnits: 6, maxStmts: 4, maxRows: 5, maxCols: 40, maxTables: 4, files: true, ignorable: true, allowTZ: true, casing: true}
	if tier == "thorough" {
		n = 4000
		o.maxCols = 300
	}
	var cs []Case
	for i := 0; i < n; i++ {
		cfg := allCfgs[i%len(allCfgs)]
		oo := o
		oo.ignorable = i%2 == 0 // GTID events on / off
		if i%9 != 0 && oo.maxCols > 40 {
			oo.maxCols = 40
		}
		h := genHistory(r, oo, cfg)
		nontrivial := false
		for _, u := range h.units {
			if u.kind == "tx" && len(u.changes) > 0 {
				nontrivial = true
			}
		}
		cs = append(cs, histCase(h, firstFile, 4, "hist-cfg"+cfg+"-from-head", nontrivial, ""))
	}
	// a bulk-load transaction (thousands of rows events behind one TABLE_MAP)
	cs = append(cs, histCase(bulkHistory(r, allCfgs[r.Intn(len(allCfgs))], 3000), firstFile, 4, "bulk-transaction", true, ""))
	return cs
}

func replayHist(line string) []Case {
	// replay lines are full driver lines; the history object is only needed for the mapper's tables
	f := fields(line)
	h := &hist{cfg: f["cfg"], ext: map[string][]string{}}
	fmt.Sscan(f["bias"], &h.bias)
	h.pad = f["pad"] == "1"
	h.crcmix = f["crcmix"] == "1"
	if f["noise"] != "" {
		h.noise = strings.Split(f["noise"], ";")
	}
	for _, t := range strings.Split(f["tables"], ";") {
		if t == "" {
			continue
		}
		p := strings.Split(t, ",")
		ht := &hTable{db: string(unhx(p[1])), name: string(unhx(p[2]))}
		fmt.Sscan(p[0], &ht.id)
		for _, c := range strings.Split(p[3], "/") {
			q := strings.Split(c, ".")
			var hc hCol
			fmt.Sscan(q[0], &hc.typ)
			fmt.Sscan(q[1], &hc.md)
			hc.nullable = q[2] == "1"
			hc.name = string(unhx(q[3]))
			hc.unsigned = q[4] == "1"
			ht.cols = append(ht.cols, hc)
		}
		h.tables = append(h.tables, ht)
	}
	pp := strings.Split(f["p"], ":")
	var off int64
	fmt.Sscan(pp[1], &off)
	file := string(unhx(pp[0]))
	return []Case{{Line: line, Class: "replay", Nontrivial: true, Run: func(resp map[string]string) Outcome {
		packets := splitPackets(resp["packets"])
		failAt := -1
		if f["failat"] != "" {
			fmt.Sscan(f["failat"], &failAt)
		}
		impl, calls, _ := runParse(h, packets, file, off, failAt, f["mapper"], f["end"] == "cancel")
		o := Outcome{Impl: normCrash(impl), Model: normCrash(resp["model"]), Spec: resp["spec"], OracleOK: true}
		o.CorrOK = o.Impl == o.Model
		if failAt < 0 && f["mapper"] == "" && f["inject"] == "" && f["cut"] == "" {
			want := "nil@" + resp["endpos"] + "#" + resp["spec"]
			if impl != want {
				o.OracleOK = false
				o.Note = firstDiff(calls, strings.Split(resp["spec"], "&"), impl, want)
			}
		}
		return o
	}}}
}

func init() {
	register(&Property{ID: "C01", Gen: genC01, Replay: replayHist,
		Rule:  "histories from the RBR grammar (<=6 units x <=4 statements x <=4 tables x <=5 rows x <=40 columns quick, <=300 thorough; all supported column types and metadata; NULL/absent patterns biased to byte-boundary column counts) x {crc} x {v1,v2} x {id 4,6} x {GTID/ignorable events on,off}; bytes by the Lean Spec writers; real parseEvents (L1) and real Stream() through the driver against the simulated master (L2) vs Lean model vs Spec `expected`. Non-trivial: at least one transaction with a change",
		Extra: func(c *Collector, r *RNG, tier string) { extraStreamC01(c, r, tier) }})
}

var extraStreamC01 = func(c *Collector, r *RNG, tier string) {}
