package main

import (
	"fmt"
	"os"
	"strconv"
	"strings"
	"time"

	gobinlog "github.com/Breeze0806/gobinlog"
)

// ---- fault scripts -----------------------------------------------------------------------------------

type fault struct {
	kind  string // close rst short badseq err eof cancel handler mapper-err mapper-more mapper-less unsupported invalid none
	at    int    // packet index / handler call index
	pace  string // ahead | lockstep
	code  uint16
	msg   string
	extra []byte
}

func (f fault) String() string { return fmt.Sprintf("%s@%d/%s", f.kind, f.at, f.pace) }

func mkEvent(typ byte, body []byte, crc bool) []byte {
	if crc {
		body = append(append([]byte(nil), body...), 1, 2, 3, 4)
	}
	pk := make([]byte, 19)
	pk[4] = typ
	l := 19 + len(body)
	pk[9], pk[10], pk[11] = byte(l), byte(l>>8), byte(l>>16)
	return append(pk, body...)
}

// scriptFor turns the served packets plus a fault into a master script.
func scriptFor(h *hist, f fault) func(packets [][]byte) []action {
	return func(packets [][]byte) []action {
		var sc []action
		commits := 0
		at := f.at
		if at > len(packets) {
			at = len(packets)
		}
		if (f.kind == "short" || f.kind == "badseq") && at >= len(packets) && len(packets) > 0 {
			at = len(packets) - 1 // these faults need a packet to damage
		}
		for i, p := range packets {
			if i == at {
				switch f.kind {
				case "close":
					return append(sc, action{kind: "close"})
				case "rst":
					return append(sc, action{kind: "rst"})
				case "short":
					return append(sc, action{kind: "short", n: len(p) + 1, data: append([]byte{0}, p[:len(p)/2]...)})
				case "badseq":
					sc = append(sc, action{kind: "badseq", data: p})
					continue
				case "err":
					return append(sc, action{kind: "err", code: f.code, msg: f.msg}, action{kind: "hold"})
				case "eof":
					return append(sc, action{kind: "eof"})
				case "unsupported", "invalid":
					if i >= 2 { // never before the format description
						sc = append(sc, action{kind: "send", data: f.extra})
					}
				case "hold": // stop sending: the reader waits for the network
					return sc
				}
			}
			sc = append(sc, action{kind: "send", data: p})
			if f.pace == "lockstep" && isCommitPacket(p) {
				commits++
				sc = append(sc, action{kind: "wait", n: commits})
			}
		}
		switch f.kind {
		case "close":
			return append(sc, action{kind: "close"})
		case "rst":
			return append(sc, action{kind: "rst"})
		case "err":
			return append(sc, action{kind: "err", code: f.code, msg: f.msg})
		case "hold", "cancel":
			return sc // keep the connection open, silent
		}
		return append(sc, action{kind: "eof"})
	}
}

var faultKinds = []string{"close", "rst", "short", "badseq", "err", "eof", "cancel", "handler", "mapper-err", "mapper-more", "mapper-less", "unsupported", "invalid", "badcell", "badtm"}

// addBadCell appends to the history a table with an ENUM column of pack size 3..8 (its length is computable, so
// Rows() splits the event, but CellBytes rejects the value: a value-level decode failure) and inserts, at a random
// place, a transaction whose rows event holds such a value in the before image only / the after image only / both
// (UPDATE), or in its single image (WRITE, DELETE). Returns the variant for the evidence.
func addBadCell(r *RNG, h *hist) string {
	w := r.Range(3, 8)
	t := &hTable{id: 9001, db: "dbbad", name: "tbad", cols: []hCol{
		{typ: 3, name: "id"}, {typ: 254, md: 247<<8 | w, nullable: true, name: "e"}, {typ: 15, md: 20, nullable: true, name: "s"}}}
	h.tables = append(h.tables, t)
	ti := len(h.tables) - 1
	bad := fmt.Sprintf("en:%d:%d", w, r.Intn(1<<24))
	img := func(badHere bool) []string {
		v := []string{fmt.Sprintf("i:4:%d", r.Intn(1000)), "N", "s:" + hx(r.Bytes(r.Intn(6)))}
		if badHere {
			v[1] = bad
		}
		return v
	}
	variant := r.Pickstr("u-before", "u-before", "u-after", "u-both", "w", "d")
	ts := uint32(1600002000)
	c := &hRows{kind: variant[:1], table: ti, ts: ts, announce: true, pb: []bool{true, true, true}, pa: []bool{true, true, true}}
	nr := r.Range(1, 3)
	badRow := r.Intn(nr)
	for i := 0; i < nr; i++ {
		var row [2][]string
		isBad := i == badRow
		switch variant {
		case "u-before":
			row[0], row[1] = img(isBad), img(false)
		case "u-after":
			row[0], row[1] = img(false), img(isBad)
		case "u-both":
			row[0], row[1] = img(isBad), img(isBad)
		case "w":
			row[1] = img(isBad)
		case "d":
			row[0] = img(isBad)
		}
		c.rows = append(c.rows, row)
	}
	u := hUnit{kind: "tx", ts: ts, begin: "BEGIN", closer: fmt.Sprintf("x%d", r.Intn(1000)), changes: []hChange{{rows: c}}}
	if r.Chance(1, 3) {
		u = hUnit{kind: "ar", rows: c}
	}
	at := r.Intn(len(h.units) + 1)
	h.units = append(h.units[:at], append([]hUnit{u}, h.units[at:]...)...)
	return variant
}

func randFault(r *RNG, h *hist, kind string, npk, ntx int) (fault, attemptOpts) {
	f := fault{kind: kind, at: r.Intn(npk + 1), pace: r.Pickstr("ahead", "lockstep")}
	o := defaultOpts()
	switch kind {
	case "err":
		f.code = uint16(r.Pick(1236, 1045, 2013, 1, 65535))
		f.msg = r.Pickstr("Could not find first log file name in binary log index file", "binlog truncated in the middle of event", "#42000bad thing", "x", "disk 100% full", "could not open bin%log.000007", "%!s(MISSING) %d %v %%",
			"rpc error: code = Canceled desc = context canceled", "context canceled", "EOF", "context deadline exceeded", "invalid connection", "")
	case "cancel":
		if r.Bool() {
			o.cancelAfter = r.Intn(ntx + 1)
			if o.cancelAfter == 0 {
				o.cancelAfter = -1
				o.cancelAtSent = r.Intn(npk + 1)
			}
		} else {
			o.cancelAtSent = r.Intn(npk + 1)
		}
	case "handler":
		o.failAt = r.Intn(ntx + 1)
		o.cancelOnFail = r.Bool()
	case "mapper-err":
		o.mapperMode = fmt.Sprintf("err@%d", r.Intn(len(h.tables)))
	case "mapper-more":
		o.mapperMode = fmt.Sprintf("more@%d", r.Intn(len(h.tables)))
	case "mapper-less":
		o.mapperMode = fmt.Sprintf("less@%d", r.Intn(len(h.tables)))
	case "unsupported":
		f.extra = mkEvent(byte(r.Pick(13, 5, 29)), r.Bytes(17), h.cfg[0] == '1')
		if r.Chance(1, 2) {
			// an event that passes the validity gate, has a type the parser handles, and a body too short to decode
			// (ROTATE without its 8-byte position, QUERY / FORMAT_DESCRIPTION / TABLE_MAP / rows / XID stubs). Only
			// candidates for which the model predicts a clean error are used: where the unchanged body parsers would
			// panic the input is outside what C04 / C17 state (DESIGN §7 C17, "Reading").
			cand := mkEvent(byte(r.Pick(4, 4, 4, 2, 15, 19, 30, 31, 32, 23, 16)), r.Bytes(r.Intn(12)), h.cfg[0] == '1')
			at := f.at
			if at < 2 {
				at = 2
			}
			if r.Chance(1, 2) {
				// a TABLE_MAP for an id the attempt already knows, well framed but cut inside its body, placed after
				// the original (the refresh of a cached table map must not swallow the decode failure)
				if ans, err := theDriver.Ask(h.line(posStr(firstFile, 4))); err == nil {
					pks := splitPackets(fields(ans)["packets"])
					var tms []int
					for i, pk := range pks {
						if len(pk) > 19+12 && pk[4] == 19 {
							tms = append(tms, i)
						}
					}
					if len(tms) > 0 {
						i := tms[r.Intn(len(tms))]
						src := pks[i]
						crc := 0
						if h.cfg[0] == '1' {
							crc = 4
						}
						keep := 19 + 8 + r.Intn(len(src)-19-8-crc)
						cand = append(append([]byte(nil), src[:keep]...), make([]byte, crc)...)
						l := len(cand)
						cand[9], cand[10], cand[11], cand[12] = byte(l), byte(l>>8), byte(l>>16), byte(l>>24)
						at = i + 1 + r.Intn(len(pks)-i)
						f.at = at
					}
				}
			}
			if ans, err := theDriver.Ask(h.line(posStr(firstFile, 4), fmt.Sprintf("inject=%d:%s", at, hx(cand)))); err == nil {
				if m := fields(ans)["model"]; strings.HasPrefix(m, "err@") {
					f.extra = cand
				}
			}
		}
	case "invalid":
		f.extra = r.Bytes(r.Intn(40))
	}
	if r.Chance(1, 3) {
		o.handlerDelay = time.Duration(r.Intn(3)) * time.Millisecond
	}
	o.script = scriptFor(h, f)
	return f, o
}

// causeIsTransport tells whether the master-side fault is a lost connection / protocol failure.
func causeIsTransport(k string) bool {
	return k == "close" || k == "rst" || k == "short" || k == "badseq"
}

func init() {
	// ---- C04 at the Stream level: exactly-once across failed attempts -------------------------------------
	extraStreamC04 = func(col *Collector, r *RNG, tier string) {
		n := 45
		if tier == "thorough" {
			n = 900
		}
		m := sharedMaster()
		o := histOpts{maxUnits: 6, maxStmts: 2, maxRows: 2, maxCols: 5, maxTables: 2, files: true, ignorable: true, allowTZ: false, casing: false}
		for i := 0; i < n; i++ {
			h := genHistory(r, o, allCfgs[i%len(allCfgs)])
			ans, err := theDriver.Ask(h.line(posStr(h.startFile(), 4)))
			if err != nil {
				continue
			}
			f0 := fields(ans)
			full := strings.Split(f0["spec"], "&")
			if f0["spec"] == "" {
				full = nil
			}
			bset := map[string]bool{}
			for _, b := range strings.Split(f0["boundaries"], ",") {
				bset[b] = true
			}
			npk := len(splitPackets(f0["packets"]))
			s, mp := newStreamer(m, h, 77, h.startFile(), 4)
			var accepted []string
			var trace []string
			attempts := r.Range(1, 3)
			ok, note, key := true, "", ""
			for a := 0; a <= attempts && ok; a++ {
				kind := "none"
				opts := defaultOpts()
				var f fault
				if a < attempts {
					kind = faultKinds[(i+a*5)%len(faultKinds)]
					f, opts = randFault(r, h, kind, npk, len(full))
					if r.Chance(1, 5) {
						// the attempt dies before a dump exists (nothing can have been delivered, nothing may move)
						opts.refuse = r.Pickstr("close-on-accept", "handshake-err", "query-err", "rst-after-query")
						f.kind = "refused-" + opts.refuse
					}
				}
				res := runAttempt(s, m, h, mp, opts)
				// the dump request of this attempt shows the position kept by the previous one
				if opts.refuse != "" && len(res.calls) == 0 && res.streamRet != "hang" {
					// the master killed the connection before it looked at a dump request (with "rst-after-query" the
					// replica may have written one that nobody read, and then sees a lost connection: Stream returns nil)
					trace = append(trace, fmt.Sprintf("%s->no-dump,ret=%s,pos=%s", f.String(), clip(res.streamRet, 40), res.nowPos))
					continue
				}
				if len(res.dumps) == 0 && strings.HasPrefix(res.streamRet, "err:") && len(res.calls) == 0 {
					// the attempt ended before a dump was requested (cancelled while connecting): nothing may have moved
					trace = append(trace, fmt.Sprintf("%s->no-dump,ret=%s,pos=%s", f.String(), clip(res.streamRet, 40), res.nowPos))
					continue
				}
				if len(res.dumps) != 1 {
					ok, note, key = false, fmt.Sprintf("attempt %d sent %d dump requests", a, len(res.dumps)), "dump-count"
					break
				}
				reqPos := posStr(res.dumps[0].file, int64(res.dumps[0].pos))
				ans2, _ := theDriver.Ask(h.line(reqPos))
				rest := strings.Join(full[len(accepted):], "&")
				if !bset[reqPos] || stripFirstNow(fields(ans2)["spec"]) != stripFirstNow(rest) {
					ok, key = false, "resume-pos:"+trace2kind(trace)
					note = fmt.Sprintf("attempt %d asked the master for %s, which is not the boundary after the %d accepted transactions; history of attempts: %s", a, reqPos, len(accepted), strings.Join(trace, " ; "))
					break
				}
				accepted = append(accepted, res.accepted...)
				trace = append(trace, fmt.Sprintf("%s->ret=%s,accepted+%d,pos=%s", f.String(), clip(res.streamRet, 40), len(res.accepted), res.nowPos))
				if res.streamRet == "hang" {
					ok, note, key = false, "Stream did not return: "+strings.Join(trace, " ; "), "hang:"+kind
					break
				}
				if len(accepted) > len(full) || strings.Join(accepted, "&") != strings.Join(full[:len(accepted)], "&") {
					ok, key = false, "not-prefix:"+kind
					note = "accepted transactions are not a prefix of the committed ones: " + strings.Join(trace, " ; ")
					break
				}
			}
			if ok && strings.Join(accepted, "&") != f0["spec"] {
				ok, key = false, "exactly-once"
				note = "after the clean attempt the handler had not accepted every committed transaction exactly once: " + strings.Join(trace, " ; ")
			}
			col.AddScenario("stream-fault-sequences", h.line(posStr(h.startFile(), 4))+" # attempts: "+strings.Join(trace, " ; "), true, ok, true, note, key, strings.Join(trace, " ; "), "")
		}
	}

	// ---- C05: termination, nothing left behind, Error() never blocks -------------------------------------------
	register(&Property{ID: "C05",
		Rule:  "real Stream() against the simulated master: every stop cause {cancel, EOF, ERR, close, RST, short packet, out-of-sequence packet, handler error, mapper error/mismatch, unsupported / invalid event, connection refused / handshake error / checksum-query error / reset after the checksum query / dump request that cannot be written (max_allowed_packet)} x stop point (every packet index sampled) x reader state at the stop (waiting for the network: master silent; holding an event: handler slow or blocked with the master ahead) x handler {fast, slow, blocked-at-stop}; long backlogs (100-180 packets pending when the parser stops). Observed: Stream returns within the deadline, then within the deadline the master sees the socket closed, no library-started goroutine remains (runtime.Stack), Error() and a second Error() return, the handler is never entered twice at once nor after Stream returned. Non-trivial: every scenario",
		Extra: extraC05})
	register(&Property{ID: "C06",
		Rule: "real Stream() against the simulated master: stop causes as in C04 x stop points x pacing; ERR codes/messages arbitrary (incl. '#'-prefixed SQL state); decode failures at event level (unsupported / truncated-body events, a truncated TABLE_MAP for an id already announced) and at value level (ENUM of an unexpected pack size in the before / after / both images); observed (Stream result, Error() result): handler/decode/lookup failures give a non-nil Stream error; with a nil Stream result Error() may be nil only for cancel / EOF, must carry the master's message for ERR and a transport error for close / RST / short / out-of-sequence; late cancel after an ERR must not hide it; plus the reader goroutine over a scripted connection for an ERR packet of every error number 1000..2100 and boundary numbers (all 65536 in thorough): the published reason carries the message and is neither the EOF marker nor a cancellation; a table re-announced with fewer / more columns followed by its rows (the held description no longer fits: must be an error). Non-trivial: every scenario",
		Extra: func(c *Collector, r *RNG, tier string) {
			extraC06(c, r, tier)
			errSweep(c, r, tier)
			n := 40
			if tier == "thorough" {
				n = 800
			}
			runCases(c, theDriver, countRedefCases(r, n, "decode-failure-not-reported"))
			reusedStreamer(c, r, tier, "C06")
			panickingConsumer(c, r, tier)
		}})
	register(&Property{ID: "C07",
		Rule: "real Stream() attempts with server ids {0, 1, 65535, 65536, 2^31-1, 2^31, 2^32-1, random}, file names of 0..255 bytes incl. empty, path-like, dotted, blank, NUL, quoted, non-UTF-8 and random-byte names, offsets {4, 2^32-1, 2^31, random}, sequences of up to 4 attempts on one streamer, some refused before the dump, some ending only after the format description was received, the position moved by the caller between attempts; attempts that deliver some transactions and then fail in the handler, followed by an attempt that must ask for the end label of the last accepted transaction; the master decodes the COM_QUERY and COM_BINLOG_DUMP it received. Non-trivial: every scenario",
		Extra: func(c *Collector, r *RNG, tier string) {
			extraC07(c, r, tier)
			reusedStreamer(c, r, tier, "C07")
			concurrentReposition(c, r, tier)
		}})
	register(&Property{ID: "C08",
		Rule:  "real Stream() with handlers that (a) keep deep references and re-read every delivered transaction after the stream ended, (b) overwrite every delivered byte slice; histories with string/blob/bit/set values (sub-slices of the event buffer) and, for every formatted type, one value repeated in all rows (its zero or a non-zero one; all TIMESTAMP columns in the same second), the scribbling run first; packet sizes around the driver's buffer thresholds (4091..4097, 8187..8193, 262139..262145 byte payloads); master far ahead vs lock-step; plus readBinlogEvent over a scripted connection that reuses one buffer; multi-file histories (rotations, restarts) through parseEvents with every delivered transaction - positions included - rendered at delivery and again at the end. Non-trivial: every scenario",
		Extra: extraC08})
}

func trace2kind(trace []string) string {
	if len(trace) == 0 {
		return "first"
	}
	t := trace[len(trace)-1]
	return t[:strings.IndexByte(t, '@')]
}

func smallHistory(r *RNG, cfg string) *hist {
	o := histOpts{maxUnits: 5, maxStmts: 2, maxRows: 2, maxCols: 4, maxTables: 2, files: false, ignorable: true, allowTZ: false, casing: false}
	for {
		h := genHistory(r, o, cfg)
		n := 0
		for _, u := range h.units {
			if u.commits() {
				n++
			}
		}
		if n >= 2 {
			return h
		}
	}
}

func extraC05(col *Collector, r *RNG, tier string) {
	n := 70
	if tier == "thorough" {
		n = 1500
	}
	m := sharedMaster()
	check := func(desc string, res attemptResult, expectConn bool) (bool, string, string) {
		switch {
		case res.streamRet == "hang":
			return false, "Stream did not return within the deadline", "stream-hang"
		case res.errorRet == "blocked" || res.errorRet == "blocked-on-second-call":
			return false, "Error() blocked (" + res.errorRet + ")", "error-blocks"
		case res.overlap:
			return false, "the handler was entered twice at once", "handler-overlap"
		case res.afterReturn:
			return false, "the handler was called after Stream had returned", "handler-after-return"
		case len(res.leaked) > 0:
			return false, "goroutines started by the library remain after Stream returned: " + strings.Join(res.leaked, " | "),
				fmt.Sprintf("goroutine-leak:dump-requested=%v:handshake-completed=%v:frames=[%s]", len(res.dumps) > 0, len(res.queries) > 0, strings.Join(res.leaked, ","))
		case expectConn && res.connected && !res.peerClosed:
			return false, "the master never saw its socket closed", "socket-left-open"
		}
		return true, "", ""
	}
	for i := 0; i < n; i++ {
		h := smallHistory(r, allCfgs[i%len(allCfgs)])
		ans, err := theDriver.Ask(h.line(posStr(firstFile, 4)))
		if err != nil {
			continue
		}
		f0 := fields(ans)
		npk := len(splitPackets(f0["packets"]))
		ntx := len(strings.Split(f0["spec"], "&"))
		s, mp := newStreamer(m, h, 5, firstFile, 4)
		var desc string
		var opts attemptOpts
		var pf *fault
		switch i % 10 {
		case 0: // the attempt fails before a dump exists
			opts = defaultOpts()
			opts.refuse = []string{"cancel-on-query", "close-on-accept", "handshake-err", "query-err", "close-on-query", "rst-after-query", "dump-too-large"}[(i/10)%7]
			if opts.refuse == "dump-too-large" {
				// connection and checksum query succeed, then the COM_BINLOG_DUMP packet cannot be written: the file
				// name makes it larger than the connection's max_allowed_packet (no reader goroutine was started)
				s2, _ := gobinlog.NewStreamer(strings.Replace(m.dsn(), "maxAllowedPacket=67108864", "maxAllowedPacket=200", 1), 5, mp)
				s2.SetBinlogPosition(gobinlog.Position{Filename: randName(r, r.Range(230, 600)), Offset: 4})
				s = s2
				opts.refuse = ""
				desc = "no-dump:dump-packet-too-large"
			} else {
				desc = "no-connection:" + opts.refuse
			}
		case 1: // unreachable master
			s2, _ := gobinlog.NewStreamer("u:p@tcp(127.0.0.1:1)/db", 5, mp)
			s2.SetBinlogPosition(gobinlog.Position{Filename: firstFile, Offset: 4})
			s = s2
			opts = defaultOpts()
			desc = "no-connection:refused"
		case 2, 3: // reader waiting for the network when the stop arrives
			f := fault{kind: "hold", at: r.Intn(npk + 1), pace: "ahead"}
			opts = defaultOpts()
			opts.script = scriptFor(h, f)
			opts.cancelAtSent = f.at
			pf = &f
			desc = "reader-waiting-for-network:cancel@" + fmt.Sprint(f.at)
		case 4, 5: // reader holding an event: handler blocked at the stop, master far ahead
			kind := r.Pickstr("cancel", "close", "err", "eof", "rst")
			f, o2 := randFault(r, h, kind, npk, ntx)
			f.pace = "ahead"
			o2.script = scriptFor(h, f)
			o2.blockAt = r.Intn(ntx)
			if kind == "cancel" {
				o2.cancelAfter, o2.cancelAtSent = -1, npk
			}
			opts = o2
			pf = &f
			desc = "reader-holding-event:handler-blocked:" + f.String()
		case 6: // handler slow, then fails while the master is ahead (F4)
			opts = defaultOpts()
			opts.handlerDelay = 20 * time.Millisecond
			opts.failAt = r.Intn(ntx)
			hf := fault{kind: "hold", at: npk + 1, pace: "ahead"}
			opts.script = scriptFor(h, hf)
			pf = &hf
			desc = "reader-holding-event:handler-slow-then-fails"
			if i%20 == 6 {
				opts.background = true
				pf = nil
				desc += ":background-context"
			}
		case 7: // a long backlog: the parser stops (handler error / cancel) while the master is >100 packets ahead
			h = &hist{cfg: h.cfg, ext: map[string][]string{}, tables: h.tables}
			ts := uint32(1600005000)
			for u, nu := 0, r.Range(100, 180); u < nu; u++ {
				ts++
				h.units = append(h.units, hUnit{kind: "ddl", stmt: genStmt(r, "create", histOpts{}, ts)})
			}
			if ans, err = theDriver.Ask(h.line(posStr(firstFile, 4))); err != nil {
				continue
			}
			f0 = fields(ans)
			npk = len(splitPackets(f0["packets"]))
			ntx = len(strings.Split(f0["spec"], "&"))
			s, mp = newStreamer(m, h, 5, firstFile, 4)
			opts = defaultOpts()
			opts.handlerDelay = 3 * time.Millisecond
			hf := fault{kind: "hold", at: npk + 1, pace: "ahead"}
			opts.script = scriptFor(h, hf)
			if r.Bool() {
				opts.failAt = r.Intn(4)
				desc = "long-backlog:handler-fails-early"
				if r.Bool() {
					// a daemon that never cancels: Stream(context.Background(), …) - a context whose Done() is nil
					opts.background = true
					desc = "long-backlog:handler-fails-early:background-context"
				}
			} else {
				opts.cancelAfter = 1 + r.Intn(3)
				desc = "long-backlog:cancel-early"
			}
			pf = nil
		default:
			kind := faultKinds[r.Intn(len(faultKinds))]
			f, o2 := randFault(r, h, kind, npk, ntx)
			opts = o2
			pf = &f
			desc = "fault:" + f.String()
		}
		if i%5 == 3 {
			opts.slowLog = time.Duration(r.Range(2, 25)) * time.Millisecond
			desc += "+slow-log"
		}
		res := runAttempt(s, m, h, mp, opts)
		ok, note, key := check(desc, res, true)
		corr, model := true, ""
		if pf != nil && ok {
			c, obs, line := protoCheck(h, *pf, opts, res)
			corr, model = c, line
			if !c {
				note = "observed outcome is not allowed by the protocol model: " + obs
			}
		}
		impl := fmt.Sprintf("ret=%s error=%s stream=%s errdur=%s closed=%v leaked=%d", clip(res.streamRet, 60), clip(res.errorRet, 60), res.streamDur.Round(time.Millisecond), res.errorDur.Round(time.Millisecond), res.peerClosed, len(res.leaked))
		if os.Getenv("VERIF_DEBUG") != "" {
			fmt.Fprintf(os.Stderr, "C05 %s -> %s queries=%d dumps=%d\n", desc, impl, len(res.queries), len(res.dumps))
		}
		col.AddScenario(strings.SplitN(desc, ":", 2)[0], desc+" # "+h.line(posStr(firstFile, 4)), true, ok, corr, note, key+" scenario="+desc, impl, model)
	}
	// the reader goroutine and the parser / handler run side by side: what the reader hands over must not be memory it
	// goes on writing to. Event packets larger than the driver's initial read buffer (4 KiB), the master far ahead, a
	// slow handler that keeps what it receives: the visible consequence of such sharing (the race itself is for the
	// thorough tier's race detector) is a delivery that differs from the binlog or changes afterwards.
	for _, size := range []int{5000, 9000, 20000} {
		h := aliasHistory(r, allCfgs[r.Intn(len(allCfgs))], size)
		ans, err := theDriver.Ask(h.line(posStr(firstFile, 4)))
		if err != nil {
			continue
		}
		f0 := fields(ans)
		s, mp := newStreamer(m, h, 8, firstFile, 4)
		opts := defaultOpts()
		opts.deep = true
		opts.handlerDelay = 2 * time.Millisecond
		res := runAttempt(s, m, h, mp, opts)
		ok, note, key := true, "", ""
		if got := strings.Join(res.calls, "&"); got != f0["spec"] {
			ok, key = false, "reader-shares-memory-with-parser"
			note = "event packets of about " + strconv.Itoa(size) + " bytes, master ahead of a slow handler: " + firstDiff(res.calls, strings.Split(f0["spec"], "&"), "x#", "y#")
		} else if !res.snapshotsEqual {
			ok, key, note = false, "reader-shares-memory-with-parser", res.snapshotNote
		}
		col.AddScenario("large-packets-reader-ahead", fmt.Sprintf("packet≈%d # %s", size, clip(h.line(posStr(firstFile, 4)), 300)), true, ok, true, note, key, clip(res.streamRet, 60), "")
	}
}

func extraC06(col *Collector, r *RNG, tier string) {
	n := 140
	if tier == "thorough" {
		n = 2800
	}
	m := sharedMaster()
	for i := 0; i < n; i++ {
		h := smallHistory(r, allCfgs[i%len(allCfgs)])
		ans, err := theDriver.Ask(h.line(posStr(firstFile, 4)))
		if err != nil {
			continue
		}
		f0 := fields(ans)
		npk := len(splitPackets(f0["packets"]))
		ntx := len(strings.Split(f0["spec"], "&"))
		kind := faultKinds[i%len(faultKinds)]
		variant := ""
		var forced *fault
		if kind == "badcell" {
			variant = addBadCell(r, h)
			if ans, err = theDriver.Ask(h.line(posStr(firstFile, 4))); err != nil {
				continue
			}
			f0 = fields(ans)
			npk = len(splitPackets(f0["packets"]))
		}
		if kind == "badtm" {
			// a decode failure the table cache could hide: the truncated TABLE_MAP of an id that is already cached
			kind = "unsupported"
			for try := 0; try < 20; try++ {
				if f2, ok := truncatedKnownTableMap(r, h); ok {
					variant = "known-tablemap-truncated"
					forced = &f2
					break
				}
				h = smallHistory(r, allCfgs[i%len(allCfgs)])
				h.crcmix, h.noise = false, nil
				if ans, err = theDriver.Ask(h.line(posStr(firstFile, 4))); err != nil {
					break
				}
				f0 = fields(ans)
				npk = len(splitPackets(f0["packets"]))
				ntx = len(strings.Split(f0["spec"], "&"))
			}
		}
		f, opts := randFault(r, h, kind, npk, ntx)
		if forced != nil {
			f = *forced
			opts = defaultOpts()
			opts.script = scriptFor(h, f)
		}
		late := kind == "err" && i%2 == 0 || causeIsTransport(kind) && i%3 == 0
		opts.cancelLate = late
		if i%4 == 1 || (kind == "err" || causeIsTransport(kind) || kind == "eof") && r.Bool() {
			opts.slowLog = time.Duration(r.Range(2, 25)) * time.Millisecond
		}
		s, mp := newStreamer(m, h, 6, firstFile, 4)
		res := runAttempt(s, m, h, mp, opts)
		ok, note, key := true, "", ""
		errTextMismatch := ""
		desc := f.String()
		if forced != nil {
			desc += "/" + variant
		}
		if late {
			desc += "+cancel-after-return"
		}
		fail := func(k, n string) { ok, key, note = false, k+":"+kind, n }
		switch kind {
		case "handler", "mapper-err", "mapper-more", "mapper-less", "unsupported", "invalid":
			// these only count when the fault point was actually reached
			reached := true
			if kind == "handler" && opts.failAt >= len(res.calls) {
				reached = false
			}
			if (kind == "unsupported" || kind == "invalid") && (f.at < 2 || f.at >= npk) {
				reached = false
			}
			if strings.HasPrefix(kind, "mapper") && len(mp.calls) == 0 {
				reached = false
			}
			if kind == "mapper-more" || kind == "mapper-less" || kind == "mapper-err" {
				// the mapper is only consulted for the table it was asked about
				idx := 0
				fmt.Sscanf(opts.mapperMode[strings.IndexByte(opts.mapperMode, '@')+1:], "%d", &idx)
				reached = false
				for _, c := range mp.calls {
					if c == h.tables[idx].db+"\x00"+h.tables[idx].name {
						reached = true
					}
				}
			}
			if reached && !strings.HasPrefix(res.streamRet, "err:") {
				fail("stream-error-swallowed", "Stream returned "+clip(res.streamRet, 60)+" although the attempt hit a "+kind+" failure")
			}
		case "badcell":
			desc += "/" + variant
			if !strings.HasPrefix(res.streamRet, "err:") {
				fail("stream-error-swallowed", "Stream returned "+clip(res.streamRet, 60)+" although a rows event ("+variant+") held a value CellBytes rejects (ENUM of an unexpected pack size)")
			}
		case "err":
			if f.at <= npk && res.streamRet == "nil" {
				if !strings.HasPrefix(res.errorRet, "err:") {
					fail("master-error-swallowed", fmt.Sprintf("the master sent ERR %d %q, Stream returned nil and Error() returned %s", f.code, f.msg, clip(res.errorRet, 80)))
				} else {
					want := strings.TrimPrefix(f.msg, "#42000")
					if !strings.Contains(res.errorRet, want) {
						fail("master-message-lost", fmt.Sprintf("Error() = %s does not carry the master's message %q", clip(res.errorRet, 160), f.msg))
					}
					// correspondence with the model of error.go + the driver's MySQLError text
					if ans, err := theDriver.Ask(fmt.Sprintf("errpkt code=%d msg=%s", f.code, hx([]byte(want)))); err == nil {
						if m := string(unhx(fields(ans)["model"])); "err:"+m != res.errorRet {
							errTextMismatch = fmt.Sprintf("Error() text %q differs from the model's %q", clip(res.errorRet, 200), clip(m, 200))
						}
					}
				}
			}
		case "close", "rst", "short", "badseq":
			if res.streamRet == "nil" && !strings.HasPrefix(res.errorRet, "err:") {
				fail("lost-connection-swallowed", "the connection was lost ("+kind+"), Stream returned nil and Error() returned "+clip(res.errorRet, 80))
			}
		case "eof":
			if res.streamRet == "nil" && res.errorRet != "nil" && !strings.HasPrefix(res.errorRet, "err:") {
				fail("error-blocks", "Error() "+res.errorRet)
			}
		case "cancel":
			if res.errorRet == "blocked" {
				fail("error-blocks", "Error() blocked after a cancellation")
			}
		}
		if res.streamRet == "hang" {
			fail("stream-hang", "Stream did not return")
		}
		corr, model := true, ""
		if ok {
			c, obs, line := protoCheck(h, f, opts, res)
			corr, model = c, line
			if !c {
				note = "observed outcome is not allowed by the protocol model: " + obs
			}
			if c && errTextMismatch != "" {
				corr, note = false, errTextMismatch
			}
		}
		col.AddScenario("cause-"+kind, desc+" # "+h.line(posStr(firstFile, 4)), true, ok, corr, note, key+":"+desc,
			fmt.Sprintf("ret=%s error=%s", clip(res.streamRet, 80), clip(res.errorRet, 160)), model)
	}
}

func extraC07(col *Collector, r *RNG, tier string) {
	n := 60
	if tier == "thorough" {
		n = 1500
	}
	m := sharedMaster()
	const want = "SET @master_binlog_checksum=@@global.binlog_checksum"
	for i := 0; i < n; i++ {
		id := []uint32{1, 1<<31 - 1, 1 << 31, 1<<32 - 1, uint32(r.U64()), 0, 65535, 65536}[i%8]
		name := randName(r, []int{1, 2, 17, 254, 255, r.Range(1, 255)}[i%6])
		if i%3 == 1 {
			name = oddFileName(r, i/3)
		}
		off := []int64{4, 1<<32 - 1, 1 << 31, int64(4 + r.Intn(1<<20))}[i%4]
		h := &hist{cfg: "000", ext: map[string][]string{}, tables: []*hTable{{id: 1, db: "d", name: "t", cols: []hCol{{typ: 3, name: "a"}}}}}
		mp := &tblMapper{tables: h.tables}
		s, _ := gobinlog.NewStreamer(m.dsn(), id, mp)
		s.SetBinlogPosition(gobinlog.Position{Filename: name, Offset: off})
		attempts := r.Range(1, 4)
		ok, note, key := true, "", ""
		var seen []string
		expFile, expOff := name, off
		for a := 0; a < attempts && ok; a++ {
			// the master accepts any position here and ends the dump at once with an ERR or EOF
			opts := defaultOpts()
			endKind := r.Pickstr("eof", "err", "close", "cancel")
			// half of the attempts get as far as the format description before they end: what an attempt learned
			// from the master must not change what the next one announces and asks for
			var pre []action
			if r.Bool() {
				if ans, err := theDriver.Ask(h.line(posStr(expFile, expOff))); err == nil {
					for _, pk := range splitPackets(fields(ans)["packets"]) {
						pre = append(pre, action{kind: "send", data: pk})
					}
				}
			}
			streamMuUnlockedOnDump := func(sc *simConn, req dumpReq) []action {
				switch endKind {
				case "err":
					return append(pre, action{kind: "err", code: 1236, msg: "stop"})
				case "close":
					return append(pre, action{kind: "close"})
				case "cancel":
					return pre // then silence: the caller cancels (what one attempt's context did must not reach the next)
				}
				return append(pre, action{kind: "eof"})
			}
			if endKind == "cancel" && len(pre) == 0 {
				endKind = "eof" // a cancel is only placed after the master has answered the dump request with something
			}
			if endKind == "cancel" {
				opts.cancelAtSent = len(pre)
			}
			// some attempts die before a dump exists (refused, handshake error, checksum query rejected): they must
			// leave the stored position alone, and the next attempt must still ask for it
			refused := a < attempts-1 && r.Chance(1, 4)
			if refused {
				opts.refuse = r.Pickstr("close-on-accept", "handshake-err", "query-err", "close-on-query", "close-on-query")
			}
			res := runAttemptCustom(s, m, h, mp, opts, streamMuUnlockedOnDump)
			seen = append(seen, fmt.Sprintf("queries=%q dumps=%d", res.queries, len(res.dumps)))
			switch {
			case refused:
				if len(res.dumps) != 0 {
					ok, key, note = false, "dump-count", fmt.Sprintf("attempt %d (%s) sent %d dump requests", a, opts.refuse, len(res.dumps))
				}
			case len(res.queries) != 1 || res.queries[0] != want:
				ok, key, note = false, "checksum-announcement", fmt.Sprintf("attempt %d: COM_QUERY packets %q, want exactly [%q]", a, res.queries, want)
			case len(res.otherCmds) != 0:
				ok, key, note = false, "extra-commands", fmt.Sprintf("attempt %d sent other commands %v", a, res.otherCmds)
			case len(res.dumps) != 1:
				ok, key, note = false, "dump-count", fmt.Sprintf("attempt %d sent %d dump requests", a, len(res.dumps))
			default:
				d := res.dumps[0]
				if d.serverID != id || d.flags != 0 || d.file != expFile || int64(d.pos) != expOff {
					ok, key = false, "dump-arguments"
					note = fmt.Sprintf("attempt %d: dump request id=%d flags=%d file=%q pos=%d, want id=%d flags=0 file=%q pos=%d", a, d.serverID, d.flags, clip(d.file, 40), d.pos, id, clip(expFile, 40), expOff)
				}
			}
			// nothing was delivered, so the stored position must stay
			p := s.VerifNowPos()
			expFile, expOff = p.Filename, p.Offset
			if expFile != name || expOff != off {
				ok, key, note = false, "position-moved", fmt.Sprintf("the stored position moved to %q:%d although nothing was delivered", expFile, expOff)
			}
			if r.Chance(1, 3) { // the user moves the position between attempts
				name = randName(r, r.Range(1, 255))
				if r.Bool() {
					name = oddFileName(r, r.Intn(64))
				}
				off = int64(4 + r.Intn(1<<30))
				s.SetBinlogPosition(gobinlog.Position{Filename: name, Offset: off})
				expFile, expOff = name, off
			}
		}
		col.AddScenario("handshake", fmt.Sprintf("id=%d file=%s off=%d attempts=%d", id, hx([]byte(name)), off, attempts), true, ok, true, note, key, strings.Join(seen, " ; "), "")
	}
	// "the stored resume position on later attempts": an attempt makes progress and then ends with an error of the
	// parser's own (the handler refuses transaction k, the mapper fails) - the next attempt on the same Streamer must
	// ask for the end label of the last accepted transaction (taken from the Spec's expected labels, not from the
	// Streamer), with the same server id and flags
	for i := 0; i < n/2; i++ {
		h := smallHistory(r, allCfgs[i%len(allCfgs)])
		if i%2 == 1 { // histories that cross file switches (real ROTATE, or a restart announced by the artificial one only)
			for {
				h = genHistory(r, histOpts{maxUnits: 7, maxStmts: 2, maxRows: 2, maxCols: 4, maxTables: 2, files: true, ignorable: true}, allCfgs[i%len(allCfgs)])
				nc := 0
				for _, u := range h.units {
					if u.commits() {
						nc++
					}
				}
				if nc >= 2 && !h.empty && h.bias == 0 {
					break
				}
			}
		}
		if i == 0 || i == 2 {
			// binlog_checksum changed at run time on a quiet master: file 1 under one setting, file 2 under the other and
			// holding nothing but the ROTATE to file 3 (its format description differs from file 1's in the checksum byte
			// only), then transactions in file 3
			b := bulkHistory(r, allCfgs[(i*3+r.Intn(2)*4)%len(allCfgs)], 2)
			b.crcmix = true
			b.units = []hUnit{b.units[0], {kind: "rot", file: "bin.000002"}, {kind: "rot", file: "bin.000003"}, b.units[1], b.units[2]}
			h = b
		}
		line := h.line(posStr(firstFile, 4))
		ans, err := theDriver.Ask(line)
		if err != nil {
			continue
		}
		txs := strings.Split(fields(ans)["spec"], "&")
		if len(txs) < 2 {
			continue
		}
		id := uint32(r.U64()) | 1
		s, mp := newStreamer(m, h, id, firstFile, 4)
		k := r.Intn(len(txs))
		if i == 0 || i == 2 {
			k = len(txs) - 1
		}
		opts := defaultOpts()
		opts.failAt = k
		res1 := runAttempt(s, m, h, mp, opts)
		// what attempt 1 stored must be a boundary of the log from which the master serves exactly the transactions not
		// yet accepted (txs[k:]) - there can be several such boundaries (a ROTATE moves the position without a
		// delivery) - and attempt 2 must ask for exactly the stored position
		stored := s.VerifNowPos()
		storedStr := posStr(stored.Filename, stored.Offset)
		bset := map[string]bool{}
		for _, b := range strings.Split(fields(ans)["boundaries"], ",") {
			bset[b] = true
		}
		restOK := false
		if a2, err := theDriver.Ask(h.line(storedStr)); err == nil {
			restOK = bset[storedStr] && stripFirstNow(fields(a2)["spec"]) == stripFirstNow(strings.Join(txs[k:], "&"))
		}
		res2 := runAttempt(s, m, h, mp, defaultOpts())
		ok, note, key := true, "", ""
		switch {
		case !strings.HasPrefix(res1.streamRet, "err:"):
			ok = true // the failing call was not reached: nothing to say here
		case !restOK:
			ok, key = false, "stored-position-after-failure"
			note = fmt.Sprintf("the handler refused transaction %d; the stored position %s:%d is not a boundary from which exactly the transactions not yet accepted follow", k, stored.Filename, stored.Offset)
		case len(res2.dumps) != 1:
			ok, key, note = false, "dump-count", fmt.Sprintf("the attempt after a handler failure sent %d dump requests", len(res2.dumps))
		default:
			d := res2.dumps[0]
			if d.serverID != id || d.flags != 0 || d.file != stored.Filename || int64(d.pos) != stored.Offset {
				ok, key = false, "dump-arguments-after-failure"
				note = fmt.Sprintf("the handler refused transaction %d; the next attempt asked for id=%d flags=%d file=%q pos=%d, want id=%d flags=0 file=%q pos=%d (the stored resume position)", k, d.serverID, d.flags, clip(d.file, 40), d.pos, id, stored.Filename, stored.Offset)
			}
		}
		col.AddScenario("handshake-after-progress", fmt.Sprintf("handler refuses transaction %d, then a second attempt; %s", k, line), true, ok, true, note, key, fmt.Sprintf("attempt 1: %s; attempt 2 dumps=%d", clip(res1.streamRet, 60), len(res2.dumps)), "")
	}
}

// runAttemptCustom is runAttempt with the master's dump handler supplied by the caller.
func runAttemptCustom(s *gobinlog.Streamer, m *simMaster, h *hist, mp *tblMapper, o attemptOpts, onDump func(sc *simConn, req dumpReq) []action) attemptResult {
	o.script = nil
	customDump = onDump
	defer func() { customDump = nil }()
	return runAttempt(s, m, h, mp, o)
}

var customDump func(sc *simConn, req dumpReq) []action

// ---- C08 -------------------------------------------------------------------------------------------------------------

func aliasHistory(r *RNG, cfg string, blobLen int) *hist {
	h := &hist{cfg: cfg, ext: map[string][]string{}}
	t := &hTable{id: 9, db: "db", name: "t"}
	// string-like columns (sub-slices of the event buffer), zero timestamps, and one column of every formatted
	// type holding the same "zero" value in every row: a decoder that hands out a shared constant for such a value
	// shows up as two delivered values overlapping / as a scribble changing a later delivery
	kinds := []colKind{{15, 300}, {252, 4}, {16, 3<<8 | 4}, {254, stringMd(254, 30)}, {247, 2}, {247, 1}, {7, 0}, {17, 0}, {17, 3}, {255, 2}, {3, 0}, {246, 10<<8 | 2},
		{13, 0}, {10, 0}, {11, 0}, {12, 0}, {19, 0}, {18, 0}, {1, 0}, {8, 0}, {246, 5 << 8}, {254, 247<<8 | 1}, {254, 248<<8 | 2}, {4, 4}, {5, 8}}
	for i, k := range kinds {
		t.cols = append(t.cols, hCol{typ: k.typ, md: k.md, nullable: true, name: fmt.Sprintf("c%d", i)})
	}
	h.tables = []*hTable{t}
	ts := uint32(1600000000)
	// every formatted (non-string) column holds ONE value in all rows of the history: its zero, or — half of the
	// time — one non-zero value chosen once (a decoder that caches / shares its last rendering shows up only then)
	zeroOf := func(c hCol) string {
		switch {
		case c.typ == 7:
			return "ts:0"
		case c.typ == 17 && c.md == 0:
			return "ts2:0:0"
		case c.typ == 13:
			return "y:0"
		case c.typ == 10:
			return "d:0:0:0"
		case c.typ == 11:
			return "t:0:0:0:0"
		case c.typ == 12:
			return "dt:0:0:0:0:0:0"
		case c.typ == 19:
			return "t2:0:0:0:0:0"
		case c.typ == 18:
			return "dt2:0:0:0:0:0:0:0"
		case c.typ == 1:
			return "i:1:0"
		case c.typ == 8:
			return "i:8:0"
		case c.typ == 246 && c.md == 5<<8:
			return "dec:0:00000:"
		case c.typ == 254 && c.md == 247<<8|1:
			return "en:1:0"
		case c.typ == 254 && c.md == 248<<8|2:
			return "set:2:0"
		case c.typ == 4:
			h.ext["f32"] = append(h.ext["f32"], strings.TrimPrefix(f32ext(0), "f32="))
			return "f32:0"
		case c.typ == 5:
			h.ext["f64"] = append(h.ext["f64"], strings.TrimPrefix(f64ext(0), "f64="))
			return "f64:0"
		}
		return ""
	}
	fixed := make([]string, len(t.cols))
	sameSec := uint32(0) // all TIMESTAMP columns of the history show the same second (in half of the histories)
	if r.Bool() {
		sameSec = 1 + uint32(r.U64()%4000000000)
		e := strings.Split(tzext(sameSec), " ")
		h.ext["tz"] = append(h.ext["tz"], strings.TrimPrefix(e[0], "tz="))
		h.ext["civil"] = append(h.ext["civil"], strings.TrimPrefix(e[1], "civil="))
	}
	for i, c := range t.cols {
		if z := zeroOf(c); z != "" || c.typ == 17 || c.typ == 3 || c.typ == 246 {
			fixed[i] = z
			if z == "" || r.Bool() {
				fixed[i] = fixInt(randValue(r, colKind{c.typ, c.md}, h.ext), c)
			}
			if sameSec != 0 && c.typ == 7 {
				fixed[i] = fmt.Sprintf("ts:%d", sameSec)
			}
			if sameSec != 0 && c.typ == 17 {
				fixed[i] = fmt.Sprintf("ts2:%d:%d", sameSec, r.Intn([]int{1, 10, 100, 1000, 10000, 100000, 1000000}[c.md]))
			}
		}
	}
	mkrow := func(blob int) []string {
		var vs []string
		for i, c := range t.cols {
			switch {
			case c.typ == 252:
				vs = append(vs, "s:"+hx(r.Bytes(blob)))
			case fixed[i] != "":
				vs = append(vs, fixed[i])
			default:
				vs = append(vs, fixInt(randValue(r, colKind{c.typ, c.md}, h.ext), c))
			}
		}
		return vs
	}
	full := make([]bool, len(t.cols))
	for i := range full {
		full[i] = true
	}
	nu := r.Range(3, 6)
	for u := 0; u < nu; u++ {
		ts++
		c := &hRows{kind: "w", table: 0, ts: ts, pb: full, pa: full, announce: true}
		nr := r.Range(1, 3)
		for k := 0; k < nr; k++ {
			bl := r.Intn(40)
			if u == 1 && k == 0 {
				bl = blobLen
			}
			c.rows = append(c.rows, [2][]string{nil, mkrow(bl)})
		}
		if r.Bool() {
			h.units = append(h.units, hUnit{kind: "ar", rows: c})
		} else {
			h.units = append(h.units, hUnit{kind: "tx", ts: ts, begin: "BEGIN", closer: "x1", changes: []hChange{{rows: c}}})
		}
	}
	return h
}

// rereadCheck: every delivered transaction - positions, timestamp, events, values - is rendered at delivery time and
// again after the whole history (further transactions, rotations, restarts, ignorable events) went through the real
// parseEvents; the two renderings must be identical.
func rereadCheck(col *Collector, h *hist) {
	line := h.line(posStr(firstFile, 4))
	ans, err := theDriver.Ask(line)
	if err != nil {
		return
	}
	_, calls, _ := runParse(h, splitPackets(fields(ans)["packets"]), firstFile, 4, -1, "", false)
	// ... and once more with a handler that REFUSES one of the transactions: what it was handed stays the caller's to
	// read (log it, retry it) after the attempt ended with that error
	if len(calls) > 0 {
		k := len(line) % len(calls)
		_, calls2, _ := runParse(h, splitPackets(fields(ans)["packets"]), firstFile, 4, k, "", false)
		for _, c := range calls2 {
			if strings.Contains(c, "!changed-after-delivery:") {
				calls = append(calls, c)
			}
		}
	}
	ok, note := true, ""
	for i, c := range calls {
		if k := strings.Index(c, "!changed-after-delivery:"); k >= 0 {
			ok = false
			note = fmt.Sprintf("transaction %d read %s at delivery and %s after the stream went on", i, clip(c[:k], 160), clip(c[k+24:], 160))
			break
		}
	}
	col.AddScenario("reread-after-parse", line, len(calls) > 1, ok, true, note, "changed-after-delivery", fmt.Sprintf("%d transactions re-read", len(calls)), "")
}

func extraC08(col *Collector, r *RNG, tier string) {
	m := sharedMaster()
	np := 40
	if tier == "thorough" {
		np = 800
	}
	po := histOpts{maxUnits: 5, maxStmts: 3, maxRows: 3, maxCols: 16, maxTables: 3, files: true, ignorable: true, allowTZ: true, casing: false}
	for i := 0; i < np; i++ {
		hh := genHistory(r, po, allCfgs[i%len(allCfgs)])
		provenanceCheck(col, hh)
		reusedBufferCheck(col, hh)
		rereadCheck(col, hh)
	}
	for i := 0; i < np/4; i++ {
		provenanceCheck(col, aliasHistory(r, allCfgs[i%len(allCfgs)], r.Intn(50)))
	}
	rereadCheck(col, bulkHistory(r, allCfgs[r.Intn(len(allCfgs))], 1500)) // a transaction of 1500 events, kept and re-read
	targets := []int{0, 4091, 4092, 4093, 4094, 4095, 4096, 4097, 8187, 8190, 8192, 8193}
	if tier == "thorough" {
		targets = append(targets, 262139, 262140, 262141, 262142, 262143, 262144, 262145, 16383, 16384, 16385)
	}
	reps := 2
	if tier == "thorough" {
		reps = 12
	}
	for _, target := range targets {
		for rep := 0; rep < reps; rep++ {
			cfg := allCfgs[(target+rep)%len(allCfgs)]
			seed := r.U64()
			// tune the blob so that the packet payload (1 + event) has exactly `target` bytes
			blob := 10
			var h *hist
			for iter := 0; iter < 4; iter++ {
				h = aliasHistory(NewRNG(seed), cfg, blob)
				if target == 0 {
					break
				}
				ans, err := theDriver.Ask(h.line(posStr(firstFile, 4)))
				if err != nil {
					break
				}
				max := 0
				for _, p := range splitPackets(fields(ans)["packets"]) {
					if len(p)+1 > max {
						max = len(p) + 1
					}
				}
				if max == target {
					break
				}
				blob += target - max
				if blob < 0 {
					blob = 0
				}
			}
			ans, err := theDriver.Ask(h.line(posStr(firstFile, 4)))
			if err != nil {
				continue
			}
			f0 := fields(ans)
			// a scribbling run comes first: process-wide decoder state (a cache of the last rendering, say) is then
			// still that of the previous history, so its first values are computed, not reused
			for _, mode := range []string{"scribble-ahead", "deep-ahead", "scribble-slow", "deep-lockstep"} {
				s, mp := newStreamer(m, h, 8, firstFile, 4)
				opts := defaultOpts()
				opts.deep = strings.HasPrefix(mode, "deep")
				opts.scribble = strings.HasPrefix(mode, "scribble")
				switch mode {
				case "deep-lockstep":
					opts.script = func(p [][]byte) []action { return lockStep(h, p) }
				case "scribble-slow", "deep-ahead":
					opts.handlerDelay = 2 * time.Millisecond // later packets arrive before the handler returns
				}
				res := runAttempt(s, m, h, mp, opts)
				ok, note, key := true, "", ""
				got := strings.Join(res.calls, "&")
				if got != f0["spec"] {
					ok, key = false, "delivered-value-altered"
					note = "with a handler that " + map[bool]string{true: "overwrites what it receives", false: "keeps what it receives"}[opts.scribble] + ", a delivery differs from the binlog: " +
						firstDiff(res.calls, strings.Split(f0["spec"], "&"), "x#", "y#")
				}
				if !ok && os.Getenv("VERIF_DEBUG") != "" {
					fmt.Fprintf(os.Stderr, "C08 ret=%s err=%s\n", clip(res.streamRet, 300), clip(res.errorRet, 100))
					gs, ws := strings.Split(got, ","), strings.Split(f0["spec"], ",")
					for k := range gs {
						if k >= len(ws) || gs[k] != ws[k] {
							w := ""
							if k < len(ws) {
								w = ws[k]
							}
							fmt.Fprintf(os.Stderr, "C08 diff at field %d: got %s want %s\n", k, clip(gs[k], 200), clip(w, 200))
							break
						}
					}
				}
				if opts.deep && !res.snapshotsEqual {
					ok, key, note = false, "delivered-value-unstable", res.snapshotNote
				}
				col.AddScenario("alias-"+mode, fmt.Sprintf("packet=%d mode=%s # %s", target, mode, clip(h.line(posStr(firstFile, 4)), 300)), true, ok, true, note, key, clip(got, 200), clip(f0["spec"], 200))
			}
		}
	}
}

// oddFileName: "all binlog file names" — the name is opaque bytes to the replica: the empty name (MySQL's "first
// binlog"), path-like names (a replica must not normalise them), dots, blanks, NUL, quotes, non-UTF-8 bytes.
func oddFileName(r *RNG, k int) string {
	base := "mysql-bin." + fmt.Sprintf("%06d", r.Intn(1000000))
	switch k % 16 {
	case 0:
		return ""
	case 1:
		return "./" + base
	case 2:
		return "relay/" + base
	case 3:
		return base + "/"
	case 4:
		return "/var/lib/mysql/" + base
	case 5:
		return "..\\" + base
	case 6:
		return "."
	case 7:
		return ".."
	case 8:
		return " " + base + " "
	case 9:
		return base + "\x00tail"
	case 10:
		return "'" + base + "\""
	case 11:
		return string([]byte{0xff, 0xfe, 0x80}) + base
	case 12:
		return "a//b/../" + base
	case 13:
		return "C:\\binlog\\" + base
	case 14:
		return string(r.Bytes(r.Range(1, 40)))
	}
	return base + "." + randName(r, 3)
}

// truncatedKnownTableMap builds a fault for "a TABLE_MAP of an id the attempt already knows, well framed but cut inside
// its body, sent after the original": returns ok=false when the history has no TABLE_MAP or the model does not
// predict a clean error for any of the tried cuts.
func truncatedKnownTableMap(r *RNG, h *hist) (fault, bool) {
	ans, err := theDriver.Ask(h.line(posStr(firstFile, 4)))
	if err != nil {
		return fault{}, false
	}
	pks := splitPackets(fields(ans)["packets"])
	var tms []int
	for i, pk := range pks {
		if len(pk) > 19+12 && pk[4] == 19 {
			tms = append(tms, i)
		}
	}
	if len(tms) == 0 {
		return fault{}, false
	}
	crc := 0
	if h.cfg[0] == '1' && !h.crcmix {
		crc = 4
	}
	for try := 0; try < 12; try++ {
		i := tms[r.Intn(len(tms))]
		src := pks[i]
		if len(src)-19-8-crc <= 0 {
			continue
		}
		keep := 19 + 8 + r.Intn(len(src)-19-8-crc)
		cand := append(append([]byte(nil), src[:keep]...), make([]byte, crc)...)
		l := len(cand)
		cand[9], cand[10], cand[11], cand[12] = byte(l), byte(l>>8), byte(l>>16), byte(l>>24)
		at := i + 1 + r.Intn(len(pks)-i)
		if a2, err := theDriver.Ask(h.line(posStr(firstFile, 4), fmt.Sprintf("inject=%d:%s", at, hx(cand)))); err == nil {
			if strings.HasPrefix(fields(a2)["model"], "err@") {
				return fault{kind: "unsupported", at: at, pace: r.Pickstr("ahead", "lockstep"), extra: cand}, true
			}
		}
	}
	return fault{}, false
}
