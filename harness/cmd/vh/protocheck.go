package main

import (
	"fmt"
	"strings"
)

// protoCheck asks the Lean protocol model (GV/Model/Proto.lean) for the set of outcomes it allows for the
// stimulus of a scenario and tells whether the observed outcome is among them (correspondence for C05 / C06).
func protoCheck(h *hist, f fault, o attemptOpts, res attemptResult) (bool, string, string) {
	if len(res.dumps) == 0 {
		// the attempt ended before the dump started (cancelled while connecting): the protocol model starts after that
		return true, "", ""
	}
	args := []string{}
	if o.mapperMode != "" {
		args = append(args, "mapper="+o.mapperMode)
	}
	base, err := theDriver.Ask(h.line(posStr(firstFile, 4)))
	if err != nil {
		return true, "", ""
	}
	npk := len(splitPackets(fields(base)["packets"]))
	at := f.at
	if at > npk {
		at = npk
	}
	if (f.kind == "short" || f.kind == "badseq") && at >= npk && npk > 0 {
		at = npk - 1
	}
	injected := (f.kind == "unsupported" || f.kind == "invalid") && at >= 2 && at < npk
	if injected {
		args = append(args, fmt.Sprintf("inject=%d:%s", at, hx(f.extra)))
	}
	ans, err := theDriver.Ask(h.line(posStr(firstFile, 4), args...))
	if err != nil {
		return true, "", ""
	}
	vd := fields(ans)["vd"]
	total := npk
	if injected {
		total++
	}
	var pk strings.Builder
	for i := 0; i < total; i++ {
		if i == at && !injected {
			switch f.kind {
			case "close", "rst", "short", "badseq", "err":
				pk.WriteByte('F')
				goto done
			case "eof":
				pk.WriteByte('E')
				goto done
			case "hold":
				goto done
			}
		}
		pk.WriteByte('e')
	}
	switch f.kind {
	case "close", "rst", "err":
		pk.WriteByte('F')
	case "hold", "cancel":
	default:
		pk.WriteByte('E')
	}
done:
	cancel := "never"
	if o.cancelAfter >= 0 || o.cancelAtSent >= 0 {
		cancel = "anytime"
	} else if o.cancelLate {
		cancel = "late"
	}
	line := fmt.Sprintf("proto pk=%s vd=%s cancel=%s", pk.String(), vd, cancel)
	if o.failAt >= 0 {
		line += fmt.Sprintf(" hfail=%d", o.failAt)
	}
	out, err := theDriver.Ask(line)
	if err != nil {
		return true, "", line
	}
	allowed := strings.Split(fields(out)["outcomes"], "|")
	ret := "ret:" + strings.SplitN(res.streamRet, ":", 2)[0]
	er := "err:" + strings.SplitN(res.errorRet, ":", 2)[0]
	reader := "reader:done"
	if len(res.leaked) > 0 {
		reader = "reader:left"
	}
	obs := ret + "," + er + "," + reader
	for _, a := range allowed {
		if a == obs {
			return true, obs, line
		}
	}
	return false, obs + " not in {" + strings.Join(allowed, " | ") + "}", line
}
