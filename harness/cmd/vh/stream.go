package main

import (
	"context"
	"fmt"
	"os"
	"runtime"
	"sort"
	"strings"
	"sync"
	"sync/atomic"
	"time"

	gobinlog "github.com/Breeze0806/gobinlog"
)

// ---- one Stream() attempt against the simulated master (L2) ---------------------------------------

var attemptSeq int32

type attemptOpts struct {
	failAt       int           // handler call index that fails (-1: never)
	handlerDelay time.Duration // per call
	blockAt      int           // handler call index that blocks until released by the stop (-1: never)
	cancelAfter  int           // cancel once this many handler calls completed (-1: never)
	slowLog      time.Duration // > 0: the library logs at debug level into a sink that stalls each call up to this long
	cancelAtSent int           // cancel once the master has written this many event packets (-1: never)
	cancelLate   bool          // cancel after Stream returned, before Error()
	mapperMode   string
	script       func(packets [][]byte) []action
	scribble     bool // handler overwrites every delivered byte slice after snapshotting
	deep         bool // keep deep snapshots for the stability check
	refuse       string
	cancelOnFail bool // the failing handler call cancels the caller's context first
	panicOnFail  bool // the failing handler call panics instead of returning an error
	background   bool // Stream is given a context that can never be cancelled (context.Background())
}

func defaultOpts() attemptOpts {
	return attemptOpts{failAt: -1, blockAt: -1, cancelAfter: -1, cancelAtSent: -1}
}

type attemptResult struct {
	calls          []string
	accepted       []string
	streamRet      string // nil | err:<text> | hang
	errorRet       string // nil | err:<text> | blocked
	streamDur      time.Duration
	errorDur       time.Duration
	dumps          []dumpReq
	queries        []string
	otherCmds      []byte
	connected      bool
	peerClosed     bool
	leaked         []string
	overlap        bool // two handler calls at once
	afterReturn    bool // handler called after Stream returned
	nowPos         string
	served         int // packets the script contained
	snapshotsEqual bool
	snapshotNote   string
}

// libraryGoroutines lists goroutines started by gobinlog or by its driver: id -> "top frame".
func libraryGoroutines() map[string]string {
	buf := make([]byte, 1<<20)
	n := runtime.Stack(buf, true)
	out := map[string]string{}
	for _, g := range strings.Split(string(buf[:n]), "\n\n") {
		if strings.Contains(g, "created by github.com/Breeze0806/gobinlog") || strings.Contains(g, "created by github.com/Breeze0806/mysql") {
			lines := strings.SplitN(g, "\n", 3)
			top := ""
			if len(lines) > 1 {
				top = strings.TrimSpace(lines[1])
			}
			if i := strings.IndexByte(top, '('); i > 0 && strings.HasSuffix(top, ")") {
				// drop the argument list
				if j := strings.LastIndexByte(top, '('); j > 0 {
					top = top[:j]
				}
			}
			id := strings.Fields(lines[0])
			if len(id) >= 2 {
				out[id[1]] = strings.TrimPrefix(top, "github.com/Breeze0806/")
			}
		}
	}
	return out
}

var streamMu sync.Mutex // Stream-level scenarios run one at a time (goroutine-leak observation is process wide)

func runAttempt(s *gobinlog.Streamer, m *simMaster, h *hist, mapper *tblMapper, o attemptOpts) attemptResult {
	streamMu.Lock()
	defer streamMu.Unlock()
	if journalPath != "" && h != nil {
		journal("stream-level scenario over " + h.line(posStr(firstFile, 4)))
	}
	var res attemptResult
	res.snapshotsEqual = true
	if o.slowLog > 0 {
		defer slowLog(o.slowLog)()
	}
	preexisting := libraryGoroutines()
	mapper.mode = o.mapperMode
	m.resetProgress()
	before := m.connCount()
	m.mu.Lock()
	m.refuse = o.refuse
	m.mu.Unlock()
	var sentTotal int32
	m.onDump = func(sc *simConn, req dumpReq) []action {
		if customDump != nil {
			return customDump(sc, req)
		}
		ans, err := theDriver.Ask(h.line(posStr(req.file, int64(req.pos))))
		if err != nil {
			return []action{{kind: "err", code: 1236, msg: "driver failure"}}
		}
		f := fields(ans)
		ok := false
		for _, b := range strings.Split(f["boundaries"], ",") {
			if b == posStr(req.file, int64(req.pos)) {
				ok = true
			}
		}
		if !ok {
			return []action{{kind: "err", code: 1236, msg: "Client requested master to start replication from impossible position"}}
		}
		packets := withQueryErrors(h, splitPackets(f["packets"]))
		atomic.StoreInt32(&sentTotal, int32(len(packets)))
		if o.script != nil {
			return o.script(packets)
		}
		var sc2 []action
		for _, p := range packets {
			sc2 = append(sc2, action{kind: "send", data: p})
		}
		return append(sc2, action{kind: "eof"})
	}
	ctx, cancel := context.WithCancel(context.Background())
	defer cancel()
	m.mu.Lock()
	m.onQuery = nil
	if o.refuse == "cancel-on-query" {
		m.onQuery = cancel
	}
	m.mu.Unlock()
	var inHandler, returned int32
	var ncalls int32
	release := make(chan struct{})
	var snaps []*gobinlog.Transaction
	var snapTexts []string
	handler := func(t *gobinlog.Transaction) error {
		if atomic.AddInt32(&inHandler, 1) > 1 {
			res.overlap = true
		}
		defer atomic.AddInt32(&inHandler, -1)
		if atomic.LoadInt32(&returned) == 1 {
			res.afterReturn = true
		}
		i := int(atomic.LoadInt32(&ncalls))
		txt := showTx(t)
		res.calls = append(res.calls, txt)
		if o.deep {
			snaps = append(snaps, t)
			snapTexts = append(snapTexts, txt)
		}
		if o.handlerDelay > 0 {
			time.Sleep(o.handlerDelay)
		}
		if o.blockAt == i {
			select {
			case <-release:
			case <-time.After(1500 * time.Millisecond):
			}
			// a consumer does not notice the stop at once: it is still inside the call for a while after the stop was
			// issued - Stream must wait for it ("the handler is only ever called from within Stream")
			time.Sleep(120 * time.Millisecond)
		}
		if o.scribble {
			scribbleTx(t)
		}
		atomic.AddInt32(&ncalls, 1)
		m.progress(int(atomic.LoadInt32(&ncalls)))
		if o.cancelAfter >= 0 && int(atomic.LoadInt32(&ncalls)) == o.cancelAfter {
			cancel()
		}
		if o.failAt == i {
			if o.cancelOnFail {
				cancel()
			}
			if o.panicOnFail {
				atomic.AddInt32(&inHandler, -1)
				atomic.AddInt32(&inHandler, 1)
				var nilMap map[string]int
				nilMap["consumer bug"] = 1 // panics
			}
			return fmt.Errorf("handler failure (injected)")
		}
		res.accepted = append(res.accepted, txt)
		return nil
	}
	if o.cancelAtSent >= 0 {
		go func() {
			deadline := time.Now().Add(3 * time.Second)
			for time.Now().Before(deadline) {
				if c := m.lastConn(); c != nil && m.connCount() > before {
					c.mu.Lock()
					n := c.sent
					c.mu.Unlock()
					if n >= o.cancelAtSent {
						break
					}
				}
				time.Sleep(200 * time.Microsecond)
			}
			cancel()
			close(release)
		}()
	}
	if o.cancelAfter >= 0 || o.cancelAtSent >= 0 {
		// safety net: a cancel whose trigger point is never reached still happens
		go func() {
			select {
			case <-time.After(400 * time.Millisecond):
				cancel()
			case <-ctx.Done():
			}
		}()
	}
	done := make(chan error, 1)
	t0 := time.Now()
	go func() {
		defer func() {
			if r := recover(); r != nil {
				done <- fmt.Errorf("PANIC in Stream: %v", r)
			}
		}()
		if o.background {
			done <- s.Stream(context.Background(), handler)
			return
		}
		done <- s.Stream(ctx, handler)
	}()
	select {
	case err := <-done:
		atomic.StoreInt32(&returned, 1)
		if atomic.LoadInt32(&inHandler) > 0 {
			// Stream returned while a handler call was still in progress; let that call finish before its results are read
			for w := 0; w < 2000 && atomic.LoadInt32(&inHandler) > 0; w++ {
				time.Sleep(time.Millisecond)
			}
			res.afterReturn = true
		}
		res.streamDur = time.Since(t0)
		if err != nil && strings.HasPrefix(err.Error(), "PANIC in Stream") {
			res.streamRet = "panic:" + err.Error()
		} else if err != nil {
			res.streamRet = "err:" + err.Error()
		} else {
			res.streamRet = "nil"
		}
	case <-time.After(6 * time.Second):
		res.streamRet = "hang"
		atomic.StoreInt32(&returned, 1)
		cancel()
	}
	if o.cancelLate {
		cancel()
	}
	// "within bounded time of its return ... no goroutine started by the library remains": whether or not the caller ever
	// asks Error() for the reason. Every other attempt looks for leftovers BEFORE the first Error() call (a reader that
	// only gets away once somebody drains the reason channel is a leftover).
	leakCheck := func(wait time.Duration) []string {
		deadline := time.Now().Add(wait)
		for {
			var left []string
			for id, top := range libraryGoroutines() {
				if _, was := preexisting[id]; !was {
					left = append(left, top)
				}
			}
			sort.Strings(left)
			if len(left) == 0 || time.Now().After(deadline) {
				return left
			}
			time.Sleep(2 * time.Millisecond)
		}
	}
	var leftBeforeError []string
	if atomic.AddInt32(&attemptSeq, 1)%2 == 0 && res.streamRet != "hang" {
		leftBeforeError = leakCheck(1500 * time.Millisecond)
	}
	// Error() must return
	ed := make(chan error, 1)
	t1 := time.Now()
	go func() { ed <- s.Error() }()
	select {
	case err := <-ed:
		res.errorDur = time.Since(t1)
		if err != nil {
			res.errorRet = "err:" + err.Error()
		} else {
			res.errorRet = "nil"
		}
	case <-time.After(2 * time.Second):
		res.errorRet = "blocked"
	}
	// a second call must return as well
	ed2 := make(chan struct{})
	go func() { s.Error(); close(ed2) }()
	select {
	case <-ed2:
	case <-time.After(2 * time.Second):
		if res.errorRet != "blocked" {
			res.errorRet = "blocked-on-second-call"
		}
	}
	if os.Getenv("VH_TIMING") != "" {
		fmt.Fprintf(os.Stderr, "timing: stream=%v error=%v\n", res.streamDur, res.errorDur)
	}
	tA := time.Now()
	p := s.VerifNowPos()
	res.nowPos = posStr(p.Filename, p.Offset)
	res.served = int(atomic.LoadInt32(&sentTotal))
	// the master's view
	if m.connCount() > before {
		res.connected = true
		c := m.lastConn()
		deadline := time.Now().Add(2 * time.Second)
		for time.Now().Before(deadline) {
			c.mu.Lock()
			pc := c.peerClosed
			c.mu.Unlock()
			if pc {
				break
			}
			closed := false
			select {
			case <-c.done:
				closed = true
			default:
			}
			if closed {
				break
			}
			time.Sleep(time.Millisecond)
		}
		c.mu.Lock()
		res.peerClosed = c.peerClosed
		res.dumps = append(res.dumps, c.dumps...)
		res.queries = append(res.queries, c.queries...)
		res.otherCmds = append(res.otherCmds, c.otherCmds...)
		c.mu.Unlock()
		select {
		case <-c.done:
			res.peerClosed = true // the master's serving goroutine ended: the socket is gone on both sides
		default:
		}
	}
	// no goroutine started by the library may remain
	res.leaked = leakCheck(1500 * time.Millisecond)
	if len(res.leaked) == 0 && len(leftBeforeError) > 0 {
		for _, l := range leftBeforeError {
			res.leaked = append(res.leaked, l+" (until Error() was called)")
		}
	}
	if os.Getenv("VH_TIMING") != "" {
		fmt.Fprintf(os.Stderr, "timing: after=%v leaked=%v closed=%v\n", time.Since(tA), res.leaked, res.peerClosed)
	}
	if o.deep {
		for i, t := range snaps {
			if got := showTx(t); got != snapTexts[i] {
				res.snapshotsEqual = false
				res.snapshotNote = fmt.Sprintf("transaction %d changed after delivery: at delivery %s, after the stream ended %s", i, clip(snapTexts[i], 300), clip(got, 300))
				break
			}
		}
	}
	select {
	case <-release:
	default:
		if o.cancelAtSent < 0 {
			close(release)
		}
	}
	return res
}

// scribbleTx overwrites every byte slice reachable from a delivered transaction.
func scribbleTx(t *gobinlog.Transaction) {
	for _, e := range t.Events {
		for _, rs := range [][]*gobinlog.RowData{e.RowValues, e.RowIdentifies} {
			for _, r := range rs {
				for _, c := range r.Columns {
					for i := range c.Data {
						c.Data[i] = 'X'
					}
				}
			}
		}
	}
}

func newStreamer(m *simMaster, h *hist, serverID uint32, file string, off int64) (*gobinlog.Streamer, *tblMapper) {
	mp := &tblMapper{tables: h.tables}
	s, _ := gobinlog.NewStreamer(m.dsn(), serverID, mp)
	s.SetBinlogPosition(gobinlog.Position{Filename: file, Offset: off})
	return s, mp
}

// sendAll: the plain script (all packets, then EOF).
func sendAll(packets [][]byte) []action {
	var sc []action
	for _, p := range packets {
		sc = append(sc, action{kind: "send", data: p})
	}
	return append(sc, action{kind: "eof"})
}

// lockStep: the master sends a packet only after the handler finished the transactions delivered so far.
func lockStep(h *hist, packets [][]byte) []action {
	var sc []action
	commits := 0
	for _, p := range packets {
		sc = append(sc, action{kind: "send", data: p})
		if isCommitPacket(p) {
			commits++
			sc = append(sc, action{kind: "wait", n: commits})
		}
	}
	return append(sc, action{kind: "eof"})
}

// isCommitPacket is a harness-side heuristic used only for pacing (never for an oracle): XID or a query whose
// text is commit/rollback, or any DDL outside a transaction — waiting a bit too often or too rarely only changes timing.
func isCommitPacket(p []byte) bool {
	return len(p) > 4 && p[4] == 16
}

func sharedMaster() *simMaster {
	masterOnce.Do(func() {
		m, err := newSimMaster()
		if err != nil {
			panic("cannot listen on loopback: " + err.Error())
		}
		theMaster = m
	})
	return theMaster
}

var masterOnce sync.Once
var theMaster *simMaster

// ---- C01 / C03 at the Stream level ----------------------------------------------------------------------

func init() {
	extraStreamC01 = func(col *Collector, r *RNG, tier string) {
		n := 40
		if tier == "thorough" {
			n = 600
		}
		m := sharedMaster()
		o := histOpts{maxUnits: 6, maxStmts: 3, maxRows: 4, maxCols: 20, maxTables: 3, files: true, ignorable: true, allowTZ: true, casing: true}
		for i := 0; i < n; i++ {
			h := genHistory(r, o, allCfgs[i%len(allCfgs)])
			ans, err := theDriver.Ask(h.line(posStr(firstFile, 4)))
			if err != nil {
				continue
			}
			f := fields(ans)
			s, mp := newStreamer(m, h, 1000+uint32(i), firstFile, 4)
			opts := defaultOpts()
			if i%2 == 1 {
				opts.script = func(p [][]byte) []action { return lockStep(h, p) }
			}
			res := runAttempt(s, m, h, mp, opts)
			got := strings.Join(res.calls, "&")
			ok := got == f["spec"] && res.streamRet == "nil" && res.errorRet == "nil" && res.nowPos == f["endpos"]
			note := ""
			if !ok {
				note = fmt.Sprintf("Stream() against the master: ret=%s error=%s pos=%s (want %s); %s", clip(res.streamRet, 120), clip(res.errorRet, 120), res.nowPos, f["endpos"],
					firstDiff(res.calls, strings.Split(f["spec"], "&"), "x#", "y#"))
			}
			col.AddScenario("stream-L2-cfg"+h.cfg, h.line(posStr(firstFile, 4)), true, ok, true, note, "stream-fidelity", got, f["spec"])
			col.mu.Lock()
			col.extraCounts["stream-L2-runs"]++
			col.mu.Unlock()
		}
	}
	extraStreamC03 = func(col *Collector, r *RNG, tier string) {
		n := 12
		if tier == "thorough" {
			n = 200
		}
		m := sharedMaster()
		o := histOpts{maxUnits: 7, maxStmts: 2, maxRows: 2, maxCols: 6, maxTables: 2, files: true, ignorable: true, allowTZ: false, casing: false}
		for i := 0; i < n; i++ {
			h := genHistory(r, o, allCfgs[i%len(allCfgs)])
			if i%3 == 0 {
				h.empty = true // the replica was started at ("", 4): the master serves its first file, labels carry the empty name until a ROTATE
			}
			ans, err := theDriver.Ask(h.line(posStr(h.startFile(), 4)))
			if err != nil {
				continue
			}
			f := fields(ans)
			full := strings.Split(f["spec"], "&")
			if f["spec"] == "" {
				full = nil
			}
			_, next := parseLabels(full)
			for k := range full {
				file, off := decodePos(next[k])
				s, mp := newStreamer(m, h, 7, file, off)
				res := runAttempt(s, m, h, mp, defaultOpts())
				want := strings.Join(full[k+1:], "&")
				got := strings.Join(res.calls, "&")
				ok := got == want && res.streamRet == "nil" && len(res.dumps) == 1 && res.dumps[0].file == file && int64(res.dumps[0].pos) == off
				note := ""
				if !ok {
					note = fmt.Sprintf("a new Stream started at the end label of transaction %d (%s) did not yield exactly the remaining transactions (dump request %+v, ret %s)", k, next[k], res.dumps, clip(res.streamRet, 100))
				}
				col.AddScenario("stream-resume", h.line(next[k]), true, ok, true, note, "stream-resume", got, want)
			}
		}
	}
}
