package main

import (
	"encoding/binary"
	"fmt"
	"io"
	"net"
	"sync"
	"time"
)

// simMaster: a scriptable MySQL master on loopback (DESIGN §4.4). It knows the client/server protocol framing
// (handshake, OK/ERR/EOF, COM_QUERY, COM_BINLOG_DUMP) and nothing about binlog events: the packets it replays are
// computed by the Lean Spec (`W.serve`) for the position the replica actually asked for.

type action struct {
	kind string // send | eof | err | close | rst | short | badseq | wait | sleep | hold
	data []byte
	code uint16
	msg  string
	n    int
	d    time.Duration
}

type dumpReq struct {
	pos      uint32
	flags    uint16
	serverID uint32
	file     string
	raw      []byte
}

type simConn struct {
	mu         sync.Mutex
	queries    []string
	dumps      []dumpReq
	otherCmds  []byte
	peerClosed bool // the replica closed / reset the socket
	closedAt   time.Time
	done       chan struct{}
	sent       int // event packets fully written
}

type simMaster struct {
	ln     net.Listener
	addr   string
	onDump func(c *simConn, req dumpReq) []action
	// onQuery, if set, is called when a COM_QUERY arrives, before it is answered ("cancel-on-query": the caller cancels
	// while the replica is still setting the connection up)
	onQuery func()
	mu      sync.Mutex
	conns   []*simConn
	prog    int // handler progress (transactions accepted or rejected so far on the current attempt)
	cond    *sync.Cond
	// refuse makes the next connection fail before a dump exists: "handshake-err" | "close-on-accept" | "query-err" | "rst-after-query"
	refuse string
}

func newSimMaster() (*simMaster, error) {
	ln, err := net.Listen("tcp", "127.0.0.1:0")
	if err != nil {
		return nil, err
	}
	m := &simMaster{ln: ln, addr: ln.Addr().String()}
	m.cond = sync.NewCond(&m.mu)
	go m.acceptLoop()
	return m, nil
}

func (m *simMaster) dsn() string {
	return fmt.Sprintf("u:p@tcp(%s)/db?maxAllowedPacket=67108864", m.addr)
}

func (m *simMaster) close() { m.ln.Close() }

func (m *simMaster) progress(n int) {
	m.mu.Lock()
	m.prog = n
	m.cond.Broadcast()
	m.mu.Unlock()
}

func (m *simMaster) resetProgress() { m.progress(0) }

func (m *simMaster) waitProgress(n int, timeout time.Duration) bool {
	deadline := time.Now().Add(timeout)
	m.mu.Lock()
	defer m.mu.Unlock()
	for m.prog < n {
		if time.Now().After(deadline) {
			return false
		}
		// poll: sync.Cond has no timed wait
		m.mu.Unlock()
		time.Sleep(200 * time.Microsecond)
		m.mu.Lock()
	}
	return true
}

func (m *simMaster) waitProgressOr(n int, timeout time.Duration, sc *simConn) {
	deadline := time.Now().Add(timeout)
	for time.Now().Before(deadline) {
		m.mu.Lock()
		p := m.prog
		m.mu.Unlock()
		sc.mu.Lock()
		gone := sc.peerClosed
		sc.mu.Unlock()
		if p >= n || gone {
			return
		}
		time.Sleep(200 * time.Microsecond)
	}
}

func (m *simMaster) lastConn() *simConn {
	m.mu.Lock()
	defer m.mu.Unlock()
	if len(m.conns) == 0 {
		return nil
	}
	return m.conns[len(m.conns)-1]
}

func (m *simMaster) connCount() int {
	m.mu.Lock()
	defer m.mu.Unlock()
	return len(m.conns)
}

func (m *simMaster) acceptLoop() {
	for {
		c, err := m.ln.Accept()
		if err != nil {
			return
		}
		sc := &simConn{done: make(chan struct{})}
		m.mu.Lock()
		m.conns = append(m.conns, sc)
		refuse := m.refuse
		m.refuse = ""
		m.mu.Unlock()
		go m.serve(c, sc, refuse)
	}
}

func writePacket(c net.Conn, seq byte, payload []byte) error {
	hdr := []byte{byte(len(payload)), byte(len(payload) >> 8), byte(len(payload) >> 16), seq}
	_, err := c.Write(append(hdr, payload...))
	return err
}

func readPacket(c net.Conn) (byte, []byte, error) {
	hdr := make([]byte, 4)
	if _, err := io.ReadFull(c, hdr); err != nil {
		return 0, nil, err
	}
	n := int(hdr[0]) | int(hdr[1])<<8 | int(hdr[2])<<16
	p := make([]byte, n)
	if _, err := io.ReadFull(c, p); err != nil {
		return 0, nil, err
	}
	return hdr[3], p, nil
}

func handshakeV10() []byte {
	var p []byte
	p = append(p, 10)
	p = append(p, []byte("5.7.44-log")...)
	p = append(p, 0)
	p = append(p, 7, 0, 0, 0)                                             // connection id
	p = append(p, []byte("abcdefgh")...)                                  // auth data part 1
	p = append(p, 0)                                                      // filler
	caps := uint32(0x0200 | 0x8000 | 0x00080000 | 0x1 | 0x8 | 0x00020000) // PROTOCOL_41, SECURE_CONNECTION, PLUGIN_AUTH, LONG_PASSWORD, CONNECT_WITH_DB, MULTI_RESULTS
	p = append(p, byte(caps), byte(caps>>8))
	p = append(p, 33)   // charset
	p = append(p, 2, 0) // status
	p = append(p, byte(caps>>16), byte(caps>>24))
	p = append(p, 21) // auth data length
	p = append(p, make([]byte, 10)...)
	p = append(p, []byte("ijklmnopqrst")...) // part 2 (12) + NUL
	p = append(p, 0)
	p = append(p, []byte("mysql_native_password")...)
	p = append(p, 0)
	return p
}

var okPacket = []byte{0, 0, 0, 2, 0, 0, 0}

func errPacket(code uint16, msg string) []byte {
	p := []byte{0xff, byte(code), byte(code >> 8)}
	if len(msg) > 0 && msg[0] == '#' {
		// caller supplied its own SQL state marker
		return append(p, []byte(msg)...)
	}
	p = append(p, '#', 'H', 'Y', '0', '0', '0')
	return append(p, []byte(msg)...)
}

func (m *simMaster) serve(c net.Conn, sc *simConn, refuse string) {
	defer close(sc.done)
	defer c.Close()
	markClosed := func() {
		sc.mu.Lock()
		if !sc.peerClosed {
			sc.peerClosed = true
			sc.closedAt = time.Now()
		}
		sc.mu.Unlock()
	}
	if refuse == "close-on-accept" {
		return
	}
	if refuse == "handshake-err" {
		writePacket(c, 0, errPacket(1040, "Too many connections"))
		return
	}
	if err := writePacket(c, 0, handshakeV10()); err != nil {
		return
	}
	if _, _, err := readPacket(c); err != nil {
		markClosed()
		return
	}
	if err := writePacket(c, 2, okPacket); err != nil {
		return
	}
	for {
		_, p, err := readPacket(c)
		if err != nil {
			markClosed()
			return
		}
		if len(p) == 0 {
			continue
		}
		switch p[0] {
		case 0x03: // COM_QUERY
			sc.mu.Lock()
			sc.queries = append(sc.queries, string(p[1:]))
			sc.mu.Unlock()
			if refuse == "close-on-query" {
				return // the connection dies while the checksum query is in flight: no reply at all
			}
			if refuse == "cancel-on-query" {
				m.mu.Lock()
				f := m.onQuery
				m.mu.Unlock()
				if f != nil {
					f()
					time.Sleep(5 * time.Millisecond) // the cancel is in before the reply
				}
			}
			if refuse == "query-err" {
				writePacket(c, 1, errPacket(1193, "Unknown system variable 'binlog_checksum'"))
				continue
			}
			writePacket(c, 1, okPacket)
			if refuse == "rst-after-query" {
				// the connection dies right after the checksum query was answered: depending on timing the replica's
				// dump request fails to be written, or is written and never answered
				if tc, ok := c.(*net.TCPConn); ok {
					tc.SetLinger(0)
				}
				return
			}
		case 0x12: // COM_BINLOG_DUMP
			req := dumpReq{raw: append([]byte(nil), p...)}
			if len(p) >= 11 {
				req.pos = binary.LittleEndian.Uint32(p[1:5])
				req.flags = binary.LittleEndian.Uint16(p[5:7])
				req.serverID = binary.LittleEndian.Uint32(p[7:11])
				req.file = string(p[11:])
			}
			sc.mu.Lock()
			sc.dumps = append(sc.dumps, req)
			sc.mu.Unlock()
			var script []action
			if m.onDump != nil {
				script = m.onDump(sc, req)
			}
			// from here on the replica only ever closes: watch for that while the script plays
			readerDone := make(chan struct{})
			go func() {
				defer close(readerDone)
				buf := make([]byte, 256)
				for {
					if _, err := c.Read(buf); err != nil {
						markClosed()
						return
					}
				}
			}()
			if m.play(c, sc, script) {
				return // script closed the connection
			}
			select {
			case <-readerDone:
			case <-time.After(30 * time.Second):
			}
			return
		case 0x01: // COM_QUIT
			markClosed()
			return
		default:
			sc.mu.Lock()
			sc.otherCmds = append(sc.otherCmds, p[0])
			sc.mu.Unlock()
			writePacket(c, 1, okPacket)
		}
	}
}

// play runs a script; returns true when it ended the connection itself.
func (m *simMaster) play(c net.Conn, sc *simConn, script []action) bool {
	seq := byte(1)
	for _, a := range script {
		switch a.kind {
		case "send":
			if err := writePacket(c, seq, append([]byte{0}, a.data...)); err != nil {
				return false
			}
			seq++
			sc.mu.Lock()
			sc.sent++
			sc.mu.Unlock()
		case "raw": // a packet payload sent verbatim (no OK byte)
			if err := writePacket(c, seq, a.data); err != nil {
				return false
			}
			seq++
		case "eof":
			writePacket(c, seq, []byte{0xfe, 0, 0, 2, 0})
			seq++
		case "err":
			writePacket(c, seq, errPacket(a.code, a.msg))
			seq++
		case "close":
			c.Close()
			return true
		case "rst":
			if tc, ok := c.(*net.TCPConn); ok {
				tc.SetLinger(0)
			}
			c.Close()
			return true
		case "short": // header promises n bytes, fewer follow, then the socket closes
			hdr := []byte{byte(a.n), byte(a.n >> 8), byte(a.n >> 16), seq}
			c.Write(append(hdr, a.data...))
			c.Close()
			return true
		case "badseq":
			writePacket(c, seq+7, append([]byte{0}, a.data...))
			seq++
		case "wait": // until the handler has finished n calls (or the replica went away)
			m.waitProgressOr(a.n, 3*time.Second, sc)
		case "sleep":
			time.Sleep(a.d)
		}
	}
	return false
}
