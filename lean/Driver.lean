import GV.Driver.Hist
import GV.Driver.Gtid
import GV.Driver.Events
import GV.Driver.Proto
import GV.Driver.Json
import GV.Driver.Marshal
open GV.D

partial def loop (hin hout : IO.FS.Stream) : IO Unit := do
  let line ← hin.getLine
  if line.isEmpty then return ()
  let l := line.trimRight
  if l.isEmpty || l.startsWith "#" then
    hout.putStrLn ""
  else
    let toks := l.splitOn " "
    match toks with
    | cmd :: rest =>
      let a := parseArgs rest
      hout.putStrLn (if cmd == "hist" then handleHist a else if cmd == "mtx" then handleMarshal a else if cmd == "jdoc" then handleJsonDoc a else if cmd == "proto" then handleProto a else if cmd == "errpkt" then handleErrPkt a else if cmd == "wev" then handleEvent a else if cmd == "g56" || cmd == "mar" || cmd == "tag" then handleGtid cmd a else handle cmd a)
    | [] => hout.putStrLn ""
  hout.flush
  loop hin hout

def main : IO Unit := do
  loop (← IO.getStdin) (← IO.getStdout)
