import GV.Driver.Cmd
open GV.D

partial def loop (hin hout : IO.FS.Stream) : IO Unit := do
  let line ← hin.getLine
  if line.isEmpty then return ()
  let l := line.trimRight
  if l.isEmpty || l.startsWith "#" then
    hout.putStrLn ""
  else
    let toks := l.splitOn " "
    match toks with
    | cmd :: rest => hout.putStrLn (handle cmd (parseArgs rest))
    | [] => hout.putStrLn ""
  hout.flush
  loop hin hout

def main : IO Unit := do
  loop (← IO.getStdin) (← IO.getStdout)
