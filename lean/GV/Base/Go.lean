import GV.Base.Dec
/- Fixed-width integer helpers (Go wrap-around semantics made explicit). -/
namespace GV

def u8 (n : Nat) : Nat := n % 256
def u16 (n : Nat) : Nat := n % 65536
def u32 (n : Nat) : Nat := n % 4294967296
def u64 (n : Nat) : Nat := n % 18446744073709551616
def i8 (n : Nat) : Int := toSigned 8 n
def i16 (n : Nat) : Int := toSigned 16 n
def i32 (n : Nat) : Int := toSigned 32 n
def i64 (n : Nat) : Int := toSigned 64 n
/-- uint64 subtraction with wrap-around -/
def subU64 (a b : Nat) : Nat := (a + 18446744073709551616 - b % 18446744073709551616) % 18446744073709551616
/-- reinterpret an Int as a wrapped unsigned `bits`-bit value -/
def ofInt (bits : Nat) (v : Int) : Nat := (v % (2 ^ bits : Nat)).toNat

/-- bytes.TrimRight(b, "\x00") -/
def trimRightZeros (b : Bytes) : Bytes := (b.reverse.dropWhile (· == 0)).reverse

def bytesToLower (b : Bytes) : Bytes :=
  b.map fun c => if 65 ≤ c.toNat ∧ c.toNat ≤ 90 then UInt8.ofNat (c.toNat + 32) else c

end GV
