import GV.Base.Bytes
/-
  Decimal text, as produced by strconv.AppendUint / AppendInt and fmt's %0Nd.
  Text is a byte string (ASCII).
-/
namespace GV

def digit (d : Nat) : UInt8 := UInt8.ofNat (48 + d % 10)

/-- strconv.AppendUint(nil, n, 10) -/
def natDec (n : Nat) : Bytes :=
  if h : n < 10 then [digit n] else natDec (n / 10) ++ [digit (n % 10)]
decreasing_by omega

/-- strconv.AppendInt(nil, v, 10) -/
def intDec (v : Int) : Bytes :=
  if v < 0 then (45 : UInt8) :: natDec v.natAbs else natDec v.natAbs

/-- exactly `k` digits of `n mod 10^k` -/
def digitsN : Nat → Nat → Bytes
  | 0, _ => []
  | k + 1, n => digitsN k (n / 10) ++ [digit (n % 10)]

/-- fmt `%0kd` / `%.kd` of a non-negative integer: at least k digits, zero padded -/
def padMin (k n : Nat) : Bytes :=
  List.replicate (k - (natDec n).length) (48 : UInt8) ++ natDec n

def isDigit (c : UInt8) : Bool := 48 ≤ c.toNat && c.toNat ≤ 57

/-- Horner value of a digit string; `none` on [] or a non-digit -/
def decValueAux (acc : Nat) : Bytes → Option Nat
  | [] => some acc
  | c :: cs => if isDigit c then decValueAux (acc * 10 + (c.toNat - 48)) cs else none

def decValue (t : Bytes) : Option Nat :=
  match t with
  | [] => none
  | _ => decValueAux 0 t

/-- canonical decimal text of a natural: digits only, non-empty, no leading zero unless "0" -/
def CanonicalNat (t : Bytes) : Prop :=
  t ≠ [] ∧ (∀ c ∈ t, isDigit c = true) ∧ (t.head? = some 48 → t = [48])

/-- two's complement reading of an unsigned `bits`-bit value -/
def toSigned (bits n : Nat) : Int :=
  if n % 2 ^ bits < 2 ^ (bits - 1) then (n % 2 ^ bits : Nat) else (n % 2 ^ bits : Nat) - (2 ^ bits : Nat)

def hexDigit (d : Nat) : UInt8 :=
  if d % 16 < 10 then UInt8.ofNat (48 + d % 16) else UInt8.ofNat (87 + d % 16)

def hexByte (b : UInt8) : Bytes := [hexDigit (b.toNat / 16), hexDigit (b.toNat % 16)]

def hexOf (b : Bytes) : Bytes := b.flatMap hexByte

end GV
