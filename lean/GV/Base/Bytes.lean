import GV.Base.Res
/-
  Byte strings with Go's bounds semantics (len = cap, see DESIGN §3): an index or
  slice that Go would reject is `Res.panic`.
-/
namespace GV

abbrev Bytes := List UInt8

namespace Bytes

/-- Go `b[i]`. -/
def get (b : Bytes) (i : Nat) : Res UInt8 :=
  match b[i]? with
  | some x => .ok x
  | none => .panic

/-- Go `b[lo:hi]` (with cap = len). -/
def slice (b : Bytes) (lo hi : Nat) : Res Bytes :=
  if lo ≤ hi ∧ hi ≤ b.length then .ok ((b.drop lo).take (hi - lo)) else .panic

/-- Go `b[lo:]`. -/
def sliceFrom (b : Bytes) (lo : Nat) : Res Bytes :=
  if lo ≤ b.length then .ok (b.drop lo) else .panic

/-- Go `b[:hi]`. -/
def sliceTo (b : Bytes) (hi : Nat) : Res Bytes :=
  if hi ≤ b.length then .ok (b.take hi) else .panic

/-- little-endian value of all the bytes -/
def le : Bytes → Nat
  | [] => 0
  | x :: xs => x.toNat + 256 * le xs

/-- big-endian value of all the bytes -/
def beAux (acc : Nat) : Bytes → Nat
  | [] => acc
  | x :: xs => beAux (acc * 256 + x.toNat) xs

def be (b : Bytes) : Nat := beAux 0 b

/-- `w` bytes of `n`, least significant first (n mod 256^w). -/
def ofLE : Nat → Nat → Bytes
  | 0, _ => []
  | w + 1, n => UInt8.ofNat (n % 256) :: ofLE w (n / 256)

/-- `w` bytes of `n`, most significant first. -/
def ofBE (w n : Nat) : Bytes := (ofLE w n).reverse

end Bytes

/-- read `w` little-endian bytes at `pos` (Go: binary.LittleEndian.UintNN(b[pos:pos+w])) -/
def readLE (b : Bytes) (pos w : Nat) : Res Nat := do
  let s ← b.slice pos (pos + w)
  pure (Bytes.le s)

def readBE (b : Bytes) (pos w : Nat) : Res Nat := do
  let s ← b.slice pos (pos + w)
  pure (Bytes.be s)

/-- bytes of an ASCII string literal (reduces by `decide` / `rfl`) -/
def asc (s : String) : Bytes := s.toList.map (fun c => UInt8.ofNat c.toNat)

end GV
