/-
  Res: the outcome of a Go call. `err` = a non-nil Go `error`, `panic` = a run-time
  panic (index / slice out of range), `diverge` = the model ran out of fuel
  (the Go loop would not terminate).  Nothing is totalised away.
-/
namespace GV

inductive Res (α : Type) where
  | ok (a : α)
  | err
  | panic
  | diverge
  deriving Repr, DecidableEq, BEq, Inhabited

namespace Res

@[inline] def bind {α β : Type} (x : Res α) (f : α → Res β) : Res β :=
  match x with
  | ok a => f a
  | err => err
  | panic => panic
  | diverge => diverge

instance : Monad Res where
  pure := ok
  bind := Res.bind

@[simp] theorem pure_eq {α} (a : α) : (pure a : Res α) = ok a := rfl
@[simp] theorem ok_bind {α β} (a : α) (f : α → Res β) : (ok a >>= f) = f a := rfl
@[simp] theorem err_bind {α β} (f : α → Res β) : ((err : Res α) >>= f) = err := rfl
@[simp] theorem panic_bind {α β} (f : α → Res β) : ((panic : Res α) >>= f) = panic := rfl
@[simp] theorem diverge_bind {α β} (f : α → Res β) : ((diverge : Res α) >>= f) = diverge := rfl

def isOk {α} : Res α → Bool
  | ok _ => true
  | _ => false

def toOption {α} : Res α → Option α
  | ok a => some a
  | _ => none

/-- `bind_eq_ok`: a bind is `ok` iff both halves are. -/
theorem bind_eq_ok {α β} {x : Res α} {f : α → Res β} {b : β} :
    (x >>= f) = ok b ↔ ∃ a, x = ok a ∧ f a = ok b := by
  cases x <;> simp [Bind.bind, Res.bind]

end Res
end GV
