import GV.Model.Rows
import GV.Model.Stmt
/-
  Model of streamer.go: parseEvents as a sequential state machine over the packets the reader hands over.
  Layering (DESIGN §7, shared core): `classify` does all byte-level decoding against the current state,
  `stepD` is the transaction state machine over decoded events, `stepEvent = stepD ∘ classify`.
-/
namespace GV.M

structure Position where
  file : Bytes
  offset : Int
  deriving Repr, DecidableEq, BEq, Inhabited

structure StreamEvent where
  typ : Nat                          -- StatementType
  table : Bytes × Bytes              -- (db, table); ([], []) for statements
  query : Option Query               -- some for SQL statements
  timestamp : Nat
  rowValues : List (List ColumnData)
  rowIdentifies : List (List ColumnData)
  deriving Repr, DecidableEq, BEq, Inhabited

structure Transaction where
  now : Position
  next : Position
  timestamp : Nat
  events : List StreamEvent
  deriving Repr, DecidableEq, BEq, Inhabited

structure TableCache where
  tableMap : TableMap
  info : TableInfo
  deriving Repr, DecidableEq, BEq, Inhabited

structure PState where
  pos : Position
  tran : Option (List StreamEvent)   -- tranEvents: none = nil
  autocommit : Bool
  format : Format
  tables : List (Nat × TableCache)   -- tablesMaps (extensional view of the Go map)
  deriving Repr, DecidableEq, BEq, Inhabited

def PState.init (p : Position) : PState :=
  { pos := p, tran := none, autocommit := true, format := Format.zero, tables := [] }

/-- the environment: the table mapper (none = it returned an error) -/
structure Env where
  ext : Ext
  mapper : Bytes → Bytes → Option TableInfo

inductive RowKind where | write | update | delete
  deriving Repr, DecidableEq, BEq, Inhabited

/-- what a packet turned out to be, after all decoding -/
inductive Decoded where
  | invalid                                           -- !IsValid
  | decodeErr                                         -- some decoder / the mapper / the column check returned an error
  | crash                                             -- Go would panic (outside every property's well-formed domain)
  | noTerm                                            -- Rows would not terminate
  | format (f : Format)                               -- FORMAT_DESCRIPTION_EVENT
  | skip                                              -- ignored: fake rotate before the FDE, GTID, previous GTIDs, unknown types
  | xid (next ts : Nat)
  | rotate (file : Bytes) (off : Int)
  | stmt (cat : Nat) (q : Query) (next ts : Nat)
  | tableMap (id : Nat) (tc : TableCache) (known : Bool)
  | rows (se : StreamEvent) (next ts : Nat)
  deriving Repr, DecidableEq, BEq, Inhabited

def ofRes {α} (r : Res α) (k : α → Decoded) : Decoded :=
  match r with
  | .ok a => k a
  | .err => .decodeErr
  | .panic => .crash
  | .diverge => .noTerm

def findTable (ts : List (Nat × TableCache)) (id : Nat) : Option TableCache :=
  match ts.find? (fun p => p.1 == id) with
  | some p => some p.2
  | none => none

def rowsOf (E : Ext) (tc : TableCache) (rs : Rows) (kind : RowKind) : List Row → Res (List (List ColumnData) × List (List ColumnData))
  | [] => .ok ([], [])
  | r :: rest => do
      -- update: identifies first, then values (appendUpdateEventFromRows); insert: values; delete: identifies
      let ids ← (match kind with
        | .write => pure none
        | _ => do let x ← getIdentifiesFromRow E tc.tableMap tc.info rs r; pure (some x) : Res (Option (List ColumnData)))
      let vals ← (match kind with
        | .delete => pure none
        | _ => do let x ← getValuesFromRow E tc.tableMap tc.info rs r; pure (some x) : Res (Option (List ColumnData)))
      let (vs, is) ← rowsOf E tc rs kind rest
      pure (match vals with | some v => v :: vs | none => vs, match ids with | some i => i :: is | none => is)

def kindStmt : RowKind → Nat
  | .write => Facts.StatementInsert
  | .update => Facts.StatementUpdate
  | .delete => Facts.StatementDelete

/-- everything parseEvents does with a packet before it touches the transaction state -/
def classify (env : Env) (st : PState) (ev0 : Bytes) : Decoded :=
  if !isValid ev0 then .invalid else
  ofRes (evType ev0) fun typ0 =>
  if typ0 = Facts.eFormatDescriptionEvent then ofRes (format ev0) .format
  else if st.format.isZero then
    (if typ0 = Facts.eRotateEvent then .skip else .decodeErr)
  else
  ofRes (stripChecksum56 st.format ev0) fun ev =>
  ofRes (evType ev) fun typ =>
  -- NextPosition / Timestamp are read only where the Go code reads them
  let withNT (k : Nat → Nat → Decoded) : Decoded :=
    ofRes (evNextPosition ev) fun next => ofRes (evTimestamp ev) fun ts => k next ts
  if typ = Facts.eXIDEvent then withNT fun next ts => .xid next ts
  else if typ = Facts.eRotateEvent then ofRes (rotate st.format ev) fun (n, o) => .rotate n o
  else if typ = Facts.eQueryEvent then
    ofRes (query st.format ev) fun q => withNT fun next ts => .stmt (statementCategory q.sql) q next ts
  else if typ = Facts.eTableMapEvent then
    ofRes (tableID st.format ev) fun id =>
    ofRes (tableMap st.format ev) fun tm =>
    -- a new cache entry: ask the mapper, check the column count (`tablesMaps[tableID] = tc` is done by `stepD`)
    let fresh : Decoded :=
      match env.mapper tm.database tm.name with
      | none => .decodeErr
      | some info =>
        if info.columns.length != tm.canBeNull.count then .decodeErr
        else .tableMap id ⟨tm, info⟩ false
    -- `if tc, ok := tablesMaps[tableID]; ok && tc.tableMap.Database == tm.Database && tc.tableMap.Name == tm.Name`:
    -- only an id cached for the *same* table keeps its mapper info; an id re-used for another table
    -- (table ids start over when the master restarts) is treated like a new id  (finding F13)
    match findTable st.tables id with
    | some tc =>
      if tc.tableMap.database = tm.database ∧ tc.tableMap.name = tm.name then
        .tableMap id { tc with tableMap := tm } true
      else fresh
    | none => fresh
  else if typ = Facts.eWriteRowsEventV1 ∨ typ = Facts.eWriteRowsEventV2 ∨ typ = Facts.eUpdateRowsEventV1 ∨
          typ = Facts.eUpdateRowsEventV2 ∨ typ = Facts.eDeleteRowsEventV1 ∨ typ = Facts.eDeleteRowsEventV2 then
    let kind : RowKind :=
      if typ = Facts.eWriteRowsEventV1 ∨ typ = Facts.eWriteRowsEventV2 then .write
      else if typ = Facts.eUpdateRowsEventV1 ∨ typ = Facts.eUpdateRowsEventV2 then .update else .delete
    ofRes (tableID st.format ev) fun id =>
    match findTable st.tables id with
    | none => .decodeErr
    | some tc =>
      ofRes (rows st.format tc.tableMap ev) fun rs =>
      withNT fun next ts =>
      ofRes (rowsOf env.ext tc rs kind rs.rows) fun (vals, ids) =>
        .rows { typ := kindStmt kind, table := (tc.info.db, tc.info.table), query := none, timestamp := ts,
                rowValues := vals, rowIdentifies := ids } next ts
  else if typ = Facts.ePreviousGTIDsEvent ∨ typ = Facts.eGTIDEvent then .skip
  else if typ = Facts.eRandEvent ∨ typ = Facts.eIntVarEvent ∨ typ = Facts.eRowsQueryEvent then .decodeErr
  else .skip

/-- one step of the transaction state machine -/
inductive Step where
  | cont (st : PState)                                     -- keep reading
  | deliver (tx : Transaction) (accepted : PState)         -- the handler is called with tx; `accepted` is the state if it accepts
  | stop (err : Bool) (crash : Bool)                       -- parseEvents returns (pos is the state's pos)
  deriving Repr, DecidableEq, BEq, Inhabited

/-- the `commit` closure: position advanced only once the handler has accepted -/
def commitStep (st : PState) (events : Option (List StreamEvent)) (next ts : Nat) : Step :=
  let nextPos : Position := { st.pos with offset := next }
  .deliver ⟨st.pos, nextPos, ts, events.getD []⟩
    { st with pos := nextPos, tran := none, autocommit := true }

def appendEv (t : Option (List StreamEvent)) (e : StreamEvent) : Option (List StreamEvent) :=
  some (t.getD [] ++ [e])

def isBoundaryDDL (cat : Nat) : Bool :=
  cat = Facts.StatementCreate ∨ cat = Facts.StatementAlter ∨ cat = Facts.StatementDrop ∨ cat = Facts.StatementRename ∨
  cat = Facts.StatementTruncate ∨ cat = Facts.StatementSet
def isDML (cat : Nat) : Bool :=
  cat = Facts.StatementDelete ∨ cat = Facts.StatementInsert ∨ cat = Facts.StatementUpdate

def stepD (st : PState) : Decoded → Step
  | .invalid => .stop true false
  | .decodeErr => .stop true false
  | .crash => .stop true true
  | .noTerm => .stop true true
  | .format f => .cont { st with format := f }
  | .skip => .cont st
  | .xid next ts => commitStep st st.tran next ts
  | .rotate file off => .cont { st with pos := ⟨file, off⟩ }
  | .stmt cat q next ts =>
    if cat = Facts.StatementBegin then .cont { st with tran := some [], autocommit := false }
    else if isBoundaryDDL cat ∨ isDML cat then
      let se : StreamEvent := { typ := cat, table := ([], []), query := some q, timestamp := ts, rowValues := [], rowIdentifies := [] }
      let st' := { st with tran := appendEv st.tran se }
      if st.autocommit then commitStep st' st'.tran next ts else .cont st'
    else if cat = Facts.StatementRollback then commitStep st none next ts
    else if cat = Facts.StatementCommit then commitStep st st.tran next ts
    else .cont st
  | .tableMap id tc known =>
    -- known: `tc.tableMap = tm` on the cached entry;  otherwise `tablesMaps[tableID] = tc`, a map assignment:
    -- it replaces the entry of an id that is cached (for another table) and adds one for an id that is not
    if known then .cont { st with tables := st.tables.map fun p => if p.1 == id then (p.1, tc) else p }
    else if (findTable st.tables id).isSome then
      .cont { st with tables := st.tables.map fun p => if p.1 == id then (p.1, tc) else p }
    else .cont { st with tables := st.tables ++ [(id, tc)] }
  | .rows se next ts =>
    let st' := { st with tran := appendEv st.tran se }
    if st.autocommit then commitStep st' st'.tran next ts else .cont st'

def stepEvent (env : Env) (st : PState) (ev : Bytes) : Step := stepD st (classify env st ev)

/-- what the reader hands to the parser -/
inductive Input where
  | event (b : Bytes)
  | closed        -- the event channel was closed (reader exited)
  | cancelled     -- ctx.Done() fired
  deriving Repr, DecidableEq, BEq, Inhabited

structure Outcome where
  calls : List Transaction       -- every handler call, in order (the last one may have been rejected)
  accepted : List Transaction    -- the calls the handler accepted
  pos : Position                 -- the position parseEvents returns (written back by Stream)
  err : Bool                     -- parseEvents returned an error
  crash : Bool
  deriving Repr, DecidableEq, BEq, Inhabited

/-- parseEvents over decoded inputs.  The end of the list is the closed channel. -/
def runD (handler : Transaction → Bool) : PState → List (Option Decoded) → Outcome
  | st, [] => ⟨[], [], st.pos, false, false⟩
  | st, none :: _ => ⟨[], [], st.pos, false, false⟩            -- closed / cancelled
  | st, some d :: rest =>
    match stepD st d with
    | .cont st' => runD handler st' rest
    | .stop e c => ⟨[], [], st.pos, e, c⟩
    | .deliver tx acc =>
      if handler tx then
        let o := runD handler acc rest
        { o with calls := tx :: o.calls, accepted := tx :: o.accepted }
      else ⟨[tx], [], st.pos, true, false⟩

/-- parseEvents over packets -/
def parseEvents (env : Env) (handler : Transaction → Bool) : PState → List Input → Outcome
  | st, [] => ⟨[], [], st.pos, false, false⟩
  | st, .closed :: _ => ⟨[], [], st.pos, false, false⟩
  | st, .cancelled :: _ => ⟨[], [], st.pos, false, false⟩
  | st, .event b :: rest =>
    match stepEvent env st b with
    | .cont st' => parseEvents env handler st' rest
    | .stop e c => ⟨[], [], st.pos, e, c⟩
    | .deliver tx acc =>
      if handler tx then
        let o := parseEvents env handler acc rest
        { o with calls := tx :: o.calls, accepted := tx :: o.accepted }
      else ⟨[tx], [], st.pos, true, false⟩

end GV.M
