import GV.Model.Streamer
/-
  Model of transaction.go's MarshalJSON methods on top of a model of encoding/json's output for these struct
  shapes: object framing, string escaping (HTML-safe mode), null for nil slices / nil interface.
  Timestamps go through `time.Unix(ts,0).Local().String()`, a parameter (Go runtime).
-/
namespace GV.M

/-- one step of Go's UTF-8 decoding (utf8.DecodeRuneInString): (code point, width), or none for an invalid
    sequence (RuneError, width 1) -/
def decodeRune : Bytes → Option (Nat × Nat)
  | [] => none
  | b0 :: rest =>
    let c0 := b0.toNat
    let cont (b : UInt8) (lo hi : Nat) : Bool := lo ≤ b.toNat && b.toNat ≤ hi
    if c0 < 0x80 then some (c0, 1)
    else if 0xC2 ≤ c0 ∧ c0 ≤ 0xDF then
      match rest with
      | b1 :: _ => if cont b1 0x80 0xBF then some ((c0 % 32) * 64 + b1.toNat % 64, 2) else none
      | _ => none
    else if 0xE0 ≤ c0 ∧ c0 ≤ 0xEF then
      match rest with
      | b1 :: b2 :: _ =>
        let lo := if c0 = 0xE0 then 0xA0 else 0x80
        let hi := if c0 = 0xED then 0x9F else 0xBF
        if cont b1 lo hi && cont b2 0x80 0xBF then some (((c0 % 16) * 64 + b1.toNat % 64) * 64 + b2.toNat % 64, 3) else none
      | _ => none
    else if 0xF0 ≤ c0 ∧ c0 ≤ 0xF4 then
      match rest with
      | b1 :: b2 :: b3 :: _ =>
        let lo := if c0 = 0xF0 then 0x90 else 0x80
        let hi := if c0 = 0xF4 then 0x8F else 0xBF
        if cont b1 lo hi && cont b2 0x80 0xBF && cont b3 0x80 0xBF then
          some ((((c0 % 8) * 64 + b1.toNat % 64) * 64 + b2.toNat % 64) * 64 + b3.toNat % 64, 4)
        else none
      | _ => none
    else none

def hex4 (n : Nat) : Bytes := [hexDigit (n / 4096), hexDigit (n / 256 % 16), hexDigit (n / 16 % 16), hexDigit (n % 16)]

/-- encoding/json's string body (without the surrounding quotes), escapeHTML = true -/
def jsonEscapeAux : Nat → Bytes → Bytes
  | 0, _ => []
  | _ + 1, [] => []
  | fuel + 1, b :: rest =>
    let c := b.toNat
    if c < 0x80 then
      let out : Bytes :=
        if c = 0x22 then [0x5c, 0x22] else if c = 0x5c then [0x5c, 0x5c]
        else if c = 0x08 then asc "\\b" else if c = 0x0c then asc "\\f"
        else if c = 0x0a then asc "\\n" else if c = 0x0d then asc "\\r" else if c = 0x09 then asc "\\t"
        else if c < 0x20 ∨ c = 0x3c ∨ c = 0x3e ∨ c = 0x26 then asc "\\u" ++ hex4 c
        else [b]
      out ++ jsonEscapeAux fuel rest
    else
      match decodeRune (b :: rest) with
      | none => asc "\\ufffd" ++ jsonEscapeAux fuel rest
      | some (cp, w) =>
        if cp = 0x2028 ∨ cp = 0x2029 then asc "\\u" ++ hex4 cp ++ jsonEscapeAux fuel ((b :: rest).drop w)
        else (b :: rest).take w ++ jsonEscapeAux fuel ((b :: rest).drop w)

def jsonEscape (s : Bytes) : Bytes := jsonEscapeAux (s.length + 1) s

def jstr (s : Bytes) : Bytes := [0x22] ++ jsonEscape s ++ [0x22]
def jkey (k : String) : Bytes := [0x22] ++ asc k ++ asc "\":"

def joinWith (sep : Bytes) : List Bytes → Bytes
  | [] => []
  | [x] => x
  | x :: xs => x ++ sep ++ joinWith sep xs

def jarr (items : List Bytes) : Bytes := [0x5b] ++ joinWith [0x2c] items ++ [0x5d]

/-- the Go values being marshalled (nil-ness of slices is observable) -/
structure JCol where
  filed : Bytes
  typ : Nat
  isEmpty : Bool
  data : Option Bytes          -- none = nil slice
  deriving Repr, DecidableEq, BEq, Inhabited

structure JEvent where
  typ : Nat
  db : Bytes
  table : Bytes
  sql : Bytes
  ts : Int
  rowValues : Option (List (List JCol))
  rowIdentifies : Option (List (List JCol))
  deriving Repr, DecidableEq, BEq, Inhabited

structure JTx where
  nowFile : Bytes
  nowOff : Int
  nextFile : Bytes
  nextOff : Int
  ts : Int
  events : Option (List JEvent)
  deriving Repr, DecidableEq, BEq, Inhabited

def marshalPos (file : Bytes) (off : Int) : Bytes :=
  asc "{" ++ jkey "filename" ++ jstr file ++ asc "," ++ jkey "offset" ++ intDec off ++ asc "}"

/-- ColumnData.MarshalJSON -/
def marshalCol (c : JCol) : Bytes :=
  asc "{" ++ jkey "filed" ++ jstr c.filed ++ asc "," ++ jkey "type" ++ jstr (asc (columnTypeName c.typ)) ++ asc "," ++
    jkey "isEmpty" ++ (if c.isEmpty then asc "true" else asc "false") ++ asc "," ++ jkey "data" ++
    (match c.data with | none => asc "null" | some d => jstr d) ++ asc "}"

def marshalRow (r : List JCol) : Bytes := asc "{" ++ jkey "Columns" ++ jarr (r.map marshalCol) ++ asc "}"

def marshalRows : Option (List (List JCol)) → Bytes
  | none => asc "null"
  | some rs => jarr (rs.map marshalRow)

/-- StreamEvent.MarshalJSON -/
def marshalEvent (fmtTime : Int → Bytes) (e : JEvent) : Bytes :=
  let base := jkey "name" ++ asc "{" ++ jkey "db" ++ jstr e.db ++ asc "," ++ jkey "table" ++ jstr e.table ++ asc "}," ++
    jkey "type" ++ jstr (asc (statementName e.typ)) ++ asc "," ++ jkey "timestamp" ++ jstr (fmtTime e.ts)
  if e.sql ≠ [] then asc "{" ++ base ++ asc "," ++ jkey "sql" ++ jstr e.sql ++ asc "}"
  else asc "{" ++ base ++ asc "," ++ jkey "rowValues" ++ marshalRows e.rowValues ++ asc "," ++ jkey "rowIdentifies" ++
    marshalRows e.rowIdentifies ++ asc "}"

/-- Transaction.MarshalJSON -/
def marshalTx (fmtTime : Int → Bytes) (t : JTx) : Bytes :=
  asc "{" ++ jkey "nowPosition" ++ marshalPos t.nowFile t.nowOff ++ asc "," ++ jkey "nextPosition" ++
    marshalPos t.nextFile t.nextOff ++ asc "," ++ jkey "timestamp" ++ jstr (fmtTime t.ts) ++ asc "," ++ jkey "events" ++
    (match t.events with | none => asc "null" | some es => jarr (es.map (marshalEvent fmtTime))) ++ asc "}"

end GV.M
