import GV.Model.Streamer
/-
  Model of slave_connection.go (newSlaveConnection / prepareForReplication / startDumpFromBinlogPosition /
  readBinlogEvent) and of Stream's use of it: the calls made on the dump connection, driven by the extracted facts
  (`Facts.execLiterals`, `Facts.noticeDumpCalls`), and the driver's COM_BINLOG_DUMP packet (interface contract).
-/
namespace GV.M

inductive Call where
  | exec (query : Bytes)
  | noticeDump (serverID pos : Nat) (file : Bytes) (flags : Nat)
  deriving Repr, DecidableEq, BEq, Inhabited

/-- the argument expressions the code passes to NoticeDump, interpreted: only the shapes the extractor reports
    are understood; anything else makes the trace undefined (and the theorems fail to check) -/
def evalDumpArg (expr : String) (serverID : Nat) (pos : Position) : Option (Nat ⊕ Bytes) :=
  if expr = "serverID" then some (.inl serverID)
  else if expr = "uint32(pos.Offset)" then some (.inl (ofInt 32 pos.offset))
  else if expr = "pos.Filename" then some (.inr pos.file)
  else if expr = "0" then some (.inl 0)
  else none

def dumpCallOf (call : List String) (serverID : Nat) (pos : Position) : Option Call :=
  match call.map (fun e => evalDumpArg e serverID pos) with
  | [some (.inl id), some (.inl p), some (.inr f), some (.inl fl)] => some (.noticeDump id p f fl)
  | _ => none

/-- the calls one attempt makes on the connection before the first packet is read -/
def attemptTrace (serverID : Nat) (pos : Position) : Option (List Call) :=
  let execs := Facts.execLiterals.map fun q => Call.exec (asc q)
  let dumps := Facts.noticeDumpCalls.map fun c => dumpCallOf c serverID pos
  if dumps.all Option.isSome then some (execs ++ dumps.filterMap id) else none

/-- the driver's COM_BINLOG_DUMP payload: 0x12, pos(4), flags(2), server id(4), file name -/
def dumpPacket (serverID pos : Nat) (file : Bytes) (flags : Nat) : Bytes :=
  [0x12] ++ Bytes.ofLE 4 pos ++ Bytes.ofLE 2 flags ++ Bytes.ofLE 4 serverID ++ file

/-- what a master reads out of it -/
def decodeDump (p : Bytes) : Option (Nat × Nat × Bytes × Nat) :=
  match p with
  | 0x12 :: rest =>
    if rest.length < 10 then none
    else some (Bytes.le ((rest.drop 6).take 4), Bytes.le (rest.take 4), rest.drop 10, Bytes.le ((rest.drop 4).take 2))
  | _ => none

/-- readBinlogEvent on one packet payload: the event is a private copy of payload[1:] -/
inductive PacketKind where
  | event (b : Bytes) | eof | err
  deriving Repr, DecidableEq, BEq, Inhabited

def readBinlogEvent (payload : Bytes) : Res PacketKind := do
  let b ← payload.get 0
  if b.toNat = 0xfe then pure .eof
  else if b.toNat = 0xff then pure .err
  else pure (.event (payload.drop 1))

/-- the state of a Streamer between attempts -/
structure StreamerState where
  serverID : Nat
  nowPos : Position
  deriving Repr, DecidableEq, BEq, Inhabited

/-- one Stream attempt whose connection and dump request succeed: the trace, and the state afterwards
    (Stream writes back the position parseEvents returned) -/
def streamAttempt (env : Env) (handler : Transaction → Bool) (s : StreamerState) (inputs : List Input) :
    Option (List Call) × StreamerState × Outcome :=
  let o := parseEvents env handler (PState.init s.nowPos) inputs
  (attemptTrace s.serverID s.nowPos, { s with nowPos := o.pos }, o)

end GV.M
