import GV.Model.Cell
/- Model of binlogEvent.Rows (binlog_event_rbr.go) and the row → column conversion of streamer.go. -/
namespace GV.M

structure Row where
  nullIdentify : Bitmap
  nullData : Bitmap
  identify : Bytes
  data : Bytes
  deriving Repr, DecidableEq, BEq, Inhabited

structure Rows where
  flags : Nat
  identifyColumns : Bitmap
  dataColumns : Bitmap
  rows : List Row
  deriving Repr, DecidableEq, BEq, Inhabited

def emptyBitmap : Bitmap := ⟨[], 0⟩

/-- the inner `for c := 0; c < columnCount; c++` loop of Rows: skips one image, returns the new pos -/
def skipImage (data : Bytes) (tm : TableMap) (present nulls : Bitmap) : Nat → Nat → Nat → Nat → Res Nat
  | 0, _, _, pos => .ok pos
  | n + 1, c, valueIndex, pos => do
      let p ← present.bit c
      if !p then skipImage data tm present nulls n (c + 1) valueIndex pos
      else
        let isNull ← nulls.bit valueIndex
        if isNull then skipImage data tm present nulls n (c + 1) (valueIndex + 1) pos
        else
          let t ← tm.types.get c
          let md ← match tm.metadata[c]? with | some m => Res.ok m | none => Res.panic
          let l ← cellLength data pos t.toNat md
          skipImage data tm present nulls n (c + 1) (valueIndex + 1) (pos + l)

/-- the `for pos < len(data)` loop; fuel = number of iterations allowed -/
def rowsLoop (data : Bytes) (tm : TableMap) (hasIdentify hasData : Bool) (columnCount : Nat)
    (idCols dataCols : Bitmap) (numId numData : Nat) : Nat → Nat → Res (List Row)
  | 0, _ => .diverge
  | fuel + 1, pos =>
    if pos < data.length then do
      let (nullId, ident, pos) ←
        if hasIdentify then do
          let (bm, p) ← newBitmap data pos numId
          let p' ← skipImage data tm idCols bm columnCount 0 0 p
          let s ← data.slice p p'
          pure (bm, s, p')
        else pure (emptyBitmap, ([] : Bytes), pos)
      let (nullData, dat, pos) ←
        if hasData then do
          let (bm, p) ← newBitmap data pos numData
          let p' ← skipImage data tm dataCols bm columnCount 0 0 p
          let s ← data.slice p p'
          pure (bm, s, p')
        else pure (emptyBitmap, ([] : Bytes), pos)
      let rest ← rowsLoop data tm hasIdentify hasData columnCount idCols dataCols numId numData fuel pos
      pure (⟨nullId, nullData, ident, dat⟩ :: rest)
    else .ok []

/-- binlogEvent.Rows -/
def rows (f : Format) (tm : TableMap) (ev : Bytes) : Res Rows := do
  let typ ← evType ev
  let data ← ev.sliceFrom f.headerLength
  let hasIdentify := typ = Facts.eUpdateRowsEventV1 ∨ typ = Facts.eUpdateRowsEventV2 ∨
                     typ = Facts.eDeleteRowsEventV1 ∨ typ = Facts.eDeleteRowsEventV2
  let hasData := typ = Facts.eWriteRowsEventV1 ∨ typ = Facts.eWriteRowsEventV2 ∨
                 typ = Facts.eUpdateRowsEventV1 ∨ typ = Facts.eUpdateRowsEventV2
  let hs ← f.headerSize typ
  let pos := if hs = 6 then 4 else 6
  let flags ← readLE data pos 2
  let pos := pos + 2
  let pos ← (if typ = Facts.eWriteRowsEventV2 ∨ typ = Facts.eUpdateRowsEventV2 ∨ typ = Facts.eDeleteRowsEventV2 then do
      let edl ← readLE data pos 2
      pure (pos + edl)
    else pure pos : Res Nat)
  match ← readLenEncInt data pos with
  | none => .err
  | some (cnt, nPos) =>
    if cnt > maxInt32 then .err else
    let columnCount := cnt
    let pos := nPos
    let (idCols, numId, pos) ← (if hasIdentify then do
        let (bm, p) ← newBitmap data pos columnCount
        let n ← bm.bitCount
        pure (bm, n, p)
      else pure (emptyBitmap, 0, pos) : Res (Bitmap × Nat × Nat))
    let (dataCols, numData, pos) ← (if hasData then do
        let (bm, p) ← newBitmap data pos columnCount
        let n ← bm.bitCount
        pure (bm, n, p)
      else pure (emptyBitmap, 0, pos) : Res (Bitmap × Nat × Nat))
    let rs ← rowsLoop data tm hasIdentify hasData columnCount idCols dataCols numId numData (data.length + 1) pos
    pure { flags := flags, identifyColumns := idCols, dataColumns := dataCols, rows := rs }

/-! ### streamer.go: getValuesFromRow / getIdentifiesFromRow -/

inductive Col where
  | absent            -- IsEmpty = true, Data = nil
  | null              -- IsEmpty = false, Data = nil
  | value (b : Bytes) -- IsEmpty = false, Data = b (non-nil, possibly empty)
  deriving Repr, DecidableEq, BEq, Inhabited

structure ColumnData where
  field : Bytes
  typ : Nat
  col : Col
  deriving Repr, DecidableEq, BEq, Inhabited

/-- the table mapper's answer: column names and signedness by ordinal -/
structure TableInfo where
  db : Bytes
  table : Bytes
  columns : List (Bytes × Bool)
  deriving Repr, DecidableEq, BEq, Inhabited

/-- the column loop shared by getValuesFromRow and getIdentifiesFromRow -/
def rowColumns (E : Ext) (tm : TableMap) (ti : TableInfo) (present nulls : Bitmap) (data : Bytes) :
    Nat → Nat → Nat → Nat → Res (List ColumnData)
  | 0, _, _, _ => .ok []
  | n + 1, c, valueIndex, pos => do
      let (name, uns) ← match ti.columns[c]? with | some x => Res.ok x | none => Res.panic
      let t ← tm.types.get c
      let p ← present.bit c
      if !p then do
        let rest ← rowColumns E tm ti present nulls data n (c + 1) valueIndex pos
        pure (⟨name, t.toNat, .absent⟩ :: rest)
      else
        let isNull ← nulls.bit valueIndex
        if isNull then do
          let rest ← rowColumns E tm ti present nulls data n (c + 1) (valueIndex + 1) pos
          pure (⟨name, t.toNat, .null⟩ :: rest)
        else do
          let md ← match tm.metadata[c]? with | some m => Res.ok m | none => Res.panic
          let (v, l) ← cellBytes E data pos t.toNat md uns
          let rest ← rowColumns E tm ti present nulls data n (c + 1) (valueIndex + 1) (pos + l)
          pure (⟨name, t.toNat, .value v⟩ :: rest)

/-- getValuesFromRow -/
def getValuesFromRow (E : Ext) (tm : TableMap) (ti : TableInfo) (rs : Rows) (r : Row) : Res (List ColumnData) :=
  if rs.dataColumns.count != ti.columns.length then .err
  else rowColumns E tm ti rs.dataColumns r.nullData r.data rs.dataColumns.count 0 0 0

/-- getIdentifiesFromRow -/
def getIdentifiesFromRow (E : Ext) (tm : TableMap) (ti : TableInfo) (rs : Rows) (r : Row) : Res (List ColumnData) :=
  if rs.identifyColumns.count != ti.columns.length then .err
  else rowColumns E tm ti rs.identifyColumns r.nullIdentify r.identify rs.identifyColumns.count 0 0 0

end GV.M
