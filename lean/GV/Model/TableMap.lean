import GV.Model.Header
import GV.Generated.Facts
/- Model of readLenEncInt, metadataRead, Bitmap and binlogEvent.TableMap (binlog_event_rbr.go, binlog_event.go). -/
namespace GV.M

/-- readLenEncInt: `none` = `ok == false` -/
def readLenEncInt (data : Bytes) (pos : Nat) : Res (Option (Nat × Nat)) :=
  if pos ≥ data.length then .ok none else do
    let b ← data.get pos
    if b.toNat = 0xfc then
      if pos + 2 ≥ data.length then .ok none else do
        let v ← readLE data (pos + 1) 2; pure (some (v, pos + 3))
    else if b.toNat = 0xfd then
      if pos + 3 ≥ data.length then .ok none else do
        let v ← readLE data (pos + 1) 3; pure (some (v, pos + 4))
    else if b.toNat = 0xfe then
      if pos + 8 ≥ data.length then .ok none else do
        let v ← readLE data (pos + 1) 8; pure (some (v, pos + 9))
    else pure (some (b.toNat, pos + 1))

def lookup (tbl : List (Nat × Nat)) (k : Nat) : Option Nat :=
  match tbl.find? (fun p => p.1 == k) with
  | some p => some p.2
  | none => none

/-- metadataRead, driven by the extracted class table (0 none, 1 one byte, 2 big-endian, 3 little-endian) -/
def metadataRead (data : Bytes) (pos : Nat) (typ : Nat) : Res (Nat × Nat) :=
  match lookup Facts.metadataClass typ with
  | some 0 => .ok (0, pos)
  | some 1 => do let b ← data.get pos; pure (b.toNat, pos + 1)
  | some 2 => do
      let a ← data.get pos; let b ← data.get (pos + 1)
      pure (u16 (u16 (a.toNat * 256) + b.toNat), pos + 2)
  | some 3 => do
      let a ← data.get pos; let b ← data.get (pos + 1)
      pure (u16 (a.toNat + u16 (b.toNat * 256)), pos + 2)
  | _ => .err

structure Bitmap where
  data : Bytes
  count : Nat
  deriving Repr, DecidableEq, BEq, Inhabited

/-- newBitmap -/
def newBitmap (data : Bytes) (pos count : Nat) : Res (Bitmap × Nat) := do
  let byteSize := (count + 7) / 8
  let d ← data.slice pos (pos + byteSize)
  pure (⟨d, count⟩, pos + byteSize)

/-- Bitmap.Bit -/
def Bitmap.bit (b : Bitmap) (index : Nat) : Res Bool := do
  let x ← b.data.get (index / 8)
  pure (x.toNat / 2 ^ (index % 8) % 2 == 1)

/-- Bitmap.BitCount -/
def Bitmap.bitCountAux (b : Bitmap) : Nat → Res Nat
  | 0 => .ok 0
  | i + 1 => do
      let s ← b.bitCountAux i
      let x ← b.bit i
      pure (if x then s + 1 else s)

def Bitmap.bitCount (b : Bitmap) : Res Nat := b.bitCountAux b.count

structure TableMap where
  flags : Nat
  database : Bytes
  name : Bytes
  types : Bytes
  canBeNull : Bitmap
  metadata : List Nat
  deriving Repr, DecidableEq, BEq, Inhabited

def readMetadata (data : Bytes) : List UInt8 → Nat → Res (List Nat × Nat)
  | [], pos => .ok ([], pos)
  | t :: ts, pos => do
      let (m, pos) ← metadataRead data pos t.toNat
      let (ms, pos) ← readMetadata data ts pos
      pure (m :: ms, pos)

def maxInt32 : Nat := 2147483647

/-- binlogEvent.TableMap -/
def tableMap (f : Format) (ev : Bytes) : Res TableMap := do
  let data ← ev.sliceFrom f.headerLength
  let hs ← f.headerSize Facts.eTableMapEvent
  let pos := if hs = 6 then 4 else 6
  let flags ← readLE data pos 2
  let pos := pos + 2
  let l ← data.get pos
  let db ← data.slice (pos + 1) (pos + 1 + l.toNat)
  let pos := pos + 1 + l.toNat + 1
  let l ← data.get pos
  let name ← data.slice (pos + 1) (pos + 1 + l.toNat)
  let pos := pos + 1 + l.toNat + 1
  match ← readLenEncInt data pos with
  | none => .err
  | some (cnt, nPos) =>
    if cnt > maxInt32 then .err else
    let columnCount := cnt
    let pos := nPos
    let types ← data.slice pos (pos + columnCount)
    let pos := pos + columnCount
    match ← readLenEncInt data pos with
    | none => .err
    | some (cnt, nPos) =>
      if cnt > maxInt32 then .err else
      let pos := nPos
      let expectedEnd := pos + cnt
      let (md, pos) ← readMetadata data types pos
      if pos != expectedEnd then .err else
      let (bm, _) ← newBitmap data pos columnCount
      pure { flags := flags, database := db, name := name, types := types, canBeNull := bm, metadata := md }

end GV.M
