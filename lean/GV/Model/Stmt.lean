import GV.Base.Go
import GV.Generated.Facts
/- Model of mysql_types.go: GetStatementCategory and the name tables.
   `strings.ToLower` is modelled on ASCII; the first word of a generated statement is ASCII (DESIGN §10). -/
namespace GV.M

/-- sql[:IndexByte(sql, ' ')] (the whole string when there is no space) -/
def firstWord : Bytes → Bytes
  | [] => []
  | c :: cs => if c = 32 then [] else c :: firstWord cs

def lookupStr (tbl : List (String × Nat)) (k : Bytes) : Option Nat :=
  match tbl.find? (fun p => asc p.1 == k) with
  | some p => some p.2
  | none => none

/-- GetStatementCategory -/
def statementCategory (sql : Bytes) : Nat :=
  match lookupStr Facts.statementPrefixes (bytesToLower (firstWord sql)) with
  | some t => t
  | none => Facts.StatementUnknown

def lookupName (tbl : List (Nat × String)) (k : Nat) : String :=
  match tbl.find? (fun p => p.1 == k) with
  | some p => p.2
  | none => "unknown"

/-- StatementType.String -/
def statementName (t : Nat) : String := lookupName Facts.statementStrings t
/-- ColumnType.String -/
def columnTypeName (t : Nat) : String := lookupName Facts.columnTypeStrings t

end GV.M
