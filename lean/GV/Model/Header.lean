import GV.Base.Go
/-
  Model of replication/binlog_event_common.go (+ the flavour files): header
  accessors, validity gate, FORMAT_DESCRIPTION / ROTATE / QUERY / INTVAR / RAND
  bodies, table id, checksum stripping, GTID event bodies.
  Mirrors the Go code statement by statement; Go panics are `Res.panic`.
-/
namespace GV.M

/-- binlogEvent.Type -/
def evType (ev : Bytes) : Res Nat := do let b ← ev.get 4; pure b.toNat
/-- binlogEvent.Flags -/
def evFlags (ev : Bytes) : Res Nat := readLE ev 17 2
/-- binlogEvent.Timestamp : ev.Bytes()[:4] -/
def evTimestamp (ev : Bytes) : Res Nat := do let s ← ev.sliceTo 4; pure (Bytes.le s)
/-- binlogEvent.ServerID -/
def evServerID (ev : Bytes) : Res Nat := readLE ev 5 4
/-- binlogEvent.Length -/
def evLength (ev : Bytes) : Res Nat := readLE ev 9 4
/-- binlogEvent.NextPosition : int64(uint32) -/
def evNextPosition (ev : Bytes) : Res Nat := readLE ev 13 4

/-- binlogEvent.IsValid.  `uint32(bufLen)` truncates. -/
def isValid (ev : Bytes) : Bool :=
  if ev.length < 19 then false
  else match evLength ev with
    | .ok evLen => if evLen < 19 || evLen != u32 ev.length then false else true
    | _ => false

structure Format where
  formatVersion : Nat
  serverVersion : Bytes
  headerLength : Nat
  checksumAlg : Nat
  headerSizes : Bytes
  deriving Repr, DecidableEq, BEq, Inhabited

/-- the Go zero value of BinlogFormat -/
def Format.zero : Format := ⟨0, [], 0, 0, []⟩
def Format.isZero (f : Format) : Bool := f.formatVersion == 0 && f.headerLength == 0
/-- BinlogFormat.HeaderSize: `f.HeaderSizes[typ-1]`, `typ` is a byte so `typ-1` wraps -/
def Format.headerSize (f : Format) (typ : Nat) : Res Nat := do
  let b ← f.headerSizes.get ((typ + 255) % 256)
  pure b.toNat

/-- binlogEvent.Format -/
def format (ev : Bytes) : Res Format := do
  let data ← ev.sliceFrom 19
  let v ← readLE data 0 2
  if v != 4 then .err else
  let sv ← data.slice 2 52
  let hl ← data.get 56
  if hl.toNat < 19 then .err else
  if data.length < 5 then .panic else
  let ca ← data.get (data.length - 5)
  let hs ← data.slice 57 (data.length - 5)
  pure { formatVersion := v, serverVersion := trimRightZeros sv, headerLength := hl.toNat,
         checksumAlg := ca.toNat, headerSizes := hs }

/-- mysql56BinlogEvent.StripChecksum (event part only) -/
def stripChecksum56 (f : Format) (ev : Bytes) : Res Bytes :=
  if f.checksumAlg = 0 ∨ f.checksumAlg = 255 then .ok ev
  else if f.checksumAlg = 1 then
    if ev.length < 4 then .panic else .ok (ev.take (ev.length - 4))
  else .err

/-- mariadbBinlogEvent.StripChecksum -/
def stripChecksumMaria (f : Format) (ev : Bytes) : Res Bytes :=
  if f.checksumAlg = 0 ∨ f.checksumAlg = 255 then .ok ev
  else if ev.length < 4 then .panic else .ok (ev.take (ev.length - 4))

/-- binlogEvent.Rotate : (filename, offset as int64) -/
def rotate (f : Format) (ev : Bytes) : Res (Bytes × Int) := do
  let data ← ev.sliceFrom f.headerLength
  if data.length < 8 then .err else
  let off ← readLE data 0 8
  let name ← data.sliceFrom 8
  pure (name, i64 off)

structure Query where
  database : Bytes
  charset : Option (Nat × Nat × Nat)
  sql : Bytes
  deriving Repr, DecidableEq, BEq, Inhabited

/-- the status-variable scan of binlogEvent.Query; `fuel` bounds the loop (pos strictly increases) -/
def scanVars (vars : Bytes) : Nat → Nat → Option (Nat × Nat × Nat) → Res (Option (Nat × Nat × Nat))
  | 0, _, _ => .diverge
  | fuel + 1, pos, cs =>
    if pos < vars.length then do
      let code ← vars.get pos
      let pos := pos + 1
      if code.toNat = 0 ∨ code.toNat = 3 then scanVars vars fuel (pos + 4) cs
      else if code.toNat = 1 then scanVars vars fuel (pos + 8) cs
      else if code.toNat = 2 then
        if pos + 1 > vars.length then .err else do
          let l ← vars.get pos
          scanVars vars fuel (pos + 1 + l.toNat + 1) cs
      else if code.toNat = 6 then
        if pos + 1 > vars.length then .err else do
          let l ← vars.get pos
          scanVars vars fuel (pos + 1 + l.toNat) cs
      else if code.toNat = 4 then
        if pos + 6 > vars.length then .err else do
          let a ← readLE vars pos 2
          let b ← readLE vars (pos + 2) 2
          let c ← readLE vars (pos + 4) 2
          scanVars vars fuel (pos + 6) (some (a, b, c))
      else .ok cs
    else .ok cs

/-- binlogEvent.Query -/
def query (f : Format) (ev : Bytes) : Res Query := do
  let data ← ev.sliceFrom f.headerLength
  let dbLenB ← data.get 8
  let dbLen := dbLenB.toNat
  let varsLen ← readLE data 11 2
  let dbPos := 13 + varsLen
  let sqlPos := dbPos + dbLen + 1
  if sqlPos > data.length then .err else
  let db ← data.slice dbPos (dbPos + dbLen)
  let sql ← data.sliceFrom sqlPos
  let vars ← data.slice 13 (13 + varsLen)
  let cs ← scanVars vars (vars.length + 1) 0 none
  pure { database := db, charset := cs, sql := sql }

/-- binlogEvent.IntVar -/
def intVar (f : Format) (ev : Bytes) : Res (Nat × Nat) := do
  let data ← ev.sliceFrom f.headerLength
  let t ← data.get 0
  if t.toNat != 1 && t.toNat != 2 then .err else
  let v ← readLE data 1 8
  pure (t.toNat, v)

/-- binlogEvent.Rand -/
def rand (f : Format) (ev : Bytes) : Res (Nat × Nat) := do
  let data ← ev.sliceFrom f.headerLength
  let a ← readLE data 0 8
  let b ← readLE data 8 8
  pure (a, b)

/-- binlogEvent.TableID -/
def tableID (f : Format) (ev : Bytes) : Res Nat := do
  let typ ← evType ev
  let pos := f.headerLength
  let hs ← f.headerSize typ
  if hs = 6 then readLE ev pos 4
  else do
    let b0 ← ev.get pos
    let b1 ← ev.get (pos + 1)
    let b2 ← ev.get (pos + 2)
    let b3 ← ev.get (pos + 3)
    let b4 ← ev.get (pos + 4)
    let b5 ← ev.get (pos + 5)
    pure (Bytes.le [b0, b1, b2, b3, b4, b5])

/-- mysql56BinlogEvent.GTID : (sid, gno as int64) -/
def gtid56 (f : Format) (ev : Bytes) : Res (Bytes × Int) := do
  let data ← ev.sliceFrom f.headerLength
  let sid ← data.slice 1 17
  let gno ← readLE data 17 8
  pure (sid, i64 gno)

/-- mariadbBinlogEvent.GTID : (domain, server, sequence, hasBegin) -/
def gtidMaria (f : Format) (ev : Bytes) : Res (Nat × Nat × Nat × Bool) := do
  let data ← ev.sliceFrom f.headerLength
  let flags2 ← data.get 12
  let seq ← do let s ← data.sliceTo 8; pure (Bytes.le s)
  let dom ← readLE data 8 4
  let srv ← evServerID ev
  pure (dom, srv, seq, flags2.toNat % 2 == 0)

end GV.M
