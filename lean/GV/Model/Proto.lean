import GV.Generated.Facts
/-
  Model of the concurrent protocol of one Stream() attempt (streamer.go Stream / Error, slave_connection.go
  startDumpFromBinlogPosition's goroutine): reader ∥ parser ∥ caller ∥ network, as a labelled transition system.
  Packet *contents* are abstracted to kinds, so the control state is finite while the packet stream is unbounded.
  Every transition is one atomic step of one goroutine (one channel operation / one library call); any
  interleaving of enabled transitions is a behaviour.
-/
namespace GV.Proto

/-- why the reader stopped -/
inductive Reason where
  | cancel      -- its context was cancelled while it was parked on the hand-off
  | eof         -- the master sent an EOF packet
  | fail        -- ERR packet, or a transport failure (lost connection, short / out-of-sequence packet, closed socket)
  deriving Repr, DecidableEq, Inhabited

inductive Reader where
  | reading                 -- inside ReadPacket, waiting for the network
  | holding                 -- has an event; in `select { eventChan <- ev ; <-ctx.Done() }`
  | pub1 (r : Reason)       -- about to `s.errChan <- reason`
  | pub2                    -- about to `close(s.errChan)`
  | pub3                    -- about to run the deferred `close(eventChan)`
  | done
  deriving Repr, DecidableEq, Inhabited

/-- the buffered error channel (capacity Facts.errChanCap = 1) -/
inductive ErrCh where
  | empty | one (r : Reason) | closedOne (r : Reason) | closedEmpty
  deriving Repr, DecidableEq, Inhabited

/-- the goroutine that called Stream -/
inductive Parser where
  | waiting                 -- in parseEvents' `select { ev, ok = <-events ; <-ctx.Done() }`
  | inHandler               -- inside the user's handler
  | ret0 (err : Bool)       -- parseEvents returned (err = non-nil error); about to test ctx.Err() for the latch
  | ret1 (err : Bool)       -- about to run the deferred stopReader()
  | ret2 (err : Bool)       -- about to run the deferred conn.close()
  | returned (err : Bool)   -- Stream has returned
  deriving Repr, DecidableEq, Inhabited

inductive ErrorResult where
  | notCalled | isNil | isErr
  deriving Repr, DecidableEq, Inhabited

structure State where
  reader : Reader
  parser : Parser
  errCh : ErrCh
  evClosed : Bool           -- eventChan closed
  cancelled : Bool          -- the caller's context
  readerCtx : Bool          -- the reader's child context (cancelled with the caller's, or by stopReader)
  connClosed : Bool         -- conn.close() ran: ReadPacket fails from now on
  latched : Bool            -- s.ctx was replaced by context.Background() (stream did not end by cancellation)
  firstError : ErrorResult  -- what the first Error() call after the return gave
  published : Option Reason -- ghost: the reason the reader put into errChan (history variable, read by no transition)
  endedByCtx : Bool         -- ghost: parseEvents returned through <-ctx.Done()
  deriving Repr, DecidableEq, Inhabited

def init : State :=
  { reader := .reading, parser := .waiting, errCh := .empty, evClosed := false, cancelled := false,
    readerCtx := false, connClosed := false, latched := false, firstError := .notCalled,
    published := none, endedByCtx := false }

/-- what parseEvents does with an event it takes -/
inductive Verdict where
  | cont | deliver | decodeError
  deriving Repr, DecidableEq, Inhabited

inductive Packet where
  | event | eof | fail
  deriving Repr, DecidableEq, Inhabited

inductive Action where
  | net (p : Packet)        -- the network completes the reader's ReadPacket
  | readFails               -- ReadPacket returns an error because the connection was closed locally
  | handoff (v : Verdict)   -- rendezvous on eventChan; the parser processes the event
  | readerCtxDone           -- the reader's select takes <-ctx.Done()
  | publish                 -- the reader's next publishing step (send reason / close errChan / close eventChan)
  | handlerReturns (ok : Bool)
  | parserSeesClosed        -- the parser's select takes the closed eventChan
  | parserCtxDone           -- the parser's select takes <-ctx.Done()
  | callerCancels
  | epilogue                -- the next step of Stream after parseEvents returned (latch test, stopReader, conn.close)
  | callError               -- the caller calls Error() (only after Stream returned)
  deriving Repr, DecidableEq, Inhabited

/-- one step; `none` = the action is not enabled in this state -/
def step (s : State) : Action → Option State
  | .net p =>
    if s.reader = .reading ∧ s.connClosed = false then
      match p with
      | .event => some { s with reader := .holding }
      | .eof => some { s with reader := .pub1 .eof }
      | .fail => some { s with reader := .pub1 .fail }
    else none
  | .readFails =>
    if s.reader = .reading ∧ s.connClosed = true then some { s with reader := .pub1 .fail } else none
  | .handoff v =>
    if s.reader = .holding ∧ s.parser = .waiting then
      match v with
      | .cont => some { s with reader := .reading }
      | .deliver => some { s with reader := .reading, parser := .inHandler }
      | .decodeError => some { s with reader := .reading, parser := .ret0 true }
    else none
  | .readerCtxDone =>
    if s.reader = .holding ∧ s.readerCtx = true then some { s with reader := .pub1 .cancel } else none
  | .publish =>
    match s.reader with
    | .pub1 r => (match s.errCh with
        | .empty => some { s with reader := .pub2, errCh := .one r, published := some r }
        | _ => none)                                   -- a full / closed channel would block (or panic)
    | .pub2 => (match s.errCh with
        | .one r => some { s with reader := .pub3, errCh := .closedOne r }
        | .empty => some { s with reader := .pub3, errCh := .closedEmpty }
        | _ => none)
    | .pub3 => some { s with reader := .done, evClosed := true }
    | _ => none
  | .handlerReturns ok =>
    if s.parser = .inHandler then some { s with parser := if ok then .waiting else .ret0 true } else none
  | .parserSeesClosed =>
    if s.parser = .waiting ∧ s.evClosed = true then some { s with parser := .ret0 false } else none
  | .parserCtxDone =>
    if s.parser = .waiting ∧ s.cancelled = true then some { s with parser := .ret0 false, endedByCtx := true } else none
  | .callerCancels => some { s with cancelled := true, readerCtx := true }
  | .epilogue =>
    match s.parser with
    | .ret0 e => some { s with parser := .ret1 e, latched := !s.cancelled }
    | .ret1 e => some { s with parser := .ret2 e, readerCtx := true }
    | .ret2 e => some { s with parser := .returned e, connClosed := true }
    | _ => none
  | .callError =>
    match s.parser with
    | .returned _ =>
      (match s.errCh with
       | .one r =>
          let res := if (s.latched = false ∧ s.cancelled = true) ∨ r = .cancel ∨ r = .eof then ErrorResult.isNil else .isErr
          some { s with errCh := .empty, firstError := if s.firstError = .notCalled then res else s.firstError }
       | .closedOne r =>
          let res := if (s.latched = false ∧ s.cancelled = true) ∨ r = .cancel ∨ r = .eof then ErrorResult.isNil else .isErr
          some { s with errCh := .closedEmpty, firstError := if s.firstError = .notCalled then res else s.firstError }
       | .closedEmpty => some { s with firstError := if s.firstError = .notCalled then .isNil else s.firstError }
       | .empty => none)                               -- Error() blocks
    | _ => none

inductive Reachable : State → Prop where
  | init : Reachable init
  | step (s s' : State) (a : Action) : Reachable s → step s a = some s' → Reachable s'

def run (s : State) : List Action → Option State
  | [] => some s
  | a :: as => match step s a with
    | some s' => run s' as
    | none => none

/-- actions of the reader goroutine that need no other process (the network aside) -/
def readerOwn : Action → Bool
  | .readFails | .readerCtxDone | .publish => true
  | _ => false

end GV.Proto
