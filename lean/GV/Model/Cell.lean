import GV.Model.Json
/- Model of cellLength, printTimestamp and CellBytes (replication/binlog_event_rbr.go). -/
namespace GV.M

/-- little-endian value of data[pos] … data[pos+w-1], read one index at a time (Go indexes, it does not slice) -/
def leIdx (data : Bytes) (pos : Nat) : Nat → Res Nat
  | 0 => .ok 0
  | w + 1 => do
      let b ← data.get pos
      let r ← leIdx data (pos + 1) w
      pure (b.toNat + 256 * r)

/-- big-endian value of data[pos] … data[pos+w-1], read by index -/
def beIdx (data : Bytes) (pos : Nat) : Nat → Res Nat
  | 0 => .ok 0
  | w + 1 => do
      let b ← data.get pos
      let r ← beIdx data (pos + 1) w
      pure (b.toNat * 256 ^ w + r)

/-- length prefix reader shared by the blob-like cases: md ∈ 1..4 bytes little-endian, else error -/
def blobLen (data : Bytes) (pos md : Nat) : Res Nat :=
  if md = 1 ∨ md = 2 ∨ md = 3 ∨ md = 4 then leIdx data pos md else .err

/-- the "real string" maximum length packed into TypeString metadata (uint16 arithmetic) -/
def stringMax (md : Nat) : Nat := u16 ((((md / 16) &&& 0x300) ^^^ 0x300) + (md &&& 0xff))

/-- cellLength -/
def cellLength (data : Bytes) (pos typ md : Nat) : Res Nat :=
  match lookup Facts.cellLengthFixed typ with
  | some n => .ok n
  | none =>
    if typ = 15 ∨ typ = 253 then
      if md > 255 then do let l ← leIdx data pos 2; pure (l + 2)
      else do let b ← data.get pos; pure (b.toNat + 1)
    else if typ = 16 then
      let nbits := u16 (u16 ((md / 256) * 8) + md % 256)
      .ok ((nbits + 7) / 8)
    else if typ = 17 then .ok (4 + (md + 1) / 2)
    else if typ = 18 then .ok (5 + (md + 1) / 2)
    else if typ = 19 then .ok (3 + (md + 1) / 2)
    else if typ = 246 then decimalLen md
    else if typ = 247 ∨ typ = 248 then .ok (md % 256)
    else if typ = 245 ∨ typ = 249 ∨ typ = 250 ∨ typ = 251 ∨ typ = 252 ∨ typ = 255 then do
      let l ← blobLen data pos md
      pure (md + l)
    else if typ = 254 then
      let t := md / 256
      if t = 247 ∨ t = 248 then .ok (md % 256)
      else if stringMax md > 255 then do let l ← leIdx data pos 2; pure (l + 2)
      else do let b ← data.get pos; pure (b.toNat + 1)
    else .err

/-- days since 1970-01-01 → (year, month, day), proleptic Gregorian (Hinnant's civil_from_days) -/
def civilOfDays (z0 : Int) : Int × Int × Int :=
  let z := z0 + 719468
  let era := z / 146097
  let doe := z - era * 146097
  let yoe := (doe - doe / 1460 + doe / 36524 - doe / 146096) / 365
  let y := yoe + era * 400
  let doy := doe - (365 * yoe + yoe / 4 - yoe / 100)
  let mp := (5 * doy + 2) / 153
  let d := doy - (153 * mp + 2) / 5 + 1
  let m := if mp < 10 then mp + 3 else mp - 9
  (if m ≤ 2 then y + 1 else y, m, d)

def pad (k : Nat) (v : Int) : Bytes := padMin k v.toNat

/-- printTimestamp -/
def printTimestamp (E : Ext) (v : Nat) : Bytes :=
  if v = 0 then asc "0000-00-00 00:00:00"
  else
    let t : Int := (v : Int) + E.tzOffset v
    let days := t / 86400
    let secs := t % 86400
    let (y, m, d) := civilOfDays days
    pad 4 y ++ [45] ++ pad 2 m ++ [45] ++ pad 2 d ++ [32] ++ pad 2 (secs / 3600) ++ [58]
      ++ pad 2 (secs % 3600 / 60) ++ [58] ++ pad 2 (secs % 60)

/-- the fractional part shared by TIMESTAMP2 / DATETIME2: (".ddd", extra bytes) for md 1..6 -/
def fracSuffix (data : Bytes) (pos md : Nat) : Res (Bytes × Nat) :=
  if md = 1 then do let v ← beIdx data pos 1; pure ([46] ++ padMin 1 (v / 10), 1)
  else if md = 2 then do let v ← beIdx data pos 1; pure ([46] ++ padMin 2 v, 1)
  else if md = 3 then do let v ← beIdx data pos 2; pure ([46] ++ padMin 3 (v / 10), 2)
  else if md = 4 then do let v ← beIdx data pos 2; pure ([46] ++ padMin 4 v, 2)
  else if md = 5 then do let v ← beIdx data pos 3; pure ([46] ++ padMin 5 (v / 10), 3)
  else if md = 6 then do let v ← beIdx data pos 3; pure ([46] ++ padMin 6 v, 3)
  else .ok ([], 0)

/-- CellBytes: (value, consumed length).  The value is never a nil slice in the Go code (see DESIGN §7 C13),
    so it is modelled as `Bytes`; Tie B compares nil-ness separately. -/
def cellBytes (E : Ext) (data : Bytes) (pos typ md : Nat) (unsigned : Bool) : Res (Bytes × Nat) :=
  if typ = 1 then do
    let b ← data.get pos
    pure (if unsigned then natDec b.toNat else intDec (i8 b.toNat), 1)
  else if typ = 13 then do
    let b ← data.get pos
    pure (if b.toNat = 0 then asc "0000" else natDec (b.toNat + 1900), 1)
  else if typ = 2 then do
    let v ← readLE data pos 2
    pure (if unsigned then natDec v else intDec (i16 v), 2)
  else if typ = 9 then do
    if !unsigned then
      let b2 ← data.get (pos + 2)
      if b2.toNat ≥ 128 then
        let v ← leIdx data pos 3
        pure (intDec (i32 (u32 (v + 255 * 2 ^ 24))), 3)
      else
        let v ← leIdx data pos 3
        pure (natDec v, 3)
    else
      let v ← leIdx data pos 3
      pure (natDec v, 3)
  else if typ = 3 then do
    let v ← readLE data pos 4
    pure (if unsigned then natDec v else intDec (i32 v), 4)
  else if typ = 4 then do
    let v ← readLE data pos 4
    pure (E.fmtFloat32 v, 4)
  else if typ = 5 then do
    let v ← readLE data pos 8
    pure (E.fmtFloat64 v, 8)
  else if typ = 7 then do
    let v ← readLE data pos 4
    pure (printTimestamp E v, 4)
  else if typ = 8 then do
    let v ← readLE data pos 8
    pure (if unsigned then natDec v else intDec (i64 v), 8)
  else if typ = 10 ∨ typ = 14 then do
    let v ← leIdx data pos 3
    pure (padMin 4 (v / 512) ++ [45] ++ padMin 2 (v / 32 % 16) ++ [45] ++ padMin 2 (v % 32), 3)
  else if typ = 11 then do
    let b2 ← data.get (pos + 2)
    let v ← leIdx data pos 3
    let neg := b2.toNat ≥ 128
    let a := if neg then 2 ^ 24 - v else v
    pure ((if neg then [45] else []) ++ padMin 2 (a / 10000) ++ [58] ++ padMin 2 (a % 10000 / 100) ++ [58]
            ++ padMin 2 (a % 100), 3)
  else if typ = 12 then do
    let v ← readLE data pos 8
    let d := v / 1000000
    let t := v % 1000000
    pure (padMin 4 (d / 10000) ++ [45] ++ padMin 2 (d % 10000 / 100) ++ [45] ++ padMin 2 (d % 100) ++ [32]
            ++ padMin 2 (t / 10000) ++ [58] ++ padMin 2 (t % 10000 / 100) ++ [58] ++ padMin 2 (t % 100), 8)
  else if typ = 15 ∨ typ = 253 then
    if md > 255 then do
      let l ← leIdx data pos 2
      let s ← data.slice (pos + 2) (pos + 2 + l)
      pure (s, l + 2)
    else do
      let b ← data.get pos
      let s ← data.slice (pos + 1) (pos + 1 + b.toNat)
      pure (s, b.toNat + 1)
  else if typ = 16 then do
    let nbits := u16 (u16 ((md / 256) * 8) + md % 256)
    let l := (nbits + 7) / 8
    let s ← data.slice pos (pos + l)
    pure (s, l)
  else if typ = 17 then do
    let sec ← readBE data pos 4
    let (fr, n) ← fracSuffix data (pos + 4) md
    pure (printTimestamp E sec ++ fr, 4 + n)
  else if typ = 18 then do
    let raw ← beIdx data pos 5
    let ymdhms := subU64 raw 0x8000000000
    let ymd := ymdhms / 2 ^ 17
    let ym := ymd / 32
    let hms := ymdhms % 2 ^ 17
    let txt := padMin 4 (ym / 13) ++ [45] ++ padMin 2 (ym % 13) ++ [45] ++ padMin 2 (ymd % 32) ++ [32]
                ++ padMin 2 (hms / 4096) ++ [58] ++ padMin 2 (hms / 64 % 64) ++ [58] ++ padMin 2 (hms % 64)
    let (fr, n) ← fracSuffix data (pos + 5) md
    pure (txt ++ fr, 5 + n)
  else if typ = 19 then do
    let raw ← beIdx data pos 3
    let neg := raw < 0x800000
    let hms0 := if neg then 0x800000 - raw else raw - 0x800000
    -- the fraction: width in bytes, and whether the last digit is dropped
    let w := if md = 1 ∨ md = 2 then 1 else if md = 3 ∨ md = 4 then 2 else if md = 5 ∨ md = 6 then 3 else 0
    let fr0 ← beIdx data (pos + 3) w
    let borrow := neg ∧ fr0 ≠ 0 ∧ w ≠ 0
    -- `hms--` on an int64: for hms = 0 this cannot happen because neg ⇒ hms0 ≥ 1
    let hms := if borrow then hms0 - 1 else hms0
    let fr := if borrow then 256 ^ w - fr0 else fr0
    let fracStr : Bytes :=
      if md = 1 then [46] ++ padMin 1 (fr / 10) else if md = 2 then [46] ++ padMin 2 fr
      else if md = 3 then [46] ++ padMin 3 (fr / 10) else if md = 4 then [46] ++ padMin 4 fr
      else if md = 5 then [46] ++ padMin 5 (fr / 10) else if md = 6 then [46] ++ padMin 6 fr else []
    pure ((if neg then [45] else []) ++ padMin 2 (hms / 4096 % 1024) ++ [58] ++ padMin 2 (hms / 64 % 64) ++ [58]
            ++ padMin 2 (hms % 64) ++ fracStr, 3 + (md + 1) / 2)
  else if typ = 246 then decimalBytes data pos md
  else if typ = 247 then
    if md % 256 = 1 then do let b ← data.get pos; pure (natDec b.toNat, 1)
    else if md % 256 = 2 then do let v ← readLE data pos 2; pure (natDec v, 2)
    else .err
  else if typ = 248 then do
    let l := md % 256
    let s ← data.slice pos (pos + l)
    pure (s, l)
  else if typ = 245 ∨ typ = 249 ∨ typ = 250 ∨ typ = 251 ∨ typ = 252 then do
    let l ← blobLen data pos md
    let p := pos + md
    let s ← data.slice p (p + l)
    if typ = 245 then
      match printJSONData E s with
      | .ok d => pure (d, l + md)
      | .err => .err
      | .panic => .panic
      | .diverge => .diverge
    else pure (s, l + md)
  else if typ = 254 then
    let t := md / 256
    if t = 247 then
      if md % 256 = 1 then do let b ← data.get pos; pure (natDec b.toNat, 1)
      else if md % 256 = 2 then do let v ← readLE data pos 2; pure (natDec v, 2)
      else .err
    else if t = 248 then do
      let l := md % 256
      let v ← setMask data pos l 0
      pure (natDec (u64 v), l)
    else if stringMax md > 255 then do
      let l ← leIdx data pos 2
      let s ← data.slice (pos + 2) (pos + 2 + l)
      pure (s, l + 2)
    else do
      let b ← data.get pos
      let s ← data.slice (pos + 1) (pos + 1 + b.toNat)
      pure (s, b.toNat + 1)
  else if typ = 255 then do
    let l ← blobLen data pos md
    let p := pos + md
    let s ← data.slice p (p + l)
    pure (s, l + md)
  else .err
where
  /-- `val += uint64(data[pos+i]) << (uint(i)*8)` for i < l: shifts ≥ 64 give 0 -/
  setMask (data : Bytes) (pos : Nat) : Nat → Nat → Res Nat
    | 0, _ => .ok 0
    | l + 1, i => do
        let b ← data.get (pos + i)
        let r ← setMask data pos l (i + 1)
        pure ((if i < 8 then b.toNat * 256 ^ i else 0) + r)

end GV.M
