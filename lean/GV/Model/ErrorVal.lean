import GV.Base.Go
/- Model of error.go: the Error wrapper (original error + message prefix chain). -/
namespace GV.M

structure GErr where
  ori : Bytes      -- the text of the original error (`ori.Error()`)
  msg : Bytes
  deriving Repr, DecidableEq, Inhabited

/-- newError -/
def newError (ori : Bytes) : GErr := ⟨ori, []⟩
/-- (*Error).msgf: the formatted text is put in front of the message so far -/
def GErr.msgf (e : GErr) (text : Bytes) : GErr := ⟨e.ori, text ++ e.msg⟩
/-- (*Error).Error: fmt.Sprintf("%v oriErr: %v", e.msg, e.ori) -/
def GErr.errorString (e : GErr) : Bytes := e.msg ++ asc " oriErr: " ++ e.ori
/-- (*Error).Original -/
def GErr.original (e : GErr) : Bytes := e.ori

/-- the driver's MySQLError text for an ERR packet: "Error <code>: <message>" (interface contract) -/
def mysqlErrorText (code : Nat) (message : Bytes) : Bytes := asc "Error " ++ natDec code ++ asc ": " ++ message

/-- what readBinlogEvent publishes for an ERR packet -/
def errPacketError (code : Nat) (message : Bytes) : GErr :=
  (newError (mysqlErrorText code message)).msgf (asc "fetch error packet")

end GV.M
