import GV.Model.Decimal
/- Model of replication/binlog_event_json.go.  Text is returned instead of being appended to a buffer
   (on error Go discards the buffer).  Recursion is on explicit fuel; `diverge` = out of fuel. -/
namespace GV.M

/-- external library behaviour: parameters, never axioms (DESIGN §3) -/
structure Ext where
  fmtFloat32 : Nat → Bytes      -- strconv.AppendFloat(nil, float64(float32frombits b), 'f', -1, 32)
  fmtFloat64 : Nat → Bytes      -- strconv.AppendFloat(nil, float64frombits b, 'f', -1, 64)
  fmtFloat64E : Nat → Bytes     -- strconv.AppendFloat(nil, float64frombits b, 'E', -1, 64)
  tzOffset : Nat → Int          -- seconds east of UTC of time.Unix(v,0).Local()

/-- readOffsetOrSize -/
def readOffsetOrSize (data : Bytes) (pos : Nat) (large : Bool) : Res (Nat × Nat) :=
  if large then do let v ← readLE data pos 4; pure (v, pos + 4)
  else do let v ← readLE data pos 2; pure (v, pos + 2)

/-- readVariableLength; the result is the 64-bit pattern of Go's `int` (≥ 2^63 means negative).
    `idx` is a byte, so `7*idx` and `idx++` wrap at 256; shifts ≥ 64 give 0. -/
def readVarLenAux : Bytes → Nat → Nat → Nat → Res (Nat × Nat)
  | [], _, _, _ => .panic
  | bb :: rest, pos, idx, res =>
    let sh := (7 * idx) % 256
    let add := if sh < 64 then u64 ((bb.toNat % 128) * 2 ^ sh) else 0
    let res := res ||| add
    if bb.toNat < 128 then .ok (res, pos + 1)
    else readVarLenAux rest (pos + 1) ((idx + 1) % 256) res

def readVariableLength (data : Bytes) (pos : Nat) : Res (Nat × Nat) :=
  if pos > data.length then .panic else readVarLenAux (data.drop pos) pos 0 0

def q (top : Bool) (t : Bytes) : Bytes := if top then [39] ++ t ++ [39] else t

def jsonLiteral (b : UInt8) (top : Bool) : Res Bytes :=
  if b.toNat = Facts.jsonNullLiteral then .ok (q top (asc "null"))
  else if b.toNat = Facts.jsonTrueLiteral then .ok (q top (asc "true"))
  else if b.toNat = Facts.jsonFalseLiteral then .ok (q top (asc "false"))
  else .err

def castWrap (top : Bool) (t : Bytes) : Bytes :=
  if top then asc "CAST(" ++ t ++ asc " AS JSON)" else t

def jsonDate (data : Bytes) (top : Bool) : Res Bytes := do
  let raw ← readLE data 0 8
  let value := raw / 2 ^ 24
  let ym := (value / 2 ^ 22) % 2 ^ 17
  let year := ym / 13
  let month := ym % 13
  let day := (value / 2 ^ 17) % 32
  pure (castWrap top (asc "CAST('" ++ padMin 4 year ++ [45] ++ padMin 2 month ++ [45] ++ padMin 2 day ++ asc "' AS DATE)"))

def jsonTime (data : Bytes) (top : Bool) : Res Bytes := do
  let raw0 ← readLE data 0 8
  let negative := raw0 ≥ 2 ^ 63
  let raw := if negative then (2 ^ 64 - raw0) % 2 ^ 64 else raw0
  let value := raw / 2 ^ 24
  let hour := (value / 2 ^ 12) % 1024
  let minute := (value / 2 ^ 6) % 64
  let second := value % 64
  let micro := raw % 2 ^ 24
  let body := (if negative then [45] else []) ++ padMin 2 hour ++ [58] ++ padMin 2 minute ++ [58] ++ padMin 2 second
                ++ (if micro != 0 then [46] ++ padMin 6 micro else [])
  pure (castWrap top (asc "CAST('" ++ body ++ asc "' AS TIME(6))"))

def jsonDateTime (data : Bytes) (top : Bool) : Res Bytes := do
  let raw ← readLE data 0 8
  let value := raw / 2 ^ 24
  let ym := (value / 2 ^ 22) % 2 ^ 17
  let year := ym / 13
  let month := ym % 13
  let day := (value / 2 ^ 17) % 32
  let hour := (value / 2 ^ 12) % 32
  let minute := (value / 2 ^ 6) % 64
  let second := value % 64
  let micro := raw % 2 ^ 24
  let body := padMin 4 year ++ [45] ++ padMin 2 month ++ [45] ++ padMin 2 day ++ [32] ++ padMin 2 hour ++ [58]
                ++ padMin 2 minute ++ [58] ++ padMin 2 second ++ (if micro != 0 then [46] ++ padMin 6 micro else [])
  pure (castWrap top (asc "CAST('" ++ body ++ asc "' AS DATETIME(6))"))

def jsonDecimal (data : Bytes) (top : Bool) : Res Bytes := do
  let p ← data.get 0
  let s ← data.get 1
  let md := p.toNat * 256 + s.toNat
  let (val, _) ← decimalBytes data 2 md
  pure (castWrap top (asc "CAST('" ++ val ++ asc "' AS DECIMAL(" ++ natDec p.toNat ++ [44] ++ natDec s.toNat ++ asc "))"))

def jsonOpaque (data : Bytes) (top : Bool) : Res Bytes := do
  let typ ← data.get 0
  let (size, pos) ← readVariableLength data 1
  if size ≥ 2 ^ 63 then
    -- negative size: every supported case slices data[pos:pos+size] and panics; others return an error
    if typ.toNat = 10 ∨ typ.toNat = 11 ∨ typ.toNat = 12 ∨ typ.toNat = 246 then .panic else .err
  else if typ.toNat = 10 then do let d ← data.slice pos (pos + size); jsonDate d top
  else if typ.toNat = 11 then do let d ← data.slice pos (pos + size); jsonTime d top
  else if typ.toNat = 12 then do let d ← data.slice pos (pos + size); jsonDateTime d top
  else if typ.toNat = 246 then do let d ← data.slice pos (pos + size); jsonDecimal d top
  else .err

def jsonString (data : Bytes) (top : Bool) : Res Bytes := do
  let (size, pos) ← readVariableLength data 0
  if size ≥ 2 ^ 63 then .panic else
  let s ← data.slice pos (pos + size)
  if top then pure (asc "'\"" ++ s ++ asc "\"'") else pure ([39] ++ s ++ [39])

def jsonScalarInt (data : Bytes) (w : Nat) (signed : Bool) (top : Bool) : Res Bytes := do
  let v ← readLE data 0 w
  pure (q top (if signed then intDec (toSigned (8 * w) v) else natDec v))

/-- read the key table of an object: n entries of (offset, length) from pos -/
def jsonKeys (data : Bytes) (large : Bool) : Nat → Nat → Res (List Bytes × Nat)
  | 0, pos => .ok ([], pos)
  | n + 1, pos => do
      let (ko, pos) ← readOffsetOrSize data pos large
      let (kl, pos) ← readOffsetOrSize data pos false
      let k ← data.slice ko (ko + kl)
      let (ks, pos) ← jsonKeys data large n pos
      pure (k :: ks, pos)

mutual
/-- printJSONValue -/
def jsonValue (E : Ext) : Nat → Nat → Bytes → Bool → Res Bytes
  | 0, _, _, _ => .diverge
  | fuel + 1, typ, data, top =>
    if typ = 0 then jsonObject E fuel data false
    else if typ = 1 then jsonObject E fuel data true
    else if typ = 2 then jsonArray E fuel data false
    else if typ = 3 then jsonArray E fuel data true
    else if typ = 4 then do let b ← data.get 0; jsonLiteral b top
    else if typ = 5 then do let d ← data.slice 0 2; jsonScalarInt d 2 true top
    else if typ = 6 then do let d ← data.slice 0 2; jsonScalarInt d 2 false top
    else if typ = 7 then do let d ← data.slice 0 4; jsonScalarInt d 4 true top
    else if typ = 8 then do let d ← data.slice 0 4; jsonScalarInt d 4 false top
    else if typ = 9 then do let d ← data.slice 0 8; jsonScalarInt d 8 true top
    else if typ = 10 then do let d ← data.slice 0 8; jsonScalarInt d 8 false top
    else if typ = 11 then do let d ← data.slice 0 8; let v ← readLE d 0 8; pure (q top (E.fmtFloat64E v))
    else if typ = 12 then jsonString data top
    else if typ = 15 then jsonOpaque data top
    else .err

/-- printJSONObject -/
def jsonObject (E : Ext) : Nat → Bytes → Bool → Res Bytes
  | 0, _, _ => .diverge
  | fuel + 1, data, large => do
    let (count, pos) ← readOffsetOrSize data 0 large
    let (size, pos) ← readOffsetOrSize data pos large
    if size > data.length then .err else
    let (keys, pos) ← jsonKeys data large count pos
    let body ← jsonObjEntries E fuel data large keys pos true
    pure (asc "JSON_OBJECT(" ++ body ++ [41])

/-- printJSONArray -/
def jsonArray (E : Ext) : Nat → Bytes → Bool → Res Bytes
  | 0, _, _ => .diverge
  | fuel + 1, data, large => do
    let (count, pos) ← readOffsetOrSize data 0 large
    let (size, pos) ← readOffsetOrSize data pos large
    if size > data.length then .err else
    let body ← jsonArrEntries E fuel data large count pos true
    pure (asc "JSON_ARRAY(" ++ body ++ [41])

def jsonObjEntries (E : Ext) : Nat → Bytes → Bool → List Bytes → Nat → Bool → Res Bytes
  | 0, _, _, _, _, _ => .diverge
  | _ + 1, _, _, [], _, _ => .ok []
  | fuel + 1, data, large, k :: ks, pos, first => do
    let v ← jsonEntry E fuel data pos large
    let rest ← jsonObjEntries E fuel data large ks (pos + (if large then 5 else 3)) false
    pure ((if first then [] else [44]) ++ [39] ++ k ++ [39, 44] ++ v ++ rest)

def jsonArrEntries (E : Ext) : Nat → Bytes → Bool → Nat → Nat → Bool → Res Bytes
  | 0, _, _, _, _, _ => .diverge
  | _ + 1, _, _, 0, _, _ => .ok []
  | fuel + 1, data, large, n + 1, pos, first => do
    let v ← jsonEntry E fuel data pos large
    let rest ← jsonArrEntries E fuel data large n (pos + (if large then 5 else 3)) false
    pure ((if first then [] else [44]) ++ v ++ rest)

/-- printJSONValueEntry -/
def jsonEntry (E : Ext) : Nat → Bytes → Nat → Bool → Res Bytes
  | 0, _, _, _ => .diverge
  | fuel + 1, data, pos, large => do
    let typ ← data.get pos
    let pos := pos + 1
    if typ.toNat = 4 then do let b ← data.get pos; jsonLiteral b false
    else if typ.toNat = 5 then do let d ← data.slice pos (pos + 2); jsonScalarInt d 2 true false
    else if typ.toNat = 6 then do let d ← data.slice pos (pos + 2); jsonScalarInt d 2 false false
    else if typ.toNat = 7 ∧ large then do let d ← data.slice pos (pos + 4); jsonScalarInt d 4 true false
    else if typ.toNat = 8 ∧ large then do let d ← data.slice pos (pos + 4); jsonScalarInt d 4 false false
    else do
      let (offset, _) ← readOffsetOrSize data pos large
      let d ← data.sliceFrom offset
      jsonValue E fuel typ.toNat d false
end

def jsonFuel (data : Bytes) : Nat := 2 * data.length + 8

/-- printJSONData -/
def printJSONData (E : Ext) (data : Bytes) : Res Bytes :=
  match data with
  | [] => .ok (asc "'null'")
  | typ :: rest => jsonValue E (jsonFuel data) typ.toNat rest true

end GV.M
