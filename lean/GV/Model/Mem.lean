import GV.Model.Rows
/-
  Model of who writes which buffer (C08): an explicit heap of byte buffers with identities.
  Buffer 0 is the transport's receive buffer (the driver reuses it for every packet); every event gets a fresh
  buffer into which the payload is copied (slave_connection.go readBinlogEvent: make + copy — pinned by Tie A);
  decoded values are either sub-slices of their event's buffer (strings, blobs, bit, set: the CellBytes cases that
  return `data[a:b]`) or live in fresh buffers (every formatted value, and — since the repair of F5 — the zero
  timestamp, which is a copy of the package-level constant rather than the constant itself).
-/
namespace GV.Mem

abbrev BufId := Nat

/-- a delivered byte slice: buffer identity, offset, length -/
structure Ref where
  buf : BufId
  off : Nat
  len : Nat
  deriving Repr, DecidableEq, Inhabited

structure Sys where
  heap : BufId → Bytes
  next : BufId                 -- the next fresh identity; buffers ≥ next do not exist yet
  delivered : List Ref         -- everything handed to the handler so far
  events : List BufId          -- event buffers allocated so far (most recent first)

def transport : BufId := 0
/-- the package-level ZeroTimestamp constant -/
def zeroTsConst : BufId := 1

def init : Sys :=
  { heap := fun b => if b = zeroTsConst then asc "0000-00-00 00:00:00" else [], next := 2, delivered := [], events := [] }

def Ref.read (s : Sys) (r : Ref) : Bytes := ((s.heap r.buf).drop r.off).take r.len

def setBuf (h : BufId → Bytes) (b : BufId) (v : Bytes) : BufId → Bytes := fun x => if x = b then v else h x

/-- overwrite `len` bytes at `off` of a buffer (a write through a slice never changes the length) -/
def overwrite (old : Bytes) (off : Nat) (v : Bytes) : Bytes := old.take off ++ v ++ old.drop (off + v.length)

/-- everything the library and the handler can do to memory -/
inductive Op where
  | readPacket (payload : Bytes)            -- the driver refills its buffer
  | newEvent                                -- readBinlogEvent: fresh buffer := copy of transport[1:]
  | deliverSub (off len : Nat)              -- a value that is a sub-slice of the current event buffer
  | deliverFresh (v : Bytes)                -- a formatted value in a buffer of its own
  | deliverZeroTs (shared : Bool)           -- a zero timestamp: the shared constant (before F5) or a copy
  | scribble (i : Nat) (v : Bytes)          -- the handler overwrites the i-th delivered value (same length)

def step (s : Sys) : Op → Sys
  | .readPacket p => { s with heap := setBuf s.heap transport p }
  | .newEvent =>
      { s with heap := setBuf s.heap s.next ((s.heap transport).drop 1), next := s.next + 1, events := s.next :: s.events }
  | .deliverSub off len =>
      match s.events with
      | e :: _ => { s with delivered := s.delivered ++ [⟨e, off, len⟩] }
      | [] => s
  | .deliverFresh v =>
      { s with heap := setBuf s.heap s.next v, next := s.next + 1, delivered := s.delivered ++ [⟨s.next, 0, v.length⟩] }
  | .deliverZeroTs shared =>
      if shared then { s with delivered := s.delivered ++ [⟨zeroTsConst, 0, 19⟩] }
      else { s with heap := setBuf s.heap s.next (s.heap zeroTsConst), next := s.next + 1,
                    delivered := s.delivered ++ [⟨s.next, 0, 19⟩] }
  | .scribble i v =>
      match s.delivered[i]? with
      | some r => if v.length = r.len then { s with heap := setBuf s.heap r.buf (overwrite (s.heap r.buf) r.off v) } else s
      | none => s

def run (s : Sys) (ops : List Op) : Sys := ops.foldl step s

/-- operations of the library (everything but the handler's scribbling) -/
def isLib : Op → Bool
  | .scribble _ _ => false
  | _ => true

/-- two refs do not overlap -/
def Ref.disjoint (a b : Ref) : Prop := a.buf ≠ b.buf ∨ a.off + a.len ≤ b.off ∨ b.off + b.len ≤ a.off

/-- the decoder hands out sub-slices of an event that do not overlap each other and lie inside the event: this is
    what `SubsOK` demands of an operation sequence (justified for the real decoder by C08_cell_within /
    C08_cells_disjoint over the model of CellBytes) -/
def SubsOK (s : Sys) : List Op → Prop
  | [] => True
  | .deliverSub off len :: rest =>
      (match s.events with
       | e :: _ => off + len ≤ (s.heap e).length ∧ ∀ r ∈ s.delivered, r.buf = e → r.off + r.len ≤ off ∨ off + len ≤ r.off
       | [] => False) ∧ SubsOK (step s (.deliverSub off len)) rest
  | op :: rest => SubsOK (step s op) rest

end GV.Mem
