import GV.Base.Go
/-
  Model of replication/mysql56_gtid.go, mysql56_gtid_set.go, mariadb_gtid.go, gtid.go.
  A Go map[SID][]interval is modelled extensionally as an association list with distinct keys; every operation of
  the Go code is independent of map iteration order, and `String` / `SIDBlock` sort the keys.
-/
namespace GV.M

/-! ### number parsing (strconv) -/

def allDigits (s : Bytes) : Bool := s.all isDigit

/-- strconv.ParseUint(s, 10, bits) -/
def parseUintDec (s : Bytes) (bits : Nat) : Option Nat :=
  if s.isEmpty || !allDigits s then none
  else match decValue s with
    | some v => if v < 2 ^ bits then some v else none
    | none => none

/-- strconv.ParseInt(s, 10, 64) -/
def parseIntDec (s : Bytes) : Option Int :=
  match s with
  | [] => none
  | c :: rest =>
    if c = 43 then (match parseUintDec rest 64 with | some v => if v < 2 ^ 63 then some (v : Int) else none | none => none)
    else if c = 45 then (match parseUintDec rest 64 with | some v => if v ≤ 2 ^ 63 then some (-(v : Int)) else none | none => none)
    else match parseUintDec s 64 with | some v => if v < 2 ^ 63 then some (v : Int) else none | none => none

/-- strings.Split(s, sep) for a one-byte separator -/
def splitOn (sep : UInt8) : Bytes → List Bytes
  | [] => [[]]
  | c :: cs =>
    if c = sep then [] :: splitOn sep cs
    else match splitOn sep cs with
      | [] => [[c]]
      | p :: ps => (c :: p) :: ps

/-! ### SID -/

def unhexDigit (c : UInt8) : Option Nat :=
  if 48 ≤ c.toNat ∧ c.toNat ≤ 57 then some (c.toNat - 48)
  else if 97 ≤ c.toNat ∧ c.toNat ≤ 102 then some (c.toNat - 87)
  else if 65 ≤ c.toNat ∧ c.toNat ≤ 70 then some (c.toNat - 55)
  else none

/-- hex.Decode -/
def unhex : Bytes → Option Bytes
  | [] => some []
  | [_] => none
  | a :: b :: rest =>
    match unhexDigit a, unhexDigit b, unhex rest with
    | some x, some y, some r => some (UInt8.ofNat (x * 16 + y) :: r)
    | _, _, _ => none

/-- SID.String: 8-4-4-4-12 lower-case hex -/
def sidString (sid : Bytes) : Bytes :=
  hexOf (sid.take 4) ++ [45] ++ hexOf ((sid.drop 4).take 2) ++ [45] ++ hexOf ((sid.drop 6).take 2) ++ [45] ++
    hexOf ((sid.drop 8).take 2) ++ [45] ++ hexOf ((sid.drop 10).take 6)

/-- ParseSID -/
def parseSID (s : Bytes) : Option Bytes :=
  if s.length != 36 || s[8]? != some 45 || s[13]? != some 45 || s[18]? != some 45 || s[23]? != some 45 then none
  else unhex (s.take 8 ++ (s.drop 9).take 4 ++ (s.drop 14).take 4 ++ (s.drop 19).take 4 ++ s.drop 24)

/-! ### MySQL 5.6 GTID -/

structure Gtid56 where
  sid : Bytes
  seq : Int
  deriving Repr, DecidableEq, BEq, Inhabited

/-- parseMysql56GTID -/
def parseGtid56 (s : Bytes) : Option Gtid56 :=
  match splitOn 58 s with
  | [a, b] =>
    match parseSID a, parseIntDec b with
    | some sid, some n => some ⟨sid, n⟩
    | _, _ => none
  | _ => none

def gtid56String (g : Gtid56) : Bytes := sidString g.sid ++ [58] ++ intDec g.seq

structure Iv where
  start : Int
  stop : Int      -- `end` in Go
  deriving Repr, DecidableEq, BEq, Inhabited

abbrev Set56 := List (Bytes × List Iv)

def Set56.get (s : Set56) (sid : Bytes) : List Iv :=
  match s.find? (fun p => p.1 == sid) with
  | some p => p.2
  | none => []

def Set56.has (s : Set56) (sid : Bytes) : Bool := (s.find? (fun p => p.1 == sid)).isSome

/-- `set[sid] = ivs` -/
def Set56.put (s : Set56) (sid : Bytes) (ivs : List Iv) : Set56 :=
  if s.has sid then s.map (fun p => if p.1 == sid then (sid, ivs) else p) else s ++ [(sid, ivs)]

/-- bytes.Compare(a, b) < 0 -/
def sidLess : Bytes → Bytes → Bool
  | [], [] => false
  | [], _ :: _ => true
  | _ :: _, [] => false
  | a :: as, b :: bs => if a.toNat < b.toNat then true else if a.toNat > b.toNat then false else sidLess as bs

def insertSorted {α} (lt : α → α → Bool) (x : α) : List α → List α
  | [] => [x]
  | y :: ys => if lt x y then x :: y :: ys else y :: insertSorted lt x ys

def sortBy {α} (lt : α → α → Bool) (l : List α) : List α := l.foldr (insertSorted lt) []

/-- Mysql56GTIDSet.SIDs -/
def Set56.sids (s : Set56) : List Bytes := sortBy sidLess (s.map (·.1))

/-- parseInterval -/
def parseInterval (s : Bytes) : Option Iv :=
  match splitOn 45 s with
  | [] => none
  | p0 :: rest =>
    match parseIntDec p0 with
    | none => none
    | some start =>
      if start < 1 then none
      else match rest with
        | [] => some ⟨start, start⟩
        | [p1] => (match parseIntDec p1 with | some e => some ⟨start, e⟩ | none => none)
        | _ => none

def isSpace (c : UInt8) : Bool := c = 32 || c = 9 || c = 10 || c = 11 || c = 12 || c = 13
/-- strings.TrimSpace on ASCII white space -/
def trimSpace (s : Bytes) : Bytes := ((s.dropWhile isSpace).reverse.dropWhile isSpace).reverse

def parseIntervals : List Bytes → Option (List Iv)
  | [] => some []
  | p :: ps =>
    match parseInterval p, parseIntervals ps with
    | some iv, some r => some (if iv.stop < iv.start then r else iv :: r)
    | _, _ => none

/-- the loop body of parseMysql56GTIDSet over the comma-separated parts -/
def parseSet56Parts : List Bytes → Set56 → Option Set56
  | [], acc => some acc
  | u :: us, acc =>
    let u := trimSpace u
    if u.isEmpty then parseSet56Parts us acc
    else match splitOn 58 u with
      | sidTxt :: ivParts =>
        if ivParts.isEmpty then none
        else match parseSID sidTxt with
          | none => none
          | some sid =>
            match parseIntervals ivParts with
            | none => none
            | some ivs =>
              if ivs.isEmpty then parseSet56Parts us acc
              else parseSet56Parts us (acc.put sid (sortBy (fun a b => a.start < b.start) ivs))
      | [] => none

/-- parseMysql56GTIDSet -/
def parseSet56 (s : Bytes) : Option Set56 := parseSet56Parts (splitOn 44 s) []

def ivString (iv : Iv) : Bytes :=
  [58] ++ intDec iv.start ++ (if iv.stop != iv.start then [45] ++ intDec iv.stop else [])

/-- Mysql56GTIDSet.String -/
def set56String (s : Set56) : Bytes :=
  go s.sids true
where
  go : List Bytes → Bool → Bytes
    | [], _ => []
    | sid :: rest, first =>
      (if first then [] else [44]) ++ sidString sid ++ (s.get sid).flatMap ivString ++ go rest false

/-- ContainsGTID -/
def containsGtidIvs (seq : Int) : List Iv → Bool
  | [] => false
  | iv :: rest => if iv.start > seq then false else if seq ≤ iv.stop then true else containsGtidIvs seq rest

def Set56.containsGtid (s : Set56) (g : Gtid56) : Bool := containsGtidIvs g.seq (s.get g.sid)

/-- interval.contains -/
def Iv.contains (a b : Iv) : Bool := a.start ≤ b.start && b.stop ≤ a.stop

/-- the inner loops of Contains for one SID: `mine` is consumed monotonically -/
def containsIvs : List Iv → List Iv → Bool
  | _, [] => true
  | [], _ :: _ => false
  | m :: ms, o :: os => if m.contains o then containsIvs (m :: ms) os else containsIvs ms (o :: os)
termination_by a b => a.length + b.length

/-- Contains -/
def Set56.contains (s other : Set56) : Bool := other.all fun p => containsIvs (s.get p.1) p.2

/-- Equal -/
def Set56.equal (s other : Set56) : Bool :=
  s.length == other.length && s.all fun p => other.get p.1 == p.2

/-- the interval loop of AddGTID for the matching SID: returns (newIntervals, added) -/
def addIvs (seq : Int) : List Iv → List Iv → Bool → List Iv × Bool
  | [], acc, added => (acc, added)
  | iv :: rest, acc, added =>
    -- the switch (only while !added)
    let (iv, acc, added) :=
      if added then (iv, acc, added)
      else if seq = iv.start - 1 then ({ iv with start := seq }, acc, true)
      else if seq = iv.stop + 1 then ({ iv with stop := seq }, acc, true)
      else if seq < iv.start - 1 then (iv, acc ++ [⟨seq, seq⟩], true)
      else (iv, acc, false)
    -- merge with the previous one or append
    match acc.getLast? with
    | some last =>
      if iv.start = last.stop + 1 then addIvs seq rest (acc.dropLast ++ [{ last with stop := iv.stop }]) added
      else addIvs seq rest (acc ++ [iv]) added
    | none => addIvs seq rest (acc ++ [iv]) added

/-- AddGTID -/
def Set56.addGtid (s : Set56) (g : Gtid56) : Set56 :=
  if s.containsGtid g then s
  else
    let rebuilt := s.map fun p => if p.1 == g.sid then (p.1, (addIvs g.seq p.2 [] false)) else (p.1, (p.2, false))
    let added := rebuilt.any fun p => p.2.2
    let newSet : Set56 := rebuilt.map fun p => (p.1, p.2.1)
    if added then newSet else newSet.put g.sid (newSet.get g.sid ++ [⟨g.seq, g.seq⟩])

/-- SIDBlock -/
def sidBlock (s : Set56) : Bytes :=
  Bytes.ofLE 8 s.length ++ s.sids.flatMap fun sid =>
    sid ++ Bytes.ofLE 8 (s.get sid).length ++
      (s.get sid).flatMap fun iv => Bytes.ofLE 8 (ofInt 64 iv.start) ++ Bytes.ofLE 8 (ofInt 64 (iv.stop + 1))

/-- NewMysql56GTIDSetFromSIDBlock; fuel-free: the loops are bounded by the counts read, which are bounded by data -/
def readIvs (data : Bytes) : Nat → Nat → List Iv → Option (List Iv × Nat)
  | 0, pos, acc => some (acc, pos)
  | n + 1, pos, acc =>
    if pos + 16 > data.length then none
    else
      let st := Bytes.le ((data.drop pos).take 8)
      let en := Bytes.le ((data.drop (pos + 8)).take 8)
      readIvs data n (pos + 16) (acc ++ [⟨i64 st, i64 (subU64 en 1)⟩])

def readSids (data : Bytes) : Nat → Nat → Set56 → Option Set56
  | 0, _, acc => some acc
  | n + 1, pos, acc =>
    if pos + 16 > data.length then none
    else
      let sid := (data.drop pos).take 16
      if pos + 24 > data.length then none
      else
        let cnt := Bytes.le ((data.drop (pos + 16)).take 8)
        -- an interval needs 16 bytes: a count beyond the data is an error after reading what is there
        if cnt > data.length then none
        else match readIvs data cnt (pos + 24) [] with
          | none => none
          | some (ivs, pos') => readSids data n pos' (if ivs.isEmpty then acc else acc.put sid (acc.get sid ++ ivs))

def fromSidBlock (data : Bytes) : Option Set56 :=
  if data.length < 8 then none
  else
    let n := Bytes.le (data.take 8)
    if n > data.length then none else readSids data n 8 []

/-! ### MariaDB -/

structure GtidMaria where
  domain : Nat
  server : Nat
  seq : Nat
  deriving Repr, DecidableEq, BEq, Inhabited

def parseGtidMaria (s : Bytes) : Option GtidMaria :=
  match splitOn 45 s with
  | [a, b, c] =>
    match parseUintDec a 32, parseUintDec b 32, parseUintDec c 64 with
    | some d, some sv, some q => some ⟨d, sv, q⟩
    | _, _, _ => none
  | _ => none

def gtidMariaString (g : GtidMaria) : Bytes := natDec g.domain ++ [45] ++ natDec g.server ++ [45] ++ natDec g.seq

abbrev SetMaria := List GtidMaria

def parseSetMaria (s : Bytes) : Option SetMaria :=
  go (splitOn 44 s)
where
  go : List Bytes → Option SetMaria
    | [] => some []
    | p :: ps => match parseGtidMaria p, go ps with
      | some g, some r => some (g :: r)
      | _, _ => none

def setMariaString (s : SetMaria) : Bytes :=
  match s with
  | [] => []
  | g :: rest => gtidMariaString g ++ rest.flatMap fun x => [44] ++ gtidMariaString x

def SetMaria.containsGtid (s : SetMaria) (g : GtidMaria) : Bool :=
  match s.find? (fun x => x.domain == g.domain) with
  | some x => x.seq ≥ g.seq
  | none => false

def SetMaria.contains (s other : SetMaria) : Bool := other.all s.containsGtid
def SetMaria.equal (s other : SetMaria) : Bool := s == other

/-- AddGTID: returns (result, receiver afterwards) — the receiver must be unchanged -/
def SetMaria.addGtid (s : SetMaria) (g : GtidMaria) : SetMaria :=
  if s.any (fun x => x.domain == g.domain) then
    go s
  else s ++ [g]
where
  go : SetMaria → SetMaria
    | [] => []
    | x :: xs => if x.domain == g.domain then (if g.seq > x.seq then g :: xs else x :: xs) else x :: go xs

/-! ### flavour-tagged encoding (gtid.go) -/

inductive AnyGtid where
  | m56 (g : Gtid56) | maria (g : GtidMaria)
  deriving Repr, DecidableEq, BEq, Inhabited

def flavor56 : Bytes := asc "MySQL56"
def flavorMaria : Bytes := asc "MariaDB"

/-- ParseGTID -/
def parseGTID (flavor value : Bytes) : Option AnyGtid :=
  if flavor = flavor56 then (parseGtid56 value).map .m56
  else if flavor = flavorMaria then (parseGtidMaria value).map .maria
  else none

def anyString : AnyGtid → Bytes
  | .m56 g => gtid56String g
  | .maria g => gtidMariaString g

def anyFlavor : AnyGtid → Bytes
  | .m56 _ => flavor56
  | .maria _ => flavorMaria

/-- EncodeGTID (non-nil) -/
def encodeGTID (g : AnyGtid) : Bytes := anyFlavor g ++ [47] ++ anyString g

/-- strings.SplitN(s, "/", 2) -/
def splitFirst (sep : UInt8) : Bytes → Option (Bytes × Bytes)
  | [] => none
  | c :: cs => if c = sep then some ([], cs) else (splitFirst sep cs).map fun (a, b) => (c :: a, b)

/-- DecodeGTID on a non-empty string (the empty string decodes to the nil GTID) -/
def decodeGTID (s : Bytes) : Option AnyGtid :=
  match splitFirst 47 s with
  | some (f, v) => parseGTID f v
  | none => parseGTID [] s

end GV.M
