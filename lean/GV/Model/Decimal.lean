import GV.Model.TableMap
/- Model of the TypeNewDecimal case of CellBytes (binlog_event_rbr.go), factored out because the
   JSON opaque-decimal printer calls it. -/
namespace GV.M

def dig2 (i : Nat) : Res Nat :=
  match Facts.dig2bytes[i]? with
  | some n => .ok n
  | none => .panic

/-- the byte length of a DECIMAL(p,s): `none` when scale > precision (outside the modelled domain) -/
def decimalLen (md : Nat) : Res Nat :=
  let precision := md / 256
  let scale := md % 256
  if precision < scale then .panic else do
  let intg := precision - scale
  let intg0 := intg / 9
  let frac0 := scale / 9
  let intg0x := intg - intg0 * 9
  let frac0x := scale - frac0 * 9
  let a ← dig2 intg0x
  let b ← dig2 frac0x
  pure (intg0 * 4 + a + frac0 * 4 + b)

/-- the integer groups loop: returns (text so far, flag, pos) -/
def decIntGroups (d : Bytes) : Nat → Nat → Bool → Bytes → Res (Bytes × Bool × Nat)
  | 0, pos, flag, txt => .ok (txt, flag, pos)
  | n + 1, pos, flag, txt => do
      let v ← readBE d pos 4
      if flag then decIntGroups d n (pos + 4) true (txt ++ padMin 9 v)
      else if v > 0 then decIntGroups d n (pos + 4) true (txt ++ natDec v)
      else decIntGroups d n (pos + 4) false txt

def decFracGroups (d : Bytes) : Nat → Nat → Bytes → Res (Bytes × Nat)
  | 0, pos, txt => .ok (txt, pos)
  | n + 1, pos, txt => do
      let v ← readBE d pos 4
      decFracGroups d n (pos + 4) (txt ++ padMin 9 v)

/-- CellBytes, case TypeNewDecimal: (text, consumed length) -/
def decimalBytes (data : Bytes) (pos md : Nat) : Res (Bytes × Nat) := do
  let precision := md / 256
  let scale := md % 256
  if precision < scale then .panic else
  let intg := precision - scale
  let intg0 := intg / 9
  let intg0x := intg - intg0 * 9
  let frac0 := scale / 9
  let frac0x := scale - frac0 * 9
  let ib ← dig2 intg0x
  let fb ← dig2 frac0x
  let l := intg0 * 4 + ib + frac0 * 4 + fb
  let d0 ← data.slice pos (pos + l)
  let first ← d0.get 0
  let isNegative := first.toNat / 128 % 2 == 0
  let d1 : Bytes := (first ^^^ 0x80) :: d0.drop 1
  let d : Bytes := if isNegative then d1.map (· ^^^ 0xff) else d1
  let txt : Bytes := if isNegative then [45] else []
  let v ← readBE d 0 ib
  let (txt, flag) := if v > 0 then (txt ++ natDec v, true) else (txt, false)
  let (txt, flag, p) ← decIntGroups d intg0 ib flag txt
  let txt := if flag then txt else txt ++ [48]
  if scale = 0 then pure (txt, l) else
  let txt := txt ++ [46]
  let (txt, p) ← decFracGroups d frac0 p txt
  if fb = 0 then pure (txt, l) else
  let v ← readBE d p fb
  pure (txt ++ padMin frac0x v, l)

end GV.M
