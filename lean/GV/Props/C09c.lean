import GV.Props.C04b
import GV.Driver.Hist
import GV.Lemmas.C09c
/-
  C09 (third part) — the parser never reads the PADDING BITS of the bitmaps of a ROWS event (DESIGN §7 C09, §12.5).

  The Spec writer `W.bitmapBytes` CLEARS the unused high bits of the last byte of every bitmap.  Real masters leave
  them SET (`bitmap_set_all` for the two column-presence bitmaps, `null_bits = (1 << 8) - 1` in pack_row for the per-row
  NULL bitmaps).  The driver has padded writers — `D.bmBytes pad`, `D.imageBytesP`, `D.rowsBodyP`, and `D.padPacket cfg
  rcs`, which re-writes a served ROWS packet with the padded body (GV/Driver/Hist.lean); `pad = false` is the Spec writer
  (`C09_pad_false_is_spec`), the length never changes (`C09_pad_same_length`).
  Property theorems and non-vacuity examples only; vocabulary and helper lemmas are in GV/Lemmas/C09c.lean
  (namespace GV.C09c):

    BmEnc bits b           b has ⌈n/8⌉ bytes and carries bit j of the list at byte j/8, position j%8 — NOTHING is said
                           about the unused bits.  The lemma file proves the whole rows walk (`rows_walkG`), the row
                           conversion (`rowsOf_tableG`) and `classify` (`classify_rows_enc`, `classify_enc_eq`) for ANY
                           such encoding of every bitmap of the event — a different one per bitmap — and any checksum
                           bytes; `D.bmBytes pad` is an instance for both values of `pad`
    PadClean cfg rcs sv    the side condition of (3a): decidable, see below

  RESULTS
    C09_padding_bits_unread        (1, model level) same decoded rows up to the raw bytes of the bitmaps: flags, counts,
                                   every bit below the count, `bitCount` (it counts the first `count` bits only — that the
                                   per-row NULL bitmaps get the right `count` hangs on it), row count, images byte for byte
    C09_padding_stream_event       (2, conversion level) the padded packet is classified as exactly the change the master
                                   logged — the very StreamEvent of `C01_classify_rows` — hence `stepEvent` agrees with
                                   the unpadded packet; v1 / v2, 4- / 6-byte table ids, CRC on / off (any `cfg`, any `crc`)
    C09_padding_stream_event_any   … in ANY state that has seen the format and whose cache entry for the table id, if
                                   there is one, is the table's (no entry: both are the same error)
    C09_padding_stream_event_padPacket, C09_padPacket_rewrites   … for the packet `D.padPacket` makes of the Spec's
    C09_padding_fidelity_refuted   (3) as asked — hypotheses of `C04_bytes_outcome` only — is FALSE.  Not because the
                                   parser reads a padding bit: `D.padPacket` picks the change a packet "was written for" by
                                   a PREFIX test on bodies over the rows changes of the WHOLE history, of which the
                                   hypotheses of `C04_bytes_outcome` constrain only those from p on.  An ill-formed rows
                                   change BEFORE p (17 presence bits for a 9-column table) whose body is a prefix of a
                                   served event's body makes `padPacket` "pad" the third byte of its presence bitmap —
                                   which in the served event is the first row's NULL bitmap, 8 real bits.  Concrete run:
                                   the Spec stream delivers the transaction, the "padded" one crashes.
    C09_padding_fidelity_wf_partial   (3b) TRUE with one more hypothesis: every rows change of the WHOLE history is
                                   `RowsOK` and a table id names one table throughout (what `WFHist` asks, but also before
                                   p).  Then the padded stream gives the SAME outcome as the Spec's — any handler, any
                                   cut, ANY continuation of the input, quiet or not.  `D.padPacket` may then still match
                                   a packet against ANOTHER change (same kind, same table, rows a prefix: INSERT (a) …
                                   INSERT (a),(b)) and pad the packet in part only, or reach into the checksum bytes; the
                                   proof shows the result is again an encoding of the packet's own change (alignment:
                                   row i of the shorter body ends where row i of the longer one does, by determinism of
                                   `cellLength`) with as many checksum bytes — example `exHistQ`
    C09_padding_fidelity_partial   (3a) TRUE with `PadClean` instead (nothing asked of the rows changes before p): for
                                   every c ∈ rcs (all rows changes of the history) and every served c' of the same kind
                                   whose Spec bodies are COMPARABLE (one a prefix of the other — necessary for
                                   `padPacket`'s test to match c on the packet of c'), the padded bodies are EQUAL.
                                   Neither of (3a), (3b) implies the other
    C09_padding_fidelity_outcome   … so for a quiet ending the outcome is `specOut` (C04_bytes_outcome for the padded master)
    C09_padding_fidelity_clean     … and the complete accept-all run delivers the expected transactions
                                   (C01_fidelity_bytes_resume_lands for the padded master)
    C09_padding_fidelity_head      … in particular `C01_fidelity_bytes` for the padded master holds with NO further
                                   hypothesis (WFHist, MapperAgrees, the first file's name not reused)

  What "partial" means for (3a), (3b): relative to the statement as asked there is an extra hypothesis, and the refutation
  shows that SOME hypothesis on the rows changes before p is needed.  Nothing else is missing.
  Checked by evaluation before proving (scratch files /tmp/c09c/e1.lean … e3.lean): (1) on a 10-column table, 8 / 9 columns
  present, NULLs, 2 rows, 3 kinds × 8 configurations; (2) the same events, in and outside a transaction; (3) an 11-unit
  history (a prefix pair included), 8 configurations, every boundary, every cut, a handler rejecting the j-th call for
  every j, four endings: 60512 runs, 0 mismatches; the counterexample of `C09_padding_fidelity_refuted`.
-/
namespace GV.Props.C09c
open GV GV.M GV.Props.C01 GV.Props.C01b GV.Props.C09b GV.C01c GV.C01d GV.C04b GV.C09c

/-- `pad = false` is the Spec writer; -/
theorem C09_pad_false_is_spec (k : W.RowKind) (v2 : Bool) (idw id flags : Nat) (extra : Bytes) (cols : List W.ColDef)
    (pb pa : List Bool) (rows : List (List (Option W.CellVal) × List (Option W.CellVal))) :
    D.rowsBodyP false k v2 idw id flags extra cols pb pa rows = W.rowsBody k v2 idw id flags extra cols pb pa rows :=
  rowsBodyP_false k v2 idw id flags extra cols pb pa rows

/-- … `pad = true` sets exactly the unused bits: same length, and every bitmap carries the same bits at the same
    places (`BmEnc`: ⌈n/8⌉ bytes, bit j at byte j/8, position j%8) -/
theorem C09_pad_same_length (pad : Bool) (k : W.RowKind) (v2 : Bool) (idw id flags : Nat) (extra : Bytes)
    (cols : List W.ColDef) (pb pa : List Bool) (rows : List (List (Option W.CellVal) × List (Option W.CellVal)))
    (bits : List Bool) :
    (D.rowsBodyP pad k v2 idw id flags extra cols pb pa rows).length
      = (W.rowsBody k v2 idw id flags extra cols pb pa rows).length ∧
    (D.bmBytes pad bits).length = (bits.length + 7) / 8 ∧
    ∀ j (hj : j < bits.length) (n : Nat), Bitmap.bit ⟨D.bmBytes pad bits, n⟩ j = .ok bits[j] :=
  ⟨rowsBodyP_length pad k v2 idw id flags extra cols pb pa rows, bmBytes_length pad bits,
   fun j hj n => bmEnc_bit (bmEnc_bmBytes pad bits) n j bits[j] (List.getElem?_eq_getElem hj)⟩

/-- (1) MODEL LEVEL.  For every `pad`, `binlogEvent.Rows` applied to an event whose body is `D.rowsBodyP pad …` yields
    the same decoded rows as for the Spec body, up to the raw bytes of the bitmaps: same flags; same column counts; the
    same presence bit at every column index below the count; the same `bitCount` (the number of present columns — it is
    what the per-row NULL bitmaps are sized with); the same number of rows; and for every row the same NULL-bitmap
    count (= the number of present columns), the same NULL bit at every index below it, and byte-for-byte the same image
    data.  Hypotheses of `C09_rows_roundtrip`. -/
theorem C09_padding_bits_unread (pad : Bool) (f : Format) (hf : f.headerLength = 19) (hdr : Bytes) (hh : hdr.length = 19)
    (k : W.RowKind) (v2 : Bool) (idw id flags : Nat) (hidw : idw = 4 ∨ idw = 6)
    (h4 : hdr[4]? = some (UInt8.ofNat (W.rowsEventType k v2)))
    (hhs : f.headerSize (W.rowsEventType k v2) = .ok (if idw = 4 then 6 else if v2 then 10 else 8))
    (hid : id < 256 ^ idw) (hfl : flags < 65536) (extra : Bytes) (hex : extra.length < 65534)
    (cols : List (W.ColDef × Bool)) (hne : cols ≠ []) (hn : cols.length < 2 ^ 31)
    (pb pa : List Bool) (hpb : pb.length = cols.length) (hpa : pa.length = cols.length)
    (rows : List (List (Option W.CellVal) × List (Option W.CellVal)))
    (hrows : ∀ r ∈ rows, (k ≠ .write → ImageOK (W.selectPresent pb cols) r.1) ∧ (k ≠ .delete → ImageOK (W.selectPresent pa cols) r.2))
    (hwide : ∀ r ∈ rows, 0 < ((if k ≠ .write then W.imageBytes ((W.selectPresent pb cols).map (·.1)) r.1 else []) ++
                              (if k ≠ .delete then W.imageBytes ((W.selectPresent pa cols).map (·.1)) r.2 else [])).length) :
    let tm : TableMap := { flags := 0, database := [], name := [], types := cols.map (fun c => UInt8.ofNat c.1.typ),
                           canBeNull := ⟨[], 0⟩, metadata := cols.map (fun c => c.1.md) }
    let colDefs := cols.map (·.1)
    ∃ rsP rs0,
      M.rows f tm (hdr ++ D.rowsBodyP pad k v2 idw id flags extra colDefs pb pa rows) = .ok rsP ∧
      M.rows f tm (hdr ++ W.rowsBody k v2 idw id flags extra colDefs pb pa rows) = .ok rs0 ∧
      rsP.flags = rs0.flags ∧
      rsP.identifyColumns.count = rs0.identifyColumns.count ∧ rsP.dataColumns.count = rs0.dataColumns.count ∧
      (∀ i, i < rs0.identifyColumns.count → rsP.identifyColumns.bit i = rs0.identifyColumns.bit i) ∧
      (∀ i, i < rs0.dataColumns.count → rsP.dataColumns.bit i = rs0.dataColumns.bit i) ∧
      rsP.identifyColumns.bitCount = rs0.identifyColumns.bitCount ∧
      rsP.dataColumns.bitCount = rs0.dataColumns.bitCount ∧
      rsP.rows.length = rs0.rows.length ∧ rs0.rows.length = rows.length ∧
      ∀ (i : Nat) (rP r0 : Row), rsP.rows[i]? = some rP → rs0.rows[i]? = some r0 →
        rP.identify = r0.identify ∧ rP.data = r0.data ∧
        rP.nullIdentify.count = r0.nullIdentify.count ∧ rP.nullData.count = r0.nullData.count ∧
        (k ≠ .write → rs0.identifyColumns.bitCount = .ok r0.nullIdentify.count) ∧
        (k ≠ .delete → rs0.dataColumns.bitCount = .ok r0.nullData.count) ∧
        (∀ j, j < r0.nullIdentify.count → rP.nullIdentify.bit j = r0.nullIdentify.bit j) ∧
        (∀ j, j < r0.nullData.count → rP.nullData.bit j = r0.nullData.bit j) ∧
        rP.nullIdentify.bitCount = r0.nullIdentify.bitCount ∧ rP.nullData.bitCount = r0.nullData.bitCount := by
  have _ := hid   -- not needed: the rows decoder never reads the table id
  intro tm colDefs
  obtain ⟨rsP, rs0, hP, h0, ⟨s1, ⟨s2, s3, s4⟩, ⟨s5, s6, s7⟩, s8, s9⟩, hlen, hcnt⟩ :=
    rows_pad_same pad f hf hdr hh k v2 idw id flags hidw h4 hhs hfl extra hex cols hne hn pb pa hpb hpa rows hrows hwide
  refine ⟨rsP, rs0, hP, h0, s1, s2, s5, s3, s6, s4, s7, s8, hlen, ?_⟩
  intro i rP r0 hrP hr0
  obtain ⟨⟨n1, n2, n3⟩, ⟨d1, d2, d3⟩, e1, e2⟩ := s9 i rP r0 hrP hr0
  obtain ⟨c1, c2⟩ := hcnt i r0 hr0
  exact ⟨e1, e2, n1, d1, c1, c2, n2, d2, n3, d3⟩

/-- (2) CONVERSION LEVEL.  A ROWS event (write / update / delete, v1 / v2, 4- / 6-byte id, CRC on / off, full or
    partial images) whose bitmaps carry the padding bits of `pad`, for a state in which the format is known and the
    table is cached: `classify` yields exactly the change the master logged — the StreamEvent, end offset and
    timestamp `C01_classify_rows` gives for the Spec's event — so `stepEvent` (the StreamEvent appended to the
    transaction / delivered) is the one of the unpadded packet. -/
theorem C09_padding_stream_event (pad : Bool) (env : Env) (st : PState) (cfg : W.Cfg) (hr : Ready cfg st)
    (crc : Option Bytes) (hc : crcOK cfg crc) (m : W.EvMeta) (start : Nat) (c : W.RowsChange) (hrows : RowsOK cfg c)
    (hts : m.ts = c.ts)
    (hok : EvOK crc m start (W.rowsBody c.kind cfg.rowsV2 (idw cfg) c.table.id c.flags c.extra c.table.cols
                              c.presentBefore c.presentAfter c.rows))
    (hcache : findTable st.tables c.table.id = some ⟨tmOf c.table, infoOf c.table⟩) :
    classify env st (W.event crc m (W.rowsEventType c.kind cfg.rowsV2) start
        (D.rowsBodyP pad c.kind cfg.rowsV2 (idw cfg) c.table.id c.flags c.extra c.table.cols c.presentBefore c.presentAfter c.rows)).1
      = .rows (seOfRows env.ext c)
          (start + (19 + (W.rowsBody c.kind cfg.rowsV2 (idw cfg) c.table.id c.flags c.extra c.table.cols
                            c.presentBefore c.presentAfter c.rows).length + (match crc with | some x => x.length | none => 0)))
          c.ts ∧
    stepEvent env st (W.event crc m (W.rowsEventType c.kind cfg.rowsV2) start
        (D.rowsBodyP pad c.kind cfg.rowsV2 (idw cfg) c.table.id c.flags c.extra c.table.cols c.presentBefore c.presentAfter c.rows)).1
      = stepEvent env st (W.event crc m (W.rowsEventType c.kind cfg.rowsV2) start
        (W.rowsBody c.kind cfg.rowsV2 (idw cfg) c.table.id c.flags c.extra c.table.cols c.presentBefore c.presentAfter c.rows)).1 := by
  have h1 := classify_rows_pad pad env st cfg hr crc hc m start c hrows hts hok hcache
  have h2 := classify_pad_eq pad env st cfg hr crc hc m start c hrows hts hok
    (fun tc htc => by rw [hcache] at htc; exact (Option.some.inj htc).symm)
  refine ⟨?_, by unfold stepEvent; rw [h2]⟩
  rw [h1]
  cases crc <;> rfl

/-- (2') … and in ANY state that has seen the format and whose cache entry for the table id — if there is one — is the
    table's: with no entry both packets are the same error, before the body is looked at -/
theorem C09_padding_stream_event_any (pad : Bool) (env : Env) (st : PState) (cfg : W.Cfg) (hr : Ready cfg st)
    (crc : Option Bytes) (hc : crcOK cfg crc) (m : W.EvMeta) (start : Nat) (c : W.RowsChange) (hrows : RowsOK cfg c)
    (hts : m.ts = c.ts)
    (hok : EvOK crc m start (W.rowsBody c.kind cfg.rowsV2 (idw cfg) c.table.id c.flags c.extra c.table.cols
                              c.presentBefore c.presentAfter c.rows))
    (hcache : ∀ tc, findTable st.tables c.table.id = some tc → tc = ⟨tmOf c.table, infoOf c.table⟩) :
    stepEvent env st (W.event crc m (W.rowsEventType c.kind cfg.rowsV2) start
        (D.rowsBodyP pad c.kind cfg.rowsV2 (idw cfg) c.table.id c.flags c.extra c.table.cols c.presentBefore c.presentAfter c.rows)).1
      = stepEvent env st (W.event crc m (W.rowsEventType c.kind cfg.rowsV2) start
        (W.rowsBody c.kind cfg.rowsV2 (idw cfg) c.table.id c.flags c.extra c.table.cols c.presentBefore c.presentAfter c.rows)).1 := by
  unfold stepEvent
  rw [classify_pad_eq pad env st cfg hr crc hc m start c hrows hts hok hcache]

/-- (2'') … for the packet the driver's `D.padPacket cfg rcs` makes of the Spec's packet of `c` (whatever list `rcs`
    of rows changes it searches, as long as it is `PadClean` against `c`): either it leaves the packet alone or it
    swaps in the padded body of `c` — same header, same checksum bytes -/
theorem C09_padding_stream_event_padPacket (env : Env) (st : PState) (cfg : W.Cfg) (hr : Ready cfg st)
    (crc : Option Bytes) (hc : crcOK cfg crc) (m : W.EvMeta) (start : Nat) (c : W.RowsChange) (hrows : RowsOK cfg c)
    (hts : m.ts = c.ts)
    (hok : EvOK crc m start (W.rowsBody c.kind cfg.rowsV2 (idw cfg) c.table.id c.flags c.extra c.table.cols
                              c.presentBefore c.presentAfter c.rows))
    (hcache : findTable st.tables c.table.id = some ⟨tmOf c.table, infoOf c.table⟩)
    (rcs : List W.RowsChange) (hclean : PadClean cfg rcs [c]) :
    stepEvent env st (D.padPacket cfg rcs (W.event crc m (W.rowsEventType c.kind cfg.rowsV2) start
        (W.rowsBody c.kind cfg.rowsV2 (idw cfg) c.table.id c.flags c.extra c.table.cols c.presentBefore c.presentAfter c.rows)).1)
      = stepEvent env st (W.event crc m (W.rowsEventType c.kind cfg.rowsV2) start
        (W.rowsBody c.kind cfg.rowsV2 (idw cfg) c.table.id c.flags c.extra c.table.cols c.presentBefore c.presentAfter c.rows)).1 := by
  rcases padPacket_rows cfg rcs [c] hclean c List.mem_cons_self crc m start with h | h
  · rw [h]
  · rw [h]
    exact (C09_padding_stream_event true env st cfg hr crc hc m start c hrows hts hok hcache).2

/-- … and when `c` is itself in `rcs`, comes first among the changes whose body is comparable with its own (e.g. is the
    only such change), the packet IS re-written: -/
theorem C09_padPacket_rewrites (cfg : W.Cfg) (crc : Option Bytes) (m : W.EvMeta) (start : Nat) (c : W.RowsChange)
    (rest : List W.RowsChange) :
    D.padPacket cfg (c :: rest) (W.event crc m (W.rowsEventType c.kind cfg.rowsV2) start
        (W.rowsBody c.kind cfg.rowsV2 (idw cfg) c.table.id c.flags c.extra c.table.cols c.presentBefore c.presentAfter c.rows)).1
      = (W.event crc m (W.rowsEventType c.kind cfg.rowsV2) start
        (D.rowsBodyP true c.kind cfg.rowsV2 (idw cfg) c.table.id c.flags c.extra c.table.cols c.presentBefore c.presentAfter c.rows)).1 :=
  padPacket_head cfg crc m start c rest

/-- (3a) END TO END, with the side condition `PadClean` (see the header; nothing is asked of the rows changes before p).
    For every history / position / handler / cut as in `C04_bytes_outcome` and ANY continuation `tail` of the input,
    feeding the packets `D.padPacket` makes of the served ones instead of the served ones gives the SAME outcome (calls,
    accepted, position, error flag, crash flag). -/
theorem C09_padding_fidelity_partial (cfg : W.Cfg) (env : Env) (h : W.History) (p : W.Pos) (hl : Lands cfg h p)
    (hwf : WFFrom cfg h p) (hm : MapperAgrees env (unitsFrom cfg h p))
    (hclean : PadClean cfg (h.flatMap D.rowsOfUnit) (histRows (unitsFrom cfg h p)))
    (acc : Transaction → Bool) (k : Nat) (tail : List Input) :
    parseEvents env acc (PState.init (posOf p))
        ((((W.serve cfg h p).map (D.padPacket cfg (h.flatMap D.rowsOfUnit))).take k).map Input.event ++ tail)
      = parseEvents env acc (PState.init (posOf p)) (((W.serve cfg h p).take k).map Input.event ++ tail) :=
  pad_lands cfg env h p hwf hl hm _ (rowsPad_of_clean env cfg _ _ hwf.tables hclean) acc tail k

/-- (3b) END TO END, for histories whose rows changes are ALL well-formed (also those before p — `D.padPacket` looks at
    them) and in which a table id names one table throughout: NO side condition on the bodies.  Same conclusion. -/
theorem C09_padding_fidelity_wf_partial (cfg : W.Cfg) (env : Env) (h : W.History) (p : W.Pos) (hl : Lands cfg h p)
    (hwf : WFFrom cfg h p) (hm : MapperAgrees env (unitsFrom cfg h p))
    (hall : ∀ c ∈ histRows h, RowsOK cfg c)
    (htab : ∀ c1 ∈ histRows h, ∀ c2 ∈ histRows h, c1.table.id = c2.table.id → c1.table = c2.table)
    (acc : Transaction → Bool) (k : Nat) (tail : List Input) :
    parseEvents env acc (PState.init (posOf p))
        ((((W.serve cfg h p).map (D.padPacket cfg (h.flatMap D.rowsOfUnit))).take k).map Input.event ++ tail)
      = parseEvents env acc (PState.init (posOf p)) (((W.serve cfg h p).take k).map Input.event ++ tail) :=
  pad_lands cfg env h p hwf hl hm _ (rowsPad_of_whole env cfg h p hall htab) acc tail k

/-- … so `C04_bytes_outcome` holds for the padded master: for a quiet ending the outcome is the Spec's `specOut` -/
theorem C09_padding_fidelity_outcome (cfg : W.Cfg) (env : Env) (h : W.History) (p : W.Pos) (hl : Lands cfg h p)
    (hwf : WFFrom cfg h p) (hm : MapperAgrees env (unitsFrom cfg h p))
    (hside : PadClean cfg (h.flatMap D.rowsOfUnit) (histRows (unitsFrom cfg h p)) ∨
      ((∀ c ∈ histRows h, RowsOK cfg c) ∧
       ∀ c1 ∈ histRows h, ∀ c2 ∈ histRows h, c1.table.id = c2.table.id → c1.table = c2.table))
    (acc : Transaction → Bool) (k : Nat) (e : Bool) (tail : List Input) (ht : EndsWith env e tail) :
    parseEvents env acc (PState.init (posOf p))
        ((((W.serve cfg h p).map (D.padPacket cfg (h.flatMap D.rowsOfUnit))).take k).map Input.event ++ tail)
      = specOut env.ext acc e ((served cfg h p).take (k - preamble cfg h p)) p := by
  have hspec := Props.C04b.C04_bytes_outcome cfg env h p hl hwf hm acc k e tail ht
  rcases hside with hc | ⟨h1, h2⟩
  · rw [C09_padding_fidelity_partial cfg env h p hl hwf hm hc acc k tail]; exact hspec
  · rw [C09_padding_fidelity_wf_partial cfg env h p hl hwf hm h1 h2 acc k tail]; exact hspec

/-- … and `C01_fidelity_bytes_resume_lands`: the complete padded stream, every transaction accepted, delivers exactly
    the expected transactions -/
theorem C09_padding_fidelity_clean (cfg : W.Cfg) (env : Env) (h : W.History) (p : W.Pos) (hl : Lands cfg h p)
    (hwf : WFFrom cfg h p) (hm : MapperAgrees env (unitsFrom cfg h p))
    (hside : PadClean cfg (h.flatMap D.rowsOfUnit) (histRows (unitsFrom cfg h p)) ∨
      ((∀ c ∈ histRows h, RowsOK cfg c) ∧
       ∀ c1 ∈ histRows h, ∀ c2 ∈ histRows h, c1.table.id = c2.table.id → c1.table = c2.table)) :
    parseEvents env (fun _ => true) (PState.init (posOf p))
        (((W.serve cfg h p).map (D.padPacket cfg (h.flatMap D.rowsOfUnit))).map Input.event ++ [Input.closed])
      = ⟨(W.expected cfg h p).map (toTx env.ext), (W.expected cfg h p).map (toTx env.ext),
         posOf (W.endPos cfg h p), false, false⟩ := by
  rcases hside with hc | ⟨h1, h2⟩
  · exact pad_clean_run cfg env h p hwf hl hm _ (rowsPad_of_clean env cfg _ _ hwf.tables hc)
  · exact pad_clean_run cfg env h p hwf hl hm _ (rowsPad_of_whole env cfg h p h1 h2)

/-- … in particular `C01_fidelity_bytes` for the padded master, with NO further hypothesis: a replica at the head of the
    log of a well-formed history, fed the padded stream, delivers exactly the expected transactions -/
theorem C09_padding_fidelity_head (cfg : W.Cfg) (env : Env) (h : W.History) (hwf : WFHist cfg h)
    (hm : MapperAgrees env h) (fresh : (logFiles h).count W.firstFile ≤ 1) :
    parseEvents env (fun _ => true) (PState.init ⟨W.firstFile, 4⟩)
        (((W.serve cfg h ⟨W.firstFile, 4⟩).map (D.padPacket cfg (h.flatMap D.rowsOfUnit))).map Input.event ++ [Input.closed])
      = ⟨(W.expected cfg h ⟨W.firstFile, 4⟩).map (toTx env.ext), (W.expected cfg h ⟨W.firstFile, 4⟩).map (toTx env.ext),
         posOf (W.endPos cfg h ⟨W.firstFile, 4⟩), false, false⟩ := by
  have hw := wfHistFrom_head cfg h hwf fresh
  have hp : (⟨W.firstFile, 4⟩ : W.Pos) ∈ W.boundaries cfg h := by
    unfold W.boundaries
    apply List.mem_append_left
    rw [List.mem_filterMap]
    exact ⟨⟨W.firstFile, 4, (W.fdeEvent cfg 4 none).2, (W.fdeEvent cfg 4 none).1, 0, .fileHead, false⟩,
      List.mem_cons_self, rfl⟩
  exact C09_padding_fidelity_clean cfg env h ⟨W.firstFile, 4⟩ (lands_of_boundary cfg h _ hp fresh) hw.toWFFrom
    (mapper_unitsFrom hm cfg _) (Or.inr ⟨histRows_ok cfg h hwf.units, hwf.tables⟩)

/-- the vocabulary of the side condition, pinned: comparable Spec bodies of a change of the history and a served
    change of the same kind ⇒ equal padded bodies; and the list `D.padPacket` is given is `histRows h` -/
theorem C09_padding_vocabulary (cfg : W.Cfg) (rcs sv : List W.RowsChange) (h : W.History) :
    (PadClean cfg rcs sv ↔ ∀ c ∈ rcs, ∀ c' ∈ sv, c.kind = c'.kind →
      (W.rowsBody c.kind cfg.rowsV2 (idw cfg) c.table.id c.flags c.extra c.table.cols c.presentBefore c.presentAfter c.rows).take
        (W.rowsBody c'.kind cfg.rowsV2 (idw cfg) c'.table.id c'.flags c'.extra c'.table.cols c'.presentBefore c'.presentAfter c'.rows).length
      = (W.rowsBody c'.kind cfg.rowsV2 (idw cfg) c'.table.id c'.flags c'.extra c'.table.cols c'.presentBefore c'.presentAfter c'.rows).take
        (W.rowsBody c.kind cfg.rowsV2 (idw cfg) c.table.id c.flags c.extra c.table.cols c.presentBefore c.presentAfter c.rows).length →
      D.rowsBodyP true c.kind cfg.rowsV2 (idw cfg) c.table.id c.flags c.extra c.table.cols c.presentBefore c.presentAfter c.rows
        = D.rowsBodyP true c'.kind cfg.rowsV2 (idw cfg) c'.table.id c'.flags c'.extra c'.table.cols c'.presentBefore c'.presentAfter c'.rows) ∧
    h.flatMap D.rowsOfUnit = histRows h :=
  ⟨Iff.rfl, rcs_eq h⟩

/-! ### non-vacuity: a 10-column table, 8 columns in the before image, 9 in the after image, NULLs, two rows -/

def exCols10 : List W.ColDef :=
  [⟨3, 0, true⟩, ⟨15, 300, true⟩, ⟨1, 0, true⟩, ⟨3, 0, true⟩, ⟨15, 20, true⟩, ⟨2, 0, true⟩, ⟨3, 0, true⟩, ⟨8, 0, true⟩,
   ⟨1, 0, true⟩, ⟨3, 0, true⟩]
def exT10 : W.TableDef :=
  ⟨77, [100], [116], exCols10, [[97], [98], [99], [100], [101], [102], [103], [104], [105], [106]], List.replicate 10 false⟩
/-- before image: 8 of the 10 columns (presence bitmap 2 bytes, 6 padding bits; NULL bitmaps 1 byte, no padding) -/
def exPB : List Bool := [true, true, false, true, true, true, true, false, true, true]
/-- after image: 9 of the 10 columns (NULL bitmaps 2 bytes, 7 padding bits) -/
def exPA : List Bool := [true, true, true, true, true, true, true, true, false, true]
def exRows : List (List (Option W.CellVal) × List (Option W.CellVal)) :=
  [([some (.int 4 1), some (.str [97, 98]), none, some (.str [120]), some (.int 2 (-3)), none, some (.int 1 7), some (.int 4 9)],
    [some (.int 4 2), none, some (.int 1 (-1)), some (.int 4 5), some (.str []), some (.int 2 3), none,
     some (.int 8 12345678901), none]),
   ([none, none, some (.int 4 3), none, some (.int 2 4), some (.int 4 5), none, some (.int 4 6)],
    [none, some (.str [1, 2, 3]), none, none, none, none, some (.int 4 8), none, some (.int 4 10)])]
def exCU : W.RowsChange :=
  { kind := .update, table := exT10, ts := 77, flags := 1, extra := [7, 8], presentBefore := exPB, presentAfter := exPA,
    rows := exRows, announce := true, tmOptional := [] }
def exCW : W.RowsChange := { exCU with kind := .write, announce := false }
def exCD : W.RowsChange := { exCU with kind := .delete, announce := false }

/-- the padded body differs from the Spec body (in 6 bytes: two presence bitmaps, the second byte of four NULL bitmaps …) -/
example : D.rowsBodyP true .update true 6 77 1 [7, 8] exCols10 exPB exPA exRows
    ≠ W.rowsBody .update true 6 77 1 [7, 8] exCols10 exPB exPA exRows := by decide
example : D.bmBytes true exPB = [123, 255] ∧ W.bitmapBytes exPB = [123, 3] ∧
    D.bmBytes true [false, true, false, false, false, false, true, false, true] = [66, 255] ∧
    W.bitmapBytes [false, true, false, false, false, false, true, false, true] = [66, 1] := by decide

theorem exT10OK (cfg : W.Cfg) : TableOK cfg exT10 := by
  refine ⟨by decide, ?_, by decide, rfl, rfl, by decide, by decide, ?_⟩
  · intro c hc
    simp only [exT10, exCols10, List.mem_cons, List.not_mem_nil, or_false] at hc
    rcases hc with rfl | rfl | rfl | rfl | rfl | rfl | rfl | rfl | rfl | rfl <;> (unfold Props.C15.ColOK; decide)
  · rcases idw_cases cfg with h | h <;> rw [h] <;> decide

set_option exponentiation.threshold 512 in
theorem exImages (k : W.RowKind) : ∀ r ∈ exRows,
    (k ≠ .write → ImageOK (W.selectPresent exPB (colsU exT10)) r.1) ∧
    (k ≠ .delete → ImageOK (W.selectPresent exPA (colsU exT10)) r.2) := by
  intro r hr
  simp only [exRows, List.mem_cons, List.not_mem_nil, or_false] at hr
  rcases hr with rfl | rfl
  · refine ⟨fun _ => ⟨rfl, ?_⟩, fun _ => ⟨rfl, ?_⟩⟩
    · intro p hp
      simp [exT10, exCols10, exPB, colsU, W.selectPresent] at hp
      rcases hp with rfl | rfl | rfl | rfl | rfl | rfl | rfl | rfl <;> simp [W.CellOK, W.intTypes]
    · intro p hp
      simp [exT10, exCols10, exPA, colsU, W.selectPresent] at hp
      rcases hp with rfl | rfl | rfl | rfl | rfl | rfl | rfl | rfl | rfl <;> simp [W.CellOK, W.intTypes]
  · refine ⟨fun _ => ⟨rfl, ?_⟩, fun _ => ⟨rfl, ?_⟩⟩
    · intro p hp
      simp [exT10, exCols10, exPB, colsU, W.selectPresent] at hp
      rcases hp with rfl | rfl | rfl | rfl | rfl | rfl | rfl | rfl <;> simp [W.CellOK, W.intTypes]
    · intro p hp
      simp [exT10, exCols10, exPA, colsU, W.selectPresent] at hp
      rcases hp with rfl | rfl | rfl | rfl | rfl | rfl | rfl | rfl | rfl <;> simp [W.CellOK, W.intTypes]

theorem exWide (k : W.RowKind) : ∀ r ∈ exRows,
    0 < ((if k ≠ .write then W.imageBytes ((W.selectPresent exPB (colsU exT10)).map (·.1)) r.1 else []) ++
         (if k ≠ .delete then W.imageBytes ((W.selectPresent exPA (colsU exT10)).map (·.1)) r.2 else [])).length := by
  cases k <;> decide

theorem exCUOK (cfg : W.Cfg) : RowsOK cfg exCU :=
  ⟨exT10OK cfg, rfl, rfl, by decide, by decide, by decide, exImages .update, exWide .update⟩
theorem exCWOK (cfg : W.Cfg) : RowsOK cfg exCW :=
  ⟨exT10OK cfg, rfl, rfl, by decide, by decide, by decide, exImages .write, exWide .write⟩
theorem exCDOK (cfg : W.Cfg) : RowsOK cfg exCD :=
  ⟨exT10OK cfg, rfl, rfl, by decide, by decide, by decide, exImages .delete, exWide .delete⟩

/-- the 19 header bytes in front of the body (only the type byte matters to `binlogEvent.Rows`) -/
def exHdr (typ : Nat) : Bytes := W.header 5 typ 1 0 0 0

/-- (1) applied: every configuration (v1 / v2, 4- / 6-byte ids), every kind, both values of `pad` -/
example (pad : Bool) (cfg : W.Cfg) (k : W.RowKind) :=
  C09_padding_bits_unread pad (fmtOf cfg) rfl (exHdr (W.rowsEventType k cfg.rowsV2)) rfl k cfg.rowsV2 (idw cfg) 77 1
    (idw_cases cfg) (by cases k <;> cases cfg.rowsV2 <;> rfl) (GV.C01b.hs_rows cfg k)
    (by rcases idw_cases cfg with h | h <;> rw [h] <;> decide) (by decide) [7, 8] (by decide) (colsU exT10) (by decide)
    (by decide) exPB exPA rfl rfl exRows (exImages k) (exWide k)

/-- … and what it compares is not `panic = panic`: on the padded body (update, v2, 6-byte id) the decoder succeeds, reads
    [123, 255] / [255, 254] as presence bitmaps and still counts 8 and 9 present columns -/
example : ∃ rs, M.rows (fmtOf {}) (tmOf exT10)
      (exHdr 31 ++ D.rowsBodyP true .update true 6 77 1 [7, 8] exCols10 exPB exPA exRows) = .ok rs ∧
    rs.identifyColumns = ⟨[123, 255], 10⟩ ∧ rs.dataColumns = ⟨[255, 254], 10⟩ ∧
    rs.identifyColumns.bitCount = .ok 8 ∧ rs.dataColumns.bitCount = .ok 9 ∧
    rs.rows.map (fun r => (r.nullIdentify, r.nullData)) = [(⟨[36], 8⟩, ⟨[66, 255], 9⟩), (⟨[75], 8⟩, ⟨[189, 254], 9⟩)] := by
  refine ⟨_, rfl, ?_⟩
  decide

/-- a state that has seen the format and cached the table -/
def exSt (cfg : W.Cfg) : PState :=
  { PState.init ⟨[], 4⟩ with format := fmtOf cfg, tables := [(5, ⟨tmOf exTable, infoOf exTable⟩), (77, ⟨tmOf exT10, infoOf exT10⟩)] }

theorem exEvOK (cfg : W.Cfg) (c : W.RowsChange) (hc : c = exCU ∨ c = exCW ∨ c = exCD) :
    EvOK (W.crcOf cfg 1000) { ts := 77 } 1000
      (W.rowsBody c.kind cfg.rowsV2 (idw cfg) c.table.id c.flags c.extra c.table.cols c.presentBefore c.presentAfter c.rows) := by
  obtain ⟨a, b, d⟩ := cfg
  rcases hc with rfl | rfl | rfl <;> cases a <;> cases b <;> cases d <;> (unfold EvOK; decide)

/-- (2) applied: all 8 configurations, the three kinds -/
example (pad : Bool) (env : Env) (cfg : W.Cfg) :=
  C09_padding_stream_event pad env (exSt cfg) cfg rfl (W.crcOf cfg 1000) (crcOf_ok cfg 1000) { ts := 77 } 1000 exCU
    (exCUOK cfg) rfl (exEvOK cfg exCU (Or.inl rfl)) rfl
example (pad : Bool) (env : Env) (cfg : W.Cfg) :=
  C09_padding_stream_event pad env (exSt cfg) cfg rfl (W.crcOf cfg 1000) (crcOf_ok cfg 1000) { ts := 77 } 1000 exCW
    (exCWOK cfg) rfl (exEvOK cfg exCW (Or.inr (Or.inl rfl))) rfl
example (pad : Bool) (env : Env) (cfg : W.Cfg) :=
  C09_padding_stream_event pad env (exSt cfg) cfg rfl (W.crcOf cfg 1000) (crcOf_ok cfg 1000) { ts := 77 } 1000 exCD
    (exCDOK cfg) rfl (exEvOK cfg exCD (Or.inr (Or.inr rfl))) rfl
/-- … the two packets do differ (CRC on, v2, 6-byte ids) -/
example : (W.event (W.crcOf ⟨true, true, false⟩ 1000) { ts := 77 } 31 1000
      (D.rowsBodyP true .update true 6 77 1 [7, 8] exCols10 exPB exPA exRows)).1
    ≠ (W.event (W.crcOf ⟨true, true, false⟩ 1000) { ts := 77 } 31 1000
      (W.rowsBody .update true 6 77 1 [7, 8] exCols10 exPB exPA exRows)).1 := by decide
/-- … and `D.padPacket` turns the one into the other -/
example (cfg : W.Cfg) := C09_padPacket_rewrites cfg (W.crcOf cfg 1000) { ts := 77 } 1000 exCU [exCW, exCD]
example (env : Env) (cfg : W.Cfg) :=
  C09_padding_stream_event_padPacket env (exSt cfg) cfg rfl (W.crcOf cfg 1000) (crcOf_ok cfg 1000) { ts := 77 } 1000 exCU
    (exCUOK cfg) rfl (exEvOK cfg exCU (Or.inl rfl)) rfl [exCW, exCU, exCD]
    (by obtain ⟨a, b, d⟩ := cfg; cases a <;> cases b <;> cases d <;> decide)

/-! ### (3) applied: a history with the three kinds of rows events, all 8 configurations -/

def exEnvP : Env := ⟨⟨fun _ => [], fun _ => [], fun _ => [], fun _ => 0⟩, fun _ _ => some (infoOf exT10)⟩
def exHistP : W.History :=
  [.gtid (List.replicate 16 3) 5, .tx (asc "BEGIN") [.rows exCU, .stmt Props.C01c.exIns, .rows exCW] (.xid 9) 90,
   .ddl Props.C01c.exDdl, .autoRows exCD]

theorem exWFP (cfg : W.Cfg) : WFHist cfg exHistP := by
  refine ⟨?_, by decide, ⟨Or.inl rfl, Or.inr (by decide), Or.inr (by decide), trivial⟩, ?_⟩
  · intro u hu
    simp only [exHistP, List.mem_cons, List.not_mem_nil, or_false] at hu
    rcases hu with rfl | rfl | rfl | rfl
    · trivial
    · refine ⟨by decide, ?_, trivial, by decide⟩
      intro c hc
      simp only [List.mem_cons, List.not_mem_nil, or_false] at hc
      rcases hc with rfl | rfl | rfl
      · exact ⟨exCUOK cfg, by decide⟩
      · exact ⟨Props.C01c.exInsOK, by unfold isChangeCat; decide⟩
      · exact ⟨exCWOK cfg, by decide⟩
    · exact ⟨Props.C01c.exDdlOK, by unfold isChangeCat; decide⟩
    · exact ⟨exCDOK cfg, by decide⟩
  · obtain ⟨a, b, d⟩ := cfg
    cases a <;> cases b <;> cases d <;> decide

theorem exMapperP : MapperAgrees exEnvP exHistP := by
  intro c hc
  simp [exHistP, histRows, unitRows, changeRows] at hc
  rcases hc with rfl | rfl | rfl <;> rfl

def exP0 : W.Pos := ⟨W.firstFile, 4⟩

theorem exLandsP (cfg : W.Cfg) : Lands cfg exHistP exP0 :=
  lands_of_boundary cfg exHistP exP0 (List.mem_of_getElem? (i := 0) (by obtain ⟨a, b, d⟩ := cfg; cases a <;> cases b <;> cases d <;> rfl))
    (by decide)
theorem exWFFromP (cfg : W.Cfg) : WFFrom cfg exHistP exP0 := (wfHistFrom_head cfg exHistP (exWFP cfg) (by decide)).toWFFrom
theorem exMapperFromP (cfg : W.Cfg) : MapperAgrees exEnvP (unitsFrom cfg exHistP exP0) := mapper_unitsFrom exMapperP cfg exP0

/-- the side condition: the three rows changes are of three different kinds -/
theorem exCleanP (cfg : W.Cfg) : PadClean cfg (exHistP.flatMap D.rowsOfUnit) (histRows (unitsFrom cfg exHistP exP0)) := by
  rw [show unitsFrom cfg exHistP exP0 = exHistP from unitsFrom_head cfg exHistP]
  intro c hc c' hc' hk _
  simp [exHistP, D.rowsOfUnit] at hc
  simp [exHistP, histRows, unitRows, changeRows] at hc'
  rcases hc with rfl | rfl | rfl <;> rcases hc' with rfl | rfl | rfl <;> first | rfl | (exact absurd hk (by decide))

example (cfg : W.Cfg) (acc : Transaction → Bool) (k : Nat) (tail : List Input) :=
  C09_padding_fidelity_partial cfg exEnvP exHistP exP0 (exLandsP cfg) (exWFFromP cfg) (exMapperFromP cfg) (exCleanP cfg) acc k tail
example (cfg : W.Cfg) (acc : Transaction → Bool) (k : Nat) :=
  C09_padding_fidelity_outcome cfg exEnvP exHistP exP0 (exLandsP cfg) (exWFFromP cfg) (exMapperFromP cfg)
    (Or.inl (exCleanP cfg)) acc k false [.cancelled] (endsWith_cancelled _ _)
example (cfg : W.Cfg) :=
  C09_padding_fidelity_clean cfg exEnvP exHistP exP0 (exLandsP cfg) (exWFFromP cfg) (exMapperFromP cfg) (Or.inl (exCleanP cfg))
example (cfg : W.Cfg) (acc : Transaction → Bool) (k : Nat) (tail : List Input) :=
  C09_padding_fidelity_wf_partial cfg exEnvP exHistP exP0 (exLandsP cfg) (exWFFromP cfg) (exMapperFromP cfg)
    (histRows_ok cfg exHistP (exWFP cfg).units) (exWFP cfg).tables acc k tail
example (cfg : W.Cfg) := C09_padding_fidelity_head cfg exEnvP exHistP (exWFP cfg) exMapperP (by decide)
/-- … three of the eleven packets served are re-written (CRC on, v2, 6-byte ids); three transactions are expected -/
example : ((List.zip (W.serve ⟨true, true, false⟩ exHistP exP0)
      ((W.serve ⟨true, true, false⟩ exHistP exP0).map (D.padPacket ⟨true, true, false⟩ (exHistP.flatMap D.rowsOfUnit)))).map
        (fun x => decide (x.1 = x.2))) = [true, true, true, true, true, false, true, false, true, true, false] ∧
    (W.expected ⟨true, true, false⟩ exHistP exP0).length = 3 := by decide

/-! ### (3b) covers what (3a) does not: an INSERT of one row, then an INSERT of that row and another — the body of the first
    is a proper prefix of the body of the second, `D.padPacket` pads the second packet IN PART only -/

def exCW1 : W.RowsChange := { exCU with kind := .write, announce := true, rows := exRows.take 1 }
def exHistQ : W.History := [.autoRows exCW1, .tx (asc "BEGIN") [.rows exCW] (.xid 3) 91]

theorem exCW1OK (cfg : W.Cfg) : RowsOK cfg exCW1 :=
  ⟨exT10OK cfg, rfl, rfl, by decide, by decide, by decide,
   fun r hr => exImages .write r (List.mem_of_mem_take hr), fun r hr => exWide .write r (List.mem_of_mem_take hr)⟩

theorem exWFQ (cfg : W.Cfg) : WFHist cfg exHistQ := by
  refine ⟨?_, by decide, ⟨Or.inl rfl, Or.inr (by decide), trivial⟩, ?_⟩
  · intro u hu
    simp only [exHistQ, List.mem_cons, List.not_mem_nil, or_false] at hu
    rcases hu with rfl | rfl
    · exact ⟨exCW1OK cfg, by decide⟩
    · refine ⟨by decide, ?_, trivial, by decide⟩
      intro c hc
      simp only [List.mem_cons, List.not_mem_nil, or_false] at hc
      subst hc
      exact ⟨exCWOK cfg, by decide⟩
  · obtain ⟨a, b, d⟩ := cfg
    cases a <;> cases b <;> cases d <;> decide

theorem exMapperQ : MapperAgrees exEnvP exHistQ := by
  intro c hc
  simp [exHistQ, histRows, unitRows, changeRows] at hc
  rcases hc with rfl | rfl <;> rfl

/-- the side condition of (3a) fails here … -/
example : ¬ PadClean {} (exHistQ.flatMap D.rowsOfUnit) (histRows (unitsFrom {} exHistQ exP0)) := by decide
/-- … the second ROWS packet (the 6th packet served) is re-written, but not into its padded twin: its presence bitmap and
    the NULL bitmap of its first row are padded, the NULL bitmap of its second row is not … -/
example : ((W.serve {} exHistQ exP0).map (D.padPacket {} (exHistQ.flatMap D.rowsOfUnit)))[5]?
      ≠ (W.serve {} exHistQ exP0)[5]? ∧
    ((W.serve {} exHistQ exP0).map (D.padPacket {} (exHistQ.flatMap D.rowsOfUnit)))[5]?
      ≠ some (W.event none { ts := 77 } 30 270 (D.rowsBodyP true .write true 6 77 1 [7, 8] exCols10 exPB exPA exRows)).1 ∧
    (W.serve {} exHistQ exP0)[5]? = some (W.event none { ts := 77 } 30 270
      (W.rowsBody .write true 6 77 1 [7, 8] exCols10 exPB exPA exRows)).1 := by decide
/-- … and (3b) applies -/
example (cfg : W.Cfg) := C09_padding_fidelity_head cfg exEnvP exHistQ (exWFQ cfg) exMapperQ (by decide)

/-! ### without the side condition the end-to-end statement is false -/

/-- a 9-column table of TINYINTs -/
def exT9 : W.TableDef :=
  ⟨7, [100], [116], List.replicate 9 ⟨1, 0, true⟩, [[97], [98], [99], [100], [101], [102], [103], [104], [105]],
   List.replicate 9 false⟩
/-- a well-formed INSERT of one row: 8 of the 9 columns present (presence bitmap [255, 0]), none NULL (NULL bitmap [0]) -/
def exCGood : W.RowsChange :=
  { kind := .write, table := exT9, ts := 5, flags := 0, extra := [], presentBefore := List.replicate 9 false,
    presentAfter := [true, true, true, true, true, true, true, true, false],
    rows := [([], [some (.int 1 1), some (.int 1 2), some (.int 1 3), some (.int 1 4), some (.int 1 5), some (.int 1 6),
                   some (.int 1 7), some (.int 1 8)])],
    announce := true, tmOptional := [] }
/-- an ILL-FORMED rows change on the same table: 17 presence bits for 9 columns, no rows.  Its Spec body ends with the
    bitmap [255, 0, 0] — a prefix of `exCGood`'s body — and its padded body with [255, 0, 254] -/
def exCBad : W.RowsChange :=
  { exCGood with presentAfter := [true, true, true, true, true, true, true, true, false, false, false, false, false, false,
                                   false, false, false], rows := [] }
/-- the ill-formed change first; the replica resumes BEHIND it, at the start of the well-formed one -/
def exHistBad : W.History := [.autoRows exCBad, .autoRows exCGood]
def exPBad : W.Pos := ⟨W.firstFile, 204⟩
def exEnvBad : Env := ⟨⟨fun _ => [], fun _ => [], fun _ => [], fun _ => 0⟩, fun _ _ => some (infoOf exT9)⟩

theorem exCGoodOK : RowsOK {} exCGood := by
  refine ⟨⟨by decide, ?_, by decide, rfl, rfl, by decide, by decide, by decide⟩, rfl, rfl, by decide, by decide, by decide,
    ?_, by decide⟩
  · intro c hc
    simp only [exCGood, exT9, List.mem_replicate] at hc
    rw [hc.2]; unfold Props.C15.ColOK; decide
  · intro r hr
    simp only [exCGood, List.mem_cons, List.not_mem_nil, or_false] at hr
    subst hr
    refine ⟨fun h => absurd rfl h, fun _ => ⟨rfl, ?_⟩⟩
    intro p hp
    simp [exCGood, exT9, colsU, W.selectPresent, List.replicate] at hp
    rcases hp with rfl | rfl | rfl | rfl | rfl | rfl | rfl | rfl <;> simp [W.CellOK, W.intTypes]

theorem exUnitsFromBad : unitsFrom {} exHistBad exPBad = [.autoRows exCGood] := by decide

theorem exLandsBad : Lands {} exHistBad exPBad :=
  lands_of_boundary {} exHistBad exPBad (List.mem_of_getElem? (i := 2) (by decide)) (by decide)

theorem exWFFromBad : WFFrom {} exHistBad exPBad := by
  refine ⟨by decide, ?_, ?_, ?_, by decide⟩
  · rw [exUnitsFromBad]
    intro u hu
    simp only [List.mem_cons, List.not_mem_nil, or_false] at hu
    subst hu
    exact ⟨exCGoodOK, by decide⟩
  · rw [exUnitsFromBad]; decide
  · rw [exUnitsFromBad]; exact ⟨Or.inl rfl, trivial⟩

theorem exMapperBad : MapperAgrees exEnvBad (unitsFrom {} exHistBad exPBad) := by
  rw [exUnitsFromBad]
  intro c hc
  simp [histRows, unitRows] at hc
  subst hc
  rfl

set_option maxRecDepth 100000 in
/-- fed the packets `D.padPacket` makes of the four packets served, the parser crashes at the ROWS event: its first
    row's NULL bitmap — 8 real bits, all clear — was overwritten with 254 -/
theorem exBadCrash :
    (parseEvents exEnvBad (fun _ => true) (PState.init (posOf exPBad))
      ((((W.serve {} exHistBad exPBad).map (D.padPacket {} (exHistBad.flatMap D.rowsOfUnit))).take 4).map Input.event
        ++ [Input.closed])).crash = true := by
  decide

/-- (3) WITHOUT the side condition is false: every hypothesis of `C04_bytes_outcome` holds at `exPBad` (they speak of
    the units from p on), the Spec stream delivers the transaction (`C04_bytes_outcome`), the "padded" one crashes — not
    because a padding bit is read, but because `D.padPacket` matched the packet against the ill-formed change before
    p and set a bit that is NOT a padding bit of the served event -/
theorem C09_padding_fidelity_refuted :
    ¬ (∀ (cfg : W.Cfg) (env : Env) (h : W.History) (p : W.Pos), Lands cfg h p → WFFrom cfg h p →
        MapperAgrees env (unitsFrom cfg h p) →
        ∀ (acc : Transaction → Bool) (k : Nat) (e : Bool) (tail : List Input), EndsWith env e tail →
        parseEvents env acc (PState.init (posOf p))
            ((((W.serve cfg h p).map (D.padPacket cfg (h.flatMap D.rowsOfUnit))).take k).map Input.event ++ tail)
          = parseEvents env acc (PState.init (posOf p)) (((W.serve cfg h p).take k).map Input.event ++ tail)) := by
  intro hall
  have h := hall {} exEnvBad exHistBad exPBad exLandsBad exWFFromBad exMapperBad (fun _ => true) 4 false [.closed]
    (endsWith_closed _ _)
  have hspec := Props.C04b.C04_bytes_outcome {} exEnvBad exHistBad exPBad exLandsBad exWFFromBad exMapperBad
    (fun _ => true) 4 false [.closed] (endsWith_closed _ _)
  obtain ⟨_, _, _, _, hcr, _⟩ := specOut_spec exEnvBad.ext (fun _ => true) false
    ((served {} exHistBad exPBad).take (4 - preamble {} exHistBad exPBad)) exPBad
  have hc := exBadCrash
  rw [h, hspec, hcr] at hc
  cases hc


end GV.Props.C09c
