import GV.Lemmas.C13b
/-
  C13 (byte level, END TO END) — what the HANDLER receives for one column of one row of a rows change: ABSENT vs NULL vs
  a value, the EMPTY string being a value; strings / blobs verbatim; the column's name from the table mapper and its
  type from the table map (DESIGN §7 C13).  Corollaries of `C01_fidelity_bytes` (GV/Props/C01c.lean) and of the shape of
  `seOfRows` / `GV.C09R.expectCols`.  Property theorems and non-vacuity examples only; vocabulary, helper lemmas and the
  concrete history `rHist` are in GV/Lemmas/C13b.lean (namespace GV.C13b):

    runCalls cfg env h            the handler calls of the run of `C01_fidelity_bytes` (replica started at the head of
                                  the first file, fed everything the Spec master serves, all-accepting handler)
    deliveredCol calls i k after r j   what the handler got for TABLE column j of row r of the k-th event of its i-th
                                  call, in the after image (`rowValues`, after = true) or the before image
                                  (`rowIdentifies`, after = false); `none` if there is no such call / event / row / column
    presentOf c after             the presence bitmap of that image of the rows change c
    imageOf c after r             the values the master wrote for that image of row r (PRESENT columns only)
    ordOf ps j                    the ordinal INSIDE the image of table column j = number of present columns before it
    written c after r j           `W.ColVal`: what the master logged for table column j (absent / null / value v)
    Site cfg h i k c after r j    the k-th change of the i-th transaction expected from the head of h is the rows change
                                  c, c has that image (kind ≠ DELETE for after, ≠ WRITE for before), r < number of rows,
                                  j < number of table columns

  The model's `ColumnData` is ⟨field, typ, col⟩ with `col : Col` one of `.absent` (Go: IsEmpty = true, Data = nil),
  `.null` (IsEmpty = false, Data = nil), `.value b` (IsEmpty = false, Data = b, non-nil, possibly empty).
  Checked by evaluation first (/tmp/c10b/e1.lean): `rHist` — a 5-column table (INT UNSIGNED, INT, VARCHAR(300),
  DECIMAL(5,2), DATETIME(3)), an UPDATE with a partial before image and NULL / empty string / zero decimal, a WRITE with
  a partial after image — run = expected, the columns as stated below.
-/
namespace GV.Props.C13b
open GV GV.M GV.Props.C01 GV.Props.C01b GV.Props.C09b GV.C01c GV.C13b

/-- ABSENT / NULL / value, end to end.  For a well-formed history, an agreeing mapper, and any site (transaction i,
    change k = rows change c, image, row r, table column j): the handler receives a column `cd` there, and
    * it is ABSENT iff column j is not in the image's presence bitmap;
    * it is NULL iff column j is present and the row holds NULL at j's ordinal in the image;
    * it is `value b` iff column j is present, the row holds a value v there and b is the canonical text of v
      (for the column's metadata);
    * exactly these three cases occur;
    * a string / blob value `.str bs` is delivered verbatim: `value bs`; the EMPTY string as `value []`, which is
      neither NULL nor absent.  The three observations are pairwise distinct. -/
theorem C13_bytes_absent_null_value (cfg : W.Cfg) (env : Env) (h : W.History) (hwf : WFHist cfg h)
    (hm : MapperAgrees env h) (i k : Nat) (c : W.RowsChange) (after : Bool) (r j : Nat)
    (hs : Site cfg h i k c after r j) :
    ∃ cd, deliveredCol (runCalls cfg env h) i k after r j = some cd ∧
      (cd.col = .absent ↔ (presentOf c after)[j]? = some false) ∧
      (cd.col = .null ↔ (presentOf c after)[j]? = some true ∧
          (imageOf c after r)[ordOf (presentOf c after) j]? = some none) ∧
      (∀ b, cd.col = .value b ↔ (presentOf c after)[j]? = some true ∧
          ∃ v, (imageOf c after r)[ordOf (presentOf c after) j]? = some (some v) ∧
               b = textOf env.ext (c.table.cols[j]'hs.col).md v) ∧
      ((presentOf c after)[j]? = some false ∨
       ((presentOf c after)[j]? = some true ∧
         ((imageOf c after r)[ordOf (presentOf c after) j]? = some none ∨
          ∃ v, (imageOf c after r)[ordOf (presentOf c after) j]? = some (some v)))) ∧
      (∀ bs, (presentOf c after)[j]? = some true →
          (imageOf c after r)[ordOf (presentOf c after) j]? = some (some (.str bs)) → cd.col = .value bs) ∧
      ((presentOf c after)[j]? = some true →
          (imageOf c after r)[ordOf (presentOf c after) j]? = some (some (.str [])) →
          cd.col = .value [] ∧ cd.col ≠ .null ∧ cd.col ≠ .absent) ∧
      (Col.absent ≠ Col.null ∧ Col.null ≠ Col.value [] ∧ Col.absent ≠ Col.value []) := by
  obtain ⟨_, hrows⟩ := site_rowsOK hwf hs
  obtain ⟨n, _, hd⟩ := delivered_col cfg env h hwf hm i k c after r j hs
  have hcases := site_cases hrows hs.img hs.row hs.col
  refine ⟨_, hd, ?_, ?_, ?_, hcases, ?_, ?_, by decide, by decide, by decide⟩
  · rcases hcases with hp | ⟨hp, hv | ⟨v, hv⟩⟩
    · simp [colOf_absent _ _ _ hp, hp]
    · simp [colOf_null _ _ hp hv, hp]
    · simp [colOf_value _ _ hp hv, hp]
  · rcases hcases with hp | ⟨hp, hv | ⟨v, hv⟩⟩
    · simp [colOf_absent _ _ _ hp, hp]
    · simp [colOf_null _ _ hp hv, hp, hv]
    · simp [colOf_value _ _ hp hv, hp, hv]
  · intro b
    rcases hcases with hp | ⟨hp, hv | ⟨v, hv⟩⟩
    · simp [colOf_absent _ _ _ hp, hp]
    · simp [colOf_null _ _ hp hv, hp, hv]
    · simp only [colOf_value _ _ hp hv, hp, hv, Col.value.injEq, true_and, Option.some.injEq, exists_eq_left']
      exact eq_comm
  · intro bs hp hv
    simp only [colOf_value _ _ hp hv]
    rfl
  · intro hp hv
    simp only [colOf_value _ _ hp hv]
    exact ⟨rfl, by simp [textOf, W.text], by simp [textOf, W.text]⟩

/-- the same in terms of `written` (the Spec-side three-valued cell): the handler's observation is the image of what
    the master logged -/
theorem C13_bytes_written (cfg : W.Cfg) (env : Env) (h : W.History) (hwf : WFHist cfg h)
    (hm : MapperAgrees env h) (i k : Nat) (c : W.RowsChange) (after : Bool) (r j : Nat)
    (hs : Site cfg h i k c after r j) :
    ∃ cd, deliveredCol (runCalls cfg env h) i k after r j = some cd ∧
      cd.col = (match written c after r j with
                | .absent => .absent
                | .null => .null
                | .value v => .value (textOf env.ext (c.table.cols[j]'hs.col).md v)) := by
  obtain ⟨_, hrows⟩ := site_rowsOK hwf hs
  obtain ⟨n, _, hd⟩ := delivered_col cfg env h hwf hm i k c after r j hs
  refine ⟨_, hd, ?_⟩
  rcases site_cases hrows hs.img hs.row hs.col with hp | ⟨hp, hv | ⟨v, hv⟩⟩
  · simp [colOf_absent _ _ _ hp, written_absent hp]
  · simp [colOf_null _ _ hp hv, written_null hp hv]
  · simp [colOf_value _ _ hp hv, written_value hp hv]

/-- name and type, end to end: the delivered column carries the name the table MAPPER gave for ordinal j (the mapper was
    asked for this table and answered `ti`; `ti.columns[j]` is (that name, the signedness flag of ordinal j)) and the type
    is the j-th type BYTE of the table map decoded from the TABLE_MAP event (`tmOf c.table`). -/
theorem C13_bytes_name_and_type (cfg : W.Cfg) (env : Env) (h : W.History) (hwf : WFHist cfg h)
    (hm : MapperAgrees env h) (i k : Nat) (c : W.RowsChange) (after : Bool) (r j : Nat)
    (hs : Site cfg h i k c after r j) :
    ∃ cd ti u, deliveredCol (runCalls cfg env h) i k after r j = some cd ∧
      env.mapper c.table.db c.table.name = some ti ∧
      ti.columns[j]? = some (cd.field, u) ∧
      c.table.names[j]? = some cd.field ∧ c.table.unsigned[j]? = some u ∧
      ((tmOf c.table).types[j]?).map (·.toNat) = some cd.typ ∧
      cd.typ = (c.table.cols[j]'hs.col).typ ∧ cd.typ < 256 := by
  obtain ⟨hmem, hrows⟩ := site_rowsOK hwf hs
  obtain ⟨n, hn, hd⟩ := delivered_col cfg env h hwf hm i k c after r j hs
  obtain ⟨u, hu, _⟩ := colsU_get c.table hrows.table.unsigned j hs.col
  have hlt : (c.table.cols[j]'hs.col).typ < 256 :=
    GV.C15.colOK_typ _ (hrows.table.cols _ (List.getElem_mem hs.col))
  refine ⟨_, infoOf c.table, u, hd, hm c hmem, ?_, hn, hu, ?_, rfl, hlt⟩
  · simp only [infoOf, List.getElem?_zip_eq_some]
    exact ⟨hn, hu⟩
  · simp [tmOf, List.getElem?_eq_getElem hs.col, UInt8.toNat_ofNat', Nat.mod_eq_of_lt hlt]

/-! non-vacuity: the concrete history `rHist` (GV/Lemmas/C13b.lean) satisfies the hypotheses (`rWF`, `rMapper`); its
    first transaction holds the UPDATE `rC1` whose BEFORE image is partial (columns 0 and 2 of 5) -/

/-- row 0, before image, table column 2 (VARCHAR) sits at image ordinal 1 and holds the empty string -/
theorem site_empty : Site {} rHist 0 0 rC1 false 0 2 := ⟨site_tx_of_bind (by decide), by decide, by decide, by decide⟩
/-- row 1, before image, the same column is NULL -/
theorem site_null : Site {} rHist 0 0 rC1 false 1 2 := ⟨site_tx_of_bind (by decide), by decide, by decide, by decide⟩
/-- row 0, before image, table column 1 is not part of the image -/
theorem site_absent : Site {} rHist 0 0 rC1 false 0 1 := ⟨site_tx_of_bind (by decide), by decide, by decide, by decide⟩

example : ∃ cd, deliveredCol (runCalls {} rEnv rHist) 0 0 false 0 2 = some cd ∧ cd.col = .value [] := by
  obtain ⟨cd, h1, _, _, _, _, _, h7, _⟩ := C13_bytes_absent_null_value {} rEnv rHist rWF rMapper 0 0 rC1 false 0 2 site_empty
  exact ⟨cd, h1, (h7 (by decide) (by decide)).1⟩
example : ∃ cd, deliveredCol (runCalls {} rEnv rHist) 0 0 false 1 2 = some cd ∧ cd.col = .null := by
  obtain ⟨cd, h1, _, h3, _⟩ := C13_bytes_absent_null_value {} rEnv rHist rWF rMapper 0 0 rC1 false 1 2 site_null
  exact ⟨cd, h1, h3.mpr (by decide)⟩
example : ∃ cd, deliveredCol (runCalls {} rEnv rHist) 0 0 false 0 1 = some cd ∧ cd.col = .absent := by
  obtain ⟨cd, h1, h2, _⟩ := C13_bytes_absent_null_value {} rEnv rHist rWF rMapper 0 0 rC1 false 0 1 site_absent
  exact ⟨cd, h1, h2.mpr (by decide)⟩
example : ∃ cd, deliveredCol (runCalls {} rEnv rHist) 0 0 false 0 2 = some cd ∧ cd.col = .value [] := by
  obtain ⟨cd, h1, h2⟩ := C13_bytes_written {} rEnv rHist rWF rMapper 0 0 rC1 false 0 2 site_empty
  exact ⟨cd, h1, h2⟩
example : ∃ cd, deliveredCol (runCalls {} rEnv rHist) 0 0 false 0 2 = some cd ∧ cd.field = [99] ∧ cd.typ = 15 := by
  obtain ⟨cd, _, _, h1, _, _, h2, _, _, h3, _⟩ :=
    C13_bytes_name_and_type {} rEnv rHist rWF rMapper 0 0 rC1 false 0 2 site_empty
  exact ⟨cd, h1, (Option.some.inj h2).symm, h3⟩

end GV.Props.C13b
