import GV.Model.Proto
import GV.Lemmas.Proto
import GV.Expect.C05
/-
  C05 — Stream always terminates and leaves nothing behind; Error() never blocks (DESIGN §7 C05).
  Property theorems only (helper lemmas and the inductive invariant: GV/Lemmas/Proto.lean).
  Stated over `Proto`, the labelled transition system of one attempt: all reachable states, all interleavings.
  "Bounded time" is bounded *steps of the library's own goroutines*; the Go scheduler, wall-clock time and data
  races are runtime facets outside any executable model (partial, named in DESIGN §7 C05).
-/
namespace GV.Props.C05
open GV.Proto

def Returned (s : State) : Prop := ∃ e, s.parser = .returned e

/-- Once parseEvents has returned, Stream itself returns after exactly three steps of its own, none of which
    waits for anybody: latch test, stopReader(), conn.close(). -/
theorem C05_epilogue_bounded (s : State) (e : Bool) (h : s.parser = .ret0 e) :
    ∃ s', run s [.epilogue, .epilogue, .epilogue] = some s' ∧ s'.parser = .returned e ∧ s'.connClosed = true ∧
      s'.readerCtx = true := by
  obtain ⟨reader, parser, errCh, evClosed, cancelled, readerCtx, connClosed, latched, firstError, published, endedByCtx⟩ := s
  simp only at h
  subst h
  exact ⟨_, rfl, rfl, rfl, rfl⟩

/-- The parser always has an enabled step of its own when a stop cause is visible to it. -/
theorem C05_parser_not_stuck (s : State) (h : s.parser = .waiting) :
    (s.evClosed = true → ∃ s', step s .parserSeesClosed = some s') ∧
    (s.cancelled = true → ∃ s', step s .parserCtxDone = some s') := by
  constructor
  · intro hc
    simp [step, h, hc]
  · intro hc
    simp [step, h, hc]

/-- After the master's EOF / ERR or a transport failure the reader closes the event channel within three steps of
    its own (publish reason, close errChan, close eventChan) — it is never blocked on the error channel. -/
theorem C05_reader_publishes (s : State) (hr : Reachable s) (r : Reason) (h : s.reader = .pub1 r) :
    ∃ s', run s [.publish, .publish, .publish] = some s' ∧ s'.reader = .done ∧ s'.evClosed = true := by
  have hi := reachable_inv s hr
  obtain ⟨reader, parser, errCh, evClosed, cancelled, readerCtx, connClosed, latched, firstError, published, endedByCtx⟩ := s
  simp only at h
  subst h
  have h1 : errCh = .empty := by simp only [Proto.Inv] at hi; proto_close
  subst h1
  exact ⟨_, rfl, rfl, rfl⟩

/-- No goroutine is left behind: in every reachable state in which Stream has returned, the reader is done or has
    an enabled step of its own — it is never parked waiting for a process that is gone … -/
theorem C05_reader_exits (s : State) (hr : Reachable s) (h : Returned s) :
    s.reader = .done ∨ ∃ a s', readerOwn a = true ∧ step s a = some s' := by
  have hi := reachable_inv s hr
  obtain ⟨e, he⟩ := h
  obtain ⟨reader, parser, errCh, evClosed, cancelled, readerCtx, connClosed, latched, firstError, published, endedByCtx⟩ := s
  simp only at he
  subst he
  simp only [Proto.Inv] at hi
  cases reader with
  | reading =>
    have h1 : connClosed = true := by proto_close
    subst h1
    exact .inr ⟨.readFails, _, rfl, rfl⟩
  | holding =>
    have h1 : readerCtx = true := by proto_close
    subst h1
    exact .inr ⟨.readerCtxDone, _, rfl, rfl⟩
  | pub1 r =>
    have h1 : errCh = .empty := by proto_close
    subst h1
    exact .inr ⟨.publish, _, rfl, rfl⟩
  | pub2 =>
    cases errCh with
    | empty => exact .inr ⟨.publish, _, rfl, rfl⟩
    | one r => exact .inr ⟨.publish, _, rfl, rfl⟩
    | closedOne r => exact absurd hi (by proto_close)
    | closedEmpty => exact absurd hi (by proto_close)
  | pub3 => exact .inr ⟨.publish, _, rfl, rfl⟩
  | done => exact .inl rfl

/-- … and it reaches `done`, with the connection closed, after at most four such steps. -/
theorem C05_reader_exits_bounded (s : State) (hr : Reachable s) (h : Returned s) :
    ∃ as s', as.length ≤ 4 ∧ (∀ a ∈ as, readerOwn a = true) ∧ run s as = some s' ∧ s'.reader = .done ∧
      s'.connClosed = true := by
  have hi := reachable_inv s hr
  obtain ⟨e, he⟩ := h
  obtain ⟨reader, parser, errCh, evClosed, cancelled, readerCtx, connClosed, latched, firstError, published, endedByCtx⟩ := s
  simp only at he
  subst he
  simp only [Proto.Inv] at hi
  have hc : connClosed = true := by proto_close
  subst hc
  cases reader with
  | reading =>
    have h1 : errCh = .empty := by proto_close
    subst h1
    exact ⟨[.readFails, .publish, .publish, .publish], _, by decide, by decide, rfl, rfl, rfl⟩
  | holding =>
    have h1 : readerCtx = true := by proto_close
    have h2 : errCh = .empty := by proto_close
    subst h1 h2
    exact ⟨[.readerCtxDone, .publish, .publish, .publish], _, by decide, by decide, rfl, rfl, rfl⟩
  | pub1 r =>
    have h1 : errCh = .empty := by proto_close
    subst h1
    exact ⟨[.publish, .publish, .publish], _, by decide, by decide, rfl, rfl, rfl⟩
  | pub2 =>
    cases errCh with
    | empty => exact ⟨[.publish, .publish], _, by decide, by decide, rfl, rfl, rfl⟩
    | one r => exact ⟨[.publish, .publish], _, by decide, by decide, rfl, rfl, rfl⟩
    | closedOne r => exact absurd hi (by proto_close)
    | closedEmpty => exact absurd hi (by proto_close)
  | pub3 => exact ⟨[.publish], _, by decide, by decide, rfl, rfl, rfl⟩
  | done => exact ⟨[], _, by decide, by decide, rfl, rfl, rfl⟩

/-- The handler runs only inside Stream: `returned` is absorbing, and the handler is entered / left only by the
    single parser goroutine (one call at a time by construction of the state). -/
theorem C05_handler_discipline (s s' : State) (a : Action) (h : step s a = some s') :
    (Returned s → Returned s' ∧ s'.parser ≠ .inHandler) ∧
    (s'.parser = .inHandler → s.parser = .inHandler ∨ (s.parser = .waiting ∧ a = .handoff .deliver)) := by
  obtain ⟨reader, parser, errCh, evClosed, cancelled, readerCtx, connClosed, latched, firstError, published, endedByCtx⟩ := s
  constructor
  · rintro ⟨e, he⟩
    simp only at he
    subst he
    cases a <;> simp only [step] at h <;> (repeat' split at h) <;> (try (simp at h; done)) <;>
      (try simp only [Option.some.injEq] at h) <;> subst h <;>
      first
        | exact ⟨⟨_, rfl⟩, by simp⟩
        | (simp_all; done)
  · intro hp
    cases a <;> simp only [step] at h <;> (repeat' split at h) <;> (try (simp at h; done)) <;>
      (try simp only [Option.some.injEq] at h) <;> subst h <;> simp_all

/-- Error() never blocks: after Stream returned, an Error() call is enabled after at most two reader-own steps … -/
theorem C05_error_never_blocks (s : State) (hr : Reachable s) (h : Returned s) :
    ∃ as s' s'', as.length ≤ 2 ∧ (∀ a ∈ as, readerOwn a = true) ∧ run s as = some s' ∧ step s' .callError = some s'' := by
  have hi := reachable_inv s hr
  obtain ⟨e, he⟩ := h
  obtain ⟨reader, parser, errCh, evClosed, cancelled, readerCtx, connClosed, latched, firstError, published, endedByCtx⟩ := s
  simp only at he
  subst he
  simp only [Proto.Inv] at hi
  cases reader with
  | reading =>
    have hc : connClosed = true := by proto_close
    have h1 : errCh = .empty := by proto_close
    subst hc h1
    exact ⟨[.readFails, .publish], _, _, by decide, by decide, rfl, rfl⟩
  | holding =>
    have h1 : readerCtx = true := by proto_close
    have h2 : errCh = .empty := by proto_close
    subst h1 h2
    exact ⟨[.readerCtxDone, .publish], _, _, by decide, by decide, rfl, rfl⟩
  | pub1 r =>
    have h1 : errCh = .empty := by proto_close
    subst h1
    exact ⟨[.publish], _, _, by decide, by decide, rfl, rfl⟩
  | pub2 =>
    cases errCh with
    | empty => exact ⟨[.publish], _, _, by decide, by decide, rfl, rfl⟩
    | one r => exact ⟨[], _, _, by decide, by decide, rfl, rfl⟩
    | closedOne r => exact absurd hi (by proto_close)
    | closedEmpty => exact absurd hi (by proto_close)
  | pub3 =>
    cases errCh with
    | empty => exact absurd hi (by proto_close)
    | one r => exact absurd hi (by proto_close)
    | closedOne r => exact ⟨[], _, _, by decide, by decide, rfl, rfl⟩
    | closedEmpty => exact ⟨[], _, _, by decide, by decide, rfl, rfl⟩
  | done =>
    cases errCh with
    | empty => exact absurd hi (by proto_close)
    | one r => exact absurd hi (by proto_close)
    | closedOne r => exact ⟨[], _, _, by decide, by decide, rfl, rfl⟩
    | closedEmpty => exact ⟨[], _, _, by decide, by decide, rfl, rfl⟩

/-- … and once the reader is done every subsequent Error() call returns (the channel is closed for good). -/
theorem C05_error_always_after_done (s : State) (hr : Reachable s) (h : Returned s) (hd : s.reader = .done) :
    ∃ s', step s .callError = some s' ∧ s'.reader = .done ∧ Returned s' ∧
      (s'.errCh = .closedEmpty ∨ ∃ r, s'.errCh = .closedOne r) := by
  have hi := reachable_inv s hr
  obtain ⟨e, he⟩ := h
  obtain ⟨reader, parser, errCh, evClosed, cancelled, readerCtx, connClosed, latched, firstError, published, endedByCtx⟩ := s
  simp only at he hd
  subst he hd
  simp only [Proto.Inv] at hi
  cases errCh with
  | empty => exact absurd hi (by proto_close)
  | one r => exact absurd hi (by proto_close)
  | closedOne r => exact ⟨_, rfl, rfl, ⟨_, rfl⟩, .inl rfl⟩
  | closedEmpty => exact ⟨_, rfl, rfl, ⟨_, rfl⟩, .inl rfl⟩

/-! non-vacuity: a reachable state in which Stream returned on a handler failure while the reader was parked on
    the hand-off (the F4 schedule) -/
example : run init [.net .event, .handoff .deliver, .net .event, .handlerReturns false, .epilogue, .epilogue, .epilogue]
    = some { init with reader := .holding, parser := .returned true, readerCtx := true, connClosed := true, latched := true } := by
  decide

end GV.Props.C05
