import GV.Lemmas.C14b
/-
  C14 (byte level, END TO END) — what the HANDLER receives for a JSON column (MySQL type 245) of one row of a rows
  change: the text of the very document the master stored (DESIGN §7 C14).  Corollaries of `C01_fidelity_bytes`
  (GV/Props/C01c.lean; JSON cells are inside `WFHist` through the `.raw` clause of `W.CellOK`, GV/Spec/CellWF.lean), of
  the uniform cell theorem (`GV.C09R.cell0_raw`: `C14_doc` through `cellLength` / `cellBytes` for every length-prefix
  width 1 … 4 at any position of the row image) and of the shape of `seOfRows`.  Property theorems and non-vacuity
  examples only; helper lemmas and the concrete history `jHist` are in GV/Lemmas/C14b.lean (namespace GV.C14b); the
  vocabulary (`runCalls`, `deliveredCol`, `Site`, `presentOf`, `imageOf`, `ordOf`, `written`) is that of
  GV/Props/C13b.lean (GV/Lemmas/C13b.lean).

    W.JDoc, W.jsonb d, W.render fmtE top d   the documents, the independent binary-JSON writer, the expected text
                                             (GV/Spec/Json.lean)
    W.WFDoc d, W.NoDbl d                     well-formed documents; documents without a DOUBLE scalar at any depth
                                             (GV/Spec/JsonWF.lean)
    W.jsonCell md d                          the cell of document d in a JSON column with md length bytes:
                                             `.raw (ofLE md (jsonb d).length ++ jsonb d) (the text of d)`

  Checked by evaluation first (`#guard`s below): `jHist` — a table (INT, JSON with 4 length bytes); a WRITE with two
  rows whose JSON cells hold a nested object / array document (depth 4, one array in the large storage format) and a
  scalar; a second transaction with an UPDATE (scalar → large array of an object and an opaque DECIMAL; SQL NULL →
  JSON null) — run = expected, the delivered texts as stated below.
-/
namespace GV.Props.C14b
open GV GV.M GV.Props.C01 GV.Props.C01b GV.Props.C09b GV.C01c GV.C13b GV.C14b

/-- JSON columns, end to end.  For a well-formed history, an agreeing mapper, and any site (transaction i, change k =
    rows change c, image, row r, table column j): if column j is present in the image, the row holds the pre-encoded cell
    `.raw b t` at j's ordinal, and `d` is a well-formed document whose cell for the column's metadata (the number of
    length bytes) is `b` — then the handler receives `value (the text of d)` there, rendered with the RUNTIME's float
    formatter `env.ext.fmtFloat64E`, whatever that is; the column is a JSON column (type 245, also as delivered) and
    `t` is that text.

    PARTIAL: a well-formed history (`W.CellOK`, `.raw` clause) only holds JSON cells of documents WITHOUT a DOUBLE
    scalar (`W.NoDbl`), because the text of a double is whatever the runtime formatter `fmtFloat64E` (a stated runtime
    parameter) makes of it, and `WFHist` does not depend on the runtime.  Documents containing DOUBLE scalars are
    therefore missing here (`W.NoDbl d` need not be assumed: it follows for the stored document from `hwf`); they are
    covered at cell level by `GV.Props.C14.C14_doc` / `C14_cell`, for every formatter. -/
theorem C14_bytes_end_to_end_partial (cfg : W.Cfg) (env : Env) (h : W.History) (hwf : WFHist cfg h)
    (hm : MapperAgrees env h) (i k : Nat) (c : W.RowsChange) (after : Bool) (r j : Nat)
    (hs : Site cfg h i k c after r j) (b t : Bytes) (d : W.JDoc)
    (hp : (presentOf c after)[j]? = some true)
    (hv : (imageOf c after r)[ordOf (presentOf c after) j]? = some (some (.raw b t)))
    (hw : W.WFDoc d)
    (hb : b = Bytes.ofLE (c.table.cols[j]'hs.col).md (W.jsonb d).length ++ W.jsonb d) :
    ∃ cd, deliveredCol (runCalls cfg env h) i k after r j = some cd ∧
      cd.col = .value (W.render env.ext.fmtFloat64E true d) ∧
      cd.typ = 245 ∧ (c.table.cols[j]'hs.col).typ = 245 ∧
      t = W.render env.ext.fmtFloat64E true d := by
  obtain ⟨_, u, _, _, hok, hd⟩ := delivered_value cfg env h hwf hm i k c after r j hs (.raw b t) (written_value hp hv)
  obtain ⟨ht, _, _, d', hw', _, _, hb', htx⟩ := inv_raw env.ext _ _ _ _ _ hok
  have hdd : W.render env.ext.fmtFloat64E true d' = W.render env.ext.fmtFloat64E true d :=
    render_of_jsonb_eq env.ext d' d hw' hw (payload_eq _ _ _ _ _ (hb'.symm.trans hb))
  rw [hdd] at htx
  refine ⟨_, hd, ?_, ht, ht, htx⟩
  show Col.value (textOf env.ext _ (.raw b t)) = _
  rw [htx]
  rfl

/-- the same read from the column's side: EVERY value a well-formed history holds in a JSON column (type 245) is the
    cell `.raw b t` of a well-formed document `d` (without DOUBLE, see above) with the column's number of length bytes,
    and the handler receives the text of `d` (which is `t`) -/
theorem C14_bytes_json_column_partial (cfg : W.Cfg) (env : Env) (h : W.History) (hwf : WFHist cfg h)
    (hm : MapperAgrees env h) (i k : Nat) (c : W.RowsChange) (after : Bool) (r j : Nat)
    (hs : Site cfg h i k c after r j) (v : W.CellVal)
    (ht : (c.table.cols[j]'hs.col).typ = 245) (hv : written c after r j = .value v) :
    ∃ cd b t d, deliveredCol (runCalls cfg env h) i k after r j = some cd ∧ v = .raw b t ∧
      W.WFDoc d ∧ W.NoDbl d ∧ 1 ≤ (c.table.cols[j]'hs.col).md ∧ (c.table.cols[j]'hs.col).md ≤ 4 ∧
      (W.jsonb d).length < 256 ^ (c.table.cols[j]'hs.col).md ∧
      b = Bytes.ofLE (c.table.cols[j]'hs.col).md (W.jsonb d).length ++ W.jsonb d ∧
      t = W.render env.ext.fmtFloat64E true d ∧
      cd.typ = 245 ∧ cd.col = .value (W.render env.ext.fmtFloat64E true d) := by
  obtain ⟨_, u, _, _, hok, hd⟩ := delivered_value cfg env h hwf hm i k c after r j hs v hv
  rw [ht] at hok
  obtain ⟨b, t, rfl⟩ := inv_json _ _ _ hok
  obtain ⟨_, h1, h4, d, hw, hn, hl, hb, htx⟩ := inv_raw env.ext _ _ _ _ _ hok
  refine ⟨_, b, t, d, hd, rfl, hw, hn, h1, h4, hl, hb, htx, ht, ?_⟩
  show Col.value (textOf env.ext _ (.raw b t)) = _
  rw [htx]
  rfl

/-- SQL NULL in a JSON column stays NULL, distinct from the JSON literal null, whose text is `'null'` -/
theorem C14_bytes_null_vs_json_null (cfg : W.Cfg) (env : Env) (h : W.History) (hwf : WFHist cfg h)
    (hm : MapperAgrees env h) (i k : Nat) (c : W.RowsChange) (after : Bool) (r j : Nat)
    (hs : Site cfg h i k c after r j) (hp : (presentOf c after)[j]? = some true) :
    ∃ cd, deliveredCol (runCalls cfg env h) i k after r j = some cd ∧
      ((imageOf c after r)[ordOf (presentOf c after) j]? = some none → cd.col = .null) ∧
      ((imageOf c after r)[ordOf (presentOf c after) j]? = some (some (W.jsonCell (c.table.cols[j]'hs.col).md (.lit 0))) →
        cd.col = .value (asc "'null'")) := by
  obtain ⟨n, _, hd⟩ := delivered_col cfg env h hwf hm i k c after r j hs
  refine ⟨_, hd, fun hv => colOf_null _ _ hp hv, fun hv => ?_⟩
  rw [show _ = Col.value _ from colOf_value _ _ hp hv]
  rfl

/-! non-vacuity: the concrete history `jHist` (GV/Lemmas/C14b.lean) satisfies the hypotheses (`jWF`, `jMapper`).  Table
    `jT` = (INT, JSON with 4 length bytes).  Transaction 0: the WRITE `jC1` with two rows, (1, `jD1`) and (2, `jD2`);
    transaction 1: the UPDATE `jC2` with two rows, (2, `jD2`) → (2, `jD3`) and (1, SQL NULL) → (1, `jD4` = JSON null).
    `jD1` = {"a": -1, "bc": [null, "ab", 70000, {"k": [true, DATE 2024-02-29]}], "d": LARGE [1, "x", 5]} (depth 4). -/

theorem site_w0 : Site {} jHist 0 0 jC1 true 0 1 := ⟨⟨_, rfl, rfl⟩, by decide, by decide, by decide⟩
theorem site_w1 : Site {} jHist 0 0 jC1 true 1 1 := ⟨⟨_, rfl, rfl⟩, by decide, by decide, by decide⟩
theorem site_ub0 : Site {} jHist 1 0 jC2 false 0 1 := ⟨⟨_, rfl, rfl⟩, by decide, by decide, by decide⟩
theorem site_ua0 : Site {} jHist 1 0 jC2 true 0 1 := ⟨⟨_, rfl, rfl⟩, by decide, by decide, by decide⟩
theorem site_ub1 : Site {} jHist 1 0 jC2 false 1 1 := ⟨⟨_, rfl, rfl⟩, by decide, by decide, by decide⟩
theorem site_ua1 : Site {} jHist 1 0 jC2 true 1 1 := ⟨⟨_, rfl, rfl⟩, by decide, by decide, by decide⟩

/-- the nested document of row 0 of the WRITE arrives as its text -/
example : ∃ cd, deliveredCol (runCalls {} jEnv jHist) 0 0 true 0 1 = some cd ∧
    cd.col = .value (W.render jEnv.ext.fmtFloat64E true jD1) ∧ cd.typ = 245 := by
  obtain ⟨cd, h1, h2, h3, _⟩ := C14_bytes_end_to_end_partial {} jEnv jHist jWF jMapper 0 0 jC1 true 0 1 site_w0 _ _ jD1
    (by decide) rfl wf1 rfl
  exact ⟨cd, h1, h2, h3⟩
/-- the scalar of row 1 of the same event -/
example : ∃ cd, deliveredCol (runCalls {} jEnv jHist) 0 0 true 1 1 = some cd ∧
    cd.col = .value (asc "'\"hi\"'") := by
  obtain ⟨cd, h1, h2, _⟩ := C14_bytes_end_to_end_partial {} jEnv jHist jWF jMapper 0 0 jC1 true 1 1 site_w1 _ _ jD2
    (by decide) rfl wf2 rfl
  exact ⟨cd, h1, h2⟩
/-- the UPDATE of the second transaction: before image "hi", after image the large array -/
example : ∃ cd cd', deliveredCol (runCalls {} jEnv jHist) 1 0 false 0 1 = some cd ∧
    deliveredCol (runCalls {} jEnv jHist) 1 0 true 0 1 = some cd' ∧
    cd.col = .value (W.render jEnv.ext.fmtFloat64E true jD2) ∧ cd'.col = .value (W.render jEnv.ext.fmtFloat64E true jD3) := by
  obtain ⟨cd, h1, h2, _⟩ := C14_bytes_end_to_end_partial {} jEnv jHist jWF jMapper 1 0 jC2 false 0 1 site_ub0 _ _ jD2
    (by decide) rfl wf2 rfl
  obtain ⟨cd', h1', h2', _⟩ := C14_bytes_end_to_end_partial {} jEnv jHist jWF jMapper 1 0 jC2 true 0 1 site_ua0 _ _ jD3
    (by decide) rfl wf3 rfl
  exact ⟨cd, cd', h1, h1', h2, h2'⟩
/-- read from the column's side -/
example : ∃ cd d, deliveredCol (runCalls {} jEnv jHist) 1 0 true 0 1 = some cd ∧ W.WFDoc d ∧ W.NoDbl d ∧
    W.jsonCell 4 jD3 = W.jsonCell 4 d ∧ cd.col = .value (W.render jEnv.ext.fmtFloat64E true d) := by
  obtain ⟨cd, b, t, d, h1, h2, h3, h4, _, _, _, h8, h9, _, h11⟩ :=
    C14_bytes_json_column_partial {} jEnv jHist jWF jMapper 1 0 jC2 true 0 1 site_ua0 (W.jsonCell 4 jD3) rfl
      (written_value (by decide) rfl)
  refine ⟨cd, d, h1, h3, h4, ?_, h11⟩
  rw [h2, h8, h9, ← C14.render_noDbl (fun _ => []) _ true d h4]
  rfl
/-- SQL NULL (before image of row 1 of the UPDATE) vs the JSON literal null (its after image) -/
example : ∃ cd cd', deliveredCol (runCalls {} jEnv jHist) 1 0 false 1 1 = some cd ∧
    deliveredCol (runCalls {} jEnv jHist) 1 0 true 1 1 = some cd' ∧ cd.col = .null ∧ cd'.col = .value (asc "'null'") := by
  obtain ⟨cd, h1, h2, _⟩ := C14_bytes_null_vs_json_null {} jEnv jHist jWF jMapper 1 0 jC2 false 1 1 site_ub1 (by decide)
  obtain ⟨cd', h1', _, h3'⟩ := C14_bytes_null_vs_json_null {} jEnv jHist jWF jMapper 1 0 jC2 true 1 1 site_ua1 (by decide)
  exact ⟨cd, cd', h1, h1', h2 rfl, h3' rfl⟩

/-! the same by evaluation: the run of the model on the bytes the Spec master serves for `jHist` -/

-- run = expected (the statement of `C01_fidelity_bytes` for `jHist`)
#guard runCalls {} jEnv jHist == (W.expected {} jHist ⟨W.firstFile, 4⟩).map (toTx jEnv.ext)
-- the texts of the four documents
#guard W.render jEnv.ext.fmtFloat64E true jD1 ==
  asc "JSON_OBJECT('a',-1,'bc',JSON_ARRAY(null,'ab',70000,JSON_OBJECT('k',JSON_ARRAY(true,CAST('2024-02-29' AS DATE)))),'d',JSON_ARRAY(1,'x',5))"
#guard W.render jEnv.ext.fmtFloat64E true jD2 == asc "'\"hi\"'"
#guard W.render jEnv.ext.fmtFloat64E true jD3 == asc "JSON_ARRAY(JSON_OBJECT('z',-9000000000),CAST('-12.34' AS DECIMAL(5,2)))"
#guard W.render jEnv.ext.fmtFloat64E true jD4 == asc "'null'"
-- what the handler got: (name, type 245, value text) for the JSON column at the six sites, and the INT column next to it
#guard deliveredCol (runCalls {} jEnv jHist) 0 0 true 0 1 == some ⟨[106], 245, .value (W.render (fun _ => []) true jD1)⟩
#guard deliveredCol (runCalls {} jEnv jHist) 0 0 true 1 1 == some ⟨[106], 245, .value (asc "'\"hi\"'")⟩
#guard deliveredCol (runCalls {} jEnv jHist) 1 0 false 0 1 == some ⟨[106], 245, .value (asc "'\"hi\"'")⟩
#guard deliveredCol (runCalls {} jEnv jHist) 1 0 true 0 1 == some ⟨[106], 245, .value (W.render (fun _ => []) true jD3)⟩
#guard deliveredCol (runCalls {} jEnv jHist) 1 0 false 1 1 == some ⟨[106], 245, .null⟩
#guard deliveredCol (runCalls {} jEnv jHist) 1 0 true 1 1 == some ⟨[106], 245, .value (asc "'null'")⟩
#guard deliveredCol (runCalls {} jEnv jHist) 0 0 true 0 0 == some ⟨[105], 3, .value (asc "1")⟩
#guard (runCalls {} jEnv jHist).length == 2

end GV.Props.C14b
