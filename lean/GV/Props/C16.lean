import GV.Model.Rows
import GV.Spec.Events
import GV.Lemmas.Dec
import GV.Lemmas.C16
import GV.Expect.C16
/-
  C16 — event headers and control events decode exactly, checksum or not (DESIGN §7 C16).
  Property theorems only; helper lemmas in GV/Lemmas/C16.lean.
  `W.event crc m typ start body` is the independent writer (header ++ body ++ optional 4 checksum bytes).
-/
namespace GV.Props.C16
open GV GV.M GV.C16

/-- the header fields are in range of their wire widths -/
structure MetaOK (m : W.EvMeta) (typ start : Nat) (total : Nat) : Prop where
  ts : m.ts < 2 ^ 32
  sid : m.sid < 2 ^ 32
  flags : m.flags < 2 ^ 16
  typ : typ < 256
  len : total < 2 ^ 32
  next : start + total < 2 ^ 32

def crcLen (crc : Option Bytes) : Nat := match crc with | some c => c.length | none => 0

/-- all five header fields (and the flags) round-trip, and the event passes the validity gate -/
theorem C16_header (crc : Option Bytes) (m : W.EvMeta) (typ start : Nat) (body : Bytes)
    (h : MetaOK m typ start (19 + body.length + crcLen crc)) :
    let ev := (W.event crc m typ start body).1
    evTimestamp ev = .ok m.ts ∧ evType ev = .ok typ ∧ evServerID ev = .ok m.sid ∧
    evLength ev = .ok (19 + body.length + crcLen crc) ∧
    evNextPosition ev = .ok (start + (19 + body.length + crcLen crc)) ∧ evFlags ev = .ok m.flags ∧
    isValid ev = true ∧ (W.event crc m typ start body).2 = start + (19 + body.length + crcLen crc) := by
  cases crc with
  | none =>
    have := header_aux m typ start body [] h.ts h.sid h.flags h.typ h.len h.next
    simp only [W.event, Option.getD_none, List.append_assoc, crcLen] at this ⊢
    exact ⟨this.1, this.2.1, this.2.2.1, this.2.2.2.1, this.2.2.2.2.1, this.2.2.2.2.2.1, this.2.2.2.2.2.2, by first | trivial | rfl⟩
  | some c =>
    have := header_aux m typ start body c h.ts h.sid h.flags h.typ h.len h.next
    simp only [W.event, Option.getD_none, List.append_assoc, crcLen] at this ⊢
    exact ⟨this.1, this.2.1, this.2.2.1, this.2.2.2.1, this.2.2.2.2.1, this.2.2.2.2.2.1, this.2.2.2.2.2.2, by first | trivial | rfl⟩

/-- FORMAT_DESCRIPTION: version, server version (0..50 bytes, NUL padded), header length, per-event header sizes
    (any table), checksum algorithm -/
theorem C16_format (m : W.EvMeta) (start created : Nat) (sv hs crc4 : Bytes) (alg : Nat)
    (hsv : sv.length ≤ 50) (hz : sv.getLast? ≠ some 0) (hc : created < 2 ^ 32) (ha : alg < 256) (h4 : crc4.length = 4) :
    format (W.event none m 15 start (W.fdeBody sv created hs alg crc4)).1
      = .ok { formatVersion := 4, serverVersion := sv, headerLength := 19, checksumAlg := alg, headerSizes := hs } := by
  have _ := hc
  unfold format
  simp only [W.event, Option.getD_none, List.append_nil]
  rw [sliceFrom_append _ _ _ (header_length ..)]
  have hp := padTo_length sv hsv
  generalize hP : W.padTo 50 sv = P at hp
  have hdata : W.fdeBody sv created hs alg crc4 =
      Bytes.ofLE 2 4 ++ (P ++ (Bytes.ofLE 4 created ++ (19 :: (hs ++ (UInt8.ofNat alg :: crc4))))) := by
    simp [W.fdeBody, hP]
  have hlen : (W.fdeBody sv created hs alg crc4).length = 57 + hs.length + 5 := by
    rw [hdata]; simp [hp, h4]; omega
  have h5 : (W.fdeBody sv created hs alg crc4).length - 5 = 57 + hs.length := by omega
  have hn5 : ¬ (W.fdeBody sv created hs alg crc4).length < 5 := by omega
  simp only [Res.ok_bind, h5, hn5, if_false]
  rw [hdata]
  have e1 : readLE (Bytes.ofLE 2 4 ++ (P ++ (Bytes.ofLE 4 created ++ (19 :: (hs ++ (UInt8.ofNat alg :: crc4)))))) 0 2 = .ok 4 := by
    rw [readLE_head]
  have e2 : Bytes.slice (Bytes.ofLE 2 4 ++ (P ++ (Bytes.ofLE 4 created ++ (19 :: (hs ++ (UInt8.ofNat alg :: crc4)))))) 2 52 = .ok P :=
    slice_mid' _ _ _ _ _ (by simp) (by simp [hp])
  have e3 : Bytes.get (Bytes.ofLE 2 4 ++ (P ++ (Bytes.ofLE 4 created ++ (19 :: (hs ++ (UInt8.ofNat alg :: crc4)))))) 56 = .ok 19 := by
    have := get_mid (Bytes.ofLE 2 4 ++ (P ++ Bytes.ofLE 4 created)) 19 (hs ++ (UInt8.ofNat alg :: crc4))
    simpa [hp] using this
  have e4 : Bytes.get (Bytes.ofLE 2 4 ++ (P ++ (Bytes.ofLE 4 created ++ (19 :: (hs ++ (UInt8.ofNat alg :: crc4)))))) (57 + hs.length)
      = .ok (UInt8.ofNat alg) := by
    have := get_mid (Bytes.ofLE 2 4 ++ (P ++ (Bytes.ofLE 4 created ++ (19 :: hs)))) (UInt8.ofNat alg) crc4
    have hl : (Bytes.ofLE 2 4 ++ (P ++ (Bytes.ofLE 4 created ++ (19 :: hs)))).length = 57 + hs.length := by simp [hp]; omega
    rw [hl] at this
    simpa using this
  have e5 : Bytes.slice (Bytes.ofLE 2 4 ++ (P ++ (Bytes.ofLE 4 created ++ (19 :: (hs ++ (UInt8.ofNat alg :: crc4)))))) 57 (57 + hs.length)
      = .ok hs := by
    have := slice_mid' (Bytes.ofLE 2 4 ++ (P ++ (Bytes.ofLE 4 created ++ [19]))) hs (UInt8.ofNat alg :: crc4) 57 (57 + hs.length)
      (by simp [hp]) (by simp [hp])
    simpa using this
  rw [e1]
  simp only [Res.ok_bind, e2, e3, e4, e5]
  have ht : trimRightZeros P = sv := by rw [← hP]; exact trim_pad sv _ hz
  have hA : (UInt8.ofNat alg).toNat = alg := by rw [UInt8.toNat_ofNat']; omega
  simp [ht, hA]

/-- checksum stripping: off / undefined leave the event alone, CRC32 drops the last four bytes, anything else is an
    error for MySQL 5.6; MariaDB strips for anything but off / undefined -/
theorem C16_strip (f : Format) (ev : Bytes) (crc : Bytes) (h4 : crc.length = 4) :
    ((f.checksumAlg = 0 ∨ f.checksumAlg = 255) → stripChecksum56 f ev = .ok ev ∧ stripChecksumMaria f ev = .ok ev) ∧
    (f.checksumAlg = 1 → stripChecksum56 f (ev ++ crc) = .ok ev) ∧
    ((f.checksumAlg ≠ 0 ∧ f.checksumAlg ≠ 255 ∧ f.checksumAlg ≠ 1) → stripChecksum56 f ev = .err) ∧
    ((f.checksumAlg ≠ 0 ∧ f.checksumAlg ≠ 255) → stripChecksumMaria f (ev ++ crc) = .ok ev) := by
  have hl : ¬ ev.length + crc.length < 4 := by omega
  have ht : (ev ++ crc).take (ev.length + crc.length - 4) = ev := by
    have : ev.length + crc.length - 4 = ev.length := by omega
    rw [this]; simp
  refine ⟨?_, ?_, ?_, ?_⟩
  · intro h; simp [stripChecksum56, stripChecksumMaria, h]
  · intro h; simp only [stripChecksum56, h]; simp [hl, ht]
  · intro ⟨a, b, c⟩; simp [stripChecksum56, a, b, c]
  · intro ⟨a, b⟩; simp only [stripChecksumMaria, a, b]; simp [hl, ht]

/-- ROTATE: file name and position -/
theorem C16_rotate (f : Format) (hf : f.headerLength = 19) (hdr : Bytes) (hh : hdr.length = 19) (pos : Nat)
    (hp : pos < 2 ^ 63) (name : Bytes) :
    rotate f (hdr ++ W.rotateBody pos name) = .ok (name, (pos : Int)) := by
  unfold rotate
  rw [hf, sliceFrom_append _ _ _ hh]
  have hl : ¬ (W.rotateBody pos name).length < 8 := by simp [W.rotateBody]
  have hi : i64 (pos % 256 ^ 8) = (pos : Int) := by
    unfold i64 toSigned; simp only [Nat.reducePow, Nat.reduceSub] at *; omega
  simp only [Res.ok_bind, hl, if_false]
  simp only [W.rotateBody, readLE_head, Res.ok_bind, hi]
  rw [sliceFrom_append _ _ _ (by simp)]
  rfl

/-- a status variable the decoder knows how to skip (codes 0,1,2,3,4,6 with their MySQL payload shapes) -/
def KnownVar (v : W.StatusVar) : Prop :=
  ((v.code = 0 ∨ v.code = 3) ∧ v.payload.length = 4) ∨ (v.code = 1 ∧ v.payload.length = 8) ∨
  (v.code = 2 ∧ ∃ s : Bytes, s.length < 256 ∧ v.payload = UInt8.ofNat s.length :: (s ++ [0])) ∨
  (v.code = 6 ∧ ∃ s : Bytes, s.length < 256 ∧ v.payload = UInt8.ofNat s.length :: s) ∨
  (v.code = 4 ∧ v.payload.length = 6)

/-- the session charset announced by the known variables: the last code-4 payload -/
def charsetOf : List W.StatusVar → Option (Nat × Nat × Nat)
  | [] => none
  | v :: vs =>
    match charsetOf vs with
    | some c => some c
    | none => if v.code = 4 then
        some (Bytes.le (v.payload.take 2), Bytes.le ((v.payload.drop 2).take 2), Bytes.le ((v.payload.drop 4).take 2))
      else none

/-- QUERY: database, SQL text and session charset, whatever other status variables are present: any list of known
    variables followed by arbitrary ones starting with a code the decoder stops at (5 or ≥ 7, with any payloads) -/
theorem C16_query (f : Format) (hf : f.headerLength = 19) (hdr : Bytes) (hh : hdr.length = 19)
    (thread exec err : Nat) (known tail : List W.StatusVar) (db sql : Bytes)
    (hk : ∀ v ∈ known, KnownVar v)
    (ht : ∀ v, tail.head? = some v → v.code < 256 ∧ v.code ≠ 0 ∧ v.code ≠ 1 ∧ v.code ≠ 2 ∧ v.code ≠ 3 ∧ v.code ≠ 4 ∧ v.code ≠ 6)
    (hlen : ((known ++ tail).flatMap W.statusVarBytes).length < 65536) (hdb : db.length < 256) :
    query f (hdr ++ W.queryBody thread exec err (known ++ tail) db sql)
      = .ok { database := db, charset := charsetOf known, sql := sql } := by
  have hcs : ∀ l : List W.StatusVar, ∀ acc, csAcc acc l = (match charsetOf l with | some c => some c | none => acc) := by
    intro l
    induction l with
    | nil => intro acc; rfl
    | cons v vs ih =>
      intro acc
      simp only [csAcc, charsetOf, ih]
      cases charsetOf vs with
      | some c => rfl
      | none => by_cases h4 : v.code = 4 <;> simp [h4, csOf]
  have hstop : Stops (tail.flatMap W.statusVarBytes) := by
    cases tail with
    | nil => left; rfl
    | cons v rest =>
      obtain ⟨h256, h0, h1, h2, h3, h4, h6⟩ := ht v rfl
      right
      refine ⟨UInt8.ofNat v.code, v.payload ++ rest.flatMap W.statusVarBytes, by simp [W.statusVarBytes], ?_⟩
      rw [toNat_ofNat_lt _ h256]
      exact ⟨h0, h1, h2, h3, h4, h6⟩
  have hfr := query_frame f hf hdr hh thread exec err ((known ++ tail).flatMap W.statusVarBytes) db sql hlen hdb
  have hscan := scan_known known hk (tail.flatMap W.statusVarBytes) hstop [] none
    (((known ++ tail).flatMap W.statusVarBytes).length + 1)
    (by have := length_le_flatMap known; simp at *; omega)
  have hbody : W.queryBody thread exec err (known ++ tail) db sql =
      Bytes.ofLE 4 thread ++ (Bytes.ofLE 4 exec ++ (UInt8.ofNat db.length :: (Bytes.ofLE 2 err ++
        (Bytes.ofLE 2 ((known ++ tail).flatMap W.statusVarBytes).length ++
        ((known ++ tail).flatMap W.statusVarBytes ++ (db ++ (0 :: sql))))))) := by
    simp [W.queryBody]
  rw [hbody, hfr]
  simp only [List.nil_append, List.length_nil, ← List.flatMap_append] at hscan
  rw [hscan, hcs]
  cases charsetOf known <;> rfl

theorem C16_intvar (f : Format) (hf : f.headerLength = 19) (hdr : Bytes) (hh : hdr.length = 19) (t v : Nat)
    (ht : t = 1 ∨ t = 2) (hv : v < 2 ^ 64) (rest : Bytes) :
    intVar f (hdr ++ W.intVarBody t v ++ rest) = .ok (t, v) := by
  unfold intVar
  rw [hf, List.append_assoc, sliceFrom_append _ _ _ hh]
  have hr : readLE (W.intVarBody t v ++ rest) 1 8 = .ok v := by
    have := readLE_mid [UInt8.ofNat t] rest 8 v
    simp only [Nat.reducePow] at *
    rw [Nat.mod_eq_of_lt hv] at this
    simpa [W.intVarBody] using this
  simp only [Res.ok_bind, hr]
  rcases ht with rfl | rfl <;> simp [W.intVarBody, Bytes.get]

theorem C16_rand (f : Format) (hf : f.headerLength = 19) (hdr : Bytes) (hh : hdr.length = 19) (a b : Nat)
    (ha : a < 2 ^ 64) (hb : b < 2 ^ 64) (rest : Bytes) :
    rand f (hdr ++ W.randBody a b ++ rest) = .ok (a, b) := by
  unfold rand
  rw [hf, List.append_assoc, sliceFrom_append _ _ _ hh]
  simp only [W.randBody, List.append_assoc, Res.ok_bind]
  rw [readLE_head]
  have := readLE_mid (Bytes.ofLE 8 a) rest 8 b
  simp only [ofLE_length] at this
  rw [this]
  simp only [Nat.reducePow] at *
  simp [Nat.mod_eq_of_lt ha, Nat.mod_eq_of_lt hb]

/-- Checksum invariance: every body decoder looks only at the type byte and at the bytes after the header, so the
    two events the master writes with and without a checksum — which differ only in the length and next-position
    header fields once the checksum is stripped — decode identically. -/
theorem C16_body_decoders_ignore_header (f : Format) (h h' body : Bytes) (hl : h.length = 19) (hl' : h'.length = 19)
    (ht : h[4]? = h'[4]?) (hf : f.headerLength = 19) (tm : TableMap) :
    rotate f (h ++ body) = rotate f (h' ++ body) ∧ query f (h ++ body) = query f (h' ++ body) ∧
    intVar f (h ++ body) = intVar f (h' ++ body) ∧ rand f (h ++ body) = rand f (h' ++ body) ∧
    tableID f (h ++ body) = tableID f (h' ++ body) ∧ tableMap f (h ++ body) = tableMap f (h' ++ body) ∧
    rows f tm (h ++ body) = rows f tm (h' ++ body) ∧ gtid56 f (h ++ body) = gtid56 f (h' ++ body) := by
  have hs : Bytes.sliceFrom (h ++ body) 19 = Bytes.sliceFrom (h' ++ body) 19 := by
    rw [sliceFrom_append _ _ _ hl, sliceFrom_append _ _ _ hl']
  have he : evType (h ++ body) = evType (h' ++ body) := by
    rw [evType_append _ _ hl, evType_append _ _ hl', ht]
  refine ⟨?_, ?_, ?_, ?_, ?_, ?_, ?_, ?_⟩
  · unfold rotate; rw [hf, hs]
  · unfold query; rw [hf, hs]
  · unfold intVar; rw [hf, hs]
  · unfold rand; rw [hf, hs]
  · unfold tableID
    simp only [hf, he, readLE_append_right0 h _ _ _ hl, readLE_append_right0 h' _ _ _ hl',
      get_append_right0 h _ _ hl, get_append_right0 h' _ _ hl',
      get_append_right h _ _ _ hl, get_append_right h' _ _ _ hl']
  · unfold tableMap; rw [hf, hs]
  · unfold rows; rw [hf, hs, he]
  · unfold gtid56; rw [hf, hs]

/-- … and the writer's two events are exactly of that shape after stripping -/
theorem C16_checksum_invariance (m : W.EvMeta) (typ start : Nat) (body crc : Bytes) (h4 : crc.length = 4)
    (f0 f1 : Format) (h0 : f0.checksumAlg = 0 ∨ f0.checksumAlg = 255) (h1 : f1.checksumAlg = 1) :
    ∃ hd hd' : Bytes, hd.length = 19 ∧ hd'.length = 19 ∧ hd[4]? = hd'[4]? ∧
      stripChecksum56 f0 (W.event none m typ start body).1 = .ok (hd ++ body) ∧
      stripChecksum56 f1 (W.event (some crc) m typ start body).1 = .ok (hd' ++ body) := by
  refine ⟨W.header m.ts typ m.sid (19 + body.length + 0) (start + (19 + body.length + 0)) m.flags,
    W.header m.ts typ m.sid (19 + body.length + crc.length) (start + (19 + body.length + crc.length)) m.flags,
    header_length .., header_length .., ?_, ?_, ?_⟩
  · simp [W.header]
  · simp [stripChecksum56, h0, W.event]
  · have := (C16_strip f1 (W.header m.ts typ m.sid (19 + body.length + crc.length) (start + (19 + body.length + crc.length)) m.flags ++ body) crc h4).2.1 h1
    simpa [W.event] using this

/-! non-vacuity -/
example : MetaOK { ts := 7, sid := 9, flags := 1 } 2 4 (19 + 10 + 4) := ⟨by decide, by decide, by decide, by decide, by decide, by decide⟩
example : KnownVar (W.charsetVar 33 33 8) := by
  right; right; right; right; exact ⟨rfl, by simp [W.charsetVar]⟩

end GV.Props.C16
