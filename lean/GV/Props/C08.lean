import GV.Model.Mem
import GV.Lemmas.C08
import GV.Expect.C08
/-
  C08 — delivered transactions are stable: no aliasing of transport buffers (DESIGN §7 C08).
  Property theorems only; helper lemmas in GV/Lemmas/C08.lean.
  Partial, named facets: pacing and the driver's buffer management are runtime (the model gives the driver a single
  buffer it may overwrite at any time, which is the worst case); exercised by the stream-level runs.
-/
namespace GV.Props.C08
open GV GV.M GV.Mem

/-- no zero timestamp is delivered as the shared constant (the state of the code after the repair of F5) -/
def NoSharedZero (ops : List Op) : Prop := ∀ op ∈ ops, op ≠ .deliverZeroTs true

/-- Stable: whatever the library does afterwards — later packets overwriting the transport buffer, later events,
    later decodes and deliveries — the bytes of every value already delivered are unchanged. -/
theorem C08_stable (s : Sys) (later : List Op) (hlib : ∀ op ∈ later, isLib op = true)
    (hinv : ∀ r ∈ s.delivered, r.buf ≠ transport ∧ r.buf < s.next) :
    ∀ r ∈ s.delivered, r.read (run s later) = r.read s := by
  intro r hr
  obtain ⟨h0, hlt⟩ := hinv r hr
  unfold Ref.read
  rw [C08.run_lib_heap later s hlib r.buf h0 hlt]

/-- every reachable system state satisfies the premise of `C08_stable` (delivered values never live in the
    transport buffer and only in existing buffers) -/
theorem C08_delivered_not_transport (ops : List Op) :
    ∀ r ∈ (run init ops).delivered, r.buf ≠ transport ∧ r.buf < (run init ops).next := by
  exact (C08.inv_run ops init C08.inv_init).2.1

/-- Private: the delivered values are pairwise non-overlapping, so overwriting one of them changes no other one
    and no value delivered later … -/
theorem C08_pairwise_disjoint (ops : List Op) (hz : NoSharedZero ops) (hs : SubsOK init ops) :
    (run init ops).delivered.Pairwise Ref.disjoint := by
  exact (C08.pinv_run ops init C08.pinv_init hz hs).1

theorem C08_private (s : Sys) (hd : s.delivered.Pairwise Ref.disjoint) (i j : Nat) (hij : i ≠ j) (v : Bytes)
    (ri rj : Ref) (hi : s.delivered[i]? = some ri) (hj : s.delivered[j]? = some rj)
    (hlen : ri.off + ri.len ≤ (s.heap ri.buf).length) :
    rj.read (step s (.scribble i v)) = rj.read s := by
  have hdis : ri.disjoint rj := by
    rcases Nat.lt_or_gt_of_ne hij with h | h
    · exact C08.pairwise_getElem? hd h hi hj
    · exact C08.disjoint_symm (C08.pairwise_getElem? hd h hj hi)
  exact C08.scribble_read s i v ri rj hi hdis hlen

/-- … and later deliveries are unaffected too: a value delivered after a scribble reads what the decoder wrote -/
theorem C08_later_delivery_unaffected (s : Sys) (i : Nat) (v w : Bytes) :
    let s1 := step s (.scribble i v)
    let s2 := step s1 (.deliverFresh w)
    (∃ r, s2.delivered.getLast? = some r ∧ r.read s2 = w) := by
  intro s1 s2
  refine ⟨⟨s1.next, 0, w.length⟩, ?_, ?_⟩
  · simp [s2, step]
  · simp [s2, step, Ref.read, C08.setBuf_same]

/-- the F5 schedule is real in the model: with the shared constant, scribbling on one delivered zero timestamp
    changes the next one -/
theorem C08_shared_zero_breaks_privacy :
    let s := run init [.deliverZeroTs true, .deliverZeroTs true]
    let s' := step s (.scribble 0 (List.replicate 19 88))
    (∀ r, s.delivered[1]? = some r → r.read s' ≠ r.read s) := by
  decide

/-! the link to the decoder: the values CellBytes returns as sub-slices of its input lie inside the cell's own
    bytes, so distinct cells (which occupy disjoint ranges of the image) give non-overlapping slices -/

/-- the type codes whose CellBytes case returns a sub-slice of the input (everything else is freshly allocated) -/
def subSliceTypes : List Nat := [15, 253, 16, 248, 249, 250, 251, 252, 255]

theorem C08_cell_within (E : Ext) (data : Bytes) (pos typ md : Nat) (u : Bool) (v : Bytes) (l : Nat)
    (ht : typ ∈ subSliceTypes ∨ (typ = 254 ∧ md / 256 ≠ 247 ∧ md / 256 ≠ 248))
    (h : cellBytes E data pos typ md u = .ok (v, l)) :
    ∃ off, off + v.length ≤ l ∧ pos + l ≤ data.length ∧ v = (data.drop (pos + off)).take v.length := by
  show C08.Within data pos v l
  rcases ht with ht | ⟨rfl, h7, h8⟩
  · simp only [subSliceTypes, List.mem_cons, List.mem_nil_iff, or_false] at ht
    rcases ht with ht | ht | rfl | rfl | ht | ht | ht | ht | ht
    · exact C08.within_varchar E data pos typ md u l v (Or.inl ht) h
    · exact C08.within_varchar E data pos typ md u l v (Or.inr ht) h
    · exact C08.within_16 E data pos md u l v h
    · exact C08.within_248 E data pos md u l v h
    · exact C08.within_blob E data pos typ md u l v (Or.inl ht) h
    · exact C08.within_blob E data pos typ md u l v (Or.inr (Or.inl ht)) h
    · exact C08.within_blob E data pos typ md u l v (Or.inr (Or.inr (Or.inl ht))) h
    · exact C08.within_blob E data pos typ md u l v (Or.inr (Or.inr (Or.inr (Or.inl ht)))) h
    · exact C08.within_blob E data pos typ md u l v (Or.inr (Or.inr (Or.inr (Or.inr ht)))) h
  · exact C08.within_254 E data pos md u l v h7 h8 h

/-! non-vacuity -/
example : SubsOK init [.readPacket [0, 1, 2, 3, 4, 5], .newEvent, .deliverSub 0 2, .deliverSub 2 3] := by
  simp [SubsOK, step, init, setBuf, transport, zeroTsConst]

end GV.Props.C08
