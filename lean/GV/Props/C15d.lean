import GV.Props.C15c
import GV.Props.C02b
import GV.Props.C03b
import GV.Lemmas.C15d
/-
  C15 (finding F13, continued) — a table id RE-USED FOR ANOTHER TABLE, for a replica that RESUMES and across ATTEMPTS.
  `C15_bytes_fidelity_id_reuse` (Props/C15c) is byte-level fidelity from the head of the first file for histories in
  which a table id is announced for another table (ids start over when the master restarts).  The other byte-level
  developments — resume at any boundary (Props/C01d), any handler / cut / ending / number of attempts (Props/C04b) and
  their corollaries (Props/C02b, C03b) — assumed "a table id names ONE table" among the units served
  (`WFFrom.tables`).  Here they are proved WITHOUT it.  Property theorems and non-vacuity examples only; vocabulary and
  helper lemmas are in GV/Lemmas/C15d.lean (namespace GV.C15d), on top of GV/Lemmas/C15b.lean, C15c.lean, C01d.lean,
  C04b.lean:

    WFFromReuse cfg h p       `WFFrom cfg h p` (C01d) without `tables` and with `announced` read as `curOK []` (C15b)
                              over the rows changes of `unitsFrom cfg h p`: every rows change served from p whose table
                              is not the table LAST announced for its id SINCE p carries its own TABLE_MAP event (the
                              resumed replica's table cache is empty).  Fields: fileLen, units, announced, offsets.
    WFHistFromReuse cfg h p   WFFromReuse cfg h p, and `fresh`: at most one file of the log is named p.file
    SelfCurrent h             per unit, `curOK []` over its rows changes (`SelfAnnounced` of C04b with annOK → curOK)
    ResumableReuse cfg env h p   Lands cfg h p, WFFromReuse cfg h p, SelfCurrent (unitsFrom cfg h p), FreshLog h,
                              MapperAgrees env (unitsFrom cfg h p)
    exReuse4                  `exReuse` of C15c (orders@108 | restart | users@108) ++ orders@108, users@108 (two rows
                              changes, the second without its own TABLE_MAP) in the second file

  WHICH HYPOTHESES OF C01d / C04b ARE STILL NEEDED
    fileLen, units, offsets, Lands / p ∈ boundaries, MapperAgrees    unchanged
    fresh (p.file named once; FreshLog for attempts)    STILL NEEDED — the Spec master finds p by file name; false
                              without it: `C15_resume_id_reuse_reused_name_refuted`
    announcements counted FROM p    still needed (`C15_resume_id_reuse_unannounced_refuted`: `WFHistReuse` for the whole
                              history is not enough), now as `curOK []`
    announcements per unit for ATTEMPTS    still needed (`C15_bytes_kept_unannounced_id_reuse_refuted`), as SelfCurrent
    tables ("an id names one table from p on")    DROPPED — nothing is asked of the definitions sharing an id
  RESULTS (nothing is partial, nothing refuted but the three necessity statements above)
    1. C15_bytes_fidelity_id_reuse_resume (boundary) / _resume_lands (general form);
       C15_id_reuse_resume_subsumes (WFHistFrom → WFHistFromReuse) / _subsumes_lands (WFFrom → WFFromReuse), so
       `C01_fidelity_bytes_resume(_lands)` are corollaries (`C15_resume_recovers_C01`, `…_lands`);
       C15_WFHistFromReuse_of_whole / _head (`C15_bytes_fidelity_id_reuse` is the instance p = ⟨W.firstFile, 4⟩)
    2. C15_bytes_outcome_id_reuse, C15_bytes_resume_pos_id_reuse, C15_bytes_kept_resumable_id_reuse,
       C15_bytes_next_attempt_id_reuse, C15_bytes_redelivery_id_reuse, C15_bytes_attempts_exist_id_reuse,
       C15_bytes_exactly_once_id_reuse; C15_resumable_id_reuse_subsumes (Resumable → ResumableReuse);
       C15_resumableReuse_of_boundary (at EVERY boundary of a well-formed fresh self-current log)
    3. C02_bytes_not_before_commit_id_reuse, C02_bytes_monotone_id_reuse, C02_bytes_grouping_id_reuse,
       C03_bytes_labels_id_reuse, C03_bytes_resume_at_label_id_reuse
    4. non-vacuity on `exReuse4`
  How: the walk over the units of GV/Lemmas/C04b.lean (any predicate closed under the one-event steps) is redone in
  GV/Lemmas/C15d.lean with the invariant of GV/Lemmas/C15b.lean (the cache holds, per id, the entry of the LAST
  definition announced); `outcome_lands` / `attempt_spec` / `served_files_short` of GV/Lemmas/C04b.lean were split into
  a general lemma (`…_of`) and the old statement re-derived from it; the clean run is the instance "everything arrives,
  everything accepted, channel closed" of the exact-outcome theorem.
  Checked by evaluation before proving: fidelity on `exReuse4` from all 8 boundaries; exact outcome and two-attempt
  exactly-once for all 8 configurations, all boundaries, every cut, handlers rejecting the j-th transaction.
-/
namespace GV.Props.C15d
open GV GV.M GV.Props.C01 GV.Props.C01b GV.C01c GV.Props.C01c GV.C01d GV.Props.C01d GV.C04b GV.Props.C04b GV.C02b
  GV.C03b GV.C15b GV.C15c GV.C15d

/-! ### 1. a replica that RESUMES -/

/-- `C01_fidelity_bytes_resume` for histories with table ids re-used for other tables (full unit alphabet; CRC32 on
    or off, v1 / v2 rows events, 4- / 6-byte table ids): a replica that starts at ANY valid boundary p of the log — the
    head of any file, the start of any unit, the end of the log — with an empty table cache and the handler accepting
    everything, and is sent exactly what the Spec master serves from there, calls the handler with exactly the
    transactions expected from p (per rows change the table (db, name) of ITS definition, per column the mapper's name
    for THAT table) and returns the expected end position without error or crash — whatever tables the ids served were
    announced for before p, and however often an id changes its table after p, as long as every rows change served
    whose table is not the one last announced for its id SINCE p carries its own TABLE_MAP event. -/
theorem C15_bytes_fidelity_id_reuse_resume (cfg : W.Cfg) (env : Env) (h : W.History) (p : W.Pos)
    (hp : p ∈ W.boundaries cfg h) (hwf : WFHistFromReuse cfg h p) (hm : MapperAgrees env h) :
    parseEvents env (fun _ => true) (PState.init (posOf p)) ((W.serve cfg h p).map Input.event ++ [Input.closed])
      = ⟨(W.expected cfg h p).map (toTx env.ext), (W.expected cfg h p).map (toTx env.ext),
         posOf (W.endPos cfg h p), false, false⟩ :=
  resume_boundary_reuse cfg env h p hp hwf hm

/-- the general form (`C01_fidelity_bytes_resume_lands`): ANY position p from which the master starts serving at the
    first event of a unit, at a file head, or serves nothing; hypotheses on the served part only -/
theorem C15_bytes_fidelity_id_reuse_resume_lands (cfg : W.Cfg) (env : Env) (h : W.History) (p : W.Pos)
    (hl : Lands cfg h p) (hwf : WFFromReuse cfg h p) (hm : MapperAgrees env (unitsFrom cfg h p)) :
    parseEvents env (fun _ => true) (PState.init (posOf p)) ((W.serve cfg h p).map Input.event ++ [Input.closed])
      = ⟨(W.expected cfg h p).map (toTx env.ext), (W.expected cfg h p).map (toTx env.ext),
         posOf (W.endPos cfg h p), false, false⟩ :=
  resume_lands_reuse cfg env h p hwf hl hm

/-- the hypotheses are weaker than those of `C01_fidelity_bytes_resume` … -/
theorem C15_id_reuse_resume_subsumes (cfg : W.Cfg) (h : W.History) (p : W.Pos) (hwf : WFHistFrom cfg h p) :
    WFHistFromReuse cfg h p :=
  wfHistFromReuse_of_wfHistFrom hwf

/-- … and than those of `C01_fidelity_bytes_resume_lands` -/
theorem C15_id_reuse_resume_subsumes_lands (cfg : W.Cfg) (h : W.History) (p : W.Pos) (hwf : WFFrom cfg h p) :
    WFFromReuse cfg h p :=
  wfFromReuse_of_wfFrom hwf

/-- `C01_fidelity_bytes_resume` (statement verbatim) is a corollary -/
theorem C15_resume_recovers_C01 (cfg : W.Cfg) (env : Env) (h : W.History) (p : W.Pos) (hp : p ∈ W.boundaries cfg h)
    (hwf : WFHistFrom cfg h p) (hm : MapperAgrees env h) :
    parseEvents env (fun _ => true) (PState.init (posOf p)) ((W.serve cfg h p).map Input.event ++ [Input.closed])
      = ⟨(W.expected cfg h p).map (toTx env.ext), (W.expected cfg h p).map (toTx env.ext),
         posOf (W.endPos cfg h p), false, false⟩ :=
  C15_bytes_fidelity_id_reuse_resume cfg env h p hp (C15_id_reuse_resume_subsumes cfg h p hwf) hm

/-- … and so is `C01_fidelity_bytes_resume_lands` -/
theorem C15_resume_recovers_C01_lands (cfg : W.Cfg) (env : Env) (h : W.History) (p : W.Pos) (hl : Lands cfg h p)
    (hwf : WFFrom cfg h p) (hm : MapperAgrees env (unitsFrom cfg h p)) :
    parseEvents env (fun _ => true) (PState.init (posOf p)) ((W.serve cfg h p).map Input.event ++ [Input.closed])
      = ⟨(W.expected cfg h p).map (toTx env.ext), (W.expected cfg h p).map (toTx env.ext),
         posOf (W.endPos cfg h p), false, false⟩ :=
  C15_bytes_fidelity_id_reuse_resume_lands cfg env h p hl (C15_id_reuse_resume_subsumes_lands cfg h p hwf) hm

/-- sufficient: the whole-history hypotheses of `WFHistReuse` (units, offsets) with the announcements asked from p on
    only, and p's file named once (`C01_WFHistFrom_of_whole` without `tables`) -/
theorem C15_WFHistFromReuse_of_whole (cfg : W.Cfg) (h : W.History) (p : W.Pos) (hp : p ∈ W.boundaries cfg h)
    (units : ∀ u ∈ h, UnitOK cfg u) (offsets : ∀ e ∈ W.layout cfg h, e.next < 2 ^ 32)
    (announced : curOK [] (histRows (unitsFrom cfg h p)))
    (fresh : (logFiles h).count p.file ≤ 1) : WFHistFromReuse cfg h p :=
  wfHistFromReuse_of_whole cfg h p hp units offsets announced fresh

/-- at the head of the first file the resume hypothesis is `WFHistReuse` (plus: the first file's name is not reused),
    and everything is served: `C15_bytes_fidelity_id_reuse` is the instance p = ⟨W.firstFile, 4⟩ -/
theorem C15_WFHistFromReuse_head (cfg : W.Cfg) (h : W.History) (hwf : WFHistReuse cfg h)
    (fresh : (logFiles h).count W.firstFile ≤ 1) :
    WFHistFromReuse cfg h ⟨W.firstFile, 4⟩ ∧ unitsFrom cfg h ⟨W.firstFile, 4⟩ = h :=
  ⟨wfHistFromReuse_head cfg h hwf fresh, unitsFrom_head cfg h⟩

/-- `fresh` is STILL NEEDED: every other hypothesis — and `WFHistReuse` for the whole history on top — does not give
    the conclusion (the counterexample of `C01_resume_reused_name_refuted`: a ROTATE that reuses a file name) -/
theorem C15_resume_id_reuse_reused_name_refuted :
    ¬ (∀ (cfg : W.Cfg) (env : Env) (h : W.History) (p : W.Pos), p ∈ W.boundaries cfg h → WFHistReuse cfg h →
        WFFromReuse cfg h p → MapperAgrees env h →
        parseEvents env (fun _ => true) (PState.init (posOf p)) ((W.serve cfg h p).map Input.event ++ [Input.closed])
          = ⟨(W.expected cfg h p).map (toTx env.ext), (W.expected cfg h p).map (toTx env.ext),
             posOf (W.endPos cfg h p), false, false⟩) :=
  fun hall => C01_resume_reused_name_refuted fun cfg env h p hp hwf hfrom hm =>
    hall cfg env h p hp (wfReuse_of_wf hwf) (wfFromReuse_of_wfFrom hfrom) hm

/-- announcements counted from the head of the log (`WFHistReuse cfg h`) are NOT enough for a resume, as in
    `C01_resume_unannounced_refuted`: the announcements must be counted from p -/
theorem C15_resume_id_reuse_unannounced_refuted :
    ¬ (∀ (cfg : W.Cfg) (env : Env) (h : W.History) (p : W.Pos), p ∈ W.boundaries cfg h → WFHistReuse cfg h →
        (logFiles h).Nodup → MapperAgrees env h →
        parseEvents env (fun _ => true) (PState.init (posOf p)) ((W.serve cfg h p).map Input.event ++ [Input.closed])
          = ⟨(W.expected cfg h p).map (toTx env.ext), (W.expected cfg h p).map (toTx env.ext),
             posOf (W.endPos cfg h p), false, false⟩) :=
  fun hall => C01_resume_unannounced_refuted fun cfg env h p hp hwf hn hm =>
    hall cfg env h p hp (wfReuse_of_wf hwf) hn hm

/-! ### 2. any handler, any cut, any ending, any number of attempts -/

/-- `C04_bytes_outcome` with id re-use.  EXACT outcome: for ANY handler, ANY cut k of the served packets and ANY quiet
    ending, the whole outcome of the attempt — calls, accepted, position, error flag, crash flag — is what the Spec
    computes from the tags of the laid-out events that arrived -/
theorem C15_bytes_outcome_id_reuse (cfg : W.Cfg) (env : Env) (h : W.History) (p : W.Pos) (hl : Lands cfg h p)
    (hwf : WFFromReuse cfg h p) (hm : MapperAgrees env (unitsFrom cfg h p))
    (acc : Transaction → Bool) (k : Nat) (e : Bool) (tail : List Input) (ht : EndsWith env e tail) :
    parseEvents env acc (PState.init (posOf p)) (((W.serve cfg h p).take k).map Input.event ++ tail)
      = specOut env.ext acc e ((served cfg h p).take (k - preamble cfg h p)) p :=
  outcome_lands_reuse cfg env h p hwf hl hm acc e tail ht k

/-- `C04_bytes_resume_pos` with id re-use: one attempt, in terms of the expected transactions -/
theorem C15_bytes_resume_pos_id_reuse (cfg : W.Cfg) (env : Env) (h : W.History) (p : W.Pos) (hl : Lands cfg h p)
    (hwf : WFFromReuse cfg h p) (hm : MapperAgrees env (unitsFrom cfg h p))
    (a : Attempt) (e : Bool) (ht : EndsWith env e a.tail) :
    ∃ m, m ≤ min (a.cut - preamble cfg h p) (served cfg h p).length ∧
      (runAttempt cfg env h a p).accepted = ((W.expected cfg h p).take (doneCount cfg h p m)).map (toTx env.ext) ∧
      (runAttempt cfg env h a p).pos = posOf (keptPos cfg h p m) ∧
      ((runAttempt cfg env h a p).calls = (runAttempt cfg env h a p).accepted ∧ (runAttempt cfg env h a p).err = e ∧
          m = min (a.cut - preamble cfg h p) (served cfg h p).length ∨
       ∃ t, (W.expected cfg h p)[doneCount cfg h p m]? = some t ∧ t.now = keptPos cfg h p m ∧
          a.handler (toTx env.ext t) = false ∧
          (runAttempt cfg env h a p).calls = (runAttempt cfg env h a p).accepted ++ [toTx env.ext t] ∧
          (runAttempt cfg env h a p).err = true) ∧
      (runAttempt cfg env h a p).crash = false := by
  obtain ⟨m, h1, h2, h3, h4, h5⟩ := attempt_spec_reuse cfg env h p hwf hl hm a.handler e a.tail ht a.cut _ rfl
  exact ⟨m, h1, h2, h3, h5, h4⟩

/-- the hypotheses are weaker than those of the C04b theorems -/
theorem C15_resumable_id_reuse_subsumes (cfg : W.Cfg) (env : Env) (h : W.History) (p : W.Pos)
    (hr : Resumable cfg env h p) : ResumableReuse cfg env h p :=
  resumableReuse_of_resumable hr

/-- `ResumableReuse` at EVERY boundary of the log, from hypotheses on the whole history: well-formed units, offsets
    below 4 GiB, every rows change current within its unit, no file name used twice, a mapper that knows every table
    (`WFHistReuse` follows: `curOK_self`) -/
theorem C15_resumableReuse_of_boundary (cfg : W.Cfg) (env : Env) (h : W.History) (p : W.Pos)
    (hp : p ∈ W.boundaries cfg h) (units : ∀ u ∈ h, UnitOK cfg u) (offsets : ∀ e ∈ W.layout cfg h, e.next < 2 ^ 32)
    (hsc : SelfCurrent h) (hf : FreshLog h) (hm : MapperAgrees env h) : ResumableReuse cfg env h p :=
  resumableReuse_of_boundary cfg env h p hp units offsets hsc hf hm

/-- `C04_bytes_kept_resumable` with id re-use.  Spec side: after ANY number m of events consumed from a resumable
    position p the kept position is resumable again — with an EMPTY table cache, whatever the ids were announced for
    before it — and what is expected from it is exactly what the first m events did not deliver; same end position -/
theorem C15_bytes_kept_resumable_id_reuse (cfg : W.Cfg) (env : Env) (h : W.History) (p : W.Pos)
    (hr : ResumableReuse cfg env h p) (m : Nat) :
    ResumableReuse cfg env h (keptPos cfg h p m) ∧
    W.expected cfg h (keptPos cfg h p m) = (W.expected cfg h p).drop (doneCount cfg h p m) ∧
    W.endPos cfg h (keptPos cfg h p m) = W.endPos cfg h p :=
  resumable_next_reuse cfg env h p hr m

/-- `C04_bytes_next_attempt` with id re-use -/
theorem C15_bytes_next_attempt_id_reuse (cfg : W.Cfg) (env : Env) (h : W.History) (p : W.Pos)
    (hr : ResumableReuse cfg env h p) (a : Attempt) (e : Bool) (ht : EndsWith env e a.tail) :
    ∃ q n, (runAttempt cfg env h a p).pos = posOf q ∧
      (runAttempt cfg env h a p).accepted = ((W.expected cfg h p).take n).map (toTx env.ext) ∧
      ResumableReuse cfg env h q ∧
      W.expected cfg h q = (W.expected cfg h p).drop n ∧
      runClean cfg env h q = ⟨((W.expected cfg h p).drop n).map (toTx env.ext),
        ((W.expected cfg h p).drop n).map (toTx env.ext), posOf (W.endPos cfg h p), false, false⟩ ∧
      (runAttempt cfg env h a p).accepted ++ (runClean cfg env h q).accepted
        = (W.expected cfg h p).map (toTx env.ext) := by
  obtain ⟨m, _, hacc, hpos, _, _⟩ := C15_bytes_resume_pos_id_reuse cfg env h p hr.lands hr.wf hr.mapper a e ht
  obtain ⟨hr', hexp, hend⟩ := resumable_next_reuse cfg env h p hr m
  have hclean := clean_run_reuse cfg env h _ hr'
  rw [hexp, hend] at hclean
  refine ⟨keptPos cfg h p m, doneCount cfg h p m, hpos, hacc, hr', hexp, hclean, ?_⟩
  rw [hacc, hclean, ← List.map_append, List.take_append_drop]

/-- `C04_bytes_redelivery` with id re-use: a rejected transaction is delivered again — first — by the next attempt -/
theorem C15_bytes_redelivery_id_reuse (cfg : W.Cfg) (env : Env) (h : W.History) (p : W.Pos)
    (hr : ResumableReuse cfg env h p) (a : Attempt) (e : Bool) (ht : EndsWith env e a.tail) (tx : Transaction)
    (hc : (runAttempt cfg env h a p).calls = (runAttempt cfg env h a p).accepted ++ [tx]) :
    a.handler tx = false ∧
    ∃ q, (runAttempt cfg env h a p).pos = posOf q ∧ tx.now = posOf q ∧ ResumableReuse cfg env h q ∧
      (runClean cfg env h q).calls.head? = some tx := by
  obtain ⟨m, _, _, hpos, hcalls, _⟩ := C15_bytes_resume_pos_id_reuse cfg env h p hr.lands hr.wf hr.mapper a e ht
  obtain ⟨hr', hexp, _⟩ := resumable_next_reuse cfg env h p hr m
  have hclean := clean_run_reuse cfg env h _ hr'
  rcases hcalls with ⟨hc', _, _⟩ | ⟨t, ht1, ht2, ht3, hc', _⟩
  · rw [hc'] at hc
    have := congrArg List.length hc
    simp at this
  · rw [hc'] at hc
    have he := List.append_cancel_left hc
    simp only [List.cons.injEq, and_true] at he
    subst he
    refine ⟨ht3, keptPos cfg h p m, hpos, by simp [toTx, ht2], hr', ?_⟩
    rw [hclean, hexp]
    simp [List.head?_drop, ht1]

/-- `C04_bytes_attempts_exist` with id re-use: any finite sequence of attempts with quiet endings can be run -/
theorem C15_bytes_attempts_exist_id_reuse (cfg : W.Cfg) (env : Env) (h : W.History) (p : W.Pos)
    (hr : ResumableReuse cfg env h p) (atts : List Attempt) (hs : ∀ a ∈ atts, ∃ e, EndsWith env e a.tail) :
    ∃ acc p', Attempts cfg env h p atts acc p' :=
  attempts_exist_reuse cfg env h atts p hr hs

/-- `C04_bytes_exactly_once` with id re-use.  Over ANY finite sequence of attempts on one streamer — each with its own
    handler predicate, its own cut and its own quiet ending, each started (with an empty table cache) at the position
    the previous one kept — followed by one clean complete attempt, the accepted transactions are exactly the expected
    ones from the first start position: every committed transaction accepted exactly once, in order, each attributed
    to the table its rows change was written for; and the streamer ends at the expected end position. -/
theorem C15_bytes_exactly_once_id_reuse (cfg : W.Cfg) (env : Env) (h : W.History) (p : W.Pos)
    (hr : ResumableReuse cfg env h p) (atts : List Attempt) (hs : ∀ a ∈ atts, ∃ e, EndsWith env e a.tail)
    (acc : List Transaction) (p' : W.Pos) (hatt : Attempts cfg env h p atts acc p') :
    acc ++ (runClean cfg env h p').accepted = (W.expected cfg h p).map (toTx env.ext) ∧
    (runClean cfg env h p').calls = (runClean cfg env h p').accepted ∧
    (runClean cfg env h p').pos = posOf (W.endPos cfg h p) ∧
    (runClean cfg env h p').err = false ∧ (runClean cfg env h p').crash = false := by
  obtain ⟨hr', n, h1, h2, h3⟩ := attempts_prefix_reuse cfg env h p atts acc p' hatt hr hs
  rw [clean_run_reuse cfg env h p' hr', h1, h2, h3, ← List.map_append, List.take_append_drop]
  exact ⟨rfl, rfl, rfl, rfl, rfl⟩

/-- WHY `SelfCurrent`: as in `C04_bytes_unannounced_refuted`, the resume hypotheses at p alone (announcements counted
    from p) are NOT inherited by the position an attempt keeps -/
theorem C15_bytes_kept_unannounced_id_reuse_refuted :
    ¬ (∀ (cfg : W.Cfg) (env : Env) (h : W.History) (p q : W.Pos) (a : Attempt) (e : Bool), p ∈ W.boundaries cfg h →
        WFHistFromReuse cfg h p → FreshLog h → MapperAgrees env h → EndsWith env e a.tail →
        (runAttempt cfg env h a p).pos = posOf q → (runClean cfg env h q).err = false) :=
  fun hall => C04_bytes_unannounced_refuted fun cfg env h p q a e hp hwf hf hm ht hq =>
    hall cfg env h p q a e hp (wfHistFromReuse_of_wfHistFrom hwf) hf hm ht hq

/-! ### 3. the corollaries of Props/C02b and Props/C03b -/

/-- `C02_bytes_not_before_commit` with id re-use -/
theorem C02_bytes_not_before_commit_id_reuse (cfg : W.Cfg) (env : Env) (h : W.History) (p : W.Pos)
    (hl : Lands cfg h p) (hwf : WFFromReuse cfg h p) (hm : MapperAgrees env (unitsFrom cfg h p))
    (a : Attempt) (e : Bool) (ht : EndsWith env e a.tail) :
    ∃ n, n ≤ doneCount cfg h p (a.cut - preamble cfg h p) ∧
      (runAttempt cfg env h a p).calls = ((W.expected cfg h p).take n).map (toTx env.ext) ∧
      (runAttempt cfg env h a p).accepted <+: (runAttempt cfg env h a p).calls ∧
      (runAttempt cfg env h a p).crash = false ∧
      ((∀ tx, a.handler tx = true) →
        n = doneCount cfg h p (a.cut - preamble cfg h p) ∧
        (runAttempt cfg env h a p).accepted = (runAttempt cfg env h a p).calls ∧
        (runAttempt cfg env h a p).err = e ∧
        (runAttempt cfg env h a p).pos = posOf (keptPos cfg h p (a.cut - preamble cfg h p))) := by
  have hout : runAttempt cfg env h a p = _ := C15_bytes_outcome_id_reuse cfg env h p hl hwf hm a.handler a.cut e a.tail ht
  have hsplit := (expected_split cfg h p (a.cut - preamble cfg h p)).1
  rw [hout]
  by_cases hall : ∀ tx, a.handler tx = true
  · rw [specOut_acceptAll env.ext a.handler hall e]
    refine ⟨doneCount cfg h p (a.cut - preamble cfg h p), Nat.le_refl _, by rw [hsplit], List.prefix_refl _, rfl,
      fun _ => ⟨rfl, rfl, rfl, rfl⟩⟩
  · obtain ⟨n, h1, h2, h3, h4, _⟩ := specOut_calls env.ext a.handler e ((served cfg h p).take (a.cut - preamble cfg h p)) p
    have h1' : n ≤ doneCount cfg h p (a.cut - preamble cfg h p) := h1
    refine ⟨n, h1', ?_, h3, h4, fun hh => absurd hh hall⟩
    rw [h2, hsplit, List.take_take, Nat.min_eq_left h1']

/-- `C02_bytes_monotone` with id re-use -/
theorem C02_bytes_monotone_id_reuse (cfg : W.Cfg) (env : Env) (h : W.History) (p : W.Pos) (hl : Lands cfg h p)
    (hwf : WFFromReuse cfg h p) (hm : MapperAgrees env (unitsFrom cfg h p))
    (acc : Transaction → Bool) (k k' : Nat) (hk : k ≤ k') (e e' : Bool) (tail tail' : List Input)
    (ht : EndsWith env e tail) (ht' : EndsWith env e' tail') :
    (runAttempt cfg env h ⟨acc, k, tail⟩ p).calls <+: (runAttempt cfg env h ⟨acc, k', tail'⟩ p).calls := by
  have h1 : runAttempt cfg env h ⟨acc, k, tail⟩ p = _ := C15_bytes_outcome_id_reuse cfg env h p hl hwf hm acc k e tail ht
  have h2 : runAttempt cfg env h ⟨acc, k', tail'⟩ p = _ :=
    C15_bytes_outcome_id_reuse cfg env h p hl hwf hm acc k' e' tail' ht'
  rw [h1, h2]
  exact specOut_calls_mono env.ext acc e e' (served cfg h p) p _ _ (Nat.sub_le_sub_right hk _)

/-- `C02_bytes_grouping` with id re-use: timestamps and changes of the expected transactions are exactly the groups of
    the units served, in order, and the clean complete run calls the handler with exactly these -/
theorem C02_bytes_grouping_id_reuse (cfg : W.Cfg) (env : Env) (h : W.History) (p : W.Pos) (hl : Lands cfg h p)
    (hwf : WFFromReuse cfg h p) (hm : MapperAgrees env (unitsFrom cfg h p)) :
    (W.expected cfg h p).map content = (unitsFrom cfg h p).flatMap unitGroups ∧
    (runClean cfg env h p).calls.map txContent = ((unitsFrom cfg h p).flatMap unitGroups).map (groupTx env.ext) ∧
    (runClean cfg env h p).accepted = (runClean cfg env h p).calls ∧ (runClean cfg env h p).err = false := by
  have hrun : runClean cfg env h p = _ := C15_bytes_fidelity_id_reuse_resume_lands cfg env h p hl hwf hm
  have hg := expected_groups_lands cfg h p hl
  refine ⟨hg, ?_, by rw [hrun], by rw [hrun]⟩
  rw [hrun, ← hg]
  simp only [List.map_map]
  rfl

/-- `C03_bytes_labels` with id re-use -/
theorem C03_bytes_labels_id_reuse (cfg : W.Cfg) (env : Env) (h : W.History) (p : W.Pos) (hl : Lands cfg h p)
    (hwf : WFFromReuse cfg h p) (hm : MapperAgrees env (unitsFrom cfg h p)) :
    (runClean cfg env h p).calls = (W.expected cfg h p).map (toTx env.ext) ∧
    (∀ (i : Nat) (t : W.ETx), (W.expected cfg h p)[i]? = some t →
      ∃ tx : Transaction, (runClean cfg env h p).calls[i]? = some tx ∧ tx.now = posOf t.now ∧ tx.next = posOf t.next ∧
        tx.next.file = tx.now.file) ∧
    (∀ x : Transaction, (runClean cfg env h p).calls[0]? = some x →
      ∃ mid e rest, served cfg h p = mid ++ e :: rest ∧ isCommit e = true ∧ NoCommit mid ∧
        x.next = posOf ⟨e.file, e.next⟩ ∧
        ((NoRotate mid ∧ x.now = posOf p) ∨ (∃ r ∈ mid, ∃ f, r.tag = .rotateTo f ∧ x.now = posOf ⟨f, 4⟩))) ∧
    (∀ (i : Nat) (x y : Transaction), (runClean cfg env h p).calls[i]? = some x → (runClean cfg env h p).calls[i + 1]? = some y →
      ∃ pre ea mid eb rest, served cfg h p = pre ++ ea :: (mid ++ eb :: rest) ∧ isCommit ea = true ∧
        isCommit eb = true ∧ pre.countP isCommit = i ∧ NoCommit mid ∧
        x.next = posOf ⟨ea.file, ea.next⟩ ∧ y.next = posOf ⟨eb.file, eb.next⟩ ∧
        ((NoRotate mid ∧ y.now = x.next) ∨ (∃ r ∈ mid, ∃ f, r.tag = .rotateTo f ∧ y.now = posOf ⟨f, 4⟩))) := by
  have hrun : runClean cfg env h p = _ := C15_bytes_fidelity_id_reuse_resume_lands cfg env h p hl hwf hm
  have hcalls : (runClean cfg env h p).calls = (W.expected cfg h p).map (toTx env.ext) := by rw [hrun]
  obtain ⟨_, hfirst, hchain⟩ := GV.Props.C03b.C03_spec_chain (served cfg h p) p
  have hget : ∀ (i : Nat) (x : Transaction), (runClean cfg env h p).calls[i]? = some x →
      ∃ t, (W.expected cfg h p)[i]? = some t ∧ x = toTx env.ext t := by
    intro i x hx
    rw [hcalls, List.getElem?_map] at hx
    cases ht : (W.expected cfg h p)[i]? with
    | none => rw [ht] at hx; cases hx
    | some t => rw [ht] at hx; exact ⟨t, rfl, by simpa using hx.symm⟩
  refine ⟨hcalls, ?_, ?_, ?_⟩
  · intro i t hi
    have hc : (runClean cfg env h p).calls[i]? = some (toTx env.ext t) := by
      rw [hcalls, List.getElem?_map, hi]; rfl
    exact ⟨_, hc, rfl, rfl, calls_same_file env _ _ _ _ (List.mem_of_getElem? hc)⟩
  · intro x hx
    obtain ⟨t, ht, rfl⟩ := hget 0 x hx
    obtain ⟨mid, e, rest, h1, h2, h3, h4, h5⟩ := hfirst t ht
    refine ⟨mid, e, rest, h1, h2, h3, by simp [toTx, h4], ?_⟩
    rcases h5 with ⟨h6, h7⟩ | ⟨r, hr, f, h6, h7⟩
    · exact Or.inl ⟨h6, by simp [toTx, h7]⟩
    · exact Or.inr ⟨r, hr, f, h6, by simp [toTx, h7]⟩
  · intro i x y hx hy
    obtain ⟨a, ha, rfl⟩ := hget i x hx
    obtain ⟨b, hb, rfl⟩ := hget (i + 1) y hy
    obtain ⟨pre, ea, mid, eb, rest, h1, h2, h3, h4, h5, h6, h7, h8⟩ := hchain i a b ha hb
    refine ⟨pre, ea, mid, eb, rest, h1, h2, h3, h4, h5, by simp [toTx, h6], by simp [toTx, h7], ?_⟩
    rcases h8 with ⟨g1, g2⟩ | ⟨r, hr, f, g1, g2⟩
    · exact Or.inl ⟨g1, by simp [toTx, g2]⟩
    · exact Or.inr ⟨r, hr, f, g1, by simp [toTx, g2]⟩

/-- `C03_bytes_resume_at_label` with id re-use.  For EVERY i: the end label of the i-th delivered transaction is a
    position the master can serve from, satisfying all the hypotheses again; a clean complete run started there (empty
    table cache) delivers exactly the calls of the original run from the (i+1)-th on — identical contents, tables and
    labels, none skipped, none repeated — and ends at the same position without error or crash. -/
theorem C03_bytes_resume_at_label_id_reuse (cfg : W.Cfg) (env : Env) (h : W.History) (p : W.Pos)
    (hr : ResumableReuse cfg env h p) (i : Nat) (t : W.ETx) (hi : (W.expected cfg h p)[i]? = some t) :
    (runClean cfg env h p).calls[i]? = some (toTx env.ext t) ∧
    ResumableReuse cfg env h t.next ∧
    W.expected cfg h t.next = (W.expected cfg h p).drop (i + 1) ∧
    runClean cfg env h t.next = ⟨(runClean cfg env h p).calls.drop (i + 1), (runClean cfg env h p).calls.drop (i + 1),
      (runClean cfg env h p).pos, false, false⟩ ∧
    (runClean cfg env h p).calls = (runClean cfg env h p).calls.take (i + 1) ++ (runClean cfg env h t.next).calls := by
  have hrun : runClean cfg env h p = _ := clean_run_reuse cfg env h p hr
  obtain ⟨pre, e, rest, cs, h1, h2, h3, h4⟩ := expectedAux_get (served cfg h p) p i t hi
  obtain ⟨hk, hd⟩ := take_through_commit pre e rest cs p h2
  rw [← h1] at hk hd
  have hkept : keptPos cfg h p (pre.length + 1) = t.next := by rw [h4]; exact hk
  have hdone : doneCount cfg h p (pre.length + 1) = i + 1 := by rw [← h3]; exact hd
  obtain ⟨hr', hexp, hend⟩ := C15_bytes_kept_resumable_id_reuse cfg env h p hr (pre.length + 1)
  rw [hkept] at hr' hexp hend
  rw [hdone] at hexp
  have hrun' : runClean cfg env h t.next = _ := clean_run_reuse cfg env h t.next hr'
  refine ⟨by rw [hrun]; simp [hi], hr', hexp, ?_, ?_⟩
  · rw [hrun', hrun, hexp, hend, List.map_drop]
  · rw [hrun', hrun, hexp]
    simp only
    rw [← List.map_take, ← List.map_append, List.take_append_drop]

/-! ### 4. non-vacuity: `exReuse4` — id 108 is shop.orders in the first file; after the restart, in the second file, it
    is shop.users, then shop.orders again, then shop.users again -/

set_option exponentiation.threshold 512 in
theorem cOrders2_ok : RowsOK {} cOrders2 := by
  refine ⟨GV.Props.C15c.tOrders_ok, rfl, rfl, by decide, by decide, by decide, ?_, by decide⟩
  intro r hr
  simp only [cOrders2, List.mem_singleton] at hr
  subst hr
  constructor <;> intro hk
  · exact absurd rfl hk
  · refine ⟨rfl, ?_⟩
    intro p hp
    simp [cOrders2, cOrders, tOrders, colsU, W.selectPresent] at hp
    rcases hp with hp | hp <;> subst hp <;> simp [W.CellOK, W.intTypes]

set_option exponentiation.threshold 512 in
theorem cUsers2_ok : RowsOK {} cUsers2 := by
  refine ⟨GV.Props.C15c.tUsers_ok, rfl, rfl, by decide, by decide, by decide, ?_, by decide⟩
  intro r hr
  simp only [cUsers2, List.mem_singleton] at hr
  subst hr
  constructor <;> intro hk
  · exact absurd rfl hk
  · refine ⟨rfl, ?_⟩
    intro p hp
    simp [cUsers2, cUsers, tUsers, colsU, W.selectPresent] at hp
    rcases hp with hp | hp <;> subst hp <;> simp [W.CellOK, W.intTypes]

set_option exponentiation.threshold 512 in
theorem cUsers3_ok : RowsOK {} cUsers3 := by
  refine ⟨GV.Props.C15c.tUsers_ok, rfl, rfl, by decide, by decide, by decide, ?_, by decide⟩
  intro r hr
  simp only [cUsers3, List.mem_singleton] at hr
  subst hr
  constructor <;> intro hk
  · exact absurd rfl hk
  · refine ⟨rfl, ?_⟩
    intro p hp
    simp [cUsers3, cUsers, tUsers, colsU, W.selectPresent] at hp
    rcases hp with hp | hp <;> subst hp <;> simp [W.CellOK, W.intTypes]

theorem exReuse4Units : ∀ u ∈ exReuse4, UnitOK {} u := by
  intro u hu
  simp only [exReuse4, C15c.exReuse, List.cons_append, List.nil_append, List.mem_cons, List.not_mem_nil, or_false] at hu
  rcases hu with rfl | rfl | rfl | rfl | rfl
  · exact GV.Props.C15c.exReuseWF.units _ (by simp [C15c.exReuse])
  · exact GV.Props.C15c.exReuseWF.units _ (by simp [C15c.exReuse])
  · exact GV.Props.C15c.exReuseWF.units _ (by simp [C15c.exReuse])
  · refine ⟨by decide, ?_, trivial, by decide⟩
    intro c hc
    simp only [List.mem_singleton] at hc
    subst hc
    exact ⟨cOrders2_ok, by decide⟩
  · refine ⟨by decide, ?_, trivial, by decide⟩
    intro c hc
    simp only [List.mem_cons, List.not_mem_nil, or_false] at hc
    rcases hc with rfl | rfl
    · exact ⟨cUsers2_ok, by decide⟩
    · exact ⟨cUsers3_ok, by decide⟩

theorem exReuse4Offsets : ∀ e ∈ W.layout {} exReuse4, e.next < 2 ^ 32 := by decide

/-- every rows change carries the table last announced for id 108 within its own unit: four of them their own
    TABLE_MAP event, the fifth the one of the rows change before it -/
theorem exReuse4SelfCur : SelfCurrent exReuse4 := by
  intro u hu
  simp only [exReuse4, C15c.exReuse, List.cons_append, List.nil_append, List.mem_cons, List.not_mem_nil, or_false] at hu
  rcases hu with rfl | rfl | rfl | rfl | rfl
  · exact ⟨Or.inl rfl, trivial⟩
  · trivial
  · exact ⟨Or.inl rfl, trivial⟩
  · exact ⟨Or.inl rfl, trivial⟩
  · exact ⟨Or.inl rfl, Or.inr rfl, trivial⟩

theorem exReuse4Fresh : FreshLog exReuse4 := freshLog_of_nodup (by decide)

theorem exReuse4Mapper : MapperAgrees exEnvShop exReuse4 := by
  intro c hc
  simp [exReuse4, C15c.exReuse, histRows, unitRows, changeRows] at hc
  rcases hc with rfl | rfl | rfl | rfl | rfl <;> decide

theorem exHeadBoundary : exHead ∈ W.boundaries {} exReuse4 := List.mem_of_getElem? (i := 0) (by decide)
theorem exAfter1Boundary : exAfter1 ∈ W.boundaries {} exReuse4 := List.mem_of_getElem? (i := 2) (by decide)
theorem exHead2Boundary : exHead2 ∈ W.boundaries {} exReuse4 := List.mem_of_getElem? (i := 3) (by decide)
theorem exTx3Boundary : exTx3 ∈ W.boundaries {} exReuse4 := List.mem_of_getElem? (i := 5) (by decide)

/-- the whole history satisfies the head-of-log hypothesis with id re-use … -/
theorem exReuse4WF : WFHistReuse {} exReuse4 := ⟨exReuse4Units, curOK_self _ exReuse4SelfCur, exReuse4Offsets⟩

/-- … and `ResumableReuse` — hence `WFFromReuse` and, no file name being reused, `WFHistFromReuse` — at EVERY
    boundary; in particular at the head of the log, behind transaction 1, at the head of the second file and at the
    first event of transaction 3 inside the second file -/
theorem exReuse4Resumable (p : W.Pos) (hp : p ∈ W.boundaries {} exReuse4) : ResumableReuse {} exEnvShop exReuse4 p :=
  C15_resumableReuse_of_boundary {} exEnvShop exReuse4 p hp exReuse4Units exReuse4Offsets exReuse4SelfCur exReuse4Fresh
    exReuse4Mapper

theorem exReuse4From (p : W.Pos) (hp : p ∈ W.boundaries {} exReuse4) : WFHistFromReuse {} exReuse4 p :=
  ⟨(exReuse4Resumable p hp).wf, exReuse4Fresh _⟩

theorem exHead2From : WFHistFromReuse {} exReuse4 exHead2 := exReuse4From _ exHead2Boundary
theorem exTx3From : WFHistFromReuse {} exReuse4 exTx3 := exReuse4From _ exTx3Boundary

theorem exUnitsFromHead2 : unitsFrom {} exReuse4 exHead2
    = [.tx (asc "BEGIN") [.rows cUsers] (.xid 5) 200, .tx (asc "BEGIN") [.rows cOrders2] (.xid 6) 300,
       .tx (asc "BEGIN") [.rows cUsers2, .rows cUsers3] (.xid 7) 400] := by decide
theorem exUnitsFromTx3 : unitsFrom {} exReuse4 exTx3
    = [.tx (asc "BEGIN") [.rows cOrders2] (.xid 6) 300,
       .tx (asc "BEGIN") [.rows cUsers2, .rows cUsers3] (.xid 7) 400] := by decide

/-- `exReuse4` is OUTSIDE the domain of the earlier theorems, at both positions: from the head of the second file as
    from transaction 3 on, id 108 names two tables (`WFFrom.tables` fails, so `WFFrom`, `WFHistFrom` and `Resumable`
    do), and so it does in the whole history (`WFHist`, `WFHistRedef`) -/
theorem exReuse4_outside :
    ¬ WFFrom {} exReuse4 exHead2 ∧ ¬ WFHistFrom {} exReuse4 exHead2 ∧ ¬ Resumable {} exEnvShop exReuse4 exHead2 ∧
    ¬ WFFrom {} exReuse4 exTx3 ∧ ¬ WFHistFrom {} exReuse4 exTx3 ∧ ¬ Resumable {} exEnvShop exReuse4 exTx3 ∧
    ¬ WFHist {} exReuse4 ∧ ¬ WFHistRedef {} exReuse4 := by
  have h2 : ¬ WFFrom {} exReuse4 exHead2 := fun h =>
    absurd (h.tables cUsers (by rw [exUnitsFromHead2]; simp [histRows, unitRows, changeRows]) cOrders2
      (by rw [exUnitsFromHead2]; simp [histRows, unitRows, changeRows]) rfl) (by decide)
  have h3 : ¬ WFFrom {} exReuse4 exTx3 := fun h =>
    absurd (h.tables cOrders2 (by rw [exUnitsFromTx3]; simp [histRows, unitRows, changeRows]) cUsers2
      (by rw [exUnitsFromTx3]; simp [histRows, unitRows, changeRows]) rfl) (by decide)
  refine ⟨h2, fun h => h2 h.toWFFrom, fun h => h2 h.wf, h3, fun h => h3 h.toWFFrom, fun h => h3 h.wf, ?_, ?_⟩
  · exact fun h => absurd (h.tables cOrders (by simp [exReuse4, C15c.exReuse, histRows, unitRows, changeRows]) cUsers
      (by simp [exReuse4, C15c.exReuse, histRows, unitRows, changeRows]) rfl) (by decide)
  · exact fun h => absurd (h.agree cOrders (by simp [exReuse4, C15c.exReuse, histRows, unitRows, changeRows]) cUsers
      (by simp [exReuse4, C15c.exReuse, histRows, unitRows, changeRows]) rfl) (by decide)

/-- the resume theorem at the head of the second file and at transaction 3 -/
example : runClean {} exEnvShop exReuse4 exHead2
    = ⟨(W.expected {} exReuse4 exHead2).map (toTx exExt), (W.expected {} exReuse4 exHead2).map (toTx exExt),
       posOf (W.endPos {} exReuse4 exHead2), false, false⟩ :=
  C15_bytes_fidelity_id_reuse_resume {} exEnvShop exReuse4 exHead2 exHead2Boundary exHead2From exReuse4Mapper
example : runClean {} exEnvShop exReuse4 exTx3
    = ⟨(W.expected {} exReuse4 exTx3).map (toTx exExt), (W.expected {} exReuse4 exTx3).map (toTx exExt),
       posOf (W.endPos {} exReuse4 exTx3), false, false⟩ :=
  C15_bytes_fidelity_id_reuse_resume {} exEnvShop exReuse4 exTx3 exTx3Boundary exTx3From exReuse4Mapper
example : (W.expected {} exReuse4 exHead).length = 4 ∧ (W.expected {} exReuse4 exHead2).length = 3 ∧
    (W.expected {} exReuse4 exTx3).length = 2 := by decide

set_option maxRecDepth 100000 in
/-- kernel-computed: the replica resumed at the head of the SECOND file (it never saw id 108 announced for
    shop.orders in the first file) delivers, without error, shop.users rows with the columns uid, age (INT, TINYINT),
    then shop.orders rows (order_id BIGINT, amount INT) — id 108 announced for shop.orders after it was cached for
    shop.users —, then two shop.users rows changes again, the second one without a TABLE_MAP event of its own; the
    replica resumed at transaction 3 the last two of these; both end at the end of the log.  An instance of
    `C15_bytes_fidelity_id_reuse_resume` (the values are checked by the evaluator below). -/
theorem C15_bytes_id_reuse_resume_example :
    attributed (runClean {} exEnvShop exReuse4 exHead2).calls
      = [⟨⟨asc "bin.000002", 4⟩, ⟨asc "bin.000002", 272⟩, [(asc "shop", asc "users")],
           [[[(asc "uid", 3), (asc "age", 1)]]]⟩,
         ⟨⟨asc "bin.000002", 272⟩, ⟨asc "bin.000002", 427⟩, [(asc "shop", asc "orders")],
           [[[(asc "order_id", 8), (asc "amount", 3)]]]⟩,
         ⟨⟨asc "bin.000002", 427⟩, ⟨asc "bin.000002", 611⟩, [(asc "shop", asc "users"), (asc "shop", asc "users")],
           [[[(asc "uid", 3), (asc "age", 1)]], [[(asc "uid", 3), (asc "age", 1)]]]⟩] ∧
    (runClean {} exEnvShop exReuse4 exHead2).err = false ∧
    (runClean {} exEnvShop exReuse4 exHead2).pos = ⟨asc "bin.000002", 611⟩ ∧
    attributed (runClean {} exEnvShop exReuse4 exTx3).calls
      = (attributed (runClean {} exEnvShop exReuse4 exHead2).calls).drop 1 ∧
    (runClean {} exEnvShop exReuse4 exTx3).err = false ∧
    (runClean {} exEnvShop exReuse4 exTx3).pos = ⟨asc "bin.000002", 611⟩ :=
  ⟨by decide, by decide, by decide, by decide, by decide, by decide⟩

-- the values (evaluator): uid / age of shop.users, order_id / amount of shop.orders
#guard valuesOf (runClean {} exEnvShop exReuse4 exHead2).calls
  == [[[[.value (asc "42"), .value (asc "33")]]], [[[.value (asc "7002"), .value (asc "99")]]],
      [[[.value (asc "43"), .value (asc "21")]], [[.value (asc "44"), .value (asc "50")]]]]
#guard valuesOf (runClean {} exEnvShop exReuse4 exTx3).calls
  == [[[[.value (asc "7002"), .value (asc "99")]]],
      [[[.value (asc "43"), .value (asc "21")]], [[.value (asc "44"), .value (asc "50")]]]]
-- … the full outcomes, at every boundary, in all 8 configurations (evaluator)
#guard GV.Props.C15b.allCfgs.all fun cfg => (W.boundaries cfg exReuse4).all fun p =>
  runClean cfg exEnvShop exReuse4 p
    == ⟨(W.expected cfg exReuse4 p).map (toTx exExt), (W.expected cfg exReuse4 p).map (toTx exExt),
        posOf (W.endPos cfg exReuse4 p), false, false⟩

/-! two attempts: the first one is cut behind transaction 1 (in the first file, id 108 = shop.orders) and keeps
    `exAfter1`; the second one resumes there with an empty table cache, crosses the restart and is served id 108 for
    shop.users, shop.orders, shop.users -/

example := C15_bytes_outcome_id_reuse {} exEnvShop exReuse4 exHead (exReuse4Resumable _ exHeadBoundary).lands
  (exReuse4Resumable _ exHeadBoundary).wf (exReuse4Resumable _ exHeadBoundary).mapper (fun _ => true) 6 false
  [.cancelled] (endsWith_cancelled _ _)
example := C15_bytes_kept_resumable_id_reuse {} exEnvShop exReuse4 exHead (exReuse4Resumable _ exHeadBoundary) 5
example := C03_bytes_resume_at_label_id_reuse {} exEnvShop exReuse4 exHead (exReuse4Resumable _ exHeadBoundary) 0

set_option maxRecDepth 100000 in
/-- the first attempt (kernel-computed): transaction 1 accepted — attributed to shop.orders —, no error, position kept:
    behind it, in the first file -/
theorem exFirstAttempt :
    (runAttempt {} exEnvShop exReuse4 exCutAfter1 exHead).pos = posOf exAfter1 ∧
    (runAttempt {} exEnvShop exReuse4 exCutAfter1 exHead).err = false ∧
    attributed (runAttempt {} exEnvShop exReuse4 exCutAfter1 exHead).accepted
      = [⟨⟨W.firstFile, 4⟩, ⟨W.firstFile, 280⟩, [(asc "shop", asc "orders")],
           [[[(asc "order_id", 8), (asc "amount", 3)]]]⟩] := by
  decide

/-- the two attempts as an instance of `Attempts` … -/
theorem exTwoAttempts : Attempts {} exEnvShop exReuse4 exHead [exCutAfter1]
    ((runAttempt {} exEnvShop exReuse4 exCutAfter1 exHead).accepted ++ []) exAfter1 :=
  .cons exCutAfter1 exHead exAfter1 [] [] exAfter1 exFirstAttempt.1 (.nil exAfter1)

/-- … and of `C15_bytes_exactly_once_id_reuse`: what the first attempt accepted followed by what the second (clean)
    attempt from `exAfter1` accepts is exactly the four expected transactions; the second attempt ends at the end of
    the log without error -/
theorem C15_bytes_exactly_once_id_reuse_example :
    (runAttempt {} exEnvShop exReuse4 exCutAfter1 exHead).accepted ++ [] ++ (runClean {} exEnvShop exReuse4 exAfter1).accepted
      = (W.expected {} exReuse4 exHead).map (toTx exExt) ∧
    (runClean {} exEnvShop exReuse4 exAfter1).calls = (runClean {} exEnvShop exReuse4 exAfter1).accepted ∧
    (runClean {} exEnvShop exReuse4 exAfter1).pos = posOf (W.endPos {} exReuse4 exHead) ∧
    (runClean {} exEnvShop exReuse4 exAfter1).err = false ∧ (runClean {} exEnvShop exReuse4 exAfter1).crash = false :=
  C15_bytes_exactly_once_id_reuse {} exEnvShop exReuse4 exHead (exReuse4Resumable _ exHeadBoundary) [exCutAfter1]
    (fun a ha => ⟨false, by
      simp only [List.mem_singleton] at ha
      subst ha
      exact endsWith_cancelled _ _⟩)
    _ exAfter1 exTwoAttempts

set_option maxRecDepth 100000 in
/-- the second attempt (kernel-computed): started in the FIRST file behind transaction 1, it crosses the restart (its
    first transaction is labelled with the head of the second file) and delivers transactions 2, 3, 4 attributed to
    shop.users, shop.orders, shop.users — exactly what the replica resumed at the head of the second file delivers -/
theorem exSecondAttempt :
    attributed (runClean {} exEnvShop exReuse4 exAfter1).calls = attributed (runClean {} exEnvShop exReuse4 exHead2).calls ∧
    ((runClean {} exEnvShop exReuse4 exAfter1).calls.map (·.now)).head? = some ⟨asc "bin.000002", 4⟩ ∧
    (runClean {} exEnvShop exReuse4 exAfter1).pos = ⟨asc "bin.000002", 611⟩ :=
  ⟨by decide, by decide, by decide⟩

-- … and computed in full (evaluator)
#guard (runAttempt {} exEnvShop exReuse4 exCutAfter1 exHead).accepted ++ (runClean {} exEnvShop exReuse4 exAfter1).accepted
    == (W.expected {} exReuse4 exHead).map (toTx exExt)
#guard valuesOf ((runAttempt {} exEnvShop exReuse4 exCutAfter1 exHead).accepted
      ++ (runClean {} exEnvShop exReuse4 exAfter1).accepted)
  == [[[[.value (asc "7001"), .value (asc "250")]]], [[[.value (asc "42"), .value (asc "33")]]],
      [[[.value (asc "7002"), .value (asc "99")]]],
      [[[.value (asc "43"), .value (asc "21")]], [[.value (asc "44"), .value (asc "50")]]]]

/-- a rejecting handler in between: three failed attempts (cut behind transaction 1; a handler rejecting the
    transaction committed at timestamp 300 — transaction 3, shop.orders under the re-used id — then an invalid packet
    after 3 packets), then a clean one: everything accepted exactly once -/
example : ∃ acc p', Attempts {} exEnvShop exReuse4 exHead
      [exCutAfter1, ⟨fun tx => !(tx.timestamp == 300), 40, [.closed]⟩, ⟨fun _ => true, 3, [.event [1, 2, 3]]⟩] acc p' ∧
    acc ++ (runClean {} exEnvShop exReuse4 p').accepted = (W.expected {} exReuse4 exHead).map (toTx exExt) := by
  have hends : ∀ a ∈ [exCutAfter1, ⟨fun tx => !(tx.timestamp == 300), 40, [.closed]⟩,
      (⟨fun _ => true, 3, [.event [1, 2, 3]]⟩ : Attempt)], ∃ e, EndsWith exEnvShop e a.tail := by
    intro a ha
    simp only [List.mem_cons, List.not_mem_nil, or_false] at ha
    rcases ha with rfl | rfl | rfl
    · exact ⟨false, endsWith_cancelled _ _⟩
    · exact ⟨false, endsWith_closed _ _⟩
    · exact ⟨true, endsWith_invalid _ _ _ (by decide)⟩
  obtain ⟨acc, p', hatt⟩ := C15_bytes_attempts_exist_id_reuse {} exEnvShop exReuse4 exHead
    (exReuse4Resumable _ exHeadBoundary) _ hends
  exact ⟨acc, p', hatt, (C15_bytes_exactly_once_id_reuse {} exEnvShop exReuse4 exHead
    (exReuse4Resumable _ exHeadBoundary) _ hends acc p' hatt).1⟩

/-! the corollaries, instantiated at the head of the second file -/

example := C02_bytes_not_before_commit_id_reuse {} exEnvShop exReuse4 exHead2 (exReuse4Resumable _ exHead2Boundary).lands
  (exReuse4Resumable _ exHead2Boundary).wf (exReuse4Resumable _ exHead2Boundary).mapper
  ⟨fun tx => !(tx.timestamp == 300), 9, [.cancelled]⟩ false (endsWith_cancelled _ _)
example := C02_bytes_grouping_id_reuse {} exEnvShop exReuse4 exHead2 (exReuse4Resumable _ exHead2Boundary).lands
  (exReuse4Resumable _ exHead2Boundary).wf (exReuse4Resumable _ exHead2Boundary).mapper
example := C03_bytes_labels_id_reuse {} exEnvShop exReuse4 exHead2 (exReuse4Resumable _ exHead2Boundary).lands
  (exReuse4Resumable _ exHead2Boundary).wf (exReuse4Resumable _ exHead2Boundary).mapper
example : (unitsFrom {} exReuse4 exHead2).flatMap unitGroups
    = [(200, [.rows cUsers]), (300, [.rows cOrders2]), (400, [.rows cUsers2, .rows cUsers3])] := by
  rw [exUnitsFromHead2]; rfl

end GV.Props.C15d
