import GV.Props.C02b
import GV.Lemmas.C02c
/-
  C02 at the BYTE level, the dimension the test driver (GV/Driver/Hist.lean, `noise=`) adds OUTSIDE the Spec
  (GV/Spec/History.lean): "ignorable events never alter the grouping" for ignorable packets ANYWHERE in the stream, in
  particular INSIDE a transaction (between BEGIN and the commit event, between a TABLE_MAP event and its ROWS event,
  right before the XID).  The Spec grammar places ignorable things between units only (`C02_bytes_ignorable`,
  Props/C02b); real masters also send USER_VAR / XA_PREPARE events, heartbeats on an idle connection and
  `SAVEPOINT x` / `RELEASE SAVEPOINT x` query events inside transactions.

  Property theorems and non-vacuity examples only; definitions and helper lemmas are in GV/Lemmas/C02c.lean (namespace
  GV.C02c).  Vocabulary, on top of Props/C04b (EndsWith, served, preamble, specOut, runClean, Resumable), Props/C01c, C01d
  (toTx, posOf, Lands, WFFrom, unitsFrom, MapperAgrees, handledTypes), Props/C01 (Ready cfg st: st.format = fmtOf cfg) and
  Lemmas/C09c (PInv):

    NoOp env P b          b is a no-op in the states satisfying P:  ∀ st, P st → stepEvent env st b = .cont st  (the
                          parser keeps reading in the SAME state: position, open transaction, autocommit, format, cache)
    stateAfter env acc st l   the state after the packets l, every call accepted by acc (none: the parser returned before)
    Keeps env P b         the packet b keeps P: from a state satisfying P, the state the parser goes on with after b
                          (`.cont st'`, or `.deliver _ a` once the handler has accepted) satisfies P
    Pkt                   a packet of a woven stream: `.orig b` (of the original stream) or `.noise b` (woven in)
    flat w / origs w / noises w    the woven stream as the parser gets it / its original packets / the packets woven in
    origCount w k         the number of original packets among the first k packets of the woven stream
    Woven N xs ys         the same as a relation: ys is xs with packets satisfying N inserted anywhere (`C02_noop_woven`)
    setNext nz pred       the driver's rewriting of next_position (bytes 13..16 of nz := those of pred)
    weaveAfter / driverWeave pre base noise packets    the driver's weave: the first `pre` packets untouched, then behind
                          the packet numbered i the noise packets registered for i, each through `setNext`
    FmtSeen st            st.format is non-zero and its checksum algorithm is 0 (off), 1 (CRC32) or 255 (undefined)
    NoiseKind cfg b       b is (unhandled) a valid event whose type code is not in `handledTypes`, or (unknownStmt) a QUERY
                          event of the Spec's writers, any header fields, any next_position override, known status
                          variables, a checksum iff cfg.crc, statement category `DSpec.unknownCat`

  RESULTS
    C02_noop_insertion        MODEL level, ONE insertion: if P holds in st, every packet of `pre` keeps P and b is a no-op
                              under P, then pre ++ [b] ++ post and pre ++ post have the same outcome — every handler,
                              any `post : List Input`.  `C02_noop_insertion_invariant`: … for a P every packet keeps
    C02_noop_insertion_reach  … by reachability: b need only be a no-op in the state reached after `pre` (`stateAfter`)
    C02_noop_weave / C02_noop_woven   ANY number of insertions (tagged list / relation)
    C02_noop_characterisation (a) a valid event of a type the parser does not dispatch on is a no-op EXACTLY in the states
                              with `FmtSeen` (elsewhere the parser stops with an error); nothing else is asked: body,
                              flags, timestamp, next_position, checksum or not.  SIDE CONDITION ON THE CHECKSUM: none
                              beyond `isValid` — a valid event has ≥ 19 bytes, `stripChecksum56` only needs 4, and the
                              type byte (offset 4) survives the stripping; so even a 19-byte event without checksum is
                              skipped under a CRC32 format (the "19 + 4" guess is not needed — checked by #eval first).
                              (b) an unknown-category QUERY event of the Spec writer is a no-op in EVERY state that has
                              seen `fmtOf cfg` — open transaction or not
    C02_noop_writer_events    `W.event` with any type code < 256, any override, with/without checksum is valid and shows
                              its type: with (a), every such event of an unhandled type is noise
    C02_noop_next_position_irrelevant   `setNext` keeps validity and type of ANY packet, is "another override" on writer
                              packets, and keeps `NoiseKind`
    C02_bytes_noise_run       against the Spec master: no-op packets woven into (a prefix of) the dump anywhere behind
                              its second packet give the same outcome as the dump itself — ANY handler, ANY continuation
    C02_bytes_noise           … hence, with `C04_bytes_outcome`: every handler, every cut k of the WOVEN stream (it may
                              fall on a noise packet: `origCount w k` original packets arrived), every quiet ending:
                              the whole outcome is `specOut` on the laid-out events that arrived — grouping, labels,
                              kept position, flags
    C02_bytes_noise_clean     accept-all complete run: calls = accepted = expected, end position, no error; and the
                              grouping of `C02_bytes_grouping`
    C02_bytes_noise_driver    the driver's own weave (`driverWeave (preamble …) base noise`) of `NoiseKind` packets
  PARTIAL / REFUTED
    C02_bytes_noise_before_fde_refuted   the natural "anywhere after the first `preamble` packets" is FALSE at a file head: there
                              preamble = 1 (the file's FORMAT_DESCRIPTION event is a laid-out event), a packet woven in
                              behind the artificial ROTATE meets a parser WITHOUT format, which stops with an error.
                              The true threshold is the second packet of the dump (always a FORMAT_DESCRIPTION event):
                              `noises (w.take 2) = []`.  The driver respects it (`driverWeave_head`: it weaves BEHIND
                              laid-out events only).
    C02_unknown_stmt_crc_mismatch_refuted   (b) needs "a checksum iff the format announces one": a QUERY event with an
                              empty statement and NO checksum under a CRC32 format loses its last 4 bytes and is an error
    C02_rollback_to_is_not_noise_refuted    `ROLLBACK TO sp1` inside a transaction is NOT ignorable for this parser: the
                              first keyword makes it a ROLLBACK boundary; the buffered changes are dropped, an empty
                              transaction is delivered, the rest of the transaction is delivered in autocommit mode.
                              A known limit of the parser (statement-format savepoint rollback), documented, not fixed.
  Checked by evaluation before proving (scratch files under /tmp/c02c): `exHistS` (8 units, 21 packets) from exP0 and exP1,
  11 noise packets (types 27, 14, 38, 3, 33; SAVEPOINT, RELEASE SAVEPOINT, the empty statement, FLUSH, XA START, GRANT)
  inserted at every index ≥ 2 — between BEGIN and its rows, between a TABLE_MAP event and its ROWS event, right before
  the commit event included —, crc on/off (noise checksummed or not, matching the stream or not), v1/v2 rows, 4/6-byte
  ids, handlers accepting everything / rejecting the 2nd / the 4th call, 5 cuts around the insertion, 2 endings:
  0 mismatches in 38 000 runs except the crc-mismatched empty statement (271 of 6 600, hence the refutation above); a
  19- and a 21-byte event of type 27 without checksum under crc: 0 of 1 200; a heartbeat at index 1 from the file head:
  15 of 630 (hence the other refutation); the exact statement of `C02_bytes_noise` on the driver's weave with 1–2 noise
  packets behind EVERY packet from exP0, exP1 and the head of the second file, every cut, 4 handlers, 4 endings:
  0 mismatches in 3 184 runs.
-/
namespace GV.Props.C02c
open GV GV.M GV.Props.C01 GV.Props.C01b GV.C01c GV.Props.C01c GV.C01d GV.Props.C01d GV.C04b GV.Props.C04b GV.C02b
  GV.Props.C02b GV.C09c GV.C02c

/-- the vocabulary, pinned -/
theorem C02_noise_vocabulary (env : Env) (P : PState → Prop) (cfg : W.Cfg) (b a : Bytes) (w : List Pkt) (k pre base : Nat)
    (noise : List (Nat × Bytes)) (bs : List Bytes) (st : PState) :
    (NoOp env P b ↔ ∀ st, P st → stepEvent env st b = .cont st) ∧
    (Keeps env P b ↔ ∀ st, P st → (∀ st', stepEvent env st b = .cont st' → P st') ∧
      (∀ tx acc, stepEvent env st b = .deliver tx acc → P acc)) ∧
    (∀ acc, stateAfter env acc st [] = some st ∧ stateAfter env acc st (b :: bs) =
      match stepEvent env st b with
      | .cont st' => stateAfter env acc st' bs
      | .stop _ _ => none
      | .deliver tx a' => if acc tx then stateAfter env acc a' bs else none) ∧
    flat (.orig b :: w) = b :: flat w ∧ flat (.noise b :: w) = b :: flat w ∧ flat [] = [] ∧
    origs (.orig b :: w) = b :: origs w ∧ origs (.noise b :: w) = origs w ∧ origs [] = [] ∧
    noises (.orig b :: w) = noises w ∧ noises (.noise b :: w) = b :: noises w ∧ noises [] = [] ∧
    origCount w k = (origs (w.take k)).length ∧
    setNext b a = (if b.length < 19 || a.length < 19 then b else b.take 13 ++ (a.drop 13).take 4 ++ b.drop 17) ∧
    weaveAfter noise k (a :: bs)
      = .orig a :: ((noise.filter (·.1 == k)).map fun nz => Pkt.noise (setNext nz.2 a)) ++ weaveAfter noise (k + 1) bs ∧
    weaveAfter noise k [] = [] ∧
    driverWeave pre base noise bs = (bs.take pre).map Pkt.orig ++ weaveAfter noise base (bs.drop pre) ∧
    (FmtSeen st ↔ st.format.isZero = false ∧
      (st.format.checksumAlg = 0 ∨ st.format.checksumAlg = 1 ∨ st.format.checksumAlg = 255)) ∧
    (Ready cfg st → FmtSeen st) :=
  ⟨Iff.rfl, Iff.rfl, fun _ => ⟨rfl, rfl⟩, rfl, rfl, rfl, rfl, rfl, rfl, rfl, rfl, rfl, rfl, rfl, rfl, rfl, rfl, Iff.rfl,
   fmtSeen_of_ready⟩

/-! ### 1. inserting no-ops (model level) -/

/-- C02, ONE no-op, ANYWHERE.  If P holds in the start state, every packet before the insertion point keeps P and the
    packet b is a no-op in the states satisfying P, then inserting b changes nothing: same calls, same accepted
    transactions, same kept position, same flags — for every handler and whatever follows (`post` is any input list:
    more packets, the closed channel, a cancellation). -/
theorem C02_noop_insertion (env : Env) (P : PState → Prop) (acc : Transaction → Bool) (st : PState) (pre : List Bytes)
    (b : Bytes) (post : List Input) (hP : P st) (hpre : ∀ x ∈ pre, Keeps env P x) (hb : NoOp env P b) :
    parseEvents env acc st (pre.map Input.event ++ Input.event b :: post)
      = parseEvents env acc st (pre.map Input.event ++ post) :=
  noop_insert env P acc b hb post pre st hP hpre

/-- … in particular when P is an invariant of the parser — kept by `stepEvent` on EVERY packet: then the no-op may be
    inserted into any input whatsoever, at any position -/
theorem C02_noop_insertion_invariant (env : Env) (P : PState → Prop)
    (hinv : ∀ st b' st', P st → stepEvent env st b' = .cont st' → P st')
    (hinv' : ∀ st b' tx a, P st → stepEvent env st b' = .deliver tx a → P a)
    (acc : Transaction → Bool) (st : PState) (pre : List Bytes) (b : Bytes) (post : List Input) (hP : P st)
    (hb : NoOp env P b) :
    parseEvents env acc st (pre.map Input.event ++ Input.event b :: post)
      = parseEvents env acc st (pre.map Input.event ++ post) :=
  noop_insert env P acc b hb post pre st hP
    (fun x _ s hs => ⟨fun s' h => hinv s x s' hs h, fun tx a h => hinv' s x tx a hs h⟩)

/-- … by reachability, without any invariant: b need only be a no-op in THE state the parser has reached after `pre`
    with the handler `acc` (`stateAfter`; if the parser returned before the end of `pre` nothing is asked) -/
theorem C02_noop_insertion_reach (env : Env) (acc : Transaction → Bool) (st : PState) (pre : List Bytes) (b : Bytes)
    (post : List Input) (hb : ∀ st', stateAfter env acc st pre = some st' → stepEvent env st' b = .cont st') :
    parseEvents env acc st (pre.map Input.event ++ Input.event b :: post)
      = parseEvents env acc st (pre.map Input.event ++ post) :=
  noop_insert_reach env acc b post pre st hb

/-- C02, ANY finite set of insertions: a woven stream all of whose original packets keep P and all of whose noise
    packets are no-ops under P has the outcome of its original packets -/
theorem C02_noop_weave (env : Env) (P : PState → Prop) (acc : Transaction → Bool) (st : PState) (w : List Pkt)
    (tail : List Input) (hP : P st) (horig : ∀ x ∈ origs w, Keeps env P x) (hnoise : ∀ b ∈ noises w, NoOp env P b) :
    parseEvents env acc st ((flat w).map Input.event ++ tail)
      = parseEvents env acc st ((origs w).map Input.event ++ tail) :=
  weave_run env P acc tail w st hP horig hnoise

/-- … the same by induction on the weave relation -/
theorem C02_noop_woven (env : Env) (P : PState → Prop) (N : Bytes → Prop) (acc : Transaction → Bool) (st : PState)
    (xs ys : List Bytes) (tail : List Input) (hP : P st) (hxs : ∀ x ∈ xs, Keeps env P x)
    (hN : ∀ b, N b → NoOp env P b) (hw : Woven N xs ys) :
    parseEvents env acc st (ys.map Input.event ++ tail) = parseEvents env acc st (xs.map Input.event ++ tail) := by
  obtain ⟨w, rfl, rfl, hn⟩ := (woven_iff N xs ys).mp hw
  exact weave_run env P acc tail w st hP hxs (fun b hb => hN b (hn b hb))

/-! ### 2. which packets are no-ops -/

/-- C02, the ignorable packets.
    (a) ANY valid event whose type code is not one `classify` dispatches on (`handledTypes`): from a state that has a
        usable format (`FmtSeen`) the parser keeps reading in the same state; from any other state it stops with an
        error.  Nothing is asked of the body, the flags, the timestamp, next_position, or of whether the event carries a
        checksum: the only side condition is `isValid` itself.
    (b) a QUERY event of the Spec's writers whose statement category is unknown to the parser, with known status
        variables and a checksum iff the format announces one — any header fields, ANY next_position — from EVERY state
        that has seen the format: whatever its position, its open transaction, its autocommit flag, its table cache. -/
theorem C02_noop_characterisation (env : Env) :
    (∀ (b : Bytes) (t : Nat), isValid b = true → evType b = .ok t → t ∉ handledTypes →
      ∀ st, (FmtSeen st → stepEvent env st b = .cont st) ∧ (¬ FmtSeen st → stepEvent env st b = .stop true false)) ∧
    (∀ (cfg : W.Cfg) (crc : Option Bytes) (m : W.EvMeta) (start : Nat) (nx : Option Nat) (vars : List W.StatusVar)
      (db sql : Bytes), crcOK cfg crc → (∀ v ∈ vars, Props.C16.KnownVar v) →
      (vars.flatMap W.statusVarBytes).length < 65536 → db.length < 256 →
      19 + (W.queryBody 1 0 0 vars db sql).length + Props.C16.crcLen crc < 2 ^ 32 →
      DSpec.unknownCat (statementCategory sql) →
      ∀ st, Ready cfg st → stepEvent env st (W.event crc m 2 start (W.queryBody 1 0 0 vars db sql) nx).1 = .cont st) ∧
    (∀ (cfg : W.Cfg) (b : Bytes), NoiseKind cfg b → NoOp env (Ready cfg) b) := by
  refine ⟨?_, ?_, fun cfg b h => noiseKind_noop env h⟩
  · intro b t hv ht hty st
    refine ⟨fun hf => ?_, fun hf => ?_⟩
    · simp only [stepEvent, classify_unhandled env st b t hv ht hty hf, stepD]
    · simp only [stepEvent, classify_unhandled_nofmt env st b t hv ht hty hf, stepD]
  · intro cfg crc m start nx vars db sql hc hk hlen hdb htot hcat st hr
    exact noiseKind_noop env (.unknownStmt crc hc m start nx vars db sql hk hlen hdb htot hcat) st hr

/-- the events of the Spec's event writer: any type code below 256, any body, any header fields, any next_position
    override, with or without checksum — valid, and of the type written.  With (a): if the type is not handled, noise. -/
theorem C02_noop_writer_events (cfg : W.Cfg) (crc : Option Bytes) (m : W.EvMeta) (typ start : Nat) (body : Bytes)
    (nx : Option Nat) (ht : typ < 256) (htot : 19 + body.length + Props.C16.crcLen crc < 2 ^ 32) :
    isValid (W.event crc m typ start body nx).1 = true ∧ evType (W.event crc m typ start body nx).1 = .ok typ ∧
    (typ ∉ handledTypes → NoiseKind cfg (W.event crc m typ start body nx).1) := by
  obtain ⟨h1, h2⟩ := event_valid_type crc m typ start body nx ht htot
  exact ⟨h1, h2, fun hty => .unhandled _ typ h1 h2 hty⟩

/-- the header field next_position is irrelevant: rewriting it (as the driver does) changes neither validity nor type
    of ANY packet; on a packet of the Spec's writer it is writing the same event with another override; so both kinds
    of noise stay noise -/
theorem C02_noop_next_position_irrelevant (cfg : W.Cfg) (nz pred : Bytes) :
    isValid (setNext nz pred) = isValid nz ∧ evType (setNext nz pred) = evType nz ∧
    (∀ (crc : Option Bytes) (m : W.EvMeta) (typ start : Nat) (body : Bytes) (nx : Option Nat), 19 ≤ pred.length →
      setNext (W.event crc m typ start body nx).1 pred
        = (W.event crc m typ start body (some (Bytes.le ((pred.drop 13).take 4)))).1) ∧
    (NoiseKind cfg nz → NoiseKind cfg (setNext nz pred)) :=
  ⟨(setNext_valid_type nz pred).1, (setNext_valid_type nz pred).2,
   fun crc m typ start body nx hp => setNext_event crc m typ start body nx pred hp, fun h => noiseKind_setNext h pred⟩

/-! ### 3. against the Spec master -/

/-- every packet the Spec master serves behind the first two keeps the invariant `PInv` (format seen, table cache made of
    served tables); the first two are the artificial ROTATE (skipped) and a FORMAT_DESCRIPTION event -/
theorem C02_bytes_served_keeps (cfg : W.Cfg) (env : Env) (h : W.History) (p : W.Pos) (hl : Lands cfg h p)
    (hwf : WFFrom cfg h p) (hm : MapperAgrees env (unitsFrom cfg h p)) :
    ∃ (r f : Bytes) (l : List Bytes) (sv : List W.RowsChange), W.serve cfg h p = r :: f :: l ∧
      stepEvent env (PState.init (posOf p)) r = .cont (PState.init (posOf p)) ∧
      stepEvent env (PState.init (posOf p)) f = .cont { PState.init (posOf p) with format := fmtOf cfg } ∧
      PInv cfg sv { PState.init (posOf p) with format := fmtOf cfg } ∧ (∀ st, PInv cfg sv st → Ready cfg st) ∧
      ∀ x ∈ l, Keeps env (PInv cfg sv) x := by
  obtain ⟨r, f, l, sv, h1, h2, h3, h4, h5⟩ := serve_keeps cfg env h p hwf hl hm
  exact ⟨r, f, l, sv, h1, h2, h3, h4, fun st hst => hst.fmt, h5⟩

/-- C02, noise in the served stream — the run.  `w` weaves packets that are no-ops once `fmtOf cfg` has been seen into
    the first m packets of the dump for p, none of them before the dump's second packet (its FORMAT_DESCRIPTION event).
    Then the parser fed the woven stream does exactly what it does fed those m packets: same outcome for EVERY handler
    and EVERY continuation `tail` of the input (quiet or not). -/
theorem C02_bytes_noise_run (cfg : W.Cfg) (env : Env) (h : W.History) (p : W.Pos) (hl : Lands cfg h p)
    (hwf : WFFrom cfg h p) (hm : MapperAgrees env (unitsFrom cfg h p))
    (w : List Pkt) (m : Nat) (hw : origs w = (W.serve cfg h p).take m) (hhead : noises (w.take 2) = [])
    (hn : ∀ b ∈ noises w, NoOp env (Ready cfg) b) (acc : Transaction → Bool) (tail : List Input) :
    parseEvents env acc (PState.init (posOf p)) ((flat w).map Input.event ++ tail)
      = parseEvents env acc (PState.init (posOf p)) (((W.serve cfg h p).take m).map Input.event ++ tail) :=
  noise_lands cfg env h p hwf hl hm w m hw hhead hn acc tail

/-- C02, noise in the served stream — the outcome (hypotheses of `C04_bytes_outcome`).  `w` weaves no-op packets into
    the dump for p anywhere behind its FORMAT_DESCRIPTION event — between transactions, between BEGIN and the rows,
    between a TABLE_MAP event and its ROWS event, right before the commit event.  For EVERY handler, EVERY cut k of the
    WOVEN stream (the cut may fall on a noise packet; `origCount w k` of the packets that arrived are original ones) and
    EVERY quiet ending, the whole outcome — calls, accepted, kept position, error and crash flags — is what the Spec
    computes from the laid-out events that arrived: the grouping, the labels and the kept position are unchanged. -/
theorem C02_bytes_noise (cfg : W.Cfg) (env : Env) (h : W.History) (p : W.Pos) (hl : Lands cfg h p)
    (hwf : WFFrom cfg h p) (hm : MapperAgrees env (unitsFrom cfg h p))
    (w : List Pkt) (hw : origs w = W.serve cfg h p) (hhead : noises (w.take 2) = [])
    (hn : ∀ b ∈ noises w, NoOp env (Ready cfg) b)
    (acc : Transaction → Bool) (k : Nat) (e : Bool) (tail : List Input) (ht : EndsWith env e tail) :
    parseEvents env acc (PState.init (posOf p)) (((flat w).take k).map Input.event ++ tail)
      = specOut env.ext acc e ((served cfg h p).take (origCount w k - preamble cfg h p)) p :=
  noise_outcome cfg env h p hwf hl hm w hw hhead hn acc k e tail ht

/-- … the same outcome as the attempt on the un-woven dump cut after the original packets that arrived -/
theorem C02_bytes_noise_attempt (cfg : W.Cfg) (env : Env) (h : W.History) (p : W.Pos) (hl : Lands cfg h p)
    (hwf : WFFrom cfg h p) (hm : MapperAgrees env (unitsFrom cfg h p))
    (w : List Pkt) (hw : origs w = W.serve cfg h p) (hhead : noises (w.take 2) = [])
    (hn : ∀ b ∈ noises w, NoOp env (Ready cfg) b) (a : Attempt) :
    parseEvents env a.handler (PState.init (posOf p)) (((flat w).take a.cut).map Input.event ++ a.tail)
      = runAttempt cfg env h ⟨a.handler, origCount w a.cut, a.tail⟩ p ∧ origCount w a.cut ≤ a.cut := by
  refine ⟨?_, origCount_le w a.cut⟩
  rw [flat_take]
  exact noise_lands cfg env h p hwf hl hm (w.take a.cut) (origCount w a.cut) (by rw [origs_take, hw])
    (noises_take_two w a.cut hhead) (fun b hb => hn b (noises_take_subset w a.cut b hb)) a.handler a.tail

/-- C02, noise — the accept-all complete run: the handler is called with exactly the expected transactions (labels,
    timestamps, changes), every call accepted, the expected end position, no error; and the grouping is the one of the
    units (`C02_bytes_grouping`): calls = expected. -/
theorem C02_bytes_noise_clean (cfg : W.Cfg) (env : Env) (h : W.History) (p : W.Pos) (hl : Lands cfg h p)
    (hwf : WFFrom cfg h p) (hm : MapperAgrees env (unitsFrom cfg h p))
    (w : List Pkt) (hw : origs w = W.serve cfg h p) (hhead : noises (w.take 2) = [])
    (hn : ∀ b ∈ noises w, NoOp env (Ready cfg) b) :
    parseEvents env (fun _ => true) (PState.init (posOf p)) ((flat w).map Input.event ++ [Input.closed])
      = ⟨(W.expected cfg h p).map (toTx env.ext), (W.expected cfg h p).map (toTx env.ext),
         posOf (W.endPos cfg h p), false, false⟩ ∧
    (parseEvents env (fun _ => true) (PState.init (posOf p)) ((flat w).map Input.event ++ [Input.closed])).calls.map
        txContent = ((unitsFrom cfg h p).flatMap unitGroups).map (groupTx env.ext) := by
  have hrun := noise_lands cfg env h p hwf hl hm w (W.serve cfg h p).length (by rw [hw, List.take_length]) hhead hn
    (fun _ => true) [Input.closed]
  rw [List.take_length] at hrun
  rw [hrun]
  exact ⟨C01_fidelity_bytes_resume_lands cfg env h p hl hwf hm, (C02_bytes_grouping cfg env h p hl hwf hm).2.1⟩

/-- C02, noise — the test driver's weave.  `noise=` registers packets by the number of the laid-out event they follow
    (`base` = the number of the first one served); the driver leaves the preamble alone, weaves each registered packet in
    behind its event and overwrites its next_position.  If every registered packet is of a `NoiseKind`, the Spec's
    expectation is unchanged: every handler, every cut of the woven stream, every quiet ending. -/
theorem C02_bytes_noise_driver (cfg : W.Cfg) (env : Env) (h : W.History) (p : W.Pos) (hl : Lands cfg h p)
    (hwf : WFFrom cfg h p) (hm : MapperAgrees env (unitsFrom cfg h p))
    (noise : List (Nat × Bytes)) (hnz : ∀ nz ∈ noise, NoiseKind cfg nz.2) (base : Nat)
    (acc : Transaction → Bool) (k : Nat) (e : Bool) (tail : List Input) (ht : EndsWith env e tail) :
    parseEvents env acc (PState.init (posOf p))
        (((flat (driverWeave (preamble cfg h p) base noise (W.serve cfg h p))).take k).map Input.event ++ tail)
      = specOut env.ext acc e ((served cfg h p).take
          (origCount (driverWeave (preamble cfg h p) base noise (W.serve cfg h p)) k - preamble cfg h p)) p := by
  refine noise_outcome cfg env h p hwf hl hm _ (driverWeave_origs ..) (driverWeave_head _ _ _ _ (preamble_pos cfg h p))
    ?_ acc k e tail ht
  intro b hb
  obtain ⟨nz, h1, pred, _, rfl⟩ := driverWeave_noises _ _ _ _ b hb
  exact noiseKind_noop env (noiseKind_setNext (hnz nz h1) pred)

/-! ### non-vacuity: concrete noise packets -/

/-- the checksum bytes of the examples (the replica does not verify them) -/
def exCrc (c : Bool) : Option Bytes := if c then some [1, 2, 3, 4] else none

/-- a HEARTBEAT_LOG_EVENT (type 27), a USER_VAR_EVENT (14), an XA_PREPARE_LOG_EVENT (38): header fields and
    next_position arbitrary -/
def exHb (c : Bool) : Bytes := (W.event (exCrc c) { ts := 0, flags := 0x20 } 27 0 (asc "bin.000001") (some 0)).1
def exUserVar (c : Bool) : Bytes := (W.event (exCrc c) { ts := 88 } 14 0 [1, 0, 0, 0, 97, 1] (some 12345)).1
def exXaPrepare (c : Bool) : Bytes := (W.event (exCrc c) { ts := 89, sid := 7 } 38 0 [0, 1, 2, 3] none).1
/-- `SAVEPOINT sp1` / `RELEASE SAVEPOINT sp1` as the master logs them: QUERY events with a charset status variable -/
def exSavepoint (c : Bool) : Bytes :=
  (W.event (exCrc c) { ts := 90 } 2 0 (W.queryBody 1 0 0 [W.charsetVar 33 33 8] [100] (asc "SAVEPOINT sp1")) (some 77)).1
def exRelease (c : Bool) : Bytes :=
  (W.event (exCrc c) { ts := 90 } 2 0 (W.queryBody 1 0 0 [] [100] (asc "RELEASE SAVEPOINT sp1")) none).1

theorem exCrcOK (c : Bool) : crcOK { crc := c } (exCrc c) := by cases c <;> simp [exCrc, crcOK]

/-- the three events of unhandled types are noise whatever the configuration says about checksums -/
theorem exHbNoise (cfg : W.Cfg) (c : Bool) : NoiseKind cfg (exHb c) :=
  (C02_noop_writer_events cfg _ _ 27 0 _ _ (by decide) (by cases c <;> decide)).2.2 (by decide)
theorem exUserVarNoise (cfg : W.Cfg) (c : Bool) : NoiseKind cfg (exUserVar c) :=
  (C02_noop_writer_events cfg _ _ 14 0 _ _ (by decide) (by cases c <;> decide)).2.2 (by decide)
theorem exXaPrepareNoise (cfg : W.Cfg) (c : Bool) : NoiseKind cfg (exXaPrepare c) :=
  (C02_noop_writer_events cfg _ _ 38 0 _ _ (by decide) (by cases c <;> decide)).2.2 (by decide)

theorem exSavepointCat : DSpec.unknownCat (statementCategory (asc "SAVEPOINT sp1")) := by
  unfold DSpec.unknownCat; decide
theorem exReleaseCat : DSpec.unknownCat (statementCategory (asc "RELEASE SAVEPOINT sp1")) := by
  unfold DSpec.unknownCat; decide

/-- the two statements are noise when they carry a checksum iff the stream does -/
theorem exSavepointNoise (c : Bool) : NoiseKind { crc := c } (exSavepoint c) :=
  .unknownStmt _ (exCrcOK c) _ 0 _ _ _ _
    (by intro v hv; simp at hv; subst hv; right; right; right; right; exact ⟨rfl, by simp [W.charsetVar]⟩)
    (by decide) (by decide) (by cases c <;> decide) exSavepointCat
theorem exReleaseNoise (c : Bool) : NoiseKind { crc := c } (exRelease c) :=
  .unknownStmt _ (exCrcOK c) _ 0 _ _ _ _ (by intro v hv; cases hv) (by decide) (by decide) (by cases c <;> decide)
    exReleaseCat


/-! ### non-vacuity: `exHistS` of Props/C04b (eight units in two files, cfg {}) with noise INSIDE its transactions -/

/-- an open transaction: one change buffered, autocommit off, the format seen -/
def exOpen : PState :=
  { pos := ⟨W.firstFile, 200⟩, tran := some [seOfStmt exIns], autocommit := false, format := fmtOf {}, tables := [] }

/-- (b) inside an open transaction: `SAVEPOINT sp1` leaves the state alone -/
example : stepEvent exEnv exOpen (exSavepoint false) = .cont exOpen :=
  (C02_noop_characterisation exEnv).2.2 {} _ (exSavepointNoise false) exOpen rfl
/-- (a) … and so does a heartbeat, with or without checksum -/
example (c : Bool) : stepEvent exEnv exOpen (exHb c) = .cont exOpen :=
  (C02_noop_characterisation exEnv).2.2 {} _ (exHbNoise {} c) exOpen rfl
/-- (a) without a format the parser stops on it -/
example (c : Bool) : stepEvent exEnv (PState.init ⟨W.firstFile, 4⟩) (exHb c) = .stop true false :=
  ((C02_noop_characterisation exEnv).1 (exHb c) 27
    (C02_noop_writer_events {} _ _ 27 0 _ _ (by decide) (by cases c <;> decide)).1
    (C02_noop_writer_events {} _ _ 27 0 _ _ (by decide) (by cases c <;> decide)).2.1 (by decide) _).2
    (by intro h; exact absurd h.1 (by decide))

/-- theorem 1 on a concrete input: three no-ops, then `XA_PREPARE` inserted in front of a cancellation -/
example (acc : Transaction → Bool) :
    parseEvents exEnv acc exOpen ([exSavepoint false, exHb true, exUserVar false].map Input.event
        ++ Input.event (exXaPrepare false) :: [Input.cancelled])
      = parseEvents exEnv acc exOpen ([exSavepoint false, exHb true, exUserVar false].map Input.event
        ++ [Input.cancelled]) :=
  C02_noop_insertion exEnv (Ready {}) acc exOpen _ _ _ rfl
    (by
      intro x hx
      simp only [List.mem_cons, List.not_mem_nil, or_false] at hx
      rcases hx with rfl | rfl | rfl
      · exact noOp_keeps (noiseKind_noop exEnv (exSavepointNoise false))
      · exact noOp_keeps (noiseKind_noop exEnv (exHbNoise {} true))
      · exact noOp_keeps (noiseKind_noop exEnv (exUserVarNoise {} false)))
    (noiseKind_noop exEnv (exXaPrepareNoise {} false))

/-- what `noise=` registers: laid-out event 2 is the first BEGIN (3 its TABLE_MAP, 4 its ROWS event, 5 its INSERT,
    6 the XID), 14 the BEGIN in the second file (15 its TABLE_MAP, 16 its ROWS event, 17 its INSERT, 18 the COMMIT) -/
def exNoise : List (Nat × Bytes) :=
  [(2, exSavepoint false), (3, exHb false), (3, exUserVar false), (5, exXaPrepare false), (15, exHb true),
   (17, exRelease false)]

theorem exNoiseKind : ∀ nz ∈ exNoise, NoiseKind {} nz.2 := by
  intro nz hnz
  simp only [exNoise, List.mem_cons, List.not_mem_nil, or_false] at hnz
  rcases hnz with rfl | rfl | rfl | rfl | rfl | rfl
  · exact exSavepointNoise false
  · exact exHbNoise {} false
  · exact exUserVarNoise {} false
  · exact exXaPrepareNoise {} false
  · exact exHbNoise {} true
  · exact exReleaseNoise false

/-- the dump of `exHistS` from the head of the log with the six noise packets woven in by the driver's rule -/
def exW : List Pkt := driverWeave 1 0 exNoise (W.serve {} exHistS exP0)

set_option maxRecDepth 100000 in
/-- 27 packets; the noise sits behind BEGIN (index 4), between TABLE_MAP and ROWS (6, 7), right before the XID (10),
    between TABLE_MAP and ROWS in the second file (21), right before COMMIT (24) -/
example : (flat exW).length = 27 ∧ (noises exW).length = 6 ∧
    exW.map (fun x => match x with | .orig _ => 0 | .noise b => (b.getD 4 0).toNat)
      = [0, 0, 0, 0, 2, 0, 27, 14, 0, 0, 38, 0, 0, 0, 0, 0, 0, 0, 0, 0, 0, 27, 0, 0, 2, 0, 0] := by decide

theorem exWOrigs : origs exW = W.serve {} exHistS exP0 := driverWeave_origs ..
theorem exWHead : noises (exW.take 2) = [] := driverWeave_head _ _ _ _ (Nat.le_refl 1)
theorem exWNoOp : ∀ b ∈ noises exW, NoOp exEnv (Ready {}) b := by
  intro b hb
  obtain ⟨nz, h1, pred, _, rfl⟩ := driverWeave_noises _ _ _ _ b hb
  exact noiseKind_noop exEnv (noiseKind_setNext (exNoiseKind nz h1) pred)

/-- theorem 3 on it: the handler rejecting the second transaction (the DDL), the woven stream cut after 13 packets — 9
    original ones, through the DDL, and 4 noise packets — then a cancellation -/
example := C02_bytes_noise {} exEnv exHistS exP0 exResumable.lands exResumable.wf exResumable.mapper exW exWOrigs exWHead
  exWNoOp exRejectSecond 13 false [.cancelled] (endsWith_cancelled _ _)
example : origCount exW 13 = 9 ∧ origCount exW 11 = 7 := by decide
example := C02_bytes_noise_attempt {} exEnv exHistS exP0 exResumable.lands exResumable.wf exResumable.mapper exW exWOrigs
  exWHead exWNoOp ⟨exRejectSecond, 13, [.event [1, 2, 3]]⟩
example := C02_bytes_noise_run {} exEnv exHistS exP0 exResumable.lands exResumable.wf exResumable.mapper (exW.take 11) 7
  (by rw [origs_take, exWOrigs]; rfl) (noises_take_two exW 11 exWHead)
  (fun b hb => exWNoOp b (noises_take_subset exW 11 b hb)) exRejectSecond [.event (exHb false), .closed]
example := C02_bytes_noise_clean {} exEnv exHistS exP0 exResumable.lands exResumable.wf exResumable.mapper exW exWOrigs
  exWHead exWNoOp
example := C02_bytes_noise_driver {} exEnv exHistS exP0 exResumable.lands exResumable.wf exResumable.mapper exNoise
  exNoiseKind 0 exRejectSecond 13 false [.cancelled] (endsWith_cancelled _ _)

set_option maxRecDepth 100000 in
/-- the same, computed (kernel, down to labels, timestamps and numbers of changes): the complete woven run delivers the
    five expected transactions and ends where the Spec says -/
example : (parseEvents exEnv (fun _ => true) (PState.init (posOf exP0)) ((flat exW).map Input.event ++ [Input.closed])).calls.map
      exLabel = ((W.expected {} exHistS exP0).map (toTx exEnv.ext)).map exLabel ∧
    (parseEvents exEnv (fun _ => true) (PState.init (posOf exP0)) ((flat exW).map Input.event ++ [Input.closed])).pos
      = posOf (W.endPos {} exHistS exP0) := by decide

-- … and the full transactions (evaluator), also for a cut inside the first transaction with a rejecting handler
#guard parseEvents exEnv (fun _ => true) (PState.init (posOf exP0)) ((flat exW).map Input.event ++ [Input.closed])
    == runClean {} exEnv exHistS exP0
#guard parseEvents exEnv exRejectSecond (PState.init (posOf exP0)) (((flat exW).take 13).map Input.event ++ [Input.cancelled])
    == runAttempt {} exEnv exHistS ⟨exRejectSecond, 9, [.cancelled]⟩ exP0
#guard (parseEvents exEnv exRejectSecond (PState.init (posOf exP0)) (((flat exW).take 13).map Input.event ++ [Input.cancelled])).calls.length == 2

/-! ### non-vacuity with checksums on: six units, statements only -/

def exHistQ : W.History :=
  [.ddl exDdl, .tx (asc "BEGIN") [.stmt exIns, .stmt exIns] (.xid 9) 90, .heartbeat,
   .tx (asc "BEGIN") [.stmt exIns] (.commit (asc "COMMIT")) 95, .gtid (List.replicate 16 3) 5, .ddl exDdl]

def exCfgC : W.Cfg := { crc := true }

theorem exWFQ : WFHist exCfgC exHistQ := by
  refine ⟨?_, by decide, trivial, by decide⟩
  intro u hu
  simp only [exHistQ, List.mem_cons, List.not_mem_nil, or_false] at hu
  rcases hu with rfl | rfl | rfl | rfl | rfl | rfl
  · exact ⟨exDdlOK, by unfold isChangeCat; decide⟩
  · refine ⟨by decide, ?_, trivial, by decide⟩
    intro c hc
    simp only [List.mem_cons, List.not_mem_nil, or_false] at hc
    rcases hc with rfl | rfl <;> exact ⟨exInsOK, by unfold isChangeCat; decide⟩
  · trivial
  · refine ⟨by decide, ?_, (by show statementCategory _ = _; decide), by decide⟩
    intro c hc
    simp only [List.mem_cons, List.not_mem_nil, or_false] at hc
    subst hc
    exact ⟨exInsOK, by unfold isChangeCat; decide⟩
  · trivial
  · exact ⟨exDdlOK, by unfold isChangeCat; decide⟩

theorem exMapperQ : MapperAgrees exEnv exHistQ := by
  intro c hc
  simp [exHistQ, histRows, unitRows, changeRows] at hc

theorem exResumableQ : Resumable exCfgC exEnv exHistQ exP0 :=
  C04_resumable_of_boundary exCfgC exEnv exHistQ exP0 (List.mem_of_getElem? (i := 0) (by decide))
    (wfHistFrom_head exCfgC exHistQ exWFQ (by decide))
    (by intro u hu
        simp only [exHistQ, List.mem_cons, List.not_mem_nil, or_false] at hu
        rcases hu with rfl | rfl | rfl | rfl | rfl | rfl <;> trivial)
    (freshLog_of_nodup (by decide)) exMapperQ


/-- laid-out event 2 is the first BEGIN (3, 4 its INSERTs, 5 the XID), 7 the second BEGIN (8 its INSERT, 9 the COMMIT);
    one heartbeat WITHOUT checksum among the checksummed packets -/
def exNoiseQ : List (Nat × Bytes) :=
  [(2, exSavepoint true), (3, exHb true), (3, exHb false), (4, exXaPrepare true), (8, exRelease true), (8, exUserVar true)]

theorem exNoiseKindQ : ∀ nz ∈ exNoiseQ, NoiseKind exCfgC nz.2 := by
  intro nz hnz
  simp only [exNoiseQ, List.mem_cons, List.not_mem_nil, or_false] at hnz
  rcases hnz with rfl | rfl | rfl | rfl | rfl | rfl
  · exact exSavepointNoise true
  · exact exHbNoise _ true
  · exact exHbNoise _ false
  · exact exXaPrepareNoise _ true
  · exact exReleaseNoise true
  · exact exUserVarNoise _ true

example : preamble exCfgC exHistQ exP0 = 1 ∧ (W.serve exCfgC exHistQ exP0).length = 13 ∧
    (W.expected exCfgC exHistQ exP0).length = 4 := by decide

/-- every handler, cut and ending on the checksummed stream with the six noise packets woven into its transactions -/
example (acc : Transaction → Bool) (k : Nat) := C02_bytes_noise_driver exCfgC exEnv exHistQ exP0 exResumableQ.lands
  exResumableQ.wf exResumableQ.mapper exNoiseQ exNoiseKindQ 0 acc k true [.event [1, 2, 3]]
  (endsWith_invalid _ _ _ (by decide))

set_option maxRecDepth 100000 in
/-- computed (kernel): 19 packets, the complete run delivers the four expected transactions -/
example : (flat (driverWeave 1 0 exNoiseQ (W.serve exCfgC exHistQ exP0))).length = 19 ∧
    parseEvents exEnv (fun _ => true) (PState.init (posOf exP0))
      ((flat (driverWeave 1 0 exNoiseQ (W.serve exCfgC exHistQ exP0))).map Input.event ++ [Input.closed])
      = ⟨(W.expected exCfgC exHistQ exP0).map (toTx exEnv.ext), (W.expected exCfgC exHistQ exP0).map (toTx exEnv.ext),
         posOf (W.endPos exCfgC exHistQ exP0), false, false⟩ := by decide

/-! ### the limits -/

/-- the dump of `exHistS` from the head of the log with a heartbeat behind its FIRST packet: preamble = 1 there, so
    the heartbeat comes "after the first `preamble` packets" — but before the FORMAT_DESCRIPTION event -/
def exWEarly : List Pkt :=
  ((W.serve {} exHistS exP0).take 1).map .orig ++ [.noise (exHb false)] ++ ((W.serve {} exHistS exP0).drop 1).map .orig

set_option maxRecDepth 100000 in
/-- REFUTED: "noise anywhere after the first `preamble cfg h p` packets".  At a file head the preamble is the artificial
    ROTATE alone; the parser has no format when the heartbeat arrives and stops with an error, nothing is delivered.
    The true statement asks for `noises (w.take 2) = []` (`C02_bytes_noise`). -/
theorem C02_bytes_noise_before_fde_refuted :
    ¬ (∀ (cfg : W.Cfg) (env : Env) (h : W.History) (p : W.Pos) (w : List Pkt), Resumable cfg env h p →
        origs w = W.serve cfg h p → noises (w.take (preamble cfg h p)) = [] → (∀ b ∈ noises w, NoiseKind cfg b) →
        parseEvents env (fun _ => true) (PState.init (posOf p)) ((flat w).map Input.event ++ [Input.closed])
          = runClean cfg env h p) := by
  intro hall
  have h := hall {} exEnv exHistS exP0 exWEarly exResumable
    (by simp only [exWEarly, origs_append, origs_map_orig, origs, List.append_nil, List.take_append_drop])
    (by decide)
    (by intro b hb
        simp only [exWEarly, noises_append, noises_map_orig, noises, List.nil_append, List.append_nil,
          List.mem_cons, List.not_mem_nil, or_false] at hb
        subst hb
        exact exHbNoise {} false)
  have h1 : (parseEvents exEnv (fun _ => true) (PState.init (posOf exP0))
      ((flat exWEarly).map Input.event ++ [Input.closed])).err = true := by decide
  have h2 : (runClean {} exEnv exHistS exP0).err = false := by decide
  rw [h, h2] at h1
  cases h1

/-- REFUTED: (b) without "a checksum iff the format announces one".  Under a CRC32 format the last 4 bytes of the event
    are dropped unseen; a QUERY event without checksum whose statement is empty then ends before its statement starts
    and the parser stops with an error.  (With a non-empty statement the parser sees a truncated SQL text; a checksummed
    event under a format without checksums shows 4 bytes of garbage behind its SQL text.  Neither is a no-op in general.) -/
theorem C02_unknown_stmt_crc_mismatch_refuted :
    ¬ (∀ (env : Env) (cfg : W.Cfg) (crc : Option Bytes) (m : W.EvMeta) (start : Nat) (nx : Option Nat) (db sql : Bytes),
        db.length < 256 → 19 + (W.queryBody 1 0 0 [] db sql).length + Props.C16.crcLen crc < 2 ^ 32 →
        DSpec.unknownCat (statementCategory sql) →
        NoOp env (Ready cfg) (W.event crc m 2 start (W.queryBody 1 0 0 [] db sql) nx).1) := by
  intro hall
  have h := hall exEnv { crc := true } none {} 0 none [100] [] (by decide) (by decide)
    (by unfold DSpec.unknownCat; decide) { PState.init ⟨W.firstFile, 4⟩ with format := fmtOf { crc := true } } rfl
  revert h
  decide

/-- one transaction: BEGIN, an UPDATE rows change (announced), a WRITE rows change, XID -/
def exHistT : W.History := [.tx (asc "BEGIN") [.rows exC1, .rows exC2] (.xid 9) 90]

/-- `ROLLBACK TO sp1` as a master logs it inside a transaction (statement-format savepoint rollback) -/
def exRollbackTo : Bytes :=
  (W.event none { ts := 91 } 2 0 (W.queryBody 1 0 0 [] [100] (asc "ROLLBACK TO sp1")) (some 300)).1

/-- … woven in between the two rows changes -/
def exWT : List Pkt :=
  ((W.serve {} exHistT exP0).take 5).map .orig ++ [.noise exRollbackTo] ++ ((W.serve {} exHistT exP0).drop 5).map .orig

set_option maxRecDepth 100000 in
/-- `ROLLBACK TO sp1` is NOT ignorable for this parser.  `GetStatementCategory` looks at the first keyword only, so the
    statement is a ROLLBACK boundary: woven into BEGIN, TABLE_MAP, UPDATE rows, · , WRITE rows, XID it makes the parser
    drop the buffered UPDATE and deliver an EMPTY transaction (ending at the statement's next_position, 300), deliver
    the WRITE rows change on its own in autocommit mode, and deliver a second empty transaction at the XID — three
    calls with 0, 1, 0 changes instead of one call with 2.  Kernel-checked on labels, timestamps and numbers of
    changes.  (A known limit: MySQL logs `ROLLBACK TO` only for statement-format / non-transactional changes.) -/
theorem C02_rollback_to_is_not_noise_refuted :
    statementCategory (asc "ROLLBACK TO sp1") = Facts.StatementRollback ∧
    ¬ DSpec.unknownCat (statementCategory (asc "ROLLBACK TO sp1")) ∧
    origs exWT = W.serve {} exHistT exP0 ∧ noises exWT = [exRollbackTo] ∧ noises (exWT.take 2) = [] ∧
    (runClean {} exEnv exHistT exP0).calls.map exLabel
      = [(⟨W.firstFile, 4⟩, ⟨W.firstFile, 315⟩, 90, 2)] ∧
    (parseEvents exEnv (fun _ => true) (PState.init (posOf exP0)) ((flat exWT).map Input.event ++ [Input.closed])).calls.map
        exLabel
      = [(⟨W.firstFile, 4⟩, ⟨W.firstFile, 300⟩, 91, 0), (⟨W.firstFile, 300⟩, ⟨W.firstFile, 288⟩, 77, 1),
         (⟨W.firstFile, 288⟩, ⟨W.firstFile, 315⟩, 90, 0)] ∧
    ¬ NoOp exEnv (Ready {}) exRollbackTo := by
  refine ⟨by decide, by unfold DSpec.unknownCat; decide,
    by simp only [exWT, origs_append, origs_map_orig, origs, List.append_nil, List.take_append_drop],
    by simp only [exWT, noises_append, noises_map_orig, noises, List.nil_append, List.append_nil],
    by decide, by decide, by decide, ?_⟩
  intro h
  have := h { PState.init ⟨W.firstFile, 4⟩ with format := fmtOf {}, tran := some [], autocommit := false } rfl
  revert this
  decide

-- the full outcomes differ (evaluator)
#guard parseEvents exEnv (fun _ => true) (PState.init (posOf exP0)) ((flat exWT).map Input.event ++ [Input.closed])
    != runClean {} exEnv exHistT exP0

end GV.Props.C02c
