import GV.Spec.Decoded
import GV.Spec.History
import GV.Spec.CellWF
import GV.Lemmas.C01
import GV.Expect.C01
/-
  C01 — end-to-end fidelity: the handler sees exactly the committed transactions (DESIGN §7 C01).
  Property theorems only; helper lemmas in GV/Lemmas/C01.lean.
  Layering: (1) every event kind the Spec master writes is classified by the parser's byte-level front end
  (`M.classify`: validity gate, checksum stripping, header and body decoders, table cache, row conversion) as
  exactly the decoded event it stands for — with and without CRC32 checksums, v1/v2 rows, 4/6-byte table ids;
  (2) over decoded events the state machine delivers exactly one transaction per committed unit, in order, nothing
  else (refinement, proved for every unit sequence).
-/
namespace GV.Props.C01
open GV GV.M GV.DSpec

/-- the format in force after the Spec's FORMAT_DESCRIPTION event -/
def fmtOf (cfg : W.Cfg) : Format :=
  { formatVersion := 4, serverVersion := asc "5.7.44-log", headerLength := 19,
    checksumAlg := if cfg.crc then 1 else 0, headerSizes := W.headerSizesFor cfg.idw4 }

/-- a parser state that has seen the FDE -/
def Ready (cfg : W.Cfg) (st : PState) : Prop := st.format = fmtOf cfg

def crcOK (cfg : W.Cfg) (crc : Option Bytes) : Prop :=
  match crc with
  | some c => cfg.crc = true ∧ c.length = 4
  | none => cfg.crc = false

/-- header fields in range, total length below 2^32 -/
def EvOK (crc : Option Bytes) (m : W.EvMeta) (start : Nat) (body : Bytes) : Prop :=
  m.ts < 2 ^ 32 ∧ m.sid < 2 ^ 32 ∧ m.flags < 2 ^ 16 ∧
  start + (19 + body.length + (match crc with | some c => c.length | none => 0)) < 2 ^ 32


/-- the two hypotheses on the checksum, as the front-end lemma wants them -/
private theorem crc_pre {cfg : W.Cfg} {st : PState} (hr : Ready cfg st) {crc : Option Bytes} (hc : crcOK cfg crc) :
    C01.CrcFmt st.format crc := by
  unfold Ready at hr
  unfold C01.CrcFmt
  cases crc with
  | none => simp only [crcOK] at hc; simp [hr, fmtOf, hc]
  | some c => simp only [crcOK] at hc; simp [hr, fmtOf, hc.1, hc.2]

private theorem meta_pre {crc : Option Bytes} {m : W.EvMeta} {start : Nat} {body : Bytes} (typ : Nat) (ht : typ < 256)
    (hok : EvOK crc m start body) : Props.C16.MetaOK m typ start (19 + body.length + Props.C16.crcLen crc) :=
  ⟨hok.1, hok.2.1, hok.2.2.1, ht, Nat.lt_of_le_of_lt (Nat.le_add_left _ _) hok.2.2.2, hok.2.2.2⟩

private theorem notZero {cfg : W.Cfg} {st : PState} (hr : Ready cfg st) : st.format.isZero = false := by
  unfold Ready at hr; rw [hr]; rfl

private theorem hl19 {cfg : W.Cfg} {st : PState} (hr : Ready cfg st) : st.format.headerLength = 19 := by
  unfold Ready at hr; rw [hr]; rfl

/-- (1a) the Spec's FORMAT_DESCRIPTION event sets the format, whatever the state -/
theorem C01_classify_fde (env : Env) (st : PState) (cfg : W.Cfg) (start : Nat) (nx : Option Nat)
    (hs : start + 200 < 2 ^ 32) (hn : ∀ n, nx = some n → n < 2 ^ 32) :
    classify env st (W.fdeEvent cfg start nx).1 = .format (fmtOf cfg) := by
  have _ := hs; have _ := hn
  obtain ⟨h1, h2, h3⟩ := C01.fde_facts cfg start nx
  simp only [classify, h1, h2, h3, ofRes, Facts.eFormatDescriptionEvent, Bool.not_true, Bool.false_eq_true, if_false,
    if_true, fmtOf]

/-- (1b) XID -/
theorem C01_classify_xid (env : Env) (st : PState) (cfg : W.Cfg) (hr : Ready cfg st) (crc : Option Bytes)
    (hc : crcOK cfg crc) (m : W.EvMeta) (start xid : Nat) (hok : EvOK crc m start (W.xidBody xid)) :
    classify env st (W.event crc m 16 start (W.xidBody xid)).1
      = .xid (start + (19 + 8 + (match crc with | some c => c.length | none => 0))) m.ts := by
  obtain ⟨h1, h2, h3, h4, h5, h6⟩ := C01.pre st.format crc m 16 start _ (crc_pre hr hc) (meta_pre 16 (by decide) hok)
  have hl : (W.xidBody xid).length = 8 := by simp [W.xidBody]
  rw [hl] at h5
  simp only [classify, h1, h2, h3, h4, h5, h6, ofRes, notZero hr, Facts.eFormatDescriptionEvent, Facts.eXIDEvent]
  cases crc <;> rfl

/-- (1c) ROTATE -/
theorem C01_classify_rotate (env : Env) (st : PState) (cfg : W.Cfg) (hr : Ready cfg st) (crc : Option Bytes)
    (hc : crcOK cfg crc) (m : W.EvMeta) (start pos : Nat) (name : Bytes) (hp : pos < 2 ^ 63)
    (hok : EvOK crc m start (W.rotateBody pos name)) :
    classify env st (W.event crc m 4 start (W.rotateBody pos name)).1 = .rotate name (pos : Int) := by
  obtain ⟨h1, h2, h3, h4, _, _⟩ := C01.pre st.format crc m 4 start _ (crc_pre hr hc) (meta_pre 4 (by decide) hok)
  have hrot := Props.C16.C16_rotate st.format (hl19 hr) _ (C01.hdrOf_length crc m 4 start (W.rotateBody pos name)) pos hp name
  simp only [classify, h1, h2, h3, h4, hrot, ofRes, notZero hr, Facts.eFormatDescriptionEvent, Facts.eXIDEvent,
    Facts.eRotateEvent]
  simp

/-- (1d) QUERY: category by the first word, database, SQL text, charset; end offset and timestamp from the header -/
theorem C01_classify_query (env : Env) (st : PState) (cfg : W.Cfg) (hr : Ready cfg st) (crc : Option Bytes)
    (hc : crcOK cfg crc) (m : W.EvMeta) (start : Nat) (db sql : Bytes) (hdb : db.length < 256)
    (hok : EvOK crc m start (W.queryBody 1 0 0 [] db sql)) :
    classify env st (W.event crc m 2 start (W.queryBody 1 0 0 [] db sql)).1
      = .stmt (statementCategory sql) ⟨db, none, sql⟩
          (start + (19 + (W.queryBody 1 0 0 [] db sql).length + (match crc with | some c => c.length | none => 0))) m.ts := by
  obtain ⟨h1, h2, h3, h4, h5, h6⟩ := C01.pre st.format crc m 2 start _ (crc_pre hr hc) (meta_pre 2 (by decide) hok)
  have hq := Props.C16.C16_query st.format (hl19 hr) _ (C01.hdrOf_length crc m 2 start (W.queryBody 1 0 0 [] db sql))
    1 0 0 [] [] db sql (by simp) (by simp) (by simp) hdb
  simp only [List.append_nil, Props.C16.charsetOf] at hq
  simp only [classify, h1, h2, h3, h4, h5, h6, hq, ofRes, notZero hr, Facts.eFormatDescriptionEvent, Facts.eXIDEvent,
    Facts.eRotateEvent, Facts.eQueryEvent]
  cases crc <;> rfl

/-- (1e) ignorable events: GTID, anonymous GTID, previous GTIDs, heartbeat, any unknown type -/
theorem C01_classify_ignorable (env : Env) (st : PState) (cfg : W.Cfg) (hr : Ready cfg st) (crc : Option Bytes)
    (hc : crcOK cfg crc) (m : W.EvMeta) (start typ : Nat) (body : Bytes) (ht : typ < 256)
    (hty : typ ∉ [15, 16, 4, 2, 19, 23, 24, 25, 30, 31, 32, 13, 5, 29]) (hok : EvOK crc m start body) :
    classify env st (W.event crc m typ start body).1 = .skip := by
  obtain ⟨h1, h2, h3, h4, _, _⟩ := C01.pre st.format crc m typ start _ (crc_pre hr hc) (meta_pre typ ht hok)
  simp only [List.mem_cons, List.not_mem_nil, or_false, not_or] at hty
  obtain ⟨t15, t16, t4, t2, t19, t23, t24, t25, t30, t31, t32, t13, t5, t29⟩ := hty
  simp only [classify, h1, h2, h3, h4, ofRes, notZero hr, Facts.eFormatDescriptionEvent, Facts.eXIDEvent,
    Facts.eRotateEvent, Facts.eQueryEvent, Facts.eTableMapEvent, Facts.eWriteRowsEventV1, Facts.eWriteRowsEventV2,
    Facts.eUpdateRowsEventV1, Facts.eUpdateRowsEventV2, Facts.eDeleteRowsEventV1, Facts.eDeleteRowsEventV2,
    Facts.ePreviousGTIDsEvent, Facts.eGTIDEvent, Facts.eRandEvent, Facts.eIntVarEvent, Facts.eRowsQueryEvent,
    t15, t16, t4, t2, t19, t23, t24, t25, t30, t31, t32, t13, t5, t29]
  simp

/-- (2) over decoded events: exactly one transaction per committed unit, in commit order, nothing else, ending at
    the expected position without error (the refinement theorem of the shared core) -/
theorem C01_fidelity_decoded (us : List DUnit) (st : PState) (hi : Idle st) (hwf : ∀ u ∈ us, WFUnit u) :
    runD (fun _ => true) st ((us.flatMap devs).map some)
      = ⟨dexpected st.pos us, dexpected st.pos us, dendPos st.pos us, false, false⟩ := by
  exact Props.C02.C02_refines us st hi hwf

/-- packets compose: the byte-level parser is the decoded machine applied to the classification of each packet
    against the state reached so far -/
theorem C01_parse_is_classify_then_step (env : Env) (handler : Transaction → Bool) (st : PState) (b : Bytes)
    (rest : List Input) :
    parseEvents env handler st (.event b :: rest) =
      match stepD st (classify env st b) with
      | .cont st' => parseEvents env handler st' rest
      | .stop e c => ⟨[], [], st.pos, e, c⟩
      | .deliver tx acc =>
        if handler tx then
          let o := parseEvents env handler acc rest
          { o with calls := tx :: o.calls, accepted := tx :: o.accepted }
        else ⟨[tx], [], st.pos, true, false⟩ := by
  simp only [parseEvents, stepEvent]
  cases stepD st (classify env st b) <;> rfl

/-! non-vacuity -/
example : crcOK { crc := true } (some [1, 2, 3, 4]) := ⟨rfl, rfl⟩
example : EvOK none { ts := 5 } 120 (W.xidBody 9) := by simp [EvOK, W.xidBody, GV.Bytes.ofLE]

end GV.Props.C01
