import GV.Props.C01c
import GV.Lemmas.C15b
/-
  C15 (byte level) — rows are decoded with the MOST RECENT table map announced for their table id, names and signedness
  come from the table mapper, and a mapper table whose column count disagrees with the table map is rejected
  (DESIGN §7 C15).  Property theorems and non-vacuity examples only (plus the small mutated parser of Goal B);
  definitions of the vocabulary and all helper lemmas are in GV/Lemmas/C15b.lean (namespace GV.C15b).

  Vocabulary (the rest — `UnitOK`, `histRows`, `MapperAgrees`, `infoOf`, `toTx`, `posOf`, `WFHist` — is that of
  GV/Props/C01c.lean):

    lastDef anns id        the definition most recently announced for table id `id`, `anns` being the TABLE_MAP
                           announcements seen so far (most recent first)
    annAfter anns c        the announcements after the rows change `c`: `c.table :: anns` when `c.announce` (its own
                           TABLE_MAP event is written just before it), `anns` otherwise
    curOK anns cs          every rows change of `cs` (log order) announces itself or carries exactly the definition
                           most recently announced for its id
    SameInfo t1 t2         t1 and t2 have the same db, table name, column names, signedness list and column count
                           (column types, metadata, nullability are free)
    WFHistRedef cfg h      `WFHist cfg h` with `tables` (ONE definition per table id in the whole history) and
                           `announced` replaced by: `agree` — definitions sharing an id are `SameInfo` — and
                           `current` — `curOK [] (histRows h)`.  Units and offsets as in `WFHist`.
    firstRows u            the first rows change of the unit u (none for units without rows changes)
    MapperRejects env t    the table mapper fails for (t.db, t.name) or answers with a column count ≠ t's

  Contents: `C15_bytes_redefinition` (Goal A) with `C15_redefinition_subsumes` (WFHist → WFHistRedef);
  `C15_bytes_mapper_mismatch` (+ `_announced`, `_no_rows`) (Goal C); concrete histories with proofs of the hypotheses
  and instances of both theorems (kernel) plus #guard checks in all 8 configurations (evaluator);
  `C15_bytes_stale_map_refuted` / `_silent` (Goal B: a mutated parser that keeps the FIRST table map of an id fails —
  or silently mis-types — on the concrete example); `C15_bytes_redefinition_needs_current_refuted` (`current` is
  needed) and `C15_bytes_redefinition_agree_not_needed` (+ `_other_name_example`): since the repair of finding F13 —
  a TABLE_MAP event for an id cached under ANOTHER (database, name) makes the parser ask the mapper again and replace
  the entry — `agree` follows, where it matters, from `MapperAgrees`; for the code as found its necessity was proved
  here (`C15_bytes_redefinition_needs_agree_refuted`, now false and removed).  See GV/Props/C15c.lean.
-/
namespace GV.Props.C15b
open GV GV.M GV.Props.C01 GV.Props.C01b GV.C01c GV.C15b

/-! ### Goal A: fidelity with re-defined table ids -/

/-- Byte-level fidelity for whole histories in which table ids are RE-DEFINED (full unit alphabet, all 8
    configurations): a table id may be announced again — inside a transaction or in a later one, interleaved with other
    ids — with other column types / metadata / nullability, later rows events being written in the new encoding (and
    possibly announced back to an earlier one).  As long as every rows change carries the definition MOST RECENTLY
    announced for its id and the definitions of an id look the same to the mapper, a replica started at the head of the
    log with an all-accepting handler delivers exactly the expected transactions — per rows change the exact
    StreamEvent: table (db, name), per column the mapper's name, the CURRENT definition's type, and the canonical text
    decoded with the current definition's type / metadata, signedness by ordinal position — and returns the expected
    end position without error or crash. -/
theorem C15_bytes_redefinition (cfg : W.Cfg) (env : Env) (h : W.History) (hwf : WFHistRedef cfg h)
    (hm : MapperAgrees env h) :
    parseEvents env (fun _ => true) (PState.init ⟨W.firstFile, 4⟩)
        ((W.serve cfg h ⟨W.firstFile, 4⟩).map Input.event ++ [Input.closed])
      = ⟨(W.expected cfg h ⟨W.firstFile, 4⟩).map (toTx env.ext), (W.expected cfg h ⟨W.firstFile, 4⟩).map (toTx env.ext),
         posOf (W.endPos cfg h ⟨W.firstFile, 4⟩), false, false⟩ :=
  GV.C15b.fidelity_redef cfg env h hwf hm

/-- the new hypotheses are weaker than those of `C01_fidelity_bytes`, which is therefore an instance -/
theorem C15_redefinition_subsumes (cfg : W.Cfg) (h : W.History) (hwf : WFHist cfg h) : WFHistRedef cfg h :=
  GV.C15b.wfRedef_of_wf hwf

/-- definitions sharing a table id have the same mapper answer and the same column count: what the mapper said at
    the first announcement is right for every later definition -/
theorem C15_redefinition_same_mapper_info (cfg : W.Cfg) (h : W.History) (hwf : WFHistRedef cfg h)
    (c1 c2 : W.RowsChange) (h1 : c1 ∈ histRows h) (h2 : c2 ∈ histRows h) (hid : c1.table.id = c2.table.id) :
    infoOf c1.table = infoOf c2.table ∧ c1.table.cols.length = c2.table.cols.length :=
  ⟨sameInfo_infoOf (hwf.agree c1 h1 c2 h2 hid), (hwf.agree c1 h1 c2 h2 hid).2.2.2.2⟩

/-! ### Goal C: a mapper table that does not fit the table map -/

/-- A history h₁ ++ u :: h₂ where the first rows change `c` of the unit `u` is for a table id that no rows change of
    h₁ uses (so its TABLE_MAP event is the first announcement of that id, and the mapper is asked), and the mapper
    fails for that table or answers with a column count different from the table map's, while it agrees on all
    tables of h₁: the run on everything the master serves stops at that TABLE_MAP event WITH an error and no crash;
    the handler was called with — and accepted — exactly the transactions of h₁ (what the run on h₁ alone delivers);
    the position returned is the one after them.  Nothing of `u` or h₂ is delivered. -/
theorem C15_bytes_mapper_mismatch (cfg : W.Cfg) (env : Env) (h₁ : W.History) (u : W.Unit) (h₂ : W.History)
    (c : W.RowsChange) (hwf : WFHistRedef cfg (h₁ ++ u :: h₂)) (hm : MapperAgrees env h₁)
    (hu : firstRows u = some c) (hnew : ∀ c' ∈ histRows h₁, c'.table.id ≠ c.table.id)
    (hbad : MapperRejects env c.table) :
    parseEvents env (fun _ => true) (PState.init ⟨W.firstFile, 4⟩)
        ((W.serve cfg (h₁ ++ u :: h₂) ⟨W.firstFile, 4⟩).map Input.event ++ [Input.closed])
      = ⟨(W.expected cfg h₁ ⟨W.firstFile, 4⟩).map (toTx env.ext), (W.expected cfg h₁ ⟨W.firstFile, 4⟩).map (toTx env.ext),
         posOf (W.endPos cfg h₁ ⟨W.firstFile, 4⟩), true, false⟩ :=
  GV.C15b.mismatch_general cfg env h₁ u h₂ c hwf hm hu hnew hbad

/-- … in that situation the rows change does announce itself (it could not be well-formed otherwise) -/
theorem C15_bytes_mapper_mismatch_announced (cfg : W.Cfg) (h₁ : W.History) (u : W.Unit) (h₂ : W.History)
    (c : W.RowsChange) (hwf : WFHistRedef cfg (h₁ ++ u :: h₂)) (hu : firstRows u = some c)
    (hnew : ∀ c' ∈ histRows h₁, c'.table.id ≠ c.table.id) : c.announce = true :=
  GV.C15b.first_announces cfg h₁ u h₂ c hwf hu hnew

/-- … and no transaction containing rows of that table id is delivered: the handler calls are the expected
    transactions of h₁, none of whose rows changes is for the rejected table's id -/
theorem C15_bytes_mapper_mismatch_no_rows (cfg : W.Cfg) (env : Env) (h₁ : W.History) (u : W.Unit) (h₂ : W.History)
    (c : W.RowsChange) (hwf : WFHistRedef cfg (h₁ ++ u :: h₂)) (hm : MapperAgrees env h₁)
    (hu : firstRows u = some c) (hnew : ∀ c' ∈ histRows h₁, c'.table.id ≠ c.table.id)
    (hbad : MapperRejects env c.table) :
    (parseEvents env (fun _ => true) (PState.init ⟨W.firstFile, 4⟩)
        ((W.serve cfg (h₁ ++ u :: h₂) ⟨W.firstFile, 4⟩).map Input.event ++ [Input.closed])).calls
      = (W.expected cfg h₁ ⟨W.firstFile, 4⟩).map (toTx env.ext) ∧
    ∀ t ∈ W.expected cfg h₁ ⟨W.firstFile, 4⟩, ∀ c', W.Change.rows c' ∈ t.changes → c'.table.id ≠ c.table.id := by
  refine ⟨by rw [C15_bytes_mapper_mismatch cfg env h₁ u h₂ c hwf hm hu hnew hbad], ?_⟩
  intro t ht c' hc'
  exact hnew c' (GV.C15b.expected_rows_sub cfg h₁ t ht c' hc')

/-! ### non-vacuity: concrete histories -/

def tA : W.TableDef :=
  { id := 7, db := [100], name := [116], cols := [⟨3, 0, true⟩, ⟨15, 100, true⟩], names := [[97], [98]],
    unsigned := [false, false] }
def tB : W.TableDef := { tA with cols := [⟨8, 0, true⟩, ⟨15, 300, false⟩] }
def tC : W.TableDef := { id := 9, db := [100], name := [117], cols := [⟨3, 0, false⟩], names := [[99]], unsigned := [true] }
def tD : W.TableDef := { tC with cols := [⟨8, 0, true⟩] }
def tE : W.TableDef := { id := 11, db := [100], name := [118], cols := [⟨3, 0, false⟩], names := [[101]], unsigned := [false] }

def cA1 : W.RowsChange :=
  { kind := .update, table := tA, ts := 77, flags := 1, extra := [7], presentBefore := [true, true],
    presentAfter := [true, true], rows := [([some (.int 4 (-5)), none], [some (.int 4 6), some (.str [1, 2, 3])])],
    announce := true, tmOptional := [] }
def cC1 : W.RowsChange :=
  { kind := .write, table := tC, ts := 78, flags := 0, extra := [], presentBefore := [true],
    presentAfter := [true], rows := [([], [some (.uint 4 4000000000)])], announce := true, tmOptional := [1, 2] }
def cB1 : W.RowsChange :=
  { kind := .write, table := tB, ts := 79, flags := 1, extra := [], presentBefore := [true, true],
    presentAfter := [true, true], rows := [([], [some (.int 8 (-5000000000)), some (.str [65, 66, 67])])],
    announce := true, tmOptional := [] }
def cB2 : W.RowsChange := { cB1 with kind := .delete, rows := [([some (.int 8 1), some (.str [66])], [])], announce := false }
def cA2 : W.RowsChange := { cA1 with kind := .write, rows := [([], [some (.int 4 7), none])], announce := true }
def cD1 : W.RowsChange := { cC1 with table := tD, rows := [([], [some (.uint 8 (2 ^ 63 + 5))])], announce := true }
def cA3 : W.RowsChange := { cA2 with announce := false, rows := [([], [none, some (.str [9])])] }
def cE1 : W.RowsChange := { cC1 with table := tE, rows := [([], [some (.int 4 1)])], announce := true }
/-- (for the counterexamples below) tB under another table name and with other column names, still with id 7 -/
def tG : W.TableDef := { tB with name := [119], names := [[120], [121]] }
def cG1 : W.RowsChange := { cB1 with table := tG }

theorem tA_ok : TableOK {} tA :=
  ⟨by decide, by intro c hc; simp [tA] at hc; rcases hc with rfl | rfl <;> (unfold Props.C15.ColOK; decide),
   by decide, rfl, rfl, by decide, by decide, by decide⟩
theorem tB_ok : TableOK {} tB :=
  ⟨by decide, by intro c hc; simp [tB, tA] at hc; rcases hc with rfl | rfl <;> (unfold Props.C15.ColOK; decide),
   by decide, rfl, rfl, by decide, by decide, by decide⟩
theorem tG_ok : TableOK {} tG :=
  ⟨by decide, by intro c hc; simp [tG, tB, tA] at hc; rcases hc with rfl | rfl <;> (unfold Props.C15.ColOK; decide),
   by decide, rfl, rfl, by decide, by decide, by decide⟩
theorem tC_ok : TableOK {} tC :=
  ⟨by decide, by intro c hc; simp [tC] at hc; subst hc; unfold Props.C15.ColOK; decide,
   by decide, rfl, rfl, by decide, by decide, by decide⟩
theorem tD_ok : TableOK {} tD :=
  ⟨by decide, by intro c hc; simp [tD, tC] at hc; subst hc; unfold Props.C15.ColOK; decide,
   by decide, rfl, rfl, by decide, by decide, by decide⟩
theorem tE_ok : TableOK {} tE :=
  ⟨by decide, by intro c hc; simp [tE] at hc; subst hc; unfold Props.C15.ColOK; decide,
   by decide, rfl, rfl, by decide, by decide, by decide⟩

/-- RowsOK of a concrete one-row change -/
local macro "rows_ok " t:term : tactic => `(tactic|
  (refine ⟨$t, rfl, rfl, by decide, by decide, by decide, ?_, by decide⟩
   intro r hr
   simp only [cA1, cC1, cB1, cB2, cA2, cD1, cA3, cE1, cG1, List.mem_singleton] at hr
   subst hr
   constructor <;> intro hk <;>
     first
     | exact absurd rfl hk
     | (refine ⟨rfl, ?_⟩
        intro p hp
        simp [cA1, cC1, cB1, cB2, cA2, cD1, cA3, cE1, cG1, tA, tB, tC, tD, tE, tG, colsU, W.selectPresent] at hp
        first
        | (rcases hp with hp | hp <;> subst hp <;> simp [W.CellOK, W.intTypes])
        | (subst hp; simp [W.CellOK, W.intTypes]))))

set_option exponentiation.threshold 512 in
theorem cA1_ok : RowsOK {} cA1 := by rows_ok tA_ok
set_option exponentiation.threshold 512 in
theorem cC1_ok : RowsOK {} cC1 := by rows_ok tC_ok
set_option exponentiation.threshold 512 in
theorem cB1_ok : RowsOK {} cB1 := by rows_ok tB_ok
set_option exponentiation.threshold 512 in
theorem cB2_ok : RowsOK {} cB2 := by rows_ok tB_ok
set_option exponentiation.threshold 512 in
theorem cA2_ok : RowsOK {} cA2 := by rows_ok tA_ok
set_option exponentiation.threshold 512 in
theorem cD1_ok : RowsOK {} cD1 := by rows_ok tD_ok
set_option exponentiation.threshold 512 in
theorem cA3_ok : RowsOK {} cA3 := by rows_ok tA_ok
set_option exponentiation.threshold 512 in
theorem cE1_ok : RowsOK {} cE1 := by rows_ok tE_ok
set_option exponentiation.threshold 512 in
theorem cG1_ok : RowsOK {} cG1 := by rows_ok tG_ok

/-- id 7 is announced as (INT, VARCHAR(100)), re-announced INSIDE the first transaction as (BIGINT, VARCHAR(300)) with
    rows in both encodings (one relying on the re-announcement), announced back to the first definition by the next
    unit; id 9 (interleaved) is re-defined ACROSS transactions; the last unit, in the second file, relies on the
    announcement made two units earlier -/
def exRedef : W.History :=
  [.gtid (List.replicate 16 3) 5,
   .tx (asc "BEGIN") [.rows cA1, .rows cC1, .rows cB1, .rows cB2] (.xid 9) 90,
   .autoRows cA2,
   .ddl Props.C01c.exDdl,
   .tx (asc "BEGIN") [.rows cD1, .stmt Props.C01c.exIns] (.commit (asc "COMMIT")) 91,
   .rotate (asc "bin.000002"),
   .autoRows cA3]

def exExt : Ext := ⟨fun _ => [], fun _ => [], fun _ => [], fun _ => 0⟩
/-- the mapper knows table [117] (one column) and answers with the two columns of table [116] for everything else -/
def exEnv : Env := ⟨exExt, fun _ n => if n = [117] then some (infoOf tC) else some (infoOf tA)⟩
/-- … or knows both and fails for everything else -/
def exEnvNone : Env := ⟨exExt, fun _ n => if n = [117] then some (infoOf tC) else if n = [116] then some (infoOf tA) else none⟩

theorem exTx1_ok : UnitOK {} (.tx (asc "BEGIN") [.rows cA1, .rows cC1, .rows cB1, .rows cB2] (.xid 9) 90) := by
  refine ⟨by decide, ?_, trivial, by decide⟩
  intro c hc
  simp only [List.mem_cons, List.not_mem_nil, or_false] at hc
  rcases hc with rfl | rfl | rfl | rfl
  · exact ⟨cA1_ok, by decide⟩
  · exact ⟨cC1_ok, by decide⟩
  · exact ⟨cB1_ok, by decide⟩
  · exact ⟨cB2_ok, by decide⟩

theorem exTx2_ok : UnitOK {} (.tx (asc "BEGIN") [.rows cD1, .stmt Props.C01c.exIns] (.commit (asc "COMMIT")) 91) := by
  refine ⟨by decide, ?_, by unfold CloserOK; decide, by decide⟩
  intro c hc
  simp only [List.mem_cons, List.not_mem_nil, or_false] at hc
  rcases hc with rfl | rfl
  · exact ⟨cD1_ok, by decide⟩
  · exact ⟨Props.C01c.exInsOK, by unfold isChangeCat; decide⟩

theorem exRedefWF : WFHistRedef {} exRedef := by
  refine ⟨?_, by decide, ?_, by decide⟩
  · intro u hu
    simp only [exRedef, List.mem_cons, List.not_mem_nil, or_false] at hu
    rcases hu with rfl | rfl | rfl | rfl | rfl | rfl | rfl
    · trivial
    · exact exTx1_ok
    · exact ⟨cA2_ok, by decide⟩
    · exact ⟨Props.C01c.exDdlOK, by unfold isChangeCat; decide⟩
    · exact exTx2_ok
    · trivial
    · exact ⟨cA3_ok, by decide⟩
  · exact ⟨.inl rfl, .inl rfl, .inl rfl, .inr (by decide), .inl rfl, .inl rfl, .inr (by decide), trivial⟩

/-- `exRedef` is outside the domain of `C01_fidelity_bytes`: two definitions for id 7 -/
example : ¬ WFHist {} exRedef := fun h =>
  absurd (h.tables cA1 (by simp [exRedef, histRows, unitRows, changeRows]) cB1 (by simp [exRedef, histRows, unitRows, changeRows]) rfl)
    (by decide)

theorem exRedefMapper : MapperAgrees exEnv exRedef := by
  intro c hc
  simp [exRedef, histRows, unitRows, changeRows] at hc
  rcases hc with rfl | rfl | rfl | rfl | rfl | rfl | rfl <;> rfl

example : parseEvents exEnv (fun _ => true) (PState.init ⟨W.firstFile, 4⟩)
      ((W.serve {} exRedef ⟨W.firstFile, 4⟩).map Input.event ++ [Input.closed])
    = ⟨(W.expected {} exRedef ⟨W.firstFile, 4⟩).map (toTx exExt), (W.expected {} exRedef ⟨W.firstFile, 4⟩).map (toTx exExt),
       posOf (W.endPos {} exRedef ⟨W.firstFile, 4⟩), false, false⟩ :=
  C15_bytes_redefinition {} exEnv exRedef exRedefWF exRedefMapper
example : (W.expected {} exRedef ⟨W.firstFile, 4⟩).length = 5 := by decide

/-- the 8 configurations (checksums, v1 / v2 rows events, 4- / 6-byte table ids) -/
def allCfgs : List W.Cfg :=
  [⟨false, false, false⟩, ⟨false, false, true⟩, ⟨false, true, false⟩, ⟨false, true, true⟩,
   ⟨true, false, false⟩, ⟨true, false, true⟩, ⟨true, true, false⟩, ⟨true, true, true⟩]

-- … the statement of `C15_bytes_redefinition` on `exRedef`, computed (evaluator) in all 8 configurations
#guard allCfgs.all fun cfg =>
  parseEvents exEnv (fun _ => true) (PState.init ⟨W.firstFile, 4⟩)
      ((W.serve cfg exRedef ⟨W.firstFile, 4⟩).map Input.event ++ [Input.closed])
    == ⟨(W.expected cfg exRedef ⟨W.firstFile, 4⟩).map (toTx exExt), (W.expected cfg exRedef ⟨W.firstFile, 4⟩).map (toTx exExt),
        posOf (W.endPos cfg exRedef ⟨W.firstFile, 4⟩), false, false⟩

/-! ### non-vacuity for Goal C: the mapper answers with two columns (or fails) for the one-column table of id 11 -/
def exH1 : W.History := exRedef.take 4
def exBadUnit : W.Unit := .tx (asc "BEGIN") [.stmt Props.C01c.exIns, .rows cE1, .rows cA3] (.xid 10) 92
def exH2 : W.History := [.rotate (asc "bin.000002"), .autoRows cA3]

theorem exBad_ok : UnitOK {} exBadUnit := by
  refine ⟨by decide, ?_, trivial, by decide⟩
  intro c hc
  simp only [List.mem_cons, List.not_mem_nil, or_false] at hc
  rcases hc with rfl | rfl | rfl
  · exact ⟨Props.C01c.exInsOK, by unfold isChangeCat; decide⟩
  · exact ⟨cE1_ok, by decide⟩
  · exact ⟨cA3_ok, by decide⟩

theorem exBadWF : WFHistRedef {} (exH1 ++ exBadUnit :: exH2) := by
  refine ⟨?_, by decide, ?_, by decide⟩
  · intro u hu
    simp only [exH1, exRedef, exH2, List.take, List.cons_append, List.nil_append, List.mem_cons, List.not_mem_nil,
      or_false] at hu
    rcases hu with rfl | rfl | rfl | rfl | rfl | rfl | rfl
    · trivial
    · exact exTx1_ok
    · exact ⟨cA2_ok, by decide⟩
    · exact ⟨Props.C01c.exDdlOK, by unfold isChangeCat; decide⟩
    · exact exBad_ok
    · trivial
    · exact ⟨cA3_ok, by decide⟩
  · exact ⟨.inl rfl, .inl rfl, .inl rfl, .inr (by decide), .inl rfl, .inl rfl, .inr (by decide), .inr (by decide), trivial⟩

theorem exH1Mapper (env : Env) (hA : env.mapper [100] [116] = some (infoOf tA)) (hC : env.mapper [100] [117] = some (infoOf tC)) :
    MapperAgrees env exH1 := by
  intro c hc
  simp [exH1, exRedef, histRows, unitRows, changeRows] at hc
  rcases hc with rfl | rfl | rfl | rfl | rfl <;> first | exact hA | exact hC

example : parseEvents exEnv (fun _ => true) (PState.init ⟨W.firstFile, 4⟩)
      ((W.serve {} (exH1 ++ exBadUnit :: exH2) ⟨W.firstFile, 4⟩).map Input.event ++ [Input.closed])
    = ⟨(W.expected {} exH1 ⟨W.firstFile, 4⟩).map (toTx exExt), (W.expected {} exH1 ⟨W.firstFile, 4⟩).map (toTx exExt),
       posOf (W.endPos {} exH1 ⟨W.firstFile, 4⟩), true, false⟩ :=
  C15_bytes_mapper_mismatch {} exEnv exH1 exBadUnit exH2 cE1 exBadWF (exH1Mapper exEnv rfl rfl) rfl (by decide)
    (by intro info hi; cases hi; decide)
example : parseEvents exEnvNone (fun _ => true) (PState.init ⟨W.firstFile, 4⟩)
      ((W.serve {} (exH1 ++ exBadUnit :: exH2) ⟨W.firstFile, 4⟩).map Input.event ++ [Input.closed])
    = ⟨(W.expected {} exH1 ⟨W.firstFile, 4⟩).map (toTx exExt), (W.expected {} exH1 ⟨W.firstFile, 4⟩).map (toTx exExt),
       posOf (W.endPos {} exH1 ⟨W.firstFile, 4⟩), true, false⟩ :=
  C15_bytes_mapper_mismatch {} exEnvNone exH1 exBadUnit exH2 cE1 exBadWF (exH1Mapper exEnvNone rfl rfl) rfl (by decide)
    (by intro info hi; cases hi)
example : (W.expected {} exH1 ⟨W.firstFile, 4⟩).length = 3 ∧ W.endPos {} exH1 ⟨W.firstFile, 4⟩ = ⟨W.firstFile, 649⟩ := by decide

-- … the statement of `C15_bytes_mapper_mismatch` on this instance, computed (evaluator) in all 8 configurations, both mappers
#guard allCfgs.all fun cfg => [exEnv, exEnvNone].all fun env =>
  parseEvents env (fun _ => true) (PState.init ⟨W.firstFile, 4⟩)
      ((W.serve cfg (exH1 ++ exBadUnit :: exH2) ⟨W.firstFile, 4⟩).map Input.event ++ [Input.closed])
    == ⟨(W.expected cfg exH1 ⟨W.firstFile, 4⟩).map (toTx exExt), (W.expected cfg exH1 ⟨W.firstFile, 4⟩).map (toTx exExt),
        posOf (W.endPos cfg exH1 ⟨W.firstFile, 4⟩), true, false⟩

/-! ### Goal B: "most recent" matters — a parser that keeps the FIRST table map of an id is wrong -/

/-- MUTATED parser step: a TABLE_MAP event for an id already in the cache is ignored (the cached table map is NOT
    replaced) — everything else as `stepEvent` -/
def stepEventStale (env : Env) (st : PState) (ev : Bytes) : Step :=
  match classify env st ev with
  | .tableMap _ _ true => .cont st
  | d => stepD st d

/-- `parseEvents` over the mutated step -/
def parseEventsStale (env : Env) (handler : Transaction → Bool) : PState → List Input → Outcome
  | st, [] => ⟨[], [], st.pos, false, false⟩
  | st, .closed :: _ => ⟨[], [], st.pos, false, false⟩
  | st, .cancelled :: _ => ⟨[], [], st.pos, false, false⟩
  | st, .event b :: rest =>
    match stepEventStale env st b with
    | .cont st' => parseEventsStale env handler st' rest
    | .stop e c => ⟨[], [], st.pos, e, c⟩
    | .deliver tx acc =>
      if handler tx then
        let o := parseEventsStale env handler acc rest
        { o with calls := tx :: o.calls, accepted := tx :: o.accepted }
      else ⟨[tx], [], st.pos, true, false⟩

/-- id 7 announced as (INT, VARCHAR(100)), one row; re-announced as (BIGINT, VARCHAR(300)), one row -/
def exStale : W.History := [.tx (asc "BEGIN") [.rows cA1, .rows cB1] (.xid 9) 90]

theorem exStaleWF : WFHistRedef {} exStale := by
  refine ⟨?_, by decide, ?_, by decide⟩
  · intro u hu
    simp only [exStale, List.mem_cons, List.not_mem_nil, or_false] at hu
    subst hu
    refine ⟨by decide, ?_, trivial, by decide⟩
    intro c hc
    simp only [List.mem_cons, List.not_mem_nil, or_false] at hc
    rcases hc with rfl | rfl
    · exact ⟨cA1_ok, by decide⟩
    · exact ⟨cB1_ok, by decide⟩
  · exact ⟨.inl rfl, .inl rfl, trivial⟩

theorem exStaleMapper : MapperAgrees exEnv exStale := by
  intro c hc
  simp [exStale, histRows, unitRows, changeRows] at hc
  rcases hc with rfl | rfl <;> rfl

set_option maxRecDepth 100000 in
/-- the "most recent table map" clause is not vacuous: `C15_bytes_redefinition` is FALSE for the mutated parser that
    keeps the first table map of an id.  On `exStale` (kernel-computed) it decodes the BIGINT / 2-byte-length VARCHAR
    row with the INT / 1-byte-length types and ends with an error (in fact `crash`: the Go code would index out of
    range) instead of delivering the transaction. -/
theorem C15_bytes_stale_map_refuted :
    ¬ (∀ (cfg : W.Cfg) (env : Env) (h : W.History), WFHistRedef cfg h → MapperAgrees env h →
        parseEventsStale env (fun _ => true) (PState.init ⟨W.firstFile, 4⟩)
            ((W.serve cfg h ⟨W.firstFile, 4⟩).map Input.event ++ [Input.closed])
          = ⟨(W.expected cfg h ⟨W.firstFile, 4⟩).map (toTx env.ext), (W.expected cfg h ⟨W.firstFile, 4⟩).map (toTx env.ext),
             posOf (W.endPos cfg h ⟨W.firstFile, 4⟩), false, false⟩) := by
  intro hall
  have h := hall {} exEnv exStale exStaleWF exStaleMapper
  have herr := congrArg Outcome.err h
  have : (parseEventsStale exEnv (fun _ => true) (PState.init ⟨W.firstFile, 4⟩)
      ((W.serve {} exStale ⟨W.firstFile, 4⟩).map Input.event ++ [Input.closed])).err = true := by decide
  rw [this] at herr
  cases herr

/-- the binlog types of the delivered columns, per call / event / row -/
def colTypes (txs : List Transaction) : List (List (List (List Nat))) :=
  txs.map fun t => t.events.map fun e => e.rowValues.map fun r => r.map (·.typ)

/-- id 7 re-defined as (FLOAT, VARCHAR(100)): same widths as (INT, VARCHAR(100)) -/
def tF : W.TableDef := { tA with cols := [⟨4, 0, true⟩, ⟨15, 100, true⟩] }
def cF1 : W.RowsChange := { cB1 with table := tF, rows := [([], [some (.f32 0x40490fdb), some (.str [65])])] }
def exStale2 : W.History := [.tx (asc "BEGIN") [.rows cA2, .rows cF1] (.xid 9) 90]

set_option maxRecDepth 100000 in
/-- … and when the old and the new encoding happen to have the same widths the mutated parser does not even fail: it
    silently delivers the FLOAT column of the second rows change as an INT (type 3, the float's bits as a number),
    where the expected transaction — and the real parser — have type 4 (kernel-computed on `exStale2`). -/
theorem C15_bytes_stale_map_silent :
    let run := parseEvents exEnv (fun _ => true) (PState.init ⟨W.firstFile, 4⟩)
      ((W.serve {} exStale2 ⟨W.firstFile, 4⟩).map Input.event ++ [Input.closed])
    let stale := parseEventsStale exEnv (fun _ => true) (PState.init ⟨W.firstFile, 4⟩)
      ((W.serve {} exStale2 ⟨W.firstFile, 4⟩).map Input.event ++ [Input.closed])
    stale.err = false ∧ stale.crash = false ∧
    colTypes ((W.expected {} exStale2 ⟨W.firstFile, 4⟩).map (toTx exExt)) = [[[[3, 15]], [[4, 15]]]] ∧
    colTypes run.calls = [[[[3, 15]], [[4, 15]]]] ∧ colTypes stale.calls = [[[[3, 15]], [[3, 15]]]] := by
  decide

/-! ### of the two new hypotheses of `WFHistRedef`, `current` is needed; `agree` no longer is -/

/-- id 7 announced as table [116] with columns [97], [98], then as table [119] with columns [120], [121] -/
def exNoAgree : W.History := [.tx (asc "BEGIN") [.rows cA1, .rows cG1] (.xid 9) 90]
def exEnvG : Env := ⟨exExt, fun _ n => if n = [119] then some (infoOf tG) else some (infoOf tA)⟩

/-- table and column names of the delivered rows events -/
def tableNames (txs : List Transaction) : List (List ((Bytes × Bytes) × List (List Bytes))) :=
  txs.map fun t => t.events.map fun e => (e.table, e.rowValues.map fun r => r.map (·.field))

/-- `agree` is not needed (for the code as repaired after finding F13): a table id announced for ANOTHER table makes the
    parser ask the mapper again, and definitions of ONE table have the same mapper answer anyway — the mapper is a
    function of (database, name) and `MapperAgrees` says it knows every definition.  So fidelity holds for every
    history of well-formed units in which each rows change carries the definition most recently announced for its id.

    HISTORY.  For streamer.go as found, the NEGATION of this statement was proved here, under the name
    `C15_bytes_redefinition_needs_agree_refuted`: the mapper was asked at the FIRST announcement of a table id only, so
    a re-definition under another table name / other column names was delivered under the first definition's names
    (finding F13; the old control flow is kept, as a variant, in GV/Lemmas/C15c.lean, and
    `GV.Props.C15c.C15_bytes_id_reuse_misattributed_by_old_code` evaluates it). -/
theorem C15_bytes_redefinition_agree_not_needed :
    ∀ (cfg : W.Cfg) (env : Env) (h : W.History), (∀ u ∈ h, UnitOK cfg u) → curOK [] (histRows h) →
        (∀ e ∈ W.layout cfg h, e.next < 2 ^ 32) → MapperAgrees env h →
        parseEvents env (fun _ => true) (PState.init ⟨W.firstFile, 4⟩)
            ((W.serve cfg h ⟨W.firstFile, 4⟩).map Input.event ++ [Input.closed])
          = ⟨(W.expected cfg h ⟨W.firstFile, 4⟩).map (toTx env.ext), (W.expected cfg h ⟨W.firstFile, 4⟩).map (toTx env.ext),
             posOf (W.endPos cfg h ⟨W.firstFile, 4⟩), false, false⟩ :=
  fun cfg env h hu hc ho hm => GV.C15b.fidelity_cur cfg env h hu hc ho hm

theorem exNoAgree_units : ∀ u ∈ exNoAgree, UnitOK {} u := by
  intro u hu
  simp only [exNoAgree, List.mem_cons, List.not_mem_nil, or_false] at hu
  subst hu
  refine ⟨by decide, ?_, trivial, by decide⟩
  intro c hc
  simp only [List.mem_cons, List.not_mem_nil, or_false] at hc
  rcases hc with rfl | rfl
  · exact ⟨cA1_ok, by decide⟩
  · exact ⟨cG1_ok, by decide⟩

theorem exNoAgree_mapper : MapperAgrees exEnvG exNoAgree := by
  intro c hc
  simp [exNoAgree, histRows, unitRows, changeRows] at hc
  rcases hc with rfl | rfl <;> rfl

/-- `exNoAgree` is outside the domain of `C15_bytes_redefinition`: the two definitions of id 7 are different tables -/
example : ¬ WFHistRedef {} exNoAgree := fun h =>
  absurd (h.agree cA1 (by simp [exNoAgree, histRows, unitRows, changeRows]) cG1
    (by simp [exNoAgree, histRows, unitRows, changeRows]) rfl) (by decide)

/-- … and inside the domain of `C15_bytes_redefinition_agree_not_needed` -/
example : parseEvents exEnvG (fun _ => true) (PState.init ⟨W.firstFile, 4⟩)
      ((W.serve {} exNoAgree ⟨W.firstFile, 4⟩).map Input.event ++ [Input.closed])
    = ⟨(W.expected {} exNoAgree ⟨W.firstFile, 4⟩).map (toTx exExt), (W.expected {} exNoAgree ⟨W.firstFile, 4⟩).map (toTx exExt),
       posOf (W.endPos {} exNoAgree ⟨W.firstFile, 4⟩), false, false⟩ :=
  C15_bytes_redefinition_agree_not_needed {} exEnvG exNoAgree exNoAgree_units ⟨.inl rfl, .inl rfl, trivial⟩ (by decide)
    exNoAgree_mapper

set_option maxRecDepth 100000 in
/-- kernel-computed on `exNoAgree`: the second rows change — id 7 re-used for table [119] — is delivered under table
    [119] with its own column names, as expected (the code as found delivered it under table [116], columns [97], [98]) -/
theorem C15_bytes_redefinition_other_name_example :
    tableNames (parseEvents exEnvG (fun _ => true) (PState.init ⟨W.firstFile, 4⟩)
        ((W.serve {} exNoAgree ⟨W.firstFile, 4⟩).map Input.event ++ [Input.closed])).calls
      = [[(([100], [116]), [[[97], [98]]]), (([100], [119]), [[[120], [121]]])]] ∧
    tableNames ((W.expected {} exNoAgree ⟨W.firstFile, 4⟩).map (toTx exEnvG.ext))
      = [[(([100], [116]), [[[97], [98]]]), (([100], [119]), [[[120], [121]]])]] := by
  constructor <;> decide

/-- id 7 announced as (INT, VARCHAR(100)), re-announced as (BIGINT, VARCHAR(300)), then a rows event in the FIRST
    encoding without a new announcement -/
def exNoCur : W.History := [.tx (asc "BEGIN") [.rows cA1, .rows cB1, .rows cA3] (.xid 9) 90]

set_option maxRecDepth 100000 in
/-- without `current` (only "announced at some point before", as `annOK` of C01c says) the theorem is false: rows
    written in an encoding that is not the most recently announced one are decoded with the wrong types
    (kernel-computed on `exNoCur`: the run ends with an error) -/
theorem C15_bytes_redefinition_needs_current_refuted :
    ¬ (∀ (cfg : W.Cfg) (env : Env) (h : W.History), (∀ u ∈ h, UnitOK cfg u) →
        (∀ c1 ∈ histRows h, ∀ c2 ∈ histRows h, c1.table.id = c2.table.id → SameInfo c1.table c2.table) →
        annOK [] (histRows h) → (∀ e ∈ W.layout cfg h, e.next < 2 ^ 32) → MapperAgrees env h →
        parseEvents env (fun _ => true) (PState.init ⟨W.firstFile, 4⟩)
            ((W.serve cfg h ⟨W.firstFile, 4⟩).map Input.event ++ [Input.closed])
          = ⟨(W.expected cfg h ⟨W.firstFile, 4⟩).map (toTx env.ext), (W.expected cfg h ⟨W.firstFile, 4⟩).map (toTx env.ext),
             posOf (W.endPos cfg h ⟨W.firstFile, 4⟩), false, false⟩) := by
  intro hall
  have h := hall {} exEnv exNoCur ?_ (by decide) ⟨.inl rfl, .inl rfl, .inr (by decide), trivial⟩ (by decide) ?_
  · have herr := congrArg Outcome.err h
    have : (parseEvents exEnv (fun _ => true) (PState.init ⟨W.firstFile, 4⟩)
        ((W.serve {} exNoCur ⟨W.firstFile, 4⟩).map Input.event ++ [Input.closed])).err = true := by decide
    rw [this] at herr
    cases herr
  · intro u hu
    simp only [exNoCur, List.mem_cons, List.not_mem_nil, or_false] at hu
    subst hu
    refine ⟨by decide, ?_, trivial, by decide⟩
    intro c hc
    simp only [List.mem_cons, List.not_mem_nil, or_false] at hc
    rcases hc with rfl | rfl | rfl
    · exact ⟨cA1_ok, by decide⟩
    · exact ⟨cB1_ok, by decide⟩
    · exact ⟨cA3_ok, by decide⟩
  · intro c hc
    simp [exNoCur, histRows, unitRows, changeRows] at hc
    rcases hc with rfl | rfl | rfl <;> rfl

end GV.Props.C15b
