import GV.Model.Rows
import GV.Spec.CellWF
import GV.Lemmas.Dec
import GV.Lemmas.C09Rows
import GV.Expect.C09
/-
  C09 (second part) — cells, images and whole rows events round-trip (DESIGN §7 C09).
  Property theorems only; helper lemmas in GV/Lemmas/C09Rows.lean.
-/
namespace GV.Props.C09b
open GV GV.M

/-- the text the model's decoder produces for a well-formed value: the Spec's canonical text with the runtime
    parameters instantiated by the model's own (`printTimestamp`, `fmtFloat32/64`) -/
def textOf (E : Ext) (md : Nat) (v : W.CellVal) : Bytes :=
  W.text md (fun sec => printTimestamp E sec) E.fmtFloat32 E.fmtFloat64 v

/-- Uniform cell theorem: for every supported column type, its full valid metadata domain and every value, the
    length rule returns exactly the encoded length and the decoder returns the canonical text and the same length —
    wherever the cell sits in the buffer. -/
theorem C09_cell_exact (E : Ext) (typ md : Nat) (u : Bool) (v : W.CellVal) (h : W.CellOK typ md u v) (pre rest : Bytes) :
    cellLength (pre ++ (W.cell typ md v ++ rest)) pre.length typ md = .ok (W.cell typ md v).length ∧
    cellBytes E (pre ++ (W.cell typ md v ++ rest)) pre.length typ md u = .ok (textOf E md v, (W.cell typ md v).length) :=
  GV.C09R.cell_exact E typ md u v h pre rest

/-- columns with their values for one image: (definition, signedness, value) for the present columns -/
def ImageOK (cols : List (W.ColDef × Bool)) (vals : List (Option W.CellVal)) : Prop :=
  cols.length = vals.length ∧
  ∀ p ∈ List.zip cols vals, match p.2 with | some v => W.CellOK p.1.1.typ p.1.1.md p.1.2 v | none => True

/-- skipping an image with the length rule consumes exactly the encoded image (any column count, multi-byte NULL
    bitmaps, any NULL pattern, any position in the buffer) -/
theorem C09_image_skipped (tmTypes : Bytes) (tmMd : List Nat) (allCols : List (W.ColDef × Bool)) (present : List Bool)
    (hp : present.length = allCols.length)
    (htm : tmTypes = allCols.map (fun c => UInt8.ofNat c.1.typ) ∧ tmMd = allCols.map (fun c => c.1.md))
    (vals : List (Option W.CellVal)) (hok : ImageOK (W.selectPresent present allCols) vals) (pre rest : Bytes) :
    let tm : TableMap := { flags := 0, database := [], name := [], types := tmTypes, canBeNull := ⟨[], 0⟩, metadata := tmMd }
    let presentBm : Bitmap := ⟨W.bitmapBytes present, present.length⟩
    let nullBm : Bitmap := ⟨W.bitmapBytes (vals.map (·.isNone)), vals.length⟩
    let cells : Bytes := (List.zip ((W.selectPresent present allCols).map (·.1)) vals).flatMap
      fun (c, v) => match v with | some x => W.cell c.typ c.md x | none => []
    skipImage (pre ++ (cells ++ rest)) tm presentBm nullBm allCols.length 0 0 pre.length = .ok (pre.length + cells.length) := by
  intro tm presentBm nullBm cells
  exact GV.C09R.image_skipped tmTypes tmMd allCols present hp htm vals hok pre rest

/-
  ORIGINAL STATEMENT — FALSE as written (refuted below by `C09_image_consumed_refuted`):

/- decoding an image column by column consumes it exactly and yields, per column of the table, absent / NULL /
    the canonical text of the value — with the mapper's names and the table map's types -/
theorem C09_image_consumed (E : Ext) (allCols : List (W.ColDef × Bool)) (names : List Bytes) (present : List Bool)
    (hp : present.length = allCols.length) (hn : names.length = allCols.length)
    (vals : List (Option W.CellVal)) (hok : ImageOK (W.selectPresent present allCols) vals) :
    let tm : TableMap := { flags := 0, database := [], name := [], types := allCols.map (fun c => UInt8.ofNat c.1.typ),
                           canBeNull := ⟨[], 0⟩, metadata := allCols.map (fun c => c.1.md) }
    let ti : TableInfo := { db := [], table := [], columns := List.zip names (allCols.map (·.2)) }
    let presentBm : Bitmap := ⟨W.bitmapBytes present, present.length⟩
    let nullBm : Bitmap := ⟨W.bitmapBytes (vals.map (·.isNone)), vals.length⟩
    let cells : Bytes := (List.zip ((W.selectPresent present allCols).map (·.1)) vals).flatMap
      fun (c, v) => match v with | some x => W.cell c.typ c.md x | none => []
    ∃ out, rowColumns E tm ti presentBm nullBm cells allCols.length 0 0 0 = .ok out ∧
      out.length = allCols.length ∧
      ∀ i (hi : i < allCols.length), ∃ c, out[i]? = some c ∧ c.field = names[i]! ∧ c.typ = (allCols[i]).1.typ ∧
        (present[i]! = false → c.col = .absent)

  Why: `W.ColDef.typ` is an unbounded `Nat`, but the table map stores the type code as ONE BYTE
  (`types := allCols.map (fun c => UInt8.ofNat c.1.typ)`), and the decoder reports `t.toNat`, i.e. `typ % 256`.
  For a column that is present and non-NULL, `W.CellOK` pins the type code to a real MySQL code (< 256); for a column
  that is ABSENT or NULL in this image nothing bounds it.  Counterexample: `allCols = [(⟨300, 0, true⟩, false)]`,
  `present = [false]`, `vals = []`, `names = [[]]`: the decoder yields `typ := 44` (= 300 % 256), not 300.
  The corrected statement adds `∀ c ∈ allCols, c.1.typ < 256` (implied by `C15.ColOK` for every column of a
  written table map).  Nothing else changes.
-/

/-- decoding an image column by column consumes it exactly and yields, per column of the table, absent / NULL /
    the canonical text of the value — with the mapper's names and the table map's types
    (corrected: type codes are bytes) -/
theorem C09_image_consumed_partial (E : Ext) (allCols : List (W.ColDef × Bool)) (names : List Bytes) (present : List Bool)
    (hp : present.length = allCols.length) (hn : names.length = allCols.length)
    (htyp : ∀ c ∈ allCols, c.1.typ < 256)
    (vals : List (Option W.CellVal)) (hok : ImageOK (W.selectPresent present allCols) vals) :
    let tm : TableMap := { flags := 0, database := [], name := [], types := allCols.map (fun c => UInt8.ofNat c.1.typ),
                           canBeNull := ⟨[], 0⟩, metadata := allCols.map (fun c => c.1.md) }
    let ti : TableInfo := { db := [], table := [], columns := List.zip names (allCols.map (·.2)) }
    let presentBm : Bitmap := ⟨W.bitmapBytes present, present.length⟩
    let nullBm : Bitmap := ⟨W.bitmapBytes (vals.map (·.isNone)), vals.length⟩
    let cells : Bytes := (List.zip ((W.selectPresent present allCols).map (·.1)) vals).flatMap
      fun (c, v) => match v with | some x => W.cell c.typ c.md x | none => []
    ∃ out, rowColumns E tm ti presentBm nullBm cells allCols.length 0 0 0 = .ok out ∧
      out.length = allCols.length ∧
      ∀ i (hi : i < allCols.length), ∃ c, out[i]? = some c ∧ c.field = names[i]! ∧ c.typ = (allCols[i]).1.typ ∧
        (present[i]! = false → c.col = .absent) := by
  intro tm ti presentBm nullBm cells
  obtain ⟨h1, h2⟩ := GV.C09R.expect_props E allCols present names vals hp hn hok.1
  exact ⟨_, GV.C09R.image_consumed E allCols names present hp hn htyp vals hok, h1, h2⟩

/-- the exact output (stronger than the statement above: also NULL and the canonical text of every value): the
    column loop returns, per table column, `absent` / `null` / `value (textOf …)` -/
theorem C09_image_consumed_exact (E : Ext) (allCols : List (W.ColDef × Bool)) (names : List Bytes) (present : List Bool)
    (hp : present.length = allCols.length) (hn : names.length = allCols.length)
    (htyp : ∀ c ∈ allCols, c.1.typ < 256)
    (vals : List (Option W.CellVal)) (hok : ImageOK (W.selectPresent present allCols) vals) :
    let tm : TableMap := { flags := 0, database := [], name := [], types := allCols.map (fun c => UInt8.ofNat c.1.typ),
                           canBeNull := ⟨[], 0⟩, metadata := allCols.map (fun c => c.1.md) }
    let ti : TableInfo := { db := [], table := [], columns := List.zip names (allCols.map (·.2)) }
    let presentBm : Bitmap := ⟨W.bitmapBytes present, present.length⟩
    let nullBm : Bitmap := ⟨W.bitmapBytes (vals.map (·.isNone)), vals.length⟩
    let cells : Bytes := (List.zip ((W.selectPresent present allCols).map (·.1)) vals).flatMap
      fun (c, v) => match v with | some x => W.cell c.typ c.md x | none => []
    rowColumns E tm ti presentBm nullBm cells allCols.length 0 0 0 = .ok (GV.C09R.expectCols E allCols present names vals) := by
  intro tm ti presentBm nullBm cells
  exact GV.C09R.image_consumed E allCols names present hp hn htyp vals hok

/-- the original statement (no bound on the type codes) does not hold -/
theorem C09_image_consumed_refuted :
    ¬ (∀ (E : Ext) (allCols : List (W.ColDef × Bool)) (names : List Bytes) (present : List Bool)
      (_ : present.length = allCols.length) (_ : names.length = allCols.length)
      (vals : List (Option W.CellVal)) (_ : ImageOK (W.selectPresent present allCols) vals),
      let tm : TableMap := { flags := 0, database := [], name := [], types := allCols.map (fun c => UInt8.ofNat c.1.typ),
                             canBeNull := ⟨[], 0⟩, metadata := allCols.map (fun c => c.1.md) }
      let ti : TableInfo := { db := [], table := [], columns := List.zip names (allCols.map (·.2)) }
      let presentBm : Bitmap := ⟨W.bitmapBytes present, present.length⟩
      let nullBm : Bitmap := ⟨W.bitmapBytes (vals.map (·.isNone)), vals.length⟩
      let cells : Bytes := (List.zip ((W.selectPresent present allCols).map (·.1)) vals).flatMap
        fun (c, v) => match v with | some x => W.cell c.typ c.md x | none => []
      ∃ out, rowColumns E tm ti presentBm nullBm cells allCols.length 0 0 0 = .ok out ∧
        out.length = allCols.length ∧
        ∀ i (hi : i < allCols.length), ∃ c, out[i]? = some c ∧ c.field = names[i]! ∧ c.typ = (allCols[i]).1.typ ∧
          (present[i]! = false → c.col = .absent)) := by
  intro h
  have := h ⟨fun _ => [], fun _ => [], fun _ => [], fun _ => 0⟩ [(⟨300, 0, true⟩, false)] [[]] [false] rfl rfl []
    ⟨rfl, by intro p hp; simp [W.selectPresent] at hp⟩
  obtain ⟨out, ho, _, hall⟩ := this
  obtain ⟨c, hc, _, ht, _⟩ := hall 0 (by decide)
  have e : out = [⟨[], 44, .absent⟩] := by
    have : Res.ok out = Res.ok [⟨[], 44, .absent⟩] := by rw [← ho]; decide
    exact Res.ok.inj this
  subst e
  simp at hc
  subst hc
  simp at ht

/-- A whole rows event decodes to exactly the rows the master encoded: flags, presence bitmaps, row count, and per
    row the NULL bitmaps and the byte-for-byte images — write / update / delete, v1 / v2, 4- / 6-byte table ids, any
    extra-data length, any number of columns, 0..R rows. -/
theorem C09_rows_roundtrip (f : Format) (hf : f.headerLength = 19) (hdr : Bytes) (hh : hdr.length = 19)
    (k : W.RowKind) (v2 : Bool) (idw id flags : Nat) (hidw : idw = 4 ∨ idw = 6)
    (h4 : hdr[4]? = some (UInt8.ofNat (W.rowsEventType k v2)))
    (hhs : f.headerSize (W.rowsEventType k v2) = .ok (if idw = 4 then 6 else if v2 then 10 else 8))
    (hid : id < 256 ^ idw) (hfl : flags < 65536) (extra : Bytes) (hex : extra.length < 65534)
    (cols : List (W.ColDef × Bool)) (hne : cols ≠ []) (hn : cols.length < 2 ^ 31)
    (pb pa : List Bool) (hpb : pb.length = cols.length) (hpa : pa.length = cols.length)
    (rows : List (List (Option W.CellVal) × List (Option W.CellVal)))
    (hrows : ∀ r ∈ rows, (k ≠ .write → ImageOK (W.selectPresent pb cols) r.1) ∧ (k ≠ .delete → ImageOK (W.selectPresent pa cols) r.2))
    (hwide : ∀ r ∈ rows, 0 < ((if k ≠ .write then W.imageBytes ((W.selectPresent pb cols).map (·.1)) r.1 else []) ++
                              (if k ≠ .delete then W.imageBytes ((W.selectPresent pa cols).map (·.1)) r.2 else [])).length) :
    let tm : TableMap := { flags := 0, database := [], name := [], types := cols.map (fun c => UInt8.ofNat c.1.typ),
                           canBeNull := ⟨[], 0⟩, metadata := cols.map (fun c => c.1.md) }
    let colDefs := cols.map (·.1)
    ∃ rs, M.rows f tm (hdr ++ W.rowsBody k v2 idw id flags extra colDefs pb pa rows) = .ok rs ∧
      rs.flags = flags ∧ rs.rows.length = rows.length ∧
      (k ≠ .write → rs.identifyColumns = ⟨W.bitmapBytes pb, cols.length⟩) ∧
      (k ≠ .delete → rs.dataColumns = ⟨W.bitmapBytes pa, cols.length⟩) ∧
      ∀ i (hi : i < rows.length), ∃ r, rs.rows[i]? = some r ∧
        (k ≠ .write → (r.nullIdentify.data ++ r.identify) = W.imageBytes ((W.selectPresent pb cols).map (·.1)) (rows[i]).1) ∧
        (k ≠ .delete → (r.nullData.data ++ r.data) = W.imageBytes ((W.selectPresent pa cols).map (·.1)) (rows[i]).2) := by
  have _ := hid   -- not needed: the rows decoder never reads the table id
  intro tm colDefs
  exact GV.C09R.rows_roundtrip f hf hdr hh k v2 idw id flags hidw h4 hhs hfl extra hex cols hne hn pb pa hpb hpa
    rows hrows hwide

/-! non-vacuity -/
example : W.CellOK 15 300 false (.str [1, 2, 3]) := Or.inl ⟨Or.inl rfl, by decide, by decide⟩
example : ImageOK [(⟨3, 0, true⟩, false), (⟨15, 300, true⟩, false)] [some (.int 4 (-5)), none] :=
  ⟨rfl, by intro p hp; simp [List.zip] at hp; rcases hp with rfl | rfl <;> simp [W.CellOK, W.intTypes]⟩

end GV.Props.C09b
