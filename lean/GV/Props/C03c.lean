import GV.Props.C03b
import GV.Lemmas.C03c
/-
  C03 at the BYTE level, the two dimensions the test driver (GV/Driver/Hist.lean) adds OUTSIDE the Spec
  (GV/Spec/History.lean), for which Props/C01c, C01d, C04b, C03b say nothing:

  (a) RELOCATION (`bias=N`, binlog files larger than 2 GiB).  With fnext = FN cfg = (W.fdeEvent cfg 4 none).2, the end
      of a file's head FORMAT_DESCRIPTION event, `relocOff fnext N o = if o ≤ fnext then o else o + N` moves every offset
      beyond the file head up by N.  The driver rewrites the served packets: `relocPacket` replaces the 4-byte
      next_position header field (bytes 13..16; an artificial event's 0 stays 0, shorter packets are left alone) and
      nothing else; `relocFirst` rewrites the 8-byte offset in the body of the artificial ROTATE that opens a dump.
      Intended meaning: an event's bytes depend on its place in the file only through next_position.
  (b) START FILE NAME.  The replica is configured with ("", off); the master serves its first file; the parser skips the
      artificial ROTATE (it has no format yet) and so keeps labelling with "" until a ROTATE names the next file.

  Property theorems and non-vacuity examples only; definitions and helper lemmas are in GV/Lemmas/C03c.lean (namespace
  GV.C03c).  Vocabulary, on top of Props/C04b (runClean, served, preamble, specOut, EndsWith, Resumable) and Props/C01c,
  C01d (toTx, posOf, Lands, WFFrom, unitsFrom, MapperAgrees, FN, logFiles):

    relocOff / relocPacket / relocFirst   the driver's (GV.D), used as they are
    relocStream fnext N s      first packet through relocFirst, the others through relocPacket (what `bias=N` serves)
    relocI fnext N             relocOff on the model's int64 offsets;  relocPosn: on a model Position
    relocTx fnext N tx         tx with both labels' offsets relocated, contents untouched
    relocOutcome fnext N o     calls and accepted mapped through relocTx, the final position relocated, flags untouched
    relocSt / relocStep        a parser state with its position relocated / a step result with state, labels relocated
    relocPos / relocETx        the same on Spec positions / expected transactions (toTx ∘ relocETx = relocTx ∘ toTx)
    FitP fnext N b             b is shorter than a header, or its relocated next_position still fits 4 bytes
    FmtOK st                   the parser has no format yet, or a header length ≥ 17 (an invariant of every run from
                               `PState.init`: FORMAT_DESCRIPTION events with a header length < 19 are refused)
    runReloc / runCleanReloc   an attempt / the clean complete attempt of a replica whose stored position is the
                               relocated p, against the relocated dump for p
    renPosn g f0 / renTx / renOutcome / renPos / renETx   the file name g replaced by f0 in a position / the labels of a
                               transaction / an outcome (Spec side: renPos, renETx); other names untouched

  HANDLERS.  The handler of a relocated run is called with relocated transactions.  The statements therefore quantify
  over ANY handler `acc` on the relocated side and compare with the original run under `acc ∘ relocTx` (resp.
  `acc ∘ renTx`).  With the SAME handler on both sides the statement is FALSE for handlers that look at labels
  (`C03_bytes_relocation_same_handler_refuted`); it is true for label-blind ones (`C03_bytes_relocation_label_blind`).

  RESULTS
    C03_stepEvent_relocation     MODEL level, any packet: `stepEvent` commutes with relocation — the parser reads
                                 next_position in its commit step only, copies it into the `next` label and the kept
                                 position, and nothing else — PROVIDED a ROTATE the packet decodes to carries an offset
                                 ≤ fnext in its BODY (relocPacket does not touch bodies).  A real ROTATE's header
                                 next_position is > fnext in general and IS rewritten, but `classify` never reads it
                                 for a ROTATE.  Without the proviso the statement is false:
    C03_stepEvent_relocation_rotate_refuted   a ROTATE to offset 1000 (not something the Spec master writes: its
                                 ROTATEs always carry 4)
    C03_bytes_relocation         against the Spec master, for EVERY handler, cut and quiet ending (as in
                                 `C04_bytes_outcome`): outcome on the relocated dump = relocOutcome of the outcome on the
                                 original dump = relocOutcome of the Spec's own account (`specOut`)
    C03_bytes_relocation_clean   accept-all complete run: the expected transactions with relocated labels
    C03_bytes_start_name         for EVERY start name f0 (in particular []), every boundary of the first file, every
                                 handler, cut and quiet ending: the outcome is the one of the correctly configured
                                 replica with W.firstFile renamed to f0 in labels and final position.  Needs the first
                                 file's name not reused: (logFiles h).count W.firstFile ≤ 1 (implied by FreshLog h)
    C03_bytes_start_name_clean / _boundary / _head   accept-all complete run, Spec-side renaming; from a boundary of
                                 the first file (hypotheses of `C01_fidelity_bytes_resume`); from the head of the log
    C03_bytes_start_name_reuse_refuted   WHY the name must not be reused: after `ROTATE bin.000001` the parser labels
                                 with the real name again, the renaming would say ""
    C03_bytes_relocated_resume   resuming at the relocated end label of the i-th transaction of a relocated run delivers
                                 exactly the remaining relocated transactions (1 + `C03_bytes_resume_at_label`)
  Nothing is partial.  No event body the Spec writes depends on its offset, and the parser reads no header field it was
  not expected to read; the only surprise is the proviso on ROTATE bodies above.
  Checked by evaluation before proving (scratch files): 12 units incl. ROTATE and restart, all 8 configurations,
  N ∈ {0, 2^31, 2^32 − 2^21}, every boundary, 6 handlers (label-reading ones included), 14 cuts, 4 endings — 129 024 runs
  for (a), 53 760 for (b) with f0 ∈ {[], other.000009, bin.000002, bin.000001}, 1 488 resumes; 0 mismatches.
-/
namespace GV.Props.C03c
open GV GV.M GV.Props.C01 GV.Props.C01b GV.C01c GV.Props.C01c GV.C01d GV.Props.C01d GV.C04b GV.Props.C04b GV.C02b
  GV.C03b GV.Props.C03b GV.C03c
open GV.D (relocOff relocPacket relocFirst)

/-- the vocabulary, pinned to the driver's functions and to the model's types -/
theorem C03_relocation_vocabulary (cfg : W.Cfg) (env : Env) (h : W.History) (fnext N o : Nat) (b : Bytes)
    (rest : List Bytes) (tx : Transaction) (out : Outcome) (st : PState) (p : W.Pos) (t : W.ETx) (g f0 : Bytes)
    (a : Attempt) :
    FN cfg = (W.fdeEvent cfg 4 none).2 ∧
    relocOff fnext N o = (if o ≤ fnext then o else o + N) ∧
    relocStream fnext N (b :: rest) = relocFirst fnext N b :: rest.map (relocPacket fnext N) ∧
    relocStream fnext N [] = [] ∧
    relocI fnext N (o : Int) = ((relocOff fnext N o : Nat) : Int) ∧
    relocTx fnext N tx = { tx with now := ⟨tx.now.file, relocI fnext N tx.now.offset⟩,
                                   next := ⟨tx.next.file, relocI fnext N tx.next.offset⟩ } ∧
    relocOutcome fnext N out = ⟨out.calls.map (relocTx fnext N), out.accepted.map (relocTx fnext N),
      ⟨out.pos.file, relocI fnext N out.pos.offset⟩, out.err, out.crash⟩ ∧
    relocSt fnext N st = { st with pos := ⟨st.pos.file, relocI fnext N st.pos.offset⟩ } ∧
    relocPos fnext N p = ⟨p.file, relocOff fnext N p.offset⟩ ∧
    toTx env.ext (relocETx fnext N t) = relocTx fnext N (toTx env.ext t) ∧
    renPos g f0 p = (if p.file = g then ⟨f0, p.offset⟩ else p) ∧
    toTx env.ext (renETx g f0 t) = renTx g f0 (toTx env.ext t) ∧
    renOutcome g f0 out = ⟨out.calls.map (renTx g f0), out.accepted.map (renTx g f0), renPosn g f0 out.pos,
      out.err, out.crash⟩ ∧
    runReloc cfg env h N a p = parseEvents env a.handler (PState.init (posOf (relocPos (FN cfg) N p)))
      (((relocStream (FN cfg) N (W.serve cfg h p)).take a.cut).map Input.event ++ a.tail) ∧
    runCleanReloc cfg env h N p = parseEvents env (fun _ => true) (PState.init (posOf (relocPos (FN cfg) N p)))
      ((relocStream (FN cfg) N (W.serve cfg h p)).map Input.event ++ [Input.closed]) :=
  ⟨rfl, rfl, rfl, rfl, relocI_cast fnext N o, rfl, rfl, rfl, rfl, toTx_relocETx fnext N env.ext t, rfl,
   toTx_renETx g f0 env.ext t, rfl, rfl, rfl⟩

/-! ### (a) relocation -/

/-- MODEL level, ANY packet b and ANY parser state whose format is absent or has a header length ≥ 17: if the relocated
    next_position of b fits its 4-byte field, and b — should the parser decode it as a ROTATE — carries an offset ≤ fnext
    in its body, then the parser's step on the relocated packet from the relocated state is the relocated step:
    same verdict, same decoded contents, every label offset and the kept position mapped through `relocI fnext N`. -/
theorem C03_stepEvent_relocation (fnext N : Nat) (env : Env) (st : PState) (b : Bytes) (hf : FmtOK st)
    (hfit : FitP fnext N b) (hrot : ∀ f o, classify env st b = .rotate f o → o ≤ (fnext : Int)) :
    stepEvent env (relocSt fnext N st) (relocPacket fnext N b) = relocStep fnext N (stepEvent env st b) ∧
    (∀ st', stepEvent env st b = .cont st' → FmtOK st') ∧
    (∀ tx acc, stepEvent env st b = .deliver tx acc → FmtOK acc) :=
  ⟨stepEvent_reloc fnext N env st b hf hfit hrot, (fmtOK_step env st b hf).1, (fmtOK_step env st b hf).2⟩

/-- … and the proviso on ROTATE bodies is needed: `relocPacket` rewrites the header only, so a ROTATE event whose body
    names offset 1000 (> fnext = 125) sends the parser to 1000, not to 1000 + N.  (The Spec master's ROTATE events and
    artificial ROTATEs always name offset 4; the requested offset in the artificial ROTATE that opens a dump is never
    read — the parser has no format then.) -/
theorem C03_stepEvent_relocation_rotate_refuted :
    ¬ (∀ (fnext N : Nat) (env : Env) (st : PState) (b : Bytes), FmtOK st → FitP fnext N b →
        stepEvent env (relocSt fnext N st) (relocPacket fnext N b) = relocStep fnext N (stepEvent env st b)) := by
  intro hall
  have h := hall 125 7 exEnv { PState.init ⟨[], 4⟩ with format := fmtOf {} }
    (bytesAt {} 200 4 0 (W.rotateBody 1000 [120])) (Or.inr (by decide)) (fun _ => by decide)
  revert h
  decide

/-- (a), against the Spec master.  For EVERY N such that every relocated end offset of the layout still fits 32 bits,
    every handler `acc` (called with the relocated transactions), every cut k of the relocated dump and every quiet
    ending: the outcome of the replica whose stored position is the relocated p is the outcome of the replica at p on
    the original dump under the handler `acc ∘ relocTx`, with every delivered label offset and the final position
    mapped through `relocOff fnext N` — contents, verdicts and flags identical; and that is the Spec's own account
    (`specOut`, Props/C04b) relocated. -/
theorem C03_bytes_relocation (cfg : W.Cfg) (env : Env) (h : W.History) (p : W.Pos) (hl : Lands cfg h p)
    (hwf : WFFrom cfg h p) (hm : MapperAgrees env (unitsFrom cfg h p)) (N : Nat)
    (hfit : ∀ e ∈ W.layout cfg h, relocOff (W.fdeEvent cfg 4 none).2 N e.next < 2 ^ 32)
    (acc : Transaction → Bool) (k : Nat) (e : Bool) (tail : List Input) (ht : EndsWith env e tail) :
    parseEvents env acc (PState.init (posOf ⟨p.file, relocOff (FN cfg) N p.offset⟩))
        (((relocStream (FN cfg) N (W.serve cfg h p)).take k).map Input.event ++ tail)
      = relocOutcome (FN cfg) N (parseEvents env (acc ∘ relocTx (FN cfg) N) (PState.init (posOf p))
          (((W.serve cfg h p).take k).map Input.event ++ tail)) ∧
    parseEvents env acc (PState.init (posOf ⟨p.file, relocOff (FN cfg) N p.offset⟩))
        (((relocStream (FN cfg) N (W.serve cfg h p)).take k).map Input.event ++ tail)
      = relocOutcome (FN cfg) N
          (specOut env.ext (acc ∘ relocTx (FN cfg) N) e ((served cfg h p).take (k - preamble cfg h p)) p) := by
  have h1 := relocation_lands cfg env h p hl hwf hm N (relocFits_of_layout cfg h p N hfit) acc k e tail ht
  refine ⟨h1, ?_⟩
  rw [h1, C04_bytes_outcome cfg env h p hl hwf hm (acc ∘ relocTx (FN cfg) N) k e tail ht]

/-- … for a handler that does not look at the labels, the same handler on both sides -/
theorem C03_bytes_relocation_label_blind (cfg : W.Cfg) (env : Env) (h : W.History) (p : W.Pos) (hl : Lands cfg h p)
    (hwf : WFFrom cfg h p) (hm : MapperAgrees env (unitsFrom cfg h p)) (N : Nat)
    (hfit : ∀ e ∈ W.layout cfg h, relocOff (W.fdeEvent cfg 4 none).2 N e.next < 2 ^ 32)
    (acc : Transaction → Bool) (hblind : ∀ tx, acc (relocTx (FN cfg) N tx) = acc tx)
    (a : Attempt) (ha : a.handler = acc) (e : Bool) (ht : EndsWith env e a.tail) :
    runReloc cfg env h N a p = relocOutcome (FN cfg) N (runAttempt cfg env h a p) := by
  have := (C03_bytes_relocation cfg env h p hl hwf hm N hfit acc a.cut e a.tail ht).1
  have hc : acc ∘ relocTx (FN cfg) N = acc := funext hblind
  rw [hc] at this
  unfold runReloc runAttempt
  rw [ha]
  exact this

/-- (a), the clean complete run: the replica delivers the expected transactions with both labels relocated and ends at
    the relocated end position -/
theorem C03_bytes_relocation_clean (cfg : W.Cfg) (env : Env) (h : W.History) (p : W.Pos) (hl : Lands cfg h p)
    (hwf : WFFrom cfg h p) (hm : MapperAgrees env (unitsFrom cfg h p)) (N : Nat)
    (hfit : ∀ e ∈ W.layout cfg h, relocOff (W.fdeEvent cfg 4 none).2 N e.next < 2 ^ 32) :
    runCleanReloc cfg env h N p = relocOutcome (FN cfg) N (runClean cfg env h p) ∧
    runCleanReloc cfg env h N p
      = ⟨((W.expected cfg h p).map (relocETx (FN cfg) N)).map (toTx env.ext),
         ((W.expected cfg h p).map (relocETx (FN cfg) N)).map (toTx env.ext),
         posOf (relocPos (FN cfg) N (W.endPos cfg h p)), false, false⟩ := by
  have h1 := reloc_clean cfg env h p hl hwf hm N (relocFits_of_layout cfg h p N hfit)
  refine ⟨h1, ?_⟩
  have hrun : runClean cfg env h p = _ := C01_fidelity_bytes_resume_lands cfg env h p hl hwf hm
  rw [h1, hrun, relocOutcome_clean]

/-- (a) + C03: resuming at a relocated end label.  For EVERY i, in the clean run on the relocated dump from the
    relocated p the i-th call is the i-th expected transaction with relocated labels; its end label is the relocated
    t.next; t.next is a position the master can serve from; and the clean run of a replica started at that relocated
    end label, against the relocated dump for t.next, delivers exactly the calls of the first run from the (i+1)-th on —
    identical contents and (relocated) labels, none skipped, none repeated — and ends at the same position. -/
theorem C03_bytes_relocated_resume (cfg : W.Cfg) (env : Env) (h : W.History) (p : W.Pos) (hr : Resumable cfg env h p)
    (N : Nat) (hfit : ∀ e ∈ W.layout cfg h, relocOff (W.fdeEvent cfg 4 none).2 N e.next < 2 ^ 32)
    (i : Nat) (t : W.ETx) (hi : (W.expected cfg h p)[i]? = some t) :
    (runCleanReloc cfg env h N p).calls[i]? = some (toTx env.ext (relocETx (FN cfg) N t)) ∧
    (toTx env.ext (relocETx (FN cfg) N t)).next = posOf (relocPos (FN cfg) N t.next) ∧
    Resumable cfg env h t.next ∧
    runCleanReloc cfg env h N t.next
      = ⟨(runCleanReloc cfg env h N p).calls.drop (i + 1), (runCleanReloc cfg env h N p).calls.drop (i + 1),
         (runCleanReloc cfg env h N p).pos, false, false⟩ ∧
    (runCleanReloc cfg env h N p).calls
      = (runCleanReloc cfg env h N p).calls.take (i + 1) ++ (runCleanReloc cfg env h N t.next).calls := by
  obtain ⟨h1, hr', _, h3, _⟩ := C03_bytes_resume_at_label cfg env h p hr i t hi
  have hp := (C03_bytes_relocation_clean cfg env h p hr.lands hr.wf hr.mapper N hfit).1
  have hq := (C03_bytes_relocation_clean cfg env h t.next hr'.lands hr'.wf hr'.mapper N hfit).1
  have hcalls : (runCleanReloc cfg env h N p).calls = (runClean cfg env h p).calls.map (relocTx (FN cfg) N) := by
    rw [hp]; rfl
  have hpos : (runCleanReloc cfg env h N p).pos = relocPosn (FN cfg) N (runClean cfg env h p).pos := by
    rw [hp]; rfl
  have hq' : runCleanReloc cfg env h N t.next
      = ⟨(runCleanReloc cfg env h N p).calls.drop (i + 1), (runCleanReloc cfg env h N p).calls.drop (i + 1),
         (runCleanReloc cfg env h N p).pos, false, false⟩ := by
    rw [hq, h3, hcalls, hpos]
    simp [relocOutcome, List.map_drop]
  refine ⟨?_, rfl, hr', hq', ?_⟩
  · rw [hcalls, List.getElem?_map, h1, toTx_relocETx]; rfl
  · rw [hq']
    exact (List.take_append_drop (i + 1) _).symm

/-! ### (b) the start file name -/

/-- (b).  For EVERY start file name f0 — in particular the empty one —, every offset `off` of the first file where the
    master lands (head of the file or a unit start: `off = 4` is the configuration "from the oldest binlog", the other
    boundaries are the resume variant), every handler `acc` (called with the renamed transactions), every cut and every
    quiet ending: the replica started at ⟨f0, off⟩ and fed the dump the master serves for ⟨W.firstFile, off⟩ does what
    the correctly configured replica does under the handler `acc ∘ renTx`, with W.firstFile renamed to f0 in every
    label and in the final position; labels in later files are untouched; contents, verdicts and flags identical; and
    that is the Spec's own account (`specOut`) renamed. -/
theorem C03_bytes_start_name (cfg : W.Cfg) (env : Env) (h : W.History) (off : Nat) (f0 : Bytes)
    (hl : Lands cfg h ⟨W.firstFile, off⟩) (hwf : WFFrom cfg h ⟨W.firstFile, off⟩)
    (hm : MapperAgrees env (unitsFrom cfg h ⟨W.firstFile, off⟩)) (hfresh : (logFiles h).count W.firstFile ≤ 1)
    (acc : Transaction → Bool) (k : Nat) (e : Bool) (tail : List Input) (ht : EndsWith env e tail) :
    parseEvents env acc (PState.init ⟨f0, (off : Int)⟩)
        (((W.serve cfg h ⟨W.firstFile, off⟩).take k).map Input.event ++ tail)
      = renOutcome W.firstFile f0 (parseEvents env (acc ∘ renTx W.firstFile f0)
          (PState.init (posOf ⟨W.firstFile, off⟩))
          (((W.serve cfg h ⟨W.firstFile, off⟩).take k).map Input.event ++ tail)) ∧
    parseEvents env acc (PState.init ⟨f0, (off : Int)⟩)
        (((W.serve cfg h ⟨W.firstFile, off⟩).take k).map Input.event ++ tail)
      = renOutcome W.firstFile f0 (specOut env.ext (acc ∘ renTx W.firstFile f0) e
          ((served cfg h ⟨W.firstFile, off⟩).take (k - preamble cfg h ⟨W.firstFile, off⟩)) ⟨W.firstFile, off⟩) := by
  have h1 := start_name_lands cfg env h off f0 hl hwf hm hfresh acc k e tail ht
  refine ⟨h1, ?_⟩
  rw [h1, C04_bytes_outcome cfg env h ⟨W.firstFile, off⟩ hl hwf hm (acc ∘ renTx W.firstFile f0) k e tail ht]

/-- (b), the clean complete run: the replica delivers the expected transactions with W.firstFile renamed to f0 in both
    labels (Spec-side renaming `renETx`), and ends at the renamed end position -/
theorem C03_bytes_start_name_clean (cfg : W.Cfg) (env : Env) (h : W.History) (off : Nat) (f0 : Bytes)
    (hl : Lands cfg h ⟨W.firstFile, off⟩) (hwf : WFFrom cfg h ⟨W.firstFile, off⟩)
    (hm : MapperAgrees env (unitsFrom cfg h ⟨W.firstFile, off⟩)) (hfresh : (logFiles h).count W.firstFile ≤ 1) :
    parseEvents env (fun _ => true) (PState.init ⟨f0, (off : Int)⟩)
        ((W.serve cfg h ⟨W.firstFile, off⟩).map Input.event ++ [Input.closed])
      = ⟨((W.expected cfg h ⟨W.firstFile, off⟩).map (renETx W.firstFile f0)).map (toTx env.ext),
         ((W.expected cfg h ⟨W.firstFile, off⟩).map (renETx W.firstFile f0)).map (toTx env.ext),
         posOf (renPos W.firstFile f0 (W.endPos cfg h ⟨W.firstFile, off⟩)), false, false⟩ := by
  have hrun : runClean cfg env h ⟨W.firstFile, off⟩ = _ :=
    C01_fidelity_bytes_resume_lands cfg env h ⟨W.firstFile, off⟩ hl hwf hm
  rw [start_name_clean cfg env h off f0 hl hwf hm hfresh, hrun, renOutcome_clean]

/-- (b), the resume variant with the boundary-style hypotheses of `C01_fidelity_bytes_resume`: ⟨W.firstFile, off⟩ a
    boundary of the first file (`WFHistFrom` carries the freshness of that file's name) -/
theorem C03_bytes_start_name_boundary (cfg : W.Cfg) (env : Env) (h : W.History) (off : Nat) (f0 : Bytes)
    (hp : (⟨W.firstFile, off⟩ : W.Pos) ∈ W.boundaries cfg h) (hwf : WFHistFrom cfg h ⟨W.firstFile, off⟩)
    (hm : MapperAgrees env h) :
    parseEvents env (fun _ => true) (PState.init ⟨f0, (off : Int)⟩)
        ((W.serve cfg h ⟨W.firstFile, off⟩).map Input.event ++ [Input.closed])
      = ⟨((W.expected cfg h ⟨W.firstFile, off⟩).map (renETx W.firstFile f0)).map (toTx env.ext),
         ((W.expected cfg h ⟨W.firstFile, off⟩).map (renETx W.firstFile f0)).map (toTx env.ext),
         posOf (renPos W.firstFile f0 (W.endPos cfg h ⟨W.firstFile, off⟩)), false, false⟩ :=
  C03_bytes_start_name_clean cfg env h off f0 (lands_of_boundary cfg h _ hp hwf.fresh) hwf.toWFFrom
    (mapper_unitsFrom hm cfg _) hwf.fresh

/-- (b), from the head of the log, with the hypotheses of `C01_fidelity_bytes` on the whole history: a replica
    configured with ⟨f0, 4⟩ (f0 = [] : "start from the oldest binlog") delivers every expected transaction of the
    history, the first file's labels carrying f0 -/
theorem C03_bytes_start_name_head (cfg : W.Cfg) (env : Env) (h : W.History) (f0 : Bytes) (hwf : WFHist cfg h)
    (hm : MapperAgrees env h) (hfresh : (logFiles h).count W.firstFile ≤ 1) :
    parseEvents env (fun _ => true) (PState.init ⟨f0, 4⟩)
        ((W.serve cfg h ⟨W.firstFile, 4⟩).map Input.event ++ [Input.closed])
      = ⟨((W.expected cfg h ⟨W.firstFile, 4⟩).map (renETx W.firstFile f0)).map (toTx env.ext),
         ((W.expected cfg h ⟨W.firstFile, 4⟩).map (renETx W.firstFile f0)).map (toTx env.ext),
         posOf (renPos W.firstFile f0 (W.endPos cfg h ⟨W.firstFile, 4⟩)), false, false⟩ :=
  C03_bytes_start_name_clean cfg env h 4 f0 (lands_head cfg h) (wfHistFrom_head cfg h hwf hfresh).toWFFrom
    (mapper_unitsFrom hm cfg _) hfresh

/-! ### non-vacuity, and the two refutations that need a concrete run: `exHistS` of Props/C04b — eight units in two
    files (GTID, transaction, DDL, ROTATE, heartbeat, autocommitted rows, transaction, DDL), N = 2^31 -/

/-- every end offset of the layout, moved up by 2^31, still fits 32 bits -/
theorem exFit : ∀ e ∈ W.layout {} exHistS, relocOff (W.fdeEvent {} 4 none).2 (2 ^ 31) e.next < 2 ^ 32 := by decide

/-- the relocated end labels really lie beyond 2^31 (Spec side) … -/
example : (W.expected {} exHistS exP0).map (fun t => (relocETx (FN {}) (2 ^ 31) t).next.offset)
    = [2 ^ 31 + 387, 2 ^ 31 + 435, 2 ^ 31 + 223, 2 ^ 31 + 442, 2 ^ 31 + 490] := by decide

set_option maxRecDepth 100000 in
/-- … and so do the labels the parser itself computes on the relocated dump (kernel evaluation of the run): the head
    labels ⟨f, 4⟩ stay, everything else is moved up by 2^31 -/
theorem exRelocRun :
    (runCleanReloc {} exEnv exHistS (2 ^ 31) exP0).calls.map (fun t => (t.now.offset, t.next.offset))
      = [(4, 2147484035), (2147484035, 2147484083), (4, 2147483871), (2147483871, 2147484090),
         (2147484090, 2147484138)] ∧
    (runCleanReloc {} exEnv exHistS (2 ^ 31) exP0).pos = ⟨asc "bin.000002", 2147484138⟩ ∧
    (2 : Int) ^ 31 < 2147483871 := by
  decide

/-- a handler that looks at the labels: it refuses every transaction that ends at or beyond 2 GiB -/
def exBelow2G : Transaction → Bool := fun tx => decide (tx.next.offset < 2147483648)

/-- one step: an XID event laid at offset 200 of a file (it ends at 231), parser with the format of the default
    configuration, every hypothesis proved -/
example : stepEvent exEnv (relocSt 125 (2 ^ 31) { PState.init ⟨[], 200⟩ with format := fmtOf {} })
      (relocPacket 125 (2 ^ 31) (bytesAt {} 200 16 5 (W.xidBody 9)))
    = relocStep 125 (2 ^ 31) (stepEvent exEnv { PState.init ⟨[], 200⟩ with format := fmtOf {} }
        (bytesAt {} 200 16 5 (W.xidBody 9))) := by
  have hc := cl_xid exEnv { PState.init ⟨[], 200⟩ with format := fmtOf {} } {} rfl 200 5 9 (by decide) (by decide)
  exact (C03_stepEvent_relocation 125 (2 ^ 31) exEnv _ _ (Or.inr (by decide)) (fun _ => by decide)
    (fun f o h => by rw [hc] at h; cases h)).1
example := C03_bytes_relocation {} exEnv exHistS exP0 exResumable.lands exResumable.wf exResumable.mapper (2 ^ 31) exFit
  exBelow2G 12 false [.cancelled] (endsWith_cancelled _ _)
example := C03_bytes_relocation_label_blind {} exEnv exHistS exP0 exResumable.lands exResumable.wf exResumable.mapper
  (2 ^ 31) exFit (fun tx => tx.events.length != 1) (fun _ => rfl) ⟨_, 12, [.cancelled]⟩ rfl false
  (endsWith_cancelled _ _)
example := C03_bytes_relocation_clean {} exEnv exHistS exP0 exResumable.lands exResumable.wf exResumable.mapper
  (2 ^ 31) exFit
/-- resuming at the relocated end label ⟨bin.000001, 2^31 + 435⟩ of the second transaction delivers the other three -/
example := C03_bytes_relocated_resume {} exEnv exHistS exP0 exResumable (2 ^ 31) exFit 1 _ exSecond
example : posOf (relocPos (FN {}) (2 ^ 31) ⟨W.firstFile, 435⟩) = ⟨W.firstFile, 2147484083⟩ := by decide

set_option maxRecDepth 100000 in
/-- WHY the handler is composed with `relocTx`: with the SAME label-reading handler on both sides the statement is
    false.  `exBelow2G` accepts the first transaction of `exHistS` on the original dump (it ends at 387) and refuses it
    on the dump relocated by 2^31 (it ends at 2^31 + 387): 8 packets, then the channel is closed — error on one side,
    none on the other. -/
theorem C03_bytes_relocation_same_handler_refuted :
    ¬ (∀ (cfg : W.Cfg) (env : Env) (h : W.History) (p : W.Pos) (N : Nat) (acc : Transaction → Bool) (k : Nat)
        (e : Bool) (tail : List Input), Lands cfg h p → WFFrom cfg h p → MapperAgrees env (unitsFrom cfg h p) →
        (∀ x ∈ W.layout cfg h, relocOff (W.fdeEvent cfg 4 none).2 N x.next < 2 ^ 32) → EndsWith env e tail →
        parseEvents env acc (PState.init (posOf ⟨p.file, relocOff (FN cfg) N p.offset⟩))
            (((relocStream (FN cfg) N (W.serve cfg h p)).take k).map Input.event ++ tail)
          = relocOutcome (FN cfg) N (parseEvents env acc (PState.init (posOf p))
              (((W.serve cfg h p).take k).map Input.event ++ tail))) := by
  intro hall
  have h := congrArg Outcome.err (hall {} exEnv exHistS exP0 (2 ^ 31) exBelow2G 8 false [.closed] exResumable.lands
    exResumable.wf exResumable.mapper exFit (endsWith_closed _ _))
  have h1 : (parseEvents exEnv exBelow2G (PState.init (posOf ⟨exP0.file, relocOff (FN {}) (2 ^ 31) exP0.offset⟩))
      (((relocStream (FN {}) (2 ^ 31) (W.serve {} exHistS exP0)).take 8).map Input.event ++ [Input.closed])).err
        = true := by decide
  have h2 : (relocOutcome (FN {}) (2 ^ 31) (parseEvents exEnv exBelow2G (PState.init (posOf exP0))
      (((W.serve {} exHistS exP0).take 8).map Input.event ++ [Input.closed]))).err = false := by decide
  rw [h1, h2] at h
  cases h

/-! (b) on `exHistS`: the empty start name at the head, and at the boundary 387 of the first file (resume variant) -/

theorem exFirst : (W.expected {} exHistS exP0)[0]? = some ⟨exP0, exP1, 90, [.rows exC1, .stmt exIns]⟩ := by decide

/-- the hypotheses at the boundary ⟨bin.000001, 387⟩ (the end label of the first transaction) -/
theorem exResumable1 : Resumable {} exEnv exHistS exP1 :=
  (C03_bytes_resume_at_label {} exEnv exHistS exP0 exResumable 0 _ exFirst).2.1

example := C03_bytes_start_name {} exEnv exHistS 4 [] exResumable.lands exResumable.wf exResumable.mapper
  (exFresh W.firstFile) exRejectSecond 12 false [.cancelled] (endsWith_cancelled _ _)
example := C03_bytes_start_name {} exEnv exHistS 387 [] exResumable1.lands exResumable1.wf exResumable1.mapper
  (exFresh W.firstFile) (fun tx => tx.now.file != []) 5 true [.event [1, 2, 3]] (endsWith_invalid _ _ _ (by decide))
example := C03_bytes_start_name_clean {} exEnv exHistS 387 (asc "other.000009") exResumable1.lands exResumable1.wf
  exResumable1.mapper (exFresh W.firstFile)
example := C03_bytes_start_name_head {} exEnv exHistS [] exWFS exMapperS (exFresh W.firstFile)

/-- the labels a replica started at ("", 4) must deliver: "" in the first file, the real name after the ROTATE -/
example : ((W.expected {} exHistS exP0).map (renETx W.firstFile [])).map (fun t => (t.now, t.next))
    = [(⟨[], 4⟩, ⟨[], 387⟩), (⟨[], 387⟩, ⟨[], 435⟩), (⟨asc "bin.000002", 4⟩, ⟨asc "bin.000002", 223⟩),
       (⟨asc "bin.000002", 223⟩, ⟨asc "bin.000002", 442⟩), (⟨asc "bin.000002", 442⟩, ⟨asc "bin.000002", 490⟩)] := by
  decide

set_option maxRecDepth 100000 in
/-- … and the parser's own labels on that run (kernel evaluation) -/
example : (parseEvents exEnv (fun _ => true) (PState.init ⟨[], 4⟩)
      ((W.serve {} exHistS exP0).map Input.event ++ [Input.closed])).calls.map (fun t => (t.now.file, t.next.offset))
    = [([], 387), ([], 435), (asc "bin.000002", 223), (asc "bin.000002", 442), (asc "bin.000002", 490)] := by decide

set_option maxRecDepth 100000 in
/-- WHY the first file's name must not be reused: `exReuse` of Props/C01d (a transaction, `ROTATE bin.000001`, a DDL)
    satisfies every other hypothesis at the head of the log; the replica started at ("", 4) labels the first transaction
    with "" and the second one — after the ROTATE — with the name the ROTATE carries, bin.000001, which the renaming
    would turn into "" -/
theorem C03_bytes_start_name_reuse_refuted :
    ¬ (∀ (cfg : W.Cfg) (env : Env) (h : W.History) (f0 : Bytes), WFHist cfg h → MapperAgrees env h →
        parseEvents env (fun _ => true) (PState.init ⟨f0, 4⟩)
            ((W.serve cfg h ⟨W.firstFile, 4⟩).map Input.event ++ [Input.closed])
          = ⟨((W.expected cfg h ⟨W.firstFile, 4⟩).map (renETx W.firstFile f0)).map (toTx env.ext),
             ((W.expected cfg h ⟨W.firstFile, 4⟩).map (renETx W.firstFile f0)).map (toTx env.ext),
             posOf (renPos W.firstFile f0 (W.endPos cfg h ⟨W.firstFile, 4⟩)), false, false⟩) := by
  intro hall
  have h := congrArg (fun o : Outcome => o.calls.map (·.now.file)) (hall {} exEnv exReuse [] exReuseWF exReuseMapper)
  have h1 : (parseEvents exEnv (fun _ => true) (PState.init ⟨[], 4⟩)
      ((W.serve {} exReuse ⟨W.firstFile, 4⟩).map Input.event ++ [Input.closed])).calls.map (·.now.file)
        = [[], W.firstFile] := by decide
  have h2 : (((W.expected {} exReuse ⟨W.firstFile, 4⟩).map (renETx W.firstFile [])).map (toTx exEnv.ext)).map
      (·.now.file) = [[], []] := by decide
  simp only [] at h
  rw [h1, h2] at h
  revert h
  decide

end GV.Props.C03c
