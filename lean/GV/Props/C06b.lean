import GV.Props.C15b
import GV.Lemmas.C06b
/-
  C06 (byte level) — "Stream returns a non-nil error for handler, DECODE and table-lookup failures … never reported as a
  clean end" (DESIGN §7 C06), for decode failures of VALUES; and C15 (byte level) — a table id re-announced with
  another column count.  Property theorems and non-vacuity examples only (plus the small mutated parser of Goal B);
  the vocabulary and all helper lemmas are in GV/Lemmas/C06b.lean (namespace GV.C06b).

  What the code (and the model) does: `binlogEvent.Rows` splits a rows event into row images with the per-type LENGTH
  rule (`cellLength`) only; afterwards the row conversion decodes every present, non-NULL cell with the per-type VALUE
  decoder (`cellBytes`).  A cell the length rule measures but the value decoder rejects makes the whole event fail:
  `parseEvents` returns an error, nothing of the open transaction is delivered, the position stays where it was.

  Vocabulary (the rest — `UnitOK`, `ChangeOK`, `histRows`, `changeRows`, `toTx`, `posOf`, `RowsOK`, `TableOK`, `infoOf`,
  `tmOf`, `colsU`, `curOK`, `SameInfo` — is that of GV/Props/C01b.lean, C01c.lean, C15b.lean):

    badWidth c               `some w` for the column types / metadata whose cells the LENGTH rule measures as w bytes while
                             the VALUE decoder rejects every such cell (`C06_bad_column_spec`): ENUM as type 254 with
                             metadata 247 * 256 + w, or as type 247 with metadata % 256 = w, with w ∉ {1, 2}
                             ("unexpected enum size"; w = 0 and 3 … 255 all behave alike), and type 6 (w = 0)
    CellBad c v              v is a value of such a column written as exactly w bytes (`.raw b t` with b.length = w, …)
    ImageLoose / imageHasBad an image whose cells are `W.CellOK` or `CellBad` / that holds a non-NULL `CellBad` cell
    BadValueChange cfg c     `RowsOK cfg c` with `ImageLoose` for `ImageOK`, plus `bad`: some row has a non-NULL value
                             of a rejected column type in an image THE EVENT CARRIES — before image for UPDATE / DELETE,
                             after image for WRITE / UPDATE (`C06_bad_image_by_kind`).  Disjoint from `RowsOK`
                             (`C06_bad_value_not_rowsOK`).
    UnitAt u pre c           the unit u is `.autoRows c` (pre = []) or a transaction BEGIN, pre …, c, … (anything after c)
    rowsBefore h₁ pre        the rows changes of the log in front of c: those of h₁, then those of pre
    WFUpTo cfg env h₁ u pre R  the log up to c is well formed: units of h₁ and changes of pre OK; the rows changes R
                             agree (`SameInfo` when they share a table id), each uses the table map most recently
                             announced for its id (`curOK`), and the mapper knows their tables; every event of
                             h₁ ++ [u] ends below 2^32.  NOTHING is assumed about what follows c in u, nor about h₂.

  Contents.
    Goal A: `C06_packet_value_decode_failure` (packet level: from ANY state that has seen the FDE and has the table
      cached, whatever transaction is open, the rows packet is classified `.decodeErr`, `stepEvent` = `.stop true false`,
      and `parseEvents` — any handler, anything after the packet — returns err = true, crash = false, no call, position
      unchanged); `C06_bytes_value_decode_failure` (stream level, from the head of the log, all 8 configurations, all
      three kinds, bad value in the before image, the after image or both — one statement: the hypothesis is `bad`).
    Goal C: `C15_packet_count_mismatch`, `C15_bytes_count_redefinition_same_table_rejected_partial` (the "same db /
      name" of the informal statement IS needed since the repair of finding F13: on a re-announcement for the same
      table the mapper is not asked again, for another table it is — see GV/Props/C15c.lean; for streamer.go as found
      the theorem held whatever the names, under the name `C15_bytes_count_redefinition_rejected_partial`) and
      `C15_bytes_count_redefinition_rejected_refuted`: the statement as given ("a rows event of any kind for that id
      with m-column bitmaps") is FALSE for a rows event that carries NO row — the conversion compares the column counts
      once per row, so a row-less event is delivered without error; `_partial` adds `c.rows ≠ []`.
    Non-vacuity: concrete changes (UPDATE with the bad value in the before image only / after image only / both, WRITE,
      DELETE; inside a transaction and autocommitted), all hypotheses proved, the theorems applied; the bad packet's
      bytes; #guard over the 8 configurations; and #guard that a "bad" value in an image the event does not carry
      (before image of a WRITE, after image of a DELETE) is harmless.
    Goal B: `C06_bytes_decode_failure_not_swallowed_refuted_variant` — a mutated UPDATE conversion that decodes both
      images and checks the error once (the after-image result overwrites the before-image error) DELIVERS the
      transaction of the concrete bad-before / good-after example, where the model stops with an error; hence
      `C06_bytes_value_decode_failure` is false for it.
  Goal A needed no correction (a `BadValueChange` has a row by `bad`).
-/
namespace GV.Props.C06b
open GV GV.M GV.Props.C01 GV.Props.C01b GV.C01c GV.C15b GV.C06b

/-! ### Goal A: a value the decoder rejects -/

/-- the rejected column types: the LENGTH rule gives w (< 256) bytes on every input, the VALUE decoder an error on
    every input -/
theorem C06_bad_column_spec (c : W.ColDef) (w : Nat) (h : badWidth c = some w) :
    w < 256 ∧ (∀ data pos, cellLength data pos c.typ c.md = .ok w) ∧
    (∀ E data pos u, cellBytes E data pos c.typ c.md u = .err) :=
  badWidth_spec c w h

/-- … the ENUM family: announced as type 254 / metadata 247 * 256 + w, or directly as type 247 / metadata w -/
theorem C06_bad_column_enum (w : Nat) (nullable : Bool) (hw : w < 256) (h1 : w ≠ 1) (h2 : w ≠ 2) :
    badWidth ⟨254, 247 * 256 + w, nullable⟩ = some w ∧ badWidth ⟨247, w, nullable⟩ = some w := by
  have e1 : (247 * 256 + w) / 256 = 247 := by omega
  have e2 : (247 * 256 + w) % 256 = w := by omega
  have e3 : w % 256 = w := Nat.mod_eq_of_lt hw
  constructor
  · simp [badWidth, e1, e2, h1, h2]
  · simp [badWidth, e3, h1, h2]

/-- which image counts, kind by kind: a WRITE event carries after images only, a DELETE event before images only -/
theorem C06_bad_image_by_kind (c : W.RowsChange) :
    (∃ r ∈ c.rows, (c.kind ≠ .write ∧ imageHasBad (W.selectPresent c.presentBefore (colsU c.table)) r.1) ∨
                   (c.kind ≠ .delete ∧ imageHasBad (W.selectPresent c.presentAfter (colsU c.table)) r.2)) ↔
    match c.kind with
    | .write => ∃ r ∈ c.rows, imageHasBad (W.selectPresent c.presentAfter (colsU c.table)) r.2
    | .update => ∃ r ∈ c.rows, imageHasBad (W.selectPresent c.presentBefore (colsU c.table)) r.1 ∨
                               imageHasBad (W.selectPresent c.presentAfter (colsU c.table)) r.2
    | .delete => ∃ r ∈ c.rows, imageHasBad (W.selectPresent c.presentBefore (colsU c.table)) r.1 :=
  bad_by_kind c

/-- such a change is outside the domain of `C01_fidelity_bytes` / `C15_bytes_redefinition` -/
theorem C06_bad_value_not_rowsOK (cfg : W.Cfg) (c : W.RowsChange) (hbad : BadValueChange cfg c) : ¬ RowsOK cfg c :=
  bad_not_rowsOK cfg c hbad

/-- PACKET LEVEL.  The rows event (write / update / delete, v1 / v2, 4- / 6-byte id, with or without checksum) of a
    change carrying an undecodable value, arriving in ANY state that has seen the FDE and has the change's table cached
    (whatever transaction is open, whatever the position): it is classified as a decoding error, the step stops with
    err = true and crash = false, and the run — any handler, anything after the packet — returns an error without
    calling the handler, the position unchanged. -/
theorem C06_packet_value_decode_failure (env : Env) (st : PState) (cfg : W.Cfg) (hr : Ready cfg st) (crc : Option Bytes)
    (hc : crcOK cfg crc) (m : W.EvMeta) (start : Nat) (c : W.RowsChange) (hbad : BadValueChange cfg c)
    (hok : EvOK crc m start (W.rowsBody c.kind cfg.rowsV2 (idw cfg) c.table.id c.flags c.extra c.table.cols
                              c.presentBefore c.presentAfter c.rows))
    (hcache : findTable st.tables c.table.id = some ⟨tmOf c.table, infoOf c.table⟩) :
    let b := (W.event crc m (W.rowsEventType c.kind cfg.rowsV2) start
        (W.rowsBody c.kind cfg.rowsV2 (idw cfg) c.table.id c.flags c.extra c.table.cols c.presentBefore c.presentAfter c.rows)).1
    classify env st b = .decodeErr ∧ stepEvent env st b = .stop true false ∧
    ∀ (handler : Transaction → Bool) (rest : List Input),
      parseEvents env handler st (.event b :: rest) = ⟨[], [], st.pos, true, false⟩ := by
  intro b
  have h := classify_bad_value env st cfg hr crc hc m start c hbad hok hcache
  have hs : stepEvent env st b = .stop true false := by
    show stepD st (classify env st b) = _
    rw [h]; rfl
  exact ⟨h, hs, fun handler rest => by simp only [parseEvents, hs]⟩

/-- STREAM LEVEL.  A history h₁ ++ u :: h₂ where the unit `u` — an autocommitted rows change, or a transaction in
    which the well-formed changes `pre` come first — holds a rows change `c` with a value the value decoder rejects, in
    an image the event carries (before image only, after image only, or both; write / update / delete); h₁ is well
    formed, the table definitions up to `c` agree per table id and the mapper knows them; h₂ and the rest of `u` are
    arbitrary.  The run on everything the master serves (accept-all handler, from the head of the log; CRC32 on / off,
    v1 / v2 rows events, 4- / 6-byte table ids) stops at that rows event WITH an error and no crash; the handler was
    called with — and accepted — exactly the transactions of h₁; nothing of `u` is delivered; the position returned is
    the boundary before `u`. -/
theorem C06_bytes_value_decode_failure (cfg : W.Cfg) (env : Env) (h₁ : W.History) (u : W.Unit) (h₂ : W.History)
    (pre : List W.Change) (c : W.RowsChange) (hu : UnitAt u pre c)
    (hwf : WFUpTo cfg env h₁ u pre (rowsBefore h₁ pre ++ [c])) (hbad : BadValueChange cfg c) :
    parseEvents env (fun _ => true) (PState.init ⟨W.firstFile, 4⟩)
        ((W.serve cfg (h₁ ++ u :: h₂) ⟨W.firstFile, 4⟩).map Input.event ++ [Input.closed])
      = ⟨(W.expected cfg h₁ ⟨W.firstFile, 4⟩).map (toTx env.ext), (W.expected cfg h₁ ⟨W.firstFile, 4⟩).map (toTx env.ext),
         posOf (W.endPos cfg h₁ ⟨W.firstFile, 4⟩), true, false⟩ :=
  value_decode_failure cfg env h₁ u h₂ pre c hu hwf hbad

/-- … the seeded bug's case spelled out: an UPDATE whose BEFORE image holds the undecodable value while every AFTER
    image is a perfectly decodable `ImageOK` image — the error of the before image is not swallowed.  (The last two
    hypotheses only select the case; the theorem above does not need them.) -/
theorem C06_bytes_value_decode_failure_before_only (cfg : W.Cfg) (env : Env) (h₁ : W.History) (u : W.Unit)
    (h₂ : W.History) (pre : List W.Change) (c : W.RowsChange) (hu : UnitAt u pre c)
    (hwf : WFUpTo cfg env h₁ u pre (rowsBefore h₁ pre ++ [c])) (hbad : BadValueChange cfg c) (_hk : c.kind = .update)
    (_hafter : ∀ r ∈ c.rows, Props.C09b.ImageOK (W.selectPresent c.presentAfter (colsU c.table)) r.2) :
    (parseEvents env (fun _ => true) (PState.init ⟨W.firstFile, 4⟩)
        ((W.serve cfg (h₁ ++ u :: h₂) ⟨W.firstFile, 4⟩).map Input.event ++ [Input.closed])).err = true ∧
    (parseEvents env (fun _ => true) (PState.init ⟨W.firstFile, 4⟩)
        ((W.serve cfg (h₁ ++ u :: h₂) ⟨W.firstFile, 4⟩).map Input.event ++ [Input.closed])).calls
      = (W.expected cfg h₁ ⟨W.firstFile, 4⟩).map (toTx env.ext) := by
  rw [C06_bytes_value_decode_failure cfg env h₁ u h₂ pre c hu hwf hbad]
  exact ⟨rfl, rfl⟩

/-! ### Goal C: a table id re-announced with another column count -/

/-- PACKET LEVEL.  A well-formed rows event with at least one row, for a table id whose cache entry holds the event's
    table map but a mapper answer with ANOTHER number of columns: decoding error, stop with err = true / crash = false,
    no handler call, position unchanged. -/
theorem C15_packet_count_mismatch (env : Env) (st : PState) (cfg : W.Cfg) (hr : Ready cfg st) (crc : Option Bytes)
    (hc : crcOK cfg crc) (m : W.EvMeta) (start : Nat) (c : W.RowsChange) (hrows : RowsOK cfg c) (hne : c.rows ≠ [])
    (hok : EvOK crc m start (W.rowsBody c.kind cfg.rowsV2 (idw cfg) c.table.id c.flags c.extra c.table.cols
                              c.presentBefore c.presentAfter c.rows))
    (info : TableInfo) (hcache : findTable st.tables c.table.id = some ⟨tmOf c.table, info⟩)
    (hcount : info.columns.length ≠ c.table.cols.length) :
    let b := (W.event crc m (W.rowsEventType c.kind cfg.rowsV2) start
        (W.rowsBody c.kind cfg.rowsV2 (idw cfg) c.table.id c.flags c.extra c.table.cols c.presentBefore c.presentAfter c.rows)).1
    classify env st b = .decodeErr ∧ stepEvent env st b = .stop true false ∧
    ∀ (handler : Transaction → Bool) (rest : List Input),
      parseEvents env handler st (.event b :: rest) = ⟨[], [], st.pos, true, false⟩ := by
  intro b
  have h := classify_count_mismatch env st cfg hr crc hc m start c hrows hne hok info hcache hcount
  have hs : stepEvent env st b = .stop true false := by
    show stepD st (classify env st b) = _
    rw [h]; rfl
  exact ⟨h, hs, fun handler rest => by simp only [parseEvents, hs]⟩

/-- STREAM LEVEL.  A table id used by an earlier rows change `c₀` of the log (announced then, the mapper agreeing, with
    n columns) is RE-ANNOUNCED by the rows change `c` FOR THE SAME TABLE (database and name) — well formed for its own
    m-column definition, any kind, at least one row — with m ≠ n columns: the TABLE_MAP event is accepted (the mapper is
    not asked again), and the run stops at the rows event with err = true, crash = false, having delivered exactly the
    transactions of h₁, the position kept at the boundary before `u`.

    HISTORY.  For streamer.go as found this held without `hname` (theorem `C15_bytes_count_redefinition_rejected_partial`:
    "on a re-announcement the mapper is not asked again, whatever the names").  Since the repair of finding F13 a
    re-announcement under ANOTHER (database, name) makes the parser ask the mapper for that table
    (`GV.Props.C15c.C15_packet_id_reused_other_table`): if the mapper knows it with m columns the stream simply goes
    on, so the old statement is false for the repaired code and `hname` — the "same db / name" of the informal
    statement — is needed. -/
theorem C15_bytes_count_redefinition_same_table_rejected_partial (cfg : W.Cfg) (env : Env) (h₁ : W.History) (u : W.Unit)
    (h₂ : W.History)
    (pre : List W.Change) (c c₀ : W.RowsChange) (hu : UnitAt u pre c)
    (hwf : WFUpTo cfg env h₁ u pre (rowsBefore h₁ pre)) (hc : RowsOK cfg c) (hne : c.rows ≠ [])
    (hann : c.announce = true) (h0 : c₀ ∈ rowsBefore h₁ pre) (hid : c₀.table.id = c.table.id)
    (hname : c₀.table.db = c.table.db ∧ c₀.table.name = c.table.name)
    (hcount : c₀.table.cols.length ≠ c.table.cols.length) :
    parseEvents env (fun _ => true) (PState.init ⟨W.firstFile, 4⟩)
        ((W.serve cfg (h₁ ++ u :: h₂) ⟨W.firstFile, 4⟩).map Input.event ++ [Input.closed])
      = ⟨(W.expected cfg h₁ ⟨W.firstFile, 4⟩).map (toTx env.ext), (W.expected cfg h₁ ⟨W.firstFile, 4⟩).map (toTx env.ext),
         posOf (W.endPos cfg h₁ ⟨W.firstFile, 4⟩), true, false⟩ :=
  count_redefinition cfg env h₁ u h₂ pre c c₀ hu hwf hc hne hann h0 hid hname hcount

/-! ### non-vacuity for Goal A -/

open GV.Props.C15b (tA tC tE cA1 cC1 cB1 cB2 cA2 cA3 cE1 exH1 exH2 exExt allCfgs exBadWF cE1_ok cA3_ok)

/-- (INT, ENUM with pack size 3) -/
def tEn : W.TableDef :=
  { id := 12, db := [100], name := [120], cols := [⟨3, 0, true⟩, ⟨254, 247 * 256 + 3, true⟩], names := [[97], [98]],
    unsigned := [false, false] }

/-- UPDATE, two rows; the second row's BEFORE image holds 3 raw bytes in the ENUM column, its after image decodes fine -/
def cUpdB : W.RowsChange :=
  { kind := .update, table := tEn, ts := 77, flags := 1, extra := [7], presentBefore := [true, true],
    presentAfter := [true, true],
    rows := [([some (.int 4 1), none], [some (.int 4 2), none]),
             ([some (.int 4 (-5)), some (.raw [9, 8, 7] [9, 8, 7])], [some (.int 4 6), none])],
    announce := true, tmOptional := [] }
/-- … the AFTER image only -/
def cUpdA : W.RowsChange :=
  { cUpdB with rows := [([some (.int 4 1), none], [some (.int 4 2), none]),
                         ([some (.int 4 (-5)), none], [some (.int 4 6), some (.raw [9, 8, 7] [9, 8, 7])])] }
/-- … both images -/
def cUpdAB : W.RowsChange :=
  { cUpdB with rows := [([some (.int 4 1), none], [some (.int 4 2), none]),
                         ([some (.int 4 (-5)), some (.enum 3 70000)], [some (.int 4 6), some (.raw [9, 8, 7] [9, 8, 7])])] }
def cWr : W.RowsChange :=
  { cUpdB with kind := .write, rows := [([], [some (.int 4 2), none]), ([], [some (.int 4 6), some (.raw [9, 8, 7] [9, 8, 7])])] }
def cDel : W.RowsChange :=
  { cUpdB with kind := .delete, rows := [([some (.int 4 1), none], []), ([some (.int 4 (-5)), some (.raw [9, 8, 7] [9, 8, 7])], [])] }

/-- the mapper knows tables [116], [117], [118], [120] -/
def exEnvB : Env :=
  ⟨exExt, fun _ n => if n = [117] then some (infoOf tC) else if n = [118] then some (infoOf tE)
    else if n = [120] then some (infoOf tEn) else some (infoOf tA)⟩

theorem tEn_ok : TableOK {} tEn :=
  ⟨by decide, by intro c hc; simp [tEn] at hc; rcases hc with rfl | rfl <;> (unfold Props.C15.ColOK; decide),
   by decide, rfl, rfl, by decide, by decide, by decide⟩

example : badWidth ⟨254, 247 * 256 + 3, true⟩ = some 3 := by decide

/-- BadValueChange of a concrete two-row change of table `tEn` -/
local macro "bad_ok" : tactic => `(tactic|
  (refine ⟨tEn_ok, rfl, rfl, by decide, by decide, by decide, ?_, by decide, by decide⟩
   intro r hr
   simp only [cUpdB, cUpdA, cUpdAB, cWr, cDel, List.mem_cons, List.not_mem_nil, or_false] at hr
   rcases hr with hr | hr <;> subst hr <;> constructor <;> intro hk <;>
     first
     | exact absurd rfl hk
     | (refine ⟨rfl, ?_⟩
        intro p hp
        simp [cUpdB, cUpdA, cUpdAB, cWr, cDel, tEn, colsU, W.selectPresent] at hp
        rcases hp with hp | hp <;> subst hp <;>
          first
          | trivial
          | exact Or.inr ⟨3, by decide, by decide⟩
          | exact Or.inl (by simp [W.CellOK, W.intTypes]))))

set_option exponentiation.threshold 512 in
theorem cUpdB_bad : BadValueChange {} cUpdB := by bad_ok
set_option exponentiation.threshold 512 in
theorem cUpdA_bad : BadValueChange {} cUpdA := by bad_ok
set_option exponentiation.threshold 512 in
theorem cUpdAB_bad : BadValueChange {} cUpdAB := by bad_ok
set_option exponentiation.threshold 512 in
theorem cWr_bad : BadValueChange {} cWr := by bad_ok
set_option exponentiation.threshold 512 in
theorem cDel_bad : BadValueChange {} cDel := by bad_ok

/-- the bad change inside a transaction, after a statement and a rows change of another table, before one more -/
def uTx (c : W.RowsChange) : W.Unit := .tx (asc "BEGIN") [.stmt Props.C01c.exIns, .rows cE1, .rows c, .rows cA3] (.xid 10) 92
def exPre : List W.Change := [.stmt Props.C01c.exIns, .rows cE1]

theorem uTx_at (c : W.RowsChange) : UnitAt (uTx c) exPre c :=
  Or.inr ⟨asc "BEGIN", [.rows cA3], .xid 10, 92, rfl, by decide, by decide⟩
theorem uAuto_at (c : W.RowsChange) : UnitAt (.autoRows c) [] c := Or.inl ⟨rfl, rfl⟩

theorem exPre_ok : ∀ ch ∈ exPre, ChangeOK {} ch := by
  intro ch hc
  simp only [exPre, List.mem_cons, List.not_mem_nil, or_false] at hc
  rcases hc with rfl | rfl
  · exact ⟨Props.C01c.exInsOK, by unfold isChangeCat; decide⟩
  · exact ⟨cE1_ok, by decide⟩

theorem exH1_units : ∀ u' ∈ exH1, UnitOK {} u' := fun u' hu' => exBadWF.units u' (List.mem_append_left _ hu')

/-- the mapper answers of `exEnvB` for the tables up to (and including) a change of table `tEn` -/
theorem exMapperB (pre : List W.Change) (hpre : pre = exPre ∨ pre = []) (c : W.RowsChange) (hc : c.table = tEn) :
    ∀ c' ∈ rowsBefore exH1 pre ++ [c], exEnvB.mapper c'.table.db c'.table.name = some (infoOf c'.table) := by
  intro c' hc'
  rcases hpre with rfl | rfl <;>
    simp [rowsBefore, exH1, Props.C15b.exRedef, exPre, histRows, unitRows, changeRows] at hc'
  · rcases hc' with rfl | rfl | rfl | rfl | rfl | rfl | rfl <;> first | rfl | (rw [hc]; rfl)
  · rcases hc' with rfl | rfl | rfl | rfl | rfl | rfl <;> first | rfl | (rw [hc]; rfl)

theorem wf_tx_updB : WFUpTo {} exEnvB exH1 (uTx cUpdB) exPre (rowsBefore exH1 exPre ++ [cUpdB]) :=
  ⟨exH1_units, exPre_ok, by decide,
   ⟨.inl rfl, .inl rfl, .inl rfl, .inr (by decide), .inl rfl, .inl rfl, .inl rfl, trivial⟩,
   exMapperB exPre (.inl rfl) cUpdB rfl, by decide⟩
theorem wf_auto_updB : WFUpTo {} exEnvB exH1 (.autoRows cUpdB) [] (rowsBefore exH1 [] ++ [cUpdB]) :=
  ⟨exH1_units, (by intro ch h; cases h), by decide,
   ⟨.inl rfl, .inl rfl, .inl rfl, .inr (by decide), .inl rfl, .inl rfl, trivial⟩,
   exMapperB [] (.inr rfl) cUpdB rfl, by decide⟩
theorem wf_tx_updA : WFUpTo {} exEnvB exH1 (uTx cUpdA) exPre (rowsBefore exH1 exPre ++ [cUpdA]) :=
  ⟨exH1_units, exPre_ok, by decide,
   ⟨.inl rfl, .inl rfl, .inl rfl, .inr (by decide), .inl rfl, .inl rfl, .inl rfl, trivial⟩,
   exMapperB exPre (.inl rfl) cUpdA rfl, by decide⟩
theorem wf_auto_updAB : WFUpTo {} exEnvB exH1 (.autoRows cUpdAB) [] (rowsBefore exH1 [] ++ [cUpdAB]) :=
  ⟨exH1_units, (by intro ch h; cases h), by decide,
   ⟨.inl rfl, .inl rfl, .inl rfl, .inr (by decide), .inl rfl, .inl rfl, trivial⟩,
   exMapperB [] (.inr rfl) cUpdAB rfl, by decide⟩
theorem wf_tx_wr : WFUpTo {} exEnvB exH1 (uTx cWr) exPre (rowsBefore exH1 exPre ++ [cWr]) :=
  ⟨exH1_units, exPre_ok, by decide,
   ⟨.inl rfl, .inl rfl, .inl rfl, .inr (by decide), .inl rfl, .inl rfl, .inl rfl, trivial⟩,
   exMapperB exPre (.inl rfl) cWr rfl, by decide⟩
theorem wf_auto_del : WFUpTo {} exEnvB exH1 (.autoRows cDel) [] (rowsBefore exH1 [] ++ [cDel]) :=
  ⟨exH1_units, (by intro ch h; cases h), by decide,
   ⟨.inl rfl, .inl rfl, .inl rfl, .inr (by decide), .inl rfl, .inl rfl, trivial⟩,
   exMapperB [] (.inr rfl) cDel rfl, by decide⟩

/-- the run over a history with the bad unit `u` in the middle -/
abbrev runB (cfg : W.Cfg) (u : W.Unit) : Outcome :=
  parseEvents exEnvB (fun _ => true) (PState.init ⟨W.firstFile, 4⟩)
    ((W.serve cfg (exH1 ++ u :: exH2) ⟨W.firstFile, 4⟩).map Input.event ++ [Input.closed])
/-- … what the theorems say it is: the transactions of `exH1`, an error, no crash -/
abbrev wantB (cfg : W.Cfg) : Outcome :=
  ⟨(W.expected cfg exH1 ⟨W.firstFile, 4⟩).map (toTx exExt), (W.expected cfg exH1 ⟨W.firstFile, 4⟩).map (toTx exExt),
   posOf (W.endPos cfg exH1 ⟨W.firstFile, 4⟩), true, false⟩

-- UPDATE, bad value in the BEFORE image only (the after image decodes fine): inside a transaction, and autocommitted
example : runB {} (uTx cUpdB) = wantB {} :=
  C06_bytes_value_decode_failure {} exEnvB exH1 (uTx cUpdB) exH2 exPre cUpdB (uTx_at _) wf_tx_updB cUpdB_bad
example : runB {} (.autoRows cUpdB) = wantB {} :=
  C06_bytes_value_decode_failure {} exEnvB exH1 (.autoRows cUpdB) exH2 [] cUpdB (uAuto_at _) wf_auto_updB cUpdB_bad
example : (runB {} (uTx cUpdB)).err = true ∧
    (runB {} (uTx cUpdB)).calls = (W.expected {} exH1 ⟨W.firstFile, 4⟩).map (toTx exExt) :=
  C06_bytes_value_decode_failure_before_only {} exEnvB exH1 (uTx cUpdB) exH2 exPre cUpdB (uTx_at _) wf_tx_updB cUpdB_bad rfl
    (by
      intro r hr
      simp only [cUpdB, List.mem_cons, List.not_mem_nil, or_false] at hr
      rcases hr with rfl | rfl <;>
        (refine ⟨rfl, ?_⟩
         intro p hp
         simp [cUpdB, tEn, colsU, W.selectPresent] at hp
         rcases hp with rfl | rfl <;> simp [W.CellOK, W.intTypes]))
-- UPDATE, AFTER image only / both images; WRITE; DELETE
example : runB {} (uTx cUpdA) = wantB {} :=
  C06_bytes_value_decode_failure {} exEnvB exH1 (uTx cUpdA) exH2 exPre cUpdA (uTx_at _) wf_tx_updA cUpdA_bad
example : runB {} (.autoRows cUpdAB) = wantB {} :=
  C06_bytes_value_decode_failure {} exEnvB exH1 (.autoRows cUpdAB) exH2 [] cUpdAB (uAuto_at _) wf_auto_updAB cUpdAB_bad
example : runB {} (uTx cWr) = wantB {} :=
  C06_bytes_value_decode_failure {} exEnvB exH1 (uTx cWr) exH2 exPre cWr (uTx_at _) wf_tx_wr cWr_bad
example : runB {} (.autoRows cDel) = wantB {} :=
  C06_bytes_value_decode_failure {} exEnvB exH1 (.autoRows cDel) exH2 [] cDel (uAuto_at _) wf_auto_del cDel_bad
example : (W.expected {} exH1 ⟨W.firstFile, 4⟩).length = 3 ∧ W.endPos {} exH1 ⟨W.firstFile, 4⟩ = ⟨W.firstFile, 649⟩ := by decide

/- the bad packet itself (`cUpdB` autocommitted, default configuration: v2 rows event, 6-byte id, no checksum): header
    (timestamp 77, type 31 = UPDATE_ROWS v2, length 56), id 12, flags 1, extra data [7], 2 columns, both present bitmaps
    3; row 1: (1, NULL) → (2, NULL); row 2: before = (-5, the three bytes 9 8 7 where a 3-byte "ENUM" stands), after =
    (6, NULL) -/
set_option maxRecDepth 100000 in
example : (W.serve {} (exH1 ++ W.Unit.autoRows cUpdB :: exH2) ⟨W.firstFile, 4⟩)[16]? =
    some [77, 0, 0, 0, 31, 1, 0, 0, 0, 56, 0, 0, 0, 233, 2, 0, 0, 0, 0, 12, 0, 0, 0, 0, 0, 1, 0, 3, 0, 7, 2, 3, 3,
          2, 1, 0, 0, 0, 2, 2, 0, 0, 0, 0, 251, 255, 255, 255, 9, 8, 7, 2, 6, 0, 0, 0] := by decide

/-- a state that has only seen the FDE and cached table 12, with a transaction open -/
def exStB : PState :=
  { PState.init ⟨W.firstFile, 4⟩ with format := fmtOf {}, tables := [(12, ⟨tmOf tEn, infoOf tEn⟩)], tran := some [],
                                      autocommit := false }

/-- the packet-level theorem on that packet -/
example : stepEvent exEnvB exStB
      (W.event none { ts := 77 } 31 689 (W.rowsBody .update true 6 12 1 [7] tEn.cols [true, true] [true, true] cUpdB.rows)).1
    = .stop true false :=
  (C06_packet_value_decode_failure exEnvB exStB {} rfl none rfl { ts := 77 } 689 cUpdB cUpdB_bad
    ⟨by decide, by decide, by decide, by decide⟩ rfl).2.1

-- the statement of `C06_bytes_value_decode_failure`, computed (evaluator) in all 8 configurations, for the five changes,
-- inside a transaction and autocommitted …
#guard allCfgs.all fun cfg => [cUpdB, cUpdA, cUpdAB, cWr, cDel].all fun c => [uTx c, .autoRows c].all fun u =>
  runB cfg u == wantB cfg
-- … and for other pack sizes (0, 4, 8, 255), ENUM announced as type 247, and type 6
#guard allCfgs.all fun cfg =>
  [(254, 247 * 256 + 0, 0), (254, 247 * 256 + 4, 4), (254, 247 * 256 + 8, 8), (254, 247 * 256 + 255, 255), (247, 3, 3), (6, 0, 0)].all
    fun (typ, md, w) =>
      let t : W.TableDef := { tEn with cols := [⟨3, 0, true⟩, ⟨typ, md, true⟩] }
      let c : W.RowsChange := { cUpdB with table := t, rows := [([some (.int 4 1), some (.raw (List.replicate w 9) (List.replicate w 9))], [some (.int 4 2), none])] }
      runB cfg (uTx c) == wantB cfg && runB cfg (.autoRows c) == wantB cfg
-- `bad` only counts images the event carries: the same bytes listed in the BEFORE image of a WRITE, or in the AFTER
-- image of a DELETE, are never written, and the change is delivered (no error)
#guard allCfgs.all fun cfg =>
  [{ cWr with rows := [([some (.int 4 1), some (.raw [9, 8, 7] [9, 8, 7])], [some (.int 4 2), none])] },
   { cDel with rows := [([some (.int 4 1), none], [some (.int 4 2), some (.raw [9, 8, 7] [9, 8, 7])])] }].all fun c =>
    (runB cfg (.autoRows c)).err == false && (runB cfg (.autoRows c)).calls.length == 5

/-! ### non-vacuity for Goal C -/

/-- table id 7 (so far `tA`: 2 columns) re-announced, same schema and table name, with ONE column … -/
def t1 : W.TableDef := { tA with cols := [⟨3, 0, true⟩], names := [[97]], unsigned := [false] }
/-- … or with THREE -/
def t3 : W.TableDef :=
  { tA with cols := [⟨3, 0, true⟩, ⟨15, 100, true⟩, ⟨3, 0, true⟩], names := [[97], [98], [99]],
            unsigned := [false, false, false] }
def c1 (k : W.RowKind) : W.RowsChange :=
  { kind := k, table := t1, ts := 77, flags := 1, extra := [7], presentBefore := [true], presentAfter := [true],
    rows := [([some (.int 4 1)], [some (.int 4 2)])], announce := true, tmOptional := [] }
def c3 (k : W.RowKind) : W.RowsChange :=
  { kind := k, table := t3, ts := 77, flags := 1, extra := [7], presentBefore := [true, true, false],
    presentAfter := [true, false, true], rows := [([some (.int 4 1), none], [some (.int 4 2), some (.int 4 3)])],
    announce := true, tmOptional := [] }

theorem t1_ok : TableOK {} t1 :=
  ⟨by decide, by intro c hc; simp [t1, tA] at hc; subst hc; unfold Props.C15.ColOK; decide,
   by decide, rfl, rfl, by decide, by decide, by decide⟩
theorem t3_ok : TableOK {} t3 :=
  ⟨by decide, by intro c hc; simp [t3, tA] at hc; rcases hc with rfl | rfl | rfl <;> (unfold Props.C15.ColOK; decide),
   by decide, rfl, rfl, by decide, by decide, by decide⟩

set_option exponentiation.threshold 512 in
theorem c1_ok (k : W.RowKind) : RowsOK {} (c1 k) := by
  refine ⟨t1_ok, rfl, rfl, by cases k <;> decide, by cases k <;> decide, by cases k <;> decide, ?_, by cases k <;> decide⟩
  intro r hr
  simp only [c1, List.mem_cons, List.not_mem_nil, or_false] at hr
  subst hr
  constructor <;> intro _ <;>
    (refine ⟨rfl, ?_⟩
     intro p hp
     simp [c1, t1, tA, colsU, W.selectPresent] at hp
     subst hp; simp [W.CellOK, W.intTypes])

set_option exponentiation.threshold 512 in
theorem c3_ok (k : W.RowKind) : RowsOK {} (c3 k) := by
  refine ⟨t3_ok, rfl, rfl, by cases k <;> decide, by cases k <;> decide, by cases k <;> decide, ?_, by cases k <;> decide⟩
  intro r hr
  simp only [c3, List.mem_cons, List.not_mem_nil, or_false] at hr
  subst hr
  constructor <;> intro _ <;>
    (refine ⟨rfl, ?_⟩
     intro p hp
     simp [c3, t3, tA, colsU, W.selectPresent] at hp
     rcases hp with rfl | rfl <;> simp [W.CellOK, W.intTypes])

/-- `exEnvB` answers `infoOf tA` (2 columns) for table [116] -/
theorem exMapperC (pre : List W.Change) (hpre : pre = exPre ∨ pre = []) :
    ∀ c' ∈ rowsBefore exH1 pre, exEnvB.mapper c'.table.db c'.table.name = some (infoOf c'.table) :=
  fun c' hc' => exMapperB pre hpre cUpdB rfl c' (List.mem_append_left _ hc')

theorem wfC_tx (c : W.RowsChange) (hoff : ∀ e ∈ W.layout {} (exH1 ++ [uTx c]), e.next < 2 ^ 32) :
    WFUpTo {} exEnvB exH1 (uTx c) exPre (rowsBefore exH1 exPre) :=
  ⟨exH1_units, exPre_ok, by decide,
   ⟨.inl rfl, .inl rfl, .inl rfl, .inr (by decide), .inl rfl, .inl rfl, trivial⟩, exMapperC exPre (.inl rfl), hoff⟩
theorem wfC_auto (c : W.RowsChange) (hoff : ∀ e ∈ W.layout {} (exH1 ++ [.autoRows c]), e.next < 2 ^ 32) :
    WFUpTo {} exEnvB exH1 (.autoRows c) [] (rowsBefore exH1 []) :=
  ⟨exH1_units, (by intro ch h; cases h), by decide,
   ⟨.inl rfl, .inl rfl, .inl rfl, .inr (by decide), .inl rfl, trivial⟩, exMapperC [] (.inr rfl), hoff⟩

theorem cA1_before (pre : List W.Change) : cA1 ∈ rowsBefore exH1 pre :=
  List.mem_append_left _ (by simp [exH1, Props.C15b.exRedef, histRows, unitRows, changeRows])

-- m < n: one column where the mapper said two — WRITE inside a transaction, DELETE autocommitted
example : runB {} (uTx (c1 .write)) = wantB {} :=
  C15_bytes_count_redefinition_same_table_rejected_partial {} exEnvB exH1 (uTx (c1 .write)) exH2 exPre (c1 .write) cA1 (uTx_at _)
    (wfC_tx _ (by decide)) (c1_ok _) (by decide) rfl (cA1_before _) rfl ⟨rfl, rfl⟩ (by decide)
example : runB {} (.autoRows (c1 .delete)) = wantB {} :=
  C15_bytes_count_redefinition_same_table_rejected_partial {} exEnvB exH1 (.autoRows (c1 .delete)) exH2 [] (c1 .delete) cA1 (uAuto_at _)
    (wfC_auto _ (by decide)) (c1_ok _) (by decide) rfl (cA1_before _) rfl ⟨rfl, rfl⟩ (by decide)
-- m > n: three columns — UPDATE inside a transaction, WRITE autocommitted
example : runB {} (uTx (c3 .update)) = wantB {} :=
  C15_bytes_count_redefinition_same_table_rejected_partial {} exEnvB exH1 (uTx (c3 .update)) exH2 exPre (c3 .update) cA1 (uTx_at _)
    (wfC_tx _ (by decide)) (c3_ok _) (by decide) rfl (cA1_before _) rfl ⟨rfl, rfl⟩ (by decide)
example : runB {} (.autoRows (c3 .write)) = wantB {} :=
  C15_bytes_count_redefinition_same_table_rejected_partial {} exEnvB exH1 (.autoRows (c3 .write)) exH2 [] (c3 .write) cA1 (uAuto_at _)
    (wfC_auto _ (by decide)) (c3_ok _) (by decide) rfl (cA1_before _) rfl ⟨rfl, rfl⟩ (by decide)

-- the statement of `C15_bytes_count_redefinition_same_table_rejected_partial`, computed (evaluator): 8 configurations, m < n and
-- m > n, the three kinds, inside a transaction and autocommitted
#guard allCfgs.all fun cfg => [W.RowKind.write, .update, .delete].all fun k => [c1 k, c3 k].all fun c =>
  [uTx c, .autoRows c].all fun u => runB cfg u == wantB cfg

/-! … and the row is needed: the ORIGINAL statement (no `c.rows ≠ []`) is false -/

/-- a WRITE rows event for the one-column re-definition of id 7 that carries NO row -/
def c1Empty : W.RowsChange := { c1 .write with rows := [] }
def exHC : W.History := [.autoRows cA2]

theorem c1Empty_ok : RowsOK {} c1Empty :=
  ⟨t1_ok, rfl, rfl, by decide, by decide, by decide, (by intro r hr; cases hr), (by intro r hr; cases hr)⟩

theorem exHC_wf : WFUpTo {} exEnvB exHC (.autoRows c1Empty) [] (rowsBefore exHC []) :=
  ⟨(by intro u hu
       simp only [exHC, List.mem_cons, List.not_mem_nil, or_false] at hu
       subst hu; exact ⟨Props.C15b.cA2_ok, by decide⟩),
   (by intro ch h; cases h), by decide, ⟨.inl rfl, trivial⟩,
   (by intro c' hc'; simp [rowsBefore, exHC, histRows, unitRows, changeRows] at hc'; subst hc'; rfl), by decide⟩

set_option maxRecDepth 100000 in
/-- ORIGINAL STATEMENT of Goal C — "… followed by a rows event of any kind for that id with m-column bitmaps: the run
    stops with an error" — is FALSE without "with at least one row": the model's row conversion compares the column
    counts once PER ROW, so a rows event without rows for the re-announced id is delivered as a (row-less) change, without
    error (kernel-computed: `exHC` then the autocommitted `c1Empty`).  `…_partial` above adds `c.rows ≠ []`. -/
theorem C15_bytes_count_redefinition_rejected_refuted :
    ¬ (∀ (cfg : W.Cfg) (env : Env) (h₁ : W.History) (u : W.Unit) (h₂ : W.History) (pre : List W.Change)
        (c c₀ : W.RowsChange), UnitAt u pre c → WFUpTo cfg env h₁ u pre (rowsBefore h₁ pre) → RowsOK cfg c →
        c.announce = true → c₀ ∈ rowsBefore h₁ pre → c₀.table.id = c.table.id →
        c₀.table.cols.length ≠ c.table.cols.length →
        parseEvents env (fun _ => true) (PState.init ⟨W.firstFile, 4⟩)
            ((W.serve cfg (h₁ ++ u :: h₂) ⟨W.firstFile, 4⟩).map Input.event ++ [Input.closed])
          = ⟨(W.expected cfg h₁ ⟨W.firstFile, 4⟩).map (toTx env.ext), (W.expected cfg h₁ ⟨W.firstFile, 4⟩).map (toTx env.ext),
             posOf (W.endPos cfg h₁ ⟨W.firstFile, 4⟩), true, false⟩) := by
  intro hall
  have h := hall {} exEnvB exHC (.autoRows c1Empty) [] [] c1Empty cA2 (uAuto_at _) exHC_wf c1Empty_ok rfl
    (by simp [rowsBefore, exHC, histRows, unitRows, changeRows]) rfl (by decide)
  have herr := congrArg Outcome.err h
  have : (parseEvents exEnvB (fun _ => true) (PState.init ⟨W.firstFile, 4⟩)
      ((W.serve {} (exHC ++ W.Unit.autoRows c1Empty :: []) ⟨W.firstFile, 4⟩).map Input.event ++ [Input.closed])).err = false := by
    decide
  rw [this] at herr
  cases herr

/-! ### Goal B: the before-image error must not be overwritten -/

/-- MUTATED conversion of the rows of an UPDATE event: both images of a row are decoded, the error is checked ONCE —
    the after-image result has overwritten the before-image error (whose value is the nil slice Go returns with it);
    panics are panics -/
def rowsOfSwallow (E : Ext) (tc : TableCache) (rs : Rows) : List Row → Res (List (List ColumnData) × List (List ColumnData))
  | [] => .ok ([], [])
  | r :: rest => do
      let ids ← (match getIdentifiesFromRow E tc.tableMap tc.info rs r with
        | .err => .ok []
        | x => x)
      let vals ← getValuesFromRow E tc.tableMap tc.info rs r
      let (vs, is) ← rowsOfSwallow E tc rs rest
      pure (vals :: vs, ids :: is)

/-- `classify` with `rowsOfSwallow` for `rowsOf` on UPDATE rows events; everything else as `classify` -/
def classifySwallow (env : Env) (st : PState) (ev0 : Bytes) : Decoded :=
  if !isValid ev0 ∨ st.format.isZero ∨ evType ev0 = .ok Facts.eFormatDescriptionEvent then classify env st ev0 else
  match stripChecksum56 st.format ev0 with
  | .ok ev =>
    match evType ev, tableID st.format ev with
    | .ok typ, .ok id =>
      if typ = Facts.eUpdateRowsEventV1 ∨ typ = Facts.eUpdateRowsEventV2 then
        match findTable st.tables id with
        | some tc =>
          match rows st.format tc.tableMap ev, evNextPosition ev, evTimestamp ev with
          | .ok rs, .ok next, .ok ts =>
            ofRes (rowsOfSwallow env.ext tc rs rs.rows) fun (vals, ids) =>
              .rows { typ := Facts.StatementUpdate, table := (tc.info.db, tc.info.table), query := none, timestamp := ts,
                      rowValues := vals, rowIdentifies := ids } next ts
          | _, _, _ => classify env st ev0
        | none => classify env st ev0
      else classify env st ev0
    | _, _ => classify env st ev0
  | _ => classify env st ev0

/-- `parseEvents` over the mutated classification -/
def parseEventsSwallow (env : Env) (handler : Transaction → Bool) : PState → List Input → Outcome
  | st, [] => ⟨[], [], st.pos, false, false⟩
  | st, .closed :: _ => ⟨[], [], st.pos, false, false⟩
  | st, .cancelled :: _ => ⟨[], [], st.pos, false, false⟩
  | st, .event b :: rest =>
    match stepD st (classifySwallow env st b) with
    | .cont st' => parseEventsSwallow env handler st' rest
    | .stop e c => ⟨[], [], st.pos, e, c⟩
    | .deliver tx acc =>
      if handler tx then
        let o := parseEventsSwallow env handler acc rest
        { o with calls := tx :: o.calls, accepted := tx :: o.accepted }
      else ⟨[tx], [], st.pos, true, false⟩

-- on a history without undecodable values the mutated parser is the parser (evaluator, 8 configurations)
#guard allCfgs.all fun cfg =>
  parseEventsSwallow Props.C15b.exEnv (fun _ => true) (PState.init ⟨W.firstFile, 4⟩)
      ((W.serve cfg Props.C15b.exRedef ⟨W.firstFile, 4⟩).map Input.event ++ [Input.closed])
    == parseEvents Props.C15b.exEnv (fun _ => true) (PState.init ⟨W.firstFile, 4⟩)
      ((W.serve cfg Props.C15b.exRedef ⟨W.firstFile, 4⟩).map Input.event ++ [Input.closed])

/-- one transaction holding the UPDATE with the undecodable value in a BEFORE image only -/
def exSwallow : W.History := [.tx (asc "BEGIN") [.rows cUpdB] (.xid 9) 90]

theorem exSwallow_at : UnitAt (.tx (asc "BEGIN") [.rows cUpdB] (.xid 9) 90) [] cUpdB :=
  Or.inr ⟨asc "BEGIN", [], .xid 9, 90, rfl, by decide, by decide⟩

theorem exSwallow_wf : WFUpTo {} exEnvB [] (.tx (asc "BEGIN") [.rows cUpdB] (.xid 9) 90) [] (rowsBefore [] [] ++ [cUpdB]) :=
  ⟨(by intro u h; cases h), (by intro ch h; cases h), by decide, ⟨.inl rfl, trivial⟩,
   by intro c' hc'; simp [rowsBefore, histRows, changeRows] at hc'; subst hc'; rfl, by decide⟩

/-- the model's run on `exSwallow` … -/
abbrev runSw : Outcome :=
  parseEvents exEnvB (fun _ => true) (PState.init ⟨W.firstFile, 4⟩)
    ((W.serve {} exSwallow ⟨W.firstFile, 4⟩).map Input.event ++ [Input.closed])
/-- … and the mutated parser's -/
abbrev mutSw : Outcome :=
  parseEventsSwallow exEnvB (fun _ => true) (PState.init ⟨W.firstFile, 4⟩)
    ((W.serve {} exSwallow ⟨W.firstFile, 4⟩).map Input.event ++ [Input.closed])

set_option maxRecDepth 100000 in
/-- kernel-computed on `exSwallow`: the model stops with an error and delivers nothing (as
    `C06_bytes_value_decode_failure` says); the mutated parser reports NO error and hands the handler a transaction whose
    UPDATE event has an empty before image for the undecodable row -/
theorem C06_bytes_decode_failure_swallowed_by_variant :
    runSw.err = true ∧ runSw.crash = false ∧ runSw.calls = [] ∧ runSw.pos = ⟨W.firstFile, 4⟩ ∧
    mutSw.err = false ∧ mutSw.crash = false ∧ mutSw.calls.length = 1 ∧ mutSw.pos = ⟨W.firstFile, 286⟩ ∧
    mutSw.calls.map (fun t => t.events.map fun e => e.rowIdentifies.map List.length) = [[[2, 0]]] :=
  ⟨by decide, by decide, by decide, by decide, by decide, by decide, by decide, by decide, by decide⟩

/-- the clause is not vacuous: `C06_bytes_value_decode_failure` is FALSE for the parser whose UPDATE conversion lets the
    after-image result overwrite the before-image error -/
theorem C06_bytes_decode_failure_not_swallowed_refuted_variant :
    ¬ (∀ (cfg : W.Cfg) (env : Env) (h₁ : W.History) (u : W.Unit) (h₂ : W.History) (pre : List W.Change)
        (c : W.RowsChange), UnitAt u pre c → WFUpTo cfg env h₁ u pre (rowsBefore h₁ pre ++ [c]) → BadValueChange cfg c →
        parseEventsSwallow env (fun _ => true) (PState.init ⟨W.firstFile, 4⟩)
            ((W.serve cfg (h₁ ++ u :: h₂) ⟨W.firstFile, 4⟩).map Input.event ++ [Input.closed])
          = ⟨(W.expected cfg h₁ ⟨W.firstFile, 4⟩).map (toTx env.ext), (W.expected cfg h₁ ⟨W.firstFile, 4⟩).map (toTx env.ext),
             posOf (W.endPos cfg h₁ ⟨W.firstFile, 4⟩), true, false⟩) := by
  intro hall
  have h := hall {} exEnvB [] _ [] [] cUpdB exSwallow_at exSwallow_wf cUpdB_bad
  have herr := congrArg Outcome.err h
  have : mutSw.err = false := C06_bytes_decode_failure_swallowed_by_variant.2.2.2.2.1
  rw [show ([] : W.History) ++ W.Unit.tx (asc "BEGIN") [.rows cUpdB] (.xid 9) 90 :: [] = exSwallow from rfl, this] at herr
  cases herr

/-- … while the real parser does satisfy it on that very instance -/
example : parseEvents exEnvB (fun _ => true) (PState.init ⟨W.firstFile, 4⟩)
      ((W.serve {} exSwallow ⟨W.firstFile, 4⟩).map Input.event ++ [Input.closed])
    = ⟨[], [], ⟨W.firstFile, 4⟩, true, false⟩ :=
  C06_bytes_value_decode_failure {} exEnvB [] _ [] [] cUpdB exSwallow_at exSwallow_wf cUpdB_bad

end GV.Props.C06b
