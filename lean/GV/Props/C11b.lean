import GV.Props.C13b
import GV.Lemmas.C11b
/-
  C11 (byte level, END TO END) — a DECIMAL(p,s) value as the HANDLER receives it: the canonical decimal text of
  GV/Props/C11.lean, never empty, never NULL-looking (DESIGN §7 C11).  Corollary of `C01_fidelity_bytes` +
  `GV.C13b.delivered_value` (what is delivered at a site); the text is `W.text … (.dec neg i f)`, the right-hand side of
  `C11.C11_text` (which `GV.C09R.cell_exact`, hence `C01_classify_rows`, is built from).  Property theorems and
  non-vacuity examples only; helper lemmas in GV/Lemmas/C11b.lean.
  Vocabulary (`runCalls`, `deliveredCol`, `written`, `Site`): see GV/Props/C13b.lean.
-/
namespace GV.Props.C11b
open GV GV.M GV.Props.C01 GV.Props.C01b GV.Props.C09b GV.C01c GV.C13b GV.C11b

/-- DECIMAL, end to end.  Table column j has type 246 (NEWDECIMAL) and holds a value v in the image at hand.  Then v is
    a pair of digit lists `.dec neg i f` well-formed for the column's DECIMAL(p,s) (metadata p·256 + s, 1 ≤ p ≤ 65,
    s ≤ min 30 p, i has p − s digits, f has s), and the handler receives exactly the canonical text of C11.lean —
    optional '-', the integer digits without leading zeros (a single 0 when there are none), and, when s > 0, '.' and
    exactly the s fraction digits (`lc`, `f32`, `f64` are the Spec text's runtime parameters, irrelevant here).
    The text is never empty, so the column is neither NULL, nor absent, nor an empty value. -/
theorem C11_bytes_decimal_delivered (cfg : W.Cfg) (env : Env) (h : W.History) (hwf : WFHist cfg h)
    (hm : MapperAgrees env h) (i k : Nat) (c : W.RowsChange) (after : Bool) (r j : Nat)
    (hs : Site cfg h i k c after r j) (v : W.CellVal)
    (ht : (c.table.cols[j]'hs.col).typ = 246) (hv : written c after r j = .value v) (lc f32 f64 : Nat → Bytes) :
    ∃ cd neg ip fp p s, deliveredCol (runCalls cfg env h) i k after r j = some cd ∧ v = .dec neg ip fp ∧
      (c.table.cols[j]'hs.col).md = p * 256 + s ∧ (1 ≤ p ∧ p ≤ 65) ∧ (s ≤ 30 ∧ s ≤ p) ∧ Props.C11.WF p s ip fp ∧
      cd.col = .value (W.text (p * 256 + s) lc f32 f64 (.dec neg ip fp)) ∧
      cd.col = .value ((if neg then [45] else []) ++
                       (match W.stripLeadingZeros ip with | [] => [digit 0] | ds => W.digitsText ds) ++
                       (if fp.isEmpty then [] else [46] ++ W.digitsText fp)) ∧
      cd.col ≠ .value [] ∧ cd.col ≠ .null ∧ cd.col ≠ .absent := by
  obtain ⟨_, u, _, _, hok, hd⟩ := delivered_value cfg env h hwf hm i k c after r j hs v hv
  rw [ht] at hok
  obtain ⟨neg, ip, fp, p, s, rfl, hmd, hp, hs', wf⟩ := inv_dec _ _ _ hok
  have hne := Props.C11.C11_nonempty (p * 256 + s) neg ip fp lc f32 f64
  refine ⟨_, neg, ip, fp, p, s, hd, rfl, hmd, hp, hs', wf, ?_, ?_, ?_, by simp, by simp⟩
  · rw [hmd]; rfl
  · rfl
  · show Col.value (textOf env.ext _ (.dec neg ip fp)) ≠ Col.value []
    intro he
    injection he with he
    exact hne he

/-- zero is delivered as "0" (s = 0) or "0.00…0" with exactly s zeros — whatever the precision -/
theorem C11_bytes_decimal_zero (md k s : Nat) (lc f32 f64 : Nat → Bytes) :
    W.text md lc f32 f64 (.dec false (List.replicate k 0) (List.replicate s 0))
      = 48 :: (if s = 0 then [] else 46 :: List.replicate s 48) :=
  zero_text md k s lc f32 f64

/-! non-vacuity, on `rHist` (GV/Lemmas/C13b.lean): column 3 is DECIMAL(5,2); row 0 of the UPDATE's after image holds
    -012.34, row 1 holds zero -/

theorem site_dec (r : Nat) (hr : r < 2) : Site {} rHist 0 0 rC1 true r 3 :=
  ⟨site_tx_of_bind (by decide), by decide, hr, by decide⟩

example : ∃ cd, deliveredCol (runCalls {} rEnv rHist) 0 0 true 0 3 = some cd ∧ cd.col = .value (asc "-12.34") := by
  obtain ⟨cd, neg, ip, fp, p, s, h1, h2, _, _, _, _, _, h8, _⟩ :=
    C11_bytes_decimal_delivered {} rEnv rHist rWF rMapper 0 0 rC1 true 0 3 (site_dec 0 (by decide))
      (.dec true [0, 1, 2] [3, 4]) rfl (by decide) (fun _ => []) (fun _ => []) (fun _ => [])
  injection h2 with hn hi hf
  subst hn hi hf
  exact ⟨cd, h1, h8⟩
example : ∃ cd, deliveredCol (runCalls {} rEnv rHist) 0 0 true 1 3 = some cd ∧ cd.col = .value (asc "0.00") := by
  obtain ⟨cd, neg, ip, fp, p, s, h1, h2, _, _, _, _, _, h8, _⟩ :=
    C11_bytes_decimal_delivered {} rEnv rHist rWF rMapper 0 0 rC1 true 1 3 (site_dec 1 (by decide))
      (.dec false [0, 0, 0] [0, 0]) rfl (by decide) (fun _ => []) (fun _ => []) (fun _ => [])
  injection h2 with hn hi hf
  subst hn hi hf
  exact ⟨cd, h1, h8⟩
example : W.text (5 * 256 + 2) (fun _ => []) (fun _ => []) (fun _ => []) (.dec false [0, 0, 0] [0, 0]) = asc "0.00" :=
  C11_bytes_decimal_zero (5 * 256 + 2) 3 2 _ _ _

end GV.Props.C11b
