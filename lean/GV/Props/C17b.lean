import GV.Props.C04b
import GV.Lemmas.C02b
/-
  C17 at the BYTE level, in the middle of a real stream — a truncated, over-long or garbage packet (any byte string b
  with `isValid b = false`, see `C17_isvalid_iff` in Props/C17.lean) injected after ANY number k of the packets the
  Spec master serves ends the stream with an error, without a panic, without delivering a partial transaction, and
  with the resume position still at the last accepted commit boundary; whatever follows the bad packet is never
  looked at; a clean run from the position kept delivers exactly the rest (DESIGN §7 C17).
  `GV/Props/C17.lean` has the gate itself (`C17_invalid_stops`: one step, from any state).

  Every theorem here is a SHORT COROLLARY of `C04_bytes_outcome` (Props/C04b: the exact outcome of any attempt — any
  handler, any cut, any quiet ending — is `specOut` on the events that arrived), with the ending
  `.event b :: rest` (`C04_bytes_endings`: a quiet ending with error flag true), of `C04_bytes_kept_resumable`, and of
  the Spec-side reading of `specOut` in GV/Lemmas/C02b.lean.  The parser is never unfolded here.
  Property theorems and non-vacuity examples only.  Vocabulary: Props/C04b (served, preamble, keptPos, doneCount,
  Resumable, runClean, runAttempt, Attempt) and Props/C01c, C01d (toTx, posOf, Lands, WFFrom, unitsFrom, MapperAgrees).

  RESULTS (nothing is partial or refuted)
    C17_bytes_injected_invalid              accept-all handler, every k (k < preamble — the bad packet before or
                                            instead of the FORMAT_DESCRIPTION event — included: then nothing was
                                            consumed, no call, position p), every `rest`: EXACT outcome; the position
                                            kept is `Resumable`; the clean run from it delivers exactly the rest;
                                            accepted-before ++ delivered-after = everything expected (exactly once
                                            around a malformed packet)
    C17_bytes_injected_invalid_any_handler  ANY handler: error, no crash, accepted = the first `doneCount m` expected
                                            transactions and position = `keptPos m` for some m ≤ what arrived, calls =
                                            accepted or accepted ++ [the next expected transaction, rejected]
    C17_bytes_no_partial                    ANY handler: every call is the `toTx` image of a complete expected
                                            transaction
    C17_bytes_rest_ignored                  the outcome does not depend on what follows the bad packet
  Checked by evaluation before proving (scratch file): the exact-outcome statement on `exHistS` from exP0 (preamble 1)
  and exP1 (preamble 2) for every k in 0..24, with nothing and with the remaining packets after the bad one.
-/
namespace GV.Props.C17b
open GV GV.M GV.Props.C01 GV.Props.C01b GV.C01c GV.Props.C01c GV.C01d GV.Props.C01d GV.C04b GV.Props.C04b GV.C02b

/-- C17 in a real stream, handler accepting everything.  For every byte string b that is not a valid event, every
    number k of served packets before it and everything `rest` after it: the run reports an error, does not crash, has
    called the handler with exactly the transactions whose commit events are among the k - preamble laid-out events
    that arrived before b (all accepted, complete, in order), and keeps the Spec position after these events — behind
    the last commit point, moved on by a later ROTATE.  `rest` is never looked at.  From a `Resumable` start that
    position is `Resumable` again, the clean run from it delivers exactly the remaining expected transactions, and
    accepted-before ++ delivered-after is everything expected from p: exactly once around a malformed packet. -/
theorem C17_bytes_injected_invalid (cfg : W.Cfg) (env : Env) (h : W.History) (p : W.Pos) (hr : Resumable cfg env h p)
    (b : Bytes) (hb : isValid b = false) (k : Nat) (rest : List Input) :
    parseEvents env (fun _ => true) (PState.init (posOf p))
        (((W.serve cfg h p).take k).map Input.event ++ [.event b] ++ rest)
      = ⟨((W.expected cfg h p).take (doneCount cfg h p (k - preamble cfg h p))).map (toTx env.ext),
         ((W.expected cfg h p).take (doneCount cfg h p (k - preamble cfg h p))).map (toTx env.ext),
         posOf (keptPos cfg h p (k - preamble cfg h p)), true, false⟩ ∧
    Resumable cfg env h (keptPos cfg h p (k - preamble cfg h p)) ∧
    runClean cfg env h (keptPos cfg h p (k - preamble cfg h p))
      = ⟨((W.expected cfg h p).drop (doneCount cfg h p (k - preamble cfg h p))).map (toTx env.ext),
         ((W.expected cfg h p).drop (doneCount cfg h p (k - preamble cfg h p))).map (toTx env.ext),
         posOf (W.endPos cfg h p), false, false⟩ ∧
    (parseEvents env (fun _ => true) (PState.init (posOf p))
        (((W.serve cfg h p).take k).map Input.event ++ [.event b] ++ rest)).accepted
      ++ (runClean cfg env h (keptPos cfg h p (k - preamble cfg h p))).accepted
      = (W.expected cfg h p).map (toTx env.ext) := by
  have hout := C04_bytes_outcome cfg env h p hr.lands hr.wf hr.mapper (fun _ => true) k true (.event b :: rest)
    ((C04_bytes_endings env).2.2.2.1 b rest hb)
  rw [specOut_acceptAll env.ext _ (fun _ => rfl) true, (expected_split cfg h p (k - preamble cfg h p)).1] at hout
  have hin : ((W.serve cfg h p).take k).map Input.event ++ [.event b] ++ rest
      = ((W.serve cfg h p).take k).map Input.event ++ .event b :: rest := by simp
  obtain ⟨hr', hexp, hend⟩ := C04_bytes_kept_resumable cfg env h p hr (k - preamble cfg h p)
  have hclean : runClean cfg env h (keptPos cfg h p (k - preamble cfg h p)) = _ :=
    C01_fidelity_bytes_resume_lands cfg env h _ hr'.lands hr'.wf hr'.mapper
  rw [hexp, hend] at hclean
  rw [hin, hout, hclean]
  refine ⟨rfl, hr', rfl, ?_⟩
  show _ ++ _ = _
  rw [← List.map_append, List.take_append_drop]

/-- C17 in a real stream, ANY handler (it may reject any call).  The run reports an error and does not crash; it
    consumed without failure the first m laid-out events (m at most the k - preamble that arrived before the bad
    packet), ACCEPTED exactly the expected transactions whose commit events are among them, keeps the Spec position
    after them, and made either no further call or exactly one more — the next expected transaction, complete, which
    the handler rejected. -/
theorem C17_bytes_injected_invalid_any_handler (cfg : W.Cfg) (env : Env) (h : W.History) (p : W.Pos)
    (hl : Lands cfg h p) (hwf : WFFrom cfg h p) (hm : MapperAgrees env (unitsFrom cfg h p))
    (acc : Transaction → Bool) (b : Bytes) (hb : isValid b = false) (k : Nat) (rest : List Input) :
    ∃ m, m ≤ min (k - preamble cfg h p) (served cfg h p).length ∧
      (runAttempt cfg env h ⟨acc, k, .event b :: rest⟩ p).err = true ∧
      (runAttempt cfg env h ⟨acc, k, .event b :: rest⟩ p).crash = false ∧
      (runAttempt cfg env h ⟨acc, k, .event b :: rest⟩ p).accepted
        = ((W.expected cfg h p).take (doneCount cfg h p m)).map (toTx env.ext) ∧
      (runAttempt cfg env h ⟨acc, k, .event b :: rest⟩ p).pos = posOf (keptPos cfg h p m) ∧
      ((runAttempt cfg env h ⟨acc, k, .event b :: rest⟩ p).calls
          = (runAttempt cfg env h ⟨acc, k, .event b :: rest⟩ p).accepted ∧
          m = min (k - preamble cfg h p) (served cfg h p).length ∨
       ∃ t, (W.expected cfg h p)[doneCount cfg h p m]? = some t ∧ acc (toTx env.ext t) = false ∧
          (runAttempt cfg env h ⟨acc, k, .event b :: rest⟩ p).calls
            = (runAttempt cfg env h ⟨acc, k, .event b :: rest⟩ p).accepted ++ [toTx env.ext t]) := by
  obtain ⟨m, h1, h2, h3, h4, h5⟩ := C04_bytes_resume_pos cfg env h p hl hwf hm ⟨acc, k, .event b :: rest⟩ true
    ((C04_bytes_endings env).2.2.2.1 b rest hb)
  refine ⟨m, h1, ?_, h5, h2, h3, ?_⟩
  · rcases h4 with ⟨_, he, _⟩ | ⟨_, _, _, _, _, he⟩ <;> exact he
  · rcases h4 with ⟨hc, _, hm'⟩ | ⟨t, ht1, _, ht3, hc, _⟩
    · exact Or.inl ⟨hc, hm'⟩
    · exact Or.inr ⟨t, ht1, ht3, hc⟩

/-- C17, no partial transaction.  ANY handler, any k, any invalid packet, anything after it: every transaction the
    handler was called with is the `toTx` image of a complete expected transaction — all the changes between its BEGIN
    and its commit event, none missing, none from another transaction —; the calls are a prefix of the expected
    sequence, never more than the commit events that arrived before the bad packet. -/
theorem C17_bytes_no_partial (cfg : W.Cfg) (env : Env) (h : W.History) (p : W.Pos)
    (hl : Lands cfg h p) (hwf : WFFrom cfg h p) (hm : MapperAgrees env (unitsFrom cfg h p))
    (acc : Transaction → Bool) (b : Bytes) (hb : isValid b = false) (k : Nat) (rest : List Input) :
    (∀ tx ∈ (parseEvents env acc (PState.init (posOf p))
        (((W.serve cfg h p).take k).map Input.event ++ [.event b] ++ rest)).calls,
      ∃ t ∈ W.expected cfg h p, tx = toTx env.ext t) ∧
    ∃ n, n ≤ doneCount cfg h p (k - preamble cfg h p) ∧
      (parseEvents env acc (PState.init (posOf p))
        (((W.serve cfg h p).take k).map Input.event ++ [.event b] ++ rest)).calls
      = ((W.expected cfg h p).take n).map (toTx env.ext) := by
  have hout := C04_bytes_outcome cfg env h p hl hwf hm acc k true (.event b :: rest)
    ((C04_bytes_endings env).2.2.2.1 b rest hb)
  have hin : ((W.serve cfg h p).take k).map Input.event ++ [.event b] ++ rest
      = ((W.serve cfg h p).take k).map Input.event ++ .event b :: rest := by simp
  obtain ⟨n, h1, h2, _⟩ := specOut_calls env.ext acc true ((served cfg h p).take (k - preamble cfg h p)) p
  have h1' : n ≤ doneCount cfg h p (k - preamble cfg h p) := h1
  rw [(expected_split cfg h p (k - preamble cfg h p)).1, List.take_take, Nat.min_eq_left h1'] at h2
  rw [hin, hout, h2]
  refine ⟨?_, n, h1', rfl⟩
  intro tx htx
  obtain ⟨t, ht, rfl⟩ := List.mem_map.mp htx
  exact ⟨t, List.mem_of_mem_take ht, rfl⟩

/-- C17, whatever follows the bad packet is never looked at: ANY handler, any two continuations, same outcome -/
theorem C17_bytes_rest_ignored (cfg : W.Cfg) (env : Env) (h : W.History) (p : W.Pos)
    (hl : Lands cfg h p) (hwf : WFFrom cfg h p) (hm : MapperAgrees env (unitsFrom cfg h p))
    (acc : Transaction → Bool) (b : Bytes) (hb : isValid b = false) (k : Nat) (rest rest' : List Input) :
    parseEvents env acc (PState.init (posOf p)) (((W.serve cfg h p).take k).map Input.event ++ [.event b] ++ rest)
      = parseEvents env acc (PState.init (posOf p)) (((W.serve cfg h p).take k).map Input.event ++ [.event b] ++ rest') := by
  have h1 := C04_bytes_outcome cfg env h p hl hwf hm acc k true (.event b :: rest)
    ((C04_bytes_endings env).2.2.2.1 b rest hb)
  have h2 := C04_bytes_outcome cfg env h p hl hwf hm acc k true (.event b :: rest')
    ((C04_bytes_endings env).2.2.2.1 b rest' hb)
  simp only [List.append_assoc, List.singleton_append]
  rw [h1, h2]

/-! ### non-vacuity: `exHistS` of Props/C04b (21 packets from the head of the log, preamble 1; from exP1 preamble 2) -/

/-- a truncated packet: 18 bytes, shorter than an event header -/
def exBad : Bytes := List.replicate 18 0
theorem exBadInvalid : isValid exBad = false := by decide
/-- an over-long packet: a valid 19-byte header (length field 19) followed by one byte too many -/
def exLong : Bytes := [0,0,0,0, 16, 1,0,0,0, 19,0,0,0, 23,0,0,0, 0,0, 0]
theorem exLongInvalid : isValid exLong = false := by decide

/-- after 12 packets (through the FORMAT_DESCRIPTION event of the second file), then the rest of the stream -/
example := C17_bytes_injected_invalid {} exEnv exHistS exP0 exResumable exBad exBadInvalid 12
  (((W.serve {} exHistS exP0).drop 12).map Input.event ++ [.closed])
example := C17_bytes_injected_invalid_any_handler {} exEnv exHistS exP0 exResumable.lands exResumable.wf
  exResumable.mapper exRejectSecond exLong exLongInvalid 12 []
example := C17_bytes_no_partial {} exEnv exHistS exP0 exResumable.lands exResumable.wf exResumable.mapper
  exRejectSecond exLong exLongInvalid 12 [.closed]
example := C17_bytes_rest_ignored {} exEnv exHistS exP0 exResumable.lands exResumable.wf exResumable.mapper
  exRejectSecond exBad exBadInvalid 12 [] [.event exLong, .cancelled]

/-- the bad packet first (k = 0) or right behind the artificial ROTATE, instead of the FORMAT_DESCRIPTION event
    (k = 1): nothing was consumed, no call, the position is the start position -/
example : doneCount {} exHistS exP0 (0 - preamble {} exHistS exP0) = 0 ∧ keptPos {} exHistS exP0 (0 - preamble {} exHistS exP0) = exP0 ∧
    doneCount {} exHistS exP0 (1 - preamble {} exHistS exP0) = 0 ∧ keptPos {} exHistS exP0 (1 - preamble {} exHistS exP0) = exP0 ∧
    doneCount {} exHistS exP0 (12 - preamble {} exHistS exP0) = 2 ∧
    keptPos {} exHistS exP0 (12 - preamble {} exHistS exP0) = ⟨asc "bin.000002", 4⟩ := by decide

set_option maxRecDepth 100000 in
/-- … computed (kernel): k = 0 and k = 1 from the head of the log, k = 0, 1, 2 from exP1 (preamble 2) -/
example :
    (∀ k ∈ [0, 1], parseEvents exEnv (fun _ => true) (PState.init (posOf exP0))
        (((W.serve {} exHistS exP0).take k).map Input.event ++ [.event exBad] ++ [.closed])
      = ⟨[], [], posOf exP0, true, false⟩) ∧
    (∀ k ∈ [0, 1, 2], parseEvents exEnv (fun _ => true) (PState.init (posOf exP1))
        (((W.serve {} exHistS exP1).take k).map Input.event ++ [.event exBad] ++ [.closed])
      = ⟨[], [], posOf exP1, true, false⟩) := by decide

set_option maxRecDepth 100000 in
/-- … and k = 12 (kernel, labels): two transactions delivered, position the head of the second file, error -/
example :
    (parseEvents exEnv (fun _ => true) (PState.init (posOf exP0))
        (((W.serve {} exHistS exP0).take 12).map Input.event ++ [.event exBad] ++ [.closed])).calls.map exLabel
      = (((W.expected {} exHistS exP0).take 2).map (toTx exEnv.ext)).map exLabel ∧
    (parseEvents exEnv (fun _ => true) (PState.init (posOf exP0))
        (((W.serve {} exHistS exP0).take 12).map Input.event ++ [.event exBad] ++ [.closed])).pos
      = ⟨asc "bin.000002", 4⟩ ∧
    (parseEvents exEnv (fun _ => true) (PState.init (posOf exP0))
        (((W.serve {} exHistS exP0).take 12).map Input.event ++ [.event exBad] ++ [.closed])).err = true := by decide

end GV.Props.C17b
