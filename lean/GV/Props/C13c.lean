import GV.Lemmas.C13c
/-
  C10 – C14 (byte level, END TO END) FOR HISTORIES IN WHICH A TABLE ID IS RE-USED FOR ANOTHER TABLE (finding F13) — what
  the HANDLER receives for one column of one row of a rows change: the theorems of GV/Props/C13b.lean, C10b.lean,
  C11b.lean, C12b.lean, C14b.lean with `WFHist cfg h` (whose field `tables` says that a table id names ONE table
  throughout the history) weakened to `WFHistReuse cfg h` (GV/Lemmas/C15c.lean: every rows change carries the definition
  most recently announced for its id; ids start over when the master restarts).  They are corollaries of
  `C15_bytes_fidelity_id_reuse` (GV/Props/C15c.lean) as the earlier ones are of `C01_fidelity_bytes`; the earlier ones are
  the instances through `C15_id_reuse_subsumes`.  Property theorems and non-vacuity examples only; the generalised lemmas
  (`delivered_col_reuse`, `delivered_value_reuse`, `site_rowsOK_reuse`) are in GV/Lemmas/C13b.lean, the concrete
  histories with id re-use in GV/Lemmas/C13c.lean (namespace GV.C13c).

  What id re-use adds: everything said about the column at a site — its NAME, its SIGNEDNESS flag, its type and
  metadata — is that of `c.table`, the table announced for THIS rows change (the mapper's answer for
  (c.table.db, c.table.name)), not that of a table the same id stood for earlier in the log.  For the control flow of
  streamer.go as found (`parseEventsOld`, every cached table id is known) this is FALSE:
  `C13_bytes_id_reuse_misattributed_by_old_code`, `…_old_code_refuted`.

  Vocabulary: that of GV/Props/C13b.lean (`runCalls`, `deliveredCol`, `Site`, `presentOf`, `imageOf`, `ordOf`,
  `written`, `textOf`), of GV/Props/C15c.lean (`WFHistReuse`, `parseEventsOld`) and
    deliveredTable calls i k     the table (database, name) the k-th event of the handler's i-th call is attributed to
    runCallsOld cfg env h        `runCalls` for the OLD control flow
    nameType cd, firstByte cd    (name, type) of a delivered column; the first byte of its value text
    sHist      BEGIN, TABLE_MAP 108 = shop.orders (amount INT, order_id BIGINT), WRITE (-250, 7001), XID | STOP,
               (restart) bin.000002 | BEGIN, TABLE_MAP 108 = shop.users (uid INT UNSIGNED, age TINYINT),
               WRITE (4000000000, 33), (7, NULL), XID
    rHistR, qHistR, tHistR, jHistR   the concrete histories of the earlier files behind a transaction into ANOTHER table
               (d.s) announced under their table id, and a master restart
  Checked by evaluation first (the `#guard`s at the end).
-/
namespace GV.Props.C13c
open GV GV.M GV.Props.C01 GV.Props.C01b GV.Props.C09b GV.C01c GV.C13b GV.C15c GV.C13c GV.C10b GV.C11b GV.C12b GV.C14b

/-! ### C13: absent / NULL / value, name and type -/

/-- `C13_bytes_absent_null_value` for histories with table ids re-used for other tables: ABSENT / NULL / value, end to
    end, the EMPTY string being a value, strings verbatim; the metadata the text is rendered with is that of the table
    announced for this rows change. -/
theorem C13_bytes_absent_null_value_id_reuse (cfg : W.Cfg) (env : Env) (h : W.History) (hwf : WFHistReuse cfg h)
    (hm : MapperAgrees env h) (i k : Nat) (c : W.RowsChange) (after : Bool) (r j : Nat)
    (hs : Site cfg h i k c after r j) :
    ∃ cd, deliveredCol (runCalls cfg env h) i k after r j = some cd ∧
      (cd.col = .absent ↔ (presentOf c after)[j]? = some false) ∧
      (cd.col = .null ↔ (presentOf c after)[j]? = some true ∧
          (imageOf c after r)[ordOf (presentOf c after) j]? = some none) ∧
      (∀ b, cd.col = .value b ↔ (presentOf c after)[j]? = some true ∧
          ∃ v, (imageOf c after r)[ordOf (presentOf c after) j]? = some (some v) ∧
               b = textOf env.ext (c.table.cols[j]'hs.col).md v) ∧
      ((presentOf c after)[j]? = some false ∨
       ((presentOf c after)[j]? = some true ∧
         ((imageOf c after r)[ordOf (presentOf c after) j]? = some none ∨
          ∃ v, (imageOf c after r)[ordOf (presentOf c after) j]? = some (some v)))) ∧
      (∀ bs, (presentOf c after)[j]? = some true →
          (imageOf c after r)[ordOf (presentOf c after) j]? = some (some (.str bs)) → cd.col = .value bs) ∧
      ((presentOf c after)[j]? = some true →
          (imageOf c after r)[ordOf (presentOf c after) j]? = some (some (.str [])) →
          cd.col = .value [] ∧ cd.col ≠ .null ∧ cd.col ≠ .absent) ∧
      (Col.absent ≠ Col.null ∧ Col.null ≠ Col.value [] ∧ Col.absent ≠ Col.value []) := by
  obtain ⟨_, hrows⟩ := site_rowsOK_reuse hwf hs
  obtain ⟨n, _, hd⟩ := delivered_col_reuse cfg env h hwf hm i k c after r j hs
  have hcases := site_cases hrows hs.img hs.row hs.col
  refine ⟨_, hd, ?_, ?_, ?_, hcases, ?_, ?_, by decide, by decide, by decide⟩
  · rcases hcases with hp | ⟨hp, hv | ⟨v, hv⟩⟩
    · simp [colOf_absent _ _ _ hp, hp]
    · simp [colOf_null _ _ hp hv, hp]
    · simp [colOf_value _ _ hp hv, hp]
  · rcases hcases with hp | ⟨hp, hv | ⟨v, hv⟩⟩
    · simp [colOf_absent _ _ _ hp, hp]
    · simp [colOf_null _ _ hp hv, hp, hv]
    · simp [colOf_value _ _ hp hv, hp, hv]
  · intro b
    rcases hcases with hp | ⟨hp, hv | ⟨v, hv⟩⟩
    · simp [colOf_absent _ _ _ hp, hp]
    · simp [colOf_null _ _ hp hv, hp, hv]
    · simp only [colOf_value _ _ hp hv, hp, hv, Col.value.injEq, true_and, Option.some.injEq, exists_eq_left']
      exact eq_comm
  · intro bs hp hv
    simp only [colOf_value _ _ hp hv]
    rfl
  · intro hp hv
    simp only [colOf_value _ _ hp hv]
    exact ⟨rfl, by simp [textOf, W.text], by simp [textOf, W.text]⟩

/-- `C13_bytes_written` for histories with table ids re-used for other tables: the handler's observation is the image
    of what the master logged (`written`, the Spec-side three-valued cell) -/
theorem C13_bytes_written_id_reuse (cfg : W.Cfg) (env : Env) (h : W.History) (hwf : WFHistReuse cfg h)
    (hm : MapperAgrees env h) (i k : Nat) (c : W.RowsChange) (after : Bool) (r j : Nat)
    (hs : Site cfg h i k c after r j) :
    ∃ cd, deliveredCol (runCalls cfg env h) i k after r j = some cd ∧
      cd.col = (match written c after r j with
                | .absent => .absent
                | .null => .null
                | .value v => .value (textOf env.ext (c.table.cols[j]'hs.col).md v)) := by
  obtain ⟨_, hrows⟩ := site_rowsOK_reuse hwf hs
  obtain ⟨n, _, hd⟩ := delivered_col_reuse cfg env h hwf hm i k c after r j hs
  refine ⟨_, hd, ?_⟩
  rcases site_cases hrows hs.img hs.row hs.col with hp | ⟨hp, hv | ⟨v, hv⟩⟩
  · simp [colOf_absent _ _ _ hp, written_absent hp]
  · simp [colOf_null _ _ hp hv, written_null hp hv]
  · simp [colOf_value _ _ hp hv, written_value hp hv]

/-- `C13_bytes_name_and_type` for histories with table ids re-used for other tables — where it says most: the event is
    attributed to the table ANNOUNCED FOR THIS ROWS CHANGE, `(c.table.db, c.table.name)`; the delivered column carries
    the name the table MAPPER gave for ordinal j OF THAT TABLE (the mapper was asked for (c.table.db, c.table.name) and
    answered `ti`; `ti.columns[j]` is (that name, the signedness flag of ordinal j)) — not the name an earlier table with
    the same id has at ordinal j; and the type is the j-th type BYTE of the table map decoded from this rows change's
    TABLE_MAP event (`tmOf c.table`). -/
theorem C13_bytes_name_and_type_id_reuse (cfg : W.Cfg) (env : Env) (h : W.History) (hwf : WFHistReuse cfg h)
    (hm : MapperAgrees env h) (i k : Nat) (c : W.RowsChange) (after : Bool) (r j : Nat)
    (hs : Site cfg h i k c after r j) :
    ∃ cd ti u, deliveredCol (runCalls cfg env h) i k after r j = some cd ∧
      deliveredTable (runCalls cfg env h) i k = some (c.table.db, c.table.name) ∧
      env.mapper c.table.db c.table.name = some ti ∧
      ti.columns[j]? = some (cd.field, u) ∧
      c.table.names[j]? = some cd.field ∧ c.table.unsigned[j]? = some u ∧
      ((tmOf c.table).types[j]?).map (·.toNat) = some cd.typ ∧
      cd.typ = (c.table.cols[j]'hs.col).typ ∧ cd.typ < 256 := by
  obtain ⟨hmem, hrows⟩ := site_rowsOK_reuse hwf hs
  obtain ⟨n, hn, hd⟩ := delivered_col_reuse cfg env h hwf hm i k c after r j hs
  obtain ⟨u, hu, _⟩ := colsU_get c.table hrows.table.unsigned j hs.col
  have hlt : (c.table.cols[j]'hs.col).typ < 256 :=
    GV.C15.colOK_typ _ (hrows.table.cols _ (List.getElem_mem hs.col))
  refine ⟨_, infoOf c.table, u, hd, delivered_table_reuse cfg env h hwf hm i k c after r j hs, hm c hmem, ?_, hn, hu, ?_,
    rfl, hlt⟩
  · simp only [infoOf, List.getElem?_zip_eq_some]
    exact ⟨hn, hu⟩
  · simp [tmOf, List.getElem?_eq_getElem hs.col, UInt8.toNat_ofNat', Nat.mod_eq_of_lt hlt]

/-! ### C10: integers — signedness from the mapper's answer for the table announced for THIS rows change — and the
    other numeric types -/

/-- `C10_bytes_signedness_from_mapper` for histories with table ids re-used for other tables.  Table column j is an
    integer column of width w and holds a value v in the image at hand.  Then the table mapper was asked for
    (c.table.db, c.table.name) — the table announced for THIS rows change — and answered `ti`, whose j-th entry carries
    the flag `u` (= that table's `unsigned[j]`, whatever the flag of ordinal j of a table the id stood for before); the
    cell the master wrote is the w bytes `ofLE w raw`; and the handler receives the decimal text of `raw` itself iff u is
    set, of its two's-complement reading `toSigned (8w) raw` otherwise. -/
theorem C10_bytes_signedness_from_mapper_id_reuse (cfg : W.Cfg) (env : Env) (h : W.History) (hwf : WFHistReuse cfg h)
    (hm : MapperAgrees env h) (i k : Nat) (c : W.RowsChange) (after : Bool) (r j : Nat)
    (hs : Site cfg h i k c after r j) (w : Nat) (v : W.CellVal)
    (hw : (w, (c.table.cols[j]'hs.col).typ) ∈ Props.C10.intTypes)
    (hv : written c after r j = .value v) :
    ∃ cd ti u raw, deliveredCol (runCalls cfg env h) i k after r j = some cd ∧
      env.mapper c.table.db c.table.name = some ti ∧ ti.columns[j]? = some (cd.field, u) ∧
      c.table.unsigned[j]? = some u ∧
      raw < 2 ^ (8 * w) ∧
      W.cell (c.table.cols[j]'hs.col).typ (c.table.cols[j]'hs.col).md v = Bytes.ofLE w raw ∧
      cd.col = .value (if u then natDec raw else intDec (toSigned (8 * w) raw)) ∧
      (u = true → v = .uint w raw) ∧
      (u = false → v = .int w (toSigned (8 * w) raw) ∧ InRange w (toSigned (8 * w) raw)) ∧
      cd.col = .value (textOf env.ext (c.table.cols[j]'hs.col).md v) := by
  obtain ⟨hmem, _⟩ := site_rowsOK_reuse hwf hs
  obtain ⟨n, u, hn, hu, hok, hd⟩ := delivered_value_reuse cfg env h hwf hm i k c after r j hs v hv
  obtain ⟨raw, h1, h2, h3, h4, h5⟩ := int_raw w _ _ u v hw hok (fun sec => printTimestamp env.ext sec)
    env.ext.fmtFloat32 env.ext.fmtFloat64
  refine ⟨_, infoOf c.table, u, raw, hd, hm c hmem, ?_, hu, h1, h2, ?_, h3, h4, rfl⟩
  · simp only [infoOf, List.getElem?_zip_eq_some]
    exact ⟨hn, hu⟩
  · show Col.value (textOf env.ext _ v) = _
    rw [← h5]
    rfl

/-- `C10_bytes_year` for histories with table ids re-used for other tables -/
theorem C10_bytes_year_id_reuse (cfg : W.Cfg) (env : Env) (h : W.History) (hwf : WFHistReuse cfg h)
    (hm : MapperAgrees env h) (i k : Nat) (c : W.RowsChange) (after : Bool) (r j : Nat)
    (hs : Site cfg h i k c after r j) (v : W.CellVal)
    (ht : (c.table.cols[j]'hs.col).typ = 13) (hv : written c after r j = .value v) :
    ∃ cd b, deliveredCol (runCalls cfg env h) i k after r j = some cd ∧ v = .year b ∧ b < 256 ∧
      cd.col = .value (if b = 0 then asc "0000" else natDec (1900 + b)) := by
  obtain ⟨n, u, _, _, hok, hd⟩ := delivered_value_reuse cfg env h hwf hm i k c after r j hs v hv
  rw [ht] at hok
  obtain ⟨b, rfl, hb⟩ := inv_year _ _ _ hok
  exact ⟨_, b, hd, rfl, hb, rfl⟩

/-- `C10_bytes_bit` for histories with table ids re-used for other tables -/
theorem C10_bytes_bit_id_reuse (cfg : W.Cfg) (env : Env) (h : W.History) (hwf : WFHistReuse cfg h)
    (hm : MapperAgrees env h) (i k : Nat) (c : W.RowsChange) (after : Bool) (r j : Nat)
    (hs : Site cfg h i k c after r j) (v : W.CellVal)
    (ht : (c.table.cols[j]'hs.col).typ = 16) (hv : written c after r j = .value v) :
    ∃ cd bs nbits, deliveredCol (runCalls cfg env h) i k after r j = some cd ∧ v = .bit bs ∧
      1 ≤ nbits ∧ nbits ≤ 64 ∧ (c.table.cols[j]'hs.col).md = nbits / 8 * 256 + nbits % 8 ∧
      bs.length = (nbits + 7) / 8 ∧ cd.col = .value bs := by
  obtain ⟨n, u, _, _, hok, hd⟩ := delivered_value_reuse cfg env h hwf hm i k c after r j hs v hv
  rw [ht] at hok
  obtain ⟨bs, nbits, rfl, h1, h2, h3, h4⟩ := inv_bit _ _ _ hok
  exact ⟨_, bs, nbits, hd, rfl, h1, h2, h3, h4, rfl⟩

/-- `C10_bytes_enum` for histories with table ids re-used for other tables -/
theorem C10_bytes_enum_id_reuse (cfg : W.Cfg) (env : Env) (h : W.History) (hwf : WFHistReuse cfg h)
    (hm : MapperAgrees env h) (i k : Nat) (c : W.RowsChange) (after : Bool) (r j : Nat)
    (hs : Site cfg h i k c after r j) (v : W.CellVal)
    (ht : (c.table.cols[j]'hs.col).typ = 247 ∨
          ((c.table.cols[j]'hs.col).typ = 254 ∧ (c.table.cols[j]'hs.col).md / 256 = 247))
    (hv : written c after r j = .value v) :
    ∃ cd w n, deliveredCol (runCalls cfg env h) i k after r j = some cd ∧ v = .enum w n ∧
      (w = 1 ∨ w = 2) ∧ n < 256 ^ w ∧ (c.table.cols[j]'hs.col).md % 256 = w ∧ cd.col = .value (natDec n) := by
  obtain ⟨_, u, _, _, hok, hd⟩ := delivered_value_reuse cfg env h hwf hm i k c after r j hs v hv
  obtain ⟨w, n, rfl, h1, h2, h3⟩ := inv_enum _ _ _ _ ht hok
  exact ⟨_, w, n, hd, rfl, h1, h2, h3, rfl⟩

/-- `C10_bytes_set` for histories with table ids re-used for other tables -/
theorem C10_bytes_set_id_reuse (cfg : W.Cfg) (env : Env) (h : W.History) (hwf : WFHistReuse cfg h)
    (hm : MapperAgrees env h) (i k : Nat) (c : W.RowsChange) (after : Bool) (r j : Nat)
    (hs : Site cfg h i k c after r j) (v : W.CellVal)
    (ht : (c.table.cols[j]'hs.col).typ = 254) (hmd : (c.table.cols[j]'hs.col).md / 256 = 248)
    (hv : written c after r j = .value v) :
    ∃ cd w n, deliveredCol (runCalls cfg env h) i k after r j = some cd ∧ v = .set w n ∧
      1 ≤ w ∧ w ≤ 8 ∧ n < 256 ^ w ∧ (c.table.cols[j]'hs.col).md % 256 = w ∧ cd.col = .value (natDec n) := by
  obtain ⟨_, u, _, _, hok, hd⟩ := delivered_value_reuse cfg env h hwf hm i k c after r j hs v hv
  rw [ht] at hok
  obtain ⟨w, n, rfl, h1, h2, h3, h4⟩ := inv_set _ _ _ hmd hok
  exact ⟨_, w, n, hd, rfl, h1, h2, h3, h4, rfl⟩

/-- `C10_bytes_set_raw` for histories with table ids re-used for other tables -/
theorem C10_bytes_set_raw_id_reuse (cfg : W.Cfg) (env : Env) (h : W.History) (hwf : WFHistReuse cfg h)
    (hm : MapperAgrees env h) (i k : Nat) (c : W.RowsChange) (after : Bool) (r j : Nat)
    (hs : Site cfg h i k c after r j) (v : W.CellVal)
    (ht : (c.table.cols[j]'hs.col).typ = 248) (hv : written c after r j = .value v) :
    ∃ cd bs, deliveredCol (runCalls cfg env h) i k after r j = some cd ∧ v = .bit bs ∧
      bs.length = (c.table.cols[j]'hs.col).md ∧ cd.col = .value bs := by
  obtain ⟨_, u, _, _, hok, hd⟩ := delivered_value_reuse cfg env h hwf hm i k c after r j hs v hv
  rw [ht] at hok
  obtain ⟨bs, rfl, _, h2⟩ := inv_setraw _ _ _ hok
  exact ⟨_, bs, hd, rfl, h2, rfl⟩

/-- `C10_bytes_float` for histories with table ids re-used for other tables (partial as the original: the float
    formatter is the runtime parameter `env.ext.fmtFloat32`) -/
theorem C10_bytes_float_id_reuse (cfg : W.Cfg) (env : Env) (h : W.History) (hwf : WFHistReuse cfg h)
    (hm : MapperAgrees env h) (i k : Nat) (c : W.RowsChange) (after : Bool) (r j : Nat)
    (hs : Site cfg h i k c after r j) (v : W.CellVal)
    (ht : (c.table.cols[j]'hs.col).typ = 4) (hv : written c after r j = .value v) :
    ∃ cd bits, deliveredCol (runCalls cfg env h) i k after r j = some cd ∧ v = .f32 bits ∧ bits < 2 ^ 32 ∧
      cd.col = .value (env.ext.fmtFloat32 bits) := by
  obtain ⟨_, u, _, _, hok, hd⟩ := delivered_value_reuse cfg env h hwf hm i k c after r j hs v hv
  rw [ht] at hok
  obtain ⟨b, rfl, hb⟩ := inv_f32 _ _ _ hok
  exact ⟨_, b, hd, rfl, hb, rfl⟩

/-- `C10_bytes_double` for histories with table ids re-used for other tables (likewise, `env.ext.fmtFloat64`) -/
theorem C10_bytes_double_id_reuse (cfg : W.Cfg) (env : Env) (h : W.History) (hwf : WFHistReuse cfg h)
    (hm : MapperAgrees env h) (i k : Nat) (c : W.RowsChange) (after : Bool) (r j : Nat)
    (hs : Site cfg h i k c after r j) (v : W.CellVal)
    (ht : (c.table.cols[j]'hs.col).typ = 5) (hv : written c after r j = .value v) :
    ∃ cd bits, deliveredCol (runCalls cfg env h) i k after r j = some cd ∧ v = .f64 bits ∧ bits < 2 ^ 64 ∧
      cd.col = .value (env.ext.fmtFloat64 bits) := by
  obtain ⟨_, u, _, _, hok, hd⟩ := delivered_value_reuse cfg env h hwf hm i k c after r j hs v hv
  rw [ht] at hok
  obtain ⟨b, rfl, hb⟩ := inv_f64 _ _ _ hok
  exact ⟨_, b, hd, rfl, hb, rfl⟩

/-! ### C11: DECIMAL -/

/-- `C11_bytes_decimal_delivered` for histories with table ids re-used for other tables: precision and scale are those
    of the table announced for this rows change -/
theorem C11_bytes_decimal_delivered_id_reuse (cfg : W.Cfg) (env : Env) (h : W.History) (hwf : WFHistReuse cfg h)
    (hm : MapperAgrees env h) (i k : Nat) (c : W.RowsChange) (after : Bool) (r j : Nat)
    (hs : Site cfg h i k c after r j) (v : W.CellVal)
    (ht : (c.table.cols[j]'hs.col).typ = 246) (hv : written c after r j = .value v) (lc f32 f64 : Nat → Bytes) :
    ∃ cd neg ip fp p s, deliveredCol (runCalls cfg env h) i k after r j = some cd ∧ v = .dec neg ip fp ∧
      (c.table.cols[j]'hs.col).md = p * 256 + s ∧ (1 ≤ p ∧ p ≤ 65) ∧ (s ≤ 30 ∧ s ≤ p) ∧ Props.C11.WF p s ip fp ∧
      cd.col = .value (W.text (p * 256 + s) lc f32 f64 (.dec neg ip fp)) ∧
      cd.col = .value ((if neg then [45] else []) ++
                       (match W.stripLeadingZeros ip with | [] => [digit 0] | ds => W.digitsText ds) ++
                       (if fp.isEmpty then [] else [46] ++ W.digitsText fp)) ∧
      cd.col ≠ .value [] ∧ cd.col ≠ .null ∧ cd.col ≠ .absent := by
  obtain ⟨_, u, _, _, hok, hd⟩ := delivered_value_reuse cfg env h hwf hm i k c after r j hs v hv
  rw [ht] at hok
  obtain ⟨neg, ip, fp, p, s, rfl, hmd, hp, hs', wf⟩ := inv_dec _ _ _ hok
  have hne := Props.C11.C11_nonempty (p * 256 + s) neg ip fp lc f32 f64
  refine ⟨_, neg, ip, fp, p, s, hd, rfl, hmd, hp, hs', wf, ?_, ?_, ?_, by simp, by simp⟩
  · rw [hmd]; rfl
  · rfl
  · show Col.value (textOf env.ext _ (.dec neg ip fp)) ≠ Col.value []
    intro he
    injection he with he
    exact hne he

/-! ### C12: temporal values -/

/-- `C12_bytes_temporal_delivered` for histories with table ids re-used for other tables: the fsp the text is rendered
    with is that of the table announced for this rows change -/
theorem C12_bytes_temporal_delivered_id_reuse (cfg : W.Cfg) (env : Env) (h : W.History) (hwf : WFHistReuse cfg h)
    (hm : MapperAgrees env h) (i k : Nat) (c : W.RowsChange) (after : Bool) (r j : Nat)
    (hs : Site cfg h i k c after r j) (v : W.CellVal)
    (ht : (c.table.cols[j]'hs.col).typ ∈ temporalTypes) (hv : written c after r j = .value v)
    (f32 f64 : Nat → Bytes) :
    ∃ cd, deliveredCol (runCalls cfg env h) i k after r j = some cd ∧
      cd.col = .value (W.text (c.table.cols[j]'hs.col).md (fun sec => printTimestamp env.ext sec) f32 f64 v) ∧
      (((c.table.cols[j]'hs.col).typ = 10 ∨ (c.table.cols[j]'hs.col).typ = 14) →
        ∃ y m d, v = .date y m d ∧ y ≤ 9999 ∧ m ≤ 12 ∧ d ≤ 31 ∧
          cd.col = .value (digitsN 4 y ++ [45] ++ W.two m ++ [45] ++ W.two d)) ∧
      ((c.table.cols[j]'hs.col).typ = 11 →
        ∃ neg hh m s, v = .time neg hh m s ∧ hh ≤ 838 ∧ m ≤ 59 ∧ s ≤ 59 ∧ (neg = true → hh + m + s ≠ 0) ∧
          cd.col = .value ((if neg then [45] else []) ++ W.hoursText hh ++ [58] ++ W.two m ++ [58] ++ W.two s)) ∧
      ((c.table.cols[j]'hs.col).typ = 12 →
        ∃ y mo d hh mi s, v = .datetime y mo d hh mi s ∧ y ≤ 9999 ∧ mo ≤ 12 ∧ d ≤ 31 ∧ hh ≤ 23 ∧ mi ≤ 59 ∧ s ≤ 59 ∧
          cd.col = .value (digitsN 4 y ++ [45] ++ W.two mo ++ [45] ++ W.two d ++ [32] ++ W.two hh ++ [58] ++ W.two mi
                            ++ [58] ++ W.two s)) ∧
      ((c.table.cols[j]'hs.col).typ = 7 →
        ∃ sec, v = .timestamp sec ∧ sec < 2 ^ 32 ∧ cd.col = .value (printTimestamp env.ext sec) ∧
          (sec = 0 → cd.col = .value (asc "0000-00-00 00:00:00"))) ∧
      ((c.table.cols[j]'hs.col).typ = 17 →
        ∃ sec frac, v = .timestamp2 sec frac ∧ (c.table.cols[j]'hs.col).md ≤ 6 ∧ sec < 2 ^ 32 ∧
          frac < 10 ^ (c.table.cols[j]'hs.col).md ∧
          cd.col = .value (printTimestamp env.ext sec ++ W.fracText (c.table.cols[j]'hs.col).md frac)) ∧
      ((c.table.cols[j]'hs.col).typ = 19 →
        ∃ neg hh m s frac, v = .time2 neg hh m s frac ∧ (c.table.cols[j]'hs.col).md ≤ 6 ∧ hh ≤ 838 ∧ m ≤ 59 ∧ s ≤ 59 ∧
          frac < 10 ^ (c.table.cols[j]'hs.col).md ∧ (neg = true → hh + m + s + frac ≠ 0) ∧
          cd.col = .value ((if neg then [45] else []) ++ W.hoursText hh ++ [58] ++ W.two m ++ [58] ++ W.two s
                            ++ W.fracText (c.table.cols[j]'hs.col).md frac)) ∧
      ((c.table.cols[j]'hs.col).typ = 18 →
        ∃ y mo d hh mi s frac, v = .datetime2 y mo d hh mi s frac ∧ (c.table.cols[j]'hs.col).md ≤ 6 ∧ y ≤ 9999 ∧
          mo ≤ 12 ∧ d ≤ 31 ∧ hh ≤ 23 ∧ mi ≤ 59 ∧ s ≤ 59 ∧ frac < 10 ^ (c.table.cols[j]'hs.col).md ∧
          cd.col = .value (digitsN 4 y ++ [45] ++ W.two mo ++ [45] ++ W.two d ++ [32] ++ W.two hh ++ [58] ++ W.two mi
                            ++ [58] ++ W.two s ++ W.fracText (c.table.cols[j]'hs.col).md frac)) := by
  obtain ⟨_, u, _, _, hok, hd⟩ := delivered_value_reuse cfg env h hwf hm i k c after r j hs v hv
  refine ⟨_, hd, ?_, ?_, ?_, ?_, ?_, ?_, ?_, ?_⟩
  · -- the canonical text does not depend on the float parameters for a temporal value
    simp only [temporalTypes, List.mem_cons, List.not_mem_nil, or_false] at ht
    rcases ht with e | e | e | e | e | e | e | e
    · obtain ⟨y, m, d, rfl, _⟩ := inv_date _ _ u _ (Or.inl e) hok; rfl
    · obtain ⟨y, m, d, rfl, _⟩ := inv_date _ _ u _ (Or.inr e) hok; rfl
    · rw [e] at hok; obtain ⟨_, _, _, _, rfl, _⟩ := inv_time _ _ _ hok; rfl
    · rw [e] at hok; obtain ⟨_, _, _, _, _, _, rfl, _⟩ := inv_datetime _ _ _ hok; rfl
    · rw [e] at hok; obtain ⟨_, rfl, _⟩ := inv_timestamp _ _ _ hok; rfl
    · rw [e] at hok; obtain ⟨_, _, rfl, _⟩ := inv_timestamp2 _ _ _ hok; rfl
    · rw [e] at hok; obtain ⟨_, _, _, _, _, rfl, _⟩ := inv_time2 _ _ _ hok; rfl
    · rw [e] at hok; obtain ⟨_, _, _, _, _, _, _, rfl, _⟩ := inv_datetime2 _ _ _ hok; rfl
  · intro e
    obtain ⟨y, m, d, rfl, h1, h2, h3⟩ := inv_date _ _ u _ e hok
    exact ⟨y, m, d, rfl, h1, h2, h3, rfl⟩
  · intro e
    rw [e] at hok
    obtain ⟨neg, hh, m, s, rfl, h1, h2, h3, h4⟩ := inv_time _ _ _ hok
    exact ⟨neg, hh, m, s, rfl, h1, h2, h3, h4, rfl⟩
  · intro e
    rw [e] at hok
    obtain ⟨y, mo, d, hh, mi, s, rfl, h1, h2, h3, h4, h5, h6⟩ := inv_datetime _ _ _ hok
    exact ⟨y, mo, d, hh, mi, s, rfl, h1, h2, h3, h4, h5, h6, rfl⟩
  · intro e
    rw [e] at hok
    obtain ⟨sec, rfl, h1⟩ := inv_timestamp _ _ _ hok
    have ht : textOf env.ext (c.table.cols[j]'hs.col).md (.timestamp sec) = printTimestamp env.ext sec :=
      GV.C09R.ts_text env.ext sec
    refine ⟨sec, rfl, h1, by rw [ht], ?_⟩
    rintro rfl
    rw [ht]
    simp [printTimestamp]
  · intro e
    rw [e] at hok
    obtain ⟨sec, frac, rfl, h1, h2, h3⟩ := inv_timestamp2 _ _ _ hok
    refine ⟨sec, frac, rfl, h1, h2, h3, ?_⟩
    show Col.value ((if sec = 0 then asc "0000-00-00 00:00:00" else printTimestamp env.ext sec) ++ _) = _
    rw [GV.C09R.ts_text]
  · intro e
    rw [e] at hok
    obtain ⟨neg, hh, m, s, frac, rfl, h1, h2, h3, h4, h5, h6⟩ := inv_time2 _ _ _ hok
    exact ⟨neg, hh, m, s, frac, rfl, h1, h2, h3, h4, h5, h6, rfl⟩
  · intro e
    rw [e] at hok
    obtain ⟨y, mo, d, hh, mi, s, frac, rfl, h1, h2, h3, h4, h5, h6, h7, h8⟩ := inv_datetime2 _ _ _ hok
    exact ⟨y, mo, d, hh, mi, s, frac, rfl, h1, h2, h3, h4, h5, h6, h7, h8, rfl⟩

/-! ### C14: JSON -/

/-- `C14_bytes_end_to_end_partial` for histories with table ids re-used for other tables.  PARTIAL exactly as the
    original: a well-formed history only holds JSON cells of documents WITHOUT a DOUBLE scalar (`W.NoDbl`; it follows
    for the stored document from `hwf`), because the text of a double is whatever the runtime formatter makes of it;
    documents containing DOUBLE scalars are covered at cell level by `GV.Props.C14.C14_doc` / `C14_cell`. -/
theorem C14_bytes_end_to_end_partial_id_reuse (cfg : W.Cfg) (env : Env) (h : W.History) (hwf : WFHistReuse cfg h)
    (hm : MapperAgrees env h) (i k : Nat) (c : W.RowsChange) (after : Bool) (r j : Nat)
    (hs : Site cfg h i k c after r j) (b t : Bytes) (d : W.JDoc)
    (hp : (presentOf c after)[j]? = some true)
    (hv : (imageOf c after r)[ordOf (presentOf c after) j]? = some (some (.raw b t)))
    (hw : W.WFDoc d)
    (hb : b = Bytes.ofLE (c.table.cols[j]'hs.col).md (W.jsonb d).length ++ W.jsonb d) :
    ∃ cd, deliveredCol (runCalls cfg env h) i k after r j = some cd ∧
      cd.col = .value (W.render env.ext.fmtFloat64E true d) ∧
      cd.typ = 245 ∧ (c.table.cols[j]'hs.col).typ = 245 ∧
      t = W.render env.ext.fmtFloat64E true d := by
  obtain ⟨_, u, _, _, hok, hd⟩ :=
    delivered_value_reuse cfg env h hwf hm i k c after r j hs (.raw b t) (written_value hp hv)
  obtain ⟨ht, _, _, d', hw', _, _, hb', htx⟩ := inv_raw env.ext _ _ _ _ _ hok
  have hdd : W.render env.ext.fmtFloat64E true d' = W.render env.ext.fmtFloat64E true d :=
    render_of_jsonb_eq env.ext d' d hw' hw (payload_eq _ _ _ _ _ (hb'.symm.trans hb))
  rw [hdd] at htx
  refine ⟨_, hd, ?_, ht, ht, htx⟩
  show Col.value (textOf env.ext _ (.raw b t)) = _
  rw [htx]
  rfl

/-- `C14_bytes_json_column_partial` for histories with table ids re-used for other tables (partial as above) -/
theorem C14_bytes_json_column_partial_id_reuse (cfg : W.Cfg) (env : Env) (h : W.History) (hwf : WFHistReuse cfg h)
    (hm : MapperAgrees env h) (i k : Nat) (c : W.RowsChange) (after : Bool) (r j : Nat)
    (hs : Site cfg h i k c after r j) (v : W.CellVal)
    (ht : (c.table.cols[j]'hs.col).typ = 245) (hv : written c after r j = .value v) :
    ∃ cd b t d, deliveredCol (runCalls cfg env h) i k after r j = some cd ∧ v = .raw b t ∧
      W.WFDoc d ∧ W.NoDbl d ∧ 1 ≤ (c.table.cols[j]'hs.col).md ∧ (c.table.cols[j]'hs.col).md ≤ 4 ∧
      (W.jsonb d).length < 256 ^ (c.table.cols[j]'hs.col).md ∧
      b = Bytes.ofLE (c.table.cols[j]'hs.col).md (W.jsonb d).length ++ W.jsonb d ∧
      t = W.render env.ext.fmtFloat64E true d ∧
      cd.typ = 245 ∧ cd.col = .value (W.render env.ext.fmtFloat64E true d) := by
  obtain ⟨_, u, _, _, hok, hd⟩ := delivered_value_reuse cfg env h hwf hm i k c after r j hs v hv
  rw [ht] at hok
  obtain ⟨b, t, rfl⟩ := inv_json _ _ _ hok
  obtain ⟨_, h1, h4, d, hw, hn, hl, hb, htx⟩ := inv_raw env.ext _ _ _ _ _ hok
  refine ⟨_, b, t, d, hd, rfl, hw, hn, h1, h4, hl, hb, htx, ht, ?_⟩
  show Col.value (textOf env.ext _ (.raw b t)) = _
  rw [htx]
  rfl

/-- `C14_bytes_null_vs_json_null` for histories with table ids re-used for other tables -/
theorem C14_bytes_null_vs_json_null_id_reuse (cfg : W.Cfg) (env : Env) (h : W.History) (hwf : WFHistReuse cfg h)
    (hm : MapperAgrees env h) (i k : Nat) (c : W.RowsChange) (after : Bool) (r j : Nat)
    (hs : Site cfg h i k c after r j) (hp : (presentOf c after)[j]? = some true) :
    ∃ cd, deliveredCol (runCalls cfg env h) i k after r j = some cd ∧
      ((imageOf c after r)[ordOf (presentOf c after) j]? = some none → cd.col = .null) ∧
      ((imageOf c after r)[ordOf (presentOf c after) j]? = some (some (W.jsonCell (c.table.cols[j]'hs.col).md (.lit 0))) →
        cd.col = .value (asc "'null'")) := by
  obtain ⟨n, _, hd⟩ := delivered_col_reuse cfg env h hwf hm i k c after r j hs
  refine ⟨_, hd, fun hv => colOf_null _ _ hp hv, fun hv => ?_⟩
  rw [show _ = Col.value _ from colOf_value _ _ hp hv]
  rfl

/-! ### non-vacuity on `sHist`: table id 108 is shop.orders (amount INT, order_id BIGINT) before the master restarts,
    shop.users (uid INT UNSIGNED, age TINYINT) afterwards.  `sWF : WFHistReuse {} sHist`, `sMapper`; the history is
    outside the domain of the `WFHist` theorems (`sHist_not_WFHist`).  The sites are in the SECOND transaction. -/

/-- row 0 of the WRITE into shop.users, column 0 (uid): 4000000000, top bit set -/
theorem site_uid : Site {} sHist 1 0 cUsersU true 0 0 := ⟨site_tx_of_bind (by decide), by decide, by decide, by decide⟩
/-- row 0, column 1 (age): 33 -/
theorem site_age : Site {} sHist 1 0 cUsersU true 0 1 := ⟨site_tx_of_bind (by decide), by decide, by decide, by decide⟩
/-- row 1, column 1 (age): NULL -/
theorem site_age_null : Site {} sHist 1 0 cUsersU true 1 1 :=
  ⟨site_tx_of_bind (by decide), by decide, by decide, by decide⟩

example : ¬ WFHist {} sHist := sHist_not_WFHist

/-- the event is attributed to shop.users and the column is delivered under the name `uid` with type 3 (INT) — the
    mapper's answer for shop.users, not `amount`, the name of ordinal 0 of the table id 108 stood for before -/
theorem C13_bytes_id_reuse_name_example :
    ∃ cd, deliveredCol (runCalls {} sEnv sHist) 1 0 true 0 0 = some cd ∧ cd.field = asc "uid" ∧ cd.typ = 3 ∧
      deliveredTable (runCalls {} sEnv sHist) 1 0 = some (asc "shop", asc "users") := by
  obtain ⟨cd, _, _, h1, h2, _, _, h5, _, _, h8, _⟩ :=
    C13_bytes_name_and_type_id_reuse {} sEnv sHist sWF sMapper 1 0 cUsersU true 0 0 site_uid
  exact ⟨cd, h1, (Option.some.inj h5).symm, h8, h2⟩

/-- the value is delivered in its UNSIGNED reading, the text of 4000000000 (`natDec 4000000000`, "4000000000" by the
    `#guard` below) — the flag of ordinal 0 of shop.users; with the flag of ordinal 0 of shop.orders (signed) the same
    bytes read -294967296 -/
theorem C10_bytes_id_reuse_unsigned_example :
    ∃ cd, deliveredCol (runCalls {} sEnv sHist) 1 0 true 0 0 = some cd ∧ cd.col = .value (natDec 4000000000) ∧
      natDec 4000000000 ≠ intDec (toSigned (8 * 4) 4000000000) := by
  obtain ⟨cd, _, u, raw, h1, _, _, h4, _, _, h7, h8, _⟩ :=
    C10_bytes_signedness_from_mapper_id_reuse {} sEnv sHist sWF sMapper 1 0 cUsersU true 0 0 site_uid 4
      (.uint 4 4000000000) (by decide) (by decide)
  have hu : u = true := by
    have : cUsersU.table.unsigned[0]? = some true := by decide
    rw [this] at h4
    exact (Option.some.inj h4).symm
  subst hu
  have := h8 rfl
  injection this with _ hr
  subst hr
  exact ⟨cd, h1, h7, readings_differ (8 * 4) 4000000000 (by decide) (by decide)⟩

example : ∃ cd, deliveredCol (runCalls {} sEnv sHist) 1 0 true 0 1 = some cd ∧ cd.col = .value (intDec 33) := by
  obtain ⟨cd, _, _, _, h1, _, _, _, _, _, _, _, _, h10⟩ :=
    C10_bytes_signedness_from_mapper_id_reuse {} sEnv sHist sWF sMapper 1 0 cUsersU true 0 1 site_age 1
      (.int 1 33) (by decide) (by decide)
  exact ⟨cd, h1, h10⟩
example : ∃ cd, deliveredCol (runCalls {} sEnv sHist) 1 0 true 1 1 = some cd ∧ cd.col = .null := by
  obtain ⟨cd, h1, _, h3, _⟩ :=
    C13_bytes_absent_null_value_id_reuse {} sEnv sHist sWF sMapper 1 0 cUsersU true 1 1 site_age_null
  exact ⟨cd, h1, h3.mpr (by decide)⟩
example : ∃ cd, deliveredCol (runCalls {} sEnv sHist) 1 0 true 1 1 = some cd ∧ cd.col = .null := by
  obtain ⟨cd, h1, h2⟩ := C13_bytes_written_id_reuse {} sEnv sHist sWF sMapper 1 0 cUsersU true 1 1 site_age_null
  exact ⟨cd, h1, h2⟩

/-! ### … and what the OLD control flow delivers at the same site -/

set_option maxRecDepth 100000 in
/-- FINDING F13 at cell level, kernel-computed on the bytes the master serves for `sHist`: the OLD control flow (every
    cached table id is known) reports no error and hands the second transaction's event over attributed to shop.orders,
    the uid column under the name `amount` (type 3, INT, from the refreshed table map), and — read with the signedness
    flag of shop.orders' ordinal 0 — as a NEGATIVE number: its text starts with '-' (the whole text, "-294967296", by
    the `#guard` below); the age column as `order_id`. -/
theorem C13_bytes_id_reuse_misattributed_by_old_code :
    (parseEventsOld sEnv (fun _ => true) (PState.init ⟨W.firstFile, 4⟩)
      ((W.serve {} sHist ⟨W.firstFile, 4⟩).map Input.event ++ [Input.closed])).err = false ∧
    deliveredTable (runCallsOld {} sEnv sHist) 1 0 = some (asc "shop", asc "orders") ∧
    nameType (deliveredCol (runCallsOld {} sEnv sHist) 1 0 true 0 0) = some (asc "amount", 3) ∧
    firstByte (deliveredCol (runCallsOld {} sEnv sHist) 1 0 true 0 0) = some 45 ∧
    nameType (deliveredCol (runCallsOld {} sEnv sHist) 1 0 true 0 1) = some (asc "order_id", 1) :=
  ⟨by decide, by decide, by decide, by decide, by decide⟩

/-- `C13_bytes_name_and_type_id_reuse` is not vacuously about the control flow: its core — the delivered name is the
    mapper's name for ordinal j of the table announced for the rows change — is FALSE for the TABLE_MAP branch as found -/
theorem C13_bytes_name_and_type_id_reuse_old_code_refuted :
    ¬ (∀ (cfg : W.Cfg) (env : Env) (h : W.History), WFHistReuse cfg h → MapperAgrees env h →
        ∀ (i k : Nat) (c : W.RowsChange) (after : Bool) (r j : Nat), Site cfg h i k c after r j →
        ∃ cd ti u, deliveredCol (runCallsOld cfg env h) i k after r j = some cd ∧
          env.mapper c.table.db c.table.name = some ti ∧ ti.columns[j]? = some (cd.field, u)) := by
  intro hall
  obtain ⟨cd, ti, u, h1, h2, h3⟩ := hall {} sEnv sHist sWF sMapper 1 0 cUsersU true 0 0 site_uid
  have hn := C13_bytes_id_reuse_misattributed_by_old_code.2.2.1
  rw [h1] at hn
  have hf : cd.field = asc "amount" := congrArg Prod.fst (Option.some.inj hn)
  have hti : sEnv.mapper cUsersU.table.db cUsersU.table.name = some (infoOf tUsersU) := by decide
  rw [hti] at h2
  obtain rfl := Option.some.inj h2
  have hcol : (infoOf tUsersU).columns[0]? = some (asc "uid", true) := by decide
  rw [hcol, hf] at h3
  have e : asc "uid" = asc "amount" := congrArg Prod.fst (Option.some.inj h3)
  exact absurd e (by decide)

/-- … and so is the core of `C10_bytes_signedness_from_mapper_id_reuse` — the value is read with the signedness flag
    of ordinal j of the table announced for the rows change: the old control flow delivers a text starting with '-'
    where the flag (unsigned) asks for a string of digits -/
theorem C10_bytes_signedness_from_mapper_id_reuse_old_code_refuted :
    ¬ (∀ (cfg : W.Cfg) (env : Env) (h : W.History), WFHistReuse cfg h → MapperAgrees env h →
        ∀ (i k : Nat) (c : W.RowsChange) (after : Bool) (r j : Nat) (hs : Site cfg h i k c after r j) (w : Nat)
          (v : W.CellVal), (w, (c.table.cols[j]'hs.col).typ) ∈ Props.C10.intTypes → written c after r j = .value v →
        ∃ cd u raw, deliveredCol (runCallsOld cfg env h) i k after r j = some cd ∧
          c.table.unsigned[j]? = some u ∧ raw < 2 ^ (8 * w) ∧
          W.cell (c.table.cols[j]'hs.col).typ (c.table.cols[j]'hs.col).md v = Bytes.ofLE w raw ∧
          cd.col = .value (if u then natDec raw else intDec (toSigned (8 * w) raw))) := by
  intro hall
  obtain ⟨cd, u, raw, h1, h2, _, _, h5⟩ := hall {} sEnv sHist sWF sMapper 1 0 cUsersU true 0 0 site_uid 4
    (.uint 4 4000000000) (by decide) (by decide)
  have hu : u = true := by
    have : cUsersU.table.unsigned[0]? = some true := by decide
    rw [this] at h2
    exact (Option.some.inj h2).symm
  subst hu
  have hb := C13_bytes_id_reuse_misattributed_by_old_code.2.2.2.1
  rw [h1] at hb
  obtain ⟨f, t, col⟩ := cd
  simp only [if_true] at h5
  subst h5
  simp only [firstByte] at hb
  have hmem : (45 : UInt8) ∈ natDec raw := List.mem_of_mem_head? (by rw [hb]; rfl)
  exact absurd (natDec_all_digits raw 45 hmem) (by decide)

/-! ### non-vacuity on the concrete histories of the earlier files, each behind ANOTHER table (d.s) announced under its
    table id and a master restart (GV/Lemmas/C13c.lean): the sites are behind the re-use of the id.
    `rHistR` = d.s under id 9 | restart | `rHist`: its UPDATE `rC1` is now transaction 1, its WRITE `rC2` — not announced
    again: the table is still the one last announced for id 9 — transaction 2. -/

theorem siteR_empty : Site {} rHistR 1 0 rC1 false 0 2 := ⟨site_tx_of_bind (by decide), by decide, by decide, by decide⟩
theorem siteR_null : Site {} rHistR 1 0 rC1 false 1 2 := ⟨site_tx_of_bind (by decide), by decide, by decide, by decide⟩
theorem siteR_absent : Site {} rHistR 1 0 rC1 false 0 1 := ⟨site_tx_of_bind (by decide), by decide, by decide, by decide⟩
theorem siteR_unsigned : Site {} rHistR 1 0 rC1 true 0 0 := ⟨site_tx_of_bind (by decide), by decide, by decide, by decide⟩
theorem siteR_signed_partial : Site {} rHistR 2 0 rC2 true 0 1 :=
  ⟨site_tx_of_bind (by decide), by decide, by decide, by decide⟩
theorem siteR_dec (r : Nat) (hr : r < 2) : Site {} rHistR 1 0 rC1 true r 3 :=
  ⟨site_tx_of_bind (by decide), by decide, hr, by decide⟩
theorem siteR_datetime : Site {} rHistR 1 0 rC1 true 0 4 := ⟨site_tx_of_bind (by decide), by decide, by decide, by decide⟩

example : ¬ WFHist {} rHistR := fun h =>
  absurd (h.tables (cOld 9) (by simp [rHistR, pre, histRows, unitRows, changeRows]) rC1
    (by simp [rHistR, pre, rHist, histRows, unitRows, changeRows]) rfl) (by decide)

example : ∃ cd, deliveredCol (runCalls {} rEnvR rHistR) 1 0 false 0 2 = some cd ∧ cd.col = .value [] := by
  obtain ⟨cd, h1, _, _, _, _, _, h7, _⟩ :=
    C13_bytes_absent_null_value_id_reuse {} rEnvR rHistR rWFR rMapperR 1 0 rC1 false 0 2 siteR_empty
  exact ⟨cd, h1, (h7 (by decide) (by decide)).1⟩
example : ∃ cd, deliveredCol (runCalls {} rEnvR rHistR) 1 0 false 1 2 = some cd ∧ cd.col = .null := by
  obtain ⟨cd, h1, _, h3, _⟩ :=
    C13_bytes_absent_null_value_id_reuse {} rEnvR rHistR rWFR rMapperR 1 0 rC1 false 1 2 siteR_null
  exact ⟨cd, h1, h3.mpr (by decide)⟩
example : ∃ cd, deliveredCol (runCalls {} rEnvR rHistR) 1 0 false 0 1 = some cd ∧ cd.col = .absent := by
  obtain ⟨cd, h1, h2, _⟩ :=
    C13_bytes_absent_null_value_id_reuse {} rEnvR rHistR rWFR rMapperR 1 0 rC1 false 0 1 siteR_absent
  exact ⟨cd, h1, h2.mpr (by decide)⟩
example : ∃ cd, deliveredCol (runCalls {} rEnvR rHistR) 1 0 false 0 2 = some cd ∧ cd.col = .value [] := by
  obtain ⟨cd, h1, h2⟩ := C13_bytes_written_id_reuse {} rEnvR rHistR rWFR rMapperR 1 0 rC1 false 0 2 siteR_empty
  exact ⟨cd, h1, h2⟩
/-- the VARCHAR column of d.t — `c`, type 15 — where d.s, the earlier owner of id 9, has no column at all -/
example : ∃ cd, deliveredCol (runCalls {} rEnvR rHistR) 1 0 false 0 2 = some cd ∧ cd.field = [99] ∧ cd.typ = 15 ∧
    deliveredTable (runCalls {} rEnvR rHistR) 1 0 = some ([100], [116]) := by
  obtain ⟨cd, _, _, h1, h2, _, _, h5, _, _, h8, _⟩ :=
    C13_bytes_name_and_type_id_reuse {} rEnvR rHistR rWFR rMapperR 1 0 rC1 false 0 2 siteR_empty
  exact ⟨cd, h1, (Option.some.inj h5).symm, h8, h2⟩
/-- column 0 of d.t is INT UNSIGNED — column 0 of d.s, the earlier owner of id 9, is a signed INT -/
example : ∃ cd, deliveredCol (runCalls {} rEnvR rHistR) 1 0 true 0 0 = some cd ∧
    cd.col = .value (natDec 4000000000) := by
  obtain ⟨cd, _, u, raw, h1, _, _, h4, _, _, h7, h8, _⟩ :=
    C10_bytes_signedness_from_mapper_id_reuse {} rEnvR rHistR rWFR rMapperR 1 0 rC1 true 0 0 siteR_unsigned 4
      (.uint 4 4000000000) (by decide) (by decide)
  have hu : u = true := by
    have : rC1.table.unsigned[0]? = some true := by decide
    rw [this] at h4
    exact (Option.some.inj h4).symm
  subst hu
  have := h8 rfl
  injection this with _ hr
  subst hr
  exact ⟨cd, h1, h7⟩
/-- the WRITE that is not announced again, partial after image -/
example : ∃ cd, deliveredCol (runCalls {} rEnvR rHistR) 2 0 true 0 1 = some cd ∧ cd.col = .value (intDec (-1)) := by
  obtain ⟨cd, _, _, _, h1, _, _, _, _, _, _, _, _, h10⟩ :=
    C10_bytes_signedness_from_mapper_id_reuse {} rEnvR rHistR rWFR rMapperR 2 0 rC2 true 0 1 siteR_signed_partial 4
      (.int 4 (-1)) (by decide) (by decide)
  exact ⟨cd, h1, h10⟩
example : ∃ cd, deliveredCol (runCalls {} rEnvR rHistR) 1 0 true 0 3 = some cd ∧ cd.col = .value (asc "-12.34") := by
  obtain ⟨cd, neg, ip, fp, p, s, h1, h2, _, _, _, _, _, h8, _⟩ :=
    C11_bytes_decimal_delivered_id_reuse {} rEnvR rHistR rWFR rMapperR 1 0 rC1 true 0 3 (siteR_dec 0 (by decide))
      (.dec true [0, 1, 2] [3, 4]) rfl (by decide) (fun _ => []) (fun _ => []) (fun _ => [])
  injection h2 with hn hi hf
  subst hn hi hf
  exact ⟨cd, h1, h8⟩
example : ∃ cd, deliveredCol (runCalls {} rEnvR rHistR) 1 0 true 1 3 = some cd ∧ cd.col = .value (asc "0.00") := by
  obtain ⟨cd, neg, ip, fp, p, s, h1, h2, _, _, _, _, _, h8, _⟩ :=
    C11_bytes_decimal_delivered_id_reuse {} rEnvR rHistR rWFR rMapperR 1 0 rC1 true 1 3 (siteR_dec 1 (by decide))
      (.dec false [0, 0, 0] [0, 0]) rfl (by decide) (fun _ => []) (fun _ => []) (fun _ => [])
  injection h2 with hn hi hf
  subst hn hi hf
  exact ⟨cd, h1, h8⟩
example : ∃ cd, deliveredCol (runCalls {} rEnvR rHistR) 1 0 true 0 4 = some cd ∧
    cd.col = .value (asc "2024-02-29 13:05:09.123") := by
  obtain ⟨cd, h1, h2, _⟩ :=
    C12_bytes_temporal_delivered_id_reuse {} rEnvR rHistR rWFR rMapperR 1 0 rC1 true 0 4 siteR_datetime
      (.datetime2 2024 2 29 13 5 9 123) (by decide) (by decide) (fun _ => []) (fun _ => [])
  exact ⟨cd, h1, h2⟩

/-! `qHistR` = d.s under id 11 | restart | `qHist` (YEAR, BIT(10), ENUM (247), ENUM packed, SET packed, SET raw, FLOAT,
    DOUBLE, TINYINT, BIGINT UNSIGNED) -/

theorem siteQ (j : Nat) (hj : j < 10) : Site {} qHistR 1 0 qC true 0 j :=
  ⟨site_tx_of_bind (by decide), by decide, by decide, hj⟩

example : ∃ cd, deliveredCol (runCalls {} qEnvR qHistR) 1 0 true 0 0 = some cd ∧ cd.col = .value (natDec 2024) := by
  obtain ⟨cd, b, h1, h2, _, h4⟩ :=
    C10_bytes_year_id_reuse {} qEnvR qHistR qWFR qMapperR 1 0 qC true 0 0 (siteQ 0 (by decide)) (.year 124) rfl (by decide)
  injection h2 with hb
  subst hb
  exact ⟨cd, h1, by rw [h4]; simp⟩
example : ∃ cd, deliveredCol (runCalls {} qEnvR qHistR) 1 0 true 0 1 = some cd ∧ cd.col = .value [3, 255] := by
  obtain ⟨cd, bs, _, h1, h2, _, _, _, _, h7⟩ :=
    C10_bytes_bit_id_reuse {} qEnvR qHistR qWFR qMapperR 1 0 qC true 0 1 (siteQ 1 (by decide)) (.bit [3, 255]) rfl
      (by decide)
  injection h2 with hb
  subst hb
  exact ⟨cd, h1, h7⟩
example : ∃ cd, deliveredCol (runCalls {} qEnvR qHistR) 1 0 true 0 2 = some cd ∧ cd.col = .value (natDec 3) := by
  obtain ⟨cd, w, n, h1, h2, _, _, _, h6⟩ :=
    C10_bytes_enum_id_reuse {} qEnvR qHistR qWFR qMapperR 1 0 qC true 0 2 (siteQ 2 (by decide)) (.enum 1 3) (Or.inl rfl)
      (by decide)
  injection h2 with _ hn
  subst hn
  exact ⟨cd, h1, h6⟩
example : ∃ cd, deliveredCol (runCalls {} qEnvR qHistR) 1 0 true 0 3 = some cd ∧ cd.col = .value (natDec 300) := by
  obtain ⟨cd, w, n, h1, h2, _, _, _, h6⟩ :=
    C10_bytes_enum_id_reuse {} qEnvR qHistR qWFR qMapperR 1 0 qC true 0 3 (siteQ 3 (by decide)) (.enum 2 300)
      (Or.inr ⟨rfl, by decide⟩) (by decide)
  injection h2 with _ hn
  subst hn
  exact ⟨cd, h1, h6⟩
example : ∃ cd, deliveredCol (runCalls {} qEnvR qHistR) 1 0 true 0 4 = some cd ∧ cd.col = .value (natDec 5) := by
  obtain ⟨cd, w, n, h1, h2, _, _, _, _, h7⟩ :=
    C10_bytes_set_id_reuse {} qEnvR qHistR qWFR qMapperR 1 0 qC true 0 4 (siteQ 4 (by decide)) (.set 1 5) rfl (by decide)
      (by decide)
  injection h2 with _ hn
  subst hn
  exact ⟨cd, h1, h7⟩
example : ∃ cd, deliveredCol (runCalls {} qEnvR qHistR) 1 0 true 0 5 = some cd ∧ cd.col = .value [1, 2] := by
  obtain ⟨cd, bs, h1, h2, _, h4⟩ :=
    C10_bytes_set_raw_id_reuse {} qEnvR qHistR qWFR qMapperR 1 0 qC true 0 5 (siteQ 5 (by decide)) (.bit [1, 2]) rfl
      (by decide)
  injection h2 with hb
  subst hb
  exact ⟨cd, h1, h4⟩
example : ∃ cd, deliveredCol (runCalls {} qEnvR qHistR) 1 0 true 0 6 = some cd ∧
    cd.col = .value (natDec 1065353216) := by
  obtain ⟨cd, b, h1, h2, _, h4⟩ :=
    C10_bytes_float_id_reuse {} qEnvR qHistR qWFR qMapperR 1 0 qC true 0 6 (siteQ 6 (by decide)) (.f32 1065353216) rfl
      (by decide)
  injection h2 with hb
  subst hb
  exact ⟨cd, h1, h4⟩
example : ∃ cd, deliveredCol (runCalls {} qEnvR qHistR) 1 0 true 0 7 = some cd ∧
    cd.col = .value (natDec (4607182418800017408 + 1)) := by
  obtain ⟨cd, b, h1, h2, _, h4⟩ :=
    C10_bytes_double_id_reuse {} qEnvR qHistR qWFR qMapperR 1 0 qC true 0 7 (siteQ 7 (by decide))
      (.f64 4607182418800017408) rfl (by decide)
  injection h2 with hb
  subst hb
  exact ⟨cd, h1, h4⟩
/-- BIGINT UNSIGNED 2^64 − 1 at ordinal 9 — d.s, the earlier owner of id 11, has one (signed) column -/
example : ∃ cd, deliveredCol (runCalls {} qEnvR qHistR) 1 0 true 0 9 = some cd ∧
    cd.col = .value (natDec 18446744073709551615) := by
  obtain ⟨cd, _, _, _, h1, _, _, _, _, _, _, _, _, h10⟩ :=
    C10_bytes_signedness_from_mapper_id_reuse {} qEnvR qHistR qWFR qMapperR 1 0 qC true 0 9 (siteQ 9 (by decide)) 8
      (.uint 8 18446744073709551615) (by decide) (by decide)
  exact ⟨cd, h1, h10⟩

/-! `tHistR` = d.s under id 12 | restart | `tHist` (a DELETE whose before image holds a DATE, TIME, DATETIME, TIMESTAMP,
    TIMESTAMP(3), TIME(2), DATETIME(6); time zone UTC+1) -/

theorem siteT (j : Nat) (hj : j < 7) : Site {} tHistR 1 0 tC false 0 j :=
  ⟨site_tx_of_bind (by decide), by decide, by decide, hj⟩

example : ∃ cd, deliveredCol (runCalls {} tEnvR tHistR) 1 0 false 0 0 = some cd ∧ cd.col = .value (asc "2024-02-29") := by
  obtain ⟨cd, h1, h2, _⟩ := C12_bytes_temporal_delivered_id_reuse {} tEnvR tHistR tWFR tMapperR 1 0 tC false 0 0
    (siteT 0 (by decide)) (.date 2024 2 29) (by decide) (by decide) (fun _ => []) (fun _ => [])
  exact ⟨cd, h1, h2⟩
example : ∃ cd, deliveredCol (runCalls {} tEnvR tHistR) 1 0 false 0 3 = some cd ∧
    cd.col = .value (printTimestamp tEnvR.ext 86400) := by
  obtain ⟨cd, h1, _, _, _, _, h5, _⟩ := C12_bytes_temporal_delivered_id_reuse {} tEnvR tHistR tWFR tMapperR 1 0 tC false 0 3
    (siteT 3 (by decide)) (.timestamp 86400) (by decide) (by decide) (fun _ => []) (fun _ => [])
  obtain ⟨sec, e, _, h, _⟩ := h5 rfl
  injection e with e
  subst e
  exact ⟨cd, h1, h⟩
example : ∃ cd, deliveredCol (runCalls {} tEnvR tHistR) 1 0 false 0 5 = some cd ∧
    cd.col = .value (asc "-01:02:03.45") := by
  obtain ⟨cd, h1, h2, _⟩ := C12_bytes_temporal_delivered_id_reuse {} tEnvR tHistR tWFR tMapperR 1 0 tC false 0 5
    (siteT 5 (by decide)) (.time2 true 1 2 3 45) (by decide) (by decide) (fun _ => []) (fun _ => [])
  exact ⟨cd, h1, h2⟩
example : ∃ cd, deliveredCol (runCalls {} tEnvR tHistR) 1 0 false 0 6 = some cd ∧
    cd.col = .value (asc "9999-12-31 23:59:59.999999") := by
  obtain ⟨cd, h1, h2, _⟩ := C12_bytes_temporal_delivered_id_reuse {} tEnvR tHistR tWFR tMapperR 1 0 tC false 0 6
    (siteT 6 (by decide)) (.datetime2 9999 12 31 23 59 59 999999) (by decide) (by decide) (fun _ => []) (fun _ => [])
  exact ⟨cd, h1, h2⟩

/-! `jHistR` = d.s under id 12 | restart | `jHist` (d.j = (INT, JSON with 4 length bytes): a WRITE, then an UPDATE) -/

theorem siteJ_w0 : Site {} jHistR 1 0 jC1 true 0 1 := ⟨⟨_, rfl, rfl⟩, by decide, by decide, by decide⟩
theorem siteJ_ua0 : Site {} jHistR 2 0 jC2 true 0 1 := ⟨⟨_, rfl, rfl⟩, by decide, by decide, by decide⟩
theorem siteJ_ub1 : Site {} jHistR 2 0 jC2 false 1 1 := ⟨⟨_, rfl, rfl⟩, by decide, by decide, by decide⟩
theorem siteJ_ua1 : Site {} jHistR 2 0 jC2 true 1 1 := ⟨⟨_, rfl, rfl⟩, by decide, by decide, by decide⟩

/-- the nested document of row 0 of the WRITE arrives as its text -/
example : ∃ cd, deliveredCol (runCalls {} jEnvR jHistR) 1 0 true 0 1 = some cd ∧
    cd.col = .value (W.render jEnvR.ext.fmtFloat64E true jD1) ∧ cd.typ = 245 := by
  obtain ⟨cd, h1, h2, h3, _⟩ :=
    C14_bytes_end_to_end_partial_id_reuse {} jEnvR jHistR jWFR jMapperR 1 0 jC1 true 0 1 siteJ_w0 _ _ jD1
      (by decide) rfl wf1 rfl
  exact ⟨cd, h1, h2, h3⟩
/-- read from the column's side -/
example : ∃ cd d, deliveredCol (runCalls {} jEnvR jHistR) 2 0 true 0 1 = some cd ∧ W.WFDoc d ∧ W.NoDbl d ∧
    W.jsonCell 4 jD3 = W.jsonCell 4 d ∧ cd.col = .value (W.render jEnvR.ext.fmtFloat64E true d) := by
  obtain ⟨cd, b, t, d, h1, h2, h3, h4, _, _, _, h8, h9, _, h11⟩ :=
    C14_bytes_json_column_partial_id_reuse {} jEnvR jHistR jWFR jMapperR 2 0 jC2 true 0 1 siteJ_ua0 (W.jsonCell 4 jD3) rfl
      (written_value (by decide) rfl)
  refine ⟨cd, d, h1, h3, h4, ?_, h11⟩
  rw [h2, h8, h9, ← C14.render_noDbl (fun _ => []) _ true d h4]
  rfl
/-- SQL NULL (before image of row 1 of the UPDATE) vs the JSON literal null (its after image) -/
example : ∃ cd cd', deliveredCol (runCalls {} jEnvR jHistR) 2 0 false 1 1 = some cd ∧
    deliveredCol (runCalls {} jEnvR jHistR) 2 0 true 1 1 = some cd' ∧ cd.col = .null ∧
    cd'.col = .value (asc "'null'") := by
  obtain ⟨cd, h1, h2, _⟩ :=
    C14_bytes_null_vs_json_null_id_reuse {} jEnvR jHistR jWFR jMapperR 2 0 jC2 false 1 1 siteJ_ub1 (by decide)
  obtain ⟨cd', h1', _, h3'⟩ :=
    C14_bytes_null_vs_json_null_id_reuse {} jEnvR jHistR jWFR jMapperR 2 0 jC2 true 1 1 siteJ_ua1 (by decide)
  exact ⟨cd, cd', h1, h1', h2 rfl, h3' rfl⟩

/-! ### the earlier theorems are the instances for histories without id re-use -/

/-- every `WFHist` history satisfies the hypotheses of the theorems above (`C15_id_reuse_subsumes`): e.g.
    `C13_bytes_name_and_type` is `C13_bytes_name_and_type_id_reuse` without the clause on the event's table -/
example (cfg : W.Cfg) (env : Env) (h : W.History) (hwf : WFHist cfg h) (hm : MapperAgrees env h) (i k : Nat)
    (c : W.RowsChange) (after : Bool) (r j : Nat) (hs : Site cfg h i k c after r j) :
    ∃ cd ti u, deliveredCol (runCalls cfg env h) i k after r j = some cd ∧
      env.mapper c.table.db c.table.name = some ti ∧ ti.columns[j]? = some (cd.field, u) ∧
      c.table.names[j]? = some cd.field ∧ c.table.unsigned[j]? = some u ∧
      ((tmOf c.table).types[j]?).map (·.toNat) = some cd.typ ∧
      cd.typ = (c.table.cols[j]'hs.col).typ ∧ cd.typ < 256 := by
  obtain ⟨cd, ti, u, h1, _, h3⟩ :=
    C13_bytes_name_and_type_id_reuse cfg env h (Props.C15c.C15_id_reuse_subsumes cfg h hwf) hm i k c after r j hs
  exact ⟨cd, ti, u, h1, h3⟩

/-! ### the same by evaluation: the run of the model — and of the old control flow — on the bytes the Spec master serves -/

-- run = expected (the statement of `C15_bytes_fidelity_id_reuse`) for the five histories
#guard runCalls {} sEnv sHist == (W.expected {} sHist ⟨W.firstFile, 4⟩).map (toTx sEnv.ext)
#guard runCalls {} rEnvR rHistR == (W.expected {} rHistR ⟨W.firstFile, 4⟩).map (toTx rEnvR.ext)
#guard runCalls {} qEnvR qHistR == (W.expected {} qHistR ⟨W.firstFile, 4⟩).map (toTx qEnvR.ext)
#guard runCalls {} tEnvR tHistR == (W.expected {} tHistR ⟨W.firstFile, 4⟩).map (toTx tEnvR.ext)
#guard runCalls {} jEnvR jHistR == (W.expected {} jHistR ⟨W.firstFile, 4⟩).map (toTx jEnvR.ext)
#guard (runCalls {} sEnv sHist).length == 2 && (runCalls {} rEnvR rHistR).length == 3
-- the second transaction of `sHist`: the model delivers uid = "4000000000", age = "33" / NULL of shop.users …
#guard natDec 4000000000 == asc "4000000000"
#guard intDec (toSigned (8 * 4) 4000000000) == asc "-294967296"
#guard deliveredTable (runCalls {} sEnv sHist) 1 0 == some (asc "shop", asc "users")
#guard deliveredCol (runCalls {} sEnv sHist) 1 0 true 0 0 == some ⟨asc "uid", 3, .value (asc "4000000000")⟩
#guard deliveredCol (runCalls {} sEnv sHist) 1 0 true 0 1 == some ⟨asc "age", 1, .value (asc "33")⟩
#guard deliveredCol (runCalls {} sEnv sHist) 1 0 true 1 0 == some ⟨asc "uid", 3, .value (asc "7")⟩
#guard deliveredCol (runCalls {} sEnv sHist) 1 0 true 1 1 == some ⟨asc "age", 1, .null⟩
-- … the old control flow hands the same bytes over as amount = "-294967296", order_id = "33" / NULL of shop.orders
#guard deliveredTable (runCallsOld {} sEnv sHist) 1 0 == some (asc "shop", asc "orders")
#guard deliveredCol (runCallsOld {} sEnv sHist) 1 0 true 0 0 == some ⟨asc "amount", 3, .value (asc "-294967296")⟩
#guard deliveredCol (runCallsOld {} sEnv sHist) 1 0 true 0 1 == some ⟨asc "order_id", 1, .value (asc "33")⟩
#guard deliveredCol (runCallsOld {} sEnv sHist) 1 0 true 1 0 == some ⟨asc "amount", 3, .value (asc "7")⟩
#guard deliveredCol (runCallsOld {} sEnv sHist) 1 0 true 1 1 == some ⟨asc "order_id", 1, .null⟩
-- the first transaction is the same in both
#guard deliveredCol (runCalls {} sEnv sHist) 0 0 true 0 0 == some ⟨asc "amount", 3, .value (asc "-250")⟩
#guard deliveredCol (runCallsOld {} sEnv sHist) 0 0 true 0 0 == some ⟨asc "amount", 3, .value (asc "-250")⟩
-- all 8 configurations
#guard Props.C15b.allCfgs.all fun cfg =>
  runCalls cfg sEnv sHist == (W.expected cfg sHist ⟨W.firstFile, 4⟩).map (toTx sEnv.ext) &&
  deliveredCol (runCalls cfg sEnv sHist) 1 0 true 0 0 == some ⟨asc "uid", 3, .value (asc "4000000000")⟩ &&
  deliveredCol (runCallsOld cfg sEnv sHist) 1 0 true 0 0 == some ⟨asc "amount", 3, .value (asc "-294967296")⟩
-- behind d.s under the same id: the sites used above
#guard deliveredCol (runCalls {} rEnvR rHistR) 1 0 true 0 0 == some ⟨[97], 3, .value (asc "4000000000")⟩
#guard deliveredCol (runCalls {} rEnvR rHistR) 2 0 true 0 1 == some ⟨[98], 3, .value (asc "-1")⟩
#guard deliveredCol (runCalls {} rEnvR rHistR) 1 0 false 0 1 == some ⟨[98], 3, .absent⟩
#guard deliveredCol (runCalls {} rEnvR rHistR) 1 0 true 0 3 == some ⟨[100], 246, .value (asc "-12.34")⟩
#guard deliveredCol (runCalls {} qEnvR qHistR) 1 0 true 0 9 == some ⟨[106], 8, .value (asc "18446744073709551615")⟩
#guard deliveredCol (runCalls {} tEnvR tHistR) 1 0 false 0 6 == some ⟨[103], 18, .value (asc "9999-12-31 23:59:59.999999")⟩
#guard deliveredCol (runCalls {} jEnvR jHistR) 1 0 true 0 1 == some ⟨[106], 245, .value (W.render (fun _ => []) true jD1)⟩
#guard deliveredCol (runCalls {} jEnvR jHistR) 2 0 true 1 1 == some ⟨[106], 245, .value (asc "'null'")⟩
#guard deliveredCol (runCalls {} jEnvR jHistR) 0 0 true 0 0 == some ⟨[122], 3, .value (asc "-7")⟩

end GV.Props.C13c
