import GV.Spec.Decoded
import GV.Lemmas.Streamer
import GV.Expect.C04
/-
  C04 — across failures and restarts every transaction is accepted exactly once (DESIGN §7 C04).
  Property theorems only.  An attempt is: a handler (arbitrary predicate: it may reject any call), the number of
  events that arrive before the stream stops, and the way it stops.
-/
namespace GV.Props.C04
open GV GV.M GV.DSpec

structure Attempt where
  handler : Transaction → Bool
  cut : Nat                        -- how many events arrive
  stop : Option Decoded            -- what ends the attempt (channel closed / cancel, invalid packet, decode error …)

def idleAt (p : Position) : PState := PState.init p

/-- one attempt of a streamer whose stored position is p, against a master that serves the units `us` from p -/
def runAttempt (a : Attempt) (p : Position) (us : List DUnit) : Outcome :=
  runD a.handler (idleAt p) (((us.flatMap devs).take a.cut).map some ++ [a.stop])

/-- Whatever ends an attempt, the position kept is the commit boundary that follows the last accepted transaction:
    the units split into an accepted prefix us1 — whose transactions are exactly the accepted calls — and the rest,
    and the kept position is the position reached after us1.  At most one further call was made, and it was
    rejected by the handler. -/
theorem C04_resume_pos (a : Attempt) (hs : Stopper a.stop) (p : Position) (us : List DUnit)
    (hwf : ∀ u ∈ us, WFUnit u) :
    ∃ us1 us2, us = us1 ++ us2 ∧
      (runAttempt a p us).accepted = dexpected p us1 ∧
      (runAttempt a p us).pos = dendPos p us1 ∧
      ((runAttempt a p us).calls = (runAttempt a p us).accepted ∨
        ∃ tx, (runAttempt a p us).calls = (runAttempt a p us).accepted ++ [tx] ∧ a.handler tx = false) ∧
      (runAttempt a p us).crash = false := by
  unfold runAttempt
  obtain ⟨us1, us2, hsplit, hacc, hpos, hcr, hcalls⟩ :=
    SL.run_prefix a.handler [a.stop] (SL.quiet_stopper _ hs) us hwf (idleAt p) ⟨rfl, rfl⟩ _
      (List.take_prefix a.cut _)
  refine ⟨us1, us2, hsplit, hacc, hpos, ?_, hcr⟩
  rcases hcalls with ⟨hc, _⟩ | ⟨tx, hc, hh, _⟩
  · exact Or.inl hc
  · exact Or.inr ⟨tx, hc, hh⟩

/-- a sequence of attempts on one streamer: each starts where the previous one stopped, and the master serves the
    units that follow that boundary -/
inductive Attempts : Position → List DUnit → List Attempt → List Transaction → Position → List DUnit → Prop where
  | nil (p us) : Attempts p us [] [] p us
  | cons (a : Attempt) (p : Position) (us us1 us2 : List DUnit) (rest : List Attempt) (acc : List Transaction)
      (p' : Position) (rem : List DUnit)
      (hsplit : us = us1 ++ us2)
      (hacc : (runAttempt a p us).accepted = dexpected p us1)
      (hpos : (runAttempt a p us).pos = dendPos p us1)
      (htail : Attempts (dendPos p us1) us2 rest acc p' rem) :
      Attempts p us (a :: rest) ((runAttempt a p us).accepted ++ acc) p' rem

/-- any sequence of stopping attempts can be run (the position kept is always a boundary the master can serve from) -/
theorem C04_attempts_exist (atts : List Attempt) (hs : ∀ a ∈ atts, Stopper a.stop) (p : Position) (us : List DUnit)
    (hwf : ∀ u ∈ us, WFUnit u) : ∃ acc p' rem, Attempts p us atts acc p' rem := by
  induction atts generalizing p us with
  | nil => exact ⟨[], p, us, .nil p us⟩
  | cons a rest ih =>
    obtain ⟨us1, us2, hsplit, hacc, hpos, _, _⟩ := C04_resume_pos a (hs a (by simp)) p us hwf
    obtain ⟨acc, p', rem, h⟩ := ih (fun b hb => hs b (by simp [hb])) (dendPos p us1) us2
      (fun u hu => hwf u (by simp [hsplit, hu]))
    exact ⟨_, p', rem, .cons a p us us1 us2 rest acc p' rem hsplit hacc hpos h⟩

/-- Exactly once: over any sequence of failed attempts followed by a successful one, the transactions accepted by the
    handler are exactly the committed ones, each once, in order. -/
theorem C04_exactly_once (atts : List Attempt) (p : Position) (us : List DUnit) (hwf : ∀ u ∈ us, WFUnit u)
    (acc : List Transaction) (p' : Position) (rem : List DUnit) (h : Attempts p us atts acc p' rem) :
    acc ++ (runD (fun _ => true) (idleAt p') ((rem.flatMap devs).map some)).accepted = dexpected p us := by
  induction h with
  | nil p us =>
    rw [SL.run_all us (idleAt p) ⟨rfl, rfl⟩ hwf]
    rfl
  | cons a p us us1 us2 rest acc p' rem hsplit hacc hpos htail ih =>
    subst hsplit
    have h2 := ih (fun u hu => hwf u (by simp [hu]))
    rw [hacc, List.append_assoc, h2, (SL.dexpected_append p us1 us2).1]

/-- a rejected transaction is delivered again by the next attempt, an accepted one never is -/
theorem C04_redelivery (a : Attempt) (hs : Stopper a.stop) (p : Position) (us : List DUnit) (hwf : ∀ u ∈ us, WFUnit u)
    (tx : Transaction) (hc : (runAttempt a p us).calls = (runAttempt a p us).accepted ++ [tx]) :
    ∃ us1 us2, us = us1 ++ us2 ∧ (runAttempt a p us).pos = dendPos p us1 ∧
      (dexpected (dendPos p us1) us2).head? = some tx := by
  unfold runAttempt at hc ⊢
  obtain ⟨us1, us2, hsplit, _, hpos, _, hcalls⟩ :=
    SL.run_prefix a.handler [a.stop] (SL.quiet_stopper _ hs) us hwf (idleAt p) ⟨rfl, rfl⟩ _
      (List.take_prefix a.cut _)
  rcases hcalls with ⟨hc', _⟩ | ⟨tx', hc', _, hhd⟩
  · rw [hc'] at hc
    have hl := congrArg List.length hc
    simp at hl
  · rw [hc'] at hc
    have he := List.append_cancel_left hc
    simp only [List.cons.injEq, and_true] at he
    subst he
    exact ⟨us1, us2, hsplit, hpos, hhd⟩

/-! non-vacuity: a handler that rejects the first call, stream of one transaction -/
example : (runAttempt ⟨fun _ => false, 5, none⟩ ⟨[97], 4⟩ [.tx ⟨[], none, []⟩ 50 1 [] .xid 90 2]).pos = ⟨[97], 4⟩ := by decide
example : Stopper (some .invalid) := Or.inr (Or.inl rfl)

end GV.Props.C04
