import GV.Model.Proto
import GV.Model.ErrorVal
import GV.Lemmas.Proto
import GV.Expect.C06
/-
  C06 — the reason a stream ended is always reported, never swallowed (DESIGN §7 C06).
  Property theorems only.  `published` and `endedByCtx` are history variables of the model (no transition reads them).
-/
namespace GV.Props.C06
open GV.Proto

def Returned (s : State) : Prop := ∃ e, s.parser = .returned e

/-- handler and decode failures make Stream's own result non-nil, and the epilogue preserves it -/
theorem C06_stream_err (s s' : State) :
    (step s (.handlerReturns false) = some s' → s'.parser = .ret0 true) ∧
    (step s (.handoff .decodeError) = some s' → s'.parser = .ret0 true) ∧
    (∀ e, s.parser = .ret0 e → ∃ t, run s [.epilogue, .epilogue, .epilogue] = some t ∧ t.parser = .returned e) := by
  obtain ⟨reader, parser, errCh, evClosed, cancelled, readerCtx, connClosed, latched, firstError, published, endedByCtx⟩ := s
  refine ⟨?_, ?_, ?_⟩
  · intro h
    simp only [step] at h
    split at h
    · simp only [Option.some.injEq] at h
      subst h
      rfl
    · simp at h
  · intro h
    simp only [step] at h
    split at h
    · simp only [Option.some.injEq] at h
      subst h
      rfl
    · simp at h
  · intro e h
    simp only at h
    subst h
    exact ⟨_, rfl, rfl⟩

/-- the exit reason is in the error channel before either channel is closed -/
theorem C06_published_before_close (s : State) (hr : Reachable s) :
    (s.evClosed = true → s.errCh = .closedEmpty ∨ ∃ r, s.errCh = .closedOne r) ∧
    ((s.errCh = .closedEmpty ∨ ∃ r, s.errCh = .closedOne r) → ∃ r, s.published = some r) ∧
    (∀ r, s.errCh = .one r ∨ s.errCh = .closedOne r → s.published = some r) := by
  have hi := reachable_inv s hr
  obtain ⟨reader, parser, errCh, evClosed, cancelled, readerCtx, connClosed, latched, firstError, published, endedByCtx⟩ := s
  simp only [Proto.Inv] at hi
  refine ⟨?_, ?_, ?_⟩
  · intro h
    simp only at h
    subst h
    cases errCh with
    | empty => exact absurd hi (by proto_close)
    | one r => exact absurd hi (by proto_close)
    | closedOne r => exact .inr ⟨r, rfl⟩
    | closedEmpty => exact .inl rfl
  · intro h
    cases published with
    | some r => exact ⟨r, rfl⟩
    | none =>
      exfalso
      rcases h with h | ⟨r, h⟩ <;> simp only at h <;> subst h <;> proto_close
  · intro r h
    rcases h with h | h <;> simp only at h <;> subst h <;> proto_close

/-- When Stream returned nil, Error() returns nil only if the stream ended by caller cancellation or by the
    master's EOF. -/
theorem C06_nil_only_if (s : State) (hr : Reachable s) (h : s.parser = .returned false)
    (hn : s.firstError = .isNil) : s.cancelled = true ∨ s.published = some .eof := by
  have hi := reachable_inv s hr
  obtain ⟨reader, parser, errCh, evClosed, cancelled, readerCtx, connClosed, latched, firstError, published, endedByCtx⟩ := s
  simp only at h hn
  subst h hn
  simp only [Proto.Inv] at hi
  proto_close

/-- A lost connection or a master-side error is never reported as a clean end, whatever the timing: if Stream
    returned nil and the caller had not cancelled by then (a cancel issued later does not count), the first
    Error() is an error exactly when the reader stopped on ERR / transport failure, and nil exactly for EOF. -/
theorem C06_no_swallow (s : State) (hr : Reachable s) (h : s.parser = .returned false) (hl : s.latched = true) :
    (s.published = some .fail → s.firstError ≠ .isNil) ∧
    (s.firstError = .isErr → s.published = some .fail) ∧
    (s.firstError = .isNil → s.published = some .eof) ∧
    s.published ≠ some .cancel ∧ s.published ≠ none := by
  have hi := reachable_inv s hr
  obtain ⟨reader, parser, errCh, evClosed, cancelled, readerCtx, connClosed, latched, firstError, published, endedByCtx⟩ := s
  simp only at h hl
  subst h hl
  simp only [Proto.Inv] at hi
  refine ⟨?_, ?_, ?_, ?_, ?_⟩ <;> proto_close

set_option linter.unusedVariables false in -- `s2` of the statement is unused
/-- a cancel issued after Stream returned never changes what Error() reports (the F10 schedule) -/
theorem C06_late_cancel (s s1 s2 t1 t2 : State) (hr : Reachable s) (h : Returned s)
    (hc : step s .callerCancels = some s1) (he1 : step s1 .callError = some t1) (he2 : step s .callError = some t2)
    (hf : s.firstError = .notCalled) : t1.firstError = t2.firstError := by
  have hi := reachable_inv s hr
  obtain ⟨e, he⟩ := h
  obtain ⟨reader, parser, errCh, evClosed, cancelled, readerCtx, connClosed, latched, firstError, published, endedByCtx⟩ := s
  simp only at he hf
  subst he hf
  simp only [step, Option.some.injEq] at hc
  subst hc
  simp only [Proto.Inv] at hi
  have hlc : latched = true ∨ cancelled = true := by proto_close
  cases errCh with
  | empty => simp [step] at he2
  | one r =>
    simp only [step, Option.some.injEq] at he1 he2
    subst he1 he2
    rcases hlc with h | h <;> subst h <;> simp
  | closedOne r =>
    simp only [step, Option.some.injEq] at he1 he2
    subst he1 he2
    rcases hlc with h | h <;> subst h <;> simp
  | closedEmpty =>
    simp only [step, Option.some.injEq] at he1 he2
    subst he1 he2
    rfl

/-- the error handed to the caller carries the master's message: however many times the library wraps it with
    context (`msgf`), the original text stays inside `Error()`'s string and `Original()` is untouched -/
theorem C06_message_carried (ori : Bytes) (wraps : List Bytes) :
    let e := wraps.foldl GV.M.GErr.msgf (GV.M.newError ori)
    e.original = ori ∧ ∃ pre, e.errorString = pre ++ ori := by
  have h : ∀ (ws : List Bytes) (e : GV.M.GErr), (ws.foldl GV.M.GErr.msgf e).ori = e.ori := by
    intro ws
    induction ws with
    | nil => intro e; rfl
    | cons w ws ih => intro e; simp [List.foldl, ih, GV.M.GErr.msgf]
  intro e
  refine ⟨h wraps _, ?_⟩
  refine ⟨e.msg ++ GV.asc " oriErr: ", ?_⟩
  have : e.ori = ori := h wraps _
  simp [GV.M.GErr.errorString, this]

/-- in particular for an ERR packet: the master's message text is a suffix of what Error() prints -/
theorem C06_err_packet_message (code : Nat) (message : Bytes) :
    ∃ pre, (GV.M.errPacketError code message).errorString = pre ++ message := by
  refine ⟨GV.asc "fetch error packet" ++ GV.asc " oriErr: " ++ (GV.asc "Error " ++ GV.natDec code ++ GV.asc ": "), ?_⟩
  simp [GV.M.errPacketError, GV.M.GErr.errorString, GV.M.GErr.msgf, GV.M.newError, GV.M.mysqlErrorText]

/-! non-vacuity: ERR packet, Stream returns nil, late cancel, Error() still reports the failure -/
example : (run init [.net .fail, .publish, .publish, .publish, .parserSeesClosed, .epilogue, .epilogue, .epilogue,
      .callerCancels, .callError]).map (·.firstError) = some .isErr := by decide

end GV.Props.C06
