import GV.Model.Rows
import GV.Spec.Events
import GV.Lemmas.Dec
import GV.Lemmas.C09
import GV.Expect.C09
/-
  C09 — rows events are split into exactly the encoded rows and images (DESIGN §7 C09).
  Property theorems only; helper lemmas live in GV/Lemmas/C09.lean (and C09Rows.lean).
-/
namespace GV.Props.C09
open GV GV.M

/-- The per-type length rule and the per-type value decoder always agree on the size of a cell: whenever both
    succeed they return the same length — for every buffer, position, type code (all 256) and metadata (all 2^16),
    except TIMESTAMP2 / DATETIME2 with an invalid fractional-seconds metadata (> 6), where the two really differ
    (outside the property's valid metadata domain; observation in DESIGN §8). -/
theorem C09_len_agrees (E : Ext) (data : Bytes) (pos typ md : Nat) (u : Bool) (l l' : Nat) (v : Bytes)
    (hfsp : (typ = 17 ∨ typ = 18) → md ≤ 6)
    (h1 : cellLength data pos typ md = .ok l) (h2 : cellBytes E data pos typ md u = .ok (v, l')) : l = l' := by
  by_cases ht : typ ∈ GV.C09.cellTypes
  · exact GV.C09.agree_known E data pos typ md u l l' v ht hfsp h1 h2
  · rw [GV.C09.cb_other E data pos typ md u ht] at h2
    cases h2

/-- and that exclusion is real: with md = 7 a TIMESTAMP2 cell is 8 bytes for the length rule, 4 for the decoder -/
theorem C09_len_disagree_invalid_fsp (E : Ext) :
    cellLength [0, 0, 0, 1, 0, 0, 0, 0] 0 17 7 = .ok 8 ∧
    ∃ v, cellBytes E [0, 0, 0, 1, 0, 0, 0, 0] 0 17 7 false = .ok (v, 4) := by
  refine ⟨by decide, ?_⟩
  unfold cellBytes
  simp [readBE, fracSuffix, Bytes.slice]

/-! non-vacuity -/
example : cellLength [3, 97, 98, 99, 0] 0 15 10 = .ok 4 := by decide

end GV.Props.C09
