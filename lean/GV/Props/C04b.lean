import GV.Props.C01d
import GV.Lemmas.C04b
/-
  C04 at the BYTE level — the position the streamer keeps for its next attempt is the commit boundary that follows the
  last transaction the handler accepted, whatever ended the attempt and wherever in the stream it happened; so across any
  sequence of failed attempts followed by a clean one every committed transaction is accepted exactly once, in order
  (DESIGN §7 C04).  Inputs are exactly the bytes the Spec master (GV/Spec/History.lean) serves; `GV/Props/C04.lean` has
  the same property over already-decoded events.
  Property theorems and non-vacuity examples only; vocabulary and helper lemmas are in GV/Lemmas/C04b.lean
  (namespace GV.C04b), on top of GV/Lemmas/C01c.lean / C01d.lean:

    Attempt                 handler (ANY predicate Transaction → Bool), cut (how many of the served packets arrive),
                            tail (what the reader hands over afterwards)
    runAttempt cfg env h a p   = parseEvents env a.handler (PState.init (posOf p))
                                   (((W.serve cfg h p).take a.cut).map Input.event ++ a.tail)
    runClean cfg env h p       = parseEvents env (fun _ => true) (PState.init (posOf p))
                                   ((W.serve cfg h p).map Input.event ++ [Input.closed])
    EndsWith env e tail     how an attempt ends: from every state and with every handler the parser fed `tail` returns
                            at once, without a handler call, keeping its position, error flag e, no crash.
                            `C04_bytes_endings`: the exhausted input [], `.closed :: _`, `.cancelled :: _` (e = false); a
                            packet that is not a valid event (`isValid b = false`, the model's invalid-event path) and
                            any packet on which `stepEvent` stops without crash in every state (e = true) — these are
                            all the ways the model's `Input` type offers
    served cfg h p          the laid-out events the master serves for p: W.fromPos (W.layout cfg h) p
    preamble cfg h p        the packets before them: (W.serve cfg h p).length - (served cfg h p).length (1 at a file
                            head — the file's own FORMAT_DESCRIPTION event is a laid-out event — else 2)
    keptPos cfg h p m       W.endPosAux ((served cfg h p).take m) p: the Spec position after the first m events served —
                            behind the last commit point among them, or at the head ⟨f, 4⟩ of the file a later ROTATE
                            (the event or the artificial one) among them names, or p itself
    doneCount cfg h p m     (W.expectedAux ((served cfg h p).take m) p).length: the commit points among them
    specOut E acc e l cur   the Spec's own account of an attempt over the events l (from the tags alone)
    SelfAnnounced h         every rows change is announced by a TABLE_MAP event within its own unit (annOK [] per unit)
    FreshLog h              no file name is used twice in the log
    Resumable cfg env h p   Lands cfg h p, WFFrom cfg h p (C01d), SelfAnnounced (unitsFrom cfg h p), FreshLog h,
                            MapperAgrees env (unitsFrom cfg h p)
    Attempts cfg env h p atts acc p'   the attempts `atts` run one after the other on one streamer, the first from p,
                            each from the W.Pos whose `posOf` is the position the previous one returned; acc is the
                            concatenation of their accepted lists, p' the position the last one kept

  RESULTS (nothing is partial)
    C04_bytes_outcome        EXACT outcome of any attempt (any handler, cut, ending) = specOut on the events that arrived
    C04_bytes_resume_pos     the statement asked for, from `Lands` / `WFFrom` (C01d's general hypotheses)
    C04_bytes_resume_pos_boundary   … from p ∈ W.boundaries cfg h, WFHistFrom, MapperAgrees env h
    C04_bytes_kept_resumable the position kept after ANY number m of consumed events is Resumable again, and what is
                             expected from it is exactly (W.expected cfg h p).drop (doneCount …) — Spec-side fact
    C04_bytes_next_attempt   the position an attempt keeps is Resumable; the clean attempt from it delivers exactly the
                             rest; accepted-so-far ++ delivered-next = everything expected from p
    C04_bytes_redelivery     a rejected transaction is the first one the next attempt delivers
    C04_bytes_attempts_exist / C04_bytes_exactly_once   any finite sequence of attempts, then a clean one
    C04_resumable_of_boundary   Resumable from the boundary-style hypotheses
    C04_bytes_literal_refuted   "kept position = `next` of the last accepted transaction" is FALSE when a ROTATE was
                             consumed after it (the kept position is then the head of the next file); the true
                             statement is the one with `keptPos`
    C04_bytes_unannounced_refuted   WHY SelfAnnounced: the C01d hypotheses at p alone (announcements counted from p) are
                             NOT inherited by the kept position — concrete run whose next attempt fails
  Checked by evaluation before proving: the exact-outcome statement on a 13-unit history (rotate + restart) for all 8
  configurations, every boundary from which the accept-all run is clean, every cut, a handler rejecting the j-th call
  for every j, four endings (0 mismatches in 60k+ runs); the kept-position statement on `exHistS` for all
  configurations, boundaries and m.
-/
namespace GV.Props.C04b
open GV GV.M GV.Props.C01 GV.Props.C01b GV.C01c GV.Props.C01c GV.C01d GV.Props.C01d GV.C04b

/-- the vocabulary, pinned to the Spec's functions -/
theorem C04_bytes_vocabulary (cfg : W.Cfg) (env : Env) (h : W.History) (p : W.Pos) (m : Nat) (a : Attempt) :
    served cfg h p = W.fromPos (W.layout cfg h) p ∧
    preamble cfg h p = (W.serve cfg h p).length - (W.fromPos (W.layout cfg h) p).length ∧
    keptPos cfg h p m = W.endPosAux ((W.fromPos (W.layout cfg h) p).take m) p ∧
    doneCount cfg h p m = (W.expectedAux ((W.fromPos (W.layout cfg h) p).take m) p).length ∧
    runAttempt cfg env h a p = parseEvents env a.handler (PState.init (posOf p))
      (((W.serve cfg h p).take a.cut).map Input.event ++ a.tail) ∧
    runClean cfg env h p = parseEvents env (fun _ => true) (PState.init (posOf p))
      ((W.serve cfg h p).map Input.event ++ [Input.closed]) :=
  ⟨rfl, rfl, rfl, rfl, rfl, rfl⟩

/-- the ways an attempt can end that the model's `Input` type offers: nothing more arrives, the channel is closed, the
    context is cancelled (no error); a packet that is not a valid event, or any packet on which the parser stops in
    every state without crash — master error packet, undecodable event (error) -/
theorem C04_bytes_endings (env : Env) :
    EndsWith env false [] ∧ (∀ r, EndsWith env false (.closed :: r)) ∧ (∀ r, EndsWith env false (.cancelled :: r)) ∧
    (∀ b r, isValid b = false → EndsWith env true (.event b :: r)) ∧
    (∀ e b r, (∀ st, stepEvent env st b = .stop e false) → EndsWith env e (.event b :: r)) :=
  ⟨endsWith_nil env, endsWith_closed env, endsWith_cancelled env, endsWith_invalid env,
   fun e b r hb => endsWith_stop env e b r hb⟩

/-- EXACT outcome: for ANY handler, ANY cut k of the served packets and ANY quiet ending, the whole outcome of the
    attempt — calls, accepted, position, error flag, crash flag — is what the Spec computes from the tags of the
    laid-out events that arrived -/
theorem C04_bytes_outcome (cfg : W.Cfg) (env : Env) (h : W.History) (p : W.Pos) (hl : Lands cfg h p)
    (hwf : WFFrom cfg h p) (hm : MapperAgrees env (unitsFrom cfg h p))
    (acc : Transaction → Bool) (k : Nat) (e : Bool) (tail : List Input) (ht : EndsWith env e tail) :
    parseEvents env acc (PState.init (posOf p)) (((W.serve cfg h p).take k).map Input.event ++ tail)
      = specOut env.ext acc e ((served cfg h p).take (k - preamble cfg h p)) p :=
  outcome_lands cfg env h p hwf hl hm acc e tail ht k

/-- C04, one attempt.  For every handler, every cut and every quiet ending: the attempt consumed without failure the
    first m laid-out events served (m at most what arrived); with n the number of commit points among them,
    it ACCEPTED exactly the first n expected transactions, KEEPS the Spec position after those m events — behind the
    n-th transaction, moved on to ⟨f, 4⟩ by any ROTATE consumed after it — did not crash, and either made no further
    call (then m is everything that arrived and the error flag is the ending's) or exactly one more call: the (n+1)-th
    expected transaction, labelled `now` = the kept position, which the handler rejected (error flag set). -/
theorem C04_bytes_resume_pos (cfg : W.Cfg) (env : Env) (h : W.History) (p : W.Pos) (hl : Lands cfg h p)
    (hwf : WFFrom cfg h p) (hm : MapperAgrees env (unitsFrom cfg h p))
    (a : Attempt) (e : Bool) (ht : EndsWith env e a.tail) :
    ∃ m, m ≤ min (a.cut - preamble cfg h p) (served cfg h p).length ∧
      (runAttempt cfg env h a p).accepted = ((W.expected cfg h p).take (doneCount cfg h p m)).map (toTx env.ext) ∧
      (runAttempt cfg env h a p).pos = posOf (keptPos cfg h p m) ∧
      ((runAttempt cfg env h a p).calls = (runAttempt cfg env h a p).accepted ∧ (runAttempt cfg env h a p).err = e ∧
          m = min (a.cut - preamble cfg h p) (served cfg h p).length ∨
       ∃ t, (W.expected cfg h p)[doneCount cfg h p m]? = some t ∧ t.now = keptPos cfg h p m ∧
          a.handler (toTx env.ext t) = false ∧
          (runAttempt cfg env h a p).calls = (runAttempt cfg env h a p).accepted ++ [toTx env.ext t] ∧
          (runAttempt cfg env h a p).err = true) ∧
      (runAttempt cfg env h a p).crash = false := by
  obtain ⟨m, h1, h2, h3, h4, h5⟩ := attempt_spec cfg env h p hwf hl hm a.handler e a.tail ht a.cut _ rfl
  exact ⟨m, h1, h2, h3, h5, h4⟩

/-- … from a boundary, with the hypotheses of `C01_fidelity_bytes_resume` -/
theorem C04_bytes_resume_pos_boundary (cfg : W.Cfg) (env : Env) (h : W.History) (p : W.Pos)
    (hp : p ∈ W.boundaries cfg h) (hwf : WFHistFrom cfg h p) (hm : MapperAgrees env h)
    (a : Attempt) (e : Bool) (ht : EndsWith env e a.tail) :
    ∃ m, m ≤ min (a.cut - preamble cfg h p) (served cfg h p).length ∧
      (runAttempt cfg env h a p).accepted = ((W.expected cfg h p).take (doneCount cfg h p m)).map (toTx env.ext) ∧
      (runAttempt cfg env h a p).pos = posOf (keptPos cfg h p m) ∧
      ((runAttempt cfg env h a p).calls = (runAttempt cfg env h a p).accepted ∧ (runAttempt cfg env h a p).err = e ∧
          m = min (a.cut - preamble cfg h p) (served cfg h p).length ∨
       ∃ t, (W.expected cfg h p)[doneCount cfg h p m]? = some t ∧ t.now = keptPos cfg h p m ∧
          a.handler (toTx env.ext t) = false ∧
          (runAttempt cfg env h a p).calls = (runAttempt cfg env h a p).accepted ++ [toTx env.ext t] ∧
          (runAttempt cfg env h a p).err = true) ∧
      (runAttempt cfg env h a p).crash = false :=
  C04_bytes_resume_pos cfg env h p (lands_of_boundary cfg h p hp hwf.fresh) hwf.toWFFrom (mapper_unitsFrom hm cfg p)
    a e ht

/-- the boundary-style hypotheses give `Resumable`: a boundary, the C01d well-formedness from it, every rows change
    announced within its unit, no file name reused, the mapper agreeing on the history -/
theorem C04_resumable_of_boundary (cfg : W.Cfg) (env : Env) (h : W.History) (p : W.Pos)
    (hp : p ∈ W.boundaries cfg h) (hwf : WFHistFrom cfg h p) (hsa : SelfAnnounced h) (hf : FreshLog h)
    (hm : MapperAgrees env h) : Resumable cfg env h p :=
  ⟨lands_of_boundary cfg h p hp hwf.fresh, hwf.toWFFrom, fun u hu => hsa u (unitsFrom_subset cfg h p u hu), hf,
   mapper_unitsFrom hm cfg p⟩

/-- Spec side: after ANY number m of events consumed from a resumable position p, the kept position is resumable again
    (the master starts serving at a unit or a file head, everything served from it is well-formed with an EMPTY table
    cache), and what is expected from it is exactly what the first m events did not deliver; same end position -/
theorem C04_bytes_kept_resumable (cfg : W.Cfg) (env : Env) (h : W.History) (p : W.Pos) (hr : Resumable cfg env h p)
    (m : Nat) :
    Resumable cfg env h (keptPos cfg h p m) ∧
    W.expected cfg h (keptPos cfg h p m) = (W.expected cfg h p).drop (doneCount cfg h p m) ∧
    W.endPos cfg h (keptPos cfg h p m) = W.endPos cfg h p :=
  resumable_next cfg env h p hr m

/-- C04, the next attempt.  The position kept by any attempt (any handler, cut, quiet ending) from a resumable
    position is the `posOf` of a Spec position q that is resumable again; with n the number of transactions the attempt
    accepted, a clean complete attempt from q delivers exactly the expected transactions from the (n+1)-th on and ends
    where a clean attempt from p would have; so accepted-so-far ++ delivered-next = everything expected from p. -/
theorem C04_bytes_next_attempt (cfg : W.Cfg) (env : Env) (h : W.History) (p : W.Pos) (hr : Resumable cfg env h p)
    (a : Attempt) (e : Bool) (ht : EndsWith env e a.tail) :
    ∃ q n, (runAttempt cfg env h a p).pos = posOf q ∧
      (runAttempt cfg env h a p).accepted = ((W.expected cfg h p).take n).map (toTx env.ext) ∧
      Resumable cfg env h q ∧
      W.expected cfg h q = (W.expected cfg h p).drop n ∧
      runClean cfg env h q = ⟨((W.expected cfg h p).drop n).map (toTx env.ext),
        ((W.expected cfg h p).drop n).map (toTx env.ext), posOf (W.endPos cfg h p), false, false⟩ ∧
      (runAttempt cfg env h a p).accepted ++ (runClean cfg env h q).accepted
        = (W.expected cfg h p).map (toTx env.ext) := by
  obtain ⟨m, _, hacc, hpos, _, _⟩ := C04_bytes_resume_pos cfg env h p hr.lands hr.wf hr.mapper a e ht
  obtain ⟨hr', hexp, hend⟩ := resumable_next cfg env h p hr m
  have hclean := clean_run cfg env h _ hr'
  rw [hexp, hend] at hclean
  refine ⟨keptPos cfg h p m, doneCount cfg h p m, hpos, hacc, hr', hexp, hclean, ?_⟩
  rw [hacc, hclean, ← List.map_append, List.take_append_drop]

/-- a rejected transaction is delivered again — first — by the next attempt, labelled with the kept position; an
    accepted one never is (`C04_bytes_next_attempt`: the next attempt delivers the rest only) -/
theorem C04_bytes_redelivery (cfg : W.Cfg) (env : Env) (h : W.History) (p : W.Pos) (hr : Resumable cfg env h p)
    (a : Attempt) (e : Bool) (ht : EndsWith env e a.tail) (tx : Transaction)
    (hc : (runAttempt cfg env h a p).calls = (runAttempt cfg env h a p).accepted ++ [tx]) :
    a.handler tx = false ∧
    ∃ q, (runAttempt cfg env h a p).pos = posOf q ∧ tx.now = posOf q ∧ Resumable cfg env h q ∧
      (runClean cfg env h q).calls.head? = some tx := by
  obtain ⟨m, _, _, hpos, hcalls, _⟩ := C04_bytes_resume_pos cfg env h p hr.lands hr.wf hr.mapper a e ht
  obtain ⟨hr', hexp, _⟩ := resumable_next cfg env h p hr m
  have hclean := clean_run cfg env h _ hr'
  rcases hcalls with ⟨hc', _, _⟩ | ⟨t, ht1, ht2, ht3, hc', _⟩
  · rw [hc'] at hc
    have := congrArg List.length hc
    simp at this
  · rw [hc'] at hc
    have he := List.append_cancel_left hc
    simp only [List.cons.injEq, and_true] at he
    subst he
    refine ⟨ht3, keptPos cfg h p m, hpos, by simp [toTx, ht2], hr', ?_⟩
    rw [hclean, hexp]
    simp [List.head?_drop, ht1]

/-- any finite sequence of attempts with quiet endings can be run: the position an attempt keeps is always the `posOf`
    of a position the master can serve the next one from -/
theorem C04_bytes_attempts_exist (cfg : W.Cfg) (env : Env) (h : W.History) (p : W.Pos) (hr : Resumable cfg env h p)
    (atts : List Attempt) (hs : ∀ a ∈ atts, ∃ e, EndsWith env e a.tail) :
    ∃ acc p', Attempts cfg env h p atts acc p' :=
  attempts_exist cfg env h atts p hr hs

/-- C04, exactly once.  Over ANY finite sequence of attempts on one streamer — each with its own handler predicate,
    its own cut and its own quiet ending, each started at the position the previous one kept — followed by one clean
    complete attempt, the accepted transactions are exactly the expected ones from the first start position: every
    committed transaction accepted exactly once, in order; and the streamer ends at the expected end position. -/
theorem C04_bytes_exactly_once (cfg : W.Cfg) (env : Env) (h : W.History) (p : W.Pos) (hr : Resumable cfg env h p)
    (atts : List Attempt) (hs : ∀ a ∈ atts, ∃ e, EndsWith env e a.tail)
    (acc : List Transaction) (p' : W.Pos) (hatt : Attempts cfg env h p atts acc p') :
    acc ++ (runClean cfg env h p').accepted = (W.expected cfg h p).map (toTx env.ext) ∧
    (runClean cfg env h p').calls = (runClean cfg env h p').accepted ∧
    (runClean cfg env h p').pos = posOf (W.endPos cfg h p) ∧
    (runClean cfg env h p').err = false ∧ (runClean cfg env h p').crash = false := by
  obtain ⟨hr', n, h1, h2, h3⟩ := attempts_prefix cfg env h p atts acc p' hatt hr hs
  rw [clean_run cfg env h p' hr', h1, h2, h3, ← List.map_append, List.take_append_drop]
  exact ⟨rfl, rfl, rfl, rfl, rfl⟩

/-! ### non-vacuity: eight units in two files, every rows change announced in its own unit -/

/-- `exHistR` of Props/C01d with the last transaction carrying its own TABLE_MAP event -/
def exHistS : W.History :=
  [.gtid (List.replicate 16 3) 5, .tx (asc "BEGIN") [.rows exC1, .stmt exIns] (.xid 9) 90, .ddl exDdl,
   .rotate (asc "bin.000002"), .heartbeat, .autoRows exC2a,
   .tx (asc "BEGIN") [.rows exC2a, .stmt exIns] (.commit (asc "COMMIT")) 95, .ddl exDdl]

/-- the head of the log -/
def exP0 : W.Pos := ⟨W.firstFile, 4⟩
/-- the start of the first DDL: the `next` label of the first transaction, the `now` label of the second -/
def exP1 : W.Pos := ⟨W.firstFile, 387⟩

theorem exWFS : WFHist {} exHistS := by
  refine ⟨?_, by decide, ?_, by decide⟩
  · intro u hu
    simp only [exHistS, List.mem_cons, List.not_mem_nil, or_false] at hu
    rcases hu with rfl | rfl | rfl | rfl | rfl | rfl | rfl | rfl
    · trivial
    · refine ⟨by decide, ?_, trivial, by decide⟩
      intro c hc
      simp only [List.mem_cons, List.not_mem_nil, or_false] at hc
      rcases hc with rfl | rfl
      · exact ⟨exC1OK, by decide⟩
      · exact ⟨exInsOK, by unfold isChangeCat; decide⟩
    · exact ⟨exDdlOK, by unfold isChangeCat; decide⟩
    · trivial
    · trivial
    · exact ⟨exC2aOK, by decide⟩
    · refine ⟨by decide, ?_, (by show statementCategory _ = _; decide), by decide⟩
      intro c hc
      simp only [List.mem_cons, List.not_mem_nil, or_false] at hc
      rcases hc with rfl | rfl
      · exact ⟨exC2aOK, by decide⟩
      · exact ⟨exInsOK, by unfold isChangeCat; decide⟩
    · exact ⟨exDdlOK, by unfold isChangeCat; decide⟩
  · exact ⟨Or.inl rfl, Or.inl rfl, Or.inl rfl, trivial⟩

theorem exSelfAnn : SelfAnnounced exHistS := by
  intro u hu
  simp only [exHistS, List.mem_cons, List.not_mem_nil, or_false] at hu
  rcases hu with rfl | rfl | rfl | rfl | rfl | rfl | rfl | rfl
  · trivial
  · exact ⟨Or.inl rfl, trivial⟩
  · trivial
  · trivial
  · trivial
  · exact ⟨Or.inl rfl, trivial⟩
  · exact ⟨Or.inl rfl, trivial⟩
  · trivial

theorem exFresh : FreshLog exHistS := freshLog_of_nodup (by decide)

theorem exMapperS : MapperAgrees exEnv exHistS := by
  intro c hc
  simp [exHistS, histRows, unitRows, changeRows] at hc
  rcases hc with rfl | rfl | rfl <;> rfl

theorem exP0Boundary : exP0 ∈ W.boundaries {} exHistS := List.mem_of_getElem? (i := 0) (by decide)

/-- all hypotheses hold at the head of the log -/
theorem exResumable : Resumable {} exEnv exHistS exP0 :=
  C04_resumable_of_boundary {} exEnv exHistS exP0 exP0Boundary
    (wfHistFrom_head {} exHistS exWFS (by decide)) exSelfAnn exFresh exMapperS

/-- the handler that rejects the second transaction (the one labelled `now` = exP1) -/
def exRejectSecond : Transaction → Bool := fun tx => !(tx.now == posOf exP1)

/-- rejects the second transaction; 12 of the 21 packets arrive (through the FORMAT_DESCRIPTION event of the second
    file); then the context is cancelled -/
def exAttempt : Attempt := ⟨exRejectSecond, 12, [.cancelled]⟩
/-- accepts everything; 12 packets arrive; then a packet that is not a valid event -/
def exAttemptInvalid : Attempt := ⟨fun _ => true, 12, [.event [1, 2, 3]]⟩
/-- accepts everything; nothing but the artificial ROTATE arrives; the channel is closed -/
def exAttemptEarly : Attempt := ⟨fun _ => true, 1, [.closed]⟩

example : (W.serve {} exHistS exP0).length = 21 ∧ (W.expected {} exHistS exP0).length = 5 ∧
    preamble {} exHistS exP0 = 1 := by decide

example := C04_bytes_outcome {} exEnv exHistS exP0 exResumable.lands exResumable.wf exResumable.mapper
  exRejectSecond 12 false [.cancelled] (endsWith_cancelled _ _)
example := C04_bytes_resume_pos {} exEnv exHistS exP0 exResumable.lands exResumable.wf exResumable.mapper
  exAttempt false (endsWith_cancelled _ _)
example := C04_bytes_resume_pos_boundary {} exEnv exHistS exP0 exP0Boundary
  (wfHistFrom_head {} exHistS exWFS (by decide)) exMapperS exAttemptInvalid true (endsWith_invalid _ _ _ (by decide))
example := C04_bytes_kept_resumable {} exEnv exHistS exP0 exResumable 11
example := C04_bytes_next_attempt {} exEnv exHistS exP0 exResumable exAttempt false (endsWith_cancelled _ _)

theorem exEndings : ∀ a ∈ [exAttempt, exAttemptInvalid, exAttemptEarly, exAttempt], ∃ e, EndsWith exEnv e a.tail := by
  intro a ha
  simp only [List.mem_cons, List.not_mem_nil, or_false] at ha
  rcases ha with rfl | rfl | rfl | rfl
  · exact ⟨false, endsWith_cancelled _ _⟩
  · exact ⟨true, endsWith_invalid _ _ _ (by decide)⟩
  · exact ⟨false, endsWith_closed _ _⟩
  · exact ⟨false, endsWith_cancelled _ _⟩

/-- four failed attempts in a row, then a clean one: everything accepted exactly once -/
example : ∃ acc p', Attempts {} exEnv exHistS exP0 [exAttempt, exAttemptInvalid, exAttemptEarly, exAttempt] acc p' ∧
    acc ++ (runClean {} exEnv exHistS p').accepted = (W.expected {} exHistS exP0).map (toTx exEnv.ext) := by
  obtain ⟨acc, p', hatt⟩ := C04_bytes_attempts_exist {} exEnv exHistS exP0 exResumable _ exEndings
  exact ⟨acc, p', hatt, (C04_bytes_exactly_once {} exEnv exHistS exP0 exResumable _ exEndings acc p' hatt).1⟩

/-! the same, computed.  Kernel `decide` evaluates the runs down to positions, flags and the labels of the transactions
    (`natDec`, which renders column values, is defined by well-founded recursion and does not reduce in the kernel, so
    the full transactions are compared by the evaluator, `#guard`): the first attempt accepts the first transaction,
    calls the handler with the second one — rejected — and keeps exP1; the clean attempt from exP1 delivers the other
    four -/

/-- labels, commit timestamp and number of changes of a transaction -/
def exLabel (t : Transaction) : Position × Position × Nat × Nat := (t.now, t.next, t.timestamp, t.events.length)

set_option maxRecDepth 100000 in
theorem exFirstAttempt :
    (runAttempt {} exEnv exHistS exAttempt exP0).pos = posOf exP1 ∧
    (runAttempt {} exEnv exHistS exAttempt exP0).err = true ∧
    (runAttempt {} exEnv exHistS exAttempt exP0).accepted.map exLabel
      = (((W.expected {} exHistS exP0).take 1).map (toTx exEnv.ext)).map exLabel ∧
    (runAttempt {} exEnv exHistS exAttempt exP0).calls.length
      = (runAttempt {} exEnv exHistS exAttempt exP0).accepted.length + 1 := by
  decide

set_option maxRecDepth 100000 in
/-- a concrete two-attempt run whose accepted lists concatenate to the expected list (labels: kernel) -/
example : ((runAttempt {} exEnv exHistS exAttempt exP0).accepted ++ (runClean {} exEnv exHistS exP1).accepted).map exLabel
    = ((W.expected {} exHistS exP0).map (toTx exEnv.ext)).map exLabel := by
  decide

-- … and the full transactions (evaluator)
#guard (runAttempt {} exEnv exHistS exAttempt exP0).accepted ++ (runClean {} exEnv exHistS exP1).accepted
    == (W.expected {} exHistS exP0).map (toTx exEnv.ext)

/-- … and proved, as an instance of `Attempts` and of `C04_bytes_exactly_once` -/
example : (runAttempt {} exEnv exHistS exAttempt exP0).accepted ++ [] ++ (runClean {} exEnv exHistS exP1).accepted
    = (W.expected {} exHistS exP0).map (toTx exEnv.ext) :=
  (C04_bytes_exactly_once {} exEnv exHistS exP0 exResumable [exAttempt]
    (fun a ha => exEndings a (by simp only [List.mem_cons, List.not_mem_nil, or_false] at ha; simp [ha]))
    _ exP1 (.cons exAttempt exP0 exP1 [] [] exP1 exFirstAttempt.1 (.nil exP1))).1

/-- the rejected transaction is the first one the next attempt (from exP1) delivers -/
example : ∃ tx, (runAttempt {} exEnv exHistS exAttempt exP0).calls
      = (runAttempt {} exEnv exHistS exAttempt exP0).accepted ++ [tx] ∧
    exRejectSecond tx = false ∧ (runClean {} exEnv exHistS exP1).calls.head? = some tx := by
  obtain ⟨m, _, _, _, hcalls, _⟩ := C04_bytes_resume_pos {} exEnv exHistS exP0 exResumable.lands exResumable.wf
    exResumable.mapper exAttempt false (endsWith_cancelled _ _)
  rcases hcalls with ⟨hc, _, _⟩ | ⟨t, _, _, _, hc, _⟩
  · have := exFirstAttempt.2.2.2
    rw [hc] at this
    omega
  · obtain ⟨hrej, q, hq, _, _, hhead⟩ := C04_bytes_redelivery {} exEnv exHistS exP0 exResumable exAttempt false
      (endsWith_cancelled _ _) _ hc
    have : q = exP1 := posOf_inj (hq.symm.trans exFirstAttempt.1)
    subst this
    exact ⟨_, hc, hrej, hhead⟩

/-! ### the informal wording read literally is false at the byte level: a ROTATE consumed after the last accepted
    transaction moves the kept position on to the head of the next file -/

set_option maxRecDepth 100000 in
/-- "the position kept is the `next` label of the last accepted transaction" does NOT hold in general: `exAttemptInvalid`
    (everything accepted, cut behind the ROTATE and the FORMAT_DESCRIPTION event of the second file, then an invalid
    packet) accepted two transactions, the second one ending at offset 435 of the first file, and keeps ⟨bin.000002, 4⟩.
    The true statement is `C04_bytes_resume_pos`: the kept position is `keptPos` (behind the last commit point consumed,
    moved on by every ROTATE consumed after it); both positions have the same expected transactions
    (`C04_bytes_kept_resumable`). -/
theorem C04_bytes_literal_refuted :
    ¬ (∀ (cfg : W.Cfg) (env : Env) (h : W.History) (p : W.Pos) (a : Attempt) (e : Bool), Resumable cfg env h p →
        EndsWith env e a.tail → ∀ tx, (runAttempt cfg env h a p).accepted.getLast? = some tx →
        (runAttempt cfg env h a p).pos = tx.next) := by
  intro hall
  have hpos : (runAttempt {} exEnv exHistS exAttemptInvalid exP0).pos = ⟨asc "bin.000002", 4⟩ := by decide
  have hlast : (runAttempt {} exEnv exHistS exAttemptInvalid exP0).accepted.getLast?.map (·.next)
      = some ⟨W.firstFile, 435⟩ := by decide
  cases hg : (runAttempt {} exEnv exHistS exAttemptInvalid exP0).accepted.getLast? with
  | none => rw [hg] at hlast; cases hlast
  | some tx =>
    have := hall {} exEnv exHistS exP0 exAttemptInvalid true exResumable (endsWith_invalid _ _ _ (by decide)) tx hg
    rw [hg] at hlast
    simp only [Option.map_some, Option.some.injEq] at hlast
    rw [hpos, hlast] at this
    revert this
    decide

/-! ### why `SelfAnnounced`: the C01d hypotheses at p are not inherited by the kept position -/

set_option maxRecDepth 100000 in
/-- `exHistR` of Props/C01d resumed at exP (the start of the autocommitted rows change in the second file) satisfies
    every hypothesis of `C01_fidelity_bytes_resume` and no file name is reused; its last transaction relies on the
    TABLE_MAP event of the autocommitted rows change before it.  An attempt that accepts everything and is cut after
    that rows change (4 packets) keeps the position behind it; the clean attempt from there is served the transaction
    without any TABLE_MAP event for its table and fails.  (Real masters write a transaction's table maps inside the
    transaction, which is what `SelfAnnounced` asks.) -/
theorem C04_bytes_unannounced_refuted :
    ¬ (∀ (cfg : W.Cfg) (env : Env) (h : W.History) (p q : W.Pos) (a : Attempt) (e : Bool), p ∈ W.boundaries cfg h →
        WFHistFrom cfg h p → FreshLog h → MapperAgrees env h → EndsWith env e a.tail →
        (runAttempt cfg env h a p).pos = posOf q → (runClean cfg env h q).err = false) := by
  intro hall
  have h := hall {} exEnv exHistR exP ⟨asc "bin.000002", 223⟩ ⟨fun _ => true, 4, [.closed]⟩ false exPBoundary exWFFromP
    (freshLog_of_nodup (by decide)) exMapperR (endsWith_closed _ _) (by decide)
  revert h
  decide

end GV.Props.C04b
