import GV.Props.C01b
import GV.Lemmas.C01c
/-
  C01 (third part) — byte-level fidelity for whole histories, from the head of the log (DESIGN §7 C01).
  Property theorems only; definitions of the statement's vocabulary and all helper lemmas are in GV/Lemmas/C01c.lean
  (namespace GV.C01c):

    posOf / seOfStmt / seOfChange / toTx   the Transaction (labels, commit timestamp, one StreamEvent per change:
                                           statements as {typ := cat, query := (db, charset, sql)}, rows changes as
                                           `Props.C01b.seOfRows`) an expected transaction `W.ETx` must be delivered as
    StmtOK, ChangeOK, CloserOK, UnitOK     per-unit well-formedness: rows changes `RowsOK` with at least one row;
                                           statements with known status variables (`C16.KnownVar`), `charset` what these
                                           variables announce, db < 256 bytes, timestamp < 2^32, `cat` the category of the
                                           SQL text and a DDL/DML one for changes; BEGIN / COMMIT / ROLLBACK texts
                                           classified as such; unknown statements of an unknown category; unknown event
                                           types outside the parser's dispatch list
    histRows, annOK                        every rows change is preceded by its TABLE_MAP event unless its table id was
                                           announced earlier in the log
    WFHist cfg h                           all units OK; one table per table id; announcements; every laid-out event ends
                                           below 2^32 in its file
    MapperAgrees env h                     the table mapper answers `infoOf t` for every table of the history
-/
namespace GV.Props.C01c
open GV GV.M GV.Props.C01 GV.Props.C01b GV.C01c

/-- Byte-level fidelity for whole histories (the FULL unit alphabet of the Spec: transactions closed by XID / COMMIT /
    ROLLBACK with rows and statement changes, DDL, autocommitted rows, statement DML, ROTATE, master restart, GTID,
    anonymous GTID, previous GTIDs, heartbeat, unknown event types, unknown statements; CRC32 on or off, v1 / v2 rows
    events, 4- / 6-byte table ids):
    a replica that starts at the head of the first file, is sent exactly what the Spec master serves
    (artificial ROTATE, FORMAT_DESCRIPTION, every laid-out event of every file, then the channel closes) and whose handler
    accepts everything, calls the handler with exactly the expected transactions — same labels, timestamps, and per
    change the exact StreamEvent down to every column's name, type and canonical text — in order, nothing else, and
    returns the expected end position without error or crash. -/
theorem C01_fidelity_bytes (cfg : W.Cfg) (env : Env) (h : W.History) (hwf : WFHist cfg h) (hm : MapperAgrees env h) :
    parseEvents env (fun _ => true) (PState.init ⟨W.firstFile, 4⟩)
        ((W.serve cfg h ⟨W.firstFile, 4⟩).map Input.event ++ [Input.closed])
      = ⟨(W.expected cfg h ⟨W.firstFile, 4⟩).map (toTx env.ext), (W.expected cfg h ⟨W.firstFile, 4⟩).map (toTx env.ext),
         posOf (W.endPos cfg h ⟨W.firstFile, 4⟩), false, false⟩ :=
  GV.C01c.fidelity_head cfg env h hwf hm

/-- in particular: as many handler calls as commit points, every call accepted -/
theorem C01_fidelity_bytes_count (cfg : W.Cfg) (env : Env) (h : W.History) (hwf : WFHist cfg h) (hm : MapperAgrees env h) :
    let o := parseEvents env (fun _ => true) (PState.init ⟨W.firstFile, 4⟩)
        ((W.serve cfg h ⟨W.firstFile, 4⟩).map Input.event ++ [Input.closed])
    o.calls.length = (W.expected cfg h ⟨W.firstFile, 4⟩).length ∧ o.calls = o.accepted ∧ o.err = false := by
  intro o
  have := C01_fidelity_bytes cfg env h hwf hm
  simp only [o, this, List.length_map, and_self]

/-! non-vacuity: a history with a GTID, a transaction (announced rows change + statement DML) closed by XID, a DDL,
    a ROTATE and an autocommitted rows change relying on the earlier announcement satisfies the hypotheses -/

def exC1 : W.RowsChange :=
  { kind := .update, table := exTable, ts := 77, flags := 1, extra := [7], presentBefore := [true, true],
    presentAfter := [true, true], rows := [([some (.int 4 (-5)), none], [some (.int 4 6), some (.str [1, 2, 3])])],
    announce := true, tmOptional := [] }
def exC2 : W.RowsChange := { exC1 with kind := .write, rows := [([], [some (.int 4 7), none])], announce := false }
def exIns : W.StmtChange :=
  { sql := asc "insert into t values (1)", db := [100], ts := 80, vars := [W.charsetVar 33 33 8],
    cat := Facts.StatementInsert, charset := some (33, 33, 8) }
def exDdl : W.StmtChange := { sql := asc "CREATE table x", db := [100], ts := 81, vars := [], cat := Facts.StatementCreate }
def exHist : W.History :=
  [.gtid (List.replicate 16 3) 5, .tx (asc "BEGIN") [.rows exC1, .stmt exIns] (.xid 9) 90, .ddl exDdl,
   .rotate (asc "bin.000002"), .autoRows exC2]

theorem exTableOK : TableOK {} exTable :=
  ⟨by decide, by intro c hc; simp [exTable] at hc; rcases hc with rfl | rfl <;> (unfold Props.C15.ColOK; decide),
   by decide, rfl, rfl, by decide, by decide, by decide⟩

set_option exponentiation.threshold 512 in
theorem exC1OK : RowsOK {} exC1 := by
  refine ⟨exTableOK, rfl, rfl, by decide, by decide, by decide, ?_, ?_⟩
  · intro r hr
    simp [exC1] at hr
    subst hr
    refine ⟨fun _ => ⟨rfl, ?_⟩, fun _ => ⟨rfl, ?_⟩⟩
    · intro p hp
      simp [exC1, exTable, colsU, W.selectPresent] at hp
      rcases hp with rfl | rfl <;> simp [W.CellOK, W.intTypes]
    · intro p hp
      simp [exC1, exTable, colsU, W.selectPresent] at hp
      rcases hp with rfl | rfl <;> simp [W.CellOK, W.intTypes]
  · decide

theorem exC2OK : RowsOK {} exC2 := by
  refine ⟨exTableOK, rfl, rfl, by decide, by decide, by decide, ?_, ?_⟩
  · intro r hr
    simp [exC2] at hr
    subst hr
    refine ⟨fun h => absurd rfl h, fun _ => ⟨rfl, ?_⟩⟩
    intro p hp
    simp [exC2, exC1, exTable, colsU, W.selectPresent] at hp
    rcases hp with rfl | rfl <;> simp [W.CellOK, W.intTypes]
  · decide

theorem exInsOK : StmtOK exIns :=
  ⟨by intro v hv; simp [exIns] at hv; subst hv; right; right; right; right; exact ⟨rfl, by simp [W.charsetVar]⟩,
   by decide, by decide, by decide, by decide, by decide⟩

theorem exDdlOK : StmtOK exDdl :=
  ⟨by intro v hv; simp [exDdl] at hv, by decide, by decide, by decide, by decide, by decide⟩

theorem exWF : WFHist {} exHist := by
  refine ⟨?_, ?_, ?_, ?_⟩
  · intro u hu
    simp only [exHist, List.mem_cons, List.not_mem_nil, or_false] at hu
    rcases hu with rfl | rfl | rfl | rfl | rfl
    · trivial
    · refine ⟨by decide, ?_, trivial, by decide⟩
      intro c hc
      simp only [List.mem_cons, List.not_mem_nil, or_false] at hc
      rcases hc with rfl | rfl
      · exact ⟨exC1OK, by decide⟩
      · exact ⟨exInsOK, by unfold isChangeCat; decide⟩
    · exact ⟨exDdlOK, by unfold isChangeCat; decide⟩
    · trivial
    · exact ⟨exC2OK, by decide⟩
  · decide
  · exact ⟨Or.inl rfl, Or.inr (by decide), trivial⟩
  · decide

theorem exMapper :
    MapperAgrees ⟨⟨fun _ => [], fun _ => [], fun _ => [], fun _ => 0⟩, fun _ _ => some (infoOf exTable)⟩ exHist := by
  intro c hc
  simp [exHist, histRows, unitRows, changeRows] at hc
  rcases hc with rfl | rfl <;> rfl

example : parseEvents ⟨⟨fun _ => [], fun _ => [], fun _ => [], fun _ => 0⟩, fun _ _ => some (infoOf exTable)⟩
      (fun _ => true) (PState.init ⟨W.firstFile, 4⟩)
      ((W.serve {} exHist ⟨W.firstFile, 4⟩).map Input.event ++ [Input.closed])
    = ⟨(W.expected {} exHist ⟨W.firstFile, 4⟩).map (toTx ⟨fun _ => [], fun _ => [], fun _ => [], fun _ => 0⟩),
       (W.expected {} exHist ⟨W.firstFile, 4⟩).map (toTx ⟨fun _ => [], fun _ => [], fun _ => [], fun _ => 0⟩),
       posOf (W.endPos {} exHist ⟨W.firstFile, 4⟩), false, false⟩ :=
  C01_fidelity_bytes {} _ exHist exWF exMapper
example : (W.expected {} exHist ⟨W.firstFile, 4⟩).length = 3 := by decide

end GV.Props.C01c
