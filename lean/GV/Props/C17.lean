import GV.Model.Header
import GV.Expect.C17
/-
  C17 — the validity gate.  Property theorems only (DESIGN §7 C17).
-/
namespace GV.Props.C17
open GV GV.M

/-- IsValid accepts exactly the buffers that hold a full 19-byte header and whose length field (bytes 9..12,
    little-endian) equals the buffer length.  The bound is explicit: `uint32(bufLen)` truncates above it. -/
theorem C17_isvalid_iff (ev : Bytes) (h : ev.length < 2 ^ 32) :
    isValid ev = true ↔ 19 ≤ ev.length ∧ Bytes.le ((ev.drop 9).take 4) = ev.length := by
  unfold isValid
  by_cases h19 : ev.length < 19
  · simp [h19]; omega
  · have h13 : 9 ≤ 13 ∧ 13 ≤ ev.length := by omega
    have hu : u32 ev.length = ev.length := by unfold u32; omega
    simp only [h19, if_false, evLength, readLE, Bytes.slice, h13, and_self, if_true, Res.ok_bind, Res.pure_eq, hu]
    constructor
    · intro hv
      refine ⟨by omega, ?_⟩
      by_cases hc : (Bytes.le (List.take (13 - 9) (List.drop 9 ev)) < 19 ||
          Bytes.le (List.take (13 - 9) (List.drop 9 ev)) != ev.length) = true
      · simp [hc] at hv
      · simp at hc; exact hc.2
    · intro ⟨_, he⟩
      have : (13 - 9 : Nat) = 4 := rfl
      rw [this, he]
      have : ¬ ev.length < 19 := h19
      simp [this]

/-- non-vacuity: a 19-byte event whose length field is 19 is accepted, a truncated one is not -/
example : isValid ([0,0,0,0, 16, 1,0,0,0, 19,0,0,0, 23,0,0,0, 0,0]) = true := by decide
example : isValid ([0,0,0,0, 16, 1,0,0,0, 19,0,0,0, 23,0,0,0, 0]) = false := by decide

end GV.Props.C17
