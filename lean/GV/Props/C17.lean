import GV.Model.Streamer
import GV.Expect.C17
/-
  C17 — the validity gate.  Property theorems only (DESIGN §7 C17).
-/
namespace GV.Props.C17
open GV GV.M

/-- IsValid accepts exactly the buffers that hold a full 19-byte header and whose length field (bytes 9..12,
    little-endian) equals the buffer length.  The bound is explicit: `uint32(bufLen)` truncates above it. -/
theorem C17_isvalid_iff (ev : Bytes) (h : ev.length < 2 ^ 32) :
    isValid ev = true ↔ 19 ≤ ev.length ∧ Bytes.le ((ev.drop 9).take 4) = ev.length := by
  unfold isValid
  by_cases h19 : ev.length < 19
  · simp [h19]; omega
  · have h13 : 9 ≤ 13 ∧ 13 ≤ ev.length := by omega
    have hu : u32 ev.length = ev.length := by unfold u32; omega
    simp only [h19, if_false, evLength, readLE, Bytes.slice, h13, and_self, if_true, Res.ok_bind, Res.pure_eq, hu]
    constructor
    · intro hv
      refine ⟨by omega, ?_⟩
      by_cases hc : (Bytes.le (List.take (13 - 9) (List.drop 9 ev)) < 19 ||
          Bytes.le (List.take (13 - 9) (List.drop 9 ev)) != ev.length) = true
      · simp [hc] at hv
      · simp at hc; exact hc.2
    · intro ⟨_, he⟩
      have : (13 - 9 : Nat) = 4 := rfl
      rw [this, he]
      have : ¬ ev.length < 19 := h19
      simp [this]

/-- header accessors never fail on accepted buffers -/
theorem C17_accessors_total (ev : Bytes) (h : isValid ev = true) :
    (∃ a, evTimestamp ev = .ok a) ∧ (∃ a, evType ev = .ok a) ∧ (∃ a, evServerID ev = .ok a) ∧
    (∃ a, evLength ev = .ok a) ∧ (∃ a, evNextPosition ev = .ok a) ∧ (∃ a, evFlags ev = .ok a) := by
  have h19 : 19 ≤ ev.length := by
    unfold isValid at h
    by_cases hl : ev.length < 19
    · simp [hl] at h
    · omega
  have hget : ∃ x, ev[4]? = some x := by
    have : 4 < ev.length := by omega
    exact ⟨ev[4], by simp [this]⟩
  obtain ⟨x, hx⟩ := hget
  refine ⟨?_, ?_, ?_, ?_, ?_, ?_⟩
  · exact ⟨Bytes.le (ev.take 4), by simp [evTimestamp, Bytes.sliceTo, show 4 ≤ ev.length by omega]⟩
  · exact ⟨x.toNat, by simp [evType, Bytes.get, hx]⟩
  · exact ⟨Bytes.le ((ev.drop 5).take 4), by simp [evServerID, readLE, Bytes.slice, show 5 + 4 ≤ ev.length by omega]⟩
  · exact ⟨Bytes.le ((ev.drop 9).take 4), by simp [evLength, readLE, Bytes.slice, show 9 + 4 ≤ ev.length by omega]⟩
  · exact ⟨Bytes.le ((ev.drop 13).take 4), by simp [evNextPosition, readLE, Bytes.slice, show 13 + 4 ≤ ev.length by omega]⟩
  · exact ⟨Bytes.le ((ev.drop 17).take 2), by simp [evFlags, readLE, Bytes.slice, show 17 + 2 ≤ ev.length by omega]⟩

/-- the streamer applies the gate before touching the packet: whatever the parser state, a rejected buffer is
    classified `invalid` without any accessor or decoder being evaluated on it -/
theorem C17_gate_first (env : Env) (st : PState) (ev : Bytes) (h : isValid ev = false) :
    classify env st ev = .invalid := by
  unfold classify
  simp [h]

/-- a truncated, over-long or garbage packet ends the stream with an error, without a panic, without delivering
    anything from that point on, and with the resume position still the one held before the packet (the last
    accepted commit boundary, by C04_resume_pos) — at any point of any stream, whatever follows -/
theorem C17_invalid_stops (env : Env) (handler : Transaction → Bool) (st : PState) (ev : Bytes) (rest : List Input)
    (h : isValid ev = false) :
    parseEvents env handler st (.event ev :: rest) = ⟨[], [], st.pos, true, false⟩ := by
  simp [parseEvents, stepEvent, C17_gate_first env st ev h, stepD]

/-- non-vacuity: a 19-byte event whose length field is 19 is accepted, a truncated one is not -/
example : isValid ([0,0,0,0, 16, 1,0,0,0, 19,0,0,0, 23,0,0,0, 0,0]) = true := by decide
example : isValid ([0,0,0,0, 16, 1,0,0,0, 19,0,0,0, 23,0,0,0, 0]) = false := by decide

end GV.Props.C17
