import GV.Model.Cell
import GV.Spec.Cell
import GV.Lemmas.Dec
import GV.Lemmas.C11
import GV.Expect.C11
/-
  C11 — DECIMAL decodes to canonical text (DESIGN §7 C11).
  Property theorems only; helper lemmas live in GV/Lemmas/C11.lean.
  A value is given by its digit lists (most significant first): `i` has p-s digits, `f` has s digits.
-/
namespace GV.Props.C11
open GV GV.M

/-- well-formed digit lists for DECIMAL(p,s) -/
structure WF (p s : Nat) (i f : List Nat) : Prop where
  ilen : i.length = p - s
  flen : f.length = s
  idig : ∀ d ∈ i, d < 10
  fdig : ∀ d ∈ f, d < 10

/-- the extracted `dig2bytes` table is MySQL's ⌈k/2⌉ rule the writer uses -/
theorem C11_dig2bytes_table : ∀ k, k < 10 → Facts.dig2bytes[k]? = some (if k = 9 then 4 else W.dig2bytesSpec k) := by
  decide

/-- every DECIMAL(p,s), 1 ≤ p ≤ 65, 0 ≤ s ≤ min 30 p, every representable value (negative zero excluded: MySQL has
    none) decodes to its canonical text: optional '-', integer digits without leading zeros or padding (a single 0
    when there are none), and exactly s fraction digits; and the decoder consumes exactly the encoded bytes. -/
theorem C11_text (E : Ext) (p s : Nat) (hp : 1 ≤ p ∧ p ≤ 65) (hs : s ≤ 30 ∧ s ≤ p) (neg : Bool) (i f : List Nat)
    (wf : WF p s i f) (hz : neg = true → W.digitsVal (i ++ f) ≠ 0) (u : Bool) (rest : Bytes)
    (lc f32 f64 : Nat → Bytes) :
    cellBytes E (W.cell 246 (p * 256 + s) (.dec neg i f) ++ rest) 0 246 (p * 256 + s) u
      = .ok (W.text (p * 256 + s) lc f32 f64 (.dec neg i f), (W.cell 246 (p * 256 + s) (.dec neg i f)).length) := by
  have _ := hz   -- not needed: the decoder round-trips "-0" too (MySQL just never stores it)
  rw [C11.cellBytes_246, C11.text_dec]
  exact C11.decimalBytes_enc p s hp hs neg i f wf.ilen wf.flen wf.idig wf.fdig rest

/-- zero never decodes to an empty (NULL-looking) value; in fact no value does -/
theorem C11_nonempty (md : Nat) (neg : Bool) (i f : List Nat) (lc f32 f64 : Nat → Bytes) :
    W.text md lc f32 f64 (.dec neg i f) ≠ [] := by
  rw [C11.text_dec]
  intro h
  exact C11.intText_ne_nil i (List.append_eq_nil_iff.mp (List.append_eq_nil_iff.mp h).1).2

/-- the canonical text really is the number: parsing the integer part back gives the integer value, and the
    fraction part is exactly the s digits -/
theorem C11_value (i : List Nat) (hi : ∀ d ∈ i, d < 10) :
    decValue (match W.stripLeadingZeros i with | [] => [digit 0] | ds => W.digitsText ds) = some (W.digitsVal i) := by
  exact C11.intText_value i hi

/-- the length rule agrees: cellLength returns the writer's length -/
theorem C11_length (p s : Nat) (hp : 1 ≤ p ∧ p ≤ 65) (hs : s ≤ 30 ∧ s ≤ p) (neg : Bool) (i f : List Nat)
    (wf : WF p s i f) (data : Bytes) (pos : Nat) :
    cellLength data pos 246 (p * 256 + s) = .ok (W.cell 246 (p * 256 + s) (.dec neg i f)).length := by
  have _ := hp   -- not needed for the length rule
  rw [C11.cellLength_246]
  exact C11.decimalLen_enc p s hs neg i f wf.ilen wf.flen

/-! non-vacuity -/
example : WF 5 2 [0, 1, 2] [3, 4] := ⟨rfl, rfl, by decide, by decide⟩
example : (true = true → W.digitsVal ([0, 1, 2] ++ [3, 4]) ≠ 0) := by decide

end GV.Props.C11
