import GV.Model.Cell
import GV.Spec.Cell
import GV.Lemmas.Dec
import GV.Lemmas.C10
import GV.Expect.C10
/-
  C10 — integers, floats, YEAR, BIT, ENUM, SET decode exactly (DESIGN §7 C10).
  Property theorems only; helper lemmas live in GV/Lemmas/C10.lean.
  `W.cell` is the independent writer, `W.text` the canonical text, `M.cellBytes` the model of CellBytes.
-/
namespace GV.Props.C10
open GV GV.M

/-- the (width, MySQL type code) pairs of the integer column types -/
def intTypes : List (Nat × Nat) := [(1, 1), (2, 2), (3, 9), (4, 3), (8, 8)]

/-- "decimal text of the exact value" is meant literally: natDec n is canonical and denotes n -/
theorem C10_natDec_exact (n : Nat) : CanonicalNat (natDec n) ∧ decValue (natDec n) = some n :=
  ⟨natDec_canonical n, decValue_natDec n⟩

/-- signed columns: every value of the two's-complement range decodes to its decimal text -/
theorem C10_int_signed (E : Ext) (w typ md : Nat) (hw : (w, typ) ∈ intTypes) (v : Int)
    (hv : -(2 ^ (8 * w - 1) : Int) ≤ v ∧ v < (2 ^ (8 * w - 1) : Int)) (rest : Bytes) :
    cellBytes E (W.cell typ md (.int w v) ++ rest) 0 typ md false = .ok (intDec v, w) := by
  simp [intTypes] at hw
  rcases hw with ⟨rfl, rfl⟩ | ⟨rfl, rfl⟩ | ⟨rfl, rfl⟩ | ⟨rfl, rfl⟩ | ⟨rfl, rfl⟩
  · simp at hv
    unfold cellBytes
    simp only [W.cell, if_true, get_head_ofLE]
    simp [i8_ofInt v hv]
  · simp at hv
    unfold cellBytes
    simp [W.cell, readLE_head, i16_ofInt v hv]
  · simp at hv
    unfold cellBytes
    simp only [W.cell, Nat.reduceMul]
    simp [get2_ofLE, leIdx_head, UInt8.toNat_ofNat']
    split
    · rename_i hb; rw [i24_neg v hv hb]
    · rename_i hb; rw [← intDec_nonneg, i24_pos v hv hb]
  · simp at hv
    unfold cellBytes
    simp [W.cell, readLE_head, i32_ofInt v hv]
  · simp at hv
    unfold cellBytes
    simp [W.cell, readLE_head, i64_ofInt v hv]

/-- unsigned columns (the mapper marks the column unsigned) -/
theorem C10_int_unsigned (E : Ext) (w typ md : Nat) (hw : (w, typ) ∈ intTypes) (n : Nat)
    (hn : n < 2 ^ (8 * w)) (rest : Bytes) :
    cellBytes E (W.cell typ md (.uint w n) ++ rest) 0 typ md true = .ok (natDec n, w) := by
  simp [intTypes] at hw
  rcases hw with ⟨rfl, rfl⟩ | ⟨rfl, rfl⟩ | ⟨rfl, rfl⟩ | ⟨rfl, rfl⟩ | ⟨rfl, rfl⟩
  · simp at hn
    unfold cellBytes
    simp only [W.cell, if_true, get_head_ofLE]
    simp [UInt8.toNat_ofNat', Nat.mod_eq_of_lt hn]
  · simp at hn
    unfold cellBytes
    simp [W.cell, readLE_head, Nat.mod_eq_of_lt hn]
  · simp at hn
    unfold cellBytes
    simp [W.cell, leIdx_head, Nat.mod_eq_of_lt hn]
  · simp at hn
    unfold cellBytes
    simp [W.cell, readLE_head, Nat.mod_eq_of_lt hn]
  · simp at hn
    unfold cellBytes
    simp [W.cell, readLE_head, Nat.mod_eq_of_lt hn]

/-- YEAR: 0000 for zero, 1900 + b otherwise; four digits for every byte -/
theorem C10_year (E : Ext) (md b : Nat) (hb : b < 256) (u : Bool) (rest : Bytes) :
    cellBytes E (W.cell 13 md (.year b) ++ rest) 0 13 md u
      = .ok (if b = 0 then asc "0000" else natDec (1900 + b), 1) := by
  unfold cellBytes
  simp [W.cell, get_head_cons, UInt8.toNat_ofNat', Nat.mod_eq_of_lt hb, Nat.add_comm]

theorem C10_year_four_digits (b : Nat) (hb : b < 256) (h0 : b ≠ 0) : (natDec (1900 + b)).length = 4 := by
  have _ := h0
  exact natDec_length_four _ (by omega) (by omega)

/-- BIT(n), 1 ≤ n ≤ 64: the ⌈n/8⌉ big-endian bytes verbatim.  Metadata = (n/8)<<8 | n%8. -/
theorem C10_bit (E : Ext) (nbits : Nat) (hn : 1 ≤ nbits ∧ nbits ≤ 64) (bs : Bytes)
    (hl : bs.length = (nbits + 7) / 8) (u : Bool) (rest : Bytes) :
    cellBytes E (W.cell 16 (nbits / 8 * 256 + nbits % 8) (.bit bs) ++ rest) 0 16 (nbits / 8 * 256 + nbits % 8) u
      = .ok (bs, (nbits + 7) / 8) := by
  have hmd : u16 (u16 ((nbits / 8 * 256 + nbits % 8) / 256 * 8) + (nbits / 8 * 256 + nbits % 8) % 256) = nbits := by
    unfold u16; omega
  generalize nbits / 8 * 256 + nbits % 8 = md at hmd ⊢
  unfold cellBytes
  simp [W.cell, hmd, slice_head bs rest _ hl.symm]

/-- ENUM: the member index, 1 or 2 bytes little-endian; both as TypeEnum and packed into TypeString metadata -/
theorem C10_enum (E : Ext) (w n : Nat) (hw : w = 1 ∨ w = 2) (hn : n < 256 ^ w) (u : Bool) (rest : Bytes) :
    cellBytes E (W.cell 247 w (.enum w n) ++ rest) 0 247 w u = .ok (natDec n, w) ∧
    cellBytes E (W.cell 254 (247 * 256 + w) (.enum w n) ++ rest) 0 254 (247 * 256 + w) u = .ok (natDec n, w) := by
  rcases hw with rfl | rfl
  · simp at hn
    unfold cellBytes
    simp only [W.cell, get_head_ofLE]
    simp [UInt8.toNat_ofNat', Nat.mod_eq_of_lt hn]
  · simp at hn
    unfold cellBytes
    simp [W.cell, readLE_head, Nat.mod_eq_of_lt hn]

/-- SET packed into TypeString metadata: the member bitmask as decimal text, 1..8 bytes little-endian -/
theorem C10_set (E : Ext) (w n : Nat) (hw : 1 ≤ w ∧ w ≤ 8) (hn : n < 256 ^ w) (u : Bool) (rest : Bytes) :
    cellBytes E (W.cell 254 (248 * 256 + w) (.set w n) ++ rest) 0 254 (248 * 256 + w) u = .ok (natDec n, w) := by
  have h1 : (248 * 256 + w) / 256 = 248 := by omega
  have h2 : (248 * 256 + w) % 256 = w := by omega
  have h3 : n % 256 ^ w = n := Nat.mod_eq_of_lt hn
  have h4 : u64 n = n := by
    unfold u64
    apply Nat.mod_eq_of_lt
    calc n < 256 ^ w := hn
      _ ≤ 256 ^ 8 := Nat.pow_le_pow_right (by omega) hw.2
  unfold cellBytes
  simp [W.cell, h1, h2, setMask_head rest w n hw.2, h3, h4]

/-- TypeSet proper: the raw bytes -/
theorem C10_set_raw (E : Ext) (w : Nat) (hw : w < 256) (bs : Bytes) (hl : bs.length = w) (u : Bool) (rest : Bytes) :
    cellBytes E (W.cell 248 w (.bit bs) ++ rest) 0 248 w u = .ok (bs, w) := by
  unfold cellBytes
  simp [W.cell, Nat.mod_eq_of_lt hw, slice_head bs rest _ hl.symm]

/-- FLOAT / DOUBLE (partial, named facet: strconv.AppendFloat is Go's runtime and enters as the parameter
    `E.fmtFloat32/64`): the four / eight bytes reach the formatter as exactly the IEEE bit pattern. -/
theorem C10_float_partial (E : Ext) (md : Nat) (u : Bool) (rest : Bytes) :
    (∀ bits, bits < 2 ^ 32 → cellBytes E (W.cell 4 md (.f32 bits) ++ rest) 0 4 md u = .ok (E.fmtFloat32 bits, 4)) ∧
    (∀ bits, bits < 2 ^ 64 → cellBytes E (W.cell 5 md (.f64 bits) ++ rest) 0 5 md u = .ok (E.fmtFloat64 bits, 8)) := by
  constructor
  · intro bits hb
    unfold cellBytes
    simp [W.cell, readLE_head]
    exact congrArg _ (Nat.mod_eq_of_lt hb)
  · intro bits hb
    unfold cellBytes
    simp [W.cell, readLE_head]
    exact congrArg _ (Nat.mod_eq_of_lt hb)

/-- the decoded text is the Spec's canonical text (ties `W.text` to the statements above) -/
theorem C10_matches_spec_text (md : Nat) (lc f32 f64 : Nat → Bytes) (w : Nat) (v : Int) (n : Nat) :
    W.text md lc f32 f64 (.int w v) = intDec v ∧ W.text md lc f32 f64 (.uint w n) = natDec n := ⟨rfl, rfl⟩

/-! non-vacuity -/
example : (3, 9) ∈ intTypes ∧ (-(2 ^ (8 * 3 - 1) : Int) ≤ -2 ∧ (-2 : Int) < 2 ^ (8 * 3 - 1)) := by decide

end GV.Props.C10
