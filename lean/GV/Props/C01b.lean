import GV.Spec.Decoded
import GV.Spec.History
import GV.Spec.CellWF
import GV.Props.C01
import GV.Props.C09b
import GV.Props.C15
import GV.Lemmas.C01b
import GV.Expect.C01
/-
  C01 (second part) — byte-level fidelity for table maps, rows events and whole histories (DESIGN §7 C01).
  Property theorems only; helper lemmas in GV/Lemmas/C01b.lean.
-/
namespace GV.Props.C01b
open GV GV.M GV.Props.C01

/-- the table map the master's TABLE_MAP event for `t` decodes to (flags 1 as the Spec writes them) -/
def tmOf (t : W.TableDef) : TableMap :=
  { flags := 1, database := t.db, name := t.name, types := t.cols.map (fun c => UInt8.ofNat c.typ),
    canBeNull := ⟨W.bitmapBytes (t.cols.map (·.nullable)), t.cols.length⟩, metadata := t.cols.map (·.md) }

/-- what the table mapper answers for `t` -/
def infoOf (t : W.TableDef) : TableInfo := { db := t.db, table := t.name, columns := List.zip t.names t.unsigned }

def colsU (t : W.TableDef) : List (W.ColDef × Bool) := List.zip t.cols t.unsigned

def idw (cfg : W.Cfg) : Nat := if cfg.idw4 then 4 else 6

structure TableOK (cfg : W.Cfg) (t : W.TableDef) : Prop where
  ne : t.cols ≠ []
  cols : ∀ c ∈ t.cols, Props.C15.ColOK c
  count : t.cols.length < 2 ^ 30
  names : t.names.length = t.cols.length
  unsigned : t.unsigned.length = t.cols.length
  db : t.db.length < 256
  name : t.name.length < 256
  id : t.id < 256 ^ idw cfg

def mKind : W.RowKind → RowKind
  | .write => .write | .update => .update | .delete => .delete

/-- the StreamEvent a rows change must be delivered as: kind, table, timestamp, and per row the full-width
    before / after images with each column's name, binlog type and absent / NULL / canonical text -/
def seOfRows (E : Ext) (c : W.RowsChange) : StreamEvent :=
  { typ := kindStmt (mKind c.kind), table := (c.table.db, c.table.name), query := none, timestamp := c.ts,
    rowValues := if c.kind = .delete then [] else
      c.rows.map fun r => GV.C09R.expectCols E (colsU c.table) c.presentAfter c.table.names r.2,
    rowIdentifies := if c.kind = .write then [] else
      c.rows.map fun r => GV.C09R.expectCols E (colsU c.table) c.presentBefore c.table.names r.1 }

structure RowsOK (cfg : W.Cfg) (c : W.RowsChange) : Prop where
  table : TableOK cfg c.table
  pb : c.presentBefore.length = c.table.cols.length
  pa : c.presentAfter.length = c.table.cols.length
  flags : c.flags < 65536
  extra : c.extra.length < 65534
  ts : c.ts < 2 ^ 32
  images : ∀ r ∈ c.rows, (c.kind ≠ .write → Props.C09b.ImageOK (W.selectPresent c.presentBefore (colsU c.table)) r.1) ∧
                          (c.kind ≠ .delete → Props.C09b.ImageOK (W.selectPresent c.presentAfter (colsU c.table)) r.2)
  wide : ∀ r ∈ c.rows, 0 < ((if c.kind ≠ .write then W.imageBytes ((W.selectPresent c.presentBefore (colsU c.table)).map (·.1)) r.1 else []) ++
                            (if c.kind ≠ .delete then W.imageBytes ((W.selectPresent c.presentAfter (colsU c.table)).map (·.1)) r.2 else [])).length

theorem idw_cases (cfg : W.Cfg) : idw cfg = 4 ∨ idw cfg = 6 := by unfold idw; split <;> simp

/-- the two body decoders on the Spec's TABLE_MAP event, behind the stripped header -/
private theorem tm_decoders (st : PState) (cfg : W.Cfg) (hr : Ready cfg st) (crc : Option Bytes) (m : W.EvMeta) (start : Nat)
    (t : W.TableDef) (ht : TableOK cfg t) (optional : Bytes)
    (h4 : evType (C01.hdrOf crc m 19 start (W.tableMapBody (idw cfg) t.id 1 t.db t.name t.cols optional) ++
            W.tableMapBody (idw cfg) t.id 1 t.db t.name t.cols optional) = .ok 19) :
    tableID st.format (C01.hdrOf crc m 19 start (W.tableMapBody (idw cfg) t.id 1 t.db t.name t.cols optional) ++
        W.tableMapBody (idw cfg) t.id 1 t.db t.name t.cols optional) = .ok t.id ∧
    tableMap st.format (C01.hdrOf crc m 19 start (W.tableMapBody (idw cfg) t.id 1 t.db t.name t.cols optional) ++
        W.tableMapBody (idw cfg) t.id 1 t.db t.name t.cols optional) = .ok (tmOf t) := by
  have hf : st.format = fmtOf cfg := hr
  have hhs : st.format.headerSize Facts.eTableMapEvent = .ok (if idw cfg = 4 then 6 else 8) := by
    rw [hf]; exact GV.C01b.hs_tablemap cfg
  obtain ⟨rest, hb⟩ := GV.C01b.tableMapBody_split (idw cfg) t.id 1 t.db t.name t.cols optional
  refine ⟨?_, ?_⟩
  · exact GV.C01b.tableID_body st.format (GV.C01b.hl19 hr) _ (C01.hdrOf_length ..) 19 _ (idw cfg) t.id (idw_cases cfg)
      _ rest hb h4 hhs (by rcases idw_cases cfg with h | h <;> simp [h]) ht.id
  · exact Props.C15.C15_tablemap_partial st.format (GV.C01b.hl19 hr) _ (C01.hdrOf_length ..) (idw cfg) t.id 1
      (idw_cases cfg) hhs ht.id (by decide) t.db t.name ht.db ht.name t.cols ht.ne ht.cols ht.count optional

/-- (1f) a TABLE_MAP event for a table id not seen before: the mapper is consulted and, its column count agreeing,
    the table is cached with the decoded map and the mapper's answer -/
theorem C01_classify_tablemap_new (env : Env) (st : PState) (cfg : W.Cfg) (hr : Ready cfg st) (crc : Option Bytes)
    (hc : crcOK cfg crc) (m : W.EvMeta) (start : Nat) (t : W.TableDef) (ht : TableOK cfg t) (optional : Bytes)
    (hok : EvOK crc m start (W.tableMapBody (idw cfg) t.id 1 t.db t.name t.cols optional))
    (hnew : findTable st.tables t.id = none) (hm : env.mapper t.db t.name = some (infoOf t)) :
    classify env st (W.event crc m 19 start (W.tableMapBody (idw cfg) t.id 1 t.db t.name t.cols optional)).1
      = .tableMap t.id ⟨tmOf t, infoOf t⟩ false := by
  obtain ⟨h1, h2, h3, h4, _, _⟩ := C01.pre st.format crc m 19 start _ (GV.C01b.crc_pre hr hc)
    (GV.C01b.meta_pre 19 (by decide) hok)
  obtain ⟨hid, htm⟩ := tm_decoders st cfg hr crc m start t ht optional h4
  have hcl : (infoOf t).columns.length = t.cols.length := by simp [infoOf, ht.names, ht.unsigned]
  simp only [classify, h1, h2, h3, h4, hid, htm, hnew, ofRes, GV.C01b.notZero hr, Facts.eFormatDescriptionEvent,
    Facts.eXIDEvent, Facts.eRotateEvent, Facts.eQueryEvent, Facts.eTableMapEvent]
  simp [hm, hcl, tmOf]

/-- (1g) … and for an id already cached *for the same table* (database and name): the map is replaced, the mapper's
    earlier answer kept, the mapper not asked.

    (Until finding F13 was repaired in streamer.go this held for every cached id — the theorem was called
    `C01_classify_tablemap_known` and had no `hsame` — which is exactly the defect: an id re-used for another table
    kept the old table's mapper info.  For the repaired code that statement is false, see
    `GV.Props.C15c.C15_packet_id_reused_other_table`.) -/
theorem C01_classify_tablemap_known_same_table (env : Env) (st : PState) (cfg : W.Cfg) (hr : Ready cfg st)
    (crc : Option Bytes)
    (hc : crcOK cfg crc) (m : W.EvMeta) (start : Nat) (t : W.TableDef) (ht : TableOK cfg t) (optional : Bytes)
    (hok : EvOK crc m start (W.tableMapBody (idw cfg) t.id 1 t.db t.name t.cols optional))
    (old : TableCache) (hold : findTable st.tables t.id = some old)
    (hsame : old.tableMap.database = t.db ∧ old.tableMap.name = t.name) :
    classify env st (W.event crc m 19 start (W.tableMapBody (idw cfg) t.id 1 t.db t.name t.cols optional)).1
      = .tableMap t.id { old with tableMap := tmOf t } true := by
  obtain ⟨h1, h2, h3, h4, _, _⟩ := C01.pre st.format crc m 19 start _ (GV.C01b.crc_pre hr hc)
    (GV.C01b.meta_pre 19 (by decide) hok)
  obtain ⟨hid, htm⟩ := tm_decoders st cfg hr crc m start t ht optional h4
  simp only [classify, h1, h2, h3, h4, hid, htm, hold, ofRes, GV.C01b.notZero hr, Facts.eFormatDescriptionEvent,
    Facts.eXIDEvent, Facts.eRotateEvent, Facts.eQueryEvent, Facts.eTableMapEvent]
  simp [tmOf, hsame.1, hsame.2]

/-- (1g') a TABLE_MAP event for an id that is cached for *another* table (the id was re-used: table ids start over
    when the master restarts) is treated like one for a new id: the mapper is consulted and, its column count agreeing,
    the decoded map and the mapper's answer are what `stepD` will put in the cache in place of the stale entry -/
theorem C01_classify_tablemap_reused (env : Env) (st : PState) (cfg : W.Cfg) (hr : Ready cfg st) (crc : Option Bytes)
    (hc : crcOK cfg crc) (m : W.EvMeta) (start : Nat) (t : W.TableDef) (ht : TableOK cfg t) (optional : Bytes)
    (hok : EvOK crc m start (W.tableMapBody (idw cfg) t.id 1 t.db t.name t.cols optional))
    (old : TableCache) (hold : findTable st.tables t.id = some old)
    (hdiff : ¬ (old.tableMap.database = t.db ∧ old.tableMap.name = t.name))
    (hm : env.mapper t.db t.name = some (infoOf t)) :
    classify env st (W.event crc m 19 start (W.tableMapBody (idw cfg) t.id 1 t.db t.name t.cols optional)).1
      = .tableMap t.id ⟨tmOf t, infoOf t⟩ false := by
  obtain ⟨h1, h2, h3, h4, _, _⟩ := C01.pre st.format crc m 19 start _ (GV.C01b.crc_pre hr hc)
    (GV.C01b.meta_pre 19 (by decide) hok)
  obtain ⟨hid, htm⟩ := tm_decoders st cfg hr crc m start t ht optional h4
  have hcl : (infoOf t).columns.length = t.cols.length := by simp [infoOf, ht.names, ht.unsigned]
  simp only [classify, h1, h2, h3, h4, hid, htm, hold, ofRes, GV.C01b.notZero hr, Facts.eFormatDescriptionEvent,
    Facts.eXIDEvent, Facts.eRotateEvent, Facts.eQueryEvent, Facts.eTableMapEvent]
  simp [hm, hcl, tmOf, hdiff]

/-- (1h) a rows event (write / update / delete, v1 / v2, 4- / 6-byte id, full or partial images) for a cached table
    is classified as exactly the change the master logged -/
theorem C01_classify_rows (env : Env) (st : PState) (cfg : W.Cfg) (hr : Ready cfg st) (crc : Option Bytes)
    (hc : crcOK cfg crc) (m : W.EvMeta) (start : Nat) (c : W.RowsChange) (hrows : RowsOK cfg c) (hne : c.rows ≠ [])
    (hts : m.ts = c.ts)
    (hok : EvOK crc m start (W.rowsBody c.kind cfg.rowsV2 (idw cfg) c.table.id c.flags c.extra c.table.cols
                              c.presentBefore c.presentAfter c.rows))
    (hcache : findTable st.tables c.table.id = some ⟨tmOf c.table, infoOf c.table⟩) :
    classify env st (W.event crc m (W.rowsEventType c.kind cfg.rowsV2) start
        (W.rowsBody c.kind cfg.rowsV2 (idw cfg) c.table.id c.flags c.extra c.table.cols c.presentBefore c.presentAfter c.rows)).1
      = .rows (seOfRows env.ext c)
          (start + (19 + (W.rowsBody c.kind cfg.rowsV2 (idw cfg) c.table.id c.flags c.extra c.table.cols
                            c.presentBefore c.presentAfter c.rows).length + (match crc with | some x => x.length | none => 0)))
          c.ts := by
  have hlt := GV.C01b.rowsType_lt c.kind cfg.rowsV2
  obtain ⟨h1, h2, h3, h4, h5, h6⟩ := C01.pre st.format crc m (W.rowsEventType c.kind cfg.rowsV2) start _
    (GV.C01b.crc_pre hr hc) (GV.C01b.meta_pre _ hlt hok)
  have hf : st.format = fmtOf cfg := hr
  have hhs : st.format.headerSize (W.rowsEventType c.kind cfg.rowsV2)
      = .ok (if idw cfg = 4 then 6 else if cfg.rowsV2 then 10 else 8) := by
    rw [hf]; exact GV.C01b.hs_rows cfg c.kind
  obtain ⟨rest, hb⟩ := GV.C01b.rowsBody_split c.kind cfg.rowsV2 (idw cfg) c.table.id c.flags c.extra c.table.cols
    c.presentBefore c.presentAfter c.rows
  have hid := GV.C01b.tableID_body st.format (GV.C01b.hl19 hr) _ (C01.hdrOf_length ..) _ _ (idw cfg) c.table.id
    (idw_cases cfg) _ rest hb h4 hhs (by rcases idw_cases cfg with h | h <;> cases cfg.rowsV2 <;> simp [h]) hrows.table.id
  have htypc : ∀ x ∈ c.table.cols, x.typ < 256 := fun x hx => GV.C15.colOK_typ x (hrows.table.cols x hx)
  have hcnt : c.table.cols.length < 2 ^ 31 := by
    have := hrows.table.count
    simp only [Nat.reducePow] at this ⊢; omega
  have hR := GV.C01b.rows_table st.format (GV.C01b.hl19 hr) _ (C01.hdrOf_length ..) c.kind cfg.rowsV2 (idw cfg)
    c.table.id c.flags (idw_cases cfg) c.table hrows.table.unsigned hrows.table.ne hcnt c.extra hrows.extra
    c.presentBefore c.presentAfter c.rows h4 hhs hrows.flags hrows.pb hrows.pa hrows.images hrows.wide
  have hO := GV.C01b.rowsOf_table env.ext c.table hrows.table.names hrows.table.unsigned htypc c.kind c.flags
    c.presentBefore c.presentAfter hrows.pb hrows.pa c.rows hrows.images
  have key := GV.C01b.classify_rows_generic env st _ _ c.kind cfg.rowsV2 h1 h2 (GV.C01b.notZero hr) h3 h4 c.table.id
    ⟨tmOf c.table, infoOf c.table⟩ _ _ _ _ _ hid hcache hR h5 h6 hO
  have _ := hne
  have hmk : ∀ k, GV.C01b.mk k = mKind k := by intro k; cases k <;> rfl
  rw [key, hts, hmk]
  unfold seOfRows
  cases crc <;> rfl

/-! non-vacuity -/
def exTable : W.TableDef :=
  { id := 7, db := [100], name := [116], cols := [⟨3, 0, true⟩, ⟨15, 300, true⟩], names := [[97], [98]], unsigned := [false, false] }
example : TableOK {} exTable :=
  ⟨by decide, by intro c hc; simp [exTable] at hc; rcases hc with rfl | rfl <;> (unfold Props.C15.ColOK; decide),
   by decide, rfl, rfl, by decide, by decide, by decide⟩

end GV.Props.C01b
