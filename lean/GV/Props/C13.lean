import GV.Model.Rows
import GV.Spec.Cell
import GV.Lemmas.Dec
import GV.Lemmas.C13
import GV.Expect.C13
/-
  C13 — string and binary values are verbatim; NULL, empty and absent differ (DESIGN §7 C13).
  Property theorems only; helper lemmas live in GV/Lemmas/C13.lean.
-/
namespace GV.Props.C13
open GV GV.M

/-- MySQL's packing of CHAR/BINARY metadata: byte0 = real_type ^ ((len & 0x300) >> 4), byte1 = len & 0xff -/
def charMd (maxLen : Nat) : Nat := ((254 ^^^ ((maxLen &&& 0x300) >>> 4)) <<< 8) ||| (maxLen &&& 0xff)

/-- VARCHAR / VAR_STRING: metadata = declared maximum in bytes (0..65535); the prefix has 2 bytes iff it exceeds 255 -/
theorem C13_varchar (E : Ext) (typ md : Nat) (ht : typ = 15 ∨ typ = 253) (hmd : md ≤ 65535) (b : Bytes)
    (hb : b.length ≤ md) (u : Bool) (rest : Bytes) :
    cellBytes E (W.cell typ md (.str b) ++ rest) 0 typ md u = .ok (b, (if md > 255 then 2 else 1) + b.length) := by
  have hw : W.cell typ md (.str b) = W.lenPrefix (if md > 255 then 2 else 1) b := by
    simp only [W.cell, W.strPrefixWidth, ht, if_true]
  rw [hw, GV.C13.cellBytes_varchar E _ typ md u ht]
  by_cases h : md > 255
  · simp only [h, if_true]
    exact GV.C13.read_long b rest (by omega)
  · simp only [h, if_false]
    exact GV.C13.read_short b rest (by omega)

/-- CHAR / BINARY: declared byte length 0..1023 packed into the metadata; prefix 2 bytes iff it exceeds 255 -/
theorem C13_char (E : Ext) (maxLen : Nat) (hm : maxLen ≤ 1023) (b : Bytes) (hb : b.length ≤ maxLen)
    (u : Bool) (rest : Bytes) :
    cellBytes E (W.cell 254 (charMd maxLen) (.str b) ++ rest) 0 254 (charMd maxLen) u
      = .ok (b, (if maxLen > 255 then 2 else 1) + b.length) := by
  obtain ⟨hs, h7, h8, hl⟩ := GV.C13.charMd_facts maxLen (by omega)
  have hw : W.cell 254 (charMd maxLen) (.str b) = W.lenPrefix (if maxLen > 255 then 2 else 1) b := by
    simp only [W.cell, W.strPrefixWidth, charMd]
    simp only [Nat.reduceEqDiff, or_self, if_false, if_true, hl]
  rw [hw, GV.C13.cellBytes_char E _ (charMd maxLen) u h7 h8]
  have hs' : stringMax (charMd maxLen) = maxLen := hs
  rw [hs']
  by_cases h : maxLen > 255
  · simp only [h, if_true]
    exact GV.C13.read_long b rest (by omega)
  · simp only [h, if_false]
    exact GV.C13.read_short b rest (by omega)

/-- TEXT/BLOB family and GEOMETRY: metadata = number of length bytes (1..4) -/
theorem C13_blob (E : Ext) (typ w : Nat) (ht : typ = 249 ∨ typ = 250 ∨ typ = 251 ∨ typ = 252 ∨ typ = 255)
    (hw : 1 ≤ w ∧ w ≤ 4) (b : Bytes) (hb : b.length < 256 ^ w) (u : Bool) (rest : Bytes) :
    cellBytes E (W.cell typ w (.str b) ++ rest) 0 typ w u = .ok (b, w + b.length) := by
  have hw' : W.cell typ w (.str b) = W.lenPrefix w b := by
    rcases ht with rfl | rfl | rfl | rfl | rfl <;> simp [W.cell, W.strPrefixWidth]
  rw [hw', GV.C13.cellBytes_blob E _ typ w u ht]
  exact GV.C13.read_blob w b rest hw hb

/-- the length rule agrees with the decoder on these types -/
theorem C13_lengths (typ md : Nat) (b : Bytes) (rest : Bytes)
    (h : (typ = 15 ∨ typ = 253) ∧ md ≤ 65535 ∧ b.length ≤ md ∨
         typ = 254 ∧ (∃ maxLen, maxLen ≤ 1023 ∧ md = charMd maxLen ∧ b.length ≤ maxLen) ∨
         (typ = 249 ∨ typ = 250 ∨ typ = 251 ∨ typ = 252 ∨ typ = 255) ∧ 1 ≤ md ∧ md ≤ 4 ∧ b.length < 256 ^ md) :
    cellLength (W.cell typ md (.str b) ++ rest) 0 typ md = .ok (W.cell typ md (.str b)).length := by
  rcases h with ⟨ht, hmd, hb⟩ | ⟨rfl, maxLen, hm, rfl, hb⟩ | ⟨ht, h1, h4, hb⟩
  · have hw : W.cell typ md (.str b) = W.lenPrefix (if md > 255 then 2 else 1) b := by
      simp only [W.cell, W.strPrefixWidth, ht, if_true]
    rw [hw, GV.C13.cellLength_varchar _ typ md ht]
    by_cases h : md > 255
    · simp only [h, if_true]
      exact GV.C13.len_long b rest (by omega)
    · simp only [h, if_false]
      exact GV.C13.len_short b rest (by omega)
  · obtain ⟨hs, h7, h8, hl⟩ := GV.C13.charMd_facts maxLen (by omega)
    have hw : W.cell 254 (charMd maxLen) (.str b) = W.lenPrefix (if maxLen > 255 then 2 else 1) b := by
      simp only [W.cell, W.strPrefixWidth, charMd]
      simp only [Nat.reduceEqDiff, or_self, if_false, if_true, hl]
    rw [hw, GV.C13.cellLength_char _ (charMd maxLen) h7 h8]
    have hs' : stringMax (charMd maxLen) = maxLen := hs
    rw [hs']
    by_cases h : maxLen > 255
    · simp only [h, if_true]
      exact GV.C13.len_long b rest (by omega)
    · simp only [h, if_false]
      exact GV.C13.len_short b rest (by omega)
  · have hw' : W.cell typ md (.str b) = W.lenPrefix md b := by
      rcases ht with rfl | rfl | rfl | rfl | rfl <;> simp [W.cell, W.strPrefixWidth]
    rw [hw', GV.C13.cellLength_blob _ typ md ht]
    exact GV.C13.len_blob md b rest ⟨h1, h4⟩ hb

/-- NULL, empty and absent are three different observations: in a three-column VARCHAR table whose image has
    column 0 absent, column 1 NULL and column 2 the empty string, the row converts to exactly
    [absent, null, value []] — `value []` is Go's non-nil empty slice, `null` the nil slice. -/
theorem C13_distinct (E : Ext) (n0 n1 n2 : Bytes) (md : Nat) (hmd : md ≤ 65535) :
    let tm : TableMap := { flags := 0, database := [], name := [], types := [15, 15, 15],
                           canBeNull := ⟨[7], 3⟩, metadata := [md, md, md] }
    let ti : TableInfo := { db := [], table := [], columns := [(n0, false), (n1, false), (n2, false)] }
    let present : Bitmap := ⟨[6], 3⟩          -- columns 1 and 2 present
    let nulls : Bitmap := ⟨[1], 2⟩            -- first present column NULL
    rowColumns E tm ti present nulls (W.cell 15 md (.str []) ) 3 0 0 0
      = .ok [⟨n0, 15, .absent⟩, ⟨n1, 15, .null⟩, ⟨n2, 15, .value []⟩] ∧
    Col.absent ≠ Col.null ∧ Col.null ≠ Col.value [] ∧ Col.absent ≠ Col.value [] := by
  intro tm ti present nulls
  refine ⟨?_, by decide, by decide, by decide⟩
  have hc := C13_varchar E 15 md (Or.inl rfl) hmd [] (Nat.zero_le _) false []
  rw [List.append_nil] at hc
  simp [rowColumns, tm, ti, present, nulls, Bitmap.bit, Bytes.get, hc]

/-! non-vacuity -/
example : charMd 1023 = 0xceff ∧ charMd 255 = 0xfeff ∧ charMd 256 = 0xee00 := by decide
example : ([1, 2, 3] : Bytes).length ≤ 300 ∧ 300 ≤ 65535 := by decide

end GV.Props.C13
